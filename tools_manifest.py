#!/usr/bin/env python3
"""Regenerate MANIFEST.json's checks / not_applicable from the table below (kept next to the check script)."""
import json, sys
ALL = [f"C{i:02d}" for i in range(1, 19)]
CLAIMS = json.load(open('/verif/claims.json'))
m = json.load(open('/verif/MANIFEST.json'))
m['checks'] = []
for pid in ALL:
    if pid not in CLAIMS:
        continue
    c = CLAIMS[pid]
    m['checks'].append({"property_id": pid, "quick_cmd": f"./check {pid} quick", "thorough_cmd": f"./check {pid} thorough",
        "evidence_file": f"/verif/evidence/{pid}.json", "replay_cmd_template": "./check replay {path}", "engine": "lean-model",
        "level_claimed": {"category": "proof", "text": c["text"], "design_ref": f"DESIGN.md §5 {pid}"},
        "level_note": c["note"], "technique": "Lean 4 machine-checked proof: " + c["technique"]})
m['notes']=m.get('notes','')
m['not_applicable'] = [{"property_id": p, "reason": "not yet claimed: the correspondence for this property runs, its theorems are still being written in this session (the technique applies; see DESIGN.md §5)"} for p in ALL if p not in CLAIMS]
for e in m['engines']:
    e['serves_properties'] = [p for p in ALL if p in CLAIMS]
json.dump(m, open('/verif/MANIFEST.json', 'w'), indent=1)
print(len(m['checks']), 'claimed;', len(m['not_applicable']), 'not yet')
