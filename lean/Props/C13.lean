import Model.Train
import Proofs.Real

/-!
# C13 — early stopping and the returned histories obey their contract

`Network.learn` = flags on, `epochLoop (epochStep …) (stopAfter …)` for at most `epochs` epochs, flags off
(`Model/Train.lean`).  The theorems are about exactly these definitions:

* `epochLoop_spec` — for *every* step function (so for every network, data set and validation-loss
  trajectory): the loop runs `k` epochs, the stop test was `false` after each of the first `k-1`, and if
  `k` is smaller than the budget the stop test was `true` after epoch `k`: it stops only if, and as soon
  as, the test holds;
* `shouldStop_*` — the test is "more than `tolerance` epochs have run and the last `tolerance` recorded
  validation losses strictly increase" (a plateau is not an increase);
* `epochStep_lengths` — every epoch appends exactly one training-loss entry and, when validation data
  is given, exactly one validation-loss and one accuracy entry (none otherwise).
-/

set_option linter.unusedSectionVars false

namespace C13
open Network Scalar

/-- run exactly `k` epochs starting at epoch `e`, without consulting the stop test -/
def runK {S : Type} (step : Nat → S → Except Err S) : Nat → Nat → S → Except Err S
  | 0, _, s => .ok s
  | k+1, e, s => match step e s with
    | .error x => .error x
    | .ok s' => runK step k (e + 1) s'

/-- **the loop stops only if and as soon as the stop test holds** (any step function, any test) -/
theorem epochLoop_spec {S : Type} (step : Nat → S → Except Err S) (stop : Nat → S → Except Err Bool) :
    ∀ (fuel e : Nat) (s r : S), epochLoop step stop fuel e s = .ok r →
      ∃ k, k ≤ fuel ∧ (fuel = 0 ∨ 1 ≤ k) ∧ runK step k e s = .ok r ∧
        (∀ j, 1 ≤ j → j < k → ∃ sj, runK step j e s = .ok sj ∧ stop (e + j - 1) sj = .ok false) ∧
        (k < fuel → stop (e + k - 1) r = .ok true) := by
  intro fuel
  induction fuel with
  | zero =>
    intro e s r h
    simp only [epochLoop, Except.ok.injEq] at h
    subst h
    exact ⟨0, Nat.le_refl _, Or.inl rfl, rfl, by intro j h1 h2; omega, by intro h; omega⟩
  | succ fuel ih =>
    intro e s r h
    unfold epochLoop at h
    cases hs : step e s with
    | error x => simp [hs] at h
    | ok s' =>
      simp only [hs] at h
      cases ht : stop e s' with
      | error x => simp [ht] at h
      | ok b =>
        cases b with
        | true =>
          simp only [ht, Except.ok.injEq] at h
          subst h
          refine ⟨1, by omega, Or.inr (Nat.le_refl _), by simp [runK, hs], by intro j h1 h2; omega, ?_⟩
          intro _; simpa using ht
        | false =>
          simp only [ht] at h
          obtain ⟨k, hk, hk1, hrun, hmid, hstop⟩ := ih (e + 1) s' r h
          refine ⟨k + 1, by omega, Or.inr (by omega), by simp [runK, hs, hrun], ?_, ?_⟩
          · intro j h1 h2
            by_cases hj : j = 1
            · subst hj
              exact ⟨s', by simp [runK, hs], by simpa using ht⟩
            · obtain ⟨sj, a, b⟩ := hmid (j - 1) (by omega) (by omega)
              refine ⟨sj, ?_, ?_⟩
              · have : j = (j - 1) + 1 := by omega
                rw [this]; simp [runK, hs, a]
              · have : e + j - 1 = e + 1 + (j - 1) - 1 := by omega
                rw [this]; exact b
          · intro hlt
            have := hstop (by omega)
            have e2 : e + (k + 1) - 1 = e + 1 + k - 1 := by omega
            rw [e2]; exact this

/-- without a stop test that ever fires (no validation data) all epochs run -/
theorem epochLoop_never_stops {S : Type} (step : Nat → S → Except Err S) :
    ∀ (fuel e : Nat) (s : S), epochLoop step (fun _ _ => .ok false) fuel e s = runK step fuel e s := by
  intro fuel
  induction fuel with
  | zero => intro e s; rfl
  | succ fuel ih =>
    intro e s
    unfold epochLoop runK
    cases hs : step e s with
    | error x => rfl
    | ok s' => simp [ih]

theorem no_validation_never_stops {α : Type} [Scalar α] (e : Nat) (r : LearnResult α) :
    stopAfter (none : Option (List (Tensor α) × List (Tensor α) × Nat)) e r = .ok false := rfl

/-! ### the stop test -/

variable {α : Type} [Scalar α]

/-- not enough epochs yet: never stop -/
theorem shouldStop_too_early (T e : Nat) (vl : List α) (h : e ≤ T) : shouldStop T e vl = .ok false := by
  simp [shouldStop, Nat.not_lt.mpr h]

/-- tolerance 0 is an arithmetic error (`threshold - 1` underflows), as in the debug build -/
theorem shouldStop_zero (e : Nat) (vl : List α) (h : 0 < e) : shouldStop 0 e vl = .error .arith := by
  simp [shouldStop, h]

theorem shouldStop_eq (T e : Nat) (vl : List α) (h1 : T < e) (h2 : 0 < T) :
    shouldStop T e vl = .ok (increasingNewestFirst (vl.reverse.take T)) := by
  have : T ≠ 0 := by omega
  simp [shouldStop, h1, this]

/-- every entry of a newest-first window is strictly greater than the one recorded before it -/
def StrictlyRising : List ℝ → Prop
  | [] => True
  | [_] => True
  | newer :: older :: rest => older < newer ∧ StrictlyRising (older :: rest)

/-- over the reals: the newest-first window test is exactly "strictly rising" -/
theorem increasing_iff : ∀ (w : List ℝ), increasingNewestFirst w = true ↔ StrictlyRising w
  | [] => by simp [increasingNewestFirst, StrictlyRising]
  | [_] => by simp [increasingNewestFirst, StrictlyRising]
  | a :: b :: rest => by
    have ih := increasing_iff (b :: rest)
    simp only [increasingNewestFirst, Bool.and_eq_true, Bool.not_eq_true', StrictlyRising]
    rw [ih]
    have key : Scalar.le a b = false ↔ b < a := by
      unfold Scalar.le
      simp only [Bool.or_eq_false_iff]
      constructor
      · rintro ⟨h1, h3⟩
        simp [Scalar.lt] at h1
        simp [Scalar.beq] at h3
        exact lt_of_le_of_ne h1 (fun e => h3 e.symm)
      · intro h
        constructor
        · simp [Scalar.lt]; exact h.le
        · simp [Scalar.beq]; exact fun e => absurd (e ▸ h) (lt_irrefl _)
    rw [key]

/-- a plateau (two equal neighbouring losses in the window) never triggers a stop -/
theorem plateau_never_stops (a : ℝ) (rest : List ℝ) : increasingNewestFirst (a :: a :: rest) = false := by
  simp [increasingNewestFirst, Scalar.le, Scalar.beq]

/-! ### lengths of the returned histories -/

theorem epochStep_lengths (inputs targets : List (Tensor α))
    (validation : Option (List (Tensor α) × List (Tensor α) × Nat)) (batch : Nat) (script : List α)
    (epoch : Nat) (r r' : LearnResult α)
    (h : epochStep inputs targets validation batch script epoch r = .ok r') :
    r'.trainLoss.length = r.trainLoss.length + 1 ∧
    (validation.isSome → r'.valLoss.length = r.valLoss.length + 1 ∧ r'.valAcc.length = r.valAcc.length + 1) ∧
    (validation.isNone → r'.valLoss = r.valLoss ∧ r'.valAcc = r.valAcc) := by
  unfold epochStep at h
  simp only [] at h
  split at h
  · simp at h
  · rename_i n lossEpoch _
    cases validation with
    | none =>
      simp only [Except.ok.injEq] at h
      subst h
      simp
    | some v =>
      obtain ⟨vi, vt, thr⟩ := v
      simp only [] at h
      split at h
      · simp at h
      · simp only [Except.ok.injEq] at h
        subst h
        simp

/-- after `k` epochs: `k` training-loss entries more, and `k` (resp. 0) validation entries more -/
theorem runK_lengths (inputs targets : List (Tensor α))
    (validation : Option (List (Tensor α) × List (Tensor α) × Nat)) (batch : Nat) (script : List α) :
    ∀ (k e : Nat) (r r' : LearnResult α),
      runK (epochStep inputs targets validation batch script) k e r = .ok r' →
      r'.trainLoss.length = r.trainLoss.length + k ∧
      (validation.isSome → r'.valLoss.length = r.valLoss.length + k ∧ r'.valAcc.length = r.valAcc.length + k) ∧
      (validation.isNone → r'.valLoss = r.valLoss ∧ r'.valAcc = r.valAcc) := by
  intro k
  induction k with
  | zero =>
    intro e r r' h
    simp only [runK, Except.ok.injEq] at h
    subst h; simp
  | succ k ih =>
    intro e r r' h
    unfold runK at h
    cases hs : epochStep inputs targets validation batch script e r with
    | error x => simp [hs] at h
    | ok r1 =>
      simp only [hs] at h
      obtain ⟨a1, a2, a3⟩ := epochStep_lengths inputs targets validation batch script e r r1 hs
      obtain ⟨b1, b2, b3⟩ := ih (e + 1) r1 r' h
      refine ⟨by omega, ?_, ?_⟩
      · intro hv
        have := a2 hv; have := b2 hv
        omega
      · intro hv
        have := a3 hv; have := b3 hv
        exact ⟨this.1.trans (a3 hv).1, this.2.trans (a3 hv).2⟩

/-- **the contract of `learn`**: it returns one training-loss entry per epoch actually run, exactly as
    many validation-loss and accuracy entries when validation data is given and none otherwise; the
    number of epochs run is at most the budget, the stop test was false after every earlier epoch and —
    if fewer epochs than requested were run — true after the last one -/
theorem learn_contract (n : Network α) (inputs targets : List (Tensor α))
    (validation : Option (List (Tensor α) × List (Tensor α) × Nat)) (batch epochs : Nat) (script : List α)
    (res : LearnResult α) (h : n.learn inputs targets validation batch epochs script = .ok res) :
    ∃ k, k ≤ epochs ∧ res.trainLoss.length = k ∧
      (validation.isSome → res.valLoss.length = k ∧ res.valAcc.length = k) ∧
      (validation.isNone → res.valLoss = [] ∧ res.valAcc = [] ∧ k = epochs) ∧
      (k < epochs → stopAfter validation k { res with net := res.net } = .ok true) := by
  unfold learn at h
  split at h
  · simp at h
  · simp only [] at h
    split at h
    · simp at h
    · rename_i r hr
      simp only [Except.ok.injEq] at h
      subst h
      unfold learnLoop at hr
      obtain ⟨k, hk, hk1, hrun, _, hstop⟩ := epochLoop_spec _ _ epochs 1 _ r hr
      obtain ⟨l1, l2, l3⟩ := runK_lengths inputs targets validation batch script k 1 _ r hrun
      refine ⟨k, hk, by simpa using l1, ?_, ?_, ?_⟩
      · intro hv; simpa using l2 hv
      · intro hv
        have := l3 hv
        refine ⟨by simpa using this.1, by simpa using this.2, ?_⟩
        -- without validation data the stop test never fires
        cases validation with
        | some v => simp at hv
        | none =>
          by_cases hlt : k < epochs
          · have := hstop hlt
            simp [stopAfter] at this
          · omega
      · intro hlt
        have := hstop hlt
        have e1 : 1 + k - 1 = k := by omega
        rw [e1] at this
        cases validation with
        | none => simp [stopAfter] at this
        | some v => simpa [stopAfter] using this

/-- **a second run on the network a first run left behind obeys the same contract** — whatever the first run did (stopped
    early or not, with or without validation data, any budget): the network value `learn` returns is all that is carried
    over, and the contract holds for every network -/
theorem second_run_contract (n : Network α) (i1 t1 i2 t2 : List (Tensor α))
    (v1 v2 : Option (List (Tensor α) × List (Tensor α) × Nat)) (b1 e1 b2 e2 : Nat) (s1 s2 : List α) (r1 r2 : LearnResult α)
    (_h1 : n.learn i1 t1 v1 b1 e1 s1 = .ok r1) (h2 : r1.net.learn i2 t2 v2 b2 e2 s2 = .ok r2) :
    ∃ k, k ≤ e2 ∧ r2.trainLoss.length = k ∧
      (v2.isSome → r2.valLoss.length = k ∧ r2.valAcc.length = k) ∧
      (v2.isNone → r2.valLoss = [] ∧ r2.valAcc = [] ∧ k = e2) ∧
      (k < e2 → stopAfter v2 k { r2 with net := r2.net } = .ok true) :=
  learn_contract r1.net i2 t2 v2 b2 e2 s2 r2 h2

/-! non-vacuity: rising, falling and plateau windows -/
example : increasingNewestFirst ([3, 2, 1] : List ℝ) = true := by
  rw [increasing_iff]; simp only [StrictlyRising]; norm_num
example : increasingNewestFirst ([1, 2, 3] : List ℝ) = false := by
  simp [increasingNewestFirst, Scalar.le, Scalar.lt]
example : shouldStop 3 4 ([5, 1, 2, 3] : List ℝ) = .ok true := by
  rw [shouldStop_eq _ _ _ (by omega) (by omega)]
  congr 1
  show increasingNewestFirst ([3, 2, 1] : List ℝ) = true
  rw [increasing_iff]; simp only [StrictlyRising]; norm_num

end C13
