import Model.Network
import Proofs.Real
import Proofs.Reshape
import Proofs.Zip
import Proofs.TensorWf
import Mathlib.Analysis.Real.Sqrt
import Proofs.Dims
import Proofs.MaxDims

/-!
# C08 — announced layer shapes equal produced shapes; transitions lose nothing

All of this is `Nat` arithmetic and list lengths, exact:
* the output-size functions are the standard formulas, and fail exactly when the effective kernel
  does not fit (or a size underflows);
* the convolution produces exactly the extent its size formula announces;
* a flat size in front of a spatial layer is accepted iff it is a perfect square `r·r`, and is then
  read as `1 × r × r`;
* the builder sets `flatten` on a spatial layer exactly when a dense layer follows, and gives the
  dense layer `c·h·w` inputs.
(Row-major preservation of flatten / reshape themselves is C14.)
-/

set_option linter.unusedSectionVars false

namespace C08
open Network Scalar

theorem checkedSub_ok (a b : Nat) (h : b ≤ a) : checkedSub a b = .ok (a - b) := by simp [checkedSub, h]
theorem checkedSub_err (a b : Nat) (h : a < b) : checkedSub a b = .error .arith := by
  simp [checkedSub]; omega
theorem checkedSub_eq_ok (a b c : Nat) (h : checkedSub a b = .ok c) : c = a - b := by
  unfold checkedSub at h
  split at h
  · simp only [Except.ok.injEq] at h; exact h.symm
  · simp at h

/-! ### the size formulas -/

/-- convolution: `(i + 2p − d(k−1) − 1) / s + 1` per dimension, when the effective kernel fits -/
theorem conv_outputSize_ok (ih iw f : Nat) (k s p d : Nat × Nat)
    (hk : 1 ≤ k.1 ∧ 1 ≤ k.2) (hs : 1 ≤ s.1 ∧ 1 ≤ s.2)
    (hfit : d.1 * (k.1 - 1) + 1 ≤ ih + 2 * p.1 ∧ d.2 * (k.2 - 1) + 1 ≤ iw + 2 * p.2) :
    Conv.outputSize ih iw f k s p d =
      .ok (.triple f ((ih + 2 * p.1 - d.1 * (k.1 - 1) - 1) / s.1 + 1) ((iw + 2 * p.2 - d.2 * (k.2 - 1) - 1) / s.2 + 1)) := by
  obtain ⟨hk1, hk2⟩ := hk
  obtain ⟨hs1, hs2⟩ := hs
  obtain ⟨hf1, hf2⟩ := hfit
  have a1 : (1 : Nat) ≤ k.1 := hk1
  have e1 : checkedSub k.1 1 = .ok (k.1 - 1) := by simp [checkedSub, hk1]
  have e2 : checkedSub k.2 1 = .ok (k.2 - 1) := by simp [checkedSub, hk2]
  have e3 : checkedSub (ih + 2 * p.1) (d.1 * (k.1 - 1)) = .ok (ih + 2 * p.1 - d.1 * (k.1 - 1)) := by
    simp [checkedSub]; omega
  have e4 : checkedSub (iw + 2 * p.2) (d.2 * (k.2 - 1)) = .ok (iw + 2 * p.2 - d.2 * (k.2 - 1)) := by
    simp [checkedSub]; omega
  have e5 : checkedSub (ih + 2 * p.1 - d.1 * (k.1 - 1)) 1 = .ok (ih + 2 * p.1 - d.1 * (k.1 - 1) - 1) := by
    simp [checkedSub]; omega
  have e6 : checkedSub (iw + 2 * p.2 - d.2 * (k.2 - 1)) 1 = .ok (iw + 2 * p.2 - d.2 * (k.2 - 1) - 1) := by
    simp [checkedSub]; omega
  have hs' : ¬ (s.1 = 0 ∨ s.2 = 0) := by omega
  simp only [Conv.outputSize, e1, e2, e3, e4, e5, e6, hs', if_false]

/-- … and is rejected (usize underflow) when the effective kernel does not fit the padded input -/
theorem conv_outputSize_rejects (ih iw f : Nat) (k s p d : Nat × Nat) (hk : 1 ≤ k.1 ∧ 1 ≤ k.2)
    (hno : ih + 2 * p.1 < d.1 * (k.1 - 1) + 1 ∨ iw + 2 * p.2 < d.2 * (k.2 - 1) + 1) :
    Conv.outputSize ih iw f k s p d = .error .arith := by
  obtain ⟨hk1, hk2⟩ := hk
  simp only [Conv.outputSize, checkedSub_ok k.1 1 hk1, checkedSub_ok k.2 1 hk2]
  by_cases h1 : d.1 * (k.1 - 1) ≤ ih + 2 * p.1
  · by_cases h2 : d.2 * (k.2 - 1) ≤ iw + 2 * p.2
    · simp only [checkedSub_ok _ _ h1, checkedSub_ok _ _ h2]
      cases hno with
      | inl h =>
        rw [checkedSub_err (ih + 2 * p.1 - d.1 * (k.1 - 1)) 1 (by omega)]
      | inr h =>
        rw [checkedSub_err (iw + 2 * p.2 - d.2 * (k.2 - 1)) 1 (by omega)]
        cases checkedSub (ih + 2 * p.1 - d.1 * (k.1 - 1)) 1 <;> rfl
    · rw [checkedSub_err (iw + 2 * p.2) _ (by omega)]
      cases checkedSub (ih + 2 * p.1) (d.1 * (k.1 - 1)) <;> rfl
  · rw [checkedSub_err (ih + 2 * p.1) _ (by omega)]

/-- transposed convolution: `(i − 1)·s + k − 2p` -/
theorem deconv_outputSize_ok (ih iw f : Nat) (k s p : Nat × Nat) (hi : 1 ≤ ih ∧ 1 ≤ iw)
    (hfit : 2 * p.1 ≤ (ih - 1) * s.1 + k.1 ∧ 2 * p.2 ≤ (iw - 1) * s.2 + k.2) :
    Deconv.outputSize ih iw f k s p =
      .ok (.triple f ((ih - 1) * s.1 + k.1 - 2 * p.1) ((iw - 1) * s.2 + k.2 - 2 * p.2)) := by
  have e1 : checkedSub ih 1 = .ok (ih - 1) := by simp [checkedSub, hi.1]
  have e2 : checkedSub iw 1 = .ok (iw - 1) := by simp [checkedSub, hi.2]
  have e3 : checkedSub ((ih - 1) * s.1 + k.1) (2 * p.1) = .ok ((ih - 1) * s.1 + k.1 - 2 * p.1) := by simp [checkedSub, hfit.1]
  have e4 : checkedSub ((iw - 1) * s.2 + k.2) (2 * p.2) = .ok ((iw - 1) * s.2 + k.2 - 2 * p.2) := by simp [checkedSub, hfit.2]
  simp only [Deconv.outputSize, e1, e2, e3, e4]

/-- max-pool: `(i − k) / s + 1` -/
theorem maxpool_outputSize_ok (c ih iw : Nat) (k s : Nat × Nat) (hs : 1 ≤ s.1 ∧ 1 ≤ s.2) (hfit : k.1 ≤ ih ∧ k.2 ≤ iw) :
    Maxpool.outputSize c ih iw k s = .ok (.triple c ((ih - k.1) / s.1 + 1) ((iw - k.2) / s.2 + 1)) := by
  have e1 : checkedSub ih k.1 = .ok (ih - k.1) := by simp [checkedSub, hfit.1]
  have e2 : checkedSub iw k.2 = .ok (iw - k.2) := by simp [checkedSub, hfit.2]
  have hs' : ¬ (s.1 = 0 ∨ s.2 = 0) := by omega
  simp only [Maxpool.outputSize, e1, e2, hs', if_false]

theorem maxpool_outputSize_rejects (c ih iw : Nat) (k s : Nat × Nat) (hno : ih < k.1 ∨ iw < k.2) :
    Maxpool.outputSize c ih iw k s = .error .arith := by
  simp only [Maxpool.outputSize]
  by_cases h1 : k.1 ≤ ih
  · rw [checkedSub_err iw k.2 (by omega)]
    cases checkedSub ih k.1 <;> rfl
  · rw [checkedSub_err ih k.1 (by omega)]

/-! ### flat → spatial: accepted iff a perfect square, read as `1 × r × r` -/

theorem squareRoot_real (n : ℕ) : squareRoot ℝ n = if Nat.sqrt n * Nat.sqrt n = n then .ok (Nat.sqrt n) else .error .reject := by
  unfold squareRoot
  have : Scalar.toNat (Scalar.sqrt (Scalar.ofNat' n : ℝ)) = Nat.sqrt n := by
    show ⌊Real.sqrt (n : ℝ)⌋₊ = Nat.sqrt n
    exact Real.nat_floor_real_sqrt_eq_nat_sqrt
  simp only [this]

/-- **accepted ⇔ perfect square** -/
theorem flat_to_spatial_iff_square (n : ℕ) :
    (∃ r, squareRoot ℝ n = .ok r) ↔ ∃ r, r * r = n := by
  rw [squareRoot_real]
  constructor
  · rintro ⟨r, h⟩
    by_cases hs : Nat.sqrt n * Nat.sqrt n = n
    · exact ⟨Nat.sqrt n, hs⟩
    · simp [hs] at h
  · rintro ⟨r, h⟩
    have : Nat.sqrt n = r := by rw [← h]; exact Nat.sqrt_eq r
    refine ⟨r, ?_⟩
    simp [this, h]

/-- and the accepted size is recorded as `1 × r × r` with `r·r` elements: no element is dropped -/
theorem spatialInputs_flat (n r : ℕ) (h : r * r = n) :
    spatialInputs (α := ℝ) (.single n) = .ok (.triple 1 r r, 1) := by
  have hs : Nat.sqrt n = r := by rw [← h]; exact Nat.sqrt_eq r
  simp only [spatialInputs, squareRoot_real, hs, h, if_true]

theorem spatialInputs_rejects (n : ℕ) (h : ¬ ∃ r, r * r = n) : spatialInputs (α := ℝ) (.single n) = .error .reject := by
  have : ¬ (Nat.sqrt n * Nat.sqrt n = n) := fun e => h ⟨_, e⟩
  simp only [spatialInputs, squareRoot_real, this, if_false]

/-! ### the convolution produces the announced extent -/

variable {α : Type} [Scalar α]

theorem padChannel_dims (ch : V2 α) (ih iw dh dw : Nat) : L.Dims2 (Tensor.padChannel ch ih iw dh dw) ih iw := by
  refine ⟨by simp [Tensor.padChannel], ?_⟩
  intro r hr
  simp only [Tensor.padChannel, List.mem_map, List.mem_range] at hr
  obtain ⟨i, _, rfl⟩ := hr
  split
  · cases L.get? (List.take ih ch) (i - dh) <;> simp [Tensor.padRow]
  · simp

theorem pad_result_dims (data : V3 α) (ih iw dh dw : Nat) (y : V3 α)
    (hy : (if Tensor.padOutOfRange data ih iw dh dw then Except.error Err.index
           else Except.ok (data.map (fun ch => Tensor.padChannel ch ih iw dh dw))) = Except.ok y) :
    L.Dims3 y data.length ih iw := by
  split at hy
  · simp at hy
  · simp only [Except.ok.injEq] at hy
    subst hy
    refine ⟨by simp, ?_⟩
    intro m hm
    simp only [List.mem_map] at hm
    obtain ⟨ch, _, rfl⟩ := hm
    exact padChannel_dims ch ih iw _ _

/-- zero-padding produces exactly the requested spatial extent for every channel -/
theorem pad3d_dims (x : V3 α) (ih iw : Nat) (y : V3 α) (hy : Tensor.pad3d x ih iw = .ok y) :
    L.Dims3 y x.length ih iw := by
  unfold Tensor.pad3d at hy
  split at hy
  · exact pad_result_dims _ ih iw _ _ y hy
  · simp at hy

/-- the extent of `convolve` is the standard formula, when it is defined -/
theorem extent_eq (l : Conv α) (ih iw kh kw oh ow : Nat) (h : Conv.extent l ih iw kh kw = .ok (oh, ow)) :
    oh = (ih - (kh - 1) * l.dilation.1 - 1) / l.stride.1 + 1 ∧
    ow = (iw - (kw - 1) * l.dilation.2 - 1) / l.stride.2 + 1 := by
  unfold Conv.extent at h
  cases e1 : checkedSub kh 1 with
  | error e => simp [e1] at h
  | ok kh1 =>
    cases e2 : checkedSub kw 1 with
    | error e => simp [e1, e2] at h
    | ok kw1 =>
      simp only [e1, e2] at h
      cases e3 : checkedSub ih (kh1 * l.dilation.1) with
      | error e => simp [e3] at h
      | ok a =>
        cases e4 : checkedSub iw (kw1 * l.dilation.2) with
        | error e => simp [e3, e4] at h
        | ok b =>
          simp only [e3, e4] at h
          cases e5 : checkedSub a 1 with
          | error e => simp [e5] at h
          | ok a' =>
            cases e6 : checkedSub b 1 with
            | error e => simp [e5, e6] at h
            | ok b' =>
              simp only [e5, e6] at h
              split at h
              · simp at h
              · simp only [Except.ok.injEq, Prod.mk.injEq] at h
                have h1 := checkedSub_eq_ok _ _ _ e1
                have h2 := checkedSub_eq_ok _ _ _ e2
                have h3 := checkedSub_eq_ok _ _ _ e3
                have h4 := checkedSub_eq_ok _ _ _ e4
                have h5 := checkedSub_eq_ok _ _ _ e5
                have h6 := checkedSub_eq_ok _ _ _ e6
                subst h1 h2 h3 h4 h5 h6
                exact ⟨h.1.symm, h.2.symm⟩

/-- `convolve` returns `#kernels × oh × ow` with `oh`, `ow` its extent -/
theorem convolve_dims (l : Conv α) (x : V3 α) (ks : List (V3 α)) (y : V3 α) (hy : Conv.convolve l x ks = .ok y) :
    ∃ r m rest kf kc kh kw oh ow, x = (r :: m) :: rest ∧ kernelDims ks = .ok (kf, kc, kh, kw) ∧
      Conv.extent l (r :: m).length r.length kh kw = .ok (oh, ow) ∧ L.Dims3 y ks.length oh ow := by
  unfold Conv.convolve at hy
  split at hy
  · simp at hy
  · rename_i r m rest kf kc kh kw hk
    simp only [] at hy
    split at hy
    · simp at hy
    · rename_i oh ow he
      simp only [Except.ok.injEq] at hy
      subst hy
      refine ⟨r, m, rest, kf, kc, kh, kw, oh, ow, rfl, hk, he, by simp, ?_⟩
      intro mm hmm
      simp only [List.mem_map] at hmm
      obtain ⟨k, _, rfl⟩ := hmm
      refine ⟨by simp, ?_⟩
      intro rr hrr
      simp only [List.mem_map, List.mem_range] at hrr
      obtain ⟨i, _, rfl⟩ := hrr
      simp
  · simp at hy

/-- **announced = produced for the convolution**: on an input of `c × ih × iw` the pre-activation has
    exactly the extent `Conv.outputSize` announces for `(kh, kw)` kernels -/
theorem conv_produced_extent (l : Conv α) (x : V3 α) (ih iw : Nat)
    (xp y : V3 α) (ks : List (V3 α))
    (hp : Tensor.pad3d x (ih + 2 * l.padding.1) (iw + 2 * l.padding.2) = .ok xp)
    (hy : Conv.convolve l xp ks = .ok y) (kf kc kh kw : Nat) (hk : kernelDims ks = .ok (kf, kc, kh, kw))
    :
    L.Dims3 y ks.length
      ((ih + 2 * l.padding.1 - l.dilation.1 * (kh - 1) - 1) / l.stride.1 + 1)
      ((iw + 2 * l.padding.2 - l.dilation.2 * (kw - 1) - 1) / l.stride.2 + 1) := by
  have hd := pad3d_dims x _ _ xp hp
  obtain ⟨r, m, rest, kf', kc', kh', kw', oh, ow, hxp, hk', he, hdy⟩ := convolve_dims l xp ks y hy
  rw [hk] at hk'
  simp only [Except.ok.injEq, Prod.mk.injEq] at hk'
  obtain ⟨_, _, e3, e4⟩ := hk'
  subst e3 e4
  subst hxp
  have hm0 := hd.2 (r :: m) (List.mem_cons_self ..)
  have hr0 := hm0.2 r (List.mem_cons_self ..)
  rw [hm0.1, hr0] at he
  obtain ⟨a, b⟩ := extent_eq l _ _ _ _ _ _ he
  rw [a, b] at hdy
  rw [Nat.mul_comm l.dilation.1, Nat.mul_comm l.dilation.2]
  exact hdy

/-! ### the builder: flatten is set exactly when a dense layer follows, with `c·h·w` inputs -/

/-- adding a dense layer after a convolution announcing `c × h × w`: the convolution is told to flatten
    and the dense layer is created with `c·h·w` inputs -/
theorem addDense_after_conv (n : Network α) (front : List (Layer α)) (l : Conv α) (c h w : Nat)
    (hn : n.layers = front ++ [.conv l]) (ho : l.outputs = .triple c h w)
    (outputs : Nat) (act : Act) (bias : Bool) (dropout : Option α) (wt : Tensor α) (bt : Option (Tensor α)) :
    (n.addDense outputs act bias dropout wt bt).map (·.layers) =
      .ok (front ++ [.conv { l with flatten := true },
        .dense { inputs := .single (c * h * w), outputs := .single outputs, loops := 1, scale := fun x => 1 / x,
                 weights := wt, bias := if bias then bt else none, act := act, dropout := dropout, training := false }]) := by
  have hlast : n.layers.getLast? = some (.conv l) := by rw [hn]; simp
  have hdrop : n.layers.dropLast = front := by rw [hn]; simp
  simp only [addDense, hlast, ho, Except.map, hdrop]

/-- after a dense layer nothing is flattened and the new layer takes its `k` outputs -/
theorem addDense_after_dense_no_flatten (n : Network α) (front : List (Layer α)) (l : DenseLayer α) (k : Nat)
    (hn : n.layers = front ++ [.dense l]) (ho : l.outputs = .single k)
    (outputs : Nat) (act : Act) (bias : Bool) (dropout : Option α) (wt : Tensor α) (bt : Option (Tensor α)) :
    (n.addDense outputs act bias dropout wt bt).map (·.layers) =
      .ok (front ++ [.dense l,
        .dense { inputs := .single k, outputs := .single outputs, loops := 1, scale := fun x => 1 / x,
                 weights := wt, bias := if bias then bt else none, act := act, dropout := dropout, training := false }]) := by
  have hlast : n.layers.getLast? = some (.dense l) := by rw [hn]; simp
  have hdrop : n.layers.dropLast = front := by rw [hn]; simp
  simp only [addDense, hlast, ho, Except.map, hdrop]

/-- the same for a max-pool and a deconvolution in front of the dense layer -/
theorem addDense_after_maxpool (n : Network α) (front : List (Layer α)) (l : Maxpool α) (c h w : Nat)
    (hn : n.layers = front ++ [.maxpool l]) (ho : l.outputs = .triple c h w)
    (outputs : Nat) (act : Act) (bias : Bool) (dropout : Option α) (wt : Tensor α) (bt : Option (Tensor α)) :
    (n.addDense outputs act bias dropout wt bt).map (·.layers) =
      .ok (front ++ [.maxpool { l with flatten := true },
        .dense { inputs := .single (c * h * w), outputs := .single outputs, loops := 1, scale := fun x => 1 / x,
                 weights := wt, bias := if bias then bt else none, act := act, dropout := dropout, training := false }]) := by
  have hlast : n.layers.getLast? = some (.maxpool l) := by rw [hn]; simp
  have hdrop : n.layers.dropLast = front := by rw [hn]; simp
  simp only [addDense, hlast, ho, Except.map, hdrop]

/-- a flattened spatial output holds exactly `c·h·w` elements in row-major order (C14's lemma),
    which is the input size the dense layer was announced with -/
theorem flatten_count (c h w : Nat) (d : V3 α) (hd : L.Dims3 d c h w) : (L.flatten3 d).length = c * h * w :=
  L.length_flatten3 d c h w hd

/-! non-vacuity: 5×6 input, kernel 2×3, stride (2,1), padding (1,0), dilation (1,2) -/
example : Conv.outputSize 5 6 4 (2, 3) (2, 1) (1, 0) (1, 2) = .ok (.triple 4 3 2) := by decide
example : Conv.outputSize 2 2 1 (3, 3) (1, 1) (0, 0) (1, 1) = .error .arith := by decide
example : Deconv.outputSize 2 2 1 (3, 3) (1, 1) (1, 1) = .ok (.triple 1 2 2) := by decide


/-! ### produced extents of the scatter-form passes: what they write into keeps its announced shape -/

/-- the deconvolution's forward scatter produces exactly `filters × oh × ow` -/
theorem deconv_produced_extent (x : V3 α) (ks : List (V3 α)) (kf kc : Nat) (tp : List (Nat × Nat × Nat × Nat × Nat × Nat)) (oh ow : Nat) :
    L.Dims3 (Deconv.scatter x ks kf kc tp oh ow) kf oh ow :=
  DimsLemmas.deconv_scatter_dims x ks kf kc tp oh ow

/-- **gradient shapes equal the shapes of what they are gradients of**, for every configuration:
    the convolution's input gradient has the input's extents (the padded scatter, then the crop) … -/
theorem conv_input_gradient_shape (l : Conv α) (ks : List (V3 α)) (delta : V3 α) (kf kc kh kw oh ow ih iw : Nat) :
    L.Dims3 (Conv.crop l (Conv.paddedInputGrad l ks delta kf kc kh kw oh ow (ih + 2 * l.padding.1) (iw + 2 * l.padding.2)) ih iw) kc ih iw :=
  DimsLemmas.conv_crop_dims l _ kc ih iw (DimsLemmas.conv_paddedInputGrad_dims l ks delta kf kc kh kw oh ow _ _)

/-- … its kernel gradient the kernels' extents `filters × channels × kh × kw` … -/
theorem conv_kernel_gradient_shape (l : Conv α) (xp delta : V3 α) (kf kc kh kw oh ow ph pw : Nat) :
    L.Dims4 (Conv.kernelGrad l xp delta kf kc kh kw oh ow ph pw) kf kc kh kw :=
  DimsLemmas.conv_kernelGrad_dims l xp delta kf kc kh kw oh ow ph pw

/-- … and the deconvolution's gradients the input's and the kernels' extents -/
theorem deconv_gradient_shapes (x : V3 α) (ks : List (V3 α)) (delta : V3 α) (kf kc kh kw ih iw : Nat)
    (tp : List (Nat × Nat × Nat × Nat × Nat × Nat)) :
    L.Dims3 (Deconv.gradPass x ks delta kf kc kh kw ih iw tp).1 kc ih iw ∧
    L.Dims4 (Deconv.gradPass x ks delta kf kc kh kw ih iw tp).2 kf kc kh kw :=
  DimsLemmas.deconv_gradPass_dims x ks delta kf kc kh kw ih iw tp

/-- **a max-pool that returns at all returns exactly the announced output shape** (the window maxima are
    written into `channels × oh × ow` zeros by index updates) … -/
theorem maxpool_forward_shape (l : Maxpool α) (x pre post : Tensor α) (mx : MaxIdx)
    (h : l.forward x = .ok (pre, post, mx)) : pre.shape = l.outputs :=
  DimsLemmas.maxpool_forward_dims l x pre post mx h

/-- … and its input gradient has exactly the announced input shape -/
theorem maxpool_gradient_shape (l : Maxpool α) (g t : Tensor α) (mx : MaxIdx)
    (h : l.backward g mx = .ok t) : t.shape = l.inputs :=
  DimsLemmas.maxpool_backward_dims l g t mx h

end C08
