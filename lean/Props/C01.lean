import Model.Network
import Proofs.VJP
import Proofs.DenseVJP
import Proofs.DenseBridge
import Proofs.SoftmaxCE
import Props.C07
import Proofs.DeconvAdjoint
import Proofs.ConvAdjoint
import Proofs.MaxpoolAdjoint
import Proofs.DenseStack
import Proofs.ConvVJP
import Proofs.DeconvVJP
import Proofs.MaxpoolVJP
import Proofs.DenseBlock
import Proofs.ConvNet
import Proofs.ChainLinks
import Proofs.BlockLinks

/-!
# C01 — backpropagated gradients are the true derivatives of the objective

Over `ℝ` (rounding aside; the bit-level agreement of model and code is the correspondence check).

* **Reverse walk, any depth** (`reverse_walk_is_gradient`, `reverse_walk_partials`): if every layer's
  backward function is the transposed Jacobian of its forward function at the input it received, then
  handing each layer the gradient produced by the layer after it yields the gradient of the objective
  with respect to the stack's input, and each of its coordinates is the partial derivative.  The same
  statement with a layer's parameters in the role of the input gives the parameter gradients
  (`parameter_gradient`).
* **Dense layer** (`dense_backward_is_derivative`): the model's `Dense::forward` on lists *is* the vector
  function `a ∘ (W·x + b)`, and the three tensors `Dense::backward` returns *are* the transposed
  Jacobians with respect to input, weights and bias — for every size, every weight matrix, bias,
  input and upstream gradient, every element-wise activation, away from the kinks of ReLU / leaky ReLU.
* **Soft-max output under cross-entropy** (`softmax_ce_gradient`, `softmax_dense_passes_gradient`):
  the objective gradient `p − t` is the gradient of the cross-entropy of the soft-max outputs with
  respect to the logits, and the soft-max dense layer hands it to its linear part unchanged.
-/

set_option linter.unusedSectionVars false

open BigOperators

namespace C01
open VJP DenseBridge Scalar RealScalar

/-! ### the reverse layer walk -/

/-- any depth: the reverse walk computes the gradient of the objective with respect to the input -/
theorem reverse_walk_is_gradient {n k : ℕ} (net : Net n k) (x : Vec n) (h : net.Ok x) (ℓ : Vec k → ℝ) (g : Vec k)
    (hl : IsGrad ℓ (net.fwd x) g) : IsGrad (ℓ ∘ net.fwd) x (net.bwd x g) := Net.grad net x h ℓ g hl

/-- … whose coordinates are the partial derivatives -/
theorem reverse_walk_partials {n k : ℕ} (net : Net n k) (x : Vec n) (h : net.Ok x) (ℓ : Vec k → ℝ) (g : Vec k)
    (hl : IsGrad ℓ (net.fwd x) g) (j : Fin n) :
    HasDerivAt (fun s => ℓ (net.fwd (Function.update x j s))) (net.bwd x g j) (x j) :=
  (Net.grad net x h ℓ g hl).partial j

/-- the gradient of a layer's parameters `θ`: the layer's parameter-VJP applied to the gradient the
    rest of the network hands back to it -/
theorem parameter_gradient {ι : Type} [Fintype ι] [DecidableEq ι] {m k : ℕ} (layer : V ι → Vec m) (θ : V ι)
    (bθ : Vec m → V ι) (hθ : IsVJP layer θ bθ)
    (rest : Net m k) (hrest : rest.Ok (layer θ)) (ℓ : Vec k → ℝ) (g : Vec k)
    (hl : IsGrad ℓ (rest.fwd (layer θ)) g) (p : ι) :
    HasDerivAt (fun s => ℓ (rest.fwd (layer (Function.update θ p s)))) (bθ (rest.bwd (layer θ) g) p) (θ p) := by
  have h1 : IsGrad (ℓ ∘ rest.fwd) (layer θ) (rest.bwd (layer θ) g) := Net.grad rest _ hrest ℓ g hl
  exact (IsGrad.comp_vjp hθ h1).partial p

/-! ### activations: differentiable away from the kinks, with the derivative the code uses -/

/-- no pre-activation sits on a kink of the activation -/
abbrev NoKink := DenseStack.NoKink

theorem act_hasDerivAt (a : Act) (ha : a ≠ .softmax) (z : ℝ) (hz : NoKink a z) :
    HasDerivAt (Act.f a) (Act.df a z) z := DenseStack.act_hasDerivAt a ha z hz

/-! ### the dense layer -/

/-- **`Dense::forward` is `a ∘ (W·x + b)` and `Dense::backward` returns its three transposed
    Jacobians** (`δ = a'(pre) ⊙ g`; input `Wᵀδ`, weights `δ ⊗ x`, bias `δ`) -/
theorem dense_backward_is_derivative {r c : ℕ} (l : DenseLayer ℝ) (a : Act) (W : V (Fin r × Fin c)) (b : Vec r)
    (hl : IsDense l a W b) (ha : a ≠ .softmax) (hr : 0 < r) (hc : 0 < c) (x : Vec c)
    (hk : ∀ i, NoKink a (densePre W b x i)) :
    l.forward (vecT x) = .ok (vecT (densePre W b x), vecT (denseFn (Act.f a) W b x)) ∧
    ∃ (bx : Vec r → Vec c) (bW : Vec r → V (Fin r × Fin c)) (bb : Vec r → Vec r),
      (∀ g, l.backward (vecT g) (vecT x) (vecT (densePre W b x)) = .ok (vecT (bx g), matT (bW g), some (vecT (bb g)))) ∧
      IsVJP (denseFn (Act.f a) W b) x bx ∧
      IsVJP (fun W' => denseFn (Act.f a) W' b x) W bW ∧
      IsVJP (fun b' => denseFn (Act.f a) W b' x) b bb := by
  have hd : ∀ i, HasDerivAt (Act.f a) (Act.df a (densePre W b x i)) (densePre W b x i) :=
    fun i => act_hasDerivAt a ha _ (hk i)
  refine ⟨forward_eq l a W b hl ha x, _, _, _, fun g => backward_eq l a W b hl ha hr hc x g, ?_, ?_, ?_⟩
  · exact dense_vjp_input (Act.f a) (Act.df a) W b x hd
  · exact dense_vjp_weights (Act.f a) (Act.df a) W b x hd
  · exact dense_vjp_bias (Act.f a) (Act.df a) W b x hd

/-- spelled out for one weight: the entry `(i, j)` of the returned weight gradient is the partial
    derivative of the objective in `W[i][j]`, whatever differentiable computation `ℓ` follows the layer -/
theorem dense_weight_partial {r c : ℕ} (a : Act) (W : V (Fin r × Fin c)) (b : Vec r)
    (ha : a ≠ .softmax) (x : Vec c) (hk : ∀ i, NoKink a (densePre W b x i))
    (ℓ : Vec r → ℝ) (g : Vec r) (hg : IsGrad ℓ (denseFn (Act.f a) W b x) g) (i : Fin r) (j : Fin c) :
    HasDerivAt (fun s => ℓ (denseFn (Act.f a) (Function.update W (i, j) s) b x))
      (Act.df a (densePre W b x i) * g i * x j) (W (i, j)) := by
  have hd : ∀ i, HasDerivAt (Act.f a) (Act.df a (densePre W b x i)) (densePre W b x i) :=
    fun i => act_hasDerivAt a ha _ (hk i)
  have := (IsGrad.comp_vjp (dense_vjp_weights (Act.f a) (Act.df a) W b x hd) hg).partial (i, j)
  simpa [weightGrad, delta] using this

/-! ### soft-max output layer under cross-entropy -/

/-- the objective's gradient `p − t` (`Obj.grad .ce`) … -/
theorem ce_objective_gradient (len t p : ℝ) : Obj.grad .ce len t p = p - t := rfl

/-- … is the gradient of the cross-entropy of the soft-max outputs with respect to the logits, for a
    target distribution `t` (`Σ t = 1`, e.g. one-hot) -/
theorem softmax_ce_gradient {n : ℕ} [NeZero n] (t z : Vec n) (ht : ∑ i, t i = 1) :
    IsGrad (ceSoftmax t) z (fun j => softmaxV z j - t j) := by
  have := ceSoftmax_grad t z
  simpa [ht] using this

/-- the model's soft-max is `softmaxV` -/
theorem softmax_model_eq {n : ℕ} (z : Vec n) :
    Act.softmaxL (List.ofFn z) = List.ofFn (softmaxV z) := by
  rw [C07.softmax_eq_math, List.map_ofFn]
  congr 1
  funext i
  simp only [Function.comp, softmaxV, expSum, List.map_ofFn, OfFn.sum_ofFn]

/-- a soft-max dense layer does not multiply the upstream gradient by anything: `δ = g`
    (so with `g = p − t` its linear part receives the derivative with respect to the logits) -/
theorem softmax_dense_passes_gradient {r c : ℕ} (l : DenseLayer ℝ) (W : V (Fin r × Fin c)) (b : Vec r)
    (hl : IsDense l .softmax W b) (hr : 0 < r) (hc : 0 < c) (x : Vec c) (g : Vec r) (out : Tensor ℝ)
    (ho : out.shape = .single r) :
    l.backward (vecT g) (vecT x) out =
      .ok (vecT (inputGrad W g), matT (weightGrad g x), some (vecT g)) := by
  unfold DenseLayer.backward
  have hloc : l.localDerivative out = .ok (vecT (fun _ : Fin r => (1 : ℝ))) := by
    unfold DenseLayer.localDerivative
    rw [hl.act]
    simp only [ho, Tensor.ones, vecT, List.ofFn_const]
  have hshape : (vecT g).shape = Shape.single r := rfl
  have hd : (fun i : Fin r => (1 : ℝ) * g i * 1) = g := by funext i; ring
  simp only [hshape, hloc, hadamard_vec, hl.scale, hd, product_vec _ _ hr, hl.weights, transpose_mat W hr hc,
    dot_mat_vec, hl.bias, Option.map_some]
  rfl

/-! ### end to end: `Network::forward` / `Network::backward` on a multi-layer perceptron of any depth -/

open DenseStack Walk in
theorem acts_last : ∀ {n k : ℕ} (s : Stack n k) (x : Vec n),
    (vecT x :: s.acts x).getLast? = some (vecT (s.net.fwd x))
  | _, _, .nil _, x => rfl
  | _, _, .cons a W b rest, x => by
    have := acts_last rest (denseFn (Act.f a) W b x)
    simp only [Stack.acts, Stack.net, Net.fwd]
    rw [List.getLast?_cons_cons]
    exact this

open DenseStack Walk in
/-- **for every stack of dense layers (any depth, any widths, any element-wise activations, any weights
    and biases), on the model's own `Network.forward` and `Network.backward` folds**: the forward pass
    records the vector functions' values, and the last gradient `Network.backward` hands on — computed by
    the position-indexed reverse walk over the recorded trace — is the gradient of the objective with
    respect to the network input: every coordinate is the partial derivative.  (Away from ReLU kinks;
    `ℓ` is any objective differentiable at the output with gradient `g`.) -/
theorem mlp_backward_is_gradient {d k : ℕ} (n : Network ℝ) (s : Stack d k) (hn : n.layers = s.layers)
    (hc : n.connect = []) (hl : n.loopbacks = []) (x : Vec d) (hv : s.Valid) (hk : s.NoKinks x)
    (ℓ : Vec k → ℝ) (g : Vec k) (hg : IsGrad ℓ (s.net.fwd x) g) :
    ∃ t ws bs gs γ,
      n.forward (vecT x) = .ok t ∧ t.act.getLast? = some (vecT (s.net.fwd x)) ∧
      n.backward (vecT g) t = .ok (ws, bs, gs) ∧ gs.getLast? = some (vecT γ) ∧
      IsGrad (ℓ ∘ s.net.fwd) x γ ∧
      ∀ j, HasDerivAt (fun r => ℓ (s.net.fwd (Function.update x j r))) (γ j) (x j) := by
  have hf := forward_eq_runRange n hc hl (vecT x)
  unfold Network.runRange at hf
  rw [hn, DenseStack.forward_fold s x hv] at hf
  simp only [] at hf
  obtain ⟨ws, bs, gs, h1, h2, h3, _⟩ := back_walk s x g 0
    { pre := s.pres x, act := vecT x :: s.acts x, recs := s.layers.map (fun _ => Recorded.none) } [] [] hv rfl rfl rfl rfl
  have hb := backward_eq_backSpec n hc (vecT g)
    { pre := s.pres x, act := vecT x :: s.acts x, recs := s.layers.map (fun _ => Recorded.none) }
  rw [hn, List.range_eq_range', h1] at hb
  simp only [] at hb
  have hgrad := Net.grad s.net x (Stack.net_ok s x hv hk) ℓ g hg
  refine ⟨_, ws, bs, vecT g :: gs, s.net.bwd x g, hf, acts_last s x, hb, ?_, hgrad, fun j => hgrad.partial j⟩
  rw [List.getLast?_cons, ← h2]

open DenseStack Walk in
/-- … and the weight gradient it records for the first layer is the gradient of the objective with
    respect to that layer's weight matrix, entry by entry (any later layer is the first layer of the
    sub-stack that starts there) -/
theorem mlp_first_layer_weight_gradient {d m k : ℕ} (n : Network ℝ) (a : Act) (W : V (Fin m × Fin d)) (b : Vec m)
    (rest : Stack m k) (hn : n.layers = (Stack.cons a W b rest).layers)
    (hc : n.connect = []) (x : Vec d) (hv : (Stack.cons a W b rest).Valid) (hk : (Stack.cons a W b rest).NoKinks x)
    (ℓ : Vec k → ℝ) (g : Vec k) (hg : IsGrad ℓ ((Stack.cons a W b rest).net.fwd x) g) :
    ∃ ws bs gs ω,
      n.backward (vecT g)
        { pre := (Stack.cons a W b rest).pres x, act := vecT x :: (Stack.cons a W b rest).acts x,
          recs := (Stack.cons a W b rest).layers.map (fun _ => Recorded.none) } = .ok (ws, bs, gs) ∧
      ws.getLast? = some (.one (matT ω)) ∧
      ∀ p, HasDerivAt (fun r => ℓ (rest.net.fwd (denseFn (Act.f a) (Function.update W p r) b x))) (ω p) (W p) := by
  obtain ⟨ws, bs, gs, h1, _, _, h4⟩ := back_walk (Stack.cons a W b rest) x g 0
    { pre := (Stack.cons a W b rest).pres x, act := vecT x :: (Stack.cons a W b rest).acts x,
      recs := (Stack.cons a W b rest).layers.map (fun _ => Recorded.none) } [] [] hv rfl rfl rfl rfl
  have hb := backward_eq_backSpec n hc (vecT g)
    { pre := (Stack.cons a W b rest).pres x, act := vecT x :: (Stack.cons a W b rest).acts x,
      recs := (Stack.cons a W b rest).layers.map (fun _ => Recorded.none) }
  rw [hn, List.range_eq_range', h1] at hb
  simp only [] at hb h4
  refine ⟨ws, bs, vecT g :: gs, _, hb, h4, ?_⟩
  have hd : ∀ i, HasDerivAt (Act.f a) (Act.df a (densePre W b x i)) (densePre W b x i) :=
    fun i => DenseStack.act_hasDerivAt a hv.1 _ (hk.1 i)
  exact parameter_gradient (fun W' => denseFn (Act.f a) W' b x) W _
    (dense_vjp_weights (Act.f a) (Act.df a) W b x hd) rest.net (Stack.net_ok rest _ hv.2.2.2 hk.2) ℓ g hg

open DenseStack in
/-- non-vacuity: a 3 → 2 → 2 perceptron (sigmoid, then leaky ReLU with positive pre-activations) meets
    every hypothesis of the two theorems above -/
example : (Stack.cons .sigmoid (fun _ : Fin 2 × Fin 3 => (1 : ℝ)) (fun _ => 0)
            (Stack.cons .linear (fun _ : Fin 2 × Fin 2 => (1 : ℝ)) (fun _ => 1) (.nil 2))).Valid ∧
          (Stack.cons .sigmoid (fun _ : Fin 2 × Fin 3 => (1 : ℝ)) (fun _ => 0)
            (Stack.cons .linear (fun _ : Fin 2 × Fin 2 => (1 : ℝ)) (fun _ => 1) (.nil 2))).NoKinks (fun _ => 1) := by
  refine ⟨⟨by decide, by decide, by decide, by decide, by decide, by decide, trivial⟩, ⟨?_, ?_, trivial⟩⟩
  · intro i h; rcases h with h | h <;> cases h
  · intro i h; rcases h with h | h <;> cases h

/-! ### spatial layers: backward is the transpose of forward, for every configuration

The pre-activation of a convolution / deconvolution is bilinear in (kernels, input), that of a
max-pool away from ties is the selection of the recorded arg-max positions; the derivative of a
(bi)linear map is the map itself, so "backward returns the derivative" is the adjoint identity
`⟨δ, forward(direction)⟩ = ⟨backward(δ), direction⟩` for every direction — proved here for **every
stride, dilation, padding, kernel size, channel and filter count** (`δ = g ⊙ act′(pre)` is formed
element-wise exactly as in the dense layer).  `ip3`/`ip4` are the inner products over an index box. -/

open Adjoint Adjoint4 in
/-- deconvolution, input: `⟨δ, deconv_K(v)⟩ = ⟨gx(δ), v⟩` -/
theorem deconv_input_gradient_is_transpose (l : Deconv ℝ) (x v : V3 ℝ) (ks : List (V3 ℝ)) (delta : V3 ℝ)
    (kf kc ih iw kh kw oh ow : ℕ) :
    ip3 kf oh ow (Deconv.scatter v ks kf kc (Deconv.taps l ih iw kh kw oh ow) oh ow) delta =
      ip3 kc ih iw (Deconv.gradPass x ks delta kf kc kh kw ih iw (Deconv.taps l ih iw kh kw oh ow)).1 v :=
  DeconvAdjoint.input_adjoint l x v ks delta kf kc ih iw kh kw oh ow

open Adjoint Adjoint4 in
/-- deconvolution, kernels: `⟨δ, deconv_{dK}(x)⟩ = ⟨gK(δ), dK⟩` -/
theorem deconv_kernel_gradient_is_transpose (l : Deconv ℝ) (x : V3 ℝ) (ks dK : List (V3 ℝ)) (delta : V3 ℝ)
    (kf kc ih iw kh kw oh ow : ℕ) :
    ip3 kf oh ow (Deconv.scatter x dK kf kc (Deconv.taps l ih iw kh kw oh ow) oh ow) delta =
      ip4 kf kc kh kw (Deconv.gradPass x ks delta kf kc kh kw ih iw (Deconv.taps l ih iw kh kw oh ow)).2 dK :=
  DeconvAdjoint.kernel_adjoint l x ks dK delta kf kc ih iw kh kw oh ow

open Adjoint Finset in
/-- convolution, input (through the zero padding and the crop): for every direction `v` of the
    input's shape, `⟨δ, conv_K(pad v)⟩ = ⟨crop(padded gradient(δ)), v⟩` -/
theorem conv_input_gradient_is_transpose (l : Conv ℝ) (ks : List (V3 ℝ)) (delta v : V3 ℝ)
    (kf kc kh kw oh ow ih iw : ℕ) (hv : L.Dims3 v kc ih iw) (hc : 0 < kc) (hih : 0 < ih) :
    ∃ vp, Tensor.pad3d v (ih + 2 * l.padding.1) (iw + 2 * l.padding.2) = .ok vp ∧
      (∑ f ∈ range kf, ∑ m ∈ range oh, ∑ n ∈ range ow,
        L.get3D 0 delta f m n *
          Conv.convolveAt l vp (ks.getD f []) kc kh kw (ih + 2 * l.padding.1) (iw + 2 * l.padding.2) m n) =
      ip3 kc ih iw (Conv.crop l (Conv.paddedInputGrad l ks delta kf kc kh kw oh ow
        (ih + 2 * l.padding.1) (iw + 2 * l.padding.2)) ih iw) v := by
  obtain ⟨vp, hp, hget⟩ := C02.pad3d_get v kc ih iw l.padding.1 l.padding.2 hv hc hih
  refine ⟨vp, hp, ?_⟩
  rw [ConvAdjoint.padded_input_adjoint]
  exact ConvAdjoint.pad_crop_adjoint l _ v vp kc ih iw hget

open Adjoint4 Finset in
/-- convolution, kernels: `⟨δ, conv_{dK}(x̃)⟩ = ⟨gK(δ), dK⟩` -/
theorem conv_kernel_gradient_is_transpose (l : Conv ℝ) (dK : List (V3 ℝ)) (delta xp : V3 ℝ) (kf kc kh kw oh ow ph pw : ℕ) :
    (∑ f ∈ range kf, ∑ m ∈ range oh, ∑ n ∈ range ow,
        L.get3D 0 delta f m n * Conv.convolveAt l xp (dK.getD f []) kc kh kw ph pw m n) =
      ∑ f ∈ range kf, ∑ c ∈ range kc, ∑ h ∈ range kh, ∑ w ∈ range kw,
        L.get4D 0 (Conv.kernelGrad l xp delta kf kc kh kw oh ow ph pw) f c h w * L.get4D 0 dK f c h w :=
  ConvAdjoint.kernel_adjoint l dK delta xp kf kc kh kw oh ow ph pw

open Adjoint in
/-- max-pool: `⟨routed gradient, v⟩ = Σ og[c][h][w] · v[c][recorded arg-max of (c,h,w)]` -/
theorem maxpool_gradient_is_transpose (l : Maxpool ℝ) (hl : l.loops = 1) (max : MaxIdx) (og v : V3 ℝ)
    (pos : List (ℕ × ℕ × ℕ)) (ic ih iw : ℕ)
    (hpos : ∀ p ∈ pos, p.1 < ic ∧ ∀ q ∈ L.get3D [] max p.1 p.2.1 p.2.2, q.1 < ih ∧ q.2 < iw) :
    ip3 ic ih iw (Maxpool.route l max og pos ic ih iw) v =
      (pos.map (fun p => L.get3D 0 og p.1 p.2.1 p.2.2 *
        ((L.get3D [] max p.1 p.2.1 p.2.2).map (fun q => L.get3D 0 v p.1 q.1 q.2)).sum)).sum :=
  MaxpoolAdjoint.route_adjoint l hl max og v pos ic ih iw hpos

/-! ### spatial layers as differentiable vector functions: the model's backward passes are their
transposed Jacobians

`ConvVJP.convPre`, `DeconvVJP.deconvPre`, `MaxpoolVJP.select` are the layers' pre-activation maps on
vectors indexed by `Fin c × Fin h × Fin w`, defined *through the model's own functions* (`convolveAt`,
`Deconv.scatter`, the recorded indices); `convBwd`, `convBwdK`, `deconvBwd`, `deconvBwdK`, `routeV` are
what the model's backward passes (`Conv.crop ∘ paddedInputGrad`, `kernelGrad`, `Deconv.gradPass`,
`Maxpool.route`) return.  With `isVJP_elementwise` (the activation) and `isVJP_reindex` (flatten /
reshape) these are the building blocks of `heterogeneous_walk_is_gradient` below. -/

open ConvVJP in
/-- convolution, input: every stride, dilation, padding, kernel size, channel and filter count -/
theorem conv_backward_is_transposed_jacobian (l : Conv ℝ) (ks : List (V3 ℝ)) (kf kc kh kw ih iw oh ow : ℕ)
    (hkc : 0 < kc) (hih : 0 < ih) (x : V (I3 kc ih iw)) :
    IsVJP (convPre l ks kf kc kh kw ih iw oh ow) x (convBwd l ks kf kc kh kw ih iw oh ow) :=
  conv_isVJP l ks kf kc kh kw ih iw oh ow hkc hih x

open ConvVJP in
/-- convolution with its element-wise activation (differentiable at every pre-activation) -/
theorem conv_layer_backward_is_transposed_jacobian (l : Conv ℝ) (ks : List (V3 ℝ)) (kf kc kh kw ih iw oh ow : ℕ)
    (a : Act) (ha : a ≠ .softmax) (hkc : 0 < kc) (hih : 0 < ih) (x : V (I3 kc ih iw))
    (hk : ∀ i, NoKink a (convPre l ks kf kc kh kw ih iw oh ow x i)) :
    IsVJP (fun y => fun i => Act.f a (convPre l ks kf kc kh kw ih iw oh ow y i)) x
      (fun g => convBwd l ks kf kc kh kw ih iw oh ow
        (fun i => Act.df a (convPre l ks kf kc kh kw ih iw oh ow x i) * g i)) :=
  conv_layer_isVJP l ks kf kc kh kw ih iw oh ow (Act.f a) (Act.df a) hkc hih x
    (fun i => act_hasDerivAt a ha _ (hk i))

open ConvVJP in
/-- convolution, kernels -/
theorem conv_kernel_gradient_is_transposed_jacobian (l : Conv ℝ) (kf kc kh kw oh ow : ℕ) (xp : V3 ℝ) (ph pw : ℕ)
    (K : V (I4 kf kc kh kw)) :
    IsVJP (convPreK l kf kc kh kw oh ow xp ph pw) K (convBwdK l kf kc kh kw oh ow xp ph pw) :=
  conv_kernel_isVJP l kf kc kh kw oh ow xp ph pw K

open ConvVJP DeconvVJP in
/-- deconvolution, input and kernels -/
theorem deconv_backward_is_transposed_jacobian (l : Deconv ℝ) (kf kc kh kw ih iw oh ow : ℕ) (ks : List (V3 ℝ))
    (x0 : V3 ℝ) (x : V (I3 kc ih iw)) (K : V (I4 kf kc kh kw)) :
    IsVJP (deconvPre l kf kc kh kw ih iw oh ow ks) x (deconvBwd l kf kc kh kw ih iw oh ow ks x0) ∧
    IsVJP (deconvPreK l kf kc kh kw ih iw oh ow x0) K (deconvBwdK l kf kc kh kw ih iw oh ow x0 ks) :=
  ⟨deconv_isVJP l kf kc kh kw ih iw oh ow ks x0 x, deconv_kernel_isVJP l kf kc kh kw ih iw oh ow x0 ks K⟩

open ConvVJP MaxpoolVJP in
/-- max-pool (away from ties the pool is locally the selection of the recorded positions) -/
theorem maxpool_backward_is_transposed_jacobian (l : Maxpool ℝ) (max : MaxIdx) (ic ih iw oh ow : ℕ) (hl : l.loops = 1)
    (hidx : ∀ c h w, c < ic → h < oh → w < ow → ∀ q ∈ L.get3D [] max c h w, q.1 < ih ∧ q.2 < iw)
    (x : V (I3 ic ih iw)) :
    IsVJP (select max ic ih iw oh ow) x (routeV l max ic ih iw oh ow) :=
  maxpool_isVJP l max ic ih iw oh ow hl hidx x

/-- **any mix and order of layer kinds, any depth**: a stack between arbitrary finite index types whose
    layers' backward functions are their transposed Jacobians (dense, convolution, deconvolution,
    max-pool, activations, flatten — the theorems above) yields, by the reverse walk, the gradient of
    any differentiable objective; every coordinate is the partial derivative -/
theorem heterogeneous_walk_is_gradient {a c : Idx} [DecidableEq a.T] (net : GNet a c) (x : V a.T) (h : net.Ok x)
    (ℓ : V c.T → ℝ) (g : V c.T) (hl : IsGrad ℓ (net.fwd x) g) (j : a.T) :
    IsGrad (ℓ ∘ net.fwd) x (net.bwd x g) ∧
    HasDerivAt (fun r => ℓ (net.fwd (Function.update x j r))) (net.bwd x g j) (x j) :=
  ⟨GNet.grad net x h ℓ g hl, (GNet.grad net x h ℓ g hl).partial j⟩

/-! ### the soft-max output layer, end to end -/

/-- the model's soft-max forward on a vector is `softmaxV` -/
theorem softmax_forward_vec {n : ℕ} (z : Vec n) : Act.forward .softmax (vecT z) = .ok (vecT (softmaxV z)) := by
  simp only [Act.forward, Act.softmaxFwd, vecT, Tensor.getFlat, softmax_model_eq, Tensor.single, Tensor.reshape,
    List.length_ofFn]

/-- **soft-max dense output layer under cross-entropy, on the model's own forward / objective /
    backward**: the forward pass outputs `p = softmax(Wx + b)`, the objective's gradient is `p − t`,
    and what `Dense::backward` returns for it — `Wᵀ(p − t)`, `(p − t) ⊗ x`, `p − t` — are the gradients
    of `x ↦ CE(t, softmax(Wx + b))` with respect to the input, the weights and the bias
    (for a target distribution `t`) -/
theorem softmax_output_layer_gradients {r c : ℕ} [NeZero r] (l : DenseLayer ℝ) (W : V (Fin r × Fin c)) (b : Vec r)
    (hl : IsDense l .softmax W b) (hr : 0 < r) (hc : 0 < c) (x : Vec c) (t : Vec r) (ht : ∑ i, t i = 1) :
    l.forward (vecT x) = .ok (vecT (densePre W b x), vecT (softmaxV (densePre W b x))) ∧
    (∀ len i, Obj.grad .ce len (t i) (softmaxV (densePre W b x) i) = softmaxV (densePre W b x) i - t i) ∧
    l.backward (vecT (fun i => softmaxV (densePre W b x) i - t i)) (vecT x) (vecT (densePre W b x)) =
      .ok (vecT (inputGrad W (fun i => softmaxV (densePre W b x) i - t i)),
           matT (weightGrad (fun i => softmaxV (densePre W b x) i - t i) x),
           some (vecT (fun i => softmaxV (densePre W b x) i - t i))) ∧
    IsGrad (fun x' => ceSoftmax t (densePre W b x')) x (inputGrad W (fun i => softmaxV (densePre W b x) i - t i)) ∧
    IsGrad (fun W' => ceSoftmax t (densePre W' b x)) W (weightGrad (fun i => softmaxV (densePre W b x) i - t i) x) ∧
    IsGrad (fun b' => ceSoftmax t (densePre W b' x)) b (fun i => softmaxV (densePre W b x) i - t i) := by
  have hce := softmax_ce_gradient t (densePre W b x) ht
  have hid : ∀ z : ℝ, HasDerivAt (fun y : ℝ => y) ((fun _ : ℝ => (1 : ℝ)) z) z := fun z => hasDerivAt_id z
  have hdelta : delta (fun _ : ℝ => (1 : ℝ)) (densePre W b x) (fun i => softmaxV (densePre W b x) i - t i) =
      (fun i => softmaxV (densePre W b x) i - t i) := by
    funext i; simp [delta]
  refine ⟨?_, fun _ _ => rfl, ?_, ?_, ?_, ?_⟩
  · unfold DenseLayer.forward
    rw [hl.weights, dot_mat_vec, hl.bias]
    have hadd : (vecT (fun i => ∑ j, W (i, j) * x j)).add (vecT b) = .ok (vecT (densePre W b x)) := by
      simp only [Tensor.add, Tensor.zipOp, vecT, ne_eq, not_true_eq_false, ↓reduceIte, zip1_ofFn]
      rfl
    simp only [hadd, hl.act, softmax_forward_vec, finish, hl.eval]
    rfl
  · exact softmax_dense_passes_gradient l W b hl hr hc x _ _ rfl
  · have := IsGrad.comp_vjp (dense_vjp_input (fun y => y) (fun _ => 1) W b x (fun i => hid _)) hce
    rw [hdelta] at this
    exact this
  · have := IsGrad.comp_vjp (dense_vjp_weights (fun y => y) (fun _ => 1) W b x (fun i => hid _)) hce
    rw [hdelta] at this
    exact this
  · have := IsGrad.comp_vjp (dense_vjp_bias (fun y => y) (fun _ => 1) W b x (fun i => hid _)) hce
    rw [hdelta] at this
    exact this

/-! ### feedback blocks -/

open BlockWalk in
/-- **`Feedback::backward` of a block without skip connections is the plain reverse walk over its unrolled
    layers** (any inner layers, any scalar type): position `i` gets the gradient position `i+1` produced,
    the activation it consumed and its own pre-activation; the block hands back the last input gradient -/
theorem block_reverse_walk {α : Type} [Scalar α] (f : Feedback α) (hc : f.connect = []) (g : Tensor α)
    (un act : List (Tensor α)) :
    f.backward g un act =
      match blockBackSpec un act (List.zip (List.range f.layers.length) f.layers).reverse g with
      | .error e => .error e
      | .ok (gs, ws, bs) => .ok (lastGrad g gs, ws, bs) :=
  backward_eq_blockBackSpec f hc g un act

open DenseStack DenseBlock in
/-- **a feedback block that unrolls to a stack of dense layers (any depth and widths, element-wise
    activations, no skip connections), on the model's own `Feedback.forwardAll` / `Feedback.backward`
    folds**: forward records the stack's values, and backward — on exactly what forward recorded — hands
    back the gradient of the objective with respect to the block's input -/
theorem dense_block_backward_is_gradient {d k : ℕ} (f : Feedback ℝ) (s : Stack d k)
    (hf : IsDenseBlock f s) (hpos : 0 < s.layers.length) (x : Vec d) (hv : s.Valid) (hk : s.NoKinks x)
    (ℓ : Vec k → ℝ) (g : Vec k) (hg : IsGrad ℓ (s.net.fwd x) g) :
    ∃ un act mx ws bs γ,
      f.forwardAll (vecT x) = .ok (un, act, mx) ∧ act.getLast? = some (vecT (s.net.fwd x)) ∧
      f.backward (vecT g) un act = .ok (vecT γ, ws, bs) ∧
      IsGrad (ℓ ∘ s.net.fwd) x γ ∧
      ∀ j, HasDerivAt (fun r => ℓ (s.net.fwd (Function.update x j r))) (γ j) (x j) := by
  obtain ⟨ws, bs, hb⟩ := block_backward f s hf hv x g
  have hgrad := Net.grad s.net x (Stack.net_ok s x hv hk) ℓ g hg
  exact ⟨_, _, _, ws, bs, s.net.bwd x g, block_forwardAll f s hf hv hpos x, DenseBlock.acts_last s x, hb, hgrad,
    fun j => hgrad.partial j⟩

/-! ### the convolution on the model's own `Conv.forward` / `Conv.backward`, and a network mixing spatial and dense layers -/

open ConvVJP ConvBridge in
/-- **`Convolution::forward` is `a ∘ conv_K` and `Convolution::backward` returns its two transposed
    Jacobians**, as statements about the model's `Conv.forward` / `Conv.backward` themselves (entry,
    padding, `convolve`, activation, Hadamard product, scatter, crop, the `Except` plumbing): for every
    stride, dilation, padding, kernel size, channel and filter count -/
theorem conv_layer_backward_is_derivative {kf kc kh kw ih iw oh ow : ℕ} (l : Conv ℝ) (a : Act) (K : V (I4 kf kc kh kw))
    (hl : IsConv l a K ih iw oh ow) (ha : a ≠ .softmax) (hfl : l.flatten = false) (x : V (I3 kc ih iw))
    (hk : ∀ i, NoKink a (pre l K ih iw oh ow x i)) :
    l.forward (T3 x) = .ok (T3 (pre l K ih iw oh ow x), T3 (fun i => Act.f a (pre l K ih iw oh ow x i))) ∧
    ∃ (bx : V (I3 kf oh ow) → V (I3 kc ih iw)) (bK : V (I3 kf oh ow) → V (I4 kf kc kh kw)),
      (∀ g, l.backward (T3 g) (T3 x) (T3 (pre l K ih iw oh ow x)) = .ok (T3 (bx g), T4 (bK g), none)) ∧
      IsVJP (fun x' => fun i => Act.f a (pre l K ih iw oh ow x' i)) x bx ∧
      IsVJP (fun K' => fun i => Act.f a (pre l K' ih iw oh ow x i)) K bK :=
  layer_vjps l a K hl ha hfl x (fun i => act_hasDerivAt a ha _ (hk i))

open ConvVJP ConvBridge ConvNet Flat3 DenseStack in
/-- **end to end for a network mixing spatial and dense layers** — a convolution (any configuration,
    element-wise activation, flattened because a dense layer follows) followed by a stack of dense layers of
    any depth — **on the model's own `Network.forward` / `Network.backward` folds**: forward ends in the
    network function's value; the last gradient backward hands on is the gradient of the objective with
    respect to the input image; the weight gradient recorded for the convolution is the gradient with
    respect to its kernels; every coordinate of both is the partial derivative -/
theorem conv_then_dense_network_gradients {kf kc kh kw ih iw oh ow k : ℕ} (n : Network ℝ) (l : Conv ℝ) (a : Act)
    (K : V (I4 kf kc kh kw)) (hl : IsConv l a K ih iw oh ow) (ha : a ≠ .softmax) (hfl : l.flatten = true)
    (s : Stack (kf * oh * ow) k) (hn : n.layers = .conv l :: s.layers) (hc : n.connect = []) (hlb : n.loopbacks = [])
    (hv : s.Valid) (x : V (I3 kc ih iw)) (hk : ∀ i, NoKink a (pre l K ih iw oh ow x i))
    (hks : s.NoKinks (flat (convFn l a K ih iw oh ow x)))
    (ℓ : Vec k → ℝ) (g : Vec k) (hg : IsGrad ℓ (netFn l a K ih iw s x) g) :
    ∃ t ws bs gs γ ω,
      n.forward (T3 x) = .ok t ∧ t.act.getLast? = some (vecT (netFn l a K ih iw s x)) ∧
      n.backward (vecT g) t = .ok (ws, bs, gs) ∧ gs.getLast? = some (T3 γ) ∧ ws.getLast? = some (.one (T4 ω)) ∧
      IsGrad (ℓ ∘ netFn l a K ih iw s) x γ ∧
      IsGrad (fun K' => ℓ (netFn l a K' ih iw s x)) K ω ∧
      (∀ q, HasDerivAt (fun r => ℓ (netFn l a K ih iw s (Function.update x q r))) (γ q) (x q)) ∧
      (∀ q, HasDerivAt (fun r => ℓ (netFn l a (Function.update K q r) ih iw s x)) (ω q) (K q)) :=
  conv_mlp_gradients n l a K hl ha hfl s hn hc hlb hv x hk hks ℓ g hg

/-! ### any sequence of layers, on the model's own folds -/

open LayerChain in
/-- **the general end-to-end theorem**: a network (no skip / loop connections) whose layers are *any*
    sequence of model layers each of which realises a vector function between tensor encodings —
    `layerForward` returns the encoded value, `layerBackward` returns the encoded backward function — computes,
    on the model's own `Network.forward` / `Network.backward` folds, the composition and its reverse-mode
    composition; when every backward function is the transposed Jacobian at the point it is evaluated at,
    the last gradient handed on is the gradient of the objective with respect to the network input, and the
    weight and bias gradients recorded are, layer by layer (`allGrads`, last layer first), each layer's gradient
    function applied to the gradient the layers after it handed back -/
theorem layer_sequence_network_gradient {a : Idx} {ea : Enc a} {c : Idx} {ec : Enc c} (n : Network ℝ) (ch : Chain a ea c ec)
    (hn : n.layers = layers ch) (hc : n.connect = []) (hl : n.loopbacks = []) (x : V a.T) (hr : Real ch x)
    (hok : (gnet ch).Ok x) (ℓ : V c.T → ℝ) (g : V c.T) (hg : IsGrad ℓ ((gnet ch).fwd x) g) :
    ∃ t ws bs gs,
      n.forward (ea x) = .ok t ∧ t.act.getLast? = some (ec ((gnet ch).fwd x)) ∧
      n.backward (ec g) t = .ok (ws, bs, gs) ∧ gs.getLast? = some (ea ((gnet ch).bwd x g)) ∧
      IsGrad (ℓ ∘ (gnet ch).fwd) x ((gnet ch).bwd x g) ∧ FirstGrads ch x g ws bs ∧
      ws = (allGrads ch x g).map (·.1) ∧ bs = (allGrads ch x g).map (·.2) :=
  network_gradient n ch hn hc hl x hr hok ℓ g hg

open Network ChainLinks ConvVJP ConvBridge ConvNet Flat3 in
/-- the layer kinds are such links: **dense** … -/
theorem dense_is_link {r c : ℕ} (l : DenseLayer ℝ) (a : Act) (W : V (Fin r × Fin c)) (b : Vec r) (hl : IsDense l a W b)
    (ha : a ≠ .softmax) (hr : 0 < r) (hc : 0 < c) (x : Vec c) (hk : ∀ i, NoKink a (densePre W b x i)) :
    (layerForward (.dense l) (vecT x) = .ok (vecT (densePre W b x), vecT (denseFn (Act.f a) W b x), .none) ∧
     ∀ g, layerBackward (.dense l) (vecT g) (vecT x) (vecT (densePre W b x)) (.ok .none) =
      .ok (vecT (denseBwd a W b x g), (denseWG a W b x g).1, (denseWG a W b x g).2)) ∧
    IsVJP (denseFn (Act.f a) W b) x (denseBwd a W b x) :=
  ⟨real_dense l a W b hl ha hr hc x, vjp_dense a ha W b x hk⟩

open Network ChainLinks ConvVJP ConvBridge ConvNet Flat3 in
/-- … **convolution** followed by another spatial layer (input gradient and kernel gradient) … -/
theorem conv_is_link {kf kc kh kw ih iw oh ow : ℕ} (l : Conv ℝ) (a : Act) (K : V (I4 kf kc kh kw))
    (hl : IsConv l a K ih iw oh ow) (ha : a ≠ .softmax) (hfl : l.flatten = false) (x : V (I3 kc ih iw))
    (hk : ∀ i, NoKink a (pre l K ih iw oh ow x i)) :
    (layerForward (.conv l) (T3 x) = .ok (T3 (pre l K ih iw oh ow x), T3 (convFn l a K ih iw oh ow x), .none) ∧
     ∀ g, layerBackward (.conv l) (T3 g) (T3 x) (T3 (pre l K ih iw oh ow x)) (.ok .none) =
      .ok (T3 (convBwdX l a K ih iw oh ow x g), .one (T4 (convBwdKer l a K ih iw oh ow x g)), .one none)) ∧
    IsVJP (convFn l a K ih iw oh ow) x (convBwdX l a K ih iw oh ow x) ∧
    IsVJP (fun K' => convFn l a K' ih iw oh ow x) K (convBwdKer l a K ih iw oh ow x) :=
  ⟨real_conv l a K hl ha hfl x, vjp_conv l a K hl ha x hk, vjp_conv_kernels l a K hl ha x hk⟩

open Network ChainLinks ConvVJP ConvBridge ConvNet Flat3 in
/-- … and **convolution followed by a dense layer** (output flattened, gradient read back as `kf × oh × ow`) -/
theorem conv_flat_is_link {kf kc kh kw ih iw oh ow : ℕ} (l : Conv ℝ) (a : Act) (K : V (I4 kf kc kh kw))
    (hl : IsConv l a K ih iw oh ow) (ha : a ≠ .softmax) (hfl : l.flatten = true) (x : V (I3 kc ih iw))
    (hk : ∀ i, NoKink a (pre l K ih iw oh ow x i)) :
    (layerForward (.conv l) (T3 x) = .ok (T3 (pre l K ih iw oh ow x), vecT (flat (convFn l a K ih iw oh ow x)), .none) ∧
     ∀ g : Vec (kf * oh * ow), layerBackward (.conv l) (vecT g) (T3 x) (T3 (pre l K ih iw oh ow x)) (.ok .none) =
      .ok (T3 (convBwdX l a K ih iw oh ow x (unflat g)), .one (T4 (convBwdKer l a K ih iw oh ow x (unflat g))), .one none)) ∧
    IsVJP (fun x => flat (convFn l a K ih iw oh ow x)) x (fun g => convBwdX l a K ih iw oh ow x (unflat g)) :=
  ⟨real_conv_flat l a K hl ha hfl x, vjp_conv_flat l a K hl ha x hk⟩

open Network ChainLinks ConvVJP DeconvBridge Flat3 in
/-- … **deconvolution** on the model's own `Deconv.forward` / `Deconv.backward` (entry, the scatter loops, activation,
    Hadamard product, the backward scatter `gradPass`), every stride, padding, kernel, channel and filter count:
    a link whose backward is the transposed Jacobian in the input, and whose recorded kernel gradient is the
    transposed Jacobian in the kernels … -/
theorem deconv_is_link {kf kc kh kw ih iw oh ow : ℕ} (l : Deconv ℝ) (a : Act) (K : V (I4 kf kc kh kw))
    (hl : IsDeconv l a K ih iw oh ow) (ha : a ≠ .softmax) (hfl : l.flatten = false) (x : V (I3 kc ih iw))
    (hk : ∀ i, NoKink a (DeconvBridge.pre l K ih iw oh ow x i)) :
    (layerForward (.deconv l) (ConvBridge.T3 x) =
        .ok (ConvBridge.T3 (DeconvBridge.pre l K ih iw oh ow x), ConvBridge.T3 (deconvFn l a K ih iw oh ow x), .none) ∧
     ∀ g, layerBackward (.deconv l) (ConvBridge.T3 g) (ConvBridge.T3 x) (ConvBridge.T3 (DeconvBridge.pre l K ih iw oh ow x)) (.ok .none) =
      .ok (ConvBridge.T3 (bwdX l a K ih iw oh ow x g), .one (ConvBridge.T4 (bwdKer l a K ih iw oh ow x g)), .one none)) ∧
    IsVJP (deconvFn l a K ih iw oh ow) x (bwdX l a K ih iw oh ow x) ∧
    IsVJP (fun K' => deconvFn l a K' ih iw oh ow x) K (bwdKer l a K ih iw oh ow x) :=
  ⟨real_deconv l a K hl ha hfl x, vjp_deconv l a K ha x hk, vjp_deconv_kernels l a K ha x hk⟩

open Network ChainLinks ConvVJP DeconvBridge Flat3 in
/-- … also when a dense layer follows (flattened output) -/
theorem deconv_flat_is_link {kf kc kh kw ih iw oh ow : ℕ} (l : Deconv ℝ) (a : Act) (K : V (I4 kf kc kh kw))
    (hl : IsDeconv l a K ih iw oh ow) (ha : a ≠ .softmax) (hfl : l.flatten = true) (x : V (I3 kc ih iw))
    (hk : ∀ i, NoKink a (DeconvBridge.pre l K ih iw oh ow x i)) :
    (layerForward (.deconv l) (ConvBridge.T3 x) =
        .ok (ConvBridge.T3 (DeconvBridge.pre l K ih iw oh ow x), vecT (flat (deconvFn l a K ih iw oh ow x)), .none) ∧
     ∀ g : Vec (kf * oh * ow), layerBackward (.deconv l) (vecT g) (ConvBridge.T3 x) (ConvBridge.T3 (DeconvBridge.pre l K ih iw oh ow x)) (.ok .none) =
      .ok (ConvBridge.T3 (bwdX l a K ih iw oh ow x (unflat g)), .one (ConvBridge.T4 (bwdKer l a K ih iw oh ow x (unflat g))), .one none)) ∧
    IsVJP (fun x => flat (deconvFn l a K ih iw oh ow x)) x (fun g => bwdX l a K ih iw oh ow x (unflat g)) :=
  ⟨real_deconv_flat l a K hl ha hfl x, vjp_deconv_flat l a K ha x hk⟩

open Network ChainLinks DenseStack DenseBlock in
/-- … and a **feedback block that unrolls to a stack of dense layers** (no internal skips; any number of
    loops, since the unrolled list is what the block holds) is a link: as a layer of `Network.forward` /
    `Network.backward` it computes the stack's function, and hands back the stack's reverse-mode gradient -/
theorem dense_block_is_link {n k : ℕ} (f : Feedback ℝ) (s : Stack n k) (hf : IsDenseBlock f s) (hv : s.Valid)
    (hpos : 0 < s.layers.length) (x : Vec n) (hk : s.NoKinks x) :
    (layerForward (.feedback f) (vecT x) = .ok ((s.pres x).head?.getD (vecT x), vecT (s.net.fwd x), blockRec s x) ∧
     ∀ g, layerBackward (.feedback f) (vecT g) (vecT x) ((s.pres x).head?.getD (vecT x)) (.ok (blockRec s x)) =
      .ok (vecT (s.net.bwd x g), (blockWG f s x g).1, (blockWG f s x g).2)) ∧
    IsVJP s.net.fwd x (s.net.bwd x) :=
  ⟨real_block f s hf hv hpos x, vjp_block s hv x hk⟩

open Network ChainLinks ConvVJP ConvBridge MaxpoolBridge MaxpoolLocal Flat3 in
/-- … **max-pool** on the model's own `Maxpool.forward` / `Maxpool.backward` (entry, the window loops writing
    value and arg-max position, the validity check of the recorded positions, the routing loop): its forward is
    the window maximum `poolFn`, it records the arg-max positions, and — at any input without ties — routing the
    gradient to the recorded positions is the transposed Jacobian of the pool itself (the pool is locally the
    selection of those positions) … -/
theorem maxpool_is_link {ic ih iw oh ow : ℕ} (l : Maxpool ℝ) (hl : IsPool l ic ih iw oh ow) (hfl : l.flatten = false)
    (x : V (I3 ic ih iw)) (hnt : NoTies l ih iw oh ow x) :
    (layerForward (.maxpool l) (T3 x) =
        .ok (T3 (poolFn l ih iw oh ow x), T3 (poolFn l ih iw oh ow x), .max (idxOf l ih iw oh ow x)) ∧
     ∀ g pre, layerBackward (.maxpool l) (T3 g) (T3 x) pre (.ok (.max (idxOf l ih iw oh ow x))) =
      .ok (T3 (poolBwd l ih iw oh ow x g), .one (Tensor.single []), .one none)) ∧
    IsVJP (poolFn l ih iw oh ow) x (poolBwd l ih iw oh ow x) :=
  ⟨real_pool l hl hfl x, vjp_pool l hl x hnt⟩

open Network ChainLinks ConvVJP ConvBridge MaxpoolBridge MaxpoolLocal Flat3 in
/-- … also when a dense layer follows (flattened output) -/
theorem maxpool_flat_is_link {ic ih iw oh ow : ℕ} (l : Maxpool ℝ) (hl : IsPool l ic ih iw oh ow) (hfl : l.flatten = true)
    (x : V (I3 ic ih iw)) (hnt : NoTies l ih iw oh ow x) :
    (layerForward (.maxpool l) (T3 x) =
        .ok (T3 (poolFn l ih iw oh ow x), vecT (flat (poolFn l ih iw oh ow x)), .max (idxOf l ih iw oh ow x)) ∧
     ∀ (g : Vec (ic * oh * ow)) pre, layerBackward (.maxpool l) (vecT g) (T3 x) pre (.ok (.max (idxOf l ih iw oh ow x))) =
      .ok (T3 (poolBwd l ih iw oh ow x (unflat g)), .one (Tensor.single []), .one none)) ∧
    IsVJP (fun x => flat (poolFn l ih iw oh ow x)) x (fun g => poolBwd l ih iw oh ow x (unflat g)) :=
  ⟨real_pool_flat l hl hfl x, vjp_pool_flat l hl x hnt⟩

open MaxpoolBridge in
/-- non-vacuity: a 2×3 pool with stride (2,1) on a 3×5×4 input -/
example : IsPool ({ inputs := .triple 3 5 4, outputs := .triple 3 2 2, loops := 1, kernel := (2, 3), stride := (2, 1), flatten := true } : Maxpool ℝ) 3 5 4 2 2 :=
  ⟨rfl, rfl, by decide, by decide, by decide, by decide, by decide, by decide, rfl, by decide⟩

open Network ChainLinks LayerChain ConvVJP ConvBridge MaxpoolBridge MaxpoolLocal ConvNet Flat3 DenseStack in
/-- **convolution → max-pool → (flatten) → dense stack of any depth** (the classic CNN shape), every configuration of
    both spatial layers, on the model's own `Network.forward` / `Network.backward` folds: the input gradient and the
    convolution's kernel gradient are the gradients of the objective (away from activation kinks and pooling ties) -/
theorem conv_pool_mlp_gradients {c0 h0 w0 f1 kh1 kw1 h1 w1 h2 w2 k : ℕ} (n : Network ℝ)
    (l1 : Conv ℝ) (a1 : Act) (K1 : V (I4 f1 c0 kh1 kw1)) (hl1 : IsConv l1 a1 K1 h0 w0 h1 w1) (ha1 : a1 ≠ .softmax) (hf1 : l1.flatten = false)
    (l2 : Maxpool ℝ) (hl2 : IsPool l2 f1 h1 w1 h2 w2) (hf2 : l2.flatten = true)
    (s : Stack (f1 * h2 * w2) k) (hv : s.Valid)
    (hn : n.layers = .conv l1 :: .maxpool l2 :: s.layers) (hc : n.connect = []) (hlb : n.loopbacks = [])
    (x : V (I3 c0 h0 w0))
    (hk1 : ∀ i, NoKink a1 (pre l1 K1 h0 w0 h1 w1 x i))
    (hnt : NoTies l2 h1 w1 h2 w2 (convFn l1 a1 K1 h0 w0 h1 w1 x))
    (hks : s.NoKinks (flat (poolFn l2 h1 w1 h2 w2 (convFn l1 a1 K1 h0 w0 h1 w1 x))))
    (ℓ : Vec k → ℝ) (g : Vec k) :
    let F := fun (K : V (I4 f1 c0 kh1 kw1)) (z : V (I3 c0 h0 w0)) =>
      s.net.fwd (flat (poolFn l2 h1 w1 h2 w2 (convFn l1 a1 K h0 w0 h1 w1 z)))
    IsGrad ℓ (F K1 x) g →
    ∃ t ws bs gs γ ω,
      n.forward (T3 x) = .ok t ∧ t.act.getLast? = some (vecT (F K1 x)) ∧
      n.backward (vecT g) t = .ok (ws, bs, gs) ∧ gs.getLast? = some (T3 γ) ∧ ws.getLast? = some (.one (T4 ω)) ∧
      IsGrad (ℓ ∘ F K1) x γ ∧ IsGrad (fun K => ℓ (F K x)) K1 ω := by
  intro F hg
  let tail := consPoolFlat (oh := h2) (ow := w2) l2 h1 w1 (stackChain s)
  let ch := consConv (oh := h1) (ow := w1) l1 a1 K1 h0 w0 tail
  have hfwdK : ∀ (K : V (I4 f1 c0 kh1 kw1)) (z : V (I3 c0 h0 w0)),
      (gnet tail).fwd (convFn l1 a1 K h0 w0 h1 w1 z) = F K z := by
    intro K z
    simp only [tail, consPoolFlat, gnet, GNet.fwd, stack_gnet_fwd, F]
  have hfwd : (gnet ch).fwd = F K1 := by
    funext z
    simp only [ch, consConv, gnet, GNet.fwd]
    exact hfwdK K1 z
  have hreal : Real ch x := by
    obtain ⟨r1, r2⟩ := real_conv l1 a1 K1 hl1 ha1 hf1 x
    obtain ⟨q1, q2⟩ := real_pool_flat l2 hl2 hf2 (convFn l1 a1 K1 h0 w0 h1 w1 x)
    exact ⟨r1, r2, q1, fun g => q2 g _, stackChain_real s _ hv⟩
  have htailok : (gnet tail).Ok (convFn l1 a1 K1 h0 w0 h1 w1 x) :=
    ⟨vjp_pool_flat l2 hl2 _ hnt, stackChain_ok s _ hv hks⟩
  have hok : (gnet ch).Ok x := ⟨vjp_conv l1 a1 K1 hl1 ha1 x hk1, htailok⟩
  have hlayers : n.layers = LayerChain.layers ch := by
    rw [hn]
    simp only [ch, tail, consConv, consPoolFlat, LayerChain.layers, stackChain_layers]
  have hg' : IsGrad ℓ ((gnet ch).fwd x) g := by rw [hfwd]; exact hg
  obtain ⟨t, ws, bs, gs, h1', h2', h3', h4', h5', h6'⟩ := network_gradient n ch hlayers hc hlb x hreal hok ℓ g hg'
  have hpar := LayerChain.parameter_gradient (fun K' => convFn l1 a1 K' h0 w0 h1 w1 x) K1
    (convBwdKer l1 a1 K1 h0 w0 h1 w1 x) (vjp_conv_kernels l1 a1 K1 hl1 ha1 x hk1) (gnet tail) htailok ℓ g
    (by rw [hfwdK K1 x]; exact hg)
  refine ⟨t, ws, bs, gs, (gnet ch).bwd x g, _, h1', ?_, h3', h4', h6'.1.1, ?_, ?_⟩
  · rw [h2', hfwd]; rfl
  · rw [← hfwd]; exact h5'
  · have := hpar.1
    simp only [hfwdK] at this
    exact this

open Network LayerChain ChainBlock in
/-- **any feedback block without internal skip connections is a link** — its unrolled inner layers (dense,
    convolution, deconvolution, in any order; the repetitions are what the block holds) realise a chain of vector
    functions: as a layer of `Network.forward` / `Network.backward` the block computes the chain's composition, and on
    what its own forward recorded its `Feedback::backward` hands back the chain's reverse-mode gradient — the
    transposed Jacobian of the block when every inner backward is one -/
theorem feedback_block_is_link {a : Idx} {ea : Enc a} {c : Idx} {ec : Enc c} (f : Feedback ℝ) (ch : Chain a ea c ec)
    (ils : List (InnerLayer ℝ)) (hf : IsChainBlock f ils) (x : V a.T) (hr : InnerReal ch ils x) (hpos : ils ≠ [])
    (hok : (gnet ch).Ok x) :
    (layerForward (.feedback f) (ea x) = .ok (blockPre ea f x, ec ((gnet ch).fwd x), blockRecd ea f x) ∧
     ∀ g, layerBackward (.feedback f) (ec g) (ea x) (blockPre ea f x) (.ok (blockRecd ea f x)) =
      .ok (ea ((gnet ch).bwd x g), (blockWGs f ch x g).1, (blockWGs f ch x g).2)) ∧
    IsVJP (gnet ch).fwd x ((gnet ch).bwd x) :=
  ⟨real_chain_block f ch ils hf x hr hpos, GNet.vjp (gnet ch) x hok⟩

open Network LayerChain ChainBlock ChainLinks BlockLinks ConvVJP ConvBridge ConvNet in
/-- instance: **a feedback block of a shape-preserving convolution with two loops** (the unrolled list holds the
    convolution twice) computes `conv ∘ conv` and hands back `convᵀ ∘ convᵀ` of the gradient -/
theorem two_loop_conv_block_is_link {kf kh kw ih iw : ℕ} (f : Feedback ℝ) (l : Conv ℝ) (a : Act) (K : V (I4 kf kf kh kw))
    (hl : IsConv l a K ih iw ih iw) (ha : a ≠ .softmax) (hfl : l.flatten = false)
    (hf : IsChainBlock f [.conv l, .conv l]) (x : V (I3 kf ih iw))
    (hk1 : ∀ i, NoKink a (pre l K ih iw ih iw x i))
    (hk2 : ∀ i, NoKink a (pre l K ih iw ih iw (convFn l a K ih iw ih iw x) i)) :
    let ch := consConv (oh := ih) (ow := iw) l a K ih iw (consConv (oh := ih) (ow := iw) l a K ih iw (Chain.nil (iVol kf ih iw) (eVol kf ih iw)))
    (layerForward (.feedback f) (T3 x) =
        .ok (blockPre (eVol kf ih iw) f x, T3 (convFn l a K ih iw ih iw (convFn l a K ih iw ih iw x)), blockRecd (eVol kf ih iw) f x) ∧
     ∀ g, layerBackward (.feedback f) (T3 g) (T3 x) (blockPre (eVol kf ih iw) f x) (.ok (blockRecd (eVol kf ih iw) f x)) =
      .ok (T3 (convBwdX l a K ih iw ih iw x (convBwdX l a K ih iw ih iw (convFn l a K ih iw ih iw x) g)),
        (blockWGs f ch x g).1, (blockWGs f ch x g).2)) ∧
    IsVJP (fun z => convFn l a K ih iw ih iw (convFn l a K ih iw ih iw z)) x
      (fun g => convBwdX l a K ih iw ih iw x (convBwdX l a K ih iw ih iw (convFn l a K ih iw ih iw x) g)) := by
  intro ch
  have hr : InnerReal ch [.conv l, .conv l] x :=
    innerReal_conv l a K hl ha hfl _ _ x (innerReal_conv l a K hl ha hfl _ _ _ rfl)
  have hok : (gnet ch).Ok x := ⟨vjp_conv l a K hl ha x hk1, vjp_conv l a K hl ha _ hk2, trivial⟩
  exact feedback_block_is_link f ch _ hf x hr (by simp) hok

open DeconvBridge ConvVJP ConvBridge in
/-- non-vacuity: a 2-filter 2×3 transposed convolution with stride (2,1) and padding (0,1) on a 1×3×4 input -/
example (K : V (I4 2 1 2 3)) :
    IsDeconv (kf := 2) (kc := 1) (kh := 2) (kw := 3)
      { inputs := .triple 1 3 4, outputs := .triple 2 6 4, loops := 1, scale := fun x => 1 / x, kernels := kernelT K,
        stride := (2, 1), padding := (0, 1), act := .sigmoid, dropout := none, flatten := false,
        training := false } .sigmoid K 3 4 6 4 :=
  ⟨rfl, rfl, rfl, rfl, rfl, by simp [Deconv.outputSize, checkedSub], by norm_num, by decide⟩

open Network ChainLinks LayerChain ConvVJP ConvBridge ConvNet Flat3 DenseStack in
/-- an instance with two spatial layers: **convolution → convolution → (flatten) → dense stack of any depth**,
    every configuration of both convolutions: the input gradient and the first convolution's kernel gradient
    that the model's folds return are the gradients of the objective -/
theorem conv_conv_mlp_gradients {c0 h0 w0 f1 kh1 kw1 h1 w1 f2 kh2 kw2 h2 w2 k : ℕ} (n : Network ℝ)
    (l1 : Conv ℝ) (a1 : Act) (K1 : V (I4 f1 c0 kh1 kw1)) (hl1 : IsConv l1 a1 K1 h0 w0 h1 w1) (ha1 : a1 ≠ .softmax) (hf1 : l1.flatten = false)
    (l2 : Conv ℝ) (a2 : Act) (K2 : V (I4 f2 f1 kh2 kw2)) (hl2 : IsConv l2 a2 K2 h1 w1 h2 w2) (ha2 : a2 ≠ .softmax) (hf2 : l2.flatten = true)
    (s : Stack (f2 * h2 * w2) k) (hv : s.Valid)
    (hn : n.layers = .conv l1 :: .conv l2 :: s.layers) (hc : n.connect = []) (hlb : n.loopbacks = [])
    (x : V (I3 c0 h0 w0))
    (hk1 : ∀ i, NoKink a1 (pre l1 K1 h0 w0 h1 w1 x i))
    (hk2 : ∀ i, NoKink a2 (pre l2 K2 h1 w1 h2 w2 (convFn l1 a1 K1 h0 w0 h1 w1 x) i))
    (hks : s.NoKinks (flat (convFn l2 a2 K2 h1 w1 h2 w2 (convFn l1 a1 K1 h0 w0 h1 w1 x))))
    (ℓ : Vec k → ℝ) (g : Vec k) :
    let F := fun (K : V (I4 f1 c0 kh1 kw1)) (z : V (I3 c0 h0 w0)) =>
      s.net.fwd (flat (convFn l2 a2 K2 h1 w1 h2 w2 (convFn l1 a1 K h0 w0 h1 w1 z)))
    IsGrad ℓ (F K1 x) g →
    ∃ t ws bs gs γ ω,
      n.forward (T3 x) = .ok t ∧ t.act.getLast? = some (vecT (F K1 x)) ∧
      n.backward (vecT g) t = .ok (ws, bs, gs) ∧ gs.getLast? = some (T3 γ) ∧ ws.getLast? = some (.one (T4 ω)) ∧
      IsGrad (ℓ ∘ F K1) x γ ∧ IsGrad (fun K => ℓ (F K x)) K1 ω := by
  intro F hg
  let tail := consConvFlat (oh := h2) (ow := w2) l2 a2 K2 h1 w1 (stackChain s)
  let ch := consConv (oh := h1) (ow := w1) l1 a1 K1 h0 w0 tail
  have hfwdK : ∀ (K : V (I4 f1 c0 kh1 kw1)) (z : V (I3 c0 h0 w0)),
      (gnet tail).fwd (convFn l1 a1 K h0 w0 h1 w1 z) = F K z := by
    intro K z
    simp only [tail, consConvFlat, gnet, GNet.fwd, stack_gnet_fwd, F]
  have hfwd : (gnet ch).fwd = F K1 := by
    funext z
    simp only [ch, consConv, gnet, GNet.fwd]
    exact hfwdK K1 z
  have hreal : Real ch x := by
    obtain ⟨r1, r2⟩ := real_conv l1 a1 K1 hl1 ha1 hf1 x
    obtain ⟨q1, q2⟩ := real_conv_flat l2 a2 K2 hl2 ha2 hf2 (convFn l1 a1 K1 h0 w0 h1 w1 x)
    exact ⟨r1, r2, q1, q2, stackChain_real s _ hv⟩
  have htailok : (gnet tail).Ok (convFn l1 a1 K1 h0 w0 h1 w1 x) :=
    ⟨vjp_conv_flat l2 a2 K2 hl2 ha2 _ hk2, stackChain_ok s _ hv hks⟩
  have hok : (gnet ch).Ok x := ⟨vjp_conv l1 a1 K1 hl1 ha1 x hk1, htailok⟩
  have hlayers : n.layers = LayerChain.layers ch := by
    rw [hn]
    simp only [ch, tail, consConv, consConvFlat, LayerChain.layers, stackChain_layers]
  have hg' : IsGrad ℓ ((gnet ch).fwd x) g := by rw [hfwd]; exact hg
  obtain ⟨t, ws, bs, gs, h1', h2', h3', h4', h5', h6'⟩ := network_gradient n ch hlayers hc hlb x hreal hok ℓ g hg'
  have hpar := LayerChain.parameter_gradient (fun K' => convFn l1 a1 K' h0 w0 h1 w1 x) K1
    (convBwdKer l1 a1 K1 h0 w0 h1 w1 x) (vjp_conv_kernels l1 a1 K1 hl1 ha1 x hk1) (gnet tail) htailok ℓ g
    (by rw [hfwdK K1 x]; exact hg)
  refine ⟨t, ws, bs, gs, (gnet ch).bwd x g, _, h1', ?_, h3', h4', h6'.1.1, ?_, ?_⟩
  · rw [h2', hfwd]; rfl
  · rw [← hfwd]; exact h5'
  · have := hpar.1
    simp only [hfwdK] at this
    exact this

open ConvVJP ConvBridge in
/-- non-vacuity: a 2-filter 3×3 convolution with stride 2 and padding 1 on a 2×5×4 input is such a layer -/
example (K : V (I4 2 2 3 3)) :
    IsConv (kf := 2) (kc := 2) (kh := 3) (kw := 3)
      { inputs := .triple 2 5 4, outputs := .triple 2 3 2, loops := 1, scale := fun x => 1 / x, kernels := kernelT K,
        stride := (2, 2), padding := (1, 1), dilation := (1, 1), act := .tanh, dropout := none, flatten := true,
        training := false } .tanh K 5 4 3 2 :=
  ⟨rfl, rfl, rfl, rfl, rfl, by simp [Conv.extent, checkedSub], by norm_num, by decide⟩

/-! non-vacuity: a 2×2 sigmoid layer satisfies every hypothesis -/
example : ∀ i : Fin 2, NoKink .sigmoid (densePre (fun _ : Fin 2 × Fin 2 => (1 : ℝ)) (fun _ => 0) (fun _ => 1) i) := by
  intro i h; rcases h with h | h <;> cases h

end C01
