import Model.Train
import Proofs.NoDropout

/-!
# C09 — dropout never leaks into prediction or validation

About the dropout flags of `Model/Network.lean` / `Model/Train.lean`: `Layer.flags`, `setAllTraining`,
`finish`, the three `forward`s, `Network.validate`, `Network.learn`.  Any scalar type, any layer
sequence, any position and rate of the dropout layers.
-/

set_option linter.unusedSectionVars false

namespace C09
open Network Scalar

variable {α : Type} [Scalar α]

/-! ### the flags -/

theorem layer_flags_set (t : Bool) (l : Layer α) : ∀ f ∈ (Layer.setTraining t l).flags, f = t := by
  cases l with
  | dense d => intro f hf; simpa [Layer.setTraining, Layer.flags] using hf
  | conv d => intro f hf; simpa [Layer.setTraining, Layer.flags] using hf
  | deconv d => intro f hf; simpa [Layer.setTraining, Layer.flags] using hf
  | maxpool d => intro f hf; simp [Layer.setTraining, Layer.flags] at hf
  | feedback fb =>
    intro f hf
    simp only [Layer.setTraining, Layer.flags, Feedback.setTraining, List.mem_filterMap, List.mem_map] at hf
    obtain ⟨l', ⟨l, _, hl⟩, hf⟩ := hf
    subst hl
    cases l <;> simp [InnerLayer.setTraining, InnerLayer.flag?] at hf <;> exact hf.symm

/-- **after `setAllTraining t` every dropout flag of the network — in every layer, at every position,
    inside feedback blocks too — equals `t`** -/
theorem setAllTraining_flags (n : Network α) (t : Bool) : ∀ f ∈ (n.setAllTraining t).flags, f = t := by
  intro f hf
  simp only [Network.flags, Network.setAllTraining, List.mem_flatMap, List.mem_map] at hf
  obtain ⟨l', ⟨l, _, hl⟩, hf⟩ := hf
  subst hl
  exact layer_flags_set t l f hf

/-! ### a layer whose flag is off ignores its dropout setting -/

/-- the tail of every `forward`: with the flag off the dropout rate is never looked at -/
theorem finish_flag_off (post : Tensor α) (d d' : Option α) (fl : Bool) :
    finish post false d fl = finish post false d' fl := rfl

theorem dense_forward_flag_off (l : DenseLayer α) (d' : Option α) (x : Tensor α) :
    DenseLayer.forward { l with training := false } x = DenseLayer.forward { l with training := false, dropout := d' } x := rfl

theorem conv_forward_flag_off (l : Conv α) (d' : Option α) (x : Tensor α) :
    Conv.forward { l with training := false } x = Conv.forward { l with training := false, dropout := d' } x := rfl

theorem deconv_forward_flag_off (l : Deconv α) (d' : Option α) (x : Tensor α) :
    Deconv.forward { l with training := false } x = Deconv.forward { l with training := false, dropout := d' } x := rfl

/-- with the flag off and no dropout configured, `finish` is just the optional flatten — so a layer
    with its flag off computes exactly what the same layer built without dropout computes -/
theorem finish_off_is_flatten (post : Tensor α) (d : Option α) :
    finish post false d false = .ok post ∧ finish post false d true = post.flatten := ⟨rfl, rfl⟩

/-! ### validation: all flags off while predicting, restored afterwards -/

/-- every prediction `validate` makes is made by `n.setAllTraining false`, whose flags are all off —
    for *every* layer list and *every* flag state on entry (in particular when called by `learn`, with
    all flags on) -/
theorem validate_predicts_with_flags_off (n : Network α) : ∀ f ∈ (n.setAllTraining false).flags, f = false :=
  setAllTraining_flags n false

/-- `validate` hands back a network whose flags are all on if any flag was on at entry, all off otherwise
    (so in-training calls restore "all on", stand-alone calls leave "all off") -/
theorem validate_restores (n n' : Network α) (xs ts : List (Tensor α)) (tol l a : α)
    (h : n.validate xs ts tol = .ok (n', l, a)) :
    n' = (if n.flags.any id then (n.setAllTraining false).setAllTraining true else n.setAllTraining false) := by
  unfold validate at h
  simp only [] at h
  split at h
  · simp at h
  · simp only [Except.ok.injEq, Prod.mk.injEq] at h
    exact h.1.symm

theorem validate_flags_after (n n' : Network α) (xs ts : List (Tensor α)) (tol l a : α)
    (h : n.validate xs ts tol = .ok (n', l, a)) : ∀ f ∈ n'.flags, f = n.flags.any id := by
  rw [validate_restores n n' xs ts tol l a h]
  intro f hf
  by_cases hany : n.flags.any id = true
  · simp only [hany, if_true] at hf ⊢
    exact setAllTraining_flags _ true f hf
  · simp only [hany] at hf ⊢
    have := setAllTraining_flags n false f hf
    simp at hany
    simpa [hany] using this

/-- the metrics do not depend on the flags found at entry: `validate` of a network and of the same
    network with all flags forced on (the in-training situation) or off are computed from the same
    flag-free copy -/
theorem setAllTraining_idem_inner (t t' : Bool) (l : InnerLayer α) :
    InnerLayer.setTraining t (InnerLayer.setTraining t' l) = InnerLayer.setTraining t l := by
  cases l <;> rfl

theorem setAllTraining_idem_layer (t t' : Bool) (l : Layer α) :
    Layer.setTraining t (Layer.setTraining t' l) = Layer.setTraining t l := by
  cases l with
  | feedback f =>
    simp only [Layer.setTraining, Feedback.setTraining, List.map_map]
    congr 2
    apply List.map_congr_left
    intro x _
    exact setAllTraining_idem_inner t t' x
  | _ => rfl

theorem setAllTraining_idem (n : Network α) (t t' : Bool) :
    (n.setAllTraining t').setAllTraining t = n.setAllTraining t := by
  simp only [Network.setAllTraining, List.map_map]
  congr 1
  apply List.map_congr_left
  intro l _
  exact setAllTraining_idem_layer t t' l

/-- **validation metrics are those of the dropout-free network whatever the flags are on entry** -/
theorem validate_independent_of_flags (n : Network α) (t : Bool) (xs ts : List (Tensor α)) (tol : α) :
    ((n.setAllTraining t).validate xs ts tol).map (fun r => (r.2.1, r.2.2)) =
    ((n.setAllTraining false).validate xs ts tol).map (fun r => (r.2.1, r.2.2)) := by
  unfold validate
  simp only [setAllTraining_idem]
  split <;> rfl

/-! ### after training returns -/

/-- `learn` switches every flag off before returning -/
theorem learn_exit_all_off (n : Network α) (inputs targets : List (Tensor α))
    (validation : Option (List (Tensor α) × List (Tensor α) × Nat)) (batch epochs : Nat) (script : List α)
    (res : LearnResult α) (h : n.learn inputs targets validation batch epochs script = .ok res) :
    ∀ f ∈ res.net.flags, f = false := by
  unfold learn at h
  split at h
  · simp at h
  · simp only [] at h
    split at h
    · simp at h
    · simp only [Except.ok.injEq] at h
      subst h
      exact setAllTraining_flags _ false

/-! ### … and predicts like the same network built without dropout

`NoDropout.network n` is `n` with no dropout configured anywhere (every dense, convolution and
deconvolution layer, inside feedback blocks too); connections, loops, objective and parameters unchanged. -/

/-- **with every flag off, the whole forward pass — through feedback blocks, skip connections and loop
    connections — records exactly the trace of the network built without dropout** -/
theorem flags_off_forward_like_dropout_free (n : Network α) (h : ∀ f ∈ n.flags, f = false) (x : Tensor α) :
    n.forward x = (NoDropout.network n).forward x :=
  (NoDropout.forward_eq n (NoDropout.flagsOff_of_flags n h) x).symm

theorem flags_off_predicts_like_dropout_free (n : Network α) (h : ∀ f ∈ n.flags, f = false) (x : Tensor α) :
    n.predict x = (NoDropout.network n).predict x :=
  (NoDropout.predict_eq n (NoDropout.flagsOff_of_flags n h) x).symm

/-- **after `learn` returns, the network predicts exactly like an identical network configured without
    dropout** — for every architecture, data set, validation setting, batch size and number of epochs -/
theorem after_learn_predicts_like_dropout_free (n : Network α) (inputs targets : List (Tensor α))
    (validation : Option (List (Tensor α) × List (Tensor α) × Nat)) (batch epochs : Nat) (script : List α)
    (res : LearnResult α) (h : n.learn inputs targets validation batch epochs script = .ok res) (x : Tensor α) :
    res.net.predict x = (NoDropout.network res.net).predict x :=
  flags_off_predicts_like_dropout_free res.net
    (learn_exit_all_off n inputs targets validation batch epochs script res h) x

/-- **the validation metrics — also those `learn` computes while every flag is on — are the metrics of
    the network built without dropout** -/
theorem validate_metrics_are_dropout_free (n : Network α) (t : Bool) (xs ts : List (Tensor α)) (tol : α) :
    NoDropout.metrics ((n.setAllTraining t).validate xs ts tol) =
      NoDropout.metrics ((NoDropout.network n).validate xs ts tol) := by
  rw [NoDropout.validate_eq n]
  unfold validate
  simp only [setAllTraining_idem]
  split <;> rfl

end C09
