import Proofs.MaxpoolAssembly
import Model.Network
import Proofs.Real
import Proofs.Sums
import Proofs.Folds
import Proofs.GetLemmas
import Proofs.Reshape
import Proofs.Zip
import Proofs.TensorWf
import Proofs.Scatter
import Proofs.MaxpoolWindow
import Proofs.Rechunk
import Proofs.Walk
import Props.C17

/-!
# C02 — each layer's forward pass computes its defining operator

Over `ℝ` (rounding aside), for every configuration:
* dense: `pre = W·x + b`;
* convolution: every pre-activation is the zero-padded, strided, dilated cross-correlation
  `Σ_{c,h,w} K[f][c][h][w] · X̃[c][i·s₀ + h·d₀ − p₀][j·s₁ + w·d₁ − p₁]` with `X̃` zero outside the input
  (`convolveAt_spec` for the loop, `pad3d_get` for the padding);
* max-pool: each output dominates its window and is attained at the recorded index
  (`maxpool_window_dominates`, `maxpool_window_attained`);
* a flat vector and the `c × h × w` tensor with the same row-major content enter a spatial layer as
  the same data (`entry_flat_eq_spatial`).
The deconvolution's scatter loop is related to its gather form by the point-wise scatter lemma
(`scatter_get`), stated for an arbitrary list of updates.
-/

set_option linter.unusedSectionVars false

open Finset

namespace C02
open Scalar RealScalar

/-! ### dense -/

/-- `pre[i] = Σ_j W[i][j]·x[j] + b[i]` -/
theorem dense_pre_spec (l : DenseLayer ℝ) (W : V2 ℝ) (b x : V1 ℝ) (r c : Nat)
    (hw : l.weights = ⟨.double r c, .double W⟩) (hb : l.bias = some ⟨.single r, .single b⟩)
    (hWr : W.length = r) (hbl : b.length = r) (pre post : Tensor ℝ)
    (h : l.forward (Tensor.single x) = .ok (pre, post)) :
    pre = ⟨.single r, .single (List.zipWith (· + ·) (W.map (fun row => (List.zipWith (· * ·) row x).sum)) b)⟩ := by
  unfold DenseLayer.forward at h
  simp only [hw, hb, Tensor.dot, Tensor.single] at h
  have e1 : (Tensor.add (⟨.single W.length, .single (W.map (fun row => Tensor.dotRow row x))⟩ : Tensor ℝ) ⟨.single r, .single b⟩) =
      .ok ⟨.single W.length, .single (L.zip1 (· + ·) (W.map (fun row => Tensor.dotRow row x)) b)⟩ := by
    simp [Tensor.add, Tensor.zipOp, hWr]
  rw [e1] at h
  simp only [] at h
  split at h
  · simp at h
  · split at h
    · simp at h
    · simp only [Except.ok.injEq, Prod.mk.injEq] at h
      rw [← h.1, hWr]
      congr 2
      have hz := (L.zip1_spec (· + ·) (W.map (fun row => Tensor.dotRow row x)) b (by simp [hWr, hbl])).1
      rw [hz]
      congr 1
      apply List.map_congr_left
      intro row _
      unfold Tensor.dotRow
      rw [Sums.sumL_eq]

/-! ### convolution: the loop is the guarded triple sum -/

theorem convolveAt_spec (l : Conv ℝ) (x k : V3 ℝ) (kc kh kw ih iw i j : ℕ) :
    Conv.convolveAt l x k kc kh kw ih iw i j =
      ∑ c ∈ range kc, ∑ h ∈ range kh, ∑ w ∈ range kw,
        (if i * l.stride.1 + h * l.dilation.1 < ih ∧ j * l.stride.2 + w * l.dilation.2 < iw
         then L.get3D 0 k c h w * L.get3D 0 x c (i * l.stride.1 + h * l.dilation.1) (j * l.stride.2 + w * l.dilation.2)
         else 0) := by
  unfold Conv.convolveAt
  have inner : ∀ (c h : ℕ) (s : ℝ),
      (List.range kw).foldl (fun sum w =>
        if i * l.stride.1 + h * l.dilation.1 < ih ∧ j * l.stride.2 + w * l.dilation.2 < iw
        then sum + L.get3D 0 k c h w * L.get3D 0 x c (i * l.stride.1 + h * l.dilation.1) (j * l.stride.2 + w * l.dilation.2)
        else sum) s =
      s + ∑ w ∈ range kw,
        (if i * l.stride.1 + h * l.dilation.1 < ih ∧ j * l.stride.2 + w * l.dilation.2 < iw
         then L.get3D 0 k c h w * L.get3D 0 x c (i * l.stride.1 + h * l.dilation.1) (j * l.stride.2 + w * l.dilation.2)
         else 0) := by
    intro c h s
    exact Folds.guarded_fold _ _ kw s
  have mid : ∀ (c : ℕ) (s : ℝ),
      (List.range kh).foldl (fun sum h =>
        (List.range kw).foldl (fun sum w =>
          if i * l.stride.1 + h * l.dilation.1 < ih ∧ j * l.stride.2 + w * l.dilation.2 < iw
          then sum + L.get3D 0 k c h w * L.get3D 0 x c (i * l.stride.1 + h * l.dilation.1) (j * l.stride.2 + w * l.dilation.2)
          else sum) sum) s =
      s + ∑ h ∈ range kh, ∑ w ∈ range kw,
        (if i * l.stride.1 + h * l.dilation.1 < ih ∧ j * l.stride.2 + w * l.dilation.2 < iw
         then L.get3D 0 k c h w * L.get3D 0 x c (i * l.stride.1 + h * l.dilation.1) (j * l.stride.2 + w * l.dilation.2)
         else 0) := by
    intro c s
    exact Folds.threaded_fold _ _ (fun s h => inner c h s) kh s
  have outer := Folds.threaded_fold
    (fun sum c => (List.range kh).foldl (fun sum h =>
        (List.range kw).foldl (fun sum w =>
          if i * l.stride.1 + h * l.dilation.1 < ih ∧ j * l.stride.2 + w * l.dilation.2 < iw
          then sum + L.get3D 0 k c h w * L.get3D 0 x c (i * l.stride.1 + h * l.dilation.1) (j * l.stride.2 + w * l.dilation.2)
          else sum) sum) sum)
    _ (fun s c => mid c s) kc 0
  simpa using outer

/-! ### convolution: zero padding -/

/-- value of a padded row: the source shifted by `dw`, zero elsewhere -/
theorem padRow_get (row : V1 ℝ) (W dw j : ℕ) :
    ((Tensor.padRow row W dw)[j]?).getD 0 =
      if j < W ∧ dw ≤ j ∧ j - dw < row.length then (row[j - dw]?).getD 0 else 0 := by
  unfold Tensor.padRow
  by_cases hj : j < W
  · have hr : (List.range W)[j]? = some j := List.getElem?_range hj
    simp only [List.getElem?_map, hr, Option.map_some, Option.getD_some, L.get?_eq, List.getElem?_take]
    by_cases hd : dw ≤ j
    · have h1 : j - dw < W := by omega
      by_cases hlen : j - dw < row.length
      · simp [hj, hd, h1, hlen]
      · have : row[j - dw]? = none := List.getElem?_eq_none (by omega)
        simp [hj, hd, h1, hlen, this]
    · simp [hj, hd]
  · have hr : (List.range W)[j]? = none := List.getElem?_eq_none (by simp; omega)
    simp [List.getElem?_map, hr, hj]

/-- value of a padded channel -/
theorem padChannel_get (ch : V2 ℝ) (H W dh dw i j : ℕ) :
    ((((Tensor.padChannel ch H W dh dw)[i]?).getD [])[j]?).getD 0 =
      if i < H ∧ dh ≤ i ∧ i - dh < ch.length ∧ j < W ∧ dw ≤ j ∧ j - dw < ((ch[i - dh]?).getD []).length
      then ((((ch[i - dh]?).getD [])[j - dw]?).getD 0) else 0 := by
  unfold Tensor.padChannel
  by_cases hi : i < H
  · have hr : (List.range H)[i]? = some i := List.getElem?_range hi
    simp only [List.getElem?_map, hr, Option.map_some, Option.getD_some, L.get?_eq, List.getElem?_take]
    by_cases hd : dh ≤ i
    · have h1 : i - dh < H := by omega
      by_cases hlen : i - dh < ch.length
      · have hsome : ch[i - dh]? = some ch[i - dh] := List.getElem?_eq_getElem hlen
        simp only [hd, h1, hsome, if_true, Option.getD_some]
        rw [padRow_get]
        simp [hi, hd, hlen]
      · have hn : ch[i - dh]? = none := List.getElem?_eq_none (by omega)
        simp only [hd, h1, hn, if_true]
        by_cases hj : j < W <;> simp [hj, hlen]
    · simp only [hd, if_false]
      by_cases hj : j < W <;> simp [hj, hd]
  · have hr : (List.range H)[i]? = none := List.getElem?_eq_none (by simp; omega)
    simp [List.getElem?_map, hr, hi]

/-- **zero padding**: the padded tensor holds the input shifted by `(p₀, p₁)` and zero elsewhere -/
theorem pad3d_get (x : V3 ℝ) (c ih iw p0 p1 : ℕ) (hx : L.Dims3 x c ih iw) (hc : 0 < c) (hih : 0 < ih) :
    ∃ y, Tensor.pad3d x (ih + 2 * p0) (iw + 2 * p1) = .ok y ∧
      ∀ ch i j, L.get3D 0 y ch i j =
        if p0 ≤ i ∧ i < p0 + ih ∧ p1 ≤ j ∧ j < p1 + iw then L.get3D 0 x ch (i - p0) (j - p1) else 0 := by
  obtain ⟨hc', hm⟩ := hx
  match x, hc', hm with
  | (r :: m) :: rest, hc', hm =>
    have hm0 := hm (r :: m) (List.mem_cons_self ..)
    have hr0 := hm0.2 r (List.mem_cons_self ..)
    have hdh : (if ih + 2 * p0 > (r :: m).length then (ih + 2 * p0 - (r :: m).length) / 2 else 0) = p0 := by
      rw [hm0.1]; split <;> omega
    have hdw : (if iw + 2 * p1 > r.length then (iw + 2 * p1 - r.length) / 2 else 0) = p1 := by
      rw [hr0]; split <;> omega
    have hok : Tensor.padOutOfRange ((r :: m) :: rest) (ih + 2 * p0) (iw + 2 * p1) p0 p1 = false := by
      unfold Tensor.padOutOfRange
      rw [List.any_eq_false]
      intro ch hch
      have hd := hm ch hch
      simp only [Bool.or_eq_true, List.any_eq_true, decide_eq_true_eq, not_or, not_exists, not_and, not_lt]
      constructor
      · intro row hrow
        have : row.length = iw := hd.2 row (List.mem_of_mem_take hrow)
        simp only [List.length_take, this]; omega
      · simp only [List.length_take, hd.1]; omega
    refine ⟨_, by simp only [Tensor.pad3d, hdh, hdw, hok]; rfl, ?_⟩
    intro ch i j
    rw [L.get3D_eq, L.get3D_eq]
    simp only [List.getD_eq_getElem?_getD, List.getElem?_map]
    cases hch : ((r :: m) :: rest)[ch]? with
    | none => simp
    | some chan =>
      have hmem : chan ∈ (r :: m) :: rest := List.mem_of_getElem? hch
      have hd := hm chan hmem
      simp only [Option.map_some, Option.getD_some]
      rw [padChannel_get]
      by_cases h1 : p0 ≤ i ∧ i < p0 + ih
      · have hi : i - p0 < chan.length := by rw [hd.1]; omega
        have hrow : chan[i - p0]? = some chan[i - p0] := List.getElem?_eq_getElem hi
        have hlen : (chan[i - p0]).length = iw := hd.2 _ (List.getElem_mem hi)
        by_cases h2 : p1 ≤ j ∧ j < p1 + iw
        · have : i < ih + 2 * p0 ∧ p0 ≤ i ∧ i - p0 < chan.length ∧ j < iw + 2 * p1 ∧ p1 ≤ j ∧
              j - p1 < ((chan[i - p0]?).getD []).length := by
            rw [hrow]; simp only [Option.getD_some, hlen]; omega
          rw [if_pos this, if_pos ⟨h1.1, h1.2, h2.1, h2.2⟩, hrow]
        · have hn : ¬ (i < ih + 2 * p0 ∧ p0 ≤ i ∧ i - p0 < chan.length ∧ j < iw + 2 * p1 ∧ p1 ≤ j ∧
              j - p1 < ((chan[i - p0]?).getD []).length) := by
            rw [hrow]; simp only [Option.getD_some, hlen]; omega
          have hn2 : ¬ (p0 ≤ i ∧ i < p0 + ih ∧ p1 ≤ j ∧ j < p1 + iw) := by omega
          simp [hn, hn2]
      · have hn : ¬ (i < ih + 2 * p0 ∧ p0 ≤ i ∧ i - p0 < chan.length ∧ j < iw + 2 * p1 ∧ p1 ≤ j ∧
            j - p1 < ((chan[i - p0]?).getD []).length) := by
          rw [hd.1]; omega
        have hn2 : ¬ (p0 ≤ i ∧ i < p0 + ih ∧ p1 ≤ j ∧ j < p1 + iw) := by omega
        simp [hn, hn2]
  | [] :: _, hc', hm => exact absurd (hm [] (List.mem_cons_self ..)).1 (by simp; omega)
  | [], hc', _ => simp at hc'; omega

/-- **the convolution is the zero-padded, strided, dilated cross-correlation**: with `X̃` the input
    extended by zero, `pre[f][i][j] = Σ_{c,h,w} K_f[c][h][w] · X̃[c][i·s₀ + h·d₀ − p₀][j·s₁ + w·d₁ − p₁]` -/
theorem conv_cross_correlation (l : Conv ℝ) (x : V3 ℝ) (c ih iw : ℕ) (hx : L.Dims3 x c ih iw) (hc : 0 < c) (hih : 0 < ih)
    (k : V3 ℝ) (kc kh kw i j : ℕ) :
    ∃ xp, Tensor.pad3d x (ih + 2 * l.padding.1) (iw + 2 * l.padding.2) = .ok xp ∧
      Conv.convolveAt l xp k kc kh kw (ih + 2 * l.padding.1) (iw + 2 * l.padding.2) i j =
        ∑ cc ∈ range kc, ∑ h ∈ range kh, ∑ w ∈ range kw,
          L.get3D 0 k cc h w *
            (if l.padding.1 ≤ i * l.stride.1 + h * l.dilation.1 ∧ i * l.stride.1 + h * l.dilation.1 < l.padding.1 + ih ∧
                l.padding.2 ≤ j * l.stride.2 + w * l.dilation.2 ∧ j * l.stride.2 + w * l.dilation.2 < l.padding.2 + iw
             then L.get3D 0 x cc (i * l.stride.1 + h * l.dilation.1 - l.padding.1) (j * l.stride.2 + w * l.dilation.2 - l.padding.2)
             else 0) := by
  obtain ⟨xp, hp, hget⟩ := pad3d_get x c ih iw l.padding.1 l.padding.2 hx hc hih
  refine ⟨xp, hp, ?_⟩
  rw [convolveAt_spec]
  apply Finset.sum_congr rfl; intro cc _
  apply Finset.sum_congr rfl; intro h _
  apply Finset.sum_congr rfl; intro w _
  rw [hget]
  by_cases hg : i * l.stride.1 + h * l.dilation.1 < ih + 2 * l.padding.1 ∧ j * l.stride.2 + w * l.dilation.2 < iw + 2 * l.padding.2
  · rw [if_pos hg]
  · rw [if_neg hg]
    -- outside the padded extent the extended input is zero anyway
    have : ¬ (l.padding.1 ≤ i * l.stride.1 + h * l.dilation.1 ∧ i * l.stride.1 + h * l.dilation.1 < l.padding.1 + ih ∧
        l.padding.2 ≤ j * l.stride.2 + w * l.dilation.2 ∧ j * l.stride.2 + w * l.dilation.2 < l.padding.2 + iw) := by omega
    rw [if_neg this]; ring

/-! ### deconvolution: the scatter loops in gather form -/

/-- the updates the deconvolution's scatter loops perform, in loop order -/
noncomputable def deconvUpdates (x : V3 ℝ) (ks : List (V3 ℝ)) (kf kc : ℕ) (tp : List (ℕ × ℕ × ℕ × ℕ × ℕ × ℕ)) : List Scatter.Upd :=
  (List.range kf).flatMap (fun k => (List.range kc).flatMap (fun c => tp.map (fun t =>
    ⟨k, t.2.2.2.2.1, t.2.2.2.2.2, L.get3D 0 x c t.1 t.2.1 * L.get4D 0 ks k c t.2.2.1 t.2.2.2.1⟩)))

theorem scatter_as_updates (x : V3 ℝ) (ks : List (V3 ℝ)) (kf kc : ℕ) (tp : List (ℕ × ℕ × ℕ × ℕ × ℕ × ℕ)) (oh ow : ℕ) :
    Deconv.scatter x ks kf kc tp oh ow =
      (deconvUpdates x ks kf kc tp).foldl (fun acc u => L.mod3 (· + u.v) acc u.c u.i u.j) (L.replicate3 kf oh ow 0) := by
  unfold Deconv.scatter deconvUpdates
  rw [List.foldl_flatMap]
  congr 1
  funext acc k
  rw [List.foldl_flatMap]
  congr 1
  funext acc c
  rw [List.foldl_map]

theorem replicate3_inBounds (kf oh ow c i j : ℕ) (hc : c < kf) (hi : i < oh) (hj : j < ow) :
    Scatter.InBounds (L.replicate3 kf oh ow (0 : ℝ)) c i j := by
  unfold Scatter.InBounds L.replicate3 L.replicate2
  simp only [List.getD_eq_getElem?_getD, List.length_replicate]
  refine ⟨hc, ?_, ?_⟩
  · simp [hc, hi]
  · simp [hc, hi, hj]

theorem replicate3_get (kf oh ow c i j : ℕ) : L.get3D 0 (L.replicate3 kf oh ow (0 : ℝ)) c i j = 0 := by
  rw [L.get3D_eq]
  unfold L.replicate3 L.replicate2
  simp only [List.getD_eq_getElem?_getD]
  by_cases hc : c < kf
  · by_cases hi : i < oh
    · by_cases hj : j < ow <;> simp [hc, hi, hj]
    · simp [hc, hi]
  · simp [hc]

/-- every tap the deconvolution visits is inside the output (`oi < oh`, `oj < ow`) and satisfies
    `oi = i·s₀ + ki − p₀`, `oj = j·s₁ + kj − p₁` with `i < ih`, `j < iw`, `ki < kh`, `kj < kw` -/
theorem mem_taps (l : Deconv ℝ) (ih iw kh kw oh ow : ℕ) (t : ℕ × ℕ × ℕ × ℕ × ℕ × ℕ) :
    t ∈ Deconv.taps l ih iw kh kw oh ow ↔
      t.1 < ih ∧ t.2.1 < iw ∧ t.2.2.1 < kh ∧ t.2.2.2.1 < kw ∧
      l.padding.1 ≤ t.1 * l.stride.1 + t.2.2.1 ∧ l.padding.2 ≤ t.2.1 * l.stride.2 + t.2.2.2.1 ∧
      t.2.2.2.2.1 = t.1 * l.stride.1 + t.2.2.1 - l.padding.1 ∧ t.2.2.2.2.2 = t.2.1 * l.stride.2 + t.2.2.2.1 - l.padding.2 ∧
      t.2.2.2.2.1 < oh ∧ t.2.2.2.2.2 < ow := by
  obtain ⟨i, j, ki, kj, oi, oj⟩ := t
  unfold Deconv.taps
  simp only [List.mem_flatMap, List.mem_range, List.mem_filterMap]
  constructor
  · rintro ⟨i', hi, j', hj, ki', hki, kj', hkj, h⟩
    split at h
    · rename_i hcond
      simp only [Option.some.injEq, Prod.mk.injEq] at h
      obtain ⟨rfl, rfl, rfl, rfl, rfl, rfl⟩ := h
      exact ⟨hi, hj, hki, hkj, hcond.1, hcond.2.1, rfl, rfl, hcond.2.2.1, hcond.2.2.2⟩
    · simp at h
  · rintro ⟨hi, hj, hki, hkj, hp1, hp2, ho1, ho2, hb1, hb2⟩
    refine ⟨i, hi, j, hj, ki, hki, kj, hkj, ?_⟩
    subst ho1 ho2
    rw [if_pos ⟨hp1, hp2, hb1, hb2⟩]

/-- **the deconvolution is the strided transposed convolution cropped by the padding**: output position
    `(k, o, q)` is the sum of `x[c][i][j] · K_k[c][ki][kj]` over exactly the `(c, i, j, ki, kj)` with
    `i·s₀ + ki − p₀ = o` and `j·s₁ + kj − p₁ = q` -/
theorem deconv_gather (l : Deconv ℝ) (x : V3 ℝ) (ks : List (V3 ℝ)) (kf kc ih iw kh kw oh ow k o q : ℕ) :
    L.get3D 0 (Deconv.scatter x ks kf kc (Deconv.taps l ih iw kh kw oh ow) oh ow) k o q =
      ((deconvUpdates x ks kf kc (Deconv.taps l ih iw kh kw oh ow)).map
        (fun u => if u.c = k ∧ u.i = o ∧ u.j = q then u.v else 0)).sum := by
  rw [scatter_as_updates, Scatter.scatter_get, replicate3_get, zero_add]
  intro u hu
  unfold deconvUpdates at hu
  simp only [List.mem_flatMap, List.mem_range, List.mem_map] at hu
  obtain ⟨k', hk', c', _, t, ht, rfl⟩ := hu
  have := (mem_taps l ih iw kh kw oh ow t).mp ht
  exact replicate3_inBounds kf oh ow k' _ _ hk' this.2.2.2.2.2.2.2.2.1 this.2.2.2.2.2.2.2.2.2


/-! ### max-pool: each output dominates its window and is attained at the recorded index -/

/-- every element of the window (inside the input) is `≤` the value the scan returns -/
theorem maxpool_window_dominates (l : Maxpool ℝ) (x : V3 ℝ) (c h w ih iw k li : ℕ)
    (hk : k < l.kernel.1) (hli : li < l.kernel.2) (hg : h + k < ih ∧ w + li < iw) :
    L.get3D 0 x c (h + k) (w + li) ≤ (Maxpool.window l x c h w ih iw).1 :=
  MaxpoolWindow.window_dominates l x c h w ih iw k li hk hli hg

/-- the value is the input at the recorded index, which lies in the window — unless nothing in the
    window exceeds the start value `f32::MIN`, in which case the scan reports that value and `(0,0)` -/
theorem maxpool_window_attained (l : Maxpool ℝ) (x : V3 ℝ) (c h w ih iw : ℕ) :
    Maxpool.window l x c h w ih iw = (Scalar.minVal, (0, 0)) ∨
    ∃ k li, k < l.kernel.1 ∧ li < l.kernel.2 ∧ h + k < ih ∧ w + li < iw ∧
      (Maxpool.window l x c h w ih iw).2 = (h + k, w + li) ∧
      (Maxpool.window l x c h w ih iw).1 = L.get3D 0 x c (h + k) (w + li) :=
  MaxpoolWindow.window_attained l x c h w ih iw

/-- **the assembled max-pool output**: with positive strides, and every written index inside the announced
    extent (what `Maxpool::forward` checks before its loops), cell `(c, i, j)` of the result of the window
    loops is the scan of the window that starts at `(i·s₀, j·s₁)` — for every channel and every window that
    fits.  With the two theorems above: every output is the maximum of its window. -/
theorem maxpool_output_is_window_scan (l : Maxpool ℝ) (x : V3 ℝ) (ih iw oc oh ow a b : ℕ)
    (hs0 : 0 < l.stride.1) (hs1 : 0 < l.stride.2)
    (hfh : ∀ h ∈ L.stepBy (a + 1) l.stride.1, h / l.stride.1 < oh)
    (hfw : ∀ w ∈ L.stepBy (b + 1) l.stride.2, w / l.stride.2 < ow)
    (c i j : ℕ) (hc : c < oc) (hi : i * l.stride.1 ≤ a) (hj : j * l.stride.2 ≤ b) :
    L.get3D 0 (Maxpool.pool l x ih iw oc oh ow (L.stepBy (a + 1) l.stride.1) (L.stepBy (b + 1) l.stride.2)).1 c i j =
      (Maxpool.window l x c (i * l.stride.1) (j * l.stride.2) ih iw).1 :=
  MaxpoolAssembly.pool_get l x ih iw oc oh ow a b hs0 hs1 hfh hfw c i j hc hi hj

/-- non-vacuity: a 4-wide extent with kernel 2 and stride 2 visits offsets 0 and 2, both inside 2 outputs -/
example : ∀ h ∈ L.stepBy (2 + 1) 2, h / 2 < 2 := by decide

/-! ### flat input = spatial input -/

/-- a flat vector with the row-major content of a `c × h × w` tensor enters a convolution,
    deconvolution or max-pool (all three start with `entry`) as exactly that tensor, so the layer
    computes the same thing on both -/
theorem entry_flat_eq_spatial {α : Type} [Scalar α] (t : V3 α) (c h w : ℕ) (ht : L.Dims3 t c h w)
    (hc : 0 < c) (hh : 0 < h) (hw : 0 < w) (s1 s2 : Shape) :
    entry (⟨s1, .single (L.flatten3 t)⟩ : Tensor α) (.triple c h w) = entry (⟨s2, .triple t⟩ : Tensor α) (.triple c h w) :=
  Rechunk.entry_flat_eq_spatial t c h w ht hc hh hw s1 s2


/-! ### the whole network: `predict` is the composition of the layers -/

/-- without skip and loop connections `predict` is the value threaded through the layer sequence:
    `predict (l₁ ++ l₂) = predict l₂ ∘ predict l₁` by `C17.rangeFinal_append`, the empty network is the
    identity, a single layer is that layer's `forward` output -/
theorem predict_is_composition {α : Type} [Scalar α] (n : Network α) (hc : n.connect = []) (hl : n.loopbacks = [])
    (x : Tensor α) : n.predict x = C17.rangeFinal n.layers x := by
  unfold Network.predict
  rw [Walk.forward_eq_runRange n hc hl x]
  unfold Network.runRange C17.rangeFinal C17.finalOf
  cases hf : n.layers.foldl Network.rangeStep (.ok ([], [], [], x)) with
  | error e => rfl
  | ok st =>
    obtain ⟨p, q, r, y⟩ := st
    simp only []
    by_cases hne : n.layers = []
    · rw [hne] at hf
      simp only [List.foldl_nil, Except.ok.injEq, Prod.mk.injEq] at hf
      obtain ⟨_, hq, _, hy⟩ := hf
      subst hq; subst hy; rfl
    · have := (LoopSpec.rangeFold_spec n.layers _ _ _ _ _ _ _ _ hf).2 hne
      rw [List.getLast?_cons, this]
      rfl

end C02
