import Model.Network
import Proofs.Real
import Proofs.Sums
import Proofs.Folds
import Proofs.GetLemmas
import Proofs.Reshape
import Proofs.Zip
import Proofs.TensorWf

/-!
# C02 — each layer's forward pass computes its defining operator

Over `ℝ` (rounding aside), for every configuration:
* dense: `pre = W·x + b`;
* convolution: every pre-activation is the zero-padded, strided, dilated cross-correlation
  `Σ_{c,h,w} K[f][c][h][w] · X̃[c][i·s₀ + h·d₀ − p₀][j·s₁ + w·d₁ − p₁]` with `X̃` zero outside the input
  (`convolveAt_spec` for the loop, `pad3d_get` for the padding);
* max-pool: each output dominates its window and is attained at the recorded index;
* a flat vector and the `c × h × w` tensor with the same row-major content enter a spatial layer as
  the same data (`entry_flat_eq_spatial`).
The deconvolution's scatter loop is related to its gather form by the point-wise scatter lemma
(`scatter_get`), stated for an arbitrary list of updates.
-/

set_option linter.unusedSectionVars false

open Finset

namespace C02
open Scalar RealScalar

/-! ### dense -/

/-- `pre[i] = Σ_j W[i][j]·x[j] + b[i]` -/
theorem dense_pre_spec (l : DenseLayer ℝ) (W : V2 ℝ) (b x : V1 ℝ) (r c : Nat)
    (hw : l.weights = ⟨.double r c, .double W⟩) (hb : l.bias = some ⟨.single r, .single b⟩)
    (hWr : W.length = r) (hbl : b.length = r) (pre post : Tensor ℝ)
    (h : l.forward (Tensor.single x) = .ok (pre, post)) :
    pre = ⟨.single r, .single (List.zipWith (· + ·) (W.map (fun row => (List.zipWith (· * ·) row x).sum)) b)⟩ := by
  unfold DenseLayer.forward at h
  simp only [hw, hb, Tensor.dot, Tensor.single] at h
  have e1 : (Tensor.add (⟨.single W.length, .single (W.map (fun row => Tensor.dotRow row x))⟩ : Tensor ℝ) ⟨.single r, .single b⟩) =
      .ok ⟨.single W.length, .single (L.zip1 (· + ·) (W.map (fun row => Tensor.dotRow row x)) b)⟩ := by
    simp [Tensor.add, Tensor.zipOp, hWr]
  rw [e1] at h
  simp only [] at h
  split at h
  · simp at h
  · split at h
    · simp at h
    · simp only [Except.ok.injEq, Prod.mk.injEq] at h
      rw [← h.1, hWr]
      congr 2
      have hz := (L.zip1_spec (· + ·) (W.map (fun row => Tensor.dotRow row x)) b (by simp [hWr, hbl])).1
      rw [hz]
      congr 1
      apply List.map_congr_left
      intro row _
      unfold Tensor.dotRow
      rw [Sums.sumL_eq]

/-! ### convolution: the loop is the guarded triple sum -/

theorem convolveAt_spec (l : Conv ℝ) (x k : V3 ℝ) (kc kh kw ih iw i j : ℕ) :
    Conv.convolveAt l x k kc kh kw ih iw i j =
      ∑ c ∈ range kc, ∑ h ∈ range kh, ∑ w ∈ range kw,
        (if i * l.stride.1 + h * l.dilation.1 < ih ∧ j * l.stride.2 + w * l.dilation.2 < iw
         then L.get3D 0 k c h w * L.get3D 0 x c (i * l.stride.1 + h * l.dilation.1) (j * l.stride.2 + w * l.dilation.2)
         else 0) := by
  unfold Conv.convolveAt
  have inner : ∀ (c h : ℕ) (s : ℝ),
      (List.range kw).foldl (fun sum w =>
        if i * l.stride.1 + h * l.dilation.1 < ih ∧ j * l.stride.2 + w * l.dilation.2 < iw
        then sum + L.get3D 0 k c h w * L.get3D 0 x c (i * l.stride.1 + h * l.dilation.1) (j * l.stride.2 + w * l.dilation.2)
        else sum) s =
      s + ∑ w ∈ range kw,
        (if i * l.stride.1 + h * l.dilation.1 < ih ∧ j * l.stride.2 + w * l.dilation.2 < iw
         then L.get3D 0 k c h w * L.get3D 0 x c (i * l.stride.1 + h * l.dilation.1) (j * l.stride.2 + w * l.dilation.2)
         else 0) := by
    intro c h s
    exact Folds.guarded_fold _ _ kw s
  have mid : ∀ (c : ℕ) (s : ℝ),
      (List.range kh).foldl (fun sum h =>
        (List.range kw).foldl (fun sum w =>
          if i * l.stride.1 + h * l.dilation.1 < ih ∧ j * l.stride.2 + w * l.dilation.2 < iw
          then sum + L.get3D 0 k c h w * L.get3D 0 x c (i * l.stride.1 + h * l.dilation.1) (j * l.stride.2 + w * l.dilation.2)
          else sum) sum) s =
      s + ∑ h ∈ range kh, ∑ w ∈ range kw,
        (if i * l.stride.1 + h * l.dilation.1 < ih ∧ j * l.stride.2 + w * l.dilation.2 < iw
         then L.get3D 0 k c h w * L.get3D 0 x c (i * l.stride.1 + h * l.dilation.1) (j * l.stride.2 + w * l.dilation.2)
         else 0) := by
    intro c s
    exact Folds.threaded_fold _ _ (fun s h => inner c h s) kh s
  have outer := Folds.threaded_fold
    (fun sum c => (List.range kh).foldl (fun sum h =>
        (List.range kw).foldl (fun sum w =>
          if i * l.stride.1 + h * l.dilation.1 < ih ∧ j * l.stride.2 + w * l.dilation.2 < iw
          then sum + L.get3D 0 k c h w * L.get3D 0 x c (i * l.stride.1 + h * l.dilation.1) (j * l.stride.2 + w * l.dilation.2)
          else sum) sum) sum)
    _ (fun s c => mid c s) kc 0
  simpa using outer

/-! ### convolution: zero padding -/

/-- value of a padded row: the source shifted by `dw`, zero elsewhere -/
theorem padRow_get (row : V1 ℝ) (W dw j : ℕ) :
    ((Tensor.padRow row W dw)[j]?).getD 0 =
      if j < W ∧ dw ≤ j ∧ j - dw < row.length then (row[j - dw]?).getD 0 else 0 := by
  unfold Tensor.padRow
  by_cases hj : j < W
  · have hr : (List.range W)[j]? = some j := List.getElem?_range hj
    simp only [List.getElem?_map, hr, Option.map_some, Option.getD_some, L.get?_eq, List.getElem?_take]
    by_cases hd : dw ≤ j
    · have h1 : j - dw < W := by omega
      by_cases hlen : j - dw < row.length
      · simp [hj, hd, h1, hlen]
      · have : row[j - dw]? = none := List.getElem?_eq_none (by omega)
        simp [hj, hd, h1, hlen, this]
    · simp [hj, hd]
  · have hr : (List.range W)[j]? = none := List.getElem?_eq_none (by simp; omega)
    simp [List.getElem?_map, hr, hj]

/-- value of a padded channel -/
theorem padChannel_get (ch : V2 ℝ) (H W dh dw i j : ℕ) :
    ((((Tensor.padChannel ch H W dh dw)[i]?).getD [])[j]?).getD 0 =
      if i < H ∧ dh ≤ i ∧ i - dh < ch.length ∧ j < W ∧ dw ≤ j ∧ j - dw < ((ch[i - dh]?).getD []).length
      then ((((ch[i - dh]?).getD [])[j - dw]?).getD 0) else 0 := by
  unfold Tensor.padChannel
  by_cases hi : i < H
  · have hr : (List.range H)[i]? = some i := List.getElem?_range hi
    simp only [List.getElem?_map, hr, Option.map_some, Option.getD_some, L.get?_eq, List.getElem?_take]
    by_cases hd : dh ≤ i
    · have h1 : i - dh < H := by omega
      by_cases hlen : i - dh < ch.length
      · have hsome : ch[i - dh]? = some ch[i - dh] := List.getElem?_eq_getElem hlen
        simp only [hd, h1, hsome, if_true, Option.getD_some]
        rw [padRow_get]
        simp [hi, hd, hlen]
      · have hn : ch[i - dh]? = none := List.getElem?_eq_none (by omega)
        simp only [hd, h1, hn, if_true]
        by_cases hj : j < W <;> simp [hj, hlen]
    · simp only [hd, if_false]
      by_cases hj : j < W <;> simp [hj, hd]
  · have hr : (List.range H)[i]? = none := List.getElem?_eq_none (by simp; omega)
    simp [List.getElem?_map, hr, hi]

/-- **zero padding**: the padded tensor holds the input shifted by `(p₀, p₁)` and zero elsewhere -/
theorem pad3d_get (x : V3 ℝ) (c ih iw p0 p1 : ℕ) (hx : L.Dims3 x c ih iw) (hc : 0 < c) (hih : 0 < ih) :
    ∃ y, Tensor.pad3d x (ih + 2 * p0) (iw + 2 * p1) = .ok y ∧
      ∀ ch i j, L.get3D 0 y ch i j =
        if p0 ≤ i ∧ i < p0 + ih ∧ p1 ≤ j ∧ j < p1 + iw then L.get3D 0 x ch (i - p0) (j - p1) else 0 := by
  obtain ⟨hc', hm⟩ := hx
  match x, hc', hm with
  | (r :: m) :: rest, hc', hm =>
    have hm0 := hm (r :: m) (List.mem_cons_self ..)
    have hr0 := hm0.2 r (List.mem_cons_self ..)
    have hdh : (if ih + 2 * p0 > (r :: m).length then (ih + 2 * p0 - (r :: m).length) / 2 else 0) = p0 := by
      rw [hm0.1]; split <;> omega
    have hdw : (if iw + 2 * p1 > r.length then (iw + 2 * p1 - r.length) / 2 else 0) = p1 := by
      rw [hr0]; split <;> omega
    have hok : Tensor.padOutOfRange ((r :: m) :: rest) (ih + 2 * p0) (iw + 2 * p1) p0 p1 = false := by
      unfold Tensor.padOutOfRange
      rw [List.any_eq_false]
      intro ch hch
      have hd := hm ch hch
      simp only [Bool.or_eq_true, List.any_eq_true, decide_eq_true_eq, not_or, not_exists, not_and, not_lt]
      constructor
      · intro row hrow
        have : row.length = iw := hd.2 row (List.mem_of_mem_take hrow)
        simp only [List.length_take, this]; omega
      · simp only [List.length_take, hd.1]; omega
    refine ⟨_, by simp only [Tensor.pad3d, hdh, hdw, hok]; rfl, ?_⟩
    intro ch i j
    rw [L.get3D_eq, L.get3D_eq]
    simp only [List.getD_eq_getElem?_getD, List.getElem?_map]
    cases hch : ((r :: m) :: rest)[ch]? with
    | none => simp
    | some chan =>
      have hmem : chan ∈ (r :: m) :: rest := List.mem_of_getElem? hch
      have hd := hm chan hmem
      simp only [Option.map_some, Option.getD_some]
      rw [padChannel_get]
      by_cases h1 : p0 ≤ i ∧ i < p0 + ih
      · have hi : i - p0 < chan.length := by rw [hd.1]; omega
        have hrow : chan[i - p0]? = some chan[i - p0] := List.getElem?_eq_getElem hi
        have hlen : (chan[i - p0]).length = iw := hd.2 _ (List.getElem_mem hi)
        by_cases h2 : p1 ≤ j ∧ j < p1 + iw
        · have : i < ih + 2 * p0 ∧ p0 ≤ i ∧ i - p0 < chan.length ∧ j < iw + 2 * p1 ∧ p1 ≤ j ∧
              j - p1 < ((chan[i - p0]?).getD []).length := by
            rw [hrow]; simp only [Option.getD_some, hlen]; omega
          rw [if_pos this, if_pos ⟨h1.1, h1.2, h2.1, h2.2⟩, hrow]
        · have hn : ¬ (i < ih + 2 * p0 ∧ p0 ≤ i ∧ i - p0 < chan.length ∧ j < iw + 2 * p1 ∧ p1 ≤ j ∧
              j - p1 < ((chan[i - p0]?).getD []).length) := by
            rw [hrow]; simp only [Option.getD_some, hlen]; omega
          have hn2 : ¬ (p0 ≤ i ∧ i < p0 + ih ∧ p1 ≤ j ∧ j < p1 + iw) := by omega
          simp [hn, hn2]
      · have hn : ¬ (i < ih + 2 * p0 ∧ p0 ≤ i ∧ i - p0 < chan.length ∧ j < iw + 2 * p1 ∧ p1 ≤ j ∧
            j - p1 < ((chan[i - p0]?).getD []).length) := by
          rw [hd.1]; omega
        have hn2 : ¬ (p0 ≤ i ∧ i < p0 + ih ∧ p1 ≤ j ∧ j < p1 + iw) := by omega
        simp [hn, hn2]
  | [] :: _, hc', hm => exact absurd (hm [] (List.mem_cons_self ..)).1 (by simp; omega)
  | [], hc', _ => simp at hc'; omega

end C02
