import Model.Train
import Proofs.Chunks
import Props.C13

/-!
# C04 — training is ordered mini-batch gradient-sum descent

About `Network.epochStep`, `Network.trainBatch`, `Network.accumulateBatch`, `L.chunks`
(`Model/Train.lean`), for every scalar type, network, optimizer, objective, `N`, `B ≥ 1`, `E`.
-/

set_option linter.unusedSectionVars false

namespace C04
open Network Scalar

variable {α : Type} [Scalar α]

/-! ### the groups: consecutive, in order, every sample exactly once, the last may be smaller -/

theorem groups_cover_in_order {β : Type} (B : Nat) (hB : 0 < B) (samples : List β) :
    (L.chunks B samples).flatten = samples := L.chunks_flatten B hB samples

theorem groups_sizes {β : Type} (B : Nat) (hB : 0 < B) (samples : List β) :
    (∀ c ∈ L.chunks B samples, 0 < c.length ∧ c.length ≤ B) ∧
    (∀ c ∈ (L.chunks B samples).dropLast, c.length = B) ∧
    (L.chunks B samples).length = (samples.length + B - 1) / B :=
  ⟨L.chunks_bounds B hB samples, L.chunks_full B hB samples, L.chunks_count B hB samples⟩

/-- `B > N`: a single group holding all samples -/
theorem one_group_when_batch_exceeds {β : Type} (B : Nat) (samples : List β) (h : samples.length ≤ B) (hne : samples ≠ []) :
    L.chunks B samples = [samples] := by
  cases samples with
  | nil => exact absurd rfl hne
  | cons x xs =>
    have hd : List.drop B (x :: xs) = [] := List.drop_eq_nil_of_le h
    have ht : List.take B (x :: xs) = x :: xs := List.take_of_length_le h
    simp only [L.chunks, L.chunksAux, List.length_cons]
    rw [hd, ht]
    cases xs <;> simp [L.chunksAux]

/-! ### one group = one optimizer step on the gradient sum at the weights held before the step -/

/-- `trainBatch` unfolds to: per-sample gradients *all evaluated at the incoming network `n`*, their
    in-order accumulation, and exactly one `update` with step number = the epoch index; the reported
    value is the mean per-sample loss of the group -/
theorem trainBatch_spec (n n' : Network α) (epoch : Nat) (batch : List (Tensor α × Tensor α)) (m : α)
    (h : n.trainBatch epoch batch = .ok (n', m)) :
    ∃ results ws bs losses,
      L.mapM' (fun s => match n.sampleGradients s.1 s.2 with
        | .ok (w, b, l, _) => Except.ok (w, b, l)
        | .error e => .error e) batch = .ok results ∧
      accumulateBatch results = .ok (ws, bs, losses) ∧
      n.update epoch ws bs = .ok n' ∧
      m = Tensor.sumL losses / ofNat' losses.length := by
  unfold trainBatch at h
  split at h
  · simp at h
  · rename_i results hr
    split at h
    · simp at h
    · rename_i ws bs losses ha
      simp only [] at h
      split at h
      · simp at h
      · rename_i n2 hu
        simp only [Except.ok.injEq, Prod.mk.injEq] at h
        obtain ⟨h1, h2⟩ := h
        subst h1
        exact ⟨results, ws, bs, losses, hr, ha, hu, h2.symm⟩

/-- the accumulation is the running **sum** (not the mean): the first sample's gradients, then
    `add` of each later sample's, in sample order; one loss per sample -/
theorem accumulate_first (w : List (WGrad α)) (b : List (BGrad α)) (l : α) (hn : isNaN l = false) :
    accumulateBatch [(w, b, l)] = .ok (w, b, [l]) := by
  simp [accumulateBatch, hn]

theorem accumulate_nan_aborts (rs : List (List (WGrad α) × List (BGrad α) × α)) (w : List (WGrad α)) (b : List (BGrad α)) (l : α)
    (hn : isNaN l = true) : accumulateBatch ((w, b, l) :: rs) = .error .nan := by
  have : ∀ (rest : List (List (WGrad α) × List (BGrad α) × α)),
      rest.foldl (fun (st : Except Err (List (WGrad α) × List (BGrad α) × List α)) r =>
        match st with
        | .error e => .error e
        | .ok (ws, bs, ls) =>
          if isNaN r.2.2 then .error .nan else
          if ws.isEmpty then .ok (r.1, r.2.1, ls ++ [r.2.2]) else
          match L.mapM' (fun p => addW p.1 p.2) (ws.zip r.1), L.mapM' (fun p => addB p.1 p.2) (bs.zip r.2.1) with
          | .ok ws', .ok bs' => .ok (ws' ++ ws.drop ws'.length, bs' ++ bs.drop bs'.length, ls ++ [r.2.2])
          | .error e, _ => .error e
          | _, .error e => .error e) (.error .nan) = .error .nan := by
    intro rest
    induction rest with
    | nil => rfl
    | cons r rest ih => simpa using ih
  unfold accumulateBatch
  simp only [List.foldl_cons, hn, if_true]
  exact this rs

/-! ### the epoch: groups in order, training loss = mean over groups of the group means -/

/-- the state threaded through the groups of one epoch -/
def epochFold (epoch : Nat) (batches : List (List (Tensor α) × List (Tensor α))) (n : Network α) :
    Except Err (Network α × α) :=
  batches.foldl (fun (st : Except Err (Network α × α)) b =>
    match st with
    | .error e => .error e
    | .ok (n, lossEpoch) =>
      match n.trainBatch epoch (b.1.zip b.2) with
      | .error e => .error e
      | .ok (n', m) => .ok (n', lossEpoch + m)) (.ok (n, 0))

/-- `epochStep` = fold `trainBatch` (step number = `epoch`) over the consecutive groups of `B` inputs
    zipped with the groups of `B` targets, then push `Σ group means / #groups` -/
theorem epochStep_spec (inputs targets : List (Tensor α)) (B : Nat) (script : List α) (epoch : Nat)
    (r r' : LearnResult α)
    (h : epochStep inputs targets none B script epoch r = .ok r') :
    ∃ n lossEpoch, epochFold epoch (List.zip (L.chunks B inputs) (L.chunks B targets)) r.net = .ok (n, lossEpoch) ∧
      r'.net = n ∧
      r'.trainLoss = r.trainLoss ++ [lossEpoch / ofNat' (List.zip (L.chunks B inputs) (L.chunks B targets)).length] := by
  unfold epochStep at h
  simp only [] at h
  split at h
  · simp at h
  · rename_i n lossEpoch hrun
    simp only [Except.ok.injEq] at h
    subst h
    exact ⟨n, lossEpoch, hrun, rfl, rfl⟩

/-! ### the whole run -/

/-- **training for `E` epochs** (no validation data, so nothing can stop the run early): `learn` is exactly the walk
    `epochStep 1, epochStep 2, …, epochStep E` — epoch `e` is one `epochStep` with step number `e` (`epochStep_spec`: its
    groups in order, one optimizer step per group on the group's gradient sum at the weights held before the step) started
    from the result of epoch `e − 1`; the first starts from the given network with the training flags on and an empty
    loss history, and the flags are cleared at the end.  Hence one training-loss entry per epoch, `E` in all. -/
theorem learn_is_the_epoch_walk (n : Network α) (inputs targets : List (Tensor α)) (B E : Nat) (script : List α)
    (res : LearnResult α) (h : n.learn inputs targets none B E script = .ok res) :
    0 < B ∧ ∃ r, C13.runK (epochStep inputs targets none B script) E 1
        { net := n.setAllTraining true, trainLoss := [], valLoss := [], valAcc := [] } = .ok r ∧
      res = { r with net := r.net.setAllTraining false } ∧ res.trainLoss.length = E := by
  unfold learn at h
  split at h
  · simp at h
  · rename_i hB
    simp only [] at h
    split at h
    · simp at h
    · rename_i r hr
      simp only [Except.ok.injEq] at h
      subst h
      unfold learnLoop at hr
      have hstop : stopAfter (none : Option (List (Tensor α) × List (Tensor α) × Nat)) = fun _ _ => .ok false := by
        funext e r'; rfl
      rw [hstop, C13.epochLoop_never_stops] at hr
      refine ⟨Nat.pos_of_ne_zero hB, r, hr, rfl, ?_⟩
      obtain ⟨l1, _, _⟩ := C13.runK_lengths inputs targets none B script E 1 _ r hr
      simpa using l1

/-! non-vacuity: 5 samples in groups of 2 → [2, 2, 1] -/
example : L.chunks 2 [1, 2, 3, 4, 5] = [[1, 2], [3, 4], [5]] := by decide
example : L.chunks 7 [1, 2, 3] = [[1, 2, 3]] := by decide

/-- **which samples form group `g`**: group `g` (0-based) is exactly the window of samples
    `g·B, g·B + 1, …` of length `B` (shorter only where the data ends), and there is a group `g` exactly
    while `g·B < N` — in particular the last group holds the remaining `N − g·B` samples -/
theorem group_is_window {β : Type} (B : Nat) (hB : 0 < B) (samples : List β) (g : Nat) :
    (L.chunks B samples)[g]? = if g * B < samples.length then some ((samples.drop (g * B)).take B) else none :=
  L.chunks_getElem? B hB samples g

/-- sample `g·B + j` (`j < B`) is member `j` of group `g` -/
theorem sample_in_its_group {β : Type} (B : Nat) (hB : 0 < B) (samples : List β) (g j : Nat) (hj : j < B)
    (h : g * B + j < samples.length) :
    ((L.chunks B samples)[g]?).bind (·[j]?) = samples[g * B + j]? := by
  have hg : g * B < samples.length := by omega
  rw [group_is_window B hB samples g, if_pos hg]
  simp only [Option.bind_some, List.getElem?_take, hj, if_true, List.getElem?_drop]

/-- the size of group `g`: `B`, or what is left of the data -/
theorem group_size {β : Type} (B : Nat) (hB : 0 < B) (samples : List β) (g : Nat) (c : List β)
    (h : (L.chunks B samples)[g]? = some c) : c.length = min B (samples.length - g * B) := by
  rw [group_is_window B hB samples g] at h
  split at h
  · cases h; simp
  · cases h

example : ((L.chunks 2 [10, 11, 12, 13, 14])[2]?).bind (·[0]?) = [10, 11, 12, 13, 14][2 * 2 + 0]? := by decide

end C04
