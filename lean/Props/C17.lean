import Model.Network
import Proofs.Loop
import Props.C14

/-!
# C17 — loop connections compute the accumulated repeated sub-network

About `Network.addLoopback` (`Network::loopback`) and `Network.applyLoopback` (the loop block of
`Network::forward`).  `LoopSpec.loopOutputs step k o₀` is the list `o₁ … o_k` with
`o_{t+1} = output of the range a..b on prep(o_t)`, where `prep` reshapes to the input shape of layer
`a` and adds the original input of layer `a` when input skips are on (`loopStep`).

`loopback_value`: for every network, range, `k`, accumulation, skip flag and trace, the value passed
on after layer `b` is `loopCombine acc o₀ [o₁ … o_k]` — the configured accumulation of the `k+1`
successive outputs.  With overwrite it is `o_k`, the `k`-fold iterate, which is the plain network with
the range repeated `k+1` times (`unrolled_range`).
-/

set_option linter.unusedSectionVars false

namespace C17
open Network Scalar FeedbackSpec LoopSpec

variable {α : Type} [Scalar α]

/-! ### validation -/

theorem loopback_rejects_backward_range (n : Network α) (outof into k : Nat) (sc : α → α) (isk : Bool)
    (h : outof < into) : n.addLoopback outof into k sc isk = .error .reject := by
  simp [addLoopback, h]

theorem loopback_rejects_bad_index (n : Network α) (outof into k : Nat) (sc : α → α) (isk : Bool)
    (h : into ≥ n.layers.length) : n.addLoopback outof into k sc isk = .error .reject := by
  simp [addLoopback, h]

theorem loopback_rejects_second_loop (n : Network α) (outof into k : Nat) (sc : α → α) (isk : Bool) (e : Nat × Nat × Bool)
    (hv : ¬ (outof > n.layers.length ∨ into ≥ n.layers.length ∨ outof < into))
    (h : Assoc.find? n.loopbacks outof = some e) : n.addLoopback outof into k sc isk = .error .reject := by
  simp [addLoopback, hv, h]

/-- the output shape of layer `b` must be the input shape of layer `a` -/
theorem loopback_rejects_shape_mismatch (n : Network α) (outof into k : Nat) (sc : α → α) (isk : Bool) (li lo : Layer α)
    (hv : ¬ (outof > n.layers.length ∨ into ≥ n.layers.length ∨ outof < into))
    (hfree : Assoc.find? n.loopbacks outof = none)
    (h1 : L.get n.layers into = .ok li) (h2 : L.get n.layers outof = .ok lo) (hs : li.inputs ≠ lo.outputs) :
    n.addLoopback outof into k sc isk = .error .shape := by
  simp [addLoopback, hv, hfree, h1, h2, hs]

/-! ### the value passed on -/

/-- the range `a..b` of the network -/
def rangeOf (n : Network α) (into i : Nat) : List (Layer α) := (n.layers.drop into).take (i + 1 - into)

theorem rangeOf_length (n : Network α) (into i : Nat) (h1 : into ≤ i) (h2 : i < n.layers.length) :
    (rangeOf n into i).length = i + 1 - into := by
  simp only [rangeOf, List.length_take, List.length_drop]; omega

/-- **C17.** after the loop block of layer `b = i` (looping back into `a = into` for `k` iterations)
    the value passed on is the configured accumulation of the `k+1` successive outputs -/
theorem loopback_value (n : Network α) (i into k : Nat) (inskips : Bool) (t t' : Trace α)
    (hinto : into ≤ i) (hi : i < n.layers.length) (hact : t.act.length = i + 2)
    (h : applyLoopback n i into k inskips t = .ok t') :
    ∃ o0 lin actInto outs v,
      L.get t.act (i + 1) = .ok o0 ∧ L.get n.layers into = .ok lin ∧ L.get t.act into = .ok actInto ∧
      loopOutputs (loopStep (rangeOf n into i) lin.inputs inskips actInto) k o0 = .ok outs ∧ outs.length = k ∧
      loopCombine n.loopaccumulation o0 outs = .ok v ∧
      L.get t'.act (i + 1) = .ok v ∧ t'.act.getLast? = some v ∧ t'.act.length = i + 2 := by
  unfold applyLoopback at h
  cases hl : t.act.getLast? with
  | none => rw [hl] at h; simp at h
  | some last =>
    cases h1 : L.get n.layers into with
    | error e => rw [hl, h1] at h; simp at h
    | ok lin =>
      cases h2 : L.get n.layers i with
      | error e => rw [hl, h1, h2] at h; simp at h
      | ok lout =>
        cases h3 : L.get t.act into with
        | error e => rw [hl, h1, h2, h3] at h; simp at h
        | ok actInto =>
          rw [hl, h1, h2, h3] at h
          simp only [] at h
          -- the first output is the last activation
          have ho0 : L.get t.act (i + 1) = .ok last := get_last _ _ _ (by omega) hl
          have hrl := rangeOf_length n into i hinto hi
          have hne : rangeOf n into i ≠ [] := by
            intro e; rw [e] at hrl; simp at hrl; omega
          have hrel := loopRuns_outputs (loopStep (rangeOf n into i) lin.inputs inskips actInto)
            (fun q => L.get q ((rangeOf n into i).length - 1))
            (fun cur p q r out hs => loopStep_sel _ hne _ _ _ _ p q r out hs) k last
          change (match loopRuns (loopStep (rangeOf n into i) lin.inputs inskips actInto) k last with
            | .error e => .error e
            | .ok (fpres, fposts, frecs, _) => _) = Except.ok t' at h
          cases hA : loopRuns (loopStep (rangeOf n into i) lin.inputs inskips actInto) k last with
          | error e => rw [hA] at h; simp at h
          | ok st =>
            obtain ⟨fpres, fposts, frecs, fin⟩ := st
            rw [hA] at h hrel
            simp only [] at h
            cases hB : loopOutputs (loopStep (rangeOf n into i) lin.inputs inskips actInto) k last with
            | error e => rw [hB] at hrel; simp at hrel
            | ok outs =>
              rw [hB] at hrel
              simp only [] at hrel
              obtain ⟨hsel, _, _, _, hlen, _⟩ := hrel
              -- split the merge into the earlier layers of the range and the last one
              obtain ⟨m, hm⟩ : ∃ m, i + 1 - into = m + 1 := ⟨i - into, by omega⟩
              rw [hm, List.range_succ, List.map_append, List.zip_append (by simp), List.foldl_append] at h
              simp only [List.map_cons, List.map_nil, List.zip_cons_cons, List.zip_nil_right, List.foldl_cons,
                List.foldl_nil] at h
              cases hmid : List.foldl (loopMerge n fpres fposts frecs) (Except.ok t)
                  ((List.range m).zip (List.map (fun x => x + into) (List.range m))) with
              | error e => rw [hmid] at h; simp [loopMerge] at h
              | ok tmid =>
                rw [hmid] at h
                have hframe := mergeFold_frame n fpres fposts frecs (i + 1) _ t tmid (by
                  intro ij hij
                  have := List.of_mem_zip hij
                  simp only [List.mem_range, List.mem_map] at this
                  obtain ⟨_, j, hj, hj2⟩ := this
                  omega) hmid
                obtain ⟨qs, aj, aj', hq, haj, hcomb, hact'⟩ := loopMerge_ok n fpres fposts frecs tmid t' _ h
                simp only [] at hq haj hact'
                have hmi : m + into = i := by omega
                rw [hmi] at haj hact'
                have hms : (rangeOf n into i).length - 1 = m := by omega
                rw [hms] at hsel
                rw [hsel] at hq
                simp only [Except.ok.injEq] at hq
                subst hq
                have haj0 : aj = last := by
                  have e1 : L.get tmid.act (i + 1) = L.get t.act (i + 1) := by
                    simp only [L.get, hframe.1]
                  rw [e1, ho0] at haj
                  simp only [Except.ok.injEq] at haj
                  exact haj.symm
                subst haj0
                have hget : L.get t'.act (i + 1) = .ok aj' := by
                  have hq : L.get? tmid.act (i + 1) = some aj := by
                    have := haj
                    simp only [L.get] at this
                    cases hh : L.get? tmid.act (i + 1) with
                    | none => rw [hh] at this; simp at this
                    | some z => rw [hh] at this; simp only [Except.ok.injEq] at this; rw [this]
                  simp only [L.get, hact', L.get?_modAt_same, hq, Option.map_some]
                have hlen' : t'.act.length = i + 2 := by
                  rw [hact', length_modAt, hframe.2, hact]
                refine ⟨aj, lin, actInto, outs, aj', ho0, rfl, rfl, hB, hlen, hcomb, hget, ?_, hlen'⟩
                · have := hget
                  simp only [L.get, L.get?_eq] at this
                  rw [List.getLast?_eq_getElem?, hlen']
                  cases hh : t'.act[i + 1]? with
                  | none => rw [hh] at this; simp at this
                  | some z =>
                    rw [hh] at this
                    simp only [Except.ok.injEq] at this
                    simp [hh, this]


/-! ### reading the specification -/

/-- the five accumulations of the first output `x` with the outputs `ys` of the `k` iterations -/
theorem combine_add (x : Tensor α) (ys : List (Tensor α)) :
    loopCombine .add x ys = ys.foldl (fun r y => match r with | .ok t => t.add y | .error e => .error e) (.ok x) := rfl
theorem combine_subtract (x : Tensor α) (ys : List (Tensor α)) :
    loopCombine .subtract x ys = ys.foldl (fun r y => match r with | .ok t => t.sub y | .error e => .error e) (.ok x) := rfl
theorem combine_multiply (x : Tensor α) (ys : List (Tensor α)) :
    loopCombine .multiply x ys = ys.foldl (fun r y => match r with | .ok t => t.mul y | .error e => .error e) (.ok x) := rfl
theorem combine_mean (x : Tensor α) (ys : List (Tensor α)) : loopCombine .mean x ys = x.mean ys := rfl
theorem combine_overwrite (x y : Tensor α) (ys : List (Tensor α)) : loopCombine .overwrite x (ys ++ [y]) = .ok y := by
  simp [loopCombine]

/-- what one iteration runs the range on: the previous output, reshaped to the input shape of layer
    `a` if it differs (a flattened output looping into a spatial layer), plus the original input of
    layer `a` when input skips are on -/
def prep (s : Shape) (inskips : Bool) (actInto cur : Tensor α) : Except Err (Tensor α) :=
  match (if cur.shape ≠ s then Tensor.reshape cur s else .ok cur) with
  | .error e => .error e
  | .ok c => if inskips then c.add actInto else .ok c

/-- the output of a range: its last activation -/
def rangeOut (range : List (Layer α)) (x : Tensor α) : Except Err (Tensor α) :=
  match runRange range x with
  | .error e => .error e
  | .ok (_, q, _) => match q.getLast? with
    | some out => .ok out
    | none => .error .index

/-- the output of a step, forgetting its recordings -/
def stepOut {P Q R : Type} (step : Tensor α → Except Err (P × Q × R × Tensor α)) (c : Tensor α) : Except Err (Tensor α) :=
  match step c with
  | .error e => .error e
  | .ok (_, _, _, out) => .ok out

theorem loopStep_out (range : List (Layer α)) (s : Shape) (inskips : Bool) (actInto cur : Tensor α) :
    stepOut (loopStep range s inskips actInto) cur =
      match prep s inskips actInto cur with
      | .error e => .error e
      | .ok c => rangeOut range c := by
  simp only [stepOut, loopStep, prep, rangeOut]
  cases (if cur.shape ≠ s then Tensor.reshape cur s else Except.ok cur) with
  | error e => rfl
  | ok c =>
    simp only []
    cases (if inskips = true then c.add actInto else Except.ok c) with
    | error e => rfl
    | ok c2 =>
      simp only []
      cases runRange range c2 with
      | error e => rfl
      | ok r =>
        obtain ⟨p, q, r⟩ := r
        simp only []
        cases q.getLast? <;> rfl

/-- without input skips and with matching shape an iteration is just the range -/
theorem prep_plain (s : Shape) (actInto cur : Tensor α) (h : cur.shape = s) : prep s false actInto cur = .ok cur := by
  simp [prep, h]

/-- the `k`-fold iterate of a step on tensors -/
def iter (f : Tensor α → Except Err (Tensor α)) : Nat → Tensor α → Except Err (Tensor α)
  | 0, x => .ok x
  | k + 1, x => match f x with
    | .error e => .error e
    | .ok y => iter f k y

/-- **with overwrite the value passed on is the `k`-th iterate** of "range ∘ prep" on the first
    output: the last of the successive outputs -/
theorem overwrite_is_iterate {P Q R : Type} (step : Tensor α → Except Err (P × Q × R × Tensor α)) :
    ∀ (k : Nat) (o0 : Tensor α),
    (match loopOutputs step k o0 with
     | .error e => .error e
     | .ok outs => loopCombine .overwrite o0 outs) =
      iter (stepOut step) k o0
  | 0, o0 => by simp [loopOutputs, loopCombine, iter]
  | k + 1, o0 => by
    simp only [loopOutputs, iter, stepOut]
    cases hs : step o0 with
    | error e => simp
    | ok r =>
      obtain ⟨p, q, r, out⟩ := r
      simp only []
      rw [← overwrite_is_iterate step k out]
      cases loopOutputs step k out with
      | error e => rfl
      | ok os =>
        simp only [loopCombine, List.getLast?_cons]
        cases os.getLast? <;> rfl

/-! ### the plain network with the range repeated -/

theorem rangeFold_append (l1 l2 : List (Layer α)) (st : Except Err (List (Tensor α) × List (Tensor α) × List (Recorded α) × Tensor α)) :
    (l1 ++ l2).foldl rangeStep st = l2.foldl rangeStep (l1.foldl rangeStep st) := List.foldl_append

/-- the value threaded through a range fold -/
def finalOf (r : Except Err (List (Tensor α) × List (Tensor α) × List (Recorded α) × Tensor α)) : Except Err (Tensor α) :=
  match r with
  | .error e => .error e
  | .ok (_, _, _, y) => .ok y

/-- the fold only ever appends to what it was given: starting from recorded lists or from empty
    ones gives the same final output -/
theorem rangeFold_out : ∀ (ls : List (Layer α)) (pres posts : List (Tensor α)) (recs : List (Recorded α)) (x : Tensor α),
    finalOf (ls.foldl rangeStep (.ok (pres, posts, recs, x))) = finalOf (ls.foldl rangeStep (.ok ([], [], [], x)))
  | [], _, _, _, _ => rfl
  | l :: ls, pres, posts, recs, x => by
    simp only [List.foldl_cons, rangeStep]
    cases layerForward l x with
    | error e => simp only [rangeFold_error]
    | ok r =>
      obtain ⟨pre, post, rc⟩ := r
      simp only []
      rw [rangeFold_out ls (pres ++ [pre]) (posts ++ [post]) (recs ++ [rc]) post,
        rangeFold_out ls ([] ++ [pre]) ([] ++ [post]) ([] ++ [rc]) post]

/-- the last value threaded through a range -/
def rangeFinal (ls : List (Layer α)) (x : Tensor α) : Except Err (Tensor α) :=
  finalOf (ls.foldl rangeStep (.ok ([], [], [], x)))

/-- for a non-empty range the threaded value is the last recorded activation -/
theorem rangeOut_eq_final (ls : List (Layer α)) (hne : ls ≠ []) (x : Tensor α) : rangeOut ls x = rangeFinal ls x := by
  simp only [rangeOut, rangeFinal, runRange, finalOf]
  cases hf : ls.foldl rangeStep (.ok ([], [], [], x)) with
  | error e => rfl
  | ok st =>
    obtain ⟨a, b, c, d⟩ := st
    simp only []
    have := (rangeFold_spec ls _ _ _ _ _ _ _ _ hf).2 hne
    rw [this]

/-- running `l1 ++ l2` is running `l1`, then `l2` on its output -/
theorem rangeFinal_append (l1 l2 : List (Layer α)) (x : Tensor α) :
    rangeFinal (l1 ++ l2) x = match rangeFinal l1 x with
      | .error e => .error e
      | .ok y => rangeFinal l2 y := by
  simp only [rangeFinal, rangeFold_append]
  cases hf : l1.foldl rangeStep (.ok ([], [], [], x)) with
  | error e => simp only [rangeFold_error, finalOf]
  | ok st =>
    obtain ⟨a, b, c, d⟩ := st
    simp only [finalOf]
    exact rangeFold_out l2 a b c d

/-- **the plain network in which the range is repeated `k+1` times (shared weights) computes the
    `k`-th iterate of the range on the range's first output** — which, by `overwrite_is_iterate`,
    `loopStep_out` and `prep_plain`, is the value a loop connection with overwrite accumulation and
    no input skips passes on (as long as the shapes agree, so that no reshape is inserted) -/
theorem unrolled_range (range : List (Layer α)) : ∀ (k : Nat) (x : Tensor α),
    rangeFinal ((List.replicate (k + 1) range).flatten) x =
      match rangeFinal range x with
      | .error e => .error e
      | .ok o0 => iter (rangeFinal range) k o0
  | 0, x => by
    simp only [List.replicate, List.flatten_cons, List.flatten_nil, List.append_nil, iter]
    cases rangeFinal range x <;> rfl
  | k + 1, x => by
    rw [List.replicate_succ, List.flatten_cons, rangeFinal_append]
    cases rangeFinal range x with
    | error e => rfl
    | ok o0 =>
      simp only []
      rw [unrolled_range range k o0]
      simp only [iter]


theorem iter_congr (f g : Tensor α → Except Err (Tensor α)) (I : Tensor α → Prop)
    (hfg : ∀ c, I c → f c = g c) (hinv : ∀ c y, I c → g c = .ok y → I y) :
    ∀ (k : Nat) (c : Tensor α), I c → iter f k c = iter g k c
  | 0, _, _ => rfl
  | k + 1, c, hc => by
    simp only [iter, hfg c hc]
    cases hg : g c with
    | error e => rfl
    | ok y => exact iter_congr f g I hfg hinv k y (hinv c y hc hg)

/-- **C17, overwrite clause.** if the range maps tensors of the input shape `s` of layer `a` to
    tensors of shape `s` (what `loopback` validates), then with overwrite accumulation and no input
    skips the loop's successive outputs end in exactly what the plain network with the range repeated
    `k+1` times computes on the range's input `x` -/
theorem overwrite_loop_is_unrolled (range : List (Layer α)) (hne : range ≠ []) (s : Shape) (actInto x : Tensor α) (k : Nat)
    (hshape : ∀ c y, rangeFinal range c = .ok y → y.shape = s) :
    (match rangeFinal range x with
     | .error e => .error e
     | .ok o0 =>
       match loopOutputs (loopStep range s false actInto) k o0 with
       | .error e => .error e
       | .ok outs => loopCombine .overwrite o0 outs) =
    rangeFinal ((List.replicate (k + 1) range).flatten) x := by
  rw [unrolled_range]
  cases h0 : rangeFinal range x with
  | error e => rfl
  | ok o0 =>
    simp only []
    rw [overwrite_is_iterate]
    apply iter_congr _ _ (fun c => c.shape = s)
    · intro c hc
      rw [loopStep_out, prep_plain s actInto c hc]
      exact rangeOut_eq_final range hne c
    · intro c y _ hy
      exact hshape c y hy
    · exact hshape x o0 h0

/-! ### the re-entry of a flattened output (a range that ends in a spatial layer in front of a dense layer) -/

/-- **a flattened output re-enters a spatial layer `a` re-folded row-major**: when the range ends in a spatial layer in front of a
    dense layer (its output is the flat vector `v`) and layer `a` reads `c × h × w` maps, the next iteration runs on the
    tensor of shape `c × h × w` whose row-major sequence is exactly `v` — for every `c`, `h`, `w` (any number of channels and
    columns), plus the original input when input skips are on -/
theorem prep_refolds_row_major (c h w : Nat) (v : V1 α) (hv : v.length = c * h * w) (actInto : Tensor α) :
    ∃ r, prep (.triple c h w) false actInto (⟨.single v.length, .single v⟩ : Tensor α) = .ok r ∧
      r.shape = .triple c h w ∧ r.Wf ∧ r.flat = v := by
  obtain ⟨r, hr, hs, hw, hf⟩ := C14.reshape_vec_to_3d c h w v hv
  refine ⟨r, ?_, hs, hw, hf⟩
  simp [prep, hr]

theorem prep_refolds_then_adds (c h w : Nat) (v : V1 α) (hv : v.length = c * h * w) (actInto : Tensor α) :
    ∃ r, (⟨.single v.length, .single v⟩ : Tensor α).reshape (.triple c h w) = .ok r ∧ r.flat = v ∧
      prep (.triple c h w) true actInto (⟨.single v.length, .single v⟩ : Tensor α) = r.add actInto := by
  obtain ⟨r, hr, _, _, hf⟩ := C14.reshape_vec_to_3d c h w v hv
  refine ⟨r, hr, hf, ?_⟩
  simp [prep, hr]

end C17
