import Model.Train
import Proofs.OptimizerLemmas
import Proofs.ParamCount
import Props.C15

/-!
# C10 — feedback blocks keep their repeated layers weight-tied

About `Feedback.create`, `Feedback.recouple` / `recoupleGroup` / `writeGroup` (the write-back of
`Feedback::update`) and `Feedback.parameters` (`Model/Network.lean`, `Model/Train.lean`).
Any scalar type; any optimizer (the optimizer steps happen *before* the re-coupling and are arbitrary
from its point of view); accumulations add / subtract / multiply / mean.
-/

set_option linter.unusedSectionVars false

namespace C10
open Feedback Scalar ParamCount Tensor

variable {α : Type} [Scalar α]

/-! ### list indexing helpers for the model's `L.get?` -/

theorem get?_append_left {β : Type} : ∀ (a b : List β) (i : Nat), i < a.length → L.get? (a ++ b) i = L.get? a i
  | [], _, i, h => by simp at h
  | _ :: _, _, 0, _ => rfl
  | _ :: xs, b, i+1, h => by
    simp only [List.cons_append, L.get?]
    exact get?_append_left xs b i (by simpa using h)

theorem get?_append_right {β : Type} : ∀ (a b : List β) (i : Nat), L.get? (a ++ b) (a.length + i) = L.get? b i
  | [], b, i => by simp
  | _ :: xs, b, i => by
    have : (List.length xs + 1 + i) = (xs.length + i) + 1 := by omega
    simp only [List.cons_append, List.length_cons, this, L.get?]
    exact get?_append_right xs b i

/-! ### creation: every unrolled repetition is a copy of the template -/

theorem unrolled_length {β : Type} (layers : List β) : ∀ (loops : Nat),
    ((List.range loops).flatMap (fun _ => layers)).length = loops * layers.length := by
  intro loops
  induction loops with
  | zero => simp
  | succ n ih =>
    rw [List.range_succ, List.flatMap_append]
    simp only [List.flatMap_cons, List.flatMap_nil, List.append_nil, List.length_append, ih]
    rw [Nat.succ_mul]

/-- position `l + i·len` of the unrolled block holds the template's layer `l` — for every repetition `i` -/
theorem unrolled_get? {β : Type} (layers : List β) : ∀ (loops i l : Nat), i < loops → l < layers.length →
    L.get? ((List.range loops).flatMap (fun _ => layers)) (l + i * layers.length) = L.get? layers l := by
  intro loops
  induction loops with
  | zero => intro i l h; omega
  | succ n ih =>
    intro i l hi hl
    rw [List.range_succ, List.flatMap_append]
    simp only [List.flatMap_cons, List.flatMap_nil, List.append_nil]
    by_cases hin : i < n
    · rw [get?_append_left _ _ _ (by
        rw [unrolled_length]
        have : (i + 1) * layers.length ≤ n * layers.length := Nat.mul_le_mul_right _ hin
        rw [Nat.succ_mul] at this
        omega)]
      exact ih i l hin hl
    · have : i = n := by omega
      subst this
      have e : l + i * layers.length = ((List.range i).flatMap (fun _ => layers)).length + l := by
        rw [unrolled_length]; omega
      rw [e, get?_append_right]

/-- **at creation all copies of a coupled group are identical** (they are clones of one layer), and the
    groups are exactly the positions `l, l + len, l + 2·len, …` -/
theorem create_tied (layers : List (InnerLayer α)) (loops : Nat) (inskips outskips : Bool) (acc : Accumulation)
    (f : Feedback α) (h : Feedback.create layers loops inskips outskips acc = .ok f) :
    f.layers.length = loops * layers.length ∧
    f.coupled = (List.range layers.length).map (fun l => (List.range loops).map (fun i => l + i * layers.length)) ∧
    ∀ i l, i < loops → l < layers.length → L.get? f.layers (l + i * layers.length) = L.get? layers l := by
  unfold Feedback.create at h
  split at h
  · simp at h
  · split at h
    · split at h
      · simp at h
      · simp only [Except.ok.injEq] at h
        subst h
        exact ⟨unrolled_length layers loops, rfl, fun i l hi hl => unrolled_get? layers loops i l hi hl⟩
    · simp at h

/-- different groups never share a position -/
theorem groups_disjoint (len loops l l' : Nat) (hl : l < len) (hl' : l' < len) (hne : l ≠ l') :
    ∀ x, x ∈ (List.range loops).map (fun i => l + i * len) → x ∉ (List.range loops).map (fun i => l' + i * len) := by
  intro x hx hx'
  simp only [List.mem_map, List.mem_range] at hx hx'
  obtain ⟨i, _, rfl⟩ := hx
  obtain ⟨j, _, e⟩ := hx'
  have h1 : (l + i * len) % len = l := by rw [Nat.add_mul_mod_self_right]; exact Nat.mod_eq_of_lt hl
  have h2 : (l' + j * len) % len = l' := by rw [Nat.add_mul_mod_self_right]; exact Nat.mod_eq_of_lt hl'
  rw [← e, h2] at h1
  exact hne h1.symm

/-! ### the write-back assigns one value to every copy -/

theorem setParams_idem (l : InnerLayer α) (ws : List (Tensor α)) (b : Option (Tensor α)) :
    setParams (setParams l ws b) ws b = setParams l ws b := by
  cases l with
  | dense d =>
    cases hb : d.bias with
    | none => cases ws <;> simp [setParams, hb]
    | some v => cases b <;> cases ws <;> simp [setParams, hb]
  | conv d => rfl
  | deconv d => rfl
  | maxpool d => rfl

theorem writeGroup_get? (ws : List (Tensor α)) (b : Option (Tensor α)) : ∀ (group : List Nat) (ls : List (InnerLayer α)) (i : Nat),
    L.get? (writeGroup ls group ws b) i =
      if i ∈ group then (L.get? ls i).map (fun l => setParams l ws b) else L.get? ls i := by
  intro group
  induction group with
  | nil => intro ls i; simp [writeGroup]
  | cons j g ih =>
    intro ls i
    have e : writeGroup ls (j :: g) ws b = writeGroup (L.modAt (fun l => setParams l ws b) ls j) g ws b := rfl
    rw [e, ih]
    by_cases hij : i = j
    · subst hij
      simp only [List.mem_cons, true_or, if_true]
      rw [L.get?_modAt_same]
      by_cases hg : i ∈ g
      · simp only [hg, if_true, Option.map_map]
        congr 1
        funext l
        exact setParams_idem l ws b
      · simp [hg]
    · have hne : j ≠ i := fun e => hij e.symm
      rw [L.get?_modAt_other _ _ _ _ hne]
      simp [hij]

/-- "every copy of the group was assigned the same accumulated parameters `(ws, b)`" -/
def Written (ls : List (InnerLayer α)) (g : List Nat) : Prop :=
  ∃ ws b, ∀ i ∈ g, ∃ l0, L.get? ls i = some (setParams l0 ws b)

/-- "the group holds no parameters at all" (max-pool positions) -/
def NoParams (ls : List (InnerLayer α)) (g : List Nat) : Prop :=
  ∀ i ∈ g, (L.get? ls i).bind paramsOf = none

theorem all_of_any_false {β : Type} (p : β → Bool) (l : List β) (h : l.any p = false) : ∀ x ∈ l, p x = false := by
  intro x hx
  rw [List.any_eq_false] at h
  simpa using h x hx

/-- one group: either it holds no parameters and nothing changes, or **every copy in the group is
    overwritten with the same accumulated `(ws, b)`**; positions outside the group are untouched -/
theorem recoupleGroup_spec (acc : Accumulation) (ls ls' : List (InnerLayer α)) (group : List Nat)
    (h : recoupleGroup acc ls group = .ok ls') :
    (Written ls' group ∨ (ls' = ls ∧ NoParams ls group)) ∧
    (∀ i, i ∉ group → L.get? ls' i = L.get? ls i) := by
  unfold recoupleGroup at h
  cases hp : groupParams acc ls group with
  | error e => simp [hp] at h
  | ok r =>
    cases r with
    | none =>
      simp only [hp, Except.ok.injEq] at h
      subst h
      refine ⟨Or.inr ⟨rfl, ?_⟩, fun _ _ => rfl⟩
      -- `groupParams` answers `none` only when no member has parameters
      unfold groupParams at hp
      simp only [] at hp
      split at hp
      · split at hp
        · rename_i hall
          intro i hi
          have := hall.1
          rw [List.all_eq_true] at this
          have := this i hi
          simpa using this
        · simp at hp
      · split at hp
        · simp at hp
        · split at hp
          · simp at hp
          · split at hp <;> simp at hp
    | some wb =>
      obtain ⟨ws, b⟩ := wb
      simp only [hp, Except.ok.injEq] at h
      subst h
      -- success of `groupParams` with parameters means every index of the group exists
      have hex : ∀ i ∈ group, ∃ l0, L.get? ls i = some l0 := by
        unfold groupParams at hp
        simp only [] at hp
        split at hp
        · split at hp <;> simp at hp
        · split at hp
          · simp at hp
          · split at hp
            · simp at hp
            · split at hp
              · simp at hp
              · rename_i hany
                intro i hi
                have hf : (group.any fun i => (L.get? ls i).isNone) = false := by simpa using hany
                have := all_of_any_false _ group hf i hi
                cases hg : L.get? ls i with
                | none => simp [hg] at this
                | some l0 => exact ⟨l0, rfl⟩
      refine ⟨Or.inl ⟨ws, b, ?_⟩, ?_⟩
      · intro i hi
        obtain ⟨l0, hl0⟩ := hex i hi
        refine ⟨l0, ?_⟩
        rw [writeGroup_get?]; simp [hi, hl0]
      · intro i hi
        rw [writeGroup_get?]; simp [hi]

/-- later (disjoint) groups leave the positions of an earlier group alone -/
theorem recouple_keeps (acc : Accumulation) (g : List Nat) : ∀ (rest : List (List Nat)) (a a' : List (InnerLayer α)),
    (∀ g' ∈ rest, ∀ x, x ∈ g → x ∉ g') → recouple acc rest a = .ok a' → ∀ i ∈ g, L.get? a' i = L.get? a i := by
  intro rest
  induction rest with
  | nil => intro a a' _ hr i _; simp only [recouple, Except.ok.injEq] at hr; subst hr; rfl
  | cons g1 rest ihr =>
    intro a a' hd hr i hi
    unfold recouple at hr
    cases h1 : recoupleGroup acc a g1 with
    | error e => simp [h1] at hr
    | ok a1 =>
      simp only [h1] at hr
      have := (recoupleGroup_spec acc a a1 g1 h1).2 i (hd g1 (List.mem_cons_self ..) i hi)
      rw [ihr a1 a' (fun g' hg' => hd g' (List.mem_cons_of_mem _ hg')) hr i hi, this]

/-- **after the re-coupling step of `Feedback::update`, every coupled group holds one set of parameters
    in all its copies** (or holds none) — for every optimizer, every accumulation, every gradient and state:
    whatever the per-copy optimizer steps produced, the write-back assigns one accumulated value -/
theorem recouple_ties (acc : Accumulation) : ∀ (groups : List (List Nat)) (ls ls' : List (InnerLayer α)),
    groups.Pairwise (fun g g' => ∀ x, x ∈ g → x ∉ g') →
    recouple acc groups ls = .ok ls' →
    ∀ g ∈ groups, Written ls' g ∨ NoParams ls' g := by
  intro groups
  induction groups with
  | nil => intro ls ls' _ _ g hg; simp at hg
  | cons g0 gs ih =>
    intro ls ls' hpair h g hg
    unfold recouple at h
    cases h0 : recoupleGroup acc ls g0 with
    | error e => simp [h0] at h
    | ok ls1 =>
      simp only [h0] at h
      have hpair' := (List.pairwise_cons.mp hpair)
      simp only [List.mem_cons] at hg
      cases hg with
      | inl e =>
        subst e
        have hfin := recouple_keeps acc g gs ls1 ls' hpair'.1 h
        obtain ⟨hspec, _⟩ := recoupleGroup_spec acc ls ls1 g h0
        cases hspec with
        | inl hw =>
          obtain ⟨ws, b, hw⟩ := hw
          left
          exact ⟨ws, b, fun i hi => by obtain ⟨l0, hl0⟩ := hw i hi; exact ⟨l0, by rw [hfin i hi, hl0]⟩⟩
        | inr hn =>
          right
          intro i hi
          rw [hfin i hi, hn.1]
          exact hn.2 i hi
      | inr hmem => exact ih ls1 ls' hpair'.2 h g hmem

/-- the groups a block is created with are pairwise disjoint -/
theorem coupled_pairwise_of_create (layers : List (InnerLayer α)) (loops : Nat) (i o : Bool) (acc : Accumulation)
    (f : Feedback α) (h : Feedback.create layers loops i o acc = .ok f) :
    f.coupled.Pairwise (fun g g' => ∀ x, x ∈ g → x ∉ g') := by
  rw [(create_tied layers loops i o acc f h).2.1, List.pairwise_map]
  have hlt : (List.range layers.length).Pairwise (· < ·) := List.pairwise_lt_range
  refine List.Pairwise.imp_of_mem ?_ hlt
  intro l l' hl hl' hll
  exact groups_disjoint layers.length loops l l' (List.mem_range.mp hl) (List.mem_range.mp hl') (Nat.ne_of_lt hll)

/-- `Feedback::update` ends with the re-coupling of all groups, and keeps the groups themselves -/
theorem update_ends_with_recouple (f f' : Feedback α) (stepnr : Nat) (wgs : List (Tensor α)) (bgs : List (Option (Tensor α)))
    (h : f.update stepnr wgs bgs = .ok f') :
    f'.coupled = f.coupled ∧ f'.accumulation = f.accumulation ∧
    ∃ stepped, recouple f.accumulation f.coupled stepped = .ok f'.layers := by
  unfold Feedback.update at h
  simp only [] at h
  split at h
  · simp at h
  · rename_i o' rev _
    split at h
    · simp at h
    · rename_i ls hr
      simp only [Except.ok.injEq] at h
      subst h
      exact ⟨rfl, rfl, rev.reverse, hr⟩

/-- **one training step keeps the block weight-tied**: for every optimizer, accumulation (add, subtract,
    multiply, mean), gradient and optimizer state, after `Feedback::update` every coupled group holds one
    set of parameters in all its copies -/
theorem update_preserves_tied (f f' : Feedback α) (stepnr : Nat) (wgs : List (Tensor α)) (bgs : List (Option (Tensor α)))
    (hp : f.coupled.Pairwise (fun g g' => ∀ x, x ∈ g → x ∉ g'))
    (h : f.update stepnr wgs bgs = .ok f') :
    f'.coupled.Pairwise (fun g g' => ∀ x, x ∈ g → x ∉ g') ∧
    ∀ g ∈ f'.coupled, Written f'.layers g ∨ NoParams f'.layers g := by
  obtain ⟨hc, _, stepped, hr⟩ := update_ends_with_recouple f f' stepnr wgs bgs h
  rw [hc]
  exact ⟨hp, recouple_ties f.accumulation f.coupled stepped f'.layers hp hr⟩

/-- **any number of steps**: the tie is an invariant of every sequence of updates (the disjointness of
    the groups is preserved, so the one-step theorem applies again and again) -/
theorem tied_forall_history : ∀ (steps : List (Nat × List (Tensor α) × List (Option (Tensor α)))) (f f' : Feedback α),
    f.coupled.Pairwise (fun g g' => ∀ x, x ∈ g → x ∉ g') →
    steps ≠ [] →
    steps.foldl (fun (st : Except Err (Feedback α)) s =>
      match st with
      | .error e => .error e
      | .ok f => f.update s.1 s.2.1 s.2.2) (.ok f) = .ok f' →
    ∀ g ∈ f'.coupled, Written f'.layers g ∨ NoParams f'.layers g := by
  intro steps
  induction steps with
  | nil => intro f f' _ hne; exact absurd rfl hne
  | cons s rest ih =>
    intro f f' hp _ h
    simp only [List.foldl_cons] at h
    cases hu : f.update s.1 s.2.1 s.2.2 with
    | error e =>
      rw [hu] at h
      have : ∀ (r : List (Nat × List (Tensor α) × List (Option (Tensor α)))),
          r.foldl (fun (st : Except Err (Feedback α)) s =>
            match st with
            | .error e => .error e
            | .ok f => f.update s.1 s.2.1 s.2.2) (.error e) = .error e := by
        intro r; induction r with
        | nil => rfl
        | cons _ _ ihr => simpa using ihr
      rw [this rest] at h; cases h
    | ok f1 =>
      rw [hu] at h
      obtain ⟨hp1, htie⟩ := update_preserves_tied f f1 s.1 s.2.1 s.2.2 hp hu
      cases rest with
      | nil =>
        simp only [List.foldl_nil, Except.ok.injEq] at h
        subst h
        exact htie
      | cons s2 rest2 => exact ih f1 f' hp1 (by simp) h

/-! ### what "the same parameters" means for the observable weights, biases and kernels -/

/-- two copies of the same kind (both dense with/without bias, both convolution, both deconvolution)
    that were assigned the same `(ws, b)` expose identical weights / bias / kernels -/
theorem written_same_params (l l' : InnerLayer α) (ws : List (Tensor α)) (b : Option (Tensor α)) (hws : ws ≠ [])
    (hk : match l, l' with
      | .dense d, .dense d' => d.bias.isSome = d'.bias.isSome
      | .conv _, .conv _ => True
      | .deconv _, .deconv _ => True
      | .maxpool _, .maxpool _ => True
      | _, _ => False) :
    paramsOf (setParams l ws b) = paramsOf (setParams l' ws b) := by
  cases ws with
  | nil => exact absurd rfl hws
  | cons w ws' =>
    cases l <;> cases l' <;> simp_all [setParams, paramsOf]
    rename_i d d'
    cases h1 : d.bias <;> cases h2 : d'.bias <;> simp_all

/-! ### the reported parameter count counts each shared parameter once -/

/-- `parameters` sums over the first `coupled.length` positions only — one repetition -/
theorem parameters_first_repetition (f : Feedback α) :
    f.parameters = (f.layers.take f.coupled.length).foldl (fun acc l =>
      match acc, l.parameters with
      | .ok a, .ok b => .ok (a + b)
      | .error e, _ => .error e
      | _, .error e => .error e) (.ok 0) := rfl

theorem coupled_length_after_create (layers : List (InnerLayer α)) (loops : Nat) (i o : Bool) (acc : Accumulation)
    (f : Feedback α) (h : Feedback.create layers loops i o acc = .ok f) : f.coupled.length = layers.length := by
  rw [(create_tied layers loops i o acc f h).2.1]; simp

/-! ### … and that count is the number of scalars the layers of one repetition actually hold -/

/-- the scalars a layer actually holds: every kernel entry, every weight, every bias entry -/
def heldScalars : InnerLayer α → Nat
  | .dense d => (match d.weights.data with | .double m => (m.map List.length).sum | _ => 0)
      + (match d.bias with | some b => (match b.data with | .single v => v.length | _ => 0) | none => 0)
  | .conv l => kernelScalars l.kernels
  | .deconv l => kernelScalars l.kernels
  | .maxpool _ => 0

/-- a layer as the constructors make it: `filters` kernels of one extent `c × h × w` (all positive) for a spatial layer;
    an `o × i` weight matrix and, if present, a bias of `o` entries for a dense layer -/
def WellFormed : InnerLayer α → Prop
  | .dense d => ∃ i o m, d.inputs = .single i ∧ d.outputs = .single o ∧ d.weights.data = .double m ∧ m.length = o ∧
      (∀ r ∈ m, r.length = i) ∧ ∀ b, d.bias = some b → ∃ v, b.data = .single v ∧ v.length = o
  | .conv l => l.kernels ≠ [] ∧ ∃ c h w, 0 < c ∧ 0 < h ∧ ∀ k ∈ l.kernels, ∃ v, k.data = .triple v ∧ IsBox c h w v
  | .deconv l => l.kernels ≠ [] ∧ ∃ c h w, 0 < c ∧ 0 < h ∧ ∀ k ∈ l.kernels, ∃ v, k.data = .triple v ∧ IsBox c h w v
  | .maxpool _ => True

theorem conv_count (l : Conv α) (hne : l.kernels ≠ []) (c h w : Nat) (hc : 0 < c) (hh : 0 < h)
    (hk : ∀ k ∈ l.kernels, ∃ v, k.data = .triple v ∧ IsBox c h w v) : l.parameters = kernelScalars l.kernels := by
  unfold Conv.parameters
  rw [kernelScalars_box c h w l.kernels hk]
  congr 1
  split
  · rename_i k rest heq
    obtain ⟨v, hv, hb⟩ := hk k (by rw [heq]; simp)
    obtain ⟨r, m, cs, rfl, h1, h2, h3⟩ := box_nonempty c h w hc hh v hb
    simp only [hv]
    rw [h1, h2, h3, Nat.mul_assoc]
  · rename_i heq; exact absurd heq hne

theorem deconv_count (l : Deconv α) (hne : l.kernels ≠ []) (c h w : Nat) (hc : 0 < c) (hh : 0 < h)
    (hk : ∀ k ∈ l.kernels, ∃ v, k.data = .triple v ∧ IsBox c h w v) : l.parameters = kernelScalars l.kernels := by
  unfold Deconv.parameters
  rw [kernelScalars_box c h w l.kernels hk]
  congr 1
  split
  · rename_i k rest heq
    obtain ⟨v, hv, hb⟩ := hk k (by rw [heq]; simp)
    obtain ⟨r, m, cs, rfl, h1, h2, h3⟩ := box_nonempty c h w hc hh v hb
    simp only [hv]
    rw [h1, h2, h3, Nat.mul_assoc]
  · rename_i heq; exact absurd heq hne

/-- **the count a layer reports is the number of scalars it holds** — filters × channels × height × width for a convolution
    or deconvolution with any number of filters and channels (equal or not) and any kernel extents; `o·i (+ o)` for a
    dense layer -/
theorem parameters_is_heldScalars (l : InnerLayer α) (h : WellFormed l) : l.parameters = .ok (heldScalars l) := by
  cases l with
  | dense d =>
    obtain ⟨i, o, m, hi, ho, hm, hlen, hrows, hb⟩ := h
    simp only [InnerLayer.parameters, DenseLayer.parameters, hi, ho, heldScalars, hm]
    rw [sum_map_const m _ i hrows, hlen]
    cases hbias : d.bias with
    | none => simp [Nat.mul_comm]
    | some b =>
      obtain ⟨v, hv, hvl⟩ := hb b hbias
      simp [hv, hvl, Nat.mul_comm]
  | conv l =>
    obtain ⟨hne, c, hh, w, hc, hh', hk⟩ := h
    simp only [InnerLayer.parameters, heldScalars]
    rw [conv_count l hne c hh w hc hh' hk]
  | deconv l =>
    obtain ⟨hne, c, hh, w, hc, hh', hk⟩ := h
    simp only [InnerLayer.parameters, heldScalars]
    rw [deconv_count l hne c hh w hc hh' hk]
  | maxpool _ => rfl

theorem fold_ok (g : Except Err Nat → InnerLayer α → Except Err Nat) (ls : List (InnerLayer α))
    (hg : ∀ a, ∀ l ∈ ls, g (.ok a) l = .ok (a + heldScalars l)) : ∀ (a : Nat),
    ls.foldl g (.ok a) = .ok (a + (ls.map heldScalars).sum) := by
  induction ls with
  | nil => intro a; simp
  | cons l t ih =>
    intro a
    simp only [List.foldl_cons, hg a l (by simp)]
    rw [ih (fun a x hx => hg a x (by simp [hx]))]
    simp [Nat.add_assoc]

/-- **a block reports the scalars ONE repetition holds**, whatever the layer kinds, filter and channel counts -/
theorem block_parameters_is_one_repetition (f : Feedback α) (hwf : ∀ l ∈ f.layers.take f.coupled.length, WellFormed l) :
    f.parameters = .ok (((f.layers.take f.coupled.length).map heldScalars).sum) := by
  rw [parameters_first_repetition, fold_ok _ _ _ 0]
  · simp
  · intro a l hl
    simp [parameters_is_heldScalars l (hwf l hl)]

/-! non-vacuity: a convolution that widens one map to two (two 1×3×3 kernels) and a deconvolution that narrows two maps back
    to one (ONE 2×3×3 kernel: the filter count differs from the channel count) are well formed, and each holds 18 scalars -/
example (x : α) :
    let k1 : Tensor α := ⟨.triple 1 3 3, .triple (List.replicate 1 (List.replicate 3 (List.replicate 3 x)))⟩
    let k2 : Tensor α := ⟨.triple 2 3 3, .triple (List.replicate 2 (List.replicate 3 (List.replicate 3 x)))⟩
    let cv : InnerLayer α := .conv { inputs := .triple 1 4 4, outputs := .triple 2 4 4, loops := x, scale := id, kernels := [k1, k1], stride := (1, 1), padding := (1, 1), dilation := (1, 1), act := .tanh, dropout := none, flatten := false, training := false }
    let dc : InnerLayer α := .deconv { inputs := .triple 2 4 4, outputs := .triple 1 4 4, loops := x, scale := id, kernels := [k2], stride := (1, 1), padding := (1, 1), act := .tanh, dropout := none, flatten := false, training := false }
    WellFormed cv ∧ WellFormed dc ∧ heldScalars cv = 18 ∧ heldScalars dc = 18 := by
  refine ⟨⟨by simp, 1, 3, 3, by decide, by decide, ?_⟩, ⟨by simp, 2, 3, 3, by decide, by decide, ?_⟩, ?_, ?_⟩
  · intro k hk; simp at hk; subst hk; exact ⟨_, rfl, by simp [IsBox]⟩
  · intro k hk; simp at hk; subst hk; exact ⟨_, rfl, by simp [IsBox]⟩
  · simp [heldScalars, kernelScalars, v3count]
  · simp [heldScalars, kernelScalars, v3count]


/-! ### the VALUE every copy of a group receives (mean and additive coupling, one tensor per copy: weights, or biases) -/

/-- element-wise running sum of flat sequences, left to right -/
def sumFlat (first : List α) (rest : List (List α)) : List α :=
  rest.foldl (fun cur c => List.zipWith (· + ·) cur c) first

/-- the running tensor sum (total: an addition that is refused leaves the running value) -/
def sumT (cur : Tensor α) (rest : List (Tensor α)) : Tensor α :=
  rest.foldl (fun a t => (a.add t).toOption.getD a) cur

theorem sumT_spec : ∀ (rest : List (Tensor α)) (cur : Tensor α), cur.Wf → (∀ t ∈ rest, t.Wf ∧ t.shape = cur.shape) →
    (sumT cur rest).shape = cur.shape ∧ (sumT cur rest).Wf ∧ (sumT cur rest).flat = sumFlat cur.flat (rest.map Tensor.flat)
  | [], cur, hc, _ => ⟨rfl, hc, rfl⟩
  | t :: ts, cur, hc, h => by
    obtain ⟨r, hr, hs, hw, hf⟩ := C15.add_spec cur t hc (h t (by simp)).1 (h t (by simp)).2.symm
    have ih := sumT_spec ts r hw (fun x hx => ⟨(h x (by simp [hx])).1, by rw [hs]; exact (h x (by simp [hx])).2⟩)
    simp only [sumT, List.foldl_cons, hr, Except.toOption, Option.getD_some] at ih ⊢
    simp only [sumFlat, List.map_cons, List.foldl_cons] at ih ⊢
    rw [← hf]
    exact ⟨ih.1.trans hs, ih.2.1, ih.2.2⟩

theorem fold_singletons (g : Except Err (List (Tensor α)) → List (Tensor α) → Except Err (List (Tensor α)))
    (hg : ∀ cur c r, cur.add c = .ok r → g (.ok [cur]) [c] = .ok [r]) :
    ∀ (rest : List (Tensor α)) (cur : Tensor α), cur.Wf → (∀ t ∈ rest, t.Wf ∧ t.shape = cur.shape) →
      (rest.map (fun t => [t])).foldl g (.ok [cur]) = .ok [sumT cur rest]
  | [], cur, _, _ => rfl
  | t :: ts, cur, hc, h => by
    obtain ⟨r, hr, hs, hw, _⟩ := C15.add_spec cur t hc (h t (by simp)).1 (h t (by simp)).2.symm
    simp only [List.map_cons, List.foldl_cons, hg cur t r hr]
    rw [fold_singletons g hg ts r hw (fun x hx => ⟨(h x (by simp [hx])).1, by rw [hs]; exact (h x (by simp [hx])).2⟩)]
    simp [sumT, hr, Except.toOption]

/-- **the value a mean-coupled group receives**: for copies holding one tensor each (a dense layer's weights, or its bias)
    of one shape, `couple .mean` answers ONE tensor of that shape whose elements are the left-to-right sum of the copies'
    elements divided — once — by the number of copies -/
theorem couple_mean_value (w0 : Tensor α) (ws : List (Tensor α)) (h0 : w0.Wf) (h : ∀ t ∈ ws, t.Wf ∧ t.shape = w0.shape) :
    ∃ r, couple .mean ((w0 :: ws).map (fun t => [t])) = .ok [r] ∧ r.shape = w0.shape ∧ r.Wf ∧
      r.flat = (sumFlat w0.flat (ws.map Tensor.flat)).map (· / ofNat' (ws.length + 1)) := by
  obtain ⟨hs, hw, hf⟩ := sumT_spec ws w0 h0 h
  obtain ⟨ds, dw, df⟩ := C15.divScalar_spec (sumT w0 ws) (ofNat' (ws.length + 1)) hw
  refine ⟨(sumT w0 ws).divScalar (ofNat' (ws.length + 1)), ?_, ds.trans hs, dw, by rw [df, hf]⟩
  unfold couple
  simp only [List.map_cons]
  rw [fold_singletons _ _ ws w0 h0 h]
  · simp
  · intro cur c r hr
    simp [L.mapM', hr]

/-- … and an additively coupled group receives the left-to-right sum itself -/
theorem couple_add_value (w0 : Tensor α) (ws : List (Tensor α)) (h0 : w0.Wf) (h : ∀ t ∈ ws, t.Wf ∧ t.shape = w0.shape) :
    ∃ r, couple .add ((w0 :: ws).map (fun t => [t])) = .ok [r] ∧ r.shape = w0.shape ∧ r.Wf ∧
      r.flat = sumFlat w0.flat (ws.map Tensor.flat) := by
  obtain ⟨hs, hw, hf⟩ := sumT_spec ws w0 h0 h
  refine ⟨sumT w0 ws, ?_, hs, hw, hf⟩
  unfold couple
  simp only [List.map_cons]
  rw [fold_singletons _ _ ws w0 h0 h]
  · simp
  · intro cur c r hr
    simp [L.mapM', hr]

theorem filterMap_members (ls : List (InnerLayer α)) : ∀ (group : List Nat) (ds : List (DenseLayer α)),
    group.map (L.get? ls) = ds.map (fun d => some (InnerLayer.dense d)) →
    group.filterMap (fun i => (L.get? ls i).bind paramsOf) = ds.map (fun d => ([d.weights], d.bias))
  | [], [], _ => rfl
  | [], _ :: _, h => by simp at h
  | _ :: _, [], h => by simp at h
  | i :: is, d :: ds, h => by
    simp only [List.map_cons, List.cons.injEq] at h
    simp only [List.filterMap_cons, h.1, Option.bind_some, paramsOf, List.map_cons]
    rw [filterMap_members ls is ds h.2]

theorem biases_of_members : ∀ (ds : List (DenseLayer α)),
    (ds.map (fun d => (([d.weights], d.bias) : List (Tensor α) × Option (Tensor α)))).filterMap (·.2) = (ds.map (·.bias)).filterMap id
  | [] => rfl
  | d :: ds => by
    simp only [List.map_cons, List.filterMap_cons, id]
    cases d.bias <;> simp [biases_of_members ds]

theorem filterMap_id_some {β : Type} : ∀ (l : List β), (l.map some).filterMap id = l
  | [] => rfl
  | x :: xs => by simp [filterMap_id_some xs]

/-- **the value a mean-coupled group of dense layers receives** (`Feedback::update`'s re-coupling): if the group's positions
    hold dense layers `d₀, d₁, …` with well-formed weights of one shape and biases of one shape, the accumulated pair is
    `(left-to-right sum of the weights / count, left-to-right sum of the biases / count)` — each divided ONCE, by the number
    of copies; `recoupleGroup_spec` then says every copy is overwritten with exactly this pair -/
theorem groupParams_mean_dense (ls : List (InnerLayer α)) (i0 : Nat) (is : List Nat) (d0 : DenseLayer α) (ds : List (DenseLayer α))
    (b0 : Tensor α) (bs : List (Tensor α))
    (hg : (i0 :: is).map (L.get? ls) = (d0 :: ds).map (fun d => some (InnerLayer.dense d)))
    (hb : (d0 :: ds).map (·.bias) = (b0 :: bs).map some)
    (hw0 : d0.weights.Wf) (hw : ∀ d ∈ ds, d.weights.Wf ∧ d.weights.shape = d0.weights.shape)
    (hb0 : b0.Wf) (hbs : ∀ b ∈ bs, b.Wf ∧ b.shape = b0.shape) :
    ∃ rw rb, groupParams .mean ls (i0 :: is) = .ok (some ([rw], some rb)) ∧
      rw.shape = d0.weights.shape ∧ rb.shape = b0.shape ∧
      rw.flat = (sumFlat d0.weights.flat (ds.map (·.weights.flat))).map (· / ofNat' (ds.length + 1)) ∧
      rb.flat = (sumFlat b0.flat (bs.map Tensor.flat)).map (· / ofNat' (bs.length + 1)) := by
  have hlen : bs.length = ds.length := by
    have := congrArg List.length hb
    simpa using this.symm
  obtain ⟨rw, hrw, hsw, _, hfw⟩ := couple_mean_value d0.weights (ds.map (·.weights)) hw0 (by
    intro t ht; obtain ⟨d, hd, rfl⟩ := List.mem_map.1 ht; exact hw d hd)
  obtain ⟨rb, hrb, hsb, _, hfb⟩ := couple_mean_value b0 bs hb0 hbs
  refine ⟨rw, rb, ?_, hsw, hsb, by rw [hfw, List.length_map, List.map_map]; rfl, hfb⟩
  have hmem := filterMap_members ls (i0 :: is) (d0 :: ds) hg
  have hbias : ((d0 :: ds).map (fun d => (([d.weights], d.bias) : List (Tensor α) × Option (Tensor α)))).filterMap (·.2) = b0 :: bs := by
    rw [biases_of_members, hb, filterMap_id_some]
  have hany : (i0 :: is).any (fun i => (L.get? ls i).isNone) = false := by
    rw [List.any_eq_false]
    intro i hi
    have : L.get? ls i ∈ (i0 :: is).map (L.get? ls) := List.mem_map.2 ⟨i, hi, rfl⟩
    rw [hg] at this
    obtain ⟨d, _, hd⟩ := List.mem_map.1 this
    simp [← hd]
  have hw1 : ((d0 :: ds).map (fun d => (([d.weights], d.bias) : List (Tensor α) × Option (Tensor α)))).map (·.1)
      = (d0.weights :: ds.map (·.weights)).map (fun t => [t]) := by
    simp [List.map_map, Function.comp_def]
  unfold groupParams
  simp only [hmem]
  simp only [List.map_cons] at hw1 hbias hrw hrb ⊢
  simp only [hw1, hrw, hbias, List.map_cons, hrb, hany]
  simp

/-! non-vacuity: two dense copies `2 → 1` with bias, group `[0, 1]` -/
example (x y z : α) :
    let d : DenseLayer α := { inputs := .single 2, outputs := .single 1, loops := x, scale := id, weights := ⟨.double 1 2, .double [[x, y]]⟩, bias := some ⟨.single 1, .single [z]⟩, act := .tanh, dropout := none, training := false }
    ∃ rw rb, groupParams .mean [InnerLayer.dense d, InnerLayer.dense d] [0, 1] = .ok (some ([rw], some rb)) ∧
      rw.flat = [(x + x) / ofNat' 2, (y + y) / ofNat' 2] ∧ rb.flat = [(z + z) / ofNat' 2] := by
  intro d
  obtain ⟨rw, rb, h, -, -, h1, h2⟩ := groupParams_mean_dense [InnerLayer.dense d, InnerLayer.dense d] 0 [1] d [d]
    ⟨.single 1, .single [z]⟩ [⟨.single 1, .single [z]⟩] (by simp [L.get?]) (by simp [d]) (by simp [Tensor.Wf, d]) (by simp [Tensor.Wf, d])
    (by simp [Tensor.Wf]) (by simp [Tensor.Wf])
  exact ⟨rw, rb, h, by simpa [sumFlat, Tensor.flat, d] using h1, by simpa [sumFlat, Tensor.flat] using h2⟩

/-! non-vacuity: three well-formed copies of one shape -/
example (x y : α) : let w : Tensor α := ⟨.single 2, .single [x, y]⟩
    w.Wf ∧ ∀ t ∈ [w, w], t.Wf ∧ t.shape = w.shape := by
  simp [Tensor.Wf]

/-! non-vacuity: three loops of a two-layer block -/
example : (List.range 3).map (fun i => 1 + i * 2) = [1, 3, 5] := by decide
example : ∀ x, x ∈ (List.range 3).map (fun i => 0 + i * 2) → x ∉ (List.range 3).map (fun i => 1 + i * 2) :=
  groups_disjoint 2 3 0 1 (by decide) (by decide) (by decide)

end C10
