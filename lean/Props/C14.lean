import Model.Tensor
import Proofs.Reshape
import Proofs.TensorWf

/-!
# C14 — reshaping and flattening preserve the row-major element sequence

Statements are about the model functions `Tensor.flatten`, `Tensor.getFlat`, `Tensor.getTriple`,
`Tensor.reshape` (`Model/Tensor.lean`), for every scalar type `α`, every shape (including dimensions
of size 1) and all contents.
-/

set_option linter.unusedSectionVars false

namespace C14
variable {α : Type} [Scalar α]
open Tensor

/-- `get_flat` of a well-formed vector or 3-D tensor is its row-major sequence -/
theorem getFlat_spec (t : Tensor α) (h : match t.data with | .single _ => True | .triple _ => True | _ => False) :
    t.getFlat = .ok t.flat := by
  unfold getFlat flat
  cases hd : t.data <;> simp_all

/-- flattening a 3-D tensor keeps the row-major sequence and the element count and records the shape
    of the data it holds (`c, h ≥ 1`: the Rust code reads `data[0][0]`) -/
theorem flatten_spec (c h w : Nat) (d : V3 α) (hd : L.Dims3 d c h w) (hc : 0 < c) (hh : 0 < h) :
    ∃ r, (⟨.triple c h w, .triple d⟩ : Tensor α).flatten = .ok r ∧
      r.shape = .single (c * h * w) ∧ r.Wf ∧ r.flat = L.flatten3 d := by
  obtain ⟨hc', hm⟩ := hd
  match d, hc', hm with
  | m :: ms, hc', hm =>
    have hm0 := (hm m (List.mem_cons_self ..)).1
    match m, hm0 with
    | r0 :: rs, _ =>
      refine ⟨⟨.single (L.flatten3 ((r0 :: rs) :: ms)).length, .single (L.flatten3 ((r0 :: rs) :: ms))⟩, rfl, ?_, ?_, rfl⟩
      · simp only [L.length_flatten3 _ c h w ⟨hc', hm⟩]
      · simp [Wf]
    | [], hm0 => simp at hm0; omega
  | [], hc', _ => simp at hc'; omega

/-- reading a vector as `c × h × w` yields exactly those dimensions and the same sequence -/
theorem getTriple_spec (c h w : Nat) (v : V1 α) (hv : v.length = c * h * w) :
    ∃ d, (Tensor.single v).getTriple (.triple c h w) = .ok d ∧ L.Dims3 d c h w ∧ L.flatten3 d = v := by
  obtain ⟨t, h1, h2, h3⟩ := L.toTriple_exact c h w v hv
  exact ⟨t, by simp [getTriple, Tensor.single, h1], h2, h3⟩

/-- vector → 3-D with the same element count: accepted; sequence, count and recorded shape are right -/
theorem reshape_vec_to_3d (c h w : Nat) (v : V1 α) (hv : v.length = c * h * w) :
    ∃ r, (⟨.single v.length, .single v⟩ : Tensor α).reshape (.triple c h w) = .ok r ∧
      r.shape = .triple c h w ∧ r.Wf ∧ r.flat = v := by
  obtain ⟨t, h1, h2, h3⟩ := L.toTriple_exact c h w v hv
  refine ⟨⟨.triple c h w, .triple t⟩, ?_, rfl, ?_, ?_⟩
  · simp [reshape, getFlat, hv, h1]
  · simpa [Wf] using h2
  · simpa [flat] using h3

/-- 3-D → 3-D with the same element count -/
theorem reshape_3d_to_3d (c h w c' h' w' : Nat) (d : V3 α) (hd : L.Dims3 d c h w)
    (hn : c * h * w = c' * h' * w') :
    ∃ r, (⟨.triple c h w, .triple d⟩ : Tensor α).reshape (.triple c' h' w') = .ok r ∧
      r.shape = .triple c' h' w' ∧ r.Wf ∧ r.flat = L.flatten3 d := by
  have hl : (L.flatten3 d).length = c' * h' * w' := by rw [L.length_flatten3 d c h w hd, hn]
  obtain ⟨t, h1, h2, h3⟩ := L.toTriple_exact c' h' w' (L.flatten3 d) hl
  refine ⟨⟨.triple c' h' w', .triple t⟩, ?_, rfl, ?_, ?_⟩
  · simp [reshape, getFlat, hn, h1]
  · simpa [Wf] using h2
  · simpa [flat] using h3

/-- 3-D → vector with the same element count -/
theorem reshape_3d_to_vec (c h w n : Nat) (d : V3 α) (hd : L.Dims3 d c h w) (hc : 0 < c) (hh : 0 < h)
    (hn : c * h * w = n) :
    ∃ r, (⟨.triple c h w, .triple d⟩ : Tensor α).reshape (.single n) = .ok r ∧
      r.shape = .single n ∧ r.Wf ∧ r.flat = L.flatten3 d := by
  obtain ⟨r, h1, h2, h3, h4⟩ := flatten_spec c h w d hd hc hh
  refine ⟨r, ?_, by rw [h2, hn], h3, h4⟩
  simp [reshape, hn, h1]

/-- a reshape to a different element count is refused, in all three arms -/
theorem reshape_rejects_vec_to_3d (n c h w : Nat) (d : Data α) (hn : n ≠ c * h * w) :
    (⟨.single n, d⟩ : Tensor α).reshape (.triple c h w) = .error .shape := by
  simp [reshape, hn]

theorem reshape_rejects_3d_to_3d (c h w c' h' w' : Nat) (d : Data α) (hn : c * h * w ≠ c' * h' * w') :
    (⟨.triple c h w, d⟩ : Tensor α).reshape (.triple c' h' w') = .error .shape := by
  simp [reshape, hn]

theorem reshape_rejects_3d_to_vec (c h w n : Nat) (d : Data α) (hn : c * h * w ≠ n) :
    (⟨.triple c h w, d⟩ : Tensor α).reshape (.single n) = .error .shape := by
  simp [reshape, hn]

/-- there and back again is the identity (vector → 3-D → vector) -/
theorem reshape_round_trip_vec (c h w : Nat) (v : V1 α) (hv : v.length = c * h * w) (hc : 0 < c) (hh : 0 < h) :
    ∃ r r', (⟨.single v.length, .single v⟩ : Tensor α).reshape (.triple c h w) = .ok r ∧
      r.reshape (.single v.length) = .ok r' ∧ r' = ⟨.single v.length, .single v⟩ := by
  obtain ⟨t, h1, h2, h3⟩ := L.toTriple_exact c h w v hv
  have e1 : (⟨.single v.length, .single v⟩ : Tensor α).reshape (.triple c h w) = .ok ⟨.triple c h w, .triple t⟩ := by
    simp [reshape, getFlat, hv, h1]
  obtain ⟨r', f1, f2, f3, f4⟩ := reshape_3d_to_vec c h w v.length t h2 hc hh hv.symm
  refine ⟨_, r', e1, f1, ?_⟩
  obtain ⟨s, dd⟩ := r'
  simp at f2; subst f2
  cases dd with
  | single x => simp [flat] at f4; rw [f4, h3]
  | double x => simp [Wf] at f3
  | triple x => simp [Wf] at f3
  | quadruple x => simp [Wf] at f3

/-- there and back again is the identity (3-D → 3-D → 3-D) -/
theorem reshape_round_trip_3d (c h w c' h' w' : Nat) (d : V3 α) (hd : L.Dims3 d c h w)
    (hn : c * h * w = c' * h' * w') :
    ∃ r r', (⟨.triple c h w, .triple d⟩ : Tensor α).reshape (.triple c' h' w') = .ok r ∧
      r.reshape (.triple c h w) = .ok r' ∧ r'.shape = .triple c h w ∧ r'.Wf ∧ r'.flat = L.flatten3 d := by
  obtain ⟨r, h1, h2, h3, h4⟩ := reshape_3d_to_3d c h w c' h' w' d hd hn
  obtain ⟨s, dd⟩ := r
  simp at h2; subst h2
  cases dd with
  | triple x =>
    simp [Wf] at h3
    obtain ⟨r', g1, g2, g3, g4⟩ := reshape_3d_to_3d c' h' w' c h w x h3 hn.symm
    simp [flat] at h4
    exact ⟨_, r', h1, g1, g2, g3, by rw [g4, h4]⟩
  | single x => simp [Wf] at h3
  | double x => simp [Wf] at h3
  | quadruple x => simp [Wf] at h3

/-- row-major means: two well-formed 3-D tensors of the same dimensions with the same flat sequence
    are equal — so "same sequence" in the theorems above pins down every element's position -/
theorem dims3_flat_injective (c h w : Nat) (a b : V3 α) (ha : L.Dims3 a c h w) (hb : L.Dims3 b c h w)
    (hf : L.flatten3 a = L.flatten3 b) : a = b := by
  have key : ∀ (x : V3 α), L.Dims3 x c h w → L.toTriple c h w (L.flatten3 x) = .ok x := by
    intro x hx
    obtain ⟨hc, hm⟩ := hx
    unfold L.toTriple
    suffices hs : ∀ (k : Nat) (x : V3 α) (rest : List α), x.length = k →
        (∀ m ∈ x, m.length = h ∧ ∀ r ∈ m, r.length = w) →
        L.takeMats h w k (L.flatten3 x ++ rest) = .ok (x, rest) by
      have := hs c x [] hc hm
      simp at this; simp [this]
    intro k
    induction k with
    | zero => intro x rest hx _; cases x <;> simp_all [L.takeMats, L.flatten3]
    | succ k ih =>
      intro x rest hx hm
      match x, hx with
      | m :: ms, hx =>
        have hm0 := hm m (List.mem_cons_self ..)
        have rows : ∀ (j : Nat) (m : V2 α) (rest : List α), m.length = j → (∀ r ∈ m, r.length = w) →
            L.takeRows w j (m.flatten ++ rest) = .ok (m, rest) := by
          intro j
          induction j with
          | zero => intro m rest hm _; cases m <;> simp_all [L.takeRows]
          | succ j ihj =>
            intro m rest hmj hr
            match m, hmj with
            | r :: rs, hmj =>
              have hr0 := hr r (List.mem_cons_self ..)
              unfold L.takeRows
              have : ¬ (((r :: rs).flatten ++ rest).length < w) := by simp; omega
              simp only [this, if_false]
              have e1 : List.drop w ((r :: rs).flatten ++ rest) = rs.flatten ++ rest := by
                simp [List.append_assoc]
                rw [List.drop_append_of_le_length (by omega)]
                simp [← hr0]
              have e2 : List.take w ((r :: rs).flatten ++ rest) = r := by
                simp [List.append_assoc]
                rw [List.take_append_of_le_length (by omega)]
                simp [← hr0]
              rw [e1, e2, ihj rs rest (by simpa using hmj) (fun x hx => hr x (List.mem_cons_of_mem _ hx))]
        unfold L.takeMats
        have e : L.flatten3 (m :: ms) ++ rest = m.flatten ++ (L.flatten3 ms ++ rest) := by
          simp [L.flatten3, List.append_assoc]
        rw [e, rows h m _ hm0.1 hm0.2]
        simp only
        rw [ih ms rest (by simpa using hx) (fun x hx => hm x (List.mem_cons_of_mem _ hx))]
  have h2 := key a ha
  have h3 := key b hb
  rw [hf] at h2
  rw [h2] at h3
  exact (Except.ok.inj h3)

/-! non-vacuity: concrete instances of the hypotheses -/
example : L.Dims3 ([[[1, 2, 3], [4, 5, 6]]] : V3 Nat) 1 2 3 := by
  refine ⟨rfl, ?_⟩; intro m hm; simp at hm; subst hm; refine ⟨rfl, ?_⟩; intro r hr; simp at hr; rcases hr with h | h <;> subst h <;> rfl
example : L.toTriple 3 1 2 [1, 2, 3, 4, 5, 6] = .ok [[[1, 2]], [[3, 4]], [[5, 6]]] := by rfl
example : L.toTriple 2 2 2 [1, 2, 3, 4, 5, 6] = .error .index := by rfl

omit [Scalar α] in
/-- **row-major, position by position**: element `(i, j, k)` of a well-formed `c × h × w` tensor is
    element `i·(h·w) + j·w + k` of its flat sequence (what `flatten` / `get_flat` hand on) -/
theorem flat_position (c h w : Nat) (d : V3 α) (hd : L.Dims3 d c h w) (i j k : Nat) (hj : j < h) (hk : k < w) :
    (⟨.triple c h w, .triple d⟩ : Tensor α).flat[i * (h * w) + (j * w + k)]? =
      ((d[i]?).bind (·[j]?)).bind (·[k]?) := by
  simpa [flat] using L.flatten3_getElem? d c h w hd i j k hj hk

/-- a 3-D → 3-D reshape moves no element along the sequence: whatever sits at `(i, j, k)` of the
    source sits at every `(i', j', k')` of the result with the same row-major position -/
theorem reshape_3d_to_3d_positions (c h w c' h' w' : Nat) (d : V3 α) (hd : L.Dims3 d c h w)
    (hn : c * h * w = c' * h' * w') :
    ∃ d', (⟨.triple c h w, .triple d⟩ : Tensor α).reshape (.triple c' h' w') = .ok ⟨.triple c' h' w', .triple d'⟩ ∧
      ∀ i j k i' j' k', j < h → k < w → j' < h' → k' < w' →
        i * (h * w) + (j * w + k) = i' * (h' * w') + (j' * w' + k') →
        ((d'[i']?).bind (·[j']?)).bind (·[k']?) = ((d[i]?).bind (·[j]?)).bind (·[k]?) := by
  obtain ⟨r, h1, h2, h3, h4⟩ := reshape_3d_to_3d c h w c' h' w' d hd hn
  obtain ⟨s, dd⟩ := r
  simp at h2; subst h2
  cases dd with
  | triple x =>
    simp [Wf] at h3
    simp [flat] at h4
    refine ⟨x, h1, ?_⟩
    intro i j k i' j' k' hj hk hj' hk' e
    rw [← L.flatten3_getElem? x c' h' w' h3 i' j' k' hj' hk', ← L.flatten3_getElem? d c h w hd i j k hj hk, h4, e]
  | single x => simp [Wf] at h3
  | double x => simp [Wf] at h3
  | quadruple x => simp [Wf] at h3

omit [Scalar α] in
/-- vector → 3-D: element `(i, j, k)` of the result is element `i·(h·w) + j·w + k` of the vector -/
theorem reshape_vec_to_3d_positions (c h w : Nat) (v : V1 α) (hv : v.length = c * h * w) :
    ∃ d', (⟨.single v.length, .single v⟩ : Tensor α).reshape (.triple c h w) = .ok ⟨.triple c h w, .triple d'⟩ ∧
      ∀ i j k, j < h → k < w →
        ((d'[i]?).bind (·[j]?)).bind (·[k]?) = v[i * (h * w) + (j * w + k)]? := by
  obtain ⟨t, h1, h2, h3⟩ := L.toTriple_exact c h w v hv
  refine ⟨t, by simp [reshape, getFlat, hv, h1], ?_⟩
  intro i j k hj hk
  rw [← L.flatten3_getElem? t c h w h2 i j k hj hk, h3]

/-- non-vacuity: a 2 × 2 × 3 tensor, element (1, 0, 2) at position 1·6 + 0·3 + 2 = 8 -/
example : (L.flatten3 [[[0, 1, 2], [3, 4, 5]], [[6, 7, 8], [9, 10, 11]]] : List Nat)[1 * (2 * 3) + (0 * 3 + 2)]? = some 8 := by decide

/-- reading a vector as `c × h × w` (`get_triple`, the entry of every spatial layer fed a flat input):
    element `(i, j, k)` of what is read is element `i·(h·w) + j·w + k` of the vector -/
theorem getTriple_positions (c h w : Nat) (v : V1 α) (hv : v.length = c * h * w) :
    ∃ d, (Tensor.single v).getTriple (.triple c h w) = .ok d ∧
      ∀ i j k, j < h → k < w → ((d[i]?).bind (·[j]?)).bind (·[k]?) = v[i * (h * w) + (j * w + k)]? := by
  obtain ⟨d, h1, h2, h3⟩ := getTriple_spec c h w v hv
  refine ⟨d, h1, ?_⟩
  intro i j k hj hk
  rw [← L.flatten3_getElem? d c h w h2 i j k hj hk, h3]

/-- `flatten` (what a dense layer receives from a spatial one): position `i·(h·w) + j·w + k` of the
    result holds element `(i, j, k)` -/
theorem flatten_positions (c h w : Nat) (d : V3 α) (hd : L.Dims3 d c h w) (hc : 0 < c) (hh : 0 < h) :
    ∃ r, (⟨.triple c h w, .triple d⟩ : Tensor α).flatten = .ok r ∧
      ∀ i j k, j < h → k < w → r.flat[i * (h * w) + (j * w + k)]? = ((d[i]?).bind (·[j]?)).bind (·[k]?) := by
  obtain ⟨r, h1, _, _, h4⟩ := flatten_spec c h w d hd hc hh
  refine ⟨r, h1, ?_⟩
  intro i j k hj hk
  rw [h4, L.flatten3_getElem? d c h w hd i j k hj hk]

end C14
