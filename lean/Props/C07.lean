import Model.Activation
import Proofs.Real
import Proofs.Sums
import Proofs.TensorWf
import Proofs.Zip

/-!
# C07 — activations: defined function, exact derivative, ranges, soft-max laws

All statements are about the model functions `Act.f`, `Act.df`, `Act.softmaxL`, `Act.forward`
(`Model/Activation.lean`) instantiated at `ℝ`.  What is *not* a theorem: totality and the closed
ranges on all 2^32 binary32 bit patterns — that is swept exhaustively on the implementation by the
thorough tier of `./check C07`.
-/

set_option linter.unusedSectionVars false

namespace C07
open Act Scalar RealScalar

/-! ### the defined functions -/

theorem relu_def (x : ℝ) : Act.f .relu x = max x 0 := by
  simp only [Act.f]; exact fmax_eq x 0

theorem alpha_def : (Act.alpha : ℝ) = 1 / 100 := by
  unfold Act.alpha; rw [lit_eq]; norm_num

theorem leaky_def (x : ℝ) : Act.f .leaky x = if 0 < x then x else (1 / 100) * x := by
  simp only [Act.f, alpha_def]
  by_cases h : (0 : ℝ) < x <;> simp [h]

theorem sigmoid_def (x : ℝ) : Act.f .sigmoid x = 1 / (1 + Real.exp (-x)) := rfl
theorem tanh_def (x : ℝ) : Act.f .tanh x = Real.tanh x := rfl
theorem linear_def (x : ℝ) : Act.f .linear x = x := rfl

/-! ### backward is the derivative of forward -/

theorem relu_hasDerivAt (x : ℝ) (hx : x ≠ 0) : HasDerivAt (Act.f .relu) (Act.df .relu x) x := by
  rcases lt_or_gt_of_ne hx with h | h
  · -- x < 0: locally the zero function
    have : Act.df .relu x = (0 : ℝ) := by simp [Act.df, not_lt.mpr h.le]
    rw [this]
    refine (hasDerivAt_const x (0 : ℝ)).congr_of_eventuallyEq ?_
    filter_upwards [Iio_mem_nhds h] with y hy
    rw [relu_def]; exact max_eq_right (le_of_lt (Set.mem_Iio.mp hy))
  · have : Act.df .relu x = (1 : ℝ) := by simp [Act.df, h]
    rw [this]
    refine (hasDerivAt_id x).congr_of_eventuallyEq ?_
    filter_upwards [Ioi_mem_nhds h] with y hy
    rw [relu_def]; exact max_eq_left (le_of_lt (Set.mem_Ioi.mp hy))

/-- at the kink the code returns 0 (ReLU) and the slope 0.01 (leaky ReLU) -/
theorem relu_backward_at_zero : Act.df .relu (0 : ℝ) = 0 := by simp [Act.df]
theorem leaky_backward_at_zero : Act.df .leaky (0 : ℝ) = 1 / 100 := by simp [Act.df, alpha_def]

theorem leaky_hasDerivAt (x : ℝ) (hx : x ≠ 0) : HasDerivAt (Act.f .leaky) (Act.df .leaky x) x := by
  rcases lt_or_gt_of_ne hx with h | h
  · have : Act.df .leaky x = (1 / 100 : ℝ) := by simp [Act.df, not_lt.mpr h.le, alpha_def]
    rw [this]
    have hd : HasDerivAt (fun y : ℝ => (1 / 100 : ℝ) * y) (1 / 100) x := by
      simpa using (hasDerivAt_id x).const_mul (1 / 100 : ℝ)
    refine hd.congr_of_eventuallyEq ?_
    filter_upwards [Iio_mem_nhds h] with y hy
    have hy' : y < 0 := hy
    rw [leaky_def]; simp [not_lt.mpr hy'.le]
  · have : Act.df .leaky x = (1 : ℝ) := by simp [Act.df, h]
    rw [this]
    refine (hasDerivAt_id x).congr_of_eventuallyEq ?_
    filter_upwards [Ioi_mem_nhds h] with y hy
    have hy' : 0 < y := hy
    rw [leaky_def]; simp [hy']

theorem sigmoid_hasDerivAt (x : ℝ) : HasDerivAt (Act.f .sigmoid) (Act.df .sigmoid x) x := by
  have hpos : (1 : ℝ) + Real.exp (-x) ≠ 0 := by positivity
  have h1 : HasDerivAt (fun v : ℝ => 1 + Real.exp (-v)) (-Real.exp (-x)) x := by
    have := ((hasDerivAt_id x).neg).exp
    simpa using this.const_add 1
  have h2 := (hasDerivAt_const x (1 : ℝ)).div h1 hpos
  have e : Act.df .sigmoid x = (0 * (1 + Real.exp (-x)) - 1 * -Real.exp (-x)) / (1 + Real.exp (-x)) ^ 2 := by
    simp only [Act.df, Act.sigmoidS, exp_eq]
    field_simp
    ring
  rw [e]
  exact h2

theorem tanh_hasDerivAt (x : ℝ) : HasDerivAt (Act.f .tanh) (Act.df .tanh x) x := by
  have h : HasDerivAt Real.tanh (1 / Real.cosh x ^ 2) x := by
    have hc : Real.cosh x ≠ 0 := (Real.cosh_pos x).ne'
    have := (Real.hasDerivAt_sinh x).div (Real.hasDerivAt_cosh x) hc
    have e : (Real.cosh x * Real.cosh x - Real.sinh x * Real.sinh x) / Real.cosh x ^ 2 = 1 / Real.cosh x ^ 2 := by
      have := Real.cosh_sq x
      congr 1; nlinarith [Real.cosh_sq x]
    rw [e] at this
    refine this.congr_of_eventuallyEq ?_
    filter_upwards with y
    exact Real.tanh_eq_sinh_div_cosh y
  have e : Act.df .tanh x = 1 / Real.cosh x ^ 2 := by simp [Act.df, sq_eq]
  rw [e]; exact h

theorem linear_hasDerivAt (x : ℝ) : HasDerivAt (Act.f .linear) (Act.df .linear x) x := by
  have e : Act.df .linear x = (1 : ℝ) := rfl
  rw [e]
  exact hasDerivAt_id x

/-! ### ranges -/

theorem sigmoid_range (x : ℝ) : 0 < Act.f .sigmoid x ∧ Act.f .sigmoid x < 1 := by
  rw [sigmoid_def]
  have h : 0 < Real.exp (-x) := Real.exp_pos _
  constructor
  · positivity
  · rw [div_lt_one (by positivity)]; linarith

theorem tanh_range (x : ℝ) : -1 < Act.f .tanh x ∧ Act.f .tanh x < 1 :=
  ⟨Real.neg_one_lt_tanh x, Real.tanh_lt_one x⟩

theorem sigmoid_backward_range (x : ℝ) : 0 < Act.df .sigmoid x ∧ Act.df .sigmoid x ≤ 1 / 4 := by
  have ⟨h0, h1⟩ := sigmoid_range x
  simp only [Act.f] at h0 h1
  simp only [Act.df]
  constructor
  · exact mul_pos h0 (by linarith)
  · nlinarith [sq_nonneg (Act.sigmoidS x - 1 / 2)]

/-! ### shape: both rank copies apply the function to every element and keep the shape -/

variable {α : Type} [Scalar α]

theorem mapAct_single (g : α → α) (d : V1 α) :
    Act.mapAct g (⟨.single d.length, .single d⟩ : Tensor α) = .ok ⟨.single d.length, .single (d.map g)⟩ := rfl

theorem mapAct_triple (g : α → α) (c h w : Nat) (d : V3 α) (hd : L.Dims3 d c h w) (hc : 0 < c) (hh : 0 < h) :
    ∃ r, Act.mapAct g (⟨.triple c h w, .triple d⟩ : Tensor α) = .ok r ∧ r.shape = .triple c h w ∧ r.Wf ∧
      r.flat = (L.flatten3 d).map g := by
  obtain ⟨hc', hm⟩ := hd
  match d, hc', hm with
  | m :: ms, hc', hm =>
    have hm0 := hm m (List.mem_cons_self ..)
    match m, hm0 with
    | r0 :: rs, hm0 =>
      have hr0 := hm0.2 r0 (List.mem_cons_self ..)
      refine ⟨⟨.triple ((r0 :: rs) :: ms).length (r0 :: rs).length r0.length, .triple (L.map3 g ((r0 :: rs) :: ms))⟩, rfl, ?_, ?_, ?_⟩
      · simp only [hc', hm0.1, hr0]
      · have := L.map3_dims g ((r0 :: rs) :: ms) c h w ⟨hc', hm⟩
        simp only [Tensor.Wf, hc', hm0.1, hr0]; exact this
      · exact L.map3_flat g _
    | [], hm0 => simp at hm0; omega
  | [], hc', _ => simp at hc'; omega

/-- the 3-D copy and the flat copy compute the same values (rank-independence of the element-wise
    activations): forward on the flattening = flattening of forward -/
theorem triple_eq_single (a : Act) (ha : a ≠ .softmax) (ha' : a ≠ .linear) (c h w : Nat) (d : V3 α)
    (hd : L.Dims3 d c h w) (hc : 0 < c) (hh : 0 < h) :
    ∃ r3 r1, a.forward (⟨.triple c h w, .triple d⟩ : Tensor α) = .ok r3 ∧
      a.forward (Tensor.single (L.flatten3 d)) = .ok r1 ∧ r3.flat = r1.flat := by
  obtain ⟨r, h1, _, _, h4⟩ := mapAct_triple (Act.f a) c h w d hd hc hh
  refine ⟨r, ⟨.single (L.flatten3 d).length, .single ((L.flatten3 d).map (Act.f a))⟩, ?_, ?_, ?_⟩
  · cases a <;> simp_all [Act.forward]
  · cases a <;> simp_all [Act.forward, Tensor.single, Act.mapAct]
  · rw [h4]; rfl

/-! ### soft-max -/

/-- the model's max-subtracted soft-max equals the mathematical `exp xᵢ / Σⱼ exp xⱼ`, whatever the
    value subtracted — in particular shift by the maximum changes nothing -/
theorem sum_exp_shift (x : List ℝ) (c : ℝ) :
    (x.map (fun v => Real.exp (v + c))).sum = Real.exp c * (x.map Real.exp).sum := by
  induction x with
  | nil => simp
  | cons y ys ih => simp only [List.map_cons, List.sum_cons]; rw [ih, Real.exp_add]; ring

theorem softmax_eq_math (x : List ℝ) :
    Act.softmaxL x = x.map (fun v => Real.exp v / (x.map Real.exp).sum) := by
  unfold Act.softmaxL
  simp only [exp_eq]
  generalize x.foldl Scalar.fmax Scalar.negInf = mx
  rw [Sums.foldl_add, zero_add, List.map_map]
  have hs : (x.map (fun v => Real.exp (v - mx))).sum = Real.exp (-mx) * (x.map Real.exp).sum := by
    have := sum_exp_shift x (-mx)
    simpa [sub_eq_add_neg] using this
  apply List.map_congr_left
  intro v _
  simp only [Function.comp]
  rw [hs, sub_eq_add_neg, Real.exp_add]
  have : Real.exp (-mx) ≠ 0 := (Real.exp_pos _).ne'
  field_simp

theorem sum_exp_pos (x : List ℝ) (hx : x ≠ []) : 0 < (x.map Real.exp).sum := by
  cases x with
  | nil => exact absurd rfl hx
  | cons y ys =>
    simp only [List.map_cons, List.sum_cons]
    have : 0 ≤ (ys.map Real.exp).sum := by
      apply List.sum_nonneg
      intro v hv
      simp at hv
      obtain ⟨a, _, rfl⟩ := hv
      exact (Real.exp_pos a).le
    linarith [Real.exp_pos y]

theorem softmax_pos (x : List ℝ) (hx : x ≠ []) : ∀ p ∈ Act.softmaxL x, 0 < p := by
  rw [softmax_eq_math]
  intro p hp
  simp at hp
  obtain ⟨v, _, rfl⟩ := hp
  exact div_pos (Real.exp_pos v) (sum_exp_pos x hx)

theorem softmax_sum_one (x : List ℝ) (hx : x ≠ []) : (Act.softmaxL x).sum = 1 := by
  rw [softmax_eq_math]
  have hpos := sum_exp_pos x hx
  have : ∀ (l : List ℝ) (s : ℝ), (l.map (fun v => Real.exp v / s)).sum = (l.map Real.exp).sum / s := by
    intro l s
    induction l with
    | nil => simp
    | cons y ys ih => simp only [List.map_cons, List.sum_cons, ih]; ring
  rw [this, div_self hpos.ne']

theorem softmax_length (x : List ℝ) : (Act.softmaxL x).length = x.length := by
  rw [softmax_eq_math]; simp

/-- adding a constant to every input does not change the output -/
theorem softmax_shift_invariant (x : List ℝ) (c : ℝ) :
    Act.softmaxL (x.map (· + c)) = Act.softmaxL x := by
  rw [softmax_eq_math, softmax_eq_math, List.map_map, List.map_map]
  have e : (x.map (Real.exp ∘ fun x => x + c)) = x.map (fun v => Real.exp (v + c)) := rfl
  rw [e, sum_exp_shift x c]
  apply List.map_congr_left
  intro v _
  simp only [Function.comp]
  rw [Real.exp_add]
  have : Real.exp c ≠ 0 := (Real.exp_pos _).ne'
  field_simp

/-- the denominator the code divides by is positive, so no division by zero for any real input -/
theorem softmax_denominator_pos (x : List ℝ) (hx : x ≠ []) (mx : ℝ) :
    0 < (x.map (fun v => Real.exp (v - mx))).foldl (· + ·) 0 := by
  rw [Sums.foldl_add, zero_add]
  cases x with
  | nil => exact absurd rfl hx
  | cons y ys =>
    simp only [List.map_cons, List.sum_cons]
    have : 0 ≤ (ys.map (fun v => Real.exp (v - mx))).sum := by
      apply List.sum_nonneg
      intro v hv
      simp at hv
      obtain ⟨a, _, rfl⟩ := hv
      exact (Real.exp_pos _).le
    linarith [Real.exp_pos (y - mx)]

/-! non-vacuity -/
example : Act.f .relu (2 : ℝ) = 2 := by rw [relu_def]; norm_num
example : Act.f .leaky (-2 : ℝ) = -(1 / 50) := by rw [leaky_def]; norm_num
example : (2 : ℝ) ≠ 0 := by norm_num

end C07
