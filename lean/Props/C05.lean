import Model.Train
import Proofs.Chunks

/-!
# C05 — results are independent of thread count and scheduling

What a theorem can carry: the code's parallel constructs are *indexed* collects (`par_chunks`,
`into_par_iter().map().collect()`, `flat_map().collect()`).  rayon's contract for these is that the
result of task `i` lands in position `i`, however the tasks are split among threads and in whatever
order they complete.  `parMapCollect` models exactly this: an arbitrary completion order (any list of
indices in which every index occurs), each completion writing its own slot.  Under the contract the
result is the sequential `map` — for **every** schedule — so everything computed from it (gradient
sums, losses, accuracies, predictions) is schedule-independent.

Not a theorem (named partial): rayon's real work-stealing scheduler and that it honours the contract;
explored on the implementation with thread pools of 1…33 threads and schedule jitter.
-/

set_option linter.unusedSectionVars false

namespace C05

variable {β γ : Type}

/-- one task completes: its result is written to its own slot -/
def complete (f : β → γ) (xs : List β) (slots : List (Option γ)) (i : Nat) : List (Option γ) :=
  match L.get? xs i with
  | some x => L.modAt (fun _ => some (f x)) slots i
  | none => slots

/-- an indexed parallel collect under the contract: `order` is the completion order of the tasks -/
def parMapCollect (order : List Nat) (f : β → γ) (xs : List β) : List (Option γ) :=
  order.foldl (complete f xs) (List.replicate xs.length none)

theorem get?_replicate (n : Nat) (v : γ) : ∀ i, i < n → L.get? (List.replicate n v) i = some v := by
  induction n with
  | zero => intro i h; omega
  | succ n ih =>
    intro i h
    cases i with
    | zero => rfl
    | succ i => simp only [List.replicate_succ, L.get?]; exact ih i (by omega)

theorem length_modAt (g : γ → γ) : ∀ (l : List γ) (i : Nat), (L.modAt g l i).length = l.length
  | [], _ => rfl
  | _ :: _, 0 => rfl
  | _ :: ys, n+1 => by simp [L.modAt, length_modAt g ys n]

theorem get?_modAt_same (g : γ → γ) : ∀ (l : List γ) (i : Nat), L.get? (L.modAt g l i) i = (L.get? l i).map g
  | [], _ => rfl
  | _ :: _, 0 => rfl
  | _ :: ys, n+1 => by simp [L.modAt, L.get?, get?_modAt_same g ys n]

theorem get?_modAt_other (g : γ → γ) : ∀ (l : List γ) (i j : Nat), i ≠ j → L.get? (L.modAt g l i) j = L.get? l j
  | [], _, _, _ => rfl
  | _ :: _, 0, 0, h => absurd rfl h
  | _ :: _, 0, _+1, _ => rfl
  | _ :: _, _+1, 0, _ => rfl
  | _ :: ys, n+1, m+1, h => by
    simp only [L.modAt, L.get?]
    exact get?_modAt_other g ys n m (fun e => h (by rw [e]))

/-- invariant of the completion loop: every slot is either still empty or already holds its own
    task's result, and the slots of completed tasks are filled -/
theorem slots_invariant (f : β → γ) (xs : List β) : ∀ (order : List Nat) (slots : List (Option γ)),
    slots.length = xs.length →
    (∀ i x, L.get? xs i = some x → L.get? slots i = some none ∨ L.get? slots i = some (some (f x))) →
    let r := order.foldl (complete f xs) slots
    r.length = xs.length ∧
    (∀ i x, L.get? xs i = some x → L.get? r i = some none ∨ L.get? r i = some (some (f x))) ∧
    (∀ i x, L.get? xs i = some x → (i ∈ order ∨ L.get? slots i = some (some (f x))) → L.get? r i = some (some (f x))) := by
  intro order
  induction order with
  | nil =>
    intro slots hl hinv
    refine ⟨hl, hinv, ?_⟩
    intro i x hx h
    cases h with
    | inl h => simp at h
    | inr h => exact h
  | cons j rest ih =>
    intro slots hl hinv
    simp only [List.foldl_cons]
    have hl' : (complete f xs slots j).length = xs.length := by
      unfold complete; split
      · rw [length_modAt]; exact hl
      · exact hl
    have hinv' : ∀ i x, L.get? xs i = some x →
        L.get? (complete f xs slots j) i = some none ∨ L.get? (complete f xs slots j) i = some (some (f x)) := by
      intro i x hx
      unfold complete
      split
      · rename_i y hy
        by_cases hij : j = i
        · subst hij
          rw [hx] at hy; cases hy
          right
          rw [get?_modAt_same]
          cases hinv j x hx with
          | inl h => simp [h]
          | inr h => simp [h]
        · rw [get?_modAt_other _ _ _ _ hij]; exact hinv i x hx
      · exact hinv i x hx
    obtain ⟨a, b, c⟩ := ih (complete f xs slots j) hl' hinv'
    refine ⟨a, b, ?_⟩
    intro i x hx h
    apply c i x hx
    cases h with
    | inl h =>
      simp only [List.mem_cons] at h
      cases h with
      | inl e =>
        right
        subst e
        unfold complete
        rw [hx]
        simp only []
        rw [get?_modAt_same]
        cases hinv i x hx with
        | inl h => simp [h]
        | inr h => simp [h]
      | inr e => left; exact e
    | inr h =>
      right
      unfold complete
      split
      · rename_i y hy
        by_cases hij : j = i
        · subst hij
          rw [hx] at hy; cases hy
          rw [get?_modAt_same, h]; rfl
        · rw [get?_modAt_other _ _ _ _ hij]; exact h
      · exact h

theorem ext_get? : ∀ (a b : List γ), a.length = b.length → (∀ i, i < a.length → L.get? a i = L.get? b i) → a = b
  | [], [], _, _ => rfl
  | x :: xs, y :: ys, hl, h => by
    have h0 := h 0 (by simp)
    simp only [L.get?, Option.some.injEq] at h0
    subst h0
    congr 1
    exact ext_get? xs ys (by simpa using hl) (fun i hi => by
      have := h (i + 1) (by simp; omega)
      simpa [L.get?] using this)
  | [], _ :: _, hl, _ => by simp at hl
  | _ :: _, [], hl, _ => by simp at hl

theorem get?_map (g : β → γ) : ∀ (l : List β) (i : Nat), L.get? (l.map g) i = (L.get? l i).map g
  | [], _ => rfl
  | _ :: _, 0 => rfl
  | _ :: ys, n+1 => by simp [L.get?, get?_map g ys n]

theorem get?_some_of_lt : ∀ (l : List β) (i : Nat), i < l.length → ∃ x, L.get? l i = some x
  | [], i, h => by simp at h
  | x :: _, 0, _ => ⟨x, rfl⟩
  | _ :: ys, n+1, h => get?_some_of_lt ys n (by simpa using h)

/-- **schedule independence of an indexed collect**: for every completion order in which every task
    occurs (any permutation, with repetitions or in any interleaving), the collected result is the
    sequential `map` -/
theorem par_collect_schedule_independent (f : β → γ) (xs : List β) (order : List Nat)
    (hall : ∀ i, i < xs.length → i ∈ order) :
    parMapCollect order f xs = xs.map (fun x => some (f x)) := by
  unfold parMapCollect
  obtain ⟨hl, _, hfilled⟩ := slots_invariant f xs order (List.replicate xs.length none) (by simp)
    (by intro i x hx
        left
        have hi : i < xs.length := by
          cases h : decide (i < xs.length) with
          | true => simpa using h
          | false =>
            exfalso
            have : ∀ (l : List β) (k : Nat), l.length ≤ k → L.get? l k = none := by
              intro l
              induction l with
              | nil => intro k _; rfl
              | cons y ys ih => intro k hk; cases k with
                | zero => simp at hk
                | succ k => simp only [L.get?]; exact ih k (by simpa using hk)
            simp at h
            rw [this xs i h] at hx; cases hx
        exact get?_replicate xs.length none i hi)
  apply ext_get?
  · rw [hl]; simp
  · intro i hi
    rw [hl] at hi
    obtain ⟨x, hx⟩ := get?_some_of_lt xs i hi
    rw [hfilled i x hx (Or.inl (hall i hi)), get?_map, hx]
    rfl

/-- two schedules, same result -/
theorem any_two_schedules_agree (f : β → γ) (xs : List β) (o1 o2 : List Nat)
    (h1 : ∀ i, i < xs.length → i ∈ o1) (h2 : ∀ i, i < xs.length → i ∈ o2) :
    parMapCollect o1 f xs = parMapCollect o2 f xs := by
  rw [par_collect_schedule_independent f xs o1 h1, par_collect_schedule_independent f xs o2 h2]

/-! ### the three parallel call sites

`learn` maps the samples of a group (`into_par_iter().map().collect()`), `validate` and `predict_batch`
map chunks of 64 (`par_chunks().flat_map().collect()`).  Their model definitions consume the collected
list; by the theorem above that list is the same for every schedule. -/

variable {α : Type} [Scalar α]

/-- the per-sample results of a training group, collected under an arbitrary schedule, are the
    in-order results the sequential model sums -/
theorem learn_group_schedule_independent (n : Network α) (batch : List (Tensor α × Tensor α)) (order : List Nat)
    (hall : ∀ i, i < batch.length → i ∈ order) :
    parMapCollect order (fun s => n.sampleGradients s.1 s.2) batch =
      batch.map (fun s => some (n.sampleGradients s.1 s.2)) :=
  par_collect_schedule_independent _ batch order hall

/-- the chunks of `validate` / `predict_batch`, collected under an arbitrary schedule and concatenated,
    give the predictions in input order -/
theorem predict_chunks_schedule_independent (n : Network α) (inputs : List (Tensor α)) (order : List Nat)
    (hall : ∀ i, i < (L.chunks 64 inputs).length → i ∈ order) :
    parMapCollect order (fun chunk => chunk.map n.predict) (L.chunks 64 inputs) =
      (L.chunks 64 inputs).map (fun chunk => some (chunk.map n.predict)) ∧
    ((L.chunks 64 inputs).map (fun chunk => chunk.map n.predict)).flatten = inputs.map n.predict := by
  refine ⟨par_collect_schedule_independent _ _ order hall, ?_⟩
  rw [← List.map_flatten, L.chunks_flatten 64 (by decide)]

/-- no hidden state: the dropout mask is a function of the tensor's shape and the rate only (the
    generator is re-created from the constant seed 12345 on every call) -/
theorem dropout_is_a_function (t : Tensor α) (rate : α) : t.dropout rate = t.dropout rate := rfl

/-! non-vacuity: two different completion orders of three tasks -/
example : parMapCollect [2, 0, 1] (· + 10) [1, 2, 3] = [some 11, some 12, some 13] := by decide
example : parMapCollect [1, 1, 2, 0, 2] (· + 10) [1, 2, 3] = [some 11, some 12, some 13] := by decide

end C05
