import Model.Network
import Proofs.VJP
import Proofs.SkipWalk
import Proofs.SkipLinks
import Proofs.SkipMLP
import Proofs.SkipTyped
import Proofs.SkipReshape
import Proofs.SkipTypedE

/-!
# C16 — skip connections combine source and target inputs as configured

About `Network.addConnect` (`Network::connect`), `Network.skipInput` (the input a layer processes),
`accumulate1`, and `Network.invertSkips` (which skip gradients `backward` adds to which layer).
The derivative clause ("with additive accumulation every parameter gradient remains the exact
derivative"): `additive_skip_gradient_is_derivative` proves, for any network `head → (mid with an
additive skip around it) → tail` of any depths whose layers have correct backward functions (C01), that
the reverse walk in which the skip's source receives the gradient coming back through `mid` **plus** the
gradient of the input the target processed is the transposed Jacobian — which is what the model's
`addSkipGradient` does (`skip_source_receives_target_gradient`), for every connection listed by
`invertSkips_complete` (none lost or duplicated).  On the implementation the gradients of chains,
shared sources and self-skips are checked against central differences.
-/

set_option linter.unusedSectionVars false

namespace C16
open Network Scalar

/-! ### the map: insert and lookup -/

theorem find?_insert_same {β : Type} (m : List (Nat × β)) (k : Nat) (v : β) :
    Assoc.find? (Assoc.insert m k v) k = some v := by
  induction m with
  | nil => simp [Assoc.insert, Assoc.find?]
  | cons e rest ih =>
    obtain ⟨k', v'⟩ := e
    simp only [Assoc.insert]
    split
    · simp [Assoc.find?]
    · rename_i hne
      simp only [Assoc.find?, hne, if_false]
      exact ih

theorem find?_insert_other {β : Type} (m : List (Nat × β)) (k k2 : Nat) (v : β) (h : k ≠ k2) :
    Assoc.find? (Assoc.insert m k v) k2 = Assoc.find? m k2 := by
  induction m with
  | nil => simp [Assoc.insert, Assoc.find?, h]
  | cons e rest ih =>
    obtain ⟨k', v'⟩ := e
    simp only [Assoc.insert]
    split
    · rename_i heq
      subst heq
      simp [Assoc.find?, h]
    · simp only [Assoc.find?]
      split
      · rfl
      · exact ih

variable {α : Type} [Scalar α]

/-! ### `connect`: kept or rejected, never silently replaced -/

/-- a successful `connect(infrom, into)` records exactly that pair and **keeps every earlier
    connection** -/
theorem connect_never_discards (n n' : Network α) (infrom into : Nat) (h : n.addConnect infrom into = .ok n') :
    Assoc.find? n'.connect into = some infrom ∧
    ∀ tgt from_, Assoc.find? n.connect tgt = some from_ → Assoc.find? n'.connect tgt = some from_ := by
  unfold addConnect at h
  split at h
  · simp at h
  · split at h
    · simp at h
    · rename_i hnew
      split at h
      · simp at h
      · simp at h
      · split at h
        · simp at h
        · simp at h
        · split at h
          · simp at h
          · simp only [Except.ok.injEq] at h
            subst h
            refine ⟨find?_insert_same _ _ _, ?_⟩
            intro tgt from_ hf
            have hne : into ≠ tgt := by
              intro e
              subst e
              rw [hf] at hnew
              simp at hnew
            simp only []
            rw [find?_insert_other _ _ _ _ hne]
            exact hf

/-- a second connection into a target that already has one is **rejected** (not a silent overwrite) -/
theorem connect_rejects_taken_target (n : Network α) (infrom into from0 : Nat)
    (hv : ¬ (infrom > n.layers.length ∨ into ≥ n.layers.length ∨ infrom > into))
    (h : Assoc.find? n.connect into = some from0) : n.addConnect infrom into = .error .reject := by
  simp [addConnect, hv, h]

/-- a connection whose target is free, whose indices are valid (`infrom ≤ into < #layers`) and whose
    two layer inputs hold the same number of elements is **accepted** — in particular any set of
    connections with pairwise distinct targets, in any order -/
theorem connect_accepts (n : Network α) (infrom into : Nat) (lf lt : Layer α) (k : Nat)
    (h1 : infrom ≤ into) (h2 : into < n.layers.length)
    (hfree : Assoc.find? n.connect into = none)
    (hlf : L.get n.layers infrom = .ok lf) (hlt : L.get n.layers into = .ok lt)
    (hcf : inputCount lf true = .ok k) (hct : inputCount lt false = .ok k) :
    n.addConnect infrom into = .ok { n with connect := Assoc.insert n.connect into infrom } := by
  have hv : ¬ (infrom > n.layers.length ∨ into ≥ n.layers.length ∨ infrom > into) := by omega
  simp [addConnect, hv, hfree, hlf, hlt, hcf, hct]

/-- different element counts are refused -/
theorem connect_rejects_count_mismatch (n : Network α) (infrom into : Nat) (lf lt : Layer α) (a b : Nat)
    (h1 : infrom ≤ into) (h2 : into < n.layers.length)
    (hfree : Assoc.find? n.connect into = none)
    (hlf : L.get n.layers infrom = .ok lf) (hlt : L.get n.layers into = .ok lt)
    (hcf : inputCount lf true = .ok a) (hct : inputCount lt false = .ok b) (hab : a ≠ b) :
    n.addConnect infrom into = .error .shape := by
  have hv : ¬ (infrom > n.layers.length ∨ into ≥ n.layers.length ∨ infrom > into) := by omega
  simp [addConnect, hv, hfree, hlf, hlt, hcf, hct, hab]

/-! ### the input a layer processes -/

/-- without a skip into layer `i`: its ordinary input -/
theorem skipInput_no_skip (n : Network α) (act : List (Tensor α)) (i : Nat) (x0 : Tensor α)
    (hx : L.get act i = .ok x0) (hn : Assoc.find? n.connect i = none) : n.skipInput act i = .ok x0 := by
  simp [skipInput, hx, hn]

/-- with a skip `a → i` of the same shape: the configured accumulation of the ordinary input with the
    input that was fed to layer `a` -/
theorem skipInput_same_shape (n : Network α) (act : List (Tensor α)) (i a : Nat) (x0 s : Tensor α)
    (hx : L.get act i = .ok x0) (hc : Assoc.find? n.connect i = some a) (hs : L.get act a = .ok s)
    (hshape : s.shape = x0.shape) :
    n.skipInput act i = accumulate1 n.skipaccumulation x0 s := by
  simp [skipInput, hx, hc, hs, hshape]

/-- … also when one is flat and the other spatial: the source is first reshaped (row-major, same element
    count — C14) to the target's shape -/
theorem skipInput_reshaped (n : Network α) (act : List (Tensor α)) (i a : Nat) (x0 s s' : Tensor α)
    (hx : L.get act i = .ok x0) (hc : Assoc.find? n.connect i = some a) (hs : L.get act a = .ok s)
    (hshape : s.shape ≠ x0.shape) (hr : s.reshape x0.shape = .ok s') :
    n.skipInput act i = accumulate1 n.skipaccumulation x0 s' := by
  simp [skipInput, hx, hc, hs, hshape, hr]

/-- the five accumulations -/
theorem accumulate_add (x y : Tensor α) : accumulate1 .add x y = x.add y := rfl
theorem accumulate_sub (x y : Tensor α) : accumulate1 .subtract x y = x.sub y := rfl
theorem accumulate_mul (x y : Tensor α) : accumulate1 .multiply x y = x.mul y := rfl
theorem accumulate_mean (x y : Tensor α) : accumulate1 .mean x y = x.mean [y] := rfl
theorem accumulate_overwrite (x y : Tensor α) : accumulate1 .overwrite x y = .ok y := rfl

/-! ### backward: every skip contributes to its source, exactly once -/

theorem mem_insertSorted (x y : Nat) : ∀ (l : List Nat), y ∈ insertSorted x l ↔ y = x ∨ y ∈ l
  | [] => by simp [insertSorted]
  | z :: zs => by
    simp only [insertSorted]
    split
    · simp
    · simp only [List.mem_cons, mem_insertSorted x y zs]
      constructor
      · rintro (h | h | h)
        · exact Or.inr (Or.inl h)
        · exact Or.inl h
        · exact Or.inr (Or.inr h)
      · rintro (h | h | h)
        · exact Or.inr (Or.inl h)
        · exact Or.inl h
        · exact Or.inr (Or.inr h)

/-- the targets recorded for source `a` after processing a list of `(target, source)` entries -/
theorem invertSkips_complete : ∀ (c : List (Nat × Nat)) (a b : Nat),
    b ∈ ((Assoc.find? (invertSkips c) a).getD []) ↔ (b, a) ∈ c := by
  intro c
  -- generalise over the accumulator of the fold
  suffices h : ∀ (c : List (Nat × Nat)) (m : List (Nat × List Nat)) (a b : Nat),
      b ∈ ((Assoc.find? (c.foldl invertStep m) a).getD []) ↔
      (b ∈ ((Assoc.find? m a).getD []) ∨ (b, a) ∈ c) by
    intro a b
    have := h c [] a b
    simp only [Assoc.find?, Option.getD_none, List.not_mem_nil, false_or] at this
    unfold invertSkips
    exact this
  intro c
  induction c with
  | nil => intro m a b; simp
  | cons e rest ih =>
    intro m a b
    obtain ⟨tgt, from_⟩ := e
    simp only [List.foldl_cons]
    rw [ih]
    simp only [List.mem_cons, Prod.mk.injEq]
    by_cases hfa : from_ = a
    · subst hfa
      cases hm : Assoc.find? m from_ with
      | none =>
        simp only [invertStep, hm, find?_insert_same, Option.getD_some, Option.getD_none, List.mem_singleton, List.not_mem_nil, false_or, and_true]
      | some ts =>
        simp only [invertStep, hm, find?_insert_same, Option.getD_some, mem_insertSorted, and_true]
        constructor
        · rintro ((h | h) | h)
          · exact Or.inr (Or.inl h)
          · exact Or.inl h
          · exact Or.inr (Or.inr h)
        · rintro (h | h | h)
          · exact Or.inl (Or.inr h)
          · exact Or.inl (Or.inl h)
          · exact Or.inr h
    · have hne : ¬ (b = tgt ∧ a = from_) := fun h => hfa h.2.symm
      cases hm : Assoc.find? m from_ with
      | none =>
        simp only [invertStep, hm]
        rw [find?_insert_other _ _ _ _ hfa]
        simp [hne]
      | some ts =>
        simp only [invertStep, hm]
        rw [find?_insert_other _ _ _ _ hfa]
        simp [hne]

/-! non-vacuity: the chain 0→1, 1→2 and the shared source 1→2, 1→3 -/
example : invertSkips [(1, 0), (2, 1)] = [(0, [1]), (1, [2])] := by decide
example : invertSkips [(3, 1), (2, 1)] = [(1, [2, 3])] := by decide


/-! ### the derivative clause -/

/-- what `backward` adds to the gradient `cur` handed on by source layer `idx` for the connection
    `idx → target` (`target ≠ idx`): the gradient with respect to the input the target processed,
    brought to the source's shape -/
theorem skip_source_receives_target_gradient (len idx target k : Nat) (ig cur gt gt' s : Tensor α)
    (processed : List (Tensor α)) (hne : target ≠ idx) (hk : checkedSub len target = .ok k)
    (hg : L.get processed k = .ok gt) (hr : gt.reshape cur.shape = .ok gt') (hs : cur.add gt' = .ok s) :
    addSkipGradient len idx ig processed (.ok cur) target = .ok s := by
  simp [addSkipGradient, hne, hk, hg, hr, hs]

/-- a connection from a layer to itself feeds the layer's own input gradient back once more -/
theorem self_skip_adds_own_gradient (len idx : Nat) (ig cur ig' s : Tensor α) (processed : List (Tensor α))
    (hr : ig.reshape cur.shape = .ok ig') (hs : cur.add ig' = .ok s) :
    addSkipGradient len idx ig processed (.ok cur) idx = .ok s := by
  simp [addSkipGradient, hr, hs]

open VJP in
/-- **with additive accumulation the gradients remain exact derivatives**: for `head`, `mid`, `tail` of
    any depths (layers with correct backward functions at the inputs they receive) and an additive
    skip connection around `mid`, the walk `γ ↦ head.bwd (mid.bwd δ + δ)`, `δ = tail.bwd γ`, is the
    transposed Jacobian of the network; hence for any differentiable objective every coordinate of the
    resulting input gradient is the partial derivative (and, by `C01.parameter_gradient`, likewise for
    the parameters of every layer) -/
theorem additive_skip_gradient_is_derivative {n m k : ℕ} (head : Net n m) (mid : Net m m) (tail : Net m k) (x : Vec n)
    (h1 : head.Ok x) (h2 : mid.Ok (head.fwd x)) (h3 : tail.Ok (mid.fwd (head.fwd x) + head.fwd x))
    (ℓ : Vec k → ℝ) (g : Vec k) (hg : IsGrad ℓ (tail.fwd (mid.fwd (head.fwd x) + head.fwd x)) g) (j : Fin n) :
    HasDerivAt (fun r => ℓ (tail.fwd (mid.fwd (head.fwd (Function.update x j r)) + head.fwd (Function.update x j r))))
      (head.bwd x (mid.bwd (head.fwd x) (tail.bwd (mid.fwd (head.fwd x) + head.fwd x) g) +
        tail.bwd (mid.fwd (head.fwd x) + head.fwd x) g) j) (x j) := by
  have hv := Net.vjp_with_skip head mid tail x h1 h2 h3
  exact (IsGrad.comp_vjp hv hg).partial j

/-! ### … and on the model's own `Network.forward` / `Network.backward` folds -/

open LayerChain SkipWalk VJP in
/-- **a network with one additive skip connection, any layer kinds** (`head`, then `mid` whose first layer is the
    skip's source, then `tail` whose first layer is the skip's target; every layer a link of the chain theorem:
    dense, convolution, deconvolution, max-pool, dense feedback block): on the model's own folds `Network.forward`
    makes the target process `mid(head x) + head x`, and the last gradient `Network.backward` hands on — computed
    with the source→targets table, the processed-input gradients and the `+=` at the source — is the gradient of
    the objective with respect to the network input -/
theorem additive_skip_network_gradient {a m b d c : Idx} {ea : Enc a} (em : Enc m) {eb : Enc b} {ed : Enc d} {ec : Enc c}
    (head : Chain a ea m em)
    (lm : Layer ℝ) (fm : V m.T → V b.T) (bm : V m.T → V b.T → V m.T) (prem : V m.T → Tensor ℝ) (rcm : V m.T → Recorded ℝ)
    (wgm : V m.T → V b.T → WGrad ℝ × BGrad ℝ) (midr : Chain b eb m em)
    (lt : Layer ℝ) (ft : V m.T → V d.T) (bt : V m.T → V d.T → V m.T) (pret : V m.T → Tensor ℝ) (rct : V m.T → Recorded ℝ)
    (wgt : V m.T → V d.T → WGrad ℝ × BGrad ℝ) (tailr : Chain d ed c ec)
    (n : Network ℝ) (hn : IsSkipNet em head lm fm bm prem rcm wgm midr lt ft bt pret rct wgt tailr n)
    (he : EncAdd em) (x : V a.T)
    (hrh : Real head x) (hrm : Real (midC em lm fm bm prem rcm wgm midr) ((gnet head).fwd x))
    (hrt : Real (tailC em lt ft bt pret rct wgt tailr)
      ((gnet (midC em lm fm bm prem rcm wgm midr)).fwd ((gnet head).fwd x) + (gnet head).fwd x))
    (hh : (gnet head).Ok x) (hm : (gnet (midC em lm fm bm prem rcm wgm midr)).Ok ((gnet head).fwd x))
    (ht : (gnet (tailC em lt ft bt pret rct wgt tailr)).Ok
      ((gnet (midC em lm fm bm prem rcm wgm midr)).fwd ((gnet head).fwd x) + (gnet head).fwd x))
    (ℓ : V c.T → ℝ) (g : V c.T)
    (hg : IsGrad ℓ (skipFn em head lm fm bm prem rcm wgm midr lt ft bt pret rct wgt tailr x) g) :
    ∃ t ws bs gs γ,
      n.forward (ea x) = .ok t ∧
      t.act.getLast? = some (ec (skipFn em head lm fm bm prem rcm wgm midr lt ft bt pret rct wgt tailr x)) ∧
      n.backward (ec g) t = .ok (ws, bs, gs) ∧ gs.getLast? = some (ea γ) ∧
      IsGrad (ℓ ∘ skipFn em head lm fm bm prem rcm wgm midr lt ft bt pret rct wgt tailr) x γ :=
  skip_network_gradient em head lm fm bm prem rcm wgm midr lt ft bt pret rct wgt tailr n hn he x hrh hrm hrt hh hm ht ℓ g hg

open LayerChain SkipWalk VJP ChainLinks DenseStack DenseBridge in
/-- **instance: a perceptron of any depth with an additive skip connection** around any stretch of its layers
    (`s1`, then `Stack.cons a2 W2 b2 r2` which the skip goes around, then `Stack.cons a3 W3 b3 r3`) -/
theorem mlp_with_skip_gradient {n0 m m' d k : ℕ} (n : Network ℝ) (s1 : Stack n0 m)
    (a2 : Act) (W2 : V (Fin m' × Fin m)) (b2 : Vec m') (r2 : Stack m' m)
    (a3 : Act) (W3 : V (Fin d × Fin m)) (b3 : Vec d) (r3 : Stack d k)
    (hl : n.layers = s1.layers ++ (Stack.cons a2 W2 b2 r2).layers ++ (Stack.cons a3 W3 b3 r3).layers)
    (hc : n.connect = [(s1.layers.length + (Stack.cons a2 W2 b2 r2).layers.length, s1.layers.length)])
    (hacc : n.skipaccumulation = .add) (hlb : n.loopbacks = [])
    (hv1 : s1.Valid) (hv2 : (Stack.cons a2 W2 b2 r2).Valid) (hv3 : (Stack.cons a3 W3 b3 r3).Valid) (x : Vec n0)
    (hk1 : s1.NoKinks x) (hk2 : (Stack.cons a2 W2 b2 r2).NoKinks (s1.net.fwd x))
    (hk3 : (Stack.cons a3 W3 b3 r3).NoKinks ((Stack.cons a2 W2 b2 r2).net.fwd (s1.net.fwd x) + s1.net.fwd x))
    (ℓ : Vec k → ℝ) (g : Vec k) :
    let F := fun z : Vec n0 => (Stack.cons a3 W3 b3 r3).net.fwd ((Stack.cons a2 W2 b2 r2).net.fwd (s1.net.fwd z) + s1.net.fwd z)
    IsGrad ℓ (F x) g →
    ∃ t ws bs gs γ,
      n.forward (vecT x) = .ok t ∧ t.act.getLast? = some (vecT (F x)) ∧
      n.backward (vecT g) t = .ok (ws, bs, gs) ∧ gs.getLast? = some (vecT γ) ∧ IsGrad (ℓ ∘ F) x γ := by
  intro F hg
  have hF : ∀ z, skipFn (eVec m) (stackChain s1) (.dense (denseLayer a2 W2 b2)) (denseFn (Act.f a2) W2 b2) (denseBwd a2 W2 b2)
      (fun x => vecT (densePre W2 b2 x)) (fun _ => .none) (denseWG a2 W2 b2) (stackChain r2)
      (.dense (denseLayer a3 W3 b3)) (denseFn (Act.f a3) W3 b3) (denseBwd a3 W3 b3)
      (fun x => vecT (densePre W3 b3 x)) (fun _ => .none) (denseWG a3 W3 b3) (stackChain r3) z = F z := by
    intro z
    simp only [skipFn, midC, tailC, gnet, GNet.fwd, stack_gnet_fwd, F, Stack.net, Net.fwd]
  have hfun : skipFn (eVec m) (stackChain s1) (.dense (denseLayer a2 W2 b2)) (denseFn (Act.f a2) W2 b2) (denseBwd a2 W2 b2)
      (fun x => vecT (densePre W2 b2 x)) (fun _ => .none) (denseWG a2 W2 b2) (stackChain r2)
      (.dense (denseLayer a3 W3 b3)) (denseFn (Act.f a3) W3 b3) (denseBwd a3 W3 b3)
      (fun x => vecT (densePre W3 b3 x)) (fun _ => .none) (denseWG a3 W3 b3) (stackChain r3) = F := funext hF
  have hy : (gnet (stackChain s1)).fwd x = s1.net.fwd x := stack_gnet_fwd s1 x
  have hmid : ∀ z, (gnet (midC (eVec m) (.dense (denseLayer a2 W2 b2)) (denseFn (Act.f a2) W2 b2) (denseBwd a2 W2 b2)
      (fun x => vecT (densePre W2 b2 x)) (fun _ => .none) (denseWG a2 W2 b2) (stackChain r2))).fwd z =
      (Stack.cons a2 W2 b2 r2).net.fwd z := fun z => stack_gnet_fwd (Stack.cons a2 W2 b2 r2) z
  have hnet : IsSkipNet (eVec m) (stackChain s1) (.dense (denseLayer a2 W2 b2)) (denseFn (Act.f a2) W2 b2) (denseBwd a2 W2 b2)
      (fun x => vecT (densePre W2 b2 x)) (fun _ => .none) (denseWG a2 W2 b2) (stackChain r2)
      (.dense (denseLayer a3 W3 b3)) (denseFn (Act.f a3) W3 b3) (denseBwd a3 W3 b3)
      (fun x => vecT (densePre W3 b3 x)) (fun _ => .none) (denseWG a3 W3 b3) (stackChain r3) n := by
    refine ⟨?_, ?_, hacc, hlb⟩
    · rw [hl]; simp [LayerChain.layers, stackChain_layers, Stack.layers]
    · rw [hc]; simp [LayerChain.layers, stackChain_layers, Stack.layers]
  have := skip_network_gradient (eVec m) (stackChain s1) (.dense (denseLayer a2 W2 b2)) (denseFn (Act.f a2) W2 b2) (denseBwd a2 W2 b2)
      (fun x => vecT (densePre W2 b2 x)) (fun _ => .none) (denseWG a2 W2 b2) (stackChain r2)
      (.dense (denseLayer a3 W3 b3)) (denseFn (Act.f a3) W3 b3) (denseBwd a3 W3 b3)
      (fun x => vecT (densePre W3 b3 x)) (fun _ => .none) (denseWG a3 W3 b3) (stackChain r3) n hnet (encAdd_vec m) x
      (stackChain_real s1 x hv1)
      (by rw [hy]; exact stackChain_real (Stack.cons a2 W2 b2 r2) _ hv2)
      (by rw [hmid, hy]; exact stackChain_real (Stack.cons a3 W3 b3 r3) _ hv3)
      (stackChain_ok s1 x hv1 hk1)
      (by rw [hy]; exact stackChain_ok (Stack.cons a2 W2 b2 r2) _ hv2 hk2)
      (by rw [hmid, hy]; exact stackChain_ok (Stack.cons a3 W3 b3 r3) _ hv3 hk3)
      ℓ g (by rw [hF]; exact hg)
  rw [hfun] at this
  exact this

open LayerChain SkipWalk VJP ChainLinks DenseStack DenseBridge ConvVJP ConvBridge ConvNet Flat3 in
/-- **instance: a residual connection around a convolution** — convolution `l0`, then a shape-preserving
    convolution `l1` that the skip goes around, then a convolution `l2` (flattened) and a dense stack of any depth:
    the target convolution processes `conv₁(y) + y`, and the gradient handed back to the input image is the
    gradient of the objective (every configuration of the three convolutions) -/
theorem residual_conv_network_gradient {c0 h0 w0 f kh0 kw0 h w kh1 kw1 f2 kh2 kw2 h2 w2 k : ℕ} (n : Network ℝ)
    (l0 : Conv ℝ) (a0 : Act) (K0 : V (I4 f c0 kh0 kw0)) (hl0 : IsConv l0 a0 K0 h0 w0 h w) (ha0 : a0 ≠ .softmax) (hf0 : l0.flatten = false)
    (l1 : Conv ℝ) (a1 : Act) (K1 : V (I4 f f kh1 kw1)) (hl1 : IsConv l1 a1 K1 h w h w) (ha1 : a1 ≠ .softmax) (hf1 : l1.flatten = false)
    (l2 : Conv ℝ) (a2 : Act) (K2 : V (I4 f2 f kh2 kw2)) (hl2 : IsConv l2 a2 K2 h w h2 w2) (ha2 : a2 ≠ .softmax) (hf2 : l2.flatten = true)
    (s : Stack (f2 * h2 * w2) k) (hv : s.Valid)
    (hl : n.layers = [.conv l0, .conv l1, .conv l2] ++ s.layers) (hc : n.connect = [(2, 1)])
    (hacc : n.skipaccumulation = .add) (hlb : n.loopbacks = [])
    (x : V (I3 c0 h0 w0)) :
    let y := convFn l0 a0 K0 h0 w0 h w x
    let p := convFn l1 a1 K1 h w h w y + y
    let F := fun z : V (I3 c0 h0 w0) =>
      s.net.fwd (flat (convFn l2 a2 K2 h w h2 w2 (convFn l1 a1 K1 h w h w (convFn l0 a0 K0 h0 w0 h w z) + convFn l0 a0 K0 h0 w0 h w z)))
    (∀ i, NoKink a0 (pre l0 K0 h0 w0 h w x i)) → (∀ i, NoKink a1 (pre l1 K1 h w h w y i)) →
    (∀ i, NoKink a2 (pre l2 K2 h w h2 w2 p i)) → s.NoKinks (flat (convFn l2 a2 K2 h w h2 w2 p)) →
    ∀ (ℓ : Vec k → ℝ) (g : Vec k), IsGrad ℓ (F x) g →
    ∃ t ws bs gs γ,
      n.forward (T3 x) = .ok t ∧ t.act.getLast? = some (vecT (F x)) ∧
      n.backward (vecT g) t = .ok (ws, bs, gs) ∧ gs.getLast? = some (T3 γ) ∧ IsGrad (ℓ ∘ F) x γ := by
  intro y p F hk0 hk1 hk2 hks ℓ g hg
  obtain ⟨hkf, hkc, hkh, hih, hoh⟩ := hl1.pos
  let head := consConv (oh := h) (ow := w) l0 a0 K0 h0 w0 (Chain.nil (iVol f h w) (eVol f h w))
  have hF : ∀ z, skipFn (eVol f h w) head (.conv l1) (convFn l1 a1 K1 h w h w) (convBwdX l1 a1 K1 h w h w)
      (fun x => T3 (pre l1 K1 h w h w x)) (fun _ => .none) (fun x g => (.one (T4 (convBwdKer l1 a1 K1 h w h w x g)), .one none))
      (Chain.nil (iVol f h w) (eVol f h w))
      (.conv l2) (fun x => flat (convFn l2 a2 K2 h w h2 w2 x)) (fun x g => convBwdX l2 a2 K2 h w h2 w2 x (unflat g))
      (fun x => T3 (pre l2 K2 h w h2 w2 x)) (fun _ => .none)
      (fun x g => (.one (T4 (convBwdKer l2 a2 K2 h w h2 w2 x (unflat g))), .one none)) (stackChain s) z = F z := by
    intro z
    simp only [skipFn, midC, tailC, head, consConv, gnet, GNet.fwd, stack_gnet_fwd, F]
  have hnet : IsSkipNet (eVol f h w) head (.conv l1) (convFn l1 a1 K1 h w h w) (convBwdX l1 a1 K1 h w h w)
      (fun x => T3 (pre l1 K1 h w h w x)) (fun _ => .none) (fun x g => (.one (T4 (convBwdKer l1 a1 K1 h w h w x g)), .one none))
      (Chain.nil (iVol f h w) (eVol f h w))
      (.conv l2) (fun x => flat (convFn l2 a2 K2 h w h2 w2 x)) (fun x g => convBwdX l2 a2 K2 h w h2 w2 x (unflat g))
      (fun x => T3 (pre l2 K2 h w h2 w2 x)) (fun _ => .none)
      (fun x g => (.one (T4 (convBwdKer l2 a2 K2 h w h2 w2 x (unflat g))), .one none)) (stackChain s) n := by
    refine ⟨?_, ?_, hacc, hlb⟩
    · rw [hl]; simp [LayerChain.layers, head, consConv, stackChain_layers]
    · rw [hc]; simp [LayerChain.layers, head, consConv]
  have hyy : (gnet head).fwd x = y := rfl
  have r0 := real_conv l0 a0 K0 hl0 ha0 hf0 x
  have r1 := real_conv l1 a1 K1 hl1 ha1 hf1 y
  have r2 := real_conv_flat l2 a2 K2 hl2 ha2 hf2 p
  have key := skip_network_gradient (eVol f h w) head (.conv l1) (convFn l1 a1 K1 h w h w) (convBwdX l1 a1 K1 h w h w)
      (fun x => T3 (pre l1 K1 h w h w x)) (fun _ => .none) (fun x g => (.one (T4 (convBwdKer l1 a1 K1 h w h w x g)), .one none))
      (Chain.nil (iVol f h w) (eVol f h w))
      (.conv l2) (fun x => flat (convFn l2 a2 K2 h w h2 w2 x)) (fun x g => convBwdX l2 a2 K2 h w h2 w2 x (unflat g))
      (fun x => T3 (pre l2 K2 h w h2 w2 x)) (fun _ => .none)
      (fun x g => (.one (T4 (convBwdKer l2 a2 K2 h w h2 w2 x (unflat g))), .one none)) (stackChain s) n hnet
      (encAdd_vol f h w hkf hih) x
  have := key
      (show _ ∧ _ ∧ _ from ⟨r0.1, r0.2, trivial⟩) (show _ ∧ _ ∧ _ from ⟨r1.1, r1.2, trivial⟩)
      (show _ ∧ _ ∧ _ from ⟨r2.1, r2.2, stackChain_real s _ hv⟩)
      (show _ ∧ _ from ⟨vjp_conv l0 a0 K0 hl0 ha0 x hk0, trivial⟩) (show _ ∧ _ from ⟨vjp_conv l1 a1 K1 hl1 ha1 y hk1, trivial⟩)
      (show _ ∧ _ from ⟨vjp_conv_flat l2 a2 K2 hl2 ha2 p hk2, stackChain_ok s _ hv hks⟩)
      ℓ g (by rw [hF]; exact hg)
  rw [funext hF] at this
  exact this

/-! ### any number of additive skip connections at once -/

open SkipDag in
/-- the values of a stack of layers with a skip table `S` (`S i = some s`: layer `i` adds the input of layer
    `s ≤ i` to its own): `U 0 = x`, `U (i+1) = f i (U i + U s)` -/
theorem skip_values_spec {ι : Type} [Fintype ι] (N : SkipDag.Net ι) (x : VJP.V ι) :
    U N 0 x = x ∧ ∀ i, U N (i + 1) x = N.f i (U N i x + match N.S i with
      | some s => if s ≤ i then U N s x else 0
      | none => 0) := by
  refine ⟨by rw [U], fun i => ?_⟩
  rw [U_succ]
  rfl

open SkipDag VJP in
/-- **the reverse sweep with any skip table** (chains of connections, several connections out of one source,
    nested / overlapping connections, a connection from a layer to itself): walking the layers from the last
    to the first, computing for each the gradient `δ i` with respect to the input it processed and handing on
    `δ i + Σ { δ t | t a target of i }`, ends in the transposed Jacobian of the whole function — for every
    depth and every table with sources not after their targets -/
theorem skip_table_sweep_is_derivative {ι : Type} [Fintype ι] (N : SkipDag.Net ι) (tg : Nat → List Nat) (x : V ι) (n : Nat)
    (hok : ∀ i, i < n → IsVJP (N.f i) (P N i x) (N.b i (P N i x)))
    (hS : ∀ i s, N.S i = some s → s ≤ i)
    (htg : ∀ s, (tg s).Nodup ∧ ∀ t, t ∈ tg s ↔ (t < n ∧ N.S t = some s)) :
    IsVJP (U N n) x (fun g => (sweep N tg x n g n).1) :=
  sweep_isVJP N tg x n hok hS htg

open LayerChain SkipWalk SkipNet VJP in
/-- **a network with any table of additive skip connections among layers of one shape, on the model's own
    `Network.forward` / `Network.backward` folds** (`head`, then the stretch `body` with the table `tbl` of
    `(target, source)` pairs relative to the stretch — distinct targets, sources not after their targets —,
    then `tail`; every layer a link of the chain theorem): forward ends in
    `tail (U body.length (head x))`; backward — which reads the sorted targets of every source from the inverted
    table and adds their processed-input gradients — hands back the gradient of the objective -/
theorem any_skip_table_network_gradient {a m c : Idx} {ea : Enc a} {em : Nat → Enc m} {ec : Enc c}
    (head : Chain a ea m (em 0)) (body : List (Link m)) (tbl : List (Nat × Nat)) (tail : Chain m (em body.length) c ec)
    (n : Network ℝ) (hn : IsDagNet head body tbl tail n)
    (hcomp : ∀ t s, Assoc.find? tbl t = some s → Compat (em t) (em s)) (x : V a.T)
    (hrh : Real head x)
    (hrb : ∀ j (lk : Link m), body[j]? = some lk → lk.Real (em j) (em (j + 1)) (SkipDag.P (dagNet body tbl) j ((gnet head).fwd x)))
    (hrt : Real tail (SkipDag.U (dagNet body tbl) body.length ((gnet head).fwd x)))
    (hh : (gnet head).Ok x)
    (hb : ∀ j (lk : Link m), body[j]? = some lk →
      IsVJP lk.f (SkipDag.P (dagNet body tbl) j ((gnet head).fwd x)) (lk.b (SkipDag.P (dagNet body tbl) j ((gnet head).fwd x))))
    (ht : (gnet tail).Ok (SkipDag.U (dagNet body tbl) body.length ((gnet head).fwd x)))
    (ℓ : V c.T → ℝ) (g : V c.T) (hg : IsGrad ℓ (dagFn head body tbl tail x) g) :
    ∃ t ws bs gs γ,
      n.forward (ea x) = .ok t ∧ t.act.getLast? = some (ec (dagFn head body tbl tail x)) ∧
      n.backward (ec g) t = .ok (ws, bs, gs) ∧ gs.getLast? = some (ea γ) ∧
      IsGrad (ℓ ∘ dagFn head body tbl tail) x γ ∧
      ∀ r (lk : Link m), r < body.length → body[body.length - (r + 1)]? = some lk →
        ws[(LayerChain.layers tail).length + r]? =
          some (lk.wg (SkipDag.P (dagNet body tbl) (body.length - (r + 1)) ((gnet head).fwd x))
            (handedTo head body tbl tail x g r)).1 ∧
        bs[(LayerChain.layers tail).length + r]? =
          some (lk.wg (SkipDag.P (dagNet body tbl) (body.length - (r + 1)) ((gnet head).fwd x))
            (handedTo head body tbl tail x g r)).2 :=
  dag_network_gradient head body tbl tail n hn hcomp x hrh hrb hrt hh hb ht ℓ g hg

open LayerChain SkipWalk SkipNet VJP in
/-- **every weight gradient inside a skip table is the exact derivative**: for the layer at position `c'` of the
    stretch with parameters `θ₀` (`lay θ` = its output on the input it processes, `bθ` its parameter-VJP), the
    network output as a function of `θ` has, composed with the objective, the gradient `bθ` of the gradient the
    reverse walk hands to that layer — whatever the table of connections around and across it -/
theorem any_skip_table_parameter_gradient {a m c : Idx} {ea : Enc a} {em : Nat → Enc m} {ec : Enc c} {π : Type} [Fintype π]
    (head : Chain a ea m (em 0)) (body : List (Link m)) (tbl : List (Nat × Nat)) (tail : Chain m (em body.length) c ec)
    (n : Network ℝ) (hn : IsDagNet head body tbl tail n) (x : V a.T)
    (hb : ∀ j (lk : Link m), body[j]? = some lk →
      IsVJP lk.f (SkipDag.P (dagNet body tbl) j ((gnet head).fwd x)) (lk.b (SkipDag.P (dagNet body tbl) j ((gnet head).fwd x))))
    (ht : (gnet tail).Ok (SkipDag.U (dagNet body tbl) body.length ((gnet head).fwd x)))
    (c' : Nat) (hc : c' < body.length) (lk : Link m) (hlk : body[c']? = some lk)
    (lay : V π → V m.T) (bθ : V m.T → V π) (θ₀ : V π)
    (hlay : lay θ₀ = lk.f (SkipDag.P (dagNet body tbl) c' ((gnet head).fwd x))) (hθ : IsVJP lay θ₀ bθ)
    (ℓ : V c.T → ℝ) (g : V c.T) (hg : IsGrad ℓ (dagFn head body tbl tail x) g) :
    dagParamFn head body tbl tail c' lay bθ x θ₀ = dagFn head body tbl tail x ∧
    IsGrad (ℓ ∘ dagParamFn head body tbl tail c' lay bθ x) θ₀
      (bθ (handedTo head body tbl tail x g (body.length - (c' + 1)))) :=
  dag_parameter_gradient head body tbl tail n hn x hb ht c' hc lk hlk lay bθ θ₀ hlay hθ ℓ g hg

open SkipDagP in
/-- what "the network as a function of one layer's parameters" means: the input is fixed, the layer at position
    `c` outputs `lay θ`, every other layer computes what it computed before on what it now receives -/
theorem parametrised_values_spec {α ι : Type} [Fintype α] [Fintype ι] (N : SkipDag.Net ι) (x : VJP.V ι) (c : Nat)
    (lay : VJP.V α → VJP.V ι) (bθ : VJP.V ι → VJP.V α) (θ : VJP.V α) :
    U (paramNet N x c lay bθ) 0 θ = x ∧
    ∀ i, U (paramNet N x c lay bθ) (i + 1) θ = if i = c then lay θ else N.f i (P (paramNet N x c lay bθ) i θ) :=
  param_U_spec N x c lay bθ θ

open LayerChain SkipWalk SkipNet VJP ChainLinks DenseStack DenseBridge in
/-- **instance: a residual perceptron** — a dense stack `s1`, then any number of square dense layers `blocks`
    with ANY table of additive skip connections among them, then a dense stack `s3` -/
theorem resnet_mlp_gradient {n0 m k : ℕ} (n : Network ℝ) (s1 : Stack n0 m)
    (blocks : List (Act × V (Fin m × Fin m) × Vec m)) (tbl : List (Nat × Nat)) (s3 : Stack m k)
    (hl : n.layers = s1.layers ++ (blocks.map denseLink).map (·.l) ++ s3.layers)
    (hc : n.connect = tbl.map (shift s1.layers.length))
    (hacc : n.skipaccumulation = .add) (hlb : n.loopbacks = [])
    (hkeys : (tbl.map Prod.fst).Nodup) (hbd : ∀ e ∈ tbl, e.2 ≤ e.1 ∧ e.1 < blocks.length)
    (hv1 : s1.Valid) (hvb : ∀ q ∈ blocks, q.1 ≠ .softmax) (hm : 0 < m) (hv3 : s3.Valid) (x : Vec n0)
    (ℓ : Vec k → ℝ) (g : Vec k) :
    let N := dagNet (blocks.map denseLink) tbl
    let F := fun z : Vec n0 => s3.net.fwd (SkipDag.U N blocks.length (s1.net.fwd z))
    s1.NoKinks x →
    (∀ (j : Nat) q, blocks[j]? = some q → ∀ i, NoKink q.1 (densePre q.2.1 q.2.2 (SkipDag.P N j (s1.net.fwd x)) i)) →
    s3.NoKinks (SkipDag.U N blocks.length (s1.net.fwd x)) →
    IsGrad ℓ (F x) g →
    ∃ t ws bs gs γ,
      n.forward (vecT x) = .ok t ∧ t.act.getLast? = some (vecT (F x)) ∧
      n.backward (vecT g) t = .ok (ws, bs, gs) ∧ gs.getLast? = some (vecT γ) ∧ IsGrad (ℓ ∘ F) x γ := by
  intro N F hk1 hkb hk3 hg
  have hy : (gnet (stackChain s1)).fwd x = s1.net.fwd x := stack_gnet_fwd s1 x
  have hF : ∀ z, dagFn (em := fun _ => eVec m) (stackChain s1) (blocks.map denseLink) tbl (stackChain s3) z = F z := by
    intro z
    simp only [dagFn, stack_gnet_fwd, F, N, List.length_map]
  have hnet : IsDagNet (em := fun _ => eVec m) (stackChain s1) (blocks.map denseLink) tbl (stackChain s3) n := by
    refine ⟨?_, ?_, hacc, hlb, hkeys, ?_⟩
    · rw [hl]; simp [stackChain_layers]
    · rw [hc]; simp [stackChain_layers]
    · simpa using hbd
  have hget : ∀ (j : Nat) (lk : Link (iVec m)), (blocks.map denseLink)[j]? = some lk → ∃ q, blocks[j]? = some q ∧ lk = denseLink q := by
    intro j lk hlk
    rw [List.getElem?_map] at hlk
    cases hq : blocks[j]? with
    | none => rw [hq] at hlk; cases hlk
    | some q => rw [hq] at hlk; simp only [Option.map_some, Option.some.injEq] at hlk; exact ⟨q, rfl, hlk.symm⟩
  have := dag_network_gradient (em := fun _ => eVec m) (stackChain s1) (blocks.map denseLink) tbl (stackChain s3) n hnet
    (fun _ _ _ => compat_of_encAdd (encAdd_vec m)) x
    (stackChain_real s1 x hv1)
    (fun j lk hlk => by
      obtain ⟨q, hq, rfl⟩ := hget j lk hlk
      exact denseLink_real q (hvb q (List.mem_of_getElem? hq)) hm _)
    (by rw [hy, List.length_map]; exact stackChain_real s3 _ hv3)
    (stackChain_ok s1 x hv1 hk1)
    (fun j lk hlk => by
      obtain ⟨q, hq, rfl⟩ := hget j lk hlk
      rw [hy]
      exact denseLink_vjp q (hvb q (List.mem_of_getElem? hq)) _ (hkb j q hq))
    (by rw [hy, List.length_map]; exact stackChain_ok s3 _ hv3 hk3)
    ℓ g (by rw [hF]; exact hg)
  rw [funext hF] at this
  obtain ⟨t, ws, bs, gs, γ, h1, h2, h3, h4, h5, _⟩ := this
  exact ⟨t, ws, bs, gs, γ, h1, h2, h3, h4, h5⟩

open LayerChain SkipNet ChainLinks DenseStack in
/-- non-vacuity: a chain of connections, two connections out of one source and a connection from a layer to
    itself are one admissible table (`(target, source)`, relative to a stretch of four layers) -/
example (q : Act × VJP.V (Fin 3 × Fin 3) × VJP.Vec 3) :
    IsDagNet (em := fun _ => eVec 3) (Chain.nil (iVec 3) (eVec 3)) (List.replicate 4 (denseLink q)) [(1, 0), (2, 0), (3, 3)] (Chain.nil (iVec 3) (eVec 3))
      { Network.new (.single 3) with
        layers := List.replicate 4 (.dense (denseLayer q.1 q.2.1 q.2.2)),
        connect := [(1, 0), (2, 0), (3, 3)] } := by
  refine ⟨?_, ?_, rfl, rfl, by decide, by simp⟩
  · simp [LayerChain.layers, denseLink, List.replicate]
  · simp [LayerChain.layers, shift]

open LayerChain SkipWalk SkipNet VJP ChainLinks DenseStack DenseBridge ConvVJP ConvBridge ConvNet Flat3 in
/-- **instance: a residual convolutional tower** — a convolution `l0`, then any number of shape-preserving
    convolutions `blocks` with ANY table of additive skip connections among them, then a convolution `l2`
    (flattened) and a dense stack of any depth -/
theorem resnet_conv_gradient {c0 h0 w0 f kh0 kw0 h w kh kw f2 kh2 kw2 h2 w2 k : ℕ} (n : Network ℝ)
    (l0 : Conv ℝ) (a0 : Act) (K0 : V (I4 f c0 kh0 kw0)) (hl0 : IsConv l0 a0 K0 h0 w0 h w) (ha0 : a0 ≠ .softmax) (hf0 : l0.flatten = false)
    (blocks : List (Conv ℝ × Act × V (I4 f f kh kw)))
    (hbl : ∀ q ∈ blocks, IsConv q.1 q.2.1 q.2.2 h w h w ∧ q.2.1 ≠ .softmax ∧ q.1.flatten = false)
    (tbl : List (Nat × Nat))
    (l2 : Conv ℝ) (a2 : Act) (K2 : V (I4 f2 f kh2 kw2)) (hl2 : IsConv l2 a2 K2 h w h2 w2) (ha2 : a2 ≠ .softmax) (hf2 : l2.flatten = true)
    (s : Stack (f2 * h2 * w2) k) (hv : s.Valid)
    (hl : n.layers = [.conv l0] ++ (blocks.map (convLink (h := h) (w := w))).map (·.l) ++ (.conv l2 :: s.layers))
    (hc : n.connect = tbl.map (shift 1))
    (hacc : n.skipaccumulation = .add) (hlb : n.loopbacks = [])
    (hkeys : (tbl.map Prod.fst).Nodup) (hbd : ∀ e ∈ tbl, e.2 ≤ e.1 ∧ e.1 < blocks.length)
    (x : V (I3 c0 h0 w0)) (ℓ : Vec k → ℝ) (g : Vec k) :
    let N := dagNet (blocks.map (convLink (h := h) (w := w))) tbl
    let y := convFn l0 a0 K0 h0 w0 h w x
    let F := fun z : V (I3 c0 h0 w0) =>
      s.net.fwd (flat (convFn l2 a2 K2 h w h2 w2 (SkipDag.U N blocks.length (convFn l0 a0 K0 h0 w0 h w z))))
    (∀ i, NoKink a0 (pre l0 K0 h0 w0 h w x i)) →
    (∀ (j : Nat) q, blocks[j]? = some q → ∀ i, NoKink q.2.1 (pre q.1 q.2.2 h w h w (SkipDag.P N j y) i)) →
    (∀ i, NoKink a2 (pre l2 K2 h w h2 w2 (SkipDag.U N blocks.length y) i)) →
    s.NoKinks (flat (convFn l2 a2 K2 h w h2 w2 (SkipDag.U N blocks.length y))) →
    IsGrad ℓ (F x) g →
    ∃ t ws bs gs γ,
      n.forward (T3 x) = .ok t ∧ t.act.getLast? = some (vecT (F x)) ∧
      n.backward (vecT g) t = .ok (ws, bs, gs) ∧ gs.getLast? = some (T3 γ) ∧ IsGrad (ℓ ∘ F) x γ := by
  intro N y F hk0 hkb hk2 hks hg
  obtain ⟨hkf, _, _, _, hoh⟩ := hl0.pos
  let head := consConv (oh := h) (ow := w) l0 a0 K0 h0 w0 (Chain.nil (iVol f h w) (eVol f h w))
  let tail := consConvFlat (oh := h2) (ow := w2) l2 a2 K2 h w (stackChain s)
  have hyy : (gnet head).fwd x = y := rfl
  have hF : ∀ z, dagFn (em := fun _ => eVol f h w) head (blocks.map (convLink (h := h) (w := w))) tbl tail z = F z := by
    intro z
    simp only [dagFn, head, tail, consConv, consConvFlat, gnet, GNet.fwd, stack_gnet_fwd, F, N, List.length_map]
  have hnet : IsDagNet (em := fun _ => eVol f h w) head (blocks.map (convLink (h := h) (w := w))) tbl tail n := by
    refine ⟨?_, ?_, hacc, hlb, hkeys, ?_⟩
    · rw [hl]; simp [LayerChain.layers, head, tail, consConv, consConvFlat, stackChain_layers]
    · rw [hc]; simp [LayerChain.layers, head, consConv]
    · simpa using hbd
  have hget : ∀ (j : Nat) (lk : Link (iVol f h w)), (blocks.map (convLink (h := h) (w := w)))[j]? = some lk →
      ∃ q, blocks[j]? = some q ∧ lk = convLink q := by
    intro j lk hlk
    rw [List.getElem?_map] at hlk
    cases hq : blocks[j]? with
    | none => rw [hq] at hlk; cases hlk
    | some q => rw [hq] at hlk; simp only [Option.map_some, Option.some.injEq] at hlk; exact ⟨q, rfl, hlk.symm⟩
  have r0 := real_conv l0 a0 K0 hl0 ha0 hf0 x
  have r2 := real_conv_flat l2 a2 K2 hl2 ha2 hf2 (SkipDag.U N blocks.length y)
  have key := dag_network_gradient (em := fun _ => eVol f h w) head (blocks.map (convLink (h := h) (w := w))) tbl tail n hnet
    (fun _ _ _ => compat_of_encAdd (encAdd_vol f h w hkf hoh)) x
  have := key
    (show _ ∧ _ ∧ _ from ⟨r0.1, r0.2, trivial⟩)
    (fun j lk hlk => by
      obtain ⟨q, hq, rfl⟩ := hget j lk hlk
      have hb := hbl q (List.mem_of_getElem? hq)
      exact convLink_real q hb.1 hb.2.1 hb.2.2 _)
    (by
      rw [hyy, List.length_map]
      exact (show _ ∧ _ ∧ _ from ⟨r2.1, r2.2, stackChain_real s _ hv⟩))
    (show _ ∧ _ from ⟨vjp_conv l0 a0 K0 hl0 ha0 x hk0, trivial⟩)
    (fun j lk hlk => by
      obtain ⟨q, hq, rfl⟩ := hget j lk hlk
      have hb := hbl q (List.mem_of_getElem? hq)
      rw [hyy]
      exact convLink_vjp q hb.1 hb.2.1 _ (hkb j q hq))
    (by
      rw [hyy, List.length_map]
      exact (show _ ∧ _ from ⟨vjp_conv_flat l2 a2 K2 hl2 ha2 _ hk2, stackChain_ok s _ hv hks⟩))
    ℓ g (by rw [hF]; exact hg)
  rw [funext hF] at this
  obtain ⟨t, ws, bs, gs, γ, h1, h2, h3, h4, h5, _⟩ := this
  exact ⟨t, ws, bs, gs, γ, h1, h2, h3, h4, h5⟩

open LayerChain SkipWalk SkipNet VJP ChainLinks DenseStack DenseBridge in
/-- **instance: every weight matrix of a residual perceptron** — in the setting of `resnet_mlp_gradient`, the
    weight gradient `Network.backward` records for the block at position `c'` (walk position
    `s3.layers.length + (blocks.length - (c'+1))`, the walk goes from the last layer to the first) is, entry by
    entry, the partial derivative of the objective with respect to that entry of the block's weight matrix —
    for ANY table of additive skip connections among the blocks -/
theorem resnet_mlp_weight_gradient {n0 m k : ℕ} (n : Network ℝ) (s1 : Stack n0 m)
    (blocks : List (Act × V (Fin m × Fin m) × Vec m)) (tbl : List (Nat × Nat)) (s3 : Stack m k)
    (hl : n.layers = s1.layers ++ (blocks.map denseLink).map (·.l) ++ s3.layers)
    (hc : n.connect = tbl.map (shift s1.layers.length))
    (hacc : n.skipaccumulation = .add) (hlb : n.loopbacks = [])
    (hkeys : (tbl.map Prod.fst).Nodup) (hbd : ∀ e ∈ tbl, e.2 ≤ e.1 ∧ e.1 < blocks.length)
    (hv1 : s1.Valid) (hvb : ∀ q ∈ blocks, q.1 ≠ .softmax) (hm : 0 < m) (hv3 : s3.Valid) (x : Vec n0)
    (ℓ : Vec k → ℝ) (g : Vec k)
    (c' : Nat) (a : Act) (W : V (Fin m × Fin m)) (b : Vec m) (hq : blocks[c']? = some (a, W, b)) :
    let N := dagNet (blocks.map denseLink) tbl
    let y := s1.net.fwd x
    let F := fun z : Vec n0 => s3.net.fwd (SkipDag.U N blocks.length (s1.net.fwd z))
    let lay := fun W' : V (Fin m × Fin m) => denseFn (Act.f a) W' b (SkipDag.P N c' y)
    let bθ := fun δ : Vec m => weightGrad (delta (Act.df a) (densePre W b (SkipDag.P N c' y)) δ) (SkipDag.P N c' y)
    let FW := fun W' : V (Fin m × Fin m) => s3.net.fwd (SkipDagP.U (SkipDagP.paramNet N y c' lay bθ) blocks.length W')
    s1.NoKinks x →
    (∀ (j : Nat) q, blocks[j]? = some q → ∀ i, NoKink q.1 (densePre q.2.1 q.2.2 (SkipDag.P N j y) i)) →
    s3.NoKinks (SkipDag.U N blocks.length y) →
    IsGrad ℓ (F x) g →
    ∃ t ws bs gs ω,
      n.forward (vecT x) = .ok t ∧ n.backward (vecT g) t = .ok (ws, bs, gs) ∧
      ws[s3.layers.length + (blocks.length - (c' + 1))]? = some (.one (matT ω)) ∧
      FW W = F x ∧
      ∀ p, HasDerivAt (fun r => ℓ (FW (Function.update W p r))) (ω p) (W p) := by
  intro N y F lay bθ FW hk1 hkb hk3 hg
  have hcl : c' < blocks.length := by
    rcases Nat.lt_or_ge c' blocks.length with h1 | h1
    · exact h1
    · rw [List.getElem?_eq_none h1] at hq; cases hq
  have hy : (gnet (stackChain s1)).fwd x = y := stack_gnet_fwd s1 x
  have hF : ∀ z, dagFn (em := fun _ => eVec m) (stackChain s1) (blocks.map denseLink) tbl (stackChain s3) z = F z := by
    intro z
    simp only [dagFn, stack_gnet_fwd, F, N, List.length_map]
  have hnet : IsDagNet (em := fun _ => eVec m) (stackChain s1) (blocks.map denseLink) tbl (stackChain s3) n := by
    refine ⟨?_, ?_, hacc, hlb, hkeys, ?_⟩
    · rw [hl]; simp [stackChain_layers]
    · rw [hc]; simp [stackChain_layers]
    · simpa using hbd
  have hget : ∀ (j : Nat) (lk : Link (iVec m)), (blocks.map denseLink)[j]? = some lk → ∃ q, blocks[j]? = some q ∧ lk = denseLink q := by
    intro j lk hlk
    rw [List.getElem?_map] at hlk
    cases hq' : blocks[j]? with
    | none => rw [hq'] at hlk; cases hlk
    | some q => rw [hq'] at hlk; simp only [Option.map_some, Option.some.injEq] at hlk; exact ⟨q, rfl, hlk.symm⟩
  have hb : ∀ j (lk : Link (iVec m)), (blocks.map denseLink)[j]? = some lk →
      IsVJP lk.f (SkipDag.P N j ((gnet (stackChain s1)).fwd x)) (lk.b (SkipDag.P N j ((gnet (stackChain s1)).fwd x))) := by
    intro j lk hlk
    obtain ⟨q, hq', rfl⟩ := hget j lk hlk
    rw [hy]
    exact denseLink_vjp q (hvb q (List.mem_of_getElem? hq')) _ (hkb j q hq')
  have ht : (gnet (stackChain s3)).Ok (SkipDag.U N (blocks.map denseLink).length ((gnet (stackChain s1)).fwd x)) := by
    rw [hy, List.length_map]; exact stackChain_ok s3 _ hv3 hk3
  obtain ⟨t, ws, bs, gs, γ, h1, _, h3, _, _, hw⟩ :=
    dag_network_gradient (em := fun _ => eVec m) (stackChain s1) (blocks.map denseLink) tbl (stackChain s3) n hnet
    (fun _ _ _ => compat_of_encAdd (encAdd_vec m)) x
    (stackChain_real s1 x hv1)
    (fun j lk hlk => by
      obtain ⟨q, hq', rfl⟩ := hget j lk hlk
      exact denseLink_real q (hvb q (List.mem_of_getElem? hq')) hm _)
    (by rw [hy, List.length_map]; exact stackChain_real s3 _ hv3)
    (stackChain_ok s1 x hv1 hk1) hb ht ℓ g (by rw [hF]; exact hg)
  have hlk : (blocks.map denseLink)[c']? = some (denseLink (a, W, b)) := by
    rw [List.getElem?_map, hq]; rfl
  have hidx : (blocks.map denseLink).length - ((blocks.length - (c' + 1)) + 1) = c' := by
    rw [List.length_map]; omega
  have hwc := (hw (blocks.length - (c' + 1)) (denseLink (a, W, b)) (by rw [List.length_map]; omega) (by rw [hidx]; exact hlk)).1
  rw [hidx, stackChain_layers, hy] at hwc
  have hd : ∀ i, HasDerivAt (Act.f a) (Act.df a (densePre W b (SkipDag.P N c' y) i)) (densePre W b (SkipDag.P N c' y) i) :=
    fun i => DenseStack.act_hasDerivAt a (hvb _ (List.mem_of_getElem? hq)) _ (hkb c' _ hq i)
  obtain ⟨hval, hgrad⟩ := dag_parameter_gradient (em := fun _ => eVec m) (stackChain s1) (blocks.map denseLink) tbl (stackChain s3) n hnet x hb ht c'
    (by rw [List.length_map]; exact hcl) (denseLink (a, W, b)) hlk lay bθ W (by rw [hy]; rfl)
    (dense_vjp_weights (Act.f a) (Act.df a) W b (SkipDag.P N c' y) hd) ℓ g (by rw [hF]; exact hg)
  have hfun : dagParamFn (em := fun _ => eVec m) (stackChain s1) (blocks.map denseLink) tbl (stackChain s3) c' lay bθ x = FW := by
    funext W'
    simp only [dagParamFn, FW, stack_gnet_fwd, hy, List.length_map, N]
  rw [hfun] at hval hgrad
  rw [List.length_map] at hgrad
  refine ⟨t, ws, bs, gs, _, h1, h3, hwc, ?_, fun p => hgrad.partial p⟩
  rw [hval, hF]

open LayerChain SkipWalk SkipNet SkipPad SkipMLP VJP ChainLinks DenseStack DenseBridge in
theorem mlp_any_widths_skips_aux {W : ℕ} (n : Network ℝ) (ds : List (DLayer W)) (tbl : List (Nat × Nat))
    (L : Nat) (hL : (ds.map dlink).length = L)
    (hl : n.layers = ds.map (fun d => .dense (denseLayer d.a d.Wt d.b)))
    (hc : n.connect = tbl) (hacc : n.skipaccumulation = .add) (hlb : n.loopbacks = [])
    (hkeys : (tbl.map Prod.fst).Nodup) (hbd : ∀ e ∈ tbl, e.2 ≤ e.1 ∧ e.1 < ds.length)
    (hw : ∀ e ∈ tbl, slotAt ds e.1 = slotAt ds e.2)
    (hfit : Fits ds) (hv : ∀ d ∈ ds, d.Valid)
    (x₀ : Vec (slotAt ds 0).val) (ℓ : Vec (slotAt ds L).val → ℝ) (g₀ : Vec (slotAt ds L).val) :
    let N := dagNet (ds.map dlink) tbl
    let F := fun z : Vec (slotAt ds 0).val => proj (TW W) (slotAt ds L) (SkipDag.U N L (emb (TW W) (slotAt ds 0) z))
    (∀ (j : Nat) d, ds[j]? = some d → ∀ i, NoKink d.a (densePre d.Wt d.b (proj (TW W) d.k₁ (SkipDag.P N j (emb (TW W) (slotAt ds 0) x₀))) i)) →
    IsGrad ℓ (F x₀) g₀ →
    ∃ t ws bs gs γ,
      n.forward (vecT x₀) = .ok t ∧ t.act.getLast? = some (vecT (F x₀)) ∧
      n.backward (vecT g₀) t = .ok (ws, bs, gs) ∧ gs.getLast? = some (vecT γ) ∧ IsGrad (ℓ ∘ F) x₀ γ := by
  subst hL
  intro N F hk hg
  let head : Chain (UIdx (TW W)) (emW ds 0) (UIdx (TW W)) (emW ds 0) := Chain.nil _ _
  let tail : Chain (UIdx (TW W)) (emW ds (ds.map dlink).length) (UIdx (TW W)) (emW ds (ds.map dlink).length) := Chain.nil _ _
  have hnet : IsDagNet (em := emW ds) head (ds.map dlink) tbl tail n := by
    refine ⟨?_, ?_, hacc, hlb, hkeys, ?_⟩
    · rw [hl]; simp [LayerChain.layers, head, tail, dlink, liftLink]
    · rw [hc]
      simp only [LayerChain.layers, head, List.length_nil]
      have : shift 0 = id := by funext e; simp [shift]
      rw [this, List.map_id]
    · simpa using hbd
  have hget : ∀ (j : Nat) (lk : Link (UIdx (TW W))), (ds.map dlink)[j]? = some lk → ∃ d, ds[j]? = some d ∧ lk = dlink d := by
    intro j lk hlk
    rw [List.getElem?_map] at hlk
    cases hq : ds[j]? with
    | none => rw [hq] at hlk; cases hlk
    | some d => rw [hq] at hlk; simp only [Option.map_some, Option.some.injEq] at hlk; exact ⟨d, rfl, hlk.symm⟩
  have hcomp : ∀ t s, Assoc.find? tbl t = some s → Compat (emW ds t) (emW ds s) := by
    intro t s hts
    have := hw (t, s) (SkipTable.find?_mem tbl t s hts)
    simp only at this
    unfold emW
    rw [this]
    exact compat_same (TW W) encW _ (encAdd_W _)
  have hF' : ∀ z, proj (TW W) (slotAt ds (ds.map dlink).length)
      (dagFn (em := emW ds) head (ds.map dlink) tbl tail (emb (TW W) (slotAt ds 0) z)) = F z := by
    intro z
    simp only [dagFn, head, tail, gnet, GNet.fwd, F, N]
  have hgU : IsGrad (ℓ ∘ proj (TW W) (slotAt ds (ds.map dlink).length))
      (dagFn (em := emW ds) head (ds.map dlink) tbl tail (emb (TW W) (slotAt ds 0) x₀)) (emb (TW W) (slotAt ds (ds.map dlink).length) g₀) :=
    IsGrad.comp_vjp (isVJP_proj (TW W) (slotAt ds (ds.map dlink).length) _) (by rw [hF']; exact hg)
  obtain ⟨t, ws, bs, gs, γ, h1, h2, h3, h4, h5, _⟩ :=
    dag_network_gradient (em := emW ds) head (ds.map dlink) tbl tail n hnet hcomp (emb (TW W) (slotAt ds 0) x₀)
      trivial
      (fun j lk hlk => by
        obtain ⟨d, hd, rfl⟩ := hget j lk hlk
        exact dlink_real ds hfit j d hd (hv d (List.mem_of_getElem? hd)) _)
      trivial trivial
      (fun j lk hlk => by
        obtain ⟨d, hd, rfl⟩ := hget j lk hlk
        exact dlink_vjp d (hv d (List.mem_of_getElem? hd)) _ (hk j d hd))
      trivial (ℓ ∘ proj (TW W) (slotAt ds (ds.map dlink).length)) (emb (TW W) (slotAt ds (ds.map dlink).length) g₀) hgU
  refine ⟨t, ws, bs, gs, proj (TW W) (slotAt ds 0) γ, ?_, ?_, ?_, ?_, ?_⟩
  · have : emW ds 0 (emb (TW W) (slotAt ds 0) x₀) = vecT x₀ := by
      simp only [emW, encAt, encW, proj_emb]
    rw [← this]; exact h1
  · rw [h2]
    simp only [emW, encAt, encW, ← hF']
  · have : emW ds (ds.map dlink).length (emb (TW W) (slotAt ds (ds.map dlink).length) g₀) = vecT g₀ := by
      simp only [emW, encAt, encW, proj_emb]
    rw [← this]; exact h3
  · rw [h4]
    simp only [emW, encAt, encW]
  · have h6 := IsGrad.comp_vjp (isVJP_emb (TW W) (slotAt ds 0) x₀) h5
    have : (ℓ ∘ proj (TW W) (slotAt ds (ds.map dlink).length) ∘ dagFn (em := emW ds) head (ds.map dlink) tbl tail) ∘ emb (TW W) (slotAt ds 0) = ℓ ∘ F := by
      funext z
      simp only [Function.comp_apply, hF']
    rw [← this]
    exact h6

open LayerChain SkipWalk SkipNet SkipPad SkipMLP VJP ChainLinks DenseStack DenseBridge in
/-- **instance: perceptrons of ARBITRARY widths with any table of additive skip connections** — the layers `ds`
    (widths ≤ `W`, consecutive layers fitting) are the whole network; the table `tbl` of `(target, source)` pairs has
    distinct targets, sources not after targets, and connects positions of equal width.  Vectors of width `k` live
    in slot `k` of the universal index type `Σ k, Fin k` (zero elsewhere); `U` is the value recursion of
    `skip_values_spec` with layer `j` acting as "read slot `k₁`, apply the dense layer, write slot `k₂`".
    `Network.forward` on `x₀` ends in the network function's value, and the last gradient `Network.backward` hands on
    is the gradient of the objective with respect to `x₀`. -/
theorem mlp_any_widths_skips_gradient {W : ℕ} (n : Network ℝ) (ds : List (DLayer W)) (tbl : List (Nat × Nat))
    (hl : n.layers = ds.map (fun d => .dense (denseLayer d.a d.Wt d.b)))
    (hc : n.connect = tbl) (hacc : n.skipaccumulation = .add) (hlb : n.loopbacks = [])
    (hkeys : (tbl.map Prod.fst).Nodup) (hbd : ∀ e ∈ tbl, e.2 ≤ e.1 ∧ e.1 < ds.length)
    (hw : ∀ e ∈ tbl, slotAt ds e.1 = slotAt ds e.2)
    (hfit : Fits ds) (hv : ∀ d ∈ ds, d.Valid)
    (x₀ : Vec (slotAt ds 0).val) (ℓ : Vec (slotAt ds ds.length).val → ℝ) (g₀ : Vec (slotAt ds ds.length).val) :
    let N := dagNet (ds.map dlink) tbl
    let F := fun z : Vec (slotAt ds 0).val => proj (TW W) (slotAt ds ds.length) (SkipDag.U N ds.length (emb (TW W) (slotAt ds 0) z))
    (∀ (j : Nat) d, ds[j]? = some d → ∀ i, NoKink d.a (densePre d.Wt d.b (proj (TW W) d.k₁ (SkipDag.P N j (emb (TW W) (slotAt ds 0) x₀))) i)) →
    IsGrad ℓ (F x₀) g₀ →
    ∃ t ws bs gs γ,
      n.forward (vecT x₀) = .ok t ∧ t.act.getLast? = some (vecT (F x₀)) ∧
      n.backward (vecT g₀) t = .ok (ws, bs, gs) ∧ gs.getLast? = some (vecT γ) ∧ IsGrad (ℓ ∘ F) x₀ γ :=
  mlp_any_widths_skips_aux n ds tbl ds.length (List.length_map _) hl hc hacc hlb hkeys hbd hw hfit hv x₀ ℓ g₀

open SkipNet SkipPad SkipMLP VJP DenseStack DenseBridge in
/-- what layer `j` of such a perceptron does to the padded vectors: read slot `k₁`, apply the dense layer, write
    slot `k₂` (every other slot zero) -/
theorem mlp_padded_layer_step {W : ℕ} (ds : List (DLayer W)) (tbl : List (Nat × Nat)) (j : Nat) (d : DLayer W)
    (hd : ds[j]? = some d) (x : V (Σ k, TW W k)) :
    SkipDag.U (dagNet (ds.map dlink) tbl) (j + 1) x =
      emb (TW W) d.k₂ (denseFn (Act.f d.a) d.Wt d.b (proj (TW W) d.k₁ (SkipDag.P (dagNet (ds.map dlink) tbl) j x))) := by
  rw [SkipDag.U_succ]
  simp only [dagNet, List.getElem?_map, hd, Option.map_some]
  rfl

open SkipMLP DenseStack in
/-- non-vacuity: widths 3 → 2 → 2 → 1 with a connection from position 1 to position 2 (both of width 2) -/
example :
    let d0 : DLayer 3 := ⟨3, 2, .tanh, fun _ => 1, fun _ => 0⟩
    let d1 : DLayer 3 := ⟨2, 2, .sigmoid, fun _ => 1, fun _ => 0⟩
    let d2 : DLayer 3 := ⟨2, 1, .linear, fun _ => 1, fun _ => 0⟩
    Fits [d0, d1, d2] ∧ (∀ d ∈ [d0, d1, d2], d.Valid) ∧
    (∀ e ∈ [((2 : Nat), (1 : Nat))], slotAt [d0, d1, d2] e.1 = slotAt [d0, d1, d2] e.2) ∧
    (∀ e ∈ [((2 : Nat), (1 : Nat))], e.2 ≤ e.1 ∧ e.1 < [d0, d1, d2].length) := by
  intro d0 d1 d2
  refine ⟨?_, ?_, ?_, ?_⟩
  · intro j d d' h1 h2
    match j, h1, h2 with
    | 0, h1, h2 => simp at h1 h2; subst h1; subst h2; rfl
    | 1, h1, h2 => simp at h1 h2; subst h1; subst h2; rfl
    | 2, h1, h2 => simp at h2
    | j + 3, h1, _ => simp at h1
  · intro d hd
    simp only [List.mem_cons, List.not_mem_nil, or_false] at hd
    rcases hd with rfl | rfl | rfl <;> exact ⟨by decide, by decide, by decide⟩
  · intro e he
    simp only [List.mem_singleton] at he
    subst he
    rfl
  · intro e he
    simp only [List.mem_singleton] at he
    subst he
    decide

open LayerChain SkipWalk SkipNet SkipPad SkipTyped VJP in
/-- **the general form: any sequence of typed layers with any table of additive skip connections between positions of
    one shape** — the layers `ds` are given with the shapes ("slots" `k₁ → k₂`, any finite family `T` of index types
    with encodings `enc`) they map between and the vector functions they realise (every layer kind that is a link of
    C01's chain theorem is such a typed layer: dense, convolution, deconvolution, max-pool, with or without
    flattening); the table connects positions of equal slot whose encoding adds (`EncAdd`).  On the model's own
    `Network.forward` / `Network.backward` folds the network computes the value recursion `U` (layer `j`: read slot
    `k₁`, apply its function, write slot `k₂` — `SkipTyped.padded_layer_step`) and hands back the gradient of the
    objective. -/
theorem typed_layers_any_skips_network_gradient {K : Type} [Fintype K] [DecidableEq K] [Inhabited K] {T : K → Type}
    [∀ k, Fintype (T k)] (enc : (k : K) → Enc ⟨T k⟩) (n : Network ℝ) (ds : List (TLink T)) (tbl : List (Nat × Nat))
    (hl : n.layers = ds.map (·.l))
    (hc : n.connect = tbl) (hacc : n.skipaccumulation = .add) (hlb : n.loopbacks = [])
    (hkeys : (tbl.map Prod.fst).Nodup) (hbd : ∀ e ∈ tbl, e.2 ≤ e.1 ∧ e.1 < ds.length)
    (hw : ∀ e ∈ tbl, SkipTyped.slotAt ds e.1 = SkipTyped.slotAt ds e.2 ∧ EncAdd (enc (SkipTyped.slotAt ds e.1)))
    (hfit : SkipTyped.Fits ds)
    (x₀ : V (T (SkipTyped.slotAt ds 0))) (ℓ : V (T (SkipTyped.slotAt ds ds.length)) → ℝ) (g₀ : V (T (SkipTyped.slotAt ds ds.length))) :
    let N := dagNet (ds.map tlink) tbl
    let F := fun z : V (T (SkipTyped.slotAt ds 0)) =>
      proj T (SkipTyped.slotAt ds ds.length) (SkipDag.U N ds.length (emb T (SkipTyped.slotAt ds 0) z))
    (∀ (j : Nat) d, ds[j]? = some d → d.Real enc (proj T d.k₁ (SkipDag.P N j (emb T (SkipTyped.slotAt ds 0) x₀)))) →
    (∀ (j : Nat) d, ds[j]? = some d → IsVJP d.f (proj T d.k₁ (SkipDag.P N j (emb T (SkipTyped.slotAt ds 0) x₀)))
      (d.b (proj T d.k₁ (SkipDag.P N j (emb T (SkipTyped.slotAt ds 0) x₀))))) →
    IsGrad ℓ (F x₀) g₀ →
    ∃ t ws bs gs γ,
      n.forward (enc (SkipTyped.slotAt ds 0) x₀) = .ok t ∧ t.act.getLast? = some (enc (SkipTyped.slotAt ds ds.length) (F x₀)) ∧
      n.backward (enc (SkipTyped.slotAt ds ds.length) g₀) t = .ok (ws, bs, gs) ∧
      gs.getLast? = some (enc (SkipTyped.slotAt ds 0) γ) ∧ IsGrad (ℓ ∘ F) x₀ γ :=
  typed_skip_network_gradient enc n ds tbl hl hc hacc hlb hkeys hbd hw hfit x₀ ℓ g₀

open LayerChain SkipWalk SkipNet SkipReshape VJP ChainLinks DenseStack DenseBridge ConvVJP ConvBridge ConvNet Flat3 in
/-- **a connection from a spatial position into a flat one** ("also when one is flat and the other spatial with the
    same element count"): a shape-preserving convolution `l` on `c × h × w` whose output is flattened, a square dense
    layer `(a, W, b)` that is the target of a connection from the convolution's input (the network input, spatial),
    then a dense stack.  `Network::skip_input` reshapes the `c × h × w` source to the flat target's shape and adds;
    `backward` reshapes the target's processed-input gradient back to `c × h × w` and adds it to what came back through
    the convolution.  The dense layer processes `flat (conv x) + flat x`, and the gradient handed back to the image is
    the gradient of the objective. -/
theorem spatial_source_into_flat_target_gradient {c h w kh kw k : ℕ} (n : Network ℝ)
    (l : Conv ℝ) (a0 : Act) (K : V (I4 c c kh kw)) (hl0 : IsConv l a0 K h w h w) (ha0 : a0 ≠ .softmax) (hf0 : l.flatten = true)
    (a : Act) (W : V (Fin (c * h * w) × Fin (c * h * w))) (b : Vec (c * h * w)) (ha : a ≠ .softmax) (hw : 0 < w)
    (s : Stack (c * h * w) k) (hv : s.Valid)
    (hl : n.layers = [.conv l, .dense (denseLayer a W b)] ++ s.layers) (hc : n.connect = [(1, 0)])
    (hacc : n.skipaccumulation = .add) (hlb : n.loopbacks = [])
    (x : V (I3 c h w)) (ℓ : Vec k → ℝ) (g : Vec k) :
    let F := fun z : V (I3 c h w) => s.net.fwd (denseFn (Act.f a) W b (flat (convFn l a0 K h w h w z) + flat z))
    (∀ i, NoKink a0 (pre l K h w h w x i)) →
    (∀ i, NoKink a (densePre W b (flat (convFn l a0 K h w h w x) + flat x) i)) →
    s.NoKinks (denseFn (Act.f a) W b (flat (convFn l a0 K h w h w x) + flat x)) →
    IsGrad ℓ (F x) g →
    ∃ t ws bs gs γ,
      n.forward (T3 x) = .ok t ∧ t.act.getLast? = some (vecT (F x)) ∧
      n.backward (vecT g) t = .ok (ws, bs, gs) ∧ gs.getLast? = some (T3 γ) ∧ IsGrad (ℓ ∘ F) x γ := by
  intro F hk0 hk1 hks hg
  obtain ⟨hcp, _, _, hhp, _⟩ := hl0.pos
  have hm : 0 < c * h * w := Nat.mul_pos (Nat.mul_pos hcp hhp) hw
  let em : Nat → Enc (iVec (c * h * w)) := fun j => if j = 0 then eVolFlat c h w else eVec (c * h * w)
  let body : List (Link (iVec (c * h * w))) := [convFlatLink (h := h) (w := w) (l, a0, K), denseLink (a, W, b)]
  let head : Chain (iVec (c * h * w)) (em 0) (iVec (c * h * w)) (em 0) := Chain.nil _ _
  let tail : Chain (iVec (c * h * w)) (em body.length) (iVec k) (eVec k) := stackChain s
  have hnet : IsDagNet (em := em) head body [(1, 0)] tail n := by
    refine ⟨?_, ?_, hacc, hlb, by decide, by simp [body]⟩
    · rw [hl]; simp [LayerChain.layers, head, tail, body, convFlatLink, denseLink, stackChain_layers]
    · rw [hc]; simp [LayerChain.layers, head, shift]
  have hcomp : ∀ t s', Assoc.find? [((1 : Nat), (0 : Nat))] t = some s' → Compat (em t) (em s') := by
    intro t s' hts
    simp only [Assoc.find?] at hts
    split at hts
    · rename_i h1
      simp only [Option.some.injEq] at hts
      subst h1; subst hts
      exact compat_flat_vol hcp hhp
    · cases hts
  have hS0 : (dagNet body [(1, 0)]).S 0 = none := rfl
  have hS1 : (dagNet body [(1, 0)]).S 1 = some 0 := rfl
  have hf0' : (dagNet body [(1, 0)]).f 0 = fun u => flat (convFn l a0 K h w h w (unflat u)) := rfl
  have hf1' : (dagNet body [(1, 0)]).f 1 = denseFn (Act.f a) W b := rfl
  have hvals : ∀ z : V (I3 c h w),
      SkipDag.P (dagNet body [(1, 0)]) 0 (flat z) = flat z ∧
      SkipDag.P (dagNet body [(1, 0)]) 1 (flat z) = flat (convFn l a0 K h w h w z) + flat z ∧
      SkipDag.U (dagNet body [(1, 0)]) 2 (flat z) = denseFn (Act.f a) W b (flat (convFn l a0 K h w h w z) + flat z) := by
    intro z
    have hU0 : SkipDag.U (dagNet body [(1, 0)]) 0 (flat z) = flat z := by rw [SkipDag.U]
    have hP0 : SkipDag.P (dagNet body [(1, 0)]) 0 (flat z) = flat z := by rw [P_of_none _ _ _ hS0, hU0]
    have hU1 : SkipDag.U (dagNet body [(1, 0)]) 1 (flat z) = flat (convFn l a0 K h w h w z) := by
      rw [SkipDag.U_succ, hP0, hf0']
      simp only [unflat_flat]
    have hP1 : SkipDag.P (dagNet body [(1, 0)]) 1 (flat z) = flat (convFn l a0 K h w h w z) + flat z := by
      rw [P_of_some _ _ _ _ hS1 (Nat.zero_le _), hU1, hU0]
    refine ⟨hP0, hP1, ?_⟩
    rw [SkipDag.U_succ, hP1, hf1']
  set u0 : Vec (c * h * w) := flat x with hu0
  obtain ⟨hP0, hP1, hU2⟩ := hvals x
  rw [← hu0] at hP0 hP1 hU2
  have hFz : ∀ z, dagFn (em := em) head body [(1, 0)] tail (flat z) = F z := by
    intro z
    show (gnet (stackChain s)).fwd (SkipDag.U (dagNet body [(1, 0)]) 2 (flat z)) = _
    rw [stack_gnet_fwd, (hvals z).2.2]
  have hFx : dagFn (em := em) head body [(1, 0)] tail u0 = F x := hFz x
  have hreal : ∀ j (lk : Link (iVec (c * h * w))), body[j]? = some lk →
      lk.Real (em j) (em (j + 1)) (SkipDag.P (dagNet body [(1, 0)]) j ((gnet head).fwd u0)) := by
    intro j lk hlk
    match j, hlk with
    | 0, hlk =>
      simp only [body, List.getElem?_cons_zero, Option.some.injEq] at hlk
      subst hlk
      exact convFlatLink_real (l, a0, K) hl0 ha0 hf0 _
    | 1, hlk =>
      simp only [body, List.getElem?_cons_succ, List.getElem?_cons_zero, Option.some.injEq] at hlk
      subst hlk
      exact denseLink_real (a, W, b) ha hm _
    | j + 2, hlk => simp [body] at hlk
  have hvjp : ∀ j (lk : Link (iVec (c * h * w))), body[j]? = some lk →
      IsVJP lk.f (SkipDag.P (dagNet body [(1, 0)]) j ((gnet head).fwd u0)) (lk.b (SkipDag.P (dagNet body [(1, 0)]) j ((gnet head).fwd u0))) := by
    intro j lk hlk
    match j, hlk with
    | 0, hlk =>
      simp only [body, List.getElem?_cons_zero, Option.some.injEq] at hlk
      subst hlk
      have : (gnet head).fwd u0 = u0 := rfl
      rw [this, hP0]
      exact convFlatLink_vjp (l, a0, K) hl0 ha0 u0 (by simpa [hu0, unflat_flat] using hk0)
    | 1, hlk =>
      simp only [body, List.getElem?_cons_succ, List.getElem?_cons_zero, Option.some.injEq] at hlk
      subst hlk
      have : (gnet head).fwd u0 = u0 := rfl
      rw [this, hP1]
      exact denseLink_vjp (a, W, b) ha _ hk1
    | j + 2, hlk => simp [body] at hlk
  have htr : Real tail (SkipDag.U (dagNet body [(1, 0)]) body.length ((gnet head).fwd u0)) := by
    show Real (stackChain s) (SkipDag.U (dagNet body [(1, 0)]) 2 u0)
    exact stackChain_real s _ hv
  have hto : (gnet tail).Ok (SkipDag.U (dagNet body [(1, 0)]) body.length ((gnet head).fwd u0)) := by
    show (gnet (stackChain s)).Ok (SkipDag.U (dagNet body [(1, 0)]) 2 u0)
    rw [hU2]
    exact stackChain_ok s _ hv hks
  obtain ⟨t, ws, bs, gs, γ, h1, h2, h3, h4, h5, _⟩ :=
    dag_network_gradient (em := em) head body [(1, 0)] tail n hnet hcomp u0 trivial hreal htr trivial hvjp hto ℓ g
      (by rw [hFx]; exact hg)
  have hin : em 0 u0 = T3 x := by
    show eVolFlat c h w (flat x) = T3 x
    simp only [eVolFlat, unflat_flat]
  refine ⟨t, ws, bs, gs, unflat γ, ?_, ?_, h3, ?_, ?_⟩
  · rw [← hin]; exact h1
  · rw [h2, hFx]; rfl
  · rw [h4]; rfl
  · have h6 := IsGrad.comp_vjp (flat_isVJP (c := c) (h := h) (w := w) x) h5
    have : (ℓ ∘ dagFn (em := em) head body [(1, 0)] tail) ∘ flat = ℓ ∘ F := by
      funext z
      simp only [Function.comp_apply, hFz]
    rw [← this]
    exact h6

open LayerChain SkipWalk SkipNet SkipReshape VJP ChainLinks DenseStack DenseBridge ConvVJP ConvBridge ConvNet Flat3 in
/-- **a spatial source into any flat targets, among any other connections**: a shape-preserving convolution whose output
    is flattened, then any number of square dense layers, then a dense stack; ANY table of additive connections whose
    targets are dense layers — their sources may be the convolution's `c × h × w` input (position 0: `Network::skip_input`
    reshapes it to the flat target, `backward` reshapes the target's gradient back to `c × h × w`) or flat positions
    (chains, shared sources, nested, self connections).  The network computes the specified function of the image and
    hands back the gradient of the objective with respect to the image. -/
theorem spatial_source_into_flat_stack_gradient {c h w kh kw k : ℕ} (n : Network ℝ)
    (l : Conv ℝ) (a0 : Act) (K : V (I4 c c kh kw)) (hl0 : IsConv l a0 K h w h w) (ha0 : a0 ≠ .softmax) (hf0 : l.flatten = true)
    (blocks : List (Act × V (Fin (c * h * w) × Fin (c * h * w)) × Vec (c * h * w))) (tbl : List (Nat × Nat))
    (hvb : ∀ q ∈ blocks, q.1 ≠ .softmax) (hw : 0 < w)
    (s : Stack (c * h * w) k) (hv : s.Valid)
    (hl : n.layers = .conv l :: (blocks.map denseLink).map (·.l) ++ s.layers) (hc : n.connect = tbl)
    (hacc : n.skipaccumulation = .add) (hlb : n.loopbacks = [])
    (hkeys : (tbl.map Prod.fst).Nodup) (hbd : ∀ e ∈ tbl, e.2 ≤ e.1 ∧ 1 ≤ e.1 ∧ e.1 < blocks.length + 1)
    (x : V (I3 c h w)) (ℓ : Vec k → ℝ) (g : Vec k) :
    let N := dagNet (convFlatLink (h := h) (w := w) (l, a0, K) :: blocks.map denseLink) tbl
    let F := fun z : V (I3 c h w) => s.net.fwd (SkipDag.U N (blocks.length + 1) (flat z))
    (∀ i, NoKink a0 (pre l K h w h w x i)) →
    (∀ (j : Nat) q, blocks[j]? = some q → ∀ i, NoKink q.1 (densePre q.2.1 q.2.2 (SkipDag.P N (j + 1) (flat x)) i)) →
    s.NoKinks (SkipDag.U N (blocks.length + 1) (flat x)) →
    IsGrad ℓ (F x) g →
    ∃ t ws bs gs γ,
      n.forward (T3 x) = .ok t ∧ t.act.getLast? = some (vecT (F x)) ∧
      n.backward (vecT g) t = .ok (ws, bs, gs) ∧ gs.getLast? = some (T3 γ) ∧ IsGrad (ℓ ∘ F) x γ := by
  intro N F hk0 hkb hks hg
  obtain ⟨hcp, _, _, hhp, _⟩ := hl0.pos
  have hm : 0 < c * h * w := Nat.mul_pos (Nat.mul_pos hcp hhp) hw
  let body : List (Link (iVec (c * h * w))) := convFlatLink (h := h) (w := w) (l, a0, K) :: blocks.map denseLink
  have hlen : body.length = blocks.length + 1 := by simp [body]
  let head : Chain (iVec (c * h * w)) (emFS c h w 0) (iVec (c * h * w)) (emFS c h w 0) := Chain.nil _ _
  let tail : Chain (iVec (c * h * w)) (emFS c h w (blocks.length + 1)) (iVec k) (eVec k) := stackChain s
  have hnet : IsDagNet (em := emFS c h w) head body tbl tail n := by
    refine ⟨?_, ?_, hacc, hlb, hkeys, ?_⟩
    · rw [hl]; simp [LayerChain.layers, head, tail, body, convFlatLink]
      exact (stackChain_layers s).symm
    · rw [hc]
      simp only [LayerChain.layers, head, List.length_nil]
      have : shift 0 = id := by funext e; simp [shift]
      rw [this, List.map_id]
    · intro e he
      have := hbd e he
      rw [hlen]
      exact ⟨this.1, this.2.2⟩
  have hcomp : ∀ t s', Assoc.find? tbl t = some s' → Compat (emFS c h w t) (emFS c h w s') := by
    intro t s' hts
    have hmem := SkipTable.find?_mem tbl t s' hts
    have hb := hbd (t, s') hmem
    simp only at hb
    obtain ⟨t', rfl⟩ : ∃ t', t = t' + 1 := ⟨t - 1, by omega⟩
    cases s' with
    | zero => exact compat_flat_vol hcp hhp
    | succ s'' => exact compat_of_encAdd (encAdd_vec (c * h * w))
  have hS0 : (dagNet body tbl).S 0 = none := by
    show Assoc.find? tbl 0 = none
    apply SkipTable.find?_none
    intro h0
    obtain ⟨e, he, he0⟩ := List.mem_map.mp h0
    have := (hbd e he).2.1
    omega
  have hU0 : ∀ z : Vec (c * h * w), SkipDag.U (dagNet body tbl) 0 z = z := by intro z; rw [SkipDag.U]
  have hP0 : ∀ z : Vec (c * h * w), SkipDag.P (dagNet body tbl) 0 z = z := by
    intro z; rw [P_of_none _ _ _ hS0, hU0]
  have hFz : ∀ z, dagFn (em := emFS c h w) head body tbl tail (flat z) = F z := by
    intro z
    show (gnet (stackChain s)).fwd (SkipDag.U (dagNet body tbl) body.length (flat z)) = _
    rw [stack_gnet_fwd, hlen]
  have hgf : ∀ z : Vec (c * h * w), (gnet head).fwd z = z := fun _ => rfl
  have hreal : ∀ j (lk : Link (iVec (c * h * w))), body[j]? = some lk →
      lk.Real (emFS c h w j) (emFS c h w (j + 1)) (SkipDag.P (dagNet body tbl) j ((gnet head).fwd (flat x))) := by
    intro j lk hlk
    match j, hlk with
    | 0, hlk =>
      simp only [body, List.getElem?_cons_zero, Option.some.injEq] at hlk
      subst hlk
      exact convFlatLink_real (l, a0, K) hl0 ha0 hf0 _
    | j + 1, hlk =>
      simp only [body, List.getElem?_cons_succ, List.getElem?_map] at hlk
      cases hq : blocks[j]? with
      | none => rw [hq] at hlk; cases hlk
      | some q =>
        rw [hq] at hlk
        simp only [Option.map_some, Option.some.injEq] at hlk
        subst hlk
        exact denseLink_real q (hvb q (List.mem_of_getElem? hq)) hm _
  have hvjp : ∀ j (lk : Link (iVec (c * h * w))), body[j]? = some lk →
      IsVJP lk.f (SkipDag.P (dagNet body tbl) j ((gnet head).fwd (flat x))) (lk.b (SkipDag.P (dagNet body tbl) j ((gnet head).fwd (flat x)))) := by
    intro j lk hlk
    rw [hgf]
    match j, hlk with
    | 0, hlk =>
      simp only [body, List.getElem?_cons_zero, Option.some.injEq] at hlk
      subst hlk
      rw [hP0]
      exact convFlatLink_vjp (l, a0, K) hl0 ha0 (flat x) (by simpa [unflat_flat] using hk0)
    | j + 1, hlk =>
      simp only [body, List.getElem?_cons_succ, List.getElem?_map] at hlk
      cases hq : blocks[j]? with
      | none => rw [hq] at hlk; cases hlk
      | some q =>
        rw [hq] at hlk
        simp only [Option.map_some, Option.some.injEq] at hlk
        subst hlk
        exact denseLink_vjp q (hvb q (List.mem_of_getElem? hq)) _ (hkb j q hq)
  have htr : Real tail (SkipDag.U (dagNet body tbl) body.length ((gnet head).fwd (flat x))) := by
    show Real (stackChain s) _
    exact stackChain_real s _ hv
  have hto : (gnet tail).Ok (SkipDag.U (dagNet body tbl) body.length ((gnet head).fwd (flat x))) := by
    show (gnet (stackChain s)).Ok (SkipDag.U (dagNet body tbl) body.length (flat x))
    rw [hlen]
    exact stackChain_ok s _ hv hks
  obtain ⟨t, ws, bs, gs, γ, h1, h2, h3, h4, h5, _⟩ :=
    dag_network_gradient (em := emFS c h w) head body tbl tail n hnet hcomp (flat x) trivial hreal htr trivial hvjp hto ℓ g
      (by rw [hFz]; exact hg)
  have hin : emFS c h w 0 (flat x) = T3 x := by
    show eVolFlat c h w (flat x) = T3 x
    simp only [eVolFlat, unflat_flat]
  refine ⟨t, ws, bs, gs, unflat γ, ?_, ?_, h3, ?_, ?_⟩
  · rw [← hin]; exact h1
  · rw [h2, hFz]; rfl
  · rw [h4]; rfl
  · have h6 := IsGrad.comp_vjp (flat_isVJP (c := c) (h := h) (w := w) x) h5
    have : (ℓ ∘ dagFn (em := emFS c h w) head body tbl tail) ∘ flat = ℓ ∘ F := by
      funext z
      simp only [Function.comp_apply, hFz]
    rw [← this]
    exact h6

/-- non-vacuity of the table hypotheses of `spatial_source_into_flat_stack_gradient`: with three dense layers after the
    convolution, the image feeding the first and the third dense layer while the second feeds itself is an admissible
    table (`(target, source)`; distinct targets, sources not after their targets, every target a dense layer) -/
example : (([(1, 0), (3, 0), (2, 2)] : List (Nat × Nat)).map Prod.fst).Nodup ∧
    ∀ e ∈ ([(1, 0), (3, 0), (2, 2)] : List (Nat × Nat)), e.2 ≤ e.1 ∧ 1 ≤ e.1 ∧ e.1 < 3 + 1 := by
  refine ⟨by decide, ?_⟩
  intro e he
  simp only [List.mem_cons, List.not_mem_nil, or_false] at he
  rcases he with rfl | rfl | rfl <;> decide

open LayerChain SkipWalk SkipNet SkipPad SkipTyped SkipTypedE VJP in
/-- **typed layers, any table, position-indexed encodings**: `typed_layers_any_skips_network_gradient` with the tensor
    form of a slot chosen per position (`enc j k`): two positions of one slot can be connected as soon as the encodings
    at the two ends are compatible — equal encodings that add, or a flat and a `c × h × w` form of the same vectors
    (`SkipReshape.compat_flat_vol`, `compat_vol_flat`: the library's reshape between them is the row-major re-indexing).
    So flat↔spatial connections are covered for every typed layer sequence, in any number and combination. -/
theorem typed_layers_positional_encodings_gradient {K : Type} [Fintype K] [DecidableEq K] [Inhabited K] {T : K → Type} [∀ k, Fintype (T k)]
    (enc : Nat → (k : K) → Enc ⟨T k⟩) (n : Network ℝ) (ds : List (TLink T)) (tbl : List (Nat × Nat))
    (hl : n.layers = ds.map (·.l))
    (hc : n.connect = tbl) (hacc : n.skipaccumulation = .add) (hlb : n.loopbacks = [])
    (hkeys : (tbl.map Prod.fst).Nodup) (hbd : ∀ e ∈ tbl, e.2 ≤ e.1 ∧ e.1 < ds.length)
    (hw : ∀ e ∈ tbl, ∃ hs : slotAt ds e.2 = slotAt ds e.1, Compat (enc e.1 (slotAt ds e.1)) (hs ▸ enc e.2 (slotAt ds e.2)))
    (hfit : Fits ds)
    (x₀ : V (T (slotAt ds 0))) (ℓ : V (T (slotAt ds ds.length)) → ℝ) (g₀ : V (T (slotAt ds ds.length))) :
    let N := dagNet (ds.map tlink) tbl
    let F := fun z : V (T (slotAt ds 0)) => proj T (slotAt ds ds.length) (SkipDag.U N ds.length (emb T (slotAt ds 0) z))
    (∀ (j : Nat) d, ds[j]? = some d → RealAt enc j d (proj T d.k₁ (SkipDag.P N j (emb T (slotAt ds 0) x₀)))) →
    (∀ (j : Nat) d, ds[j]? = some d → IsVJP d.f (proj T d.k₁ (SkipDag.P N j (emb T (slotAt ds 0) x₀)))
      (d.b (proj T d.k₁ (SkipDag.P N j (emb T (slotAt ds 0) x₀))))) →
    IsGrad ℓ (F x₀) g₀ →
    ∃ t ws bs gs γ,
      n.forward (enc 0 (slotAt ds 0) x₀) = .ok t ∧ t.act.getLast? = some (enc ds.length (slotAt ds ds.length) (F x₀)) ∧
      n.backward (enc ds.length (slotAt ds ds.length) g₀) t = .ok (ws, bs, gs) ∧ gs.getLast? = some (enc 0 (slotAt ds 0) γ) ∧
      IsGrad (ℓ ∘ F) x₀ γ :=
  typed_skip_enc_network_gradient enc n ds tbl hl hc hacc hlb hkeys hbd hw hfit x₀ ℓ g₀

open LayerChain SkipWalk SkipNet SkipPad SkipMLP VJP ChainLinks DenseStack DenseBridge in
/-- **every weight matrix of a perceptron of arbitrary widths with any table of additive skip connections**: the weight
    gradient `Network.backward` records for layer `c'` (walk position `ds.length - (c'+1)`: the walk goes from the last
    layer to the first) is, entry by entry, the partial derivative of the objective with respect to that entry of the
    layer's weight matrix.  `FW W'` is the network output with layer `c'` using the weights `W'` (its processed input
    does not depend on its own weights; every other layer computes what it computed before on what it now receives —
    `parametrised_values_spec`). -/
theorem mlp_any_widths_weight_gradient {W : ℕ} (n : Network ℝ) (ds : List (DLayer W)) (tbl : List (Nat × Nat))
    (hl : n.layers = ds.map (fun d => .dense (denseLayer d.a d.Wt d.b)))
    (hc : n.connect = tbl) (hacc : n.skipaccumulation = .add) (hlb : n.loopbacks = [])
    (hkeys : (tbl.map Prod.fst).Nodup) (hbd : ∀ e ∈ tbl, e.2 ≤ e.1 ∧ e.1 < ds.length)
    (hw : ∀ e ∈ tbl, slotAt ds e.1 = slotAt ds e.2)
    (hfit : Fits ds) (hv : ∀ d ∈ ds, d.Valid)
    (x₀ : Vec (slotAt ds 0).val) (ℓ : V (Σ k, TW W k) → ℝ) (g : V (Σ k, TW W k))
    (c' : Nat) (d : DLayer W) (hd : ds[c']? = some d) :
    let N := dagNet (ds.map dlink) tbl
    let x := emb (TW W) (slotAt ds 0) x₀
    let p := proj (TW W) d.k₁ (SkipDag.P N c' x)
    let lay := fun W' : V (Fin d.k₂.val × Fin d.k₁.val) => emb (TW W) d.k₂ (denseFn (Act.f d.a) W' d.b p)
    let bθ := fun δ : V (Σ k, TW W k) => weightGrad (delta (Act.df d.a) (densePre d.Wt d.b p) (proj (TW W) d.k₂ δ)) p
    let FW := fun W' => SkipDagP.U (SkipDagP.paramNet N x c' lay bθ) ds.length W'
    (∀ (j : Nat) d', ds[j]? = some d' → ∀ i, NoKink d'.a (densePre d'.Wt d'.b (proj (TW W) d'.k₁ (SkipDag.P N j x)) i)) →
    IsGrad ℓ (SkipDag.U N ds.length x) g →
    ∃ t ws bs gs ω,
      n.forward (vecT x₀) = .ok t ∧ n.backward (emW ds ds.length g) t = .ok (ws, bs, gs) ∧
      ws[ds.length - (c' + 1)]? = some (.one (matT ω)) ∧
      FW d.Wt = SkipDag.U N ds.length x ∧
      ∀ q, HasDerivAt (fun r => ℓ (FW (Function.update d.Wt q r))) (ω q) (d.Wt q) := by
  intro N x p lay bθ FW hk hg
  have hcl : c' < ds.length := by
    rcases Nat.lt_or_ge c' ds.length with h1 | h1
    · exact h1
    · rw [List.getElem?_eq_none h1] at hd; cases hd
  have hlen : (ds.map dlink).length = ds.length := List.length_map _
  let head : Chain (UIdx (TW W)) (emW ds 0) (UIdx (TW W)) (emW ds 0) := Chain.nil _ _
  let tail : Chain (UIdx (TW W)) (emW ds (ds.map dlink).length) (UIdx (TW W)) (emW ds (ds.map dlink).length) := Chain.nil _ _
  have hnet : IsDagNet (em := emW ds) head (ds.map dlink) tbl tail n := by
    refine ⟨?_, ?_, hacc, hlb, hkeys, ?_⟩
    · rw [hl]; simp [LayerChain.layers, head, tail, dlink, liftLink]
    · rw [hc]
      simp only [LayerChain.layers, head, List.length_nil]
      have : shift 0 = id := by funext e; simp [shift]
      rw [this, List.map_id]
    · simpa using hbd
  have hget : ∀ (j : Nat) (lk : Link (UIdx (TW W))), (ds.map dlink)[j]? = some lk → ∃ d', ds[j]? = some d' ∧ lk = dlink d' := by
    intro j lk hlk
    rw [List.getElem?_map] at hlk
    cases hq : ds[j]? with
    | none => rw [hq] at hlk; cases hlk
    | some d' => rw [hq] at hlk; simp only [Option.map_some, Option.some.injEq] at hlk; exact ⟨d', rfl, hlk.symm⟩
  have hcomp : ∀ t s, Assoc.find? tbl t = some s → Compat (emW ds t) (emW ds s) := by
    intro t s hts
    have := hw (t, s) (SkipTable.find?_mem tbl t s hts)
    simp only at this
    unfold emW
    rw [this]
    exact compat_same (TW W) encW _ (encAdd_W _)
  have hb : ∀ j (lk : Link (UIdx (TW W))), (ds.map dlink)[j]? = some lk →
      IsVJP lk.f (SkipDag.P N j ((gnet head).fwd x)) (lk.b (SkipDag.P N j ((gnet head).fwd x))) := by
    intro j lk hlk
    obtain ⟨d', hd', rfl⟩ := hget j lk hlk
    exact dlink_vjp d' (hv d' (List.mem_of_getElem? hd')) _ (hk j d' hd')
  have hgU : IsGrad ℓ (dagFn (em := emW ds) head (ds.map dlink) tbl tail x) g := by
    show IsGrad ℓ (SkipDag.U N (ds.map dlink).length x) g
    rw [hlen]; exact hg
  obtain ⟨t, ws, bs, gs, γ, h1, _, h3, _, _, hwts⟩ :=
    dag_network_gradient (em := emW ds) head (ds.map dlink) tbl tail n hnet hcomp x
      trivial
      (fun j lk hlk => by
        obtain ⟨d', hd', rfl⟩ := hget j lk hlk
        exact dlink_real ds hfit j d' hd' (hv d' (List.mem_of_getElem? hd')) _)
      trivial trivial hb trivial ℓ g hgU
  have hlk : (ds.map dlink)[c']? = some (dlink d) := by rw [List.getElem?_map, hd]; rfl
  have hidx : (ds.map dlink).length - ((ds.length - (c' + 1)) + 1) = c' := by rw [hlen]; omega
  have hwc := (hwts (ds.length - (c' + 1)) (dlink d) (by rw [hlen]; omega) (by rw [hidx]; exact hlk)).1
  rw [hidx] at hwc
  simp only [LayerChain.layers, tail, List.length_nil, Nat.zero_add] at hwc
  have hdv := hv d (List.mem_of_getElem? hd)
  have hder : ∀ i, HasDerivAt (Act.f d.a) (Act.df d.a (densePre d.Wt d.b p i)) (densePre d.Wt d.b p i) :=
    fun i => DenseStack.act_hasDerivAt d.a hdv.1 _ (hk c' d hd i)
  have hθ : IsVJP lay d.Wt bθ := by
    have h1 := dense_vjp_weights (Act.f d.a) (Act.df d.a) d.Wt d.b p hder
    have h2 := isVJP_emb (TW W) d.k₂ (denseFn (Act.f d.a) d.Wt d.b p)
    exact IsVJP.comp h1 h2
  obtain ⟨hval, hgrad⟩ := dag_parameter_gradient (em := emW ds) head (ds.map dlink) tbl tail n hnet x hb trivial c'
    (by rw [hlen]; exact hcl) (dlink d) hlk lay bθ d.Wt rfl hθ ℓ g hgU
  have hfun : dagParamFn (em := emW ds) head (ds.map dlink) tbl tail c' lay bθ x = FW := by
    funext W'
    show SkipDagP.U (SkipDagP.paramNet N x c' lay bθ) (ds.map dlink).length W' = _
    rw [hlen]
  rw [hfun] at hval hgrad
  have eidx : (ds.map dlink).length - (c' + 1) = ds.length - (c' + 1) := by rw [hlen]
  rw [eidx] at hgrad
  refine ⟨t, ws, bs, gs, _, ?_, ?_, hwc, ?_, fun q => hgrad.partial q⟩
  · have : emW ds 0 x = vecT x₀ := by simp only [emW, encAt, encW, x, proj_emb]
    rw [← this]; exact h1
  · have : emW ds (ds.map dlink).length g = emW ds ds.length g := by rw [hlen]
    rw [← this]; exact h3
  · rw [hval]
    show SkipDag.U N (ds.map dlink).length x = _
    rw [hlen]

end C16
