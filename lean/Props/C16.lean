import Model.Network
import Proofs.VJP
import Proofs.SkipWalk

/-!
# C16 — skip connections combine source and target inputs as configured

About `Network.addConnect` (`Network::connect`), `Network.skipInput` (the input a layer processes),
`accumulate1`, and `Network.invertSkips` (which skip gradients `backward` adds to which layer).
The derivative clause ("with additive accumulation every parameter gradient remains the exact
derivative"): `additive_skip_gradient_is_derivative` proves, for any network `head → (mid with an
additive skip around it) → tail` of any depths whose layers have correct backward functions (C01), that
the reverse walk in which the skip's source receives the gradient coming back through `mid` **plus** the
gradient of the input the target processed is the transposed Jacobian — which is what the model's
`addSkipGradient` does (`skip_source_receives_target_gradient`), for every connection listed by
`invertSkips_complete` (none lost or duplicated).  On the implementation the gradients of chains,
shared sources and self-skips are checked against central differences.
-/

set_option linter.unusedSectionVars false

namespace C16
open Network Scalar

/-! ### the map: insert and lookup -/

theorem find?_insert_same {β : Type} (m : List (Nat × β)) (k : Nat) (v : β) :
    Assoc.find? (Assoc.insert m k v) k = some v := by
  induction m with
  | nil => simp [Assoc.insert, Assoc.find?]
  | cons e rest ih =>
    obtain ⟨k', v'⟩ := e
    simp only [Assoc.insert]
    split
    · simp [Assoc.find?]
    · rename_i hne
      simp only [Assoc.find?, hne, if_false]
      exact ih

theorem find?_insert_other {β : Type} (m : List (Nat × β)) (k k2 : Nat) (v : β) (h : k ≠ k2) :
    Assoc.find? (Assoc.insert m k v) k2 = Assoc.find? m k2 := by
  induction m with
  | nil => simp [Assoc.insert, Assoc.find?, h]
  | cons e rest ih =>
    obtain ⟨k', v'⟩ := e
    simp only [Assoc.insert]
    split
    · rename_i heq
      subst heq
      simp [Assoc.find?, h]
    · simp only [Assoc.find?]
      split
      · rfl
      · exact ih

variable {α : Type} [Scalar α]

/-! ### `connect`: kept or rejected, never silently replaced -/

/-- a successful `connect(infrom, into)` records exactly that pair and **keeps every earlier
    connection** -/
theorem connect_never_discards (n n' : Network α) (infrom into : Nat) (h : n.addConnect infrom into = .ok n') :
    Assoc.find? n'.connect into = some infrom ∧
    ∀ tgt from_, Assoc.find? n.connect tgt = some from_ → Assoc.find? n'.connect tgt = some from_ := by
  unfold addConnect at h
  split at h
  · simp at h
  · split at h
    · simp at h
    · rename_i hnew
      split at h
      · simp at h
      · simp at h
      · split at h
        · simp at h
        · simp at h
        · split at h
          · simp at h
          · simp only [Except.ok.injEq] at h
            subst h
            refine ⟨find?_insert_same _ _ _, ?_⟩
            intro tgt from_ hf
            have hne : into ≠ tgt := by
              intro e
              subst e
              rw [hf] at hnew
              simp at hnew
            simp only []
            rw [find?_insert_other _ _ _ _ hne]
            exact hf

/-- a second connection into a target that already has one is **rejected** (not a silent overwrite) -/
theorem connect_rejects_taken_target (n : Network α) (infrom into from0 : Nat)
    (hv : ¬ (infrom > n.layers.length ∨ into ≥ n.layers.length ∨ infrom > into))
    (h : Assoc.find? n.connect into = some from0) : n.addConnect infrom into = .error .reject := by
  simp [addConnect, hv, h]

/-- a connection whose target is free, whose indices are valid (`infrom ≤ into < #layers`) and whose
    two layer inputs hold the same number of elements is **accepted** — in particular any set of
    connections with pairwise distinct targets, in any order -/
theorem connect_accepts (n : Network α) (infrom into : Nat) (lf lt : Layer α) (k : Nat)
    (h1 : infrom ≤ into) (h2 : into < n.layers.length)
    (hfree : Assoc.find? n.connect into = none)
    (hlf : L.get n.layers infrom = .ok lf) (hlt : L.get n.layers into = .ok lt)
    (hcf : inputCount lf true = .ok k) (hct : inputCount lt false = .ok k) :
    n.addConnect infrom into = .ok { n with connect := Assoc.insert n.connect into infrom } := by
  have hv : ¬ (infrom > n.layers.length ∨ into ≥ n.layers.length ∨ infrom > into) := by omega
  simp [addConnect, hv, hfree, hlf, hlt, hcf, hct]

/-- different element counts are refused -/
theorem connect_rejects_count_mismatch (n : Network α) (infrom into : Nat) (lf lt : Layer α) (a b : Nat)
    (h1 : infrom ≤ into) (h2 : into < n.layers.length)
    (hfree : Assoc.find? n.connect into = none)
    (hlf : L.get n.layers infrom = .ok lf) (hlt : L.get n.layers into = .ok lt)
    (hcf : inputCount lf true = .ok a) (hct : inputCount lt false = .ok b) (hab : a ≠ b) :
    n.addConnect infrom into = .error .shape := by
  have hv : ¬ (infrom > n.layers.length ∨ into ≥ n.layers.length ∨ infrom > into) := by omega
  simp [addConnect, hv, hfree, hlf, hlt, hcf, hct, hab]

/-! ### the input a layer processes -/

/-- without a skip into layer `i`: its ordinary input -/
theorem skipInput_no_skip (n : Network α) (act : List (Tensor α)) (i : Nat) (x0 : Tensor α)
    (hx : L.get act i = .ok x0) (hn : Assoc.find? n.connect i = none) : n.skipInput act i = .ok x0 := by
  simp [skipInput, hx, hn]

/-- with a skip `a → i` of the same shape: the configured accumulation of the ordinary input with the
    input that was fed to layer `a` -/
theorem skipInput_same_shape (n : Network α) (act : List (Tensor α)) (i a : Nat) (x0 s : Tensor α)
    (hx : L.get act i = .ok x0) (hc : Assoc.find? n.connect i = some a) (hs : L.get act a = .ok s)
    (hshape : s.shape = x0.shape) :
    n.skipInput act i = accumulate1 n.skipaccumulation x0 s := by
  simp [skipInput, hx, hc, hs, hshape]

/-- … also when one is flat and the other spatial: the source is first reshaped (row-major, same element
    count — C14) to the target's shape -/
theorem skipInput_reshaped (n : Network α) (act : List (Tensor α)) (i a : Nat) (x0 s s' : Tensor α)
    (hx : L.get act i = .ok x0) (hc : Assoc.find? n.connect i = some a) (hs : L.get act a = .ok s)
    (hshape : s.shape ≠ x0.shape) (hr : s.reshape x0.shape = .ok s') :
    n.skipInput act i = accumulate1 n.skipaccumulation x0 s' := by
  simp [skipInput, hx, hc, hs, hshape, hr]

/-- the five accumulations -/
theorem accumulate_add (x y : Tensor α) : accumulate1 .add x y = x.add y := rfl
theorem accumulate_sub (x y : Tensor α) : accumulate1 .subtract x y = x.sub y := rfl
theorem accumulate_mul (x y : Tensor α) : accumulate1 .multiply x y = x.mul y := rfl
theorem accumulate_mean (x y : Tensor α) : accumulate1 .mean x y = x.mean [y] := rfl
theorem accumulate_overwrite (x y : Tensor α) : accumulate1 .overwrite x y = .ok y := rfl

/-! ### backward: every skip contributes to its source, exactly once -/

theorem mem_insertSorted (x y : Nat) : ∀ (l : List Nat), y ∈ insertSorted x l ↔ y = x ∨ y ∈ l
  | [] => by simp [insertSorted]
  | z :: zs => by
    simp only [insertSorted]
    split
    · simp
    · simp only [List.mem_cons, mem_insertSorted x y zs]
      constructor
      · rintro (h | h | h)
        · exact Or.inr (Or.inl h)
        · exact Or.inl h
        · exact Or.inr (Or.inr h)
      · rintro (h | h | h)
        · exact Or.inr (Or.inl h)
        · exact Or.inl h
        · exact Or.inr (Or.inr h)

/-- the targets recorded for source `a` after processing a list of `(target, source)` entries -/
theorem invertSkips_complete : ∀ (c : List (Nat × Nat)) (a b : Nat),
    b ∈ ((Assoc.find? (invertSkips c) a).getD []) ↔ (b, a) ∈ c := by
  intro c
  -- generalise over the accumulator of the fold
  suffices h : ∀ (c : List (Nat × Nat)) (m : List (Nat × List Nat)) (a b : Nat),
      b ∈ ((Assoc.find? (c.foldl invertStep m) a).getD []) ↔
      (b ∈ ((Assoc.find? m a).getD []) ∨ (b, a) ∈ c) by
    intro a b
    have := h c [] a b
    simp only [Assoc.find?, Option.getD_none, List.not_mem_nil, false_or] at this
    unfold invertSkips
    exact this
  intro c
  induction c with
  | nil => intro m a b; simp
  | cons e rest ih =>
    intro m a b
    obtain ⟨tgt, from_⟩ := e
    simp only [List.foldl_cons]
    rw [ih]
    simp only [List.mem_cons, Prod.mk.injEq]
    by_cases hfa : from_ = a
    · subst hfa
      cases hm : Assoc.find? m from_ with
      | none =>
        simp only [invertStep, hm, find?_insert_same, Option.getD_some, Option.getD_none, List.mem_singleton, List.not_mem_nil, false_or, and_true]
      | some ts =>
        simp only [invertStep, hm, find?_insert_same, Option.getD_some, mem_insertSorted, and_true]
        constructor
        · rintro ((h | h) | h)
          · exact Or.inr (Or.inl h)
          · exact Or.inl h
          · exact Or.inr (Or.inr h)
        · rintro (h | h | h)
          · exact Or.inl (Or.inr h)
          · exact Or.inl (Or.inl h)
          · exact Or.inr h
    · have hne : ¬ (b = tgt ∧ a = from_) := fun h => hfa h.2.symm
      cases hm : Assoc.find? m from_ with
      | none =>
        simp only [invertStep, hm]
        rw [find?_insert_other _ _ _ _ hfa]
        simp [hne]
      | some ts =>
        simp only [invertStep, hm]
        rw [find?_insert_other _ _ _ _ hfa]
        simp [hne]

/-! non-vacuity: the chain 0→1, 1→2 and the shared source 1→2, 1→3 -/
example : invertSkips [(1, 0), (2, 1)] = [(0, [1]), (1, [2])] := by decide
example : invertSkips [(3, 1), (2, 1)] = [(1, [2, 3])] := by decide


/-! ### the derivative clause -/

/-- what `backward` adds to the gradient `cur` handed on by source layer `idx` for the connection
    `idx → target` (`target ≠ idx`): the gradient with respect to the input the target processed,
    brought to the source's shape -/
theorem skip_source_receives_target_gradient (len idx target k : Nat) (ig cur gt gt' s : Tensor α)
    (processed : List (Tensor α)) (hne : target ≠ idx) (hk : checkedSub len target = .ok k)
    (hg : L.get processed k = .ok gt) (hr : gt.reshape cur.shape = .ok gt') (hs : cur.add gt' = .ok s) :
    addSkipGradient len idx ig processed (.ok cur) target = .ok s := by
  simp [addSkipGradient, hne, hk, hg, hr, hs]

/-- a connection from a layer to itself feeds the layer's own input gradient back once more -/
theorem self_skip_adds_own_gradient (len idx : Nat) (ig cur ig' s : Tensor α) (processed : List (Tensor α))
    (hr : ig.reshape cur.shape = .ok ig') (hs : cur.add ig' = .ok s) :
    addSkipGradient len idx ig processed (.ok cur) idx = .ok s := by
  simp [addSkipGradient, hr, hs]

open VJP in
/-- **with additive accumulation the gradients remain exact derivatives**: for `head`, `mid`, `tail` of
    any depths (layers with correct backward functions at the inputs they receive) and an additive
    skip connection around `mid`, the walk `γ ↦ head.bwd (mid.bwd δ + δ)`, `δ = tail.bwd γ`, is the
    transposed Jacobian of the network; hence for any differentiable objective every coordinate of the
    resulting input gradient is the partial derivative (and, by `C01.parameter_gradient`, likewise for
    the parameters of every layer) -/
theorem additive_skip_gradient_is_derivative {n m k : ℕ} (head : Net n m) (mid : Net m m) (tail : Net m k) (x : Vec n)
    (h1 : head.Ok x) (h2 : mid.Ok (head.fwd x)) (h3 : tail.Ok (mid.fwd (head.fwd x) + head.fwd x))
    (ℓ : Vec k → ℝ) (g : Vec k) (hg : IsGrad ℓ (tail.fwd (mid.fwd (head.fwd x) + head.fwd x)) g) (j : Fin n) :
    HasDerivAt (fun r => ℓ (tail.fwd (mid.fwd (head.fwd (Function.update x j r)) + head.fwd (Function.update x j r))))
      (head.bwd x (mid.bwd (head.fwd x) (tail.bwd (mid.fwd (head.fwd x) + head.fwd x) g) +
        tail.bwd (mid.fwd (head.fwd x) + head.fwd x) g) j) (x j) := by
  have hv := Net.vjp_with_skip head mid tail x h1 h2 h3
  exact (IsGrad.comp_vjp hv hg).partial j

/-! ### … and on the model's own `Network.forward` / `Network.backward` folds -/

open LayerChain SkipWalk VJP in
/-- **a network with one additive skip connection, any layer kinds** (`head`, then `mid` whose first layer is the
    skip's source, then `tail` whose first layer is the skip's target; every layer a link of the chain theorem:
    dense, convolution, deconvolution, max-pool, dense feedback block): on the model's own folds `Network.forward`
    makes the target process `mid(head x) + head x`, and the last gradient `Network.backward` hands on — computed
    with the source→targets table, the processed-input gradients and the `+=` at the source — is the gradient of
    the objective with respect to the network input -/
theorem additive_skip_network_gradient {a m b d c : Idx} {ea : Enc a} (em : Enc m) {eb : Enc b} {ed : Enc d} {ec : Enc c}
    (head : Chain a ea m em)
    (lm : Layer ℝ) (fm : V m.T → V b.T) (bm : V m.T → V b.T → V m.T) (prem : V m.T → Tensor ℝ) (rcm : V m.T → Recorded ℝ)
    (wgm : V m.T → V b.T → WGrad ℝ × BGrad ℝ) (midr : Chain b eb m em)
    (lt : Layer ℝ) (ft : V m.T → V d.T) (bt : V m.T → V d.T → V m.T) (pret : V m.T → Tensor ℝ) (rct : V m.T → Recorded ℝ)
    (wgt : V m.T → V d.T → WGrad ℝ × BGrad ℝ) (tailr : Chain d ed c ec)
    (n : Network ℝ) (hn : IsSkipNet em head lm fm bm prem rcm wgm midr lt ft bt pret rct wgt tailr n)
    (he : EncAdd em) (x : V a.T)
    (hrh : Real head x) (hrm : Real (midC em lm fm bm prem rcm wgm midr) ((gnet head).fwd x))
    (hrt : Real (tailC em lt ft bt pret rct wgt tailr)
      ((gnet (midC em lm fm bm prem rcm wgm midr)).fwd ((gnet head).fwd x) + (gnet head).fwd x))
    (hh : (gnet head).Ok x) (hm : (gnet (midC em lm fm bm prem rcm wgm midr)).Ok ((gnet head).fwd x))
    (ht : (gnet (tailC em lt ft bt pret rct wgt tailr)).Ok
      ((gnet (midC em lm fm bm prem rcm wgm midr)).fwd ((gnet head).fwd x) + (gnet head).fwd x))
    (ℓ : V c.T → ℝ) (g : V c.T)
    (hg : IsGrad ℓ (skipFn em head lm fm bm prem rcm wgm midr lt ft bt pret rct wgt tailr x) g) :
    ∃ t ws bs gs γ,
      n.forward (ea x) = .ok t ∧
      t.act.getLast? = some (ec (skipFn em head lm fm bm prem rcm wgm midr lt ft bt pret rct wgt tailr x)) ∧
      n.backward (ec g) t = .ok (ws, bs, gs) ∧ gs.getLast? = some (ea γ) ∧
      IsGrad (ℓ ∘ skipFn em head lm fm bm prem rcm wgm midr lt ft bt pret rct wgt tailr) x γ :=
  skip_network_gradient em head lm fm bm prem rcm wgm midr lt ft bt pret rct wgt tailr n hn he x hrh hrm hrt hh hm ht ℓ g hg

open LayerChain SkipWalk VJP ChainLinks DenseStack DenseBridge in
/-- **instance: a perceptron of any depth with an additive skip connection** around any stretch of its layers
    (`s1`, then `Stack.cons a2 W2 b2 r2` which the skip goes around, then `Stack.cons a3 W3 b3 r3`) -/
theorem mlp_with_skip_gradient {n0 m m' d k : ℕ} (n : Network ℝ) (s1 : Stack n0 m)
    (a2 : Act) (W2 : V (Fin m' × Fin m)) (b2 : Vec m') (r2 : Stack m' m)
    (a3 : Act) (W3 : V (Fin d × Fin m)) (b3 : Vec d) (r3 : Stack d k)
    (hl : n.layers = s1.layers ++ (Stack.cons a2 W2 b2 r2).layers ++ (Stack.cons a3 W3 b3 r3).layers)
    (hc : n.connect = [(s1.layers.length + (Stack.cons a2 W2 b2 r2).layers.length, s1.layers.length)])
    (hacc : n.skipaccumulation = .add) (hlb : n.loopbacks = [])
    (hv1 : s1.Valid) (hv2 : (Stack.cons a2 W2 b2 r2).Valid) (hv3 : (Stack.cons a3 W3 b3 r3).Valid) (x : Vec n0)
    (hk1 : s1.NoKinks x) (hk2 : (Stack.cons a2 W2 b2 r2).NoKinks (s1.net.fwd x))
    (hk3 : (Stack.cons a3 W3 b3 r3).NoKinks ((Stack.cons a2 W2 b2 r2).net.fwd (s1.net.fwd x) + s1.net.fwd x))
    (ℓ : Vec k → ℝ) (g : Vec k) :
    let F := fun z : Vec n0 => (Stack.cons a3 W3 b3 r3).net.fwd ((Stack.cons a2 W2 b2 r2).net.fwd (s1.net.fwd z) + s1.net.fwd z)
    IsGrad ℓ (F x) g →
    ∃ t ws bs gs γ,
      n.forward (vecT x) = .ok t ∧ t.act.getLast? = some (vecT (F x)) ∧
      n.backward (vecT g) t = .ok (ws, bs, gs) ∧ gs.getLast? = some (vecT γ) ∧ IsGrad (ℓ ∘ F) x γ := by
  intro F hg
  have hF : ∀ z, skipFn (eVec m) (stackChain s1) (.dense (denseLayer a2 W2 b2)) (denseFn (Act.f a2) W2 b2) (denseBwd a2 W2 b2)
      (fun x => vecT (densePre W2 b2 x)) (fun _ => .none) (denseWG a2 W2 b2) (stackChain r2)
      (.dense (denseLayer a3 W3 b3)) (denseFn (Act.f a3) W3 b3) (denseBwd a3 W3 b3)
      (fun x => vecT (densePre W3 b3 x)) (fun _ => .none) (denseWG a3 W3 b3) (stackChain r3) z = F z := by
    intro z
    simp only [skipFn, midC, tailC, gnet, GNet.fwd, stack_gnet_fwd, F, Stack.net, Net.fwd]
  have hfun : skipFn (eVec m) (stackChain s1) (.dense (denseLayer a2 W2 b2)) (denseFn (Act.f a2) W2 b2) (denseBwd a2 W2 b2)
      (fun x => vecT (densePre W2 b2 x)) (fun _ => .none) (denseWG a2 W2 b2) (stackChain r2)
      (.dense (denseLayer a3 W3 b3)) (denseFn (Act.f a3) W3 b3) (denseBwd a3 W3 b3)
      (fun x => vecT (densePre W3 b3 x)) (fun _ => .none) (denseWG a3 W3 b3) (stackChain r3) = F := funext hF
  have hy : (gnet (stackChain s1)).fwd x = s1.net.fwd x := stack_gnet_fwd s1 x
  have hmid : ∀ z, (gnet (midC (eVec m) (.dense (denseLayer a2 W2 b2)) (denseFn (Act.f a2) W2 b2) (denseBwd a2 W2 b2)
      (fun x => vecT (densePre W2 b2 x)) (fun _ => .none) (denseWG a2 W2 b2) (stackChain r2))).fwd z =
      (Stack.cons a2 W2 b2 r2).net.fwd z := fun z => stack_gnet_fwd (Stack.cons a2 W2 b2 r2) z
  have hnet : IsSkipNet (eVec m) (stackChain s1) (.dense (denseLayer a2 W2 b2)) (denseFn (Act.f a2) W2 b2) (denseBwd a2 W2 b2)
      (fun x => vecT (densePre W2 b2 x)) (fun _ => .none) (denseWG a2 W2 b2) (stackChain r2)
      (.dense (denseLayer a3 W3 b3)) (denseFn (Act.f a3) W3 b3) (denseBwd a3 W3 b3)
      (fun x => vecT (densePre W3 b3 x)) (fun _ => .none) (denseWG a3 W3 b3) (stackChain r3) n := by
    refine ⟨?_, ?_, hacc, hlb⟩
    · rw [hl]; simp [LayerChain.layers, stackChain_layers, Stack.layers]
    · rw [hc]; simp [LayerChain.layers, stackChain_layers, Stack.layers]
  have := skip_network_gradient (eVec m) (stackChain s1) (.dense (denseLayer a2 W2 b2)) (denseFn (Act.f a2) W2 b2) (denseBwd a2 W2 b2)
      (fun x => vecT (densePre W2 b2 x)) (fun _ => .none) (denseWG a2 W2 b2) (stackChain r2)
      (.dense (denseLayer a3 W3 b3)) (denseFn (Act.f a3) W3 b3) (denseBwd a3 W3 b3)
      (fun x => vecT (densePre W3 b3 x)) (fun _ => .none) (denseWG a3 W3 b3) (stackChain r3) n hnet (encAdd_vec m) x
      (stackChain_real s1 x hv1)
      (by rw [hy]; exact stackChain_real (Stack.cons a2 W2 b2 r2) _ hv2)
      (by rw [hmid, hy]; exact stackChain_real (Stack.cons a3 W3 b3 r3) _ hv3)
      (stackChain_ok s1 x hv1 hk1)
      (by rw [hy]; exact stackChain_ok (Stack.cons a2 W2 b2 r2) _ hv2 hk2)
      (by rw [hmid, hy]; exact stackChain_ok (Stack.cons a3 W3 b3 r3) _ hv3 hk3)
      ℓ g (by rw [hF]; exact hg)
  rw [hfun] at this
  exact this

open LayerChain SkipWalk VJP ChainLinks DenseStack DenseBridge ConvVJP ConvBridge ConvNet Flat3 in
/-- **instance: a residual connection around a convolution** — convolution `l0`, then a shape-preserving
    convolution `l1` that the skip goes around, then a convolution `l2` (flattened) and a dense stack of any depth:
    the target convolution processes `conv₁(y) + y`, and the gradient handed back to the input image is the
    gradient of the objective (every configuration of the three convolutions) -/
theorem residual_conv_network_gradient {c0 h0 w0 f kh0 kw0 h w kh1 kw1 f2 kh2 kw2 h2 w2 k : ℕ} (n : Network ℝ)
    (l0 : Conv ℝ) (a0 : Act) (K0 : V (I4 f c0 kh0 kw0)) (hl0 : IsConv l0 a0 K0 h0 w0 h w) (ha0 : a0 ≠ .softmax) (hf0 : l0.flatten = false)
    (l1 : Conv ℝ) (a1 : Act) (K1 : V (I4 f f kh1 kw1)) (hl1 : IsConv l1 a1 K1 h w h w) (ha1 : a1 ≠ .softmax) (hf1 : l1.flatten = false)
    (l2 : Conv ℝ) (a2 : Act) (K2 : V (I4 f2 f kh2 kw2)) (hl2 : IsConv l2 a2 K2 h w h2 w2) (ha2 : a2 ≠ .softmax) (hf2 : l2.flatten = true)
    (s : Stack (f2 * h2 * w2) k) (hv : s.Valid)
    (hl : n.layers = [.conv l0, .conv l1, .conv l2] ++ s.layers) (hc : n.connect = [(2, 1)])
    (hacc : n.skipaccumulation = .add) (hlb : n.loopbacks = [])
    (x : V (I3 c0 h0 w0)) :
    let y := convFn l0 a0 K0 h0 w0 h w x
    let p := convFn l1 a1 K1 h w h w y + y
    let F := fun z : V (I3 c0 h0 w0) =>
      s.net.fwd (flat (convFn l2 a2 K2 h w h2 w2 (convFn l1 a1 K1 h w h w (convFn l0 a0 K0 h0 w0 h w z) + convFn l0 a0 K0 h0 w0 h w z)))
    (∀ i, NoKink a0 (pre l0 K0 h0 w0 h w x i)) → (∀ i, NoKink a1 (pre l1 K1 h w h w y i)) →
    (∀ i, NoKink a2 (pre l2 K2 h w h2 w2 p i)) → s.NoKinks (flat (convFn l2 a2 K2 h w h2 w2 p)) →
    ∀ (ℓ : Vec k → ℝ) (g : Vec k), IsGrad ℓ (F x) g →
    ∃ t ws bs gs γ,
      n.forward (T3 x) = .ok t ∧ t.act.getLast? = some (vecT (F x)) ∧
      n.backward (vecT g) t = .ok (ws, bs, gs) ∧ gs.getLast? = some (T3 γ) ∧ IsGrad (ℓ ∘ F) x γ := by
  intro y p F hk0 hk1 hk2 hks ℓ g hg
  obtain ⟨hkf, hkc, hkh, hih, hoh⟩ := hl1.pos
  let head := consConv (oh := h) (ow := w) l0 a0 K0 h0 w0 (Chain.nil (iVol f h w) (eVol f h w))
  have hF : ∀ z, skipFn (eVol f h w) head (.conv l1) (convFn l1 a1 K1 h w h w) (convBwdX l1 a1 K1 h w h w)
      (fun x => T3 (pre l1 K1 h w h w x)) (fun _ => .none) (fun x g => (.one (T4 (convBwdKer l1 a1 K1 h w h w x g)), .one none))
      (Chain.nil (iVol f h w) (eVol f h w))
      (.conv l2) (fun x => flat (convFn l2 a2 K2 h w h2 w2 x)) (fun x g => convBwdX l2 a2 K2 h w h2 w2 x (unflat g))
      (fun x => T3 (pre l2 K2 h w h2 w2 x)) (fun _ => .none)
      (fun x g => (.one (T4 (convBwdKer l2 a2 K2 h w h2 w2 x (unflat g))), .one none)) (stackChain s) z = F z := by
    intro z
    simp only [skipFn, midC, tailC, head, consConv, gnet, GNet.fwd, stack_gnet_fwd, F]
  have hnet : IsSkipNet (eVol f h w) head (.conv l1) (convFn l1 a1 K1 h w h w) (convBwdX l1 a1 K1 h w h w)
      (fun x => T3 (pre l1 K1 h w h w x)) (fun _ => .none) (fun x g => (.one (T4 (convBwdKer l1 a1 K1 h w h w x g)), .one none))
      (Chain.nil (iVol f h w) (eVol f h w))
      (.conv l2) (fun x => flat (convFn l2 a2 K2 h w h2 w2 x)) (fun x g => convBwdX l2 a2 K2 h w h2 w2 x (unflat g))
      (fun x => T3 (pre l2 K2 h w h2 w2 x)) (fun _ => .none)
      (fun x g => (.one (T4 (convBwdKer l2 a2 K2 h w h2 w2 x (unflat g))), .one none)) (stackChain s) n := by
    refine ⟨?_, ?_, hacc, hlb⟩
    · rw [hl]; simp [LayerChain.layers, head, consConv, stackChain_layers]
    · rw [hc]; simp [LayerChain.layers, head, consConv]
  have hyy : (gnet head).fwd x = y := rfl
  have r0 := real_conv l0 a0 K0 hl0 ha0 hf0 x
  have r1 := real_conv l1 a1 K1 hl1 ha1 hf1 y
  have r2 := real_conv_flat l2 a2 K2 hl2 ha2 hf2 p
  have key := skip_network_gradient (eVol f h w) head (.conv l1) (convFn l1 a1 K1 h w h w) (convBwdX l1 a1 K1 h w h w)
      (fun x => T3 (pre l1 K1 h w h w x)) (fun _ => .none) (fun x g => (.one (T4 (convBwdKer l1 a1 K1 h w h w x g)), .one none))
      (Chain.nil (iVol f h w) (eVol f h w))
      (.conv l2) (fun x => flat (convFn l2 a2 K2 h w h2 w2 x)) (fun x g => convBwdX l2 a2 K2 h w h2 w2 x (unflat g))
      (fun x => T3 (pre l2 K2 h w h2 w2 x)) (fun _ => .none)
      (fun x g => (.one (T4 (convBwdKer l2 a2 K2 h w h2 w2 x (unflat g))), .one none)) (stackChain s) n hnet
      (encAdd_vol f h w hkf hih) x
  have := key
      (show _ ∧ _ ∧ _ from ⟨r0.1, r0.2, trivial⟩) (show _ ∧ _ ∧ _ from ⟨r1.1, r1.2, trivial⟩)
      (show _ ∧ _ ∧ _ from ⟨r2.1, r2.2, stackChain_real s _ hv⟩)
      (show _ ∧ _ from ⟨vjp_conv l0 a0 K0 hl0 ha0 x hk0, trivial⟩) (show _ ∧ _ from ⟨vjp_conv l1 a1 K1 hl1 ha1 y hk1, trivial⟩)
      (show _ ∧ _ from ⟨vjp_conv_flat l2 a2 K2 hl2 ha2 p hk2, stackChain_ok s _ hv hks⟩)
      ℓ g (by rw [hF]; exact hg)
  rw [funext hF] at this
  exact this

end C16
