import Model.Tensor
import Proofs.Zip
import Proofs.TensorWf
import Proofs.MeanG

/-!
# C15 — element-wise tensor arithmetic is exact, rank-generic and shape-checked

For every scalar type `α` (so in particular for IEEE single precision: the statements say *which*
scalar operation is applied to *which* pair of elements; that the operation itself is the IEEE one
is the bit-exact correspondence at `Float32`), every rank 1-D…4-D and every shape.
`Tensor.flat` is the row-major element sequence, `Tensor.Wf` says the recorded shape describes the data.
-/

set_option linter.unusedSectionVars false

namespace C15
variable {α : Type} [Scalar α]
open Tensor Scalar

/-- **rank-generic element-wise law**: `add/sub/mul/hadamard` on two well-formed tensors of the same
    shape (any rank) succeed, leave the shape unchanged, and combine the elements pairwise -/
theorem zipOp_spec (f : α → α → α) (a b : Tensor α) (ha : a.Wf) (hb : b.Wf) (hs : a.shape = b.shape) :
    ∃ r, zipOp f a b = .ok r ∧ r.shape = a.shape ∧ r.Wf ∧ r.flat = List.zipWith f a.flat b.flat := by
  obtain ⟨sa, da⟩ := a
  obtain ⟨sb, db⟩ := b
  simp only at hs
  subst hs
  cases sa with
  | single n =>
    cases da <;> cases db <;> simp [Wf] at ha hb
    rename_i x y
    refine ⟨⟨.single n, .single (L.zip1 f x y)⟩, by simp [zipOp], rfl, ?_, ?_⟩
    · simp [Wf, (L.zip1_spec f x y (by rw [ha, hb])).2, ha]
    · simp [flat, (L.zip1_spec f x y (by rw [ha, hb])).1]
  | double r c =>
    cases da <;> cases db <;> simp [Wf] at ha hb
    rename_i x y
    have dx : L.Dims2 x r c := ha
    have dy : L.Dims2 y r c := hb
    refine ⟨⟨.double r c, .double (L.zip2 f x y)⟩, by simp [zipOp], rfl, ?_, ?_⟩
    · exact L.zip2_dims f x y r c dx dy
    · exact L.zip2_flat f x y r c dx dy
  | triple c h w =>
    cases da <;> cases db <;> simp [Wf] at ha hb
    rename_i x y
    refine ⟨⟨.triple c h w, .triple (L.zip3 f x y)⟩, by simp [zipOp], rfl, ?_, ?_⟩
    · exact L.zip3_dims f x y c h w ha hb
    · exact L.zip3_flat f x y c h w ha hb
  | quadruple k c h w =>
    cases da <;> cases db <;> simp [Wf] at ha hb
    rename_i x y
    have dx : L.Dims4 x k c h w := ha
    have dy : L.Dims4 y k c h w := hb
    refine ⟨⟨.quadruple k c h w, .quadruple (L.zip4 f x y)⟩, by simp [zipOp], rfl, ?_, ?_⟩
    · exact L.zip4_dims f x y k c h w dx dy
    · exact L.zip4_flat f x y k c h w dx dy
  | nested n => cases da <;> simp [Wf] at ha

/-- operands whose recorded shapes differ are refused, whatever the data -/
theorem zipOp_rejects (f : α → α → α) (a b : Tensor α) (hs : a.shape ≠ b.shape) :
    zipOp f a b = .error .shape := by
  simp [zipOp, hs]

theorem add_spec (a b : Tensor α) (ha : a.Wf) (hb : b.Wf) (hs : a.shape = b.shape) :
    ∃ r, a.add b = .ok r ∧ r.shape = a.shape ∧ r.Wf ∧ r.flat = List.zipWith (· + ·) a.flat b.flat :=
  zipOp_spec _ a b ha hb hs

theorem sub_spec (a b : Tensor α) (ha : a.Wf) (hb : b.Wf) (hs : a.shape = b.shape) :
    ∃ r, a.sub b = .ok r ∧ r.shape = a.shape ∧ r.Wf ∧ r.flat = List.zipWith (· - ·) a.flat b.flat :=
  zipOp_spec _ a b ha hb hs

theorem mul_spec (a b : Tensor α) (ha : a.Wf) (hb : b.Wf) (hs : a.shape = b.shape) :
    ∃ r, a.mul b = .ok r ∧ r.shape = a.shape ∧ r.Wf ∧ r.flat = List.zipWith (· * ·) a.flat b.flat :=
  zipOp_spec _ a b ha hb hs

/-- scaled Hadamard product: `(a·b)·s`, in that order -/
theorem hadamard_spec (a b : Tensor α) (s : α) (ha : a.Wf) (hb : b.Wf) (hs : a.shape = b.shape) :
    ∃ r, a.hadamard b s = .ok r ∧ r.shape = a.shape ∧ r.Wf ∧
      r.flat = List.zipWith (fun x y => x * y * s) a.flat b.flat :=
  zipOp_spec _ a b ha hb hs

theorem add_rejects (a b : Tensor α) (hs : a.shape ≠ b.shape) : a.add b = .error .shape := zipOp_rejects _ a b hs
theorem sub_rejects (a b : Tensor α) (hs : a.shape ≠ b.shape) : a.sub b = .error .shape := zipOp_rejects _ a b hs
theorem mul_rejects (a b : Tensor α) (hs : a.shape ≠ b.shape) : a.mul b = .error .shape := zipOp_rejects _ a b hs
theorem hadamard_rejects (a b : Tensor α) (s : α) (hs : a.shape ≠ b.shape) : a.hadamard b s = .error .shape :=
  zipOp_rejects _ a b hs

/-- any element-wise map (division by a scalar, clamp) acts on every element, at every rank, and keeps
    shape and well-formedness -/
theorem mapData_spec (f : α → α) (t : Tensor α) (ht : t.Wf) :
    (mapData f t).shape = t.shape ∧ (mapData f t).Wf ∧ (mapData f t).flat = t.flat.map f := by
  obtain ⟨s, d⟩ := t
  cases d with
  | single x => cases s <;> simp [Wf] at ht; simp [mapData, Wf, flat, ht]
  | double x =>
    cases s <;> simp [Wf] at ht
    rename_i r c
    refine ⟨rfl, L.map2_dims f x r c ht, L.map2_flat f x⟩
  | triple x =>
    cases s <;> simp [Wf] at ht
    rename_i c h w
    refine ⟨rfl, L.map3_dims f x c h w ht, L.map3_flat f x⟩
  | quadruple x =>
    cases s <;> simp [Wf] at ht
    rename_i k c h w
    refine ⟨rfl, L.map4_dims f x k c h w ht, L.map4_flat f x⟩

theorem divScalar_spec (t : Tensor α) (s : α) (ht : t.Wf) :
    (t.divScalar s).shape = t.shape ∧ (t.divScalar s).Wf ∧ (t.divScalar s).flat = t.flat.map (· / s) :=
  mapData_spec _ t ht

/-- clamp: accepted when `lo ≤ hi`, every element is replaced by its clamped value -/
theorem clamp_spec (t : Tensor α) (lo hi : α) (ht : t.Wf) (h : le lo hi = true) :
    ∃ r, t.clamp lo hi = .ok r ∧ r.shape = t.shape ∧ r.Wf ∧ r.flat = t.flat.map (fun x => clampRaw x lo hi) := by
  obtain ⟨a, b, c⟩ := mapData_spec (fun x => clampRaw x lo hi) t ht
  exact ⟨_, by simp [clamp, h], a, b, c⟩

/-- clamped values lie in the interval, for any scalar order whose `lt` is irreflexive
    (true of IEEE `<` and of `ℝ`): `¬ r < lo` and `¬ hi < r` -/
theorem clampRaw_in_interval (x lo hi : α) (irr : ∀ a : α, lt a a = false) (h : lt hi lo = false) :
    lt (clampRaw x lo hi) lo = false ∧ lt hi (clampRaw x lo hi) = false := by
  unfold clampRaw
  by_cases h1 : lt x lo = true
  · simp [h1, h, irr]
  · simp only [h1]
    by_cases h2 : lt hi x = true
    · simp [h2, h, irr]
    · simp at h1 h2; simp [h1, h2]

/-- and a value already inside the interval is left alone -/
theorem clampRaw_id (x lo hi : α) (h1 : lt x lo = false) (h2 : lt hi x = false) : clampRaw x lo hi = x := by
  simp [clampRaw, h1, h2]

/-! ### mean over `k + 1` tensors -/

theorem heads_spec (os : List (V1 α)) (h : ∀ o ∈ os, o ≠ []) :
    heads os = some (os.map (fun o => o.getD 0 0)) := by
  induction os with
  | nil => rfl
  | cons o os ih =>
    have ho := h o (List.mem_cons_self ..)
    cases o with
    | nil => exact absurd rfl ho
    | cons x xs =>
      simp only [heads, ih (fun o ho => h o (List.mem_cons_of_mem _ ho)), List.map_cons, List.getD_cons_zero]

/-- the documented element-wise mean: position `i` becomes `(self[i] + Σ_j others[j][i]) / n` -/
def meanSpec1 (self : V1 α) (others : List (V1 α)) (n : α) : V1 α :=
  (List.range self.length).map (fun i => meanElem (self.getD i 0) (others.map (fun o => o.getD i 0)) n)

theorem mean1_spec (n : α) : ∀ (self : V1 α) (others : List (V1 α)),
    (∀ o ∈ others, o.length = self.length) → mean1 self others n = .ok (meanSpec1 self others n) := by
  intro self
  induction self with
  | nil => intro others _; rfl
  | cons v vs ih =>
    intro others h
    have hne : ∀ o ∈ others, o ≠ [] := by
      intro o ho e
      have := h o ho
      rw [e] at this; simp at this
    have htl : ∀ o ∈ others.map List.tail, o.length = vs.length := by
      intro o ho
      simp at ho
      obtain ⟨o', h1, h2⟩ := ho
      rw [← h2]; simp [h o' h1]
    have hrec := ih (others.map List.tail) htl
    unfold mean1 nzip1 at hrec ⊢
    simp only [meanG, heads_spec others hne, hrec]
    congr 1
    simp only [meanSpec1, List.length_cons, List.range_succ_eq_map, List.map_cons, List.map_map,
      List.getD_cons_zero]
    congr 1
    apply List.map_congr_left
    intro i _
    simp only [Function.comp, List.getD_cons_succ]
    congr 1
    apply List.map_congr_left
    intro o ho
    cases o with
    | nil => exact absurd rfl (hne _ ho)
    | cons x xs => simp

/-- `mean_inplace` at rank 1: accepted for `k ≥ 1` equal-shaped operands, shape unchanged, and every
    element is `(self + Σ others)/(k+1)` -/
theorem mean_spec_rank1 (d : V1 α) (others : List (V1 α)) (hk : others ≠ [])
    (h : ∀ o ∈ others, o.length = d.length) :
    (⟨.single d.length, .single d⟩ : Tensor α).mean (others.map (fun o => ⟨.single o.length, .single o⟩)) =
      .ok ⟨.single d.length, .single (meanSpec1 d others (ofNat' (others.length + 1)))⟩ := by
  have e3 : ∀ (os : List (V1 α)), L.mapM' asSingle
      (os.map (fun o => (⟨.single o.length, .single o⟩ : Tensor α))) = .ok os := by
    intro os
    induction os with
    | nil => rfl
    | cons o os ih => simp [L.mapM', ih, asSingle]
  cases others with
  | nil => exact absurd rfl hk
  | cons o os =>
    have hall : ((o :: os).map (fun o => (⟨.single o.length, .single o⟩ : Tensor α))).all
        (fun t => t.shape == Shape.single d.length) = true := by
      simp only [List.all_map, List.all_eq_true]
      intro x hx
      simp [h x hx]
    have hm := mean1_spec (ofNat' ((o :: os).length + 1)) d (o :: os) h
    have e3' := e3 (o :: os)
    simp only [List.map_cons] at hall e3' ⊢
    simp only [mean, hall, if_true, meanCore, List.length_cons, List.length_map] at hm ⊢
    rw [e3']
    simp only [hm]

/-! ### ranks 2, 3 and 4: the same element formula (`Proofs/MeanG.lean`: the n-ary zip, level by level) -/

/-- `mean_inplace` at rank 2: result `[i][j] = (self[i][j] + Σ_o o[i][j]) / (k+1)`, shape unchanged -/
theorem mean_spec_rank2 (d : V2 α) (others : List (V2 α)) (hh ww : Nat) (hk : others ≠ [])
    (hd : L.Dims2 d hh ww) (ho : ∀ o ∈ others, L.Dims2 o hh ww) :
    (⟨.double hh ww, .double d⟩ : Tensor α).mean (others.map (fun o => ⟨.double hh ww, .double o⟩)) =
      .ok ⟨.double hh ww, .double (MeanG.spec2 (fun v hs => meanElem v hs (ofNat' (others.length + 1))) d others)⟩ := by
  have e3 : ∀ (os : List (V2 α)), L.mapM' asDouble
      (os.map (fun o => (⟨.double hh ww, .double o⟩ : Tensor α))) = .ok os := by
    intro os
    induction os with
    | nil => rfl
    | cons o os ih => simp [L.mapM', ih, asDouble]
  cases others with
  | nil => exact absurd rfl hk
  | cons o os =>
    have hall : ((o :: os).map (fun o => (⟨.double hh ww, .double o⟩ : Tensor α))).all
        (fun t => t.shape == Shape.double hh ww) = true := by
      simp only [List.all_map, List.all_eq_true]
      intro x _
      simp
    have hm := MeanG.nzip2_spec (fun v hs => meanElem v hs (ofNat' ((o :: os).length + 1))) d (o :: os) hh ww hd ho
    have e3' := e3 (o :: os)
    simp only [List.map_cons] at hall e3' ⊢
    simp only [mean, hall, if_true, meanCore, mean2, List.length_cons, List.length_map] at hm ⊢
    rw [e3']
    simp only [hm]

/-- rank 3 -/
theorem mean_spec_rank3 (d : V3 α) (others : List (V3 α)) (c hh ww : Nat) (hk : others ≠ [])
    (hd : L.Dims3 d c hh ww) (ho : ∀ o ∈ others, L.Dims3 o c hh ww) :
    (⟨.triple c hh ww, .triple d⟩ : Tensor α).mean (others.map (fun o => ⟨.triple c hh ww, .triple o⟩)) =
      .ok ⟨.triple c hh ww, .triple (MeanG.spec3 (fun v hs => meanElem v hs (ofNat' (others.length + 1))) d others)⟩ := by
  have e3 : ∀ (os : List (V3 α)), L.mapM' asTriple
      (os.map (fun o => (⟨.triple c hh ww, .triple o⟩ : Tensor α))) = .ok os := by
    intro os
    induction os with
    | nil => rfl
    | cons o os ih => simp [L.mapM', ih, asTriple]
  cases others with
  | nil => exact absurd rfl hk
  | cons o os =>
    have hall : ((o :: os).map (fun o => (⟨.triple c hh ww, .triple o⟩ : Tensor α))).all
        (fun t => t.shape == Shape.triple c hh ww) = true := by
      simp only [List.all_map, List.all_eq_true]
      intro x _
      simp
    have hm := MeanG.nzip3_spec (fun v hs => meanElem v hs (ofNat' ((o :: os).length + 1))) d (o :: os) c hh ww hd ho
    have e3' := e3 (o :: os)
    simp only [List.map_cons] at hall e3' ⊢
    simp only [mean, hall, if_true, meanCore, mean3, List.length_cons, List.length_map] at hm ⊢
    rw [e3']
    simp only [hm]

/-- rank 4 -/
theorem mean_spec_rank4 (d : V4 α) (others : List (V4 α)) (k c hh ww : Nat) (hk : others ≠ [])
    (hd : L.Dims4 d k c hh ww) (ho : ∀ o ∈ others, L.Dims4 o k c hh ww) :
    (⟨.quadruple k c hh ww, .quadruple d⟩ : Tensor α).mean (others.map (fun o => ⟨.quadruple k c hh ww, .quadruple o⟩)) =
      .ok ⟨.quadruple k c hh ww, .quadruple (MeanG.spec4 (fun v hs => meanElem v hs (ofNat' (others.length + 1))) d others)⟩ := by
  have e3 : ∀ (os : List (V4 α)), L.mapM' asQuadruple
      (os.map (fun o => (⟨.quadruple k c hh ww, .quadruple o⟩ : Tensor α))) = .ok os := by
    intro os
    induction os with
    | nil => rfl
    | cons o os ih => simp [L.mapM', ih, asQuadruple]
  cases others with
  | nil => exact absurd rfl hk
  | cons o os =>
    have hall : ((o :: os).map (fun o => (⟨.quadruple k c hh ww, .quadruple o⟩ : Tensor α))).all
        (fun t => t.shape == Shape.quadruple k c hh ww) = true := by
      simp only [List.all_map, List.all_eq_true]
      intro x _
      simp
    have hm := MeanG.nzip4_spec (fun v hs => meanElem v hs (ofNat' ((o :: os).length + 1))) d (o :: os) k c hh ww hd ho
    have e3' := e3 (o :: os)
    simp only [List.map_cons] at hall e3' ⊢
    simp only [mean, hall, if_true, meanCore, mean4, List.length_cons, List.length_map] at hm ⊢
    rw [e3']
    simp only [hm]

/-- … where position `(b, a, i, j)` of `spec4` (and likewise `spec2`, `spec3`) is the mean of the
    operands' entries at that position -/
theorem mean_element_rank4 (n : α) (self : V4 α) (others : List (V4 α)) (k c hh ww b a i j : Nat)
    (hs : L.Dims4 self k c hh ww) (hb : b < k) (ha : a < c) (hi : i < hh) (hj : j < ww) :
    ((((MeanG.spec4 (fun v hs => meanElem v hs n) self others).getD b []).getD a []).getD i []).getD j 0 =
      meanElem ((((self.getD b []).getD a []).getD i []).getD j 0)
        (others.map (fun o => (((o.getD b []).getD a []).getD i []).getD j 0)) n :=
  MeanG.spec4_get _ self others k c hh ww b a i j hs hb ha hi hj

theorem mean_element_rank3 (n : α) (self : V3 α) (others : List (V3 α)) (c hh ww a i j : Nat)
    (hs : L.Dims3 self c hh ww) (ha : a < c) (hi : i < hh) (hj : j < ww) :
    (((MeanG.spec3 (fun v hs => meanElem v hs n) self others).getD a []).getD i []).getD j 0 =
      meanElem (((self.getD a []).getD i []).getD j 0) (others.map (fun o => ((o.getD a []).getD i []).getD j 0)) n :=
  MeanG.spec3_get _ self others c hh ww a i j hs ha hi hj

theorem mean_element_rank2 (n : α) (self : V2 α) (others : List (V2 α)) (hh ww i j : Nat)
    (hs : L.Dims2 self hh ww) (hi : i < hh) (hj : j < ww) :
    ((MeanG.spec2 (fun v hs => meanElem v hs n) self others).getD i []).getD j 0 =
      meanElem ((self.getD i []).getD j 0) (others.map (fun o => (o.getD i []).getD j 0)) n :=
  MeanG.spec2_get _ self others hh ww i j hs hi hj

/-- shape-mismatched operands are refused; so is an empty operand list -/
theorem mean_rejects_mismatch (a : Tensor α) (others : List (Tensor α))
    (h : ∃ o ∈ others, o.shape ≠ a.shape) : a.mean others = .error .shape := by
  cases others with
  | nil => obtain ⟨o, ho, _⟩ := h; simp at ho
  | cons o os =>
    have : (o :: os).all (fun t => t.shape == a.shape) = false := by
      obtain ⟨x, hx, hne⟩ := h
      apply Bool.eq_false_iff.mpr
      intro hall
      rw [List.all_eq_true] at hall
      exact hne (by simpa using hall x hx)
    simp only [mean, this]
    simp

theorem mean_rejects_empty (a : Tensor α) : a.mean [] = .error .reject := rfl

/-! ### linear-algebra helpers -/

/-- outer product: `result[i][j] = a[i] * b[j]`, recorded shape `len a × len b` -/
theorem product_spec (x y : V1 α) (hx : x ≠ []) :
    (Tensor.single x).product (Tensor.single y) =
      .ok ⟨.double x.length y.length, .double (x.map (fun p => y.map (fun q => p * q)))⟩ := by
  cases x with
  | nil => exact absurd rfl hx
  | cons a as => simp [product, Tensor.single]

/-- matrix-vector product: entry `i` is `Σ_j A[i][j] * x[j]` summed left to right -/
theorem dot_spec (m : V2 α) (x : V1 α) (r c : Nat) :
    (⟨.double r c, .double m⟩ : Tensor α).dot (Tensor.single x) =
      .ok ⟨.single m.length, .single (m.map (fun row => sumL (List.zipWith (· * ·) row x)))⟩ := by
  simp [dot, Tensor.single, dotRow]

/-- transpose: `T[j][i] = A[i][j]`, recorded shape swapped -/
theorem transpose_spec (m : V2 α) (r c : Nat) (hm : L.Dims2 m r c) (hr : 0 < r) (hc : 0 < c) :
    ∃ t, (⟨.double r c, .double m⟩ : Tensor α).transpose = .ok ⟨.double c r, .double t⟩ ∧
      L.Dims2 t c r ∧ ∀ i j, i < r → j < c → (t.getD j []).getD i 0 = (m.getD i []).getD j 0 := by
  obtain ⟨h1, h2⟩ := hm
  cases m with
  | nil => simp at h1; omega
  | cons r0 rs =>
    have hr0 : r0.length = c := h2 r0 (List.mem_cons_self ..)
    cases r0 with
    | nil => simp at hr0; omega
    | cons a as =>
      have hany : ((a :: as) :: rs).any (fun row => row.length > (a :: as).length) = false := by
        simp only [List.any_eq_false]
        intro row hrow
        have := h2 row hrow
        simp [this, hr0]
      refine ⟨(List.range c).map (fun j => ((a :: as) :: rs).map (fun r => (L.get? r j).getD 0)), ?_, ?_, ?_⟩
      · simp only [transpose, hany]
        simp [hr0, h1]
      · refine ⟨by simp, ?_⟩
        intro row hrow
        simp only [List.mem_map, List.mem_range] at hrow
        obtain ⟨j, _, hj⟩ := hrow
        rw [← hj, List.length_map]; exact h1
      · intro i j hi hj
        have getD_elem : ∀ {β : Type} (l : List β) (k : Nat) (dflt : β) (hk : k < l.length), l.getD k dflt = l[k] := by
          intro β l k dflt hk
          simp [List.getD_eq_getElem?_getD, hk]
        have hj' : j < ((List.range c).map (fun j => ((a :: as) :: rs).map (fun r => (L.get? r j).getD 0))).length := by
          simp [hj]
        rw [getD_elem _ _ _ hj']
        simp only [List.getElem_map, List.getElem_range]
        have hi' : i < ((a :: as) :: rs).length := by rw [h1]; exact hi
        rw [getD_elem _ _ _ (by simpa using hi'), getD_elem _ _ _ hi']
        simp only [List.getElem_map]
        have : ∀ (l : List α) (k : Nat), (L.get? l k).getD 0 = l.getD k 0 := by
          intro l
          induction l with
          | nil => intro k; cases k <;> rfl
          | cons y ys ih => intro k; cases k <;> simp [L.get?, ih]
        exact this _ j

/-! ### the scaled Hadamard product of two 3-D nests (the free function used by the spatial backward passes) -/

/-- **the scaled Hadamard product of two `c × h × w` nests** (`tensor::hadamard3d`, the delta of the spatial layers'
    backward passes) keeps the extents — whatever `c`, `h`, `w`, equal or not — and is the element-wise `a·b·s` -/
theorem hadamard3d_spec (a b : V3 α) (s : α) (c h w : Nat) (ha : L.Dims3 a c h w) (hb : L.Dims3 b c h w) :
    L.Dims3 (Tensor.hadamard3d a b s) c h w ∧
    ∀ i j k, i < c → j < h → k < w →
      (((Tensor.hadamard3d a b s).getD i []).getD j []).getD k 0 =
        (((a.getD i []).getD j []).getD k 0) * (((b.getD i []).getD j []).getD k 0) * s := by
  obtain ⟨hac, ham⟩ := ha
  obtain ⟨hbc, hbm⟩ := hb
  constructor
  · refine ⟨by simp [Tensor.hadamard3d, hac, hbc], ?_⟩
    intro m hm
    simp only [Tensor.hadamard3d] at hm
    obtain ⟨i, hi, rfl⟩ := List.getElem_of_mem hm
    simp only [List.length_zipWith] at hi
    simp only [List.getElem_zipWith]
    have h1 := ham a[i] (List.getElem_mem _)
    have h2 := hbm b[i] (List.getElem_mem _)
    refine ⟨by simp [h1.1, h2.1], ?_⟩
    intro r hr
    obtain ⟨j, hj, rfl⟩ := List.getElem_of_mem hr
    simp only [List.length_zipWith] at hj
    simp only [List.getElem_zipWith, List.length_zipWith]
    rw [h1.2 _ (List.getElem_mem _), h2.2 _ (List.getElem_mem _)]
    simp
  · intro i j k hi hj hk
    have hia : i < a.length := by omega
    have hib : i < b.length := by omega
    simp only [Tensor.hadamard3d]
    rw [L.getD_zipWith _ a b i [] [] [] hia hib]
    have h1 := ham (a.getD i []) (L.getD_mem' _ _ _ hia)
    have h2 := hbm (b.getD i []) (L.getD_mem' _ _ _ hib)
    have hja : j < (a.getD i []).length := by omega
    have hjb : j < (b.getD i []).length := by omega
    rw [L.getD_zipWith _ _ _ j [] [] [] hja hjb]
    have h3 := h1.2 ((a.getD i []).getD j []) (L.getD_mem' _ _ _ hja)
    have h4 := h2.2 ((b.getD i []).getD j []) (L.getD_mem' _ _ _ hjb)
    rw [L.getD_zipWith _ _ _ k 0 0 0 (by omega) (by omega)]

/-! non-vacuity -/
example (x : α) : L.Dims3 (L.replicate3 2 3 5 x) 2 3 5 := by
  simp [L.replicate3, L.replicate2, L.Dims3]

example : (⟨.double 2 2, .double [[(1:Nat), 2], [3, 4]]⟩ : Tensor Nat).Wf := by
  simp [Wf]

end C15
