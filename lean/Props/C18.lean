import Model.Random
import Proofs.Reshape
import Proofs.Rechunk

/-!
# C18 — the random generator stays in range and shuffling is a safe permutation

* the integer → single-precision conversion is modelled exactly on `Nat` (`Random.toF32`), so the
  ratio `current / (modulus - 1)` is an exact dyadic rational and its range is a theorem;
* `generate`'s final value is limited to `[min, max]` — proved for every scalar type whose `<` is
  irreflexive (IEEE `<` and `ℝ`), so the two roundings before the limit cannot matter;
* `shuffle` returns a permutation and never fails, for every seed, every length and every scalar type.
-/

set_option linter.unusedSectionVars false

namespace C18
open Rng Scalar

/-! ### the exact conversion and the ratio -/

theorem toF32_le (n : Nat) (h : n < 2 ^ 31) : toF32 n ≤ 2 ^ 31 := by
  unfold toF32 roundE
  simp only []
  split
  · omega
  repeat' split
  all_goals (first | omega | skip)

/-- exactly the top 64 states (63 of them reachable) convert to `2^31`, i.e. ratio `= 1` -/
theorem toF32_top (n : Nat) (h1 : 2 ^ 31 - 64 ≤ n) (h2 : n < 2 ^ 31) : toF32 n = 2 ^ 31 := by
  unfold toF32 roundE
  simp only []
  repeat' split
  all_goals omega

theorem toF32_below (n : Nat) (h : n < 2 ^ 31 - 64) : toF32 n < 2 ^ 31 := by
  unfold toF32 roundE
  simp only []
  repeat' split
  all_goals omega

theorem toF32_denominator : toF32 (modulus - 1) = 2 ^ 31 := by decide

/-- **ratio ∈ [0, 1]** for every generator state: numerator ≤ denominator (both exact integers) -/
theorem ratio_in_unit (s : Nat) (h : s < modulus) : toF32 s ≤ toF32 (modulus - 1) := by
  rw [toF32_denominator]
  exact toF32_le s (by unfold modulus at h; omega)

theorem ratio_eq_one_iff (s : Nat) (h : s < modulus) : toF32 s = toF32 (modulus - 1) ↔ 2 ^ 31 - 64 ≤ s := by
  rw [toF32_denominator]
  unfold modulus at h
  constructor
  · intro e
    by_cases c : s < 2 ^ 31 - 64
    · have := toF32_below s c; omega
    · omega
  · intro c
    exact toF32_top s c (by omega)

/-- the conversion is exact on everything below `2^24` and never moves a value by more than half a
    unit in the last place (here: at most 128 for states below `2^31`) -/
theorem toF32_small (n : Nat) (h : n < 2 ^ 24) : toF32 n = n := by
  unfold toF32; simp [h]

theorem toF32_mono_zero : toF32 0 = 0 := by decide

/-! ### the state machine -/

theorem create_lt (seed : Nat) : (create seed).current < modulus := by
  unfold create; exact Nat.mod_lt _ (by decide)

/-- from a reduced state the `u64` multiplication cannot overflow and the next state is reduced -/
theorem step_ok (g : Gen) (h : g.current < modulus) :
    ∃ g', step g = .ok g' ∧ g'.current < modulus ∧ g'.current = (multiplier * g.current) % modulus := by
  unfold step
  have : multiplier * g.current < 2 ^ 64 := by
    unfold multiplier; unfold modulus at h; omega
  simp only [this, if_true]
  exact ⟨_, rfl, Nat.mod_lt _ (by decide), rfl⟩

/-- seeds that agree modulo the modulus give the same generator (in particular seeds far above it) -/
theorem create_mod (seed : Nat) : create (seed % modulus) = create seed := by
  unfold create; rw [Nat.mod_mod]

variable {α : Type} [Scalar α]

/-- **generate(min, max) ∈ [min, max]** — for every state, every scalar type with an irreflexive `<`,
    every `min ≤ max` (stated as `¬ max < min`): the result is neither below `min` nor above `max` -/
theorem value_in_range (cur : Nat) (lo hi : α) (irr : ∀ a : α, lt a a = false) (h : lt hi lo = false) :
    lt (value cur lo hi) lo = false ∧ lt hi (value cur lo hi) = false := by
  unfold value fmax
  simp only []
  generalize (ofNat' cur / ofNat' (modulus - 1)) * (hi - lo) + lo = v
  by_cases h1 : lt v lo = true
  · simp [h1, h, irr]
  · simp only [h1]
    by_cases h2 : isNaN v = true
    · simp [h2, h, irr]
    · simp only [h2]
      by_cases h3 : lt hi v = true
      · simp [h3, h, irr]
      · simp at h1 h3; simp [h1, h3]

theorem generate_in_range (g : Gen) (lo hi : α) (hg : g.current < modulus)
    (irr : ∀ a : α, lt a a = false) (h : lt hi lo = false) :
    ∃ g' v, generate g lo hi = .ok (g', v) ∧ g'.current < modulus ∧ lt v lo = false ∧ lt hi v = false := by
  obtain ⟨g', h1, h2, _⟩ := step_ok g hg
  refine ⟨g', value g'.current lo hi, by simp [generate, h1], h2, value_in_range _ lo hi irr h⟩

/-- every value of a sequence of any length is in range, and no step fails -/
theorem generateN_in_range (lo hi : α) (irr : ∀ a : α, lt a a = false) (h : lt hi lo = false) :
    ∀ (n : Nat) (g : Gen), g.current < modulus →
      ∃ g' vs, generateN lo hi n g = .ok (g', vs) ∧ g'.current < modulus ∧ vs.length = n ∧
        ∀ v ∈ vs, lt v lo = false ∧ lt hi v = false := by
  intro n
  induction n with
  | zero => intro g hg; exact ⟨g, [], rfl, hg, rfl, by simp⟩
  | succ n ih =>
    intro g hg
    obtain ⟨g1, v, e1, h1, r1, r2⟩ := generate_in_range g lo hi hg irr h
    obtain ⟨g2, vs, e2, h2, l2, r⟩ := ih g1 h1
    refine ⟨g2, v :: vs, by simp [generateN, e1, e2], h2, by simp [l2], ?_⟩
    intro x hx
    simp at hx
    cases hx with
    | inl e => subst e; exact ⟨r1, r2⟩
    | inr e => exact r x e

/-- randomly initialised tensors: `fill` returns exactly the requested number of entries, all in range -/
theorem fill_shape_and_range (seed : Nat) (lo hi : α) (n : Nat)
    (irr : ∀ a : α, lt a a = false) (h : lt hi lo = false) :
    ∃ vs, fill (create seed) lo hi n = .ok vs ∧ vs.length = n ∧ ∀ v ∈ vs, lt v lo = false ∧ lt hi v = false := by
  obtain ⟨g', vs, e, _, l, r⟩ := generateN_in_range lo hi irr h n (create seed) (create_lt seed)
  exact ⟨vs, by simp [fill, e], l, r⟩

/-- **a randomly initialised rank-3 tensor has the requested shape**: recorded shape `c × h × w`, `c`
    matrices of `h` rows of `w` entries, `c·h·w` entries in all, every one of them in `[lo, hi]` -/
theorem randomTensor_triple (seed : Nat) (lo hi : α) (c h w : Nat)
    (irr : ∀ a : α, lt a a = false) (hlo : lt hi lo = false) :
    ∃ t, randomTensor (create seed) (.triple c h w) lo hi = .ok ⟨.triple c h w, .triple t⟩ ∧
      L.Dims3 t c h w ∧ (L.flatten3 t).length = c * h * w ∧
      ∀ v ∈ L.flatten3 t, lt v lo = false ∧ lt hi v = false := by
  obtain ⟨vs, hf, hl, hr⟩ := fill_shape_and_range seed lo hi (c * h * w) irr hlo
  obtain ⟨t, ht, hd, hflat⟩ := L.toTriple_exact c h w vs hl
  refine ⟨t, ?_, hd, by rw [hflat, hl], by rw [hflat]; exact hr⟩
  unfold L.toTriple at ht
  cases hm : L.takeMats h w c vs with
  | error e => rw [hm] at ht; simp at ht
  | ok p =>
    obtain ⟨ms, rest⟩ := p
    rw [hm] at ht
    simp only [Except.ok.injEq] at ht
    subst ht
    simp only [randomTensor, hf, hm]

/-- rank 1: the requested number of entries, all in range -/
theorem randomTensor_single (seed : Nat) (lo hi : α) (n : Nat)
    (irr : ∀ a : α, lt a a = false) (hlo : lt hi lo = false) :
    ∃ vs, randomTensor (create seed) (.single n) lo hi = .ok ⟨.single n, .single vs⟩ ∧ vs.length = n ∧
      ∀ v ∈ vs, lt v lo = false ∧ lt hi v = false := by
  obtain ⟨vs, hf, hl, hr⟩ := fill_shape_and_range seed lo hi n irr hlo
  exact ⟨vs, by simp only [randomTensor, hf], hl, hr⟩

/-- **a randomly initialised rank-2 tensor has the requested shape**: recorded shape `r × c`, `r` rows of `c`
    entries drawn in row-major order, `r·c` entries in all, every one of them in `[lo, hi]` -/
theorem randomTensor_double (seed : Nat) (lo hi : α) (r c : Nat)
    (irr : ∀ a : α, lt a a = false) (hlo : lt hi lo = false) :
    ∃ rows, randomTensor (create seed) (.double r c) lo hi = .ok ⟨.double r c, .double rows⟩ ∧
      rows.length = r ∧ (∀ row ∈ rows, row.length = c) ∧ rows.flatten.length = r * c ∧
      ∀ v ∈ rows.flatten, lt v lo = false ∧ lt hi v = false := by
  obtain ⟨vs, hf, hl, hr⟩ := fill_shape_and_range seed lo hi (r * c) irr hlo
  obtain ⟨rows, rest, ht⟩ := L.takeRows_ok c r vs (by omega)
  obtain ⟨h1, h2, h3⟩ := L.takeRows_spec c r vs rows rest ht
  have hflat : rows.flatten.length = r * c := by
    rw [List.length_flatten]
    have : rows.map List.length = List.replicate rows.length c := by
      apply List.eq_replicate_iff.mpr
      refine ⟨by simp, ?_⟩
      intro x hx
      simp at hx
      obtain ⟨row, hr1, hr2⟩ := hx
      rw [← hr2]; exact h2 row hr1
    rw [this]; simp [h1]
  refine ⟨rows, by simp only [randomTensor, hf, ht], h1, h2, hflat, ?_⟩
  intro v hv
  apply hr
  rw [← h3]
  exact List.mem_append_left _ hv

/-- a list of `a·b` elements is the concatenation of `a` groups of `b` -/
theorem exists_groups {β : Type} (b : Nat) : ∀ (a : Nat) (l : List β), l.length = a * b →
    ∃ gs : List (List β), gs.flatten = l ∧ gs.length = a ∧ ∀ g ∈ gs, g.length = b
  | 0, l, h => ⟨[], by
      have : l = [] := List.eq_nil_of_length_eq_zero (by simpa using h)
      simp [this], rfl, by simp⟩
  | a + 1, l, h => by
    have e : (a + 1) * b = a * b + b := Nat.succ_mul a b
    obtain ⟨gs, h1, h2, h3⟩ := exists_groups b a (l.drop b) (by simp [List.length_drop]; omega)
    refine ⟨l.take b :: gs, by simp [h1], by simp [h2], ?_⟩
    intro g hg
    simp at hg
    rcases hg with rfl | hg
    · simp; omega
    · exact h3 g hg

/-- **a randomly initialised rank-4 tensor has the requested shape**: recorded shape `a × b × r × c`, `a` blocks of `b`
    matrices of `r` rows of `c` entries, every entry in `[lo, hi]` -/
theorem randomTensor_quadruple (seed : Nat) (lo hi : α) (a b r c : Nat) (hb : 0 < b)
    (irr : ∀ x : α, lt x x = false) (hlo : lt hi lo = false) :
    ∃ q, randomTensor (create seed) (.quadruple a b r c) lo hi = .ok ⟨.quadruple a b r c, .quadruple q⟩ ∧
      q.length = a ∧ (∀ blk ∈ q, blk.length = b ∧ ∀ m ∈ blk, m.length = r ∧ ∀ row ∈ m, row.length = c) ∧
      ∀ blk ∈ q, ∀ m ∈ blk, ∀ row ∈ m, ∀ v ∈ row, lt v lo = false ∧ lt hi v = false := by
  obtain ⟨vs, hf, hl, hr⟩ := fill_shape_and_range seed lo hi (a * b * r * c) irr hlo
  obtain ⟨ms, rest, ht⟩ := L.takeMats_ok r c (a * b) vs (by rw [hl, Nat.mul_assoc (a * b) r c]; exact Nat.le_refl _)
  obtain ⟨h1, h2, h3⟩ := L.takeMats_spec r c (a * b) vs ms rest ht
  obtain ⟨q, hq1, hq2, hq3⟩ := exists_groups b a ms h1
  have hch : L.chunksExact b ms = q := by
    rw [← hq1]
    exact Rechunk.chunksExact_flatten b hb q hq3
  refine ⟨q, by simp only [randomTensor, hf, ht, hch], hq2, ?_, ?_⟩
  · intro blk hblk
    refine ⟨hq3 blk hblk, fun m hm => ?_⟩
    have : m ∈ ms := by rw [← hq1]; exact List.mem_flatten.mpr ⟨blk, hblk, hm⟩
    exact h2 m this
  · intro blk hblk m hm row hrow v hv
    apply hr
    rw [← h3]
    apply List.mem_append_left
    have hmm : m ∈ ms := by rw [← hq1]; exact List.mem_flatten.mpr ⟨blk, hblk, hm⟩
    unfold L.flatten3
    exact List.mem_flatten.mpr ⟨m.flatten, List.mem_map.mpr ⟨m, hmm, rfl⟩, List.mem_flatten.mpr ⟨row, hrow, hv⟩⟩

/-! ### shuffle -/

theorem swap_perm {β : Type} (l : List β) (i j : Nat) : (swap l i j).Perm l := by
  unfold swap
  split
  · rename_i h; exact List.set_set_perm h.1 h.2
  · exact List.Perm.refl _

theorem swap_length {β : Type} (l : List β) (i j : Nat) : (swap l i j).length = l.length := by
  unfold swap; split <;> simp

theorem drawIndex_lt (cur len : Nat) (h : 0 < len) : drawIndex (α := α) cur len < len := by
  unfold drawIndex
  have : min (toNat (value (α := α) cur 0 (ofNat' len))) (len - 1) ≤ len - 1 := Nat.min_le_right _ _
  omega

theorem shuffleAux_ok {β : Type} : ∀ (fuel i : Nat) (g : Gen) (l : List β), g.current < modulus →
    fuel ≤ l.length →
    ∃ g' l', shuffleAux α fuel i g l = .ok (g', l') ∧ g'.current < modulus ∧ l'.Perm l := by
  intro fuel
  induction fuel with
  | zero => intro i g l hg _; exact ⟨g, l, rfl, hg, List.Perm.refl _⟩
  | succ fuel ih =>
    intro i g l hg hf
    obtain ⟨g1, e1, h1, _⟩ := step_ok g hg
    have hpos : 0 < l.length := by omega
    have hj := drawIndex_lt (α := α) g1.current l.length hpos
    obtain ⟨g2, l2, e2, h2, p2⟩ := ih (i + 1) g1 (swap l i (drawIndex (α := α) g1.current l.length)) h1
      (by rw [swap_length]; omega)
    refine ⟨g2, l2, ?_, h2, p2.trans (swap_perm _ _ _)⟩
    simp only [shuffleAux, e1, hj, if_true, e2]

/-- **shuffle never panics and returns a permutation**, for every 64-bit (indeed every) seed, every
    length and every scalar type used for the index arithmetic -/
theorem shuffle_perm {β : Type} (seed : Nat) (l : List β) :
    ∃ g' l', shuffle α (create seed) l = .ok (g', l') ∧ l'.Perm l := by
  obtain ⟨g', l', e, _, p⟩ := shuffleAux_ok (α := α) l.length 0 (create seed) l (create_lt seed) (Nat.le_refl _)
  exact ⟨g', l', e, p⟩

/-- same multiset of elements, same length -/
theorem shuffle_length {β : Type} (seed : Nat) (l : List β) :
    ∃ g' l', shuffle α (create seed) l = .ok (g', l') ∧ l'.length = l.length := by
  obtain ⟨g', l', e, p⟩ := shuffle_perm (α := α) seed l
  exact ⟨g', l', e, p.length_eq⟩

/-! non-vacuity / regression witnesses (the states that broke the pinned code) -/
example : toF32 2147483646 = 2147483648 := by decide
example : toF32 2147483583 = 2147483520 := by decide
example : (create 570515015).current < modulus := by decide
example : (multiplier * 570515015) % modulus = 2147483646 - 62 := by decide

end C18
