import Model.Optimizer
import Proofs.Real
import Proofs.OptimizerLemmas
import Mathlib.Tactic
import Proofs.MeanG

/-!
# C03 — optimizer steps follow the documented update rules for every history

* the per-element rules of the model are the documented equations (at `ℝ`);
* every partial operation stays inside its domain for every history (Adam's bias correction and
  second moment, RMSprop's centred variance — an invariant proved by induction over an arbitrary
  gradient history);
* state kept for one `(layer, filter, bias)` slot never influences another slot: the result for a
  slot after any interleaved history equals that of its own sub-history (for every scalar type).

Not a theorem (float rounding): the NaN/overflow behaviour at `f32`; searched on the implementation.
Rank-independence: the model applies one scalar rule through the rank-specific zips `nzip1/2/3`
(`nzip_elementwise_rank1/2/3`: at every rank, every position of the result is the scalar rule applied
to the operands' entries at that position); that the three Rust copies agree with the model is the
correspondence + the rank oracle of the harness.
-/

set_option linter.unusedSectionVars false

namespace C03
open Optimizer OptKind Scalar RealScalar

/-! ### `powi` (compiler-rt's square-and-multiply) is the power function -/

theorem powiAux_eq (fuel : ℕ) : ∀ (a r : ℝ) (b : ℕ), b ≤ fuel → Scalar.powiAux fuel a r b = r * a ^ b := by
  induction fuel with
  | zero => intro a r b hb; have : b = 0 := by omega
            subst this; simp [Scalar.powiAux]
  | succ fuel ih =>
    intro a r b hb
    unfold Scalar.powiAux
    have hb2 : b = 2 * (b / 2) + b % 2 := (Nat.div_add_mod b 2).symm
    by_cases h0 : b / 2 = 0
    · simp only [h0, if_true]
      have hlt : b < 2 := by omega
      interval_cases b <;> simp
    · simp only [h0, if_false]
      rw [ih _ _ _ (by omega)]
      have hp : a ^ b = (a * a) ^ (b / 2) * a ^ (b % 2) := by
        conv_lhs => rw [hb2, pow_add, pow_mul]
        ring_nf
      rw [hp]
      rcases Nat.mod_two_eq_zero_or_one b with h | h <;> simp [h] <;> ring

theorem powi_eq_pow (a : ℝ) (n : ℕ) : Scalar.powi a n = a ^ n := by
  unfold Scalar.powi
  rw [powiAux_eq (n + 1) a 1 n (by omega)]; ring

theorem powf_two (g : ℝ) : Scalar.powf g Scalar.two = g ^ 2 := by
  rw [powf_eq, two_eq]; exact Real.rpow_two g

theorem rpow_scalar_two (g : ℝ) : g ^ (Scalar.two : ℝ) = g ^ 2 := by
  rw [two_eq]; exact Real.rpow_two g

/-! ### the documented update equations (per element) -/

/-- SGD: `g ← g + λw` (if weight decay), `w ← w − γ g` -/
theorem sgd_rule (lr : ℝ) (decay : Option ℝ) (s : Slot ℝ) :
    (sgdStep lr decay s).w = s.w - lr * (decayed decay s.w s.g) := rfl

theorem decayed_some (d w g : ℝ) : decayed (some d) w g = g + d * w := rfl
theorem decayed_none (w g : ℝ) : decayed (none : Option ℝ) w g = g := rfl

/-- SGD with momentum (PyTorch): first step `b ← g`, later `b ← μ b + (1−τ) g`; `w ← w − γ b` -/
theorem sgdm_rule_first (lr mo da : ℝ) (decay : Option ℝ) (s : Slot ℝ) :
    let g := decayed decay s.w s.g
    (sgdmStep lr mo da decay 1 s).s1 = g ∧ (sgdmStep lr mo da decay 1 s).w = s.w - lr * g := by
  simp [sgdmStep]

theorem sgdm_rule_later (lr mo da : ℝ) (decay : Option ℝ) (t : ℕ) (ht : 1 < t) (hm : mo ≠ 0) (s : Slot ℝ) :
    let g := decayed decay s.w s.g
    let b := s.s1 * mo + (1 - da) * g
    (sgdmStep lr mo da decay t s).s1 = b ∧ (sgdmStep lr mo da decay t s).w = s.w - lr * b := by
  have : (decide (t > 1) && !Scalar.beq mo 0) = true := by simp [ht, Scalar.beq, hm]
  simp [sgdmStep, this]

/-- Adam: `m ← β₁m + (1−β₁)g`, `v ← β₂v + (1−β₂)g²`, `w ← w − γ (m/(1−β₁ᵗ)) / (√(v/(1−β₂ᵗ)) + ε)` -/
theorem adam_rule (lr b1 b2 ep : ℝ) (decay : Option ℝ) (t : ℕ) (s : Slot ℝ) :
    let g := decayed decay s.w s.g
    let m := s.s1 * b1 + g * (1 - b1)
    let v := s.s2 * b2 + g ^ 2 * (1 - b2)
    (adamStep lr b1 b2 ep decay t s).s1 = m ∧ (adamStep lr b1 b2 ep decay t s).s2 = v ∧
    (adamStep lr b1 b2 ep decay t s).w = s.w - lr * (m / (1 - b1 ^ t)) / (Real.sqrt (v / (1 - b2 ^ t)) + ep) := by
  simp [adamStep, powi_eq_pow, rpow_scalar_two]

/-- AdamW: decoupled decay `w ← w − γλw` first, then the Adam step on the raw gradient -/
theorem adamw_rule (lr b1 b2 ep decay : ℝ) (t : ℕ) (s : Slot ℝ) :
    let m := s.s1 * b1 + s.g * (1 - b1)
    let v := s.s2 * b2 + s.g ^ 2 * (1 - b2)
    (adamwStep lr b1 b2 ep decay t s).w =
      (s.w - lr * decay * s.w) - lr * (m / (1 - b1 ^ t)) / (Real.sqrt (v / (1 - b2 ^ t)) + ep) := by
  simp [adamwStep, powi_eq_pow, rpow_scalar_two]

/-- RMSprop, not centred, no momentum: `v ← αv + (1−α)g²`, `w ← w − γ g / (√v + ε)` -/
theorem rmsprop_rule_plain (lr al ep : ℝ) (decay : Option ℝ) (s : Slot ℝ) :
    let g := decayed decay s.w s.g
    let v := al * s.s1 + (1 - al) * g ^ 2
    (rmspropStep lr al ep decay none false s).s1 = v ∧
    (rmspropStep lr al ep decay none false s).w = s.w - lr * g / (Real.sqrt v + ep) := by
  simp [rmspropStep, rpow_scalar_two]

/-- RMSprop with momentum: `b ← μ b + g / (√ṽ + ε)`, `w ← w − γ b` -/
theorem rmsprop_rule_momentum (lr al ep mu : ℝ) (decay : Option ℝ) (s : Slot ℝ) :
    let g := decayed decay s.w s.g
    let v := al * s.s1 + (1 - al) * g ^ 2
    let b := mu * s.s3 + g / (Real.sqrt v + ep)
    (rmspropStep lr al ep decay (some mu) false s).s3 = b ∧
    (rmspropStep lr al ep decay (some mu) false s).w = s.w - lr * b := by
  simp [rmspropStep, rpow_scalar_two]

/-- RMSprop centred: `ḡ ← αḡ + (1−α)g`, `ṽ = max(v − ḡ², 0)` (the `max` is the identity at `ℝ`, see
    `rmsprop_clamp_is_identity`) -/
theorem rmsprop_rule_centered (lr al ep : ℝ) (decay : Option ℝ) (s : Slot ℝ) :
    let g := decayed decay s.w s.g
    let v := al * s.s1 + (1 - al) * g ^ 2
    let ga := al * s.s2 + (1 - al) * g
    (rmspropStep lr al ep decay none true s).s1 = v ∧ (rmspropStep lr al ep decay none true s).s2 = ga ∧
    (rmspropStep lr al ep decay none true s).w = s.w - lr * g / (Real.sqrt (max (v - ga ^ 2) 0) + ep) := by
  simp [rmspropStep, rpow_scalar_two, fmax_eq]

/-- `validate`: a zero hyper-parameter is replaced by the documented default, others are kept -/
theorem validate_defaults_adam (lr b1 b2 ep : ℝ) (decay : Option ℝ) :
    (OptKind.adam lr b1 b2 ep decay).validate =
      .adam (if lr = 0 then 1 / 1000 else lr) (if b1 = 0 then 9 / 10 else b1)
            (if b2 = 0 then 999 / 1000 else b2) (if ep = 0 then 1 / 100000000 else ep) decay := by
  simp only [OptKind.validate, lit_eq, Scalar.beq]
  congr 1 <;> (split <;> simp_all <;> norm_num)

theorem validate_defaults_rmsprop (lr al ep : ℝ) (decay mo : Option ℝ) (c : Bool) :
    (OptKind.rmsprop lr al ep decay mo c).validate =
      .rmsprop (if lr = 0 then 1 / 100 else lr) (if al = 0 then 99 / 100 else al)
            (if ep = 0 then 1 / 100000000 else ep) decay mo c := by
  simp only [OptKind.validate, lit_eq, Scalar.beq]
  congr 1 <;> (split <;> simp_all <;> norm_num)

theorem validate_defaults_sgdm (lr mo da : ℝ) (decay : Option ℝ) :
    (OptKind.sgdm lr mo da decay).validate =
      .sgdm (if lr = 0 then 1 / 10 else lr) (if mo = 0 then 9 / 10 else mo) da decay := by
  simp only [OptKind.validate, lit_eq, Scalar.beq]
  congr 1 <;> (split <;> simp_all <;> norm_num)

/-! ### well-definedness in exact arithmetic, for every history -/

/-- Adam's bias correction never divides by zero: `0 < 1 − βᵗ` for `0 ≤ β < 1`, `t ≥ 1` -/
theorem adam_bias_correction_pos (β : ℝ) (h0 : 0 ≤ β) (h1 : β < 1) (t : ℕ) (ht : 1 ≤ t) :
    0 < 1 - Scalar.powi β t := by
  rw [powi_eq_pow]
  have : β ^ t ≤ β ^ 1 := pow_le_pow_of_le_one h0 h1.le ht
  simp at this; linarith

/-- a history of (step number, raw gradient) pairs applied to one element -/
noncomputable def iterate (k : OptKind ℝ) (s0 : Slot ℝ) (h : List (ℕ × ℝ)) : Slot ℝ :=
  h.foldl (fun s tg => k.step tg.1 { s with g := tg.2 }) s0

/-- Adam's second moment is non-negative after every history, so `√` stays in its domain and the
    denominator `√v̂ + ε` is positive for `ε > 0` -/
theorem adam_second_moment_nonneg (lr b1 b2 ep : ℝ) (decay : Option ℝ) (hb : 0 ≤ b2) (hb' : b2 ≤ 1)
    (h : List (ℕ × ℝ)) (s0 : Slot ℝ) (h0 : 0 ≤ s0.s2) :
    0 ≤ (iterate (.adam lr b1 b2 ep decay) s0 h).s2 := by
  unfold iterate
  induction h generalizing s0 with
  | nil => simpa using h0
  | cons tg rest ih =>
    simp only [List.foldl_cons]
    apply ih
    simp only [OptKind.step, adamStep, powf_two]
    have : 0 ≤ (1 - b2) := by linarith
    positivity

theorem adam_denominator_pos (v c ep : ℝ) (hv : 0 ≤ v) (hc : 0 < c) (he : 0 < ep) : 0 < Real.sqrt (v / c) + ep := by
  have : 0 ≤ Real.sqrt (v / c) := Real.sqrt_nonneg _
  linarith

/-- one centred-RMSprop step preserves `ḡ² ≤ v` (second-moment average dominates the squared
    first-moment average), for `0 ≤ α ≤ 1` and any gradient -/
theorem rms_step (α V G g : ℝ) (h0 : 0 ≤ α) (h1 : α ≤ 1) (hVG : G ^ 2 ≤ V) :
    (α * G + (1 - α) * g) ^ 2 ≤ α * V + (1 - α) * g ^ 2 := by
  have h2 : 0 ≤ 1 - α := by linarith
  nlinarith [mul_nonneg h0 h2, sq_nonneg (G - g), mul_nonneg (mul_nonneg h0 h2) (sq_nonneg (G - g)),
             mul_le_mul_of_nonneg_left hVG h0]

/-- **invariant over every history**: from fresh (zero) state, after any sequence of steps with
    arbitrary gradients, centred RMSprop has `ḡ² ≤ v` — the centred variance is never negative -/
theorem rmsprop_centered_variance_nonneg (lr al ep : ℝ) (decay mo : Option ℝ) (h0 : 0 ≤ al) (h1 : al ≤ 1)
    (h : List (ℕ × ℝ)) (s0 : Slot ℝ) (hs : s0.s2 ^ 2 ≤ s0.s1) :
    (iterate (.rmsprop lr al ep decay mo true) s0 h).s2 ^ 2 ≤ (iterate (.rmsprop lr al ep decay mo true) s0 h).s1 := by
  unfold iterate
  induction h generalizing s0 with
  | nil => simpa using hs
  | cons tg rest ih =>
    simp only [List.foldl_cons]
    apply ih
    have key := rms_step al s0.s1 s0.s2 (decayed decay s0.w tg.2) h0 h1 hs
    cases mo <;> simp only [OptKind.step, rmspropStep, powf_two, if_true] <;> exact key

/-- hence the clamp at zero (the repair of the NaN defect) is the identity in exact arithmetic -/
theorem rmsprop_clamp_is_identity (V G : ℝ) (h : G ^ 2 ≤ V) : Scalar.fmax (V - Scalar.powf G Scalar.two) 0 = V - G ^ 2 := by
  rw [powf_two, fmax_eq, max_eq_left (by linarith)]

example : ((0 : ℝ)) ^ 2 ≤ 0 := by norm_num   -- the fresh state satisfies the invariant's premise

/-! ### slots are independent (any scalar type) -/

variable {α : Type} [Scalar α]

/-- two optimizers of the same kind that hold the same state for slot `(l, f, b)` -/
def AgreeAt (o o' : Optimizer α) (l f b : Nat) : Prop :=
  getSlot o.t1 l f b = getSlot o'.t1 l f b ∧ getSlot o.t2 l f b = getSlot o'.t2 l f b ∧
  getSlot o.t3 l f b = getSlot o'.t3 l f b

theorem readState_congr (o o' : Optimizer α) (hk : HEq o.kind o'.kind) (i : Nat) (t t' : Table α) (l f b : Nat) (z : Tensor α)
    (h : getSlot t l f b = getSlot t' l f b) (hu : o.kind.uses = o'.kind.uses) :
    readState o i t l f b z = readState o' i t' l f b z := by
  unfold readState; rw [hu, h]

theorem writeState_agree (o : Optimizer α) (i : Nat) (t t' : Table α) (l f b : Nat) (z v s : Tensor α)
    (h : getSlot t l f b = getSlot t' l f b) (hr : readState o i t l f b z = .ok s) :
    getSlot (writeState o i t l f b v) l f b = getSlot (writeState o i t' l f b v) l f b := by
  unfold writeState
  unfold readState at hr
  by_cases hi : i ≤ o.kind.uses
  · simp only [hi, if_true] at hr ⊢
    rw [getSlot_setSlot_same t l f b v s hr, getSlot_setSlot_same t' l f b v s (h ▸ hr)]
  · simp only [hi, if_false]; exact h

theorem writeState_other (o : Optimizer α) (i : Nat) (t : Table α) (l f b l' f' b' : Nat) (v : Tensor α)
    (h : (l, f, b) ≠ (l', f', b')) :
    getSlot (writeState o i t l f b v) l' f' b' = getSlot t l' f' b' := by
  unfold writeState
  split
  · exact getSlot_setSlot_other t l f b l' f' b' v h
  · rfl

/-- an update reads only its own slot: same kind + same state for that slot ⇒ same new value, same
    mutated gradient, and the two optimizers still agree on that slot -/
theorem update_own_slot (o o' : Optimizer α) (hk : o.kind = o'.kind) (l f : Nat) (bias : Bool) (t : Nat)
    (v g : Tensor α) (h : AgreeAt o o' l f (if bias then 1 else 0))
    (o1 : Optimizer α) (w g1 : Tensor α) (hu : update o l f bias t v g = .ok (o1, w, g1)) :
    ∃ o1', update o' l f bias t v g = .ok (o1', w, g1) ∧ o1'.kind = o1.kind ∧
      AgreeAt o1 o1' l f (if bias then 1 else 0) := by
  obtain ⟨h1, h2, h3⟩ := h
  unfold update at hu ⊢
  simp only [] at hu ⊢
  have hu' : o.kind.uses = o'.kind.uses := by rw [hk]
  have r1 := readState_congr o o' (by rw [hk]) 1 o.t1 o'.t1 l f (if bias then 1 else 0) (dummyLike v) h1 hu'
  have r2 := readState_congr o o' (by rw [hk]) 2 o.t2 o'.t2 l f (if bias then 1 else 0) (dummyLike v) h2 hu'
  have r3 := readState_congr o o' (by rw [hk]) 3 o.t3 o'.t3 l f (if bias then 1 else 0) (dummyLike v) h3 hu'
  rw [← r1, ← r2, ← r3, ← hk]
  cases e1 : readState o 1 o.t1 l f (if bias then 1 else 0) (dummyLike v) with
  | error e => simp [e1] at hu
  | ok s1 =>
    cases e2 : readState o 2 o.t2 l f (if bias then 1 else 0) (dummyLike v) with
    | error e => simp [e1, e2] at hu
    | ok s2 =>
      cases e3 : readState o 3 o.t3 l f (if bias then 1 else 0) (dummyLike v) with
      | error e => simp [e1, e2, e3] at hu
      | ok s3 =>
        simp only [e1, e2, e3] at hu ⊢
        cases ea : applyStep (o.kind.step t) v g s1 s2 s3 with
        | error e => simp [ea] at hu
        | ok r =>
          obtain ⟨w', g', a, b, c⟩ := r
          simp only [ea, Except.ok.injEq, Prod.mk.injEq] at hu ⊢
          obtain ⟨ho, hw, hg⟩ := hu
          subst ho; subst hw; subst hg
          refine ⟨_, ⟨rfl, rfl, rfl⟩, rfl, ?_, ?_, ?_⟩
          · have := writeState_agree o 1 o.t1 o'.t1 l f (if bias then 1 else 0) (dummyLike v) a s1 h1 e1
            simpa [writeState, hu'] using this
          · have := writeState_agree o 2 o.t2 o'.t2 l f (if bias then 1 else 0) (dummyLike v) b s2 h2 e2
            simpa [writeState, hu'] using this
          · have := writeState_agree o 3 o.t3 o'.t3 l f (if bias then 1 else 0) (dummyLike v) c s3 h3 e3
            simpa [writeState, hu'] using this

/-- **frame property**: an update of slot `(l,f,b)` leaves the state of every other slot untouched -/
theorem update_other_slot_unchanged (o : Optimizer α) (l f : Nat) (bias : Bool) (t : Nat) (v g : Tensor α)
    (o1 : Optimizer α) (w g1 : Tensor α) (hu : update o l f bias t v g = .ok (o1, w, g1))
    (l' f' b' : Nat) (hne : (l, f, (if bias then 1 else 0)) ≠ (l', f', b')) :
    o1.kind = o.kind ∧ AgreeAt o1 o l' f' b' := by
  unfold update at hu
  simp only [] at hu
  cases e1 : readState o 1 o.t1 l f (if bias then 1 else 0) (dummyLike v) with
  | error e => simp [e1] at hu
  | ok s1 =>
    cases e2 : readState o 2 o.t2 l f (if bias then 1 else 0) (dummyLike v) with
    | error e => simp [e1, e2] at hu
    | ok s2 =>
      cases e3 : readState o 3 o.t3 l f (if bias then 1 else 0) (dummyLike v) with
      | error e => simp [e1, e2, e3] at hu
      | ok s3 =>
        simp only [e1, e2, e3] at hu
        cases ea : applyStep (o.kind.step t) v g s1 s2 s3 with
        | error e => simp [ea] at hu
        | ok r =>
          obtain ⟨w', g', a, b, c⟩ := r
          simp only [ea, Except.ok.injEq, Prod.mk.injEq] at hu
          obtain ⟨ho, _, _⟩ := hu
          subst ho
          exact ⟨rfl, writeState_other o 1 o.t1 _ _ _ _ _ _ a hne, writeState_other o 2 o.t2 _ _ _ _ _ _ b hne,
            writeState_other o 3 o.t3 _ _ _ _ _ _ c hne⟩

/-- is this history entry addressed to slot `(l, f, bias)`? -/
def Step.isAt (s : Step α) (l f : Nat) (bias : Bool) : Bool := s.layer == l && s.filter == f && s.bias == bias

theorem bidx_inj (a b : Bool) (h : (if a then 1 else 0 : Nat) = (if b then 1 else 0)) : a = b := by
  cases a <;> cases b <;> simp_all

/-- **history refinement / slot independence**: after *any* interleaved history over any slots, the
    parameters of slot `(l, f, bias)` are those obtained by running only that slot's own sub-history —
    state kept for one slot never influences another.  (Together with the per-element rules above:
    every slot follows the documented recurrence applied to its own gradients.) -/
theorem run_slot_independent (l f : Nat) (bias : Bool) :
    ∀ (steps : List (Step α)) (o o' : Optimizer α) (p p' : Table α),
      o.kind = o'.kind → AgreeAt o o' l f (if bias then 1 else 0) →
      getSlot p l f (if bias then 1 else 0) = getSlot p' l f (if bias then 1 else 0) →
      ∀ o1 p1, run o p steps = .ok (o1, p1) →
      ∃ o2 p2, run o' p' (steps.filter (fun s => Step.isAt s l f bias)) = .ok (o2, p2) ∧
        getSlot p2 l f (if bias then 1 else 0) = getSlot p1 l f (if bias then 1 else 0) := by
  intro steps
  induction steps with
  | nil =>
    intro o o' p p' _ _ hp o1 p1 hr
    simp only [run, Except.ok.injEq, Prod.mk.injEq] at hr
    obtain ⟨_, h2⟩ := hr
    subst h2
    exact ⟨o', p', rfl, hp.symm⟩
  | cons s rest ih =>
    intro o o' p p' hk ha hp o1 p1 hr
    unfold run at hr
    simp only [] at hr
    cases hg : getSlot p s.layer s.filter (if s.bias then 1 else 0) with
    | error e => simp [hg] at hr
    | ok v =>
      simp only [hg] at hr
      cases hu : update o s.layer s.filter s.bias s.stepnr v s.grad with
      | error e => simp [hu] at hr
      | ok r =>
        obtain ⟨oa, v', g'⟩ := r
        simp only [hu] at hr
        by_cases hat : Step.isAt s l f bias = true
        · -- the step belongs to the slot: both runs perform it
          simp only [Step.isAt, Bool.and_eq_true, beq_iff_eq] at hat
          obtain ⟨⟨h1, h2⟩, h3⟩ := hat
          have hfil : (s :: rest).filter (fun s => Step.isAt s l f bias) = s :: rest.filter (fun s => Step.isAt s l f bias) := by
            simp [List.filter, Step.isAt, h1, h2, h3]
          rw [hfil]
          rw [h1, h2, h3] at hg hu hr
          obtain ⟨ob, hub, hkb, hab⟩ := update_own_slot o o' hk l f bias s.stepnr v s.grad ha oa v' g' hu
          have hg' : getSlot p' l f (if bias then 1 else 0) = .ok v := by rw [← hp]; exact hg
          have hp2 : getSlot (setSlot p l f (if bias then 1 else 0) v') l f (if bias then 1 else 0) =
              getSlot (setSlot p' l f (if bias then 1 else 0) v') l f (if bias then 1 else 0) := by
            rw [getSlot_setSlot_same p l f _ v' v hg, getSlot_setSlot_same p' l f _ v' v hg']
          obtain ⟨o2, p2, hr2, hq⟩ := ih oa ob _ _ hkb.symm hab hp2 o1 p1 hr
          refine ⟨o2, p2, ?_, hq⟩
          unfold run
          simp only [h1, h2, h3, hg', hub]
          exact hr2
        · -- the step belongs to another slot: only the full run performs it, and the slot is untouched
          have hfil : (s :: rest).filter (fun s => Step.isAt s l f bias) = rest.filter (fun s => Step.isAt s l f bias) := by
            simp [List.filter, hat]
          rw [hfil]
          have hne : (s.layer, s.filter, (if s.bias then 1 else 0 : Nat)) ≠ (l, f, (if bias then 1 else 0)) := by
            intro e
            simp only [Prod.mk.injEq] at e
            obtain ⟨e1, e2, e3⟩ := e
            apply hat
            simp [Step.isAt, e1, e2, bidx_inj _ _ e3]
          obtain ⟨hka, ⟨a1, a2, a3⟩⟩ := update_other_slot_unchanged o s.layer s.filter s.bias s.stepnr v s.grad oa v' g' hu l f _ hne
          obtain ⟨b1, b2, b3⟩ := ha
          have hp2 : getSlot (setSlot p s.layer s.filter (if s.bias then 1 else 0) v') l f (if bias then 1 else 0) =
              getSlot p' l f (if bias then 1 else 0) := by
            rw [getSlot_setSlot_other p _ _ _ l f _ v' hne]; exact hp
          exact ih oa o' _ p' (hka.trans hk) ⟨a1.trans b1, a2.trans b2, a3.trans b3⟩ hp2 o1 p1 hr


/-! ### rank independence: the same scalar rule at every position, for ranks 1, 2 and 3 -/

section ranks
variable {β : Type} [Scalar β]
open Tensor

theorem mapM_asSingle (os : List (V1 β)) (sh : V1 β → Shape) :
    L.mapM' asSingle (os.map (fun o => (⟨sh o, .single o⟩ : Tensor β))) = .ok os := by
  induction os with
  | nil => rfl
  | cons o os ih => simp [L.mapM', ih, asSingle]

theorem mapM_asDouble (os : List (V2 β)) (sh : Shape) :
    L.mapM' asDouble (os.map (fun o => (⟨sh, .double o⟩ : Tensor β))) = .ok os := by
  induction os with
  | nil => rfl
  | cons o os ih => simp [L.mapM', ih, asDouble]

theorem mapM_asTriple (os : List (V3 β)) (sh : Shape) :
    L.mapM' asTriple (os.map (fun o => (⟨sh, .triple o⟩ : Tensor β))) = .ok os := by
  induction os with
  | nil => rfl
  | cons o os ih => simp [L.mapM', ih, asTriple]

/-- rank 1 (biases, dense rows): position `j` of the result is `f self[j] [o[j] | o ∈ others]` -/
theorem nzip_elementwise_rank1 (f : β → List β → β) (d : V1 β) (others : List (V1 β)) (sh : Shape)
    (h : ∀ o ∈ others, o.length = d.length) :
    Tensor.nzip f ⟨sh, .single d⟩ (others.map (fun o => ⟨.single o.length, .single o⟩)) =
      .ok ⟨sh, .single (MeanG.spec1 f d others)⟩ := by
  simp only [Tensor.nzip, mapM_asSingle others (fun o => .single o.length), MeanG.nzip1_spec f d others h]

/-- rank 2 (dense weight matrices) -/
theorem nzip_elementwise_rank2 (f : β → List β → β) (d : V2 β) (others : List (V2 β)) (sh sh' : Shape) (hh ww : Nat)
    (hd : L.Dims2 d hh ww) (ho : ∀ o ∈ others, L.Dims2 o hh ww) :
    Tensor.nzip f ⟨sh, .double d⟩ (others.map (fun o => ⟨sh', .double o⟩)) =
      .ok ⟨sh, .double (MeanG.spec2 f d others)⟩ := by
  simp only [Tensor.nzip, mapM_asDouble others sh', MeanG.nzip2_spec f d others hh ww hd ho]

/-- rank 3 (convolution / deconvolution kernels) -/
theorem nzip_elementwise_rank3 (f : β → List β → β) (d : V3 β) (others : List (V3 β)) (sh sh' : Shape) (c hh ww : Nat)
    (hd : L.Dims3 d c hh ww) (ho : ∀ o ∈ others, L.Dims3 o c hh ww) :
    Tensor.nzip f ⟨sh, .triple d⟩ (others.map (fun o => ⟨sh', .triple o⟩)) =
      .ok ⟨sh, .triple (MeanG.spec3 f d others)⟩ := by
  simp only [Tensor.nzip, mapM_asTriple others sh', MeanG.nzip3_spec f d others c hh ww hd ho]

/-- … and the entry of `spec3` at `(a, i, j)` is the scalar rule on the entries at `(a, i, j)`
    (`MeanG.spec1_get`, `spec2_get` for the lower ranks) -/
theorem rank3_entry (f : β → List β → β) (self : V3 β) (others : List (V3 β)) (c hh ww a i j : Nat)
    (hs : L.Dims3 self c hh ww) (ha : a < c) (hi : i < hh) (hj : j < ww) :
    (((MeanG.spec3 f self others).getD a []).getD i []).getD j 0 =
      f (((self.getD a []).getD i []).getD j 0) (others.map (fun o => ((o.getD a []).getD i []).getD j 0)) :=
  MeanG.spec3_get f self others c hh ww a i j hs ha hi hj

end ranks

end C03
