import Model.Network
import Proofs.Feedback

/-!
# C11 — a feedback block computes the repeated, optionally skip-combined, layer sequence

About `Feedback.create` (`Feedback::create`), `Feedback.forwardAll` (`Feedback::forward`) and
`Network.addDense` (the flatten flag).  The specification `FeedbackSpec.blockSpec` (Proofs/Feedback.lean)
is written without positions or tables:

* `applySeq ls x` — the composition of the layer sequence;
* `laterReps` — every repetition after the first receives the previous repetition's output, combined
  with the block's input (`repInput`) when input skips are on;
* the last output is combined with the outputs of all earlier repetitions when output skips are on
  (and `loops ≥ 2`, otherwise there is nothing to combine with);
* flattened when the flag is set — which `Network.addDense` does when a dense layer follows.

`block_computes_spec` proves that the position-indexed, table-driven unrolled forward pass of a
created block equals this specification **for every layer list, every `loops ≥ 1`, all four flag
combinations, all five accumulations and all inputs, errors included**.
-/

set_option linter.unusedSectionVars false

namespace C11
open Network Scalar FeedbackSpec

variable {α : Type} [Scalar α]

/-! ### the connection table `create` builds -/

theorem find?_append {β : Type} (a b : List (Nat × β)) (k : Nat) :
    Assoc.find? (a ++ b) k = (Assoc.find? a k).or (Assoc.find? b k) := by
  induction a with
  | nil => simp [Assoc.find?]
  | cons e rest ih =>
    obtain ⟨k', v⟩ := e
    simp only [List.cons_append, Assoc.find?]
    split
    · simp
    · exact ih

theorem find?_map_const {β : Type} (srcs : List Nat) (v : β) (k : Nat) :
    Assoc.find? (srcs.map (fun t => (t, v))) k = if k ∈ srcs then some v else none := by
  induction srcs with
  | nil => simp [Assoc.find?]
  | cons s rest ih =>
    simp only [List.map_cons, Assoc.find?, List.mem_cons]
    by_cases h : s = k
    · simp [h]
    · have : ¬ k = s := fun e => h e.symm
      simp [h, this, ih]

theorem tail_range (n : Nat) : (List.range n).tail = List.range' 1 (n - 1) := by
  rw [List.range_eq_range', List.tail_range']

theorem create_rejects_zero_loops (ls : List (InnerLayer α)) (i o : Bool) (acc : Accumulation) :
    Feedback.create ls 0 i o acc = .error .reject := by simp [Feedback.create]

/-- a block whose output shape differs from its input shape is refused -/
theorem create_rejects_shape_mismatch (ls : List (InnerLayer α)) (loops : Nat) (i o : Bool) (acc : Accumulation)
    (first last : InnerLayer α) (hl : loops ≠ 0) (h1 : ls.head? = some first) (h2 : ls.getLast? = some last)
    (hne : first.inputs ≠ last.outputs) : Feedback.create ls loops i o acc = .error .shape := by
  simp [Feedback.create, hl, h1, h2, hne]

open Classical in
/-- the block `create` returns is wired as the specification assumes: the unrolled layer list is
    `loops` copies; with input skips position `i·len` (`1 ≤ i < loops`) has the single source `0` (the
    block input); with output skips and `loops ≥ 2` position `loops·len` has the sources
    `len, 2·len, …, (loops−1)·len` (the outputs of the earlier repetitions); no other position has an
    entry -/
theorem create_wired (ls : List (InnerLayer α)) (loops : Nat) (inskips outskips : Bool) (acc : Accumulation)
    (f : Feedback α) (h : Feedback.create ls loops inskips outskips acc = .ok f) :
    Wired f ls loops inskips outskips ∧ f.accumulation = acc ∧ f.flatten = false ∧ 1 ≤ loops ∧ ls ≠ [] := by
  unfold Feedback.create at h
  split at h
  · simp at h
  · rename_i hloops
    split at h
    · rename_i first last hfirst hlast
      split at h
      · simp at h
      · simp only [Except.ok.injEq] at h
        subst h
        have hne : ls ≠ [] := by intro e; rw [e] at hfirst; simp at hfirst
        have hlen : 1 ≤ ls.length := by
          cases ls with
          | nil => exact absurd rfl hne
          | cons _ _ => simp
        have hmem : ∀ k, k ∈ (List.range loops).tail.map (fun i => i * ls.length) ↔
            ∃ i, 1 ≤ i ∧ i < loops ∧ i * ls.length = k := by
          intro k
          rw [tail_range]
          simp only [List.mem_map, List.mem_range'_1]
          constructor
          · rintro ⟨i, ⟨h1, h2⟩, rfl⟩; exact ⟨i, h1, by omega, rfl⟩
          · rintro ⟨i, h1, h2, rfl⟩; exact ⟨i, ⟨h1, by omega⟩, rfl⟩
        have hsrcs_ne : ((List.range loops).tail.map (fun i => i * ls.length) ≠ []) ↔ 2 ≤ loops := by
          rw [tail_range]
          simp only [ne_eq, List.map_eq_nil_iff, List.range'_eq_nil_iff]
          omega
        -- lookup in the built table
        have key : ∀ k, Assoc.find? ((if inskips = true then
              ((List.range loops).tail.map (fun i => i * ls.length)).map (fun t => (t, [0])) else []) ++
            (if outskips = true ∧ (List.range loops).tail.map (fun i => i * ls.length) ≠ [] then
              [(loops * ls.length, (List.range loops).tail.map (fun i => i * ls.length))] else [])) k =
            (if inskips = true ∧ (∃ i, 1 ≤ i ∧ i < loops ∧ i * ls.length = k) then some [0]
             else if outskips = true ∧ 2 ≤ loops ∧ k = loops * ls.length then
               some ((List.range' 1 (loops - 1)).map (· * ls.length)) else none) := by
          intro k
          rw [find?_append]
          cases inskips with
          | true =>
            simp only [if_true, true_and, find?_map_const, hmem]
            by_cases hk : ∃ i, 1 ≤ i ∧ i < loops ∧ i * ls.length = k
            · simp [hk]
            · simp only [hk, if_false, Option.none_or]
              by_cases ho : outskips = true ∧ 2 ≤ loops
              · have : outskips = true ∧ (List.range loops).tail.map (fun i => i * ls.length) ≠ [] :=
                  ⟨ho.1, hsrcs_ne.mpr ho.2⟩
                rw [if_pos this]
                simp only [Assoc.find?]
                by_cases hkk : loops * ls.length = k
                · simp [hkk.symm, ho.1, ho.2]
                · have : ¬ k = loops * ls.length := fun e => hkk e.symm
                  simp [hkk, this]
              · have : ¬ (outskips = true ∧ (List.range loops).tail.map (fun i => i * ls.length) ≠ []) := by
                  rw [hsrcs_ne]; exact ho
                rw [if_neg this]
                have : ¬ (outskips = true ∧ 2 ≤ loops ∧ k = loops * ls.length) := fun e => ho ⟨e.1, e.2.1⟩
                simp [Assoc.find?, this]
          | false =>
            simp only [Bool.false_eq_true, if_false, false_and, Assoc.find?, Option.none_or]
            by_cases ho : outskips = true ∧ 2 ≤ loops
            · have : outskips = true ∧ (List.range loops).tail.map (fun i => i * ls.length) ≠ [] :=
                ⟨ho.1, hsrcs_ne.mpr ho.2⟩
              rw [if_pos this]
              simp only [Assoc.find?]
              by_cases hkk : loops * ls.length = k
              · simp [hkk.symm, ho.1, ho.2]
              · have : ¬ k = loops * ls.length := fun e => hkk e.symm
                simp [hkk, this]
            · have : ¬ (outskips = true ∧ (List.range loops).tail.map (fun i => i * ls.length) ≠ []) := by
                rw [hsrcs_ne]; exact ho
              rw [if_neg this]
              have : ¬ (outskips = true ∧ 2 ≤ loops ∧ k = loops * ls.length) := fun e => ho ⟨e.1, e.2.1⟩
              simp [Assoc.find?, this]
        refine ⟨⟨rfl, ?_, ?_, ?_, ?_⟩, rfl, rfl, by omega, hne⟩
        · -- position 0
          simp only []
          rw [key]
          have h1 : ¬ ∃ i, 1 ≤ i ∧ i < loops ∧ i * ls.length = 0 := by
            rintro ⟨i, h1, _, h3⟩
            rcases Nat.mul_eq_zero.mp h3 with h | h <;> omega
          have h2 : ¬ (0 = loops * ls.length) := by
            intro e
            rcases Nat.mul_eq_zero.mp e.symm with h | h <;> omega
          simp [h1, h2]
        · -- first position of a later repetition
          intro i hi1 hi2
          simp only []
          rw [key]
          have h1 : ∃ j, 1 ≤ j ∧ j < loops ∧ j * ls.length = i * ls.length := ⟨i, hi1, hi2, rfl⟩
          have h2 : ¬ (i * ls.length = loops * ls.length) := by
            intro e
            have := Nat.eq_of_mul_eq_mul_right (by omega) e
            omega
          cases inskips <;> simp [h1, h2]
        · -- inside a repetition
          intro i q hi h1 h2
          simp only []
          rw [key]
          have hq1 : ¬ ∃ j, 1 ≤ j ∧ j < loops ∧ j * ls.length = q := by
            rintro ⟨j, _, _, rfl⟩
            have a := Nat.lt_of_mul_lt_mul_right h1
            have b := Nat.lt_of_mul_lt_mul_right h2
            omega
          have hq2 : ¬ (q = loops * ls.length) := by
            intro e
            have : (i + 1) * ls.length ≤ loops * ls.length := Nat.mul_le_mul_right _ (by omega)
            omega
          simp [hq1, hq2]
        · -- the output position
          simp only []
          rw [key]
          have h1 : ¬ ∃ j, 1 ≤ j ∧ j < loops ∧ j * ls.length = loops * ls.length := by
            rintro ⟨j, _, hj, e⟩
            have := Nat.eq_of_mul_eq_mul_right (by omega) e
            omega
          simp [h1]
    · simp at h

/-- non-vacuity: a two-layer block with three loops and both skips is created, and wired as described:
    positions 2 and 4 receive the block input (position 0), the output position 6 the outputs at 2 and 4 -/
example (l : InnerLayer α) (acc : Accumulation) (h : l.inputs = l.outputs) :
    (Feedback.create [l, l] 3 true true acc).map (·.connect) = .ok [(2, [0]), (4, [0]), (6, [2, 4])] := by
  simp [Feedback.create, h, Except.map, List.range, List.range.loop]

/-! ### the forward pass is the specification -/

/-- **C11.** for every layer list, every `loops`, both skip flags, every accumulation and every input:
    the block `create` returns (with the flatten flag as the network sets it) outputs exactly
    `blockSpec` — the `loops`-fold repeated application of the layer sequence with the configured
    combinations — and fails exactly when the specification fails, with the same error -/
theorem block_computes_spec (ls : List (InnerLayer α)) (loops : Nat) (inskips outskips : Bool) (acc : Accumulation)
    (f : Feedback α) (flatten : Bool) (x : Tensor α)
    (h : Feedback.create ls loops inskips outskips acc = .ok f) :
    blockOutput { f with flatten := flatten } x = blockSpec ls loops inskips outskips acc flatten x := by
  obtain ⟨hw, hacc, _, hl, hne⟩ := create_wired ls loops inskips outskips acc f h
  cases ls with
  | nil => exact absurd rfl hne
  | cons l0 ls' =>
    obtain ⟨k, rfl⟩ : ∃ k, loops = k + 1 := ⟨loops - 1, by omega⟩
    have hw' : Wired { f with flatten := flatten } (l0 :: ls') (k + 1) inskips outskips :=
      ⟨hw.layers, hw.c0, hw.cin, hw.cfree, hw.cout⟩
    rw [wired_output _ l0 ls' k inskips outskips x hw']
    simp only [hacc]


/-! ### reading the specification -/

/-- the composition of an empty sequence is the identity; of `l :: ls` it is `ls` after `l` (the
    layer refuses an input of the wrong shape) -/
theorem applySeq_nil (x : Tensor α) : applySeq ([] : List (InnerLayer α)) x = .ok x := rfl

theorem applySeq_cons (l : InnerLayer α) (ls : List (InnerLayer α)) (x : Tensor α) :
    applySeq (l :: ls) x =
      if l.inputs ≠ x.shape then .error .shape else
      match l.forward x with
      | .error e => .error e
      | .ok (_, post, _) => applySeq ls post := by
  simp only [applySeq, seqTrace]
  by_cases hs : l.inputs = x.shape
  · simp only [ne_eq, hs, not_true_eq_false, ↓reduceIte]
    cases l.forward x with
    | error e => rfl
    | ok r =>
      obtain ⟨pre, post, m⟩ := r
      simp only []
      cases hq : seqTrace ls post with
      | error e => rfl
      | ok r2 =>
        obtain ⟨us, as, ms⟩ := r2
        simp only [List.getLast?_cons]
        cases as.getLast? <;> rfl
  · simp only [ne_eq, hs, not_false_eq_true, ↓reduceIte]

/-- a repetition after the first: with input skips it receives the accumulation of the previous
    output with the block input, otherwise the previous output -/
theorem repInput_on (acc : Accumulation) (x y : Tensor α) : repInput acc true x y = accumulateMany acc y [x] := rfl
theorem repInput_off (acc : Accumulation) (x y : Tensor α) : repInput acc false x y = .ok y := rfl

/-- the five accumulations of `x` with sources `ys` -/
theorem accumulate_add (x : Tensor α) (ys : List (Tensor α)) :
    accumulateMany .add x ys = ys.foldl (fun r y => match r with | .ok t => t.add y | .error e => .error e) (.ok x) := rfl
theorem accumulate_subtract (x : Tensor α) (ys : List (Tensor α)) :
    accumulateMany .subtract x ys = ys.foldl (fun r y => match r with | .ok t => t.sub y | .error e => .error e) (.ok x) := rfl
theorem accumulate_multiply (x : Tensor α) (ys : List (Tensor α)) :
    accumulateMany .multiply x ys = ys.foldl (fun r y => match r with | .ok t => t.mul y | .error e => .error e) (.ok x) := rfl
theorem accumulate_mean (x : Tensor α) (ys : List (Tensor α)) : accumulateMany .mean x ys = x.mean ys := rfl
theorem accumulate_overwrite (x y : Tensor α) (ys : List (Tensor α)) :
    accumulateMany .overwrite x (ys ++ [y]) = .ok y := by simp [accumulateMany]

/-- the plain `n`-fold repeated application -/
def iterate (ls : List (InnerLayer α)) : Nat → Tensor α → Except Err (Tensor α)
  | 0, x => .ok x
  | n + 1, x => match applySeq ls x with
    | .error e => .error e
    | .ok y => iterate ls n y

theorem laterReps_noskip (ls : List (InnerLayer α)) (acc : Accumulation) (x : Tensor α) :
    ∀ (k : Nat) (y : Tensor α),
    (match laterReps ls acc false x k y with
     | .error e => .error e
     | .ok ys => .ok ((y :: ys).getLast?.getD y)) = iterate ls k y
  | 0, y => by simp [laterReps, iterate]
  | k + 1, y => by
    simp only [laterReps, repInput_off, iterate]
    cases applySeq ls y with
    | error e => rfl
    | ok y' =>
      simp only []
      rw [← laterReps_noskip ls acc x k y']
      cases laterReps ls acc false x k y' with
      | error e => rfl
      | ok ys => simp [List.getLast?_cons]

/-- **without skips a block with `L` loops is the `L`-fold repeated application of its layer
    sequence** (whatever the accumulation) -/
theorem noskip_block_is_iterate (ls : List (InnerLayer α)) (loops : Nat) (hl : 1 ≤ loops) (acc : Accumulation) (x : Tensor α) :
    blockSpec ls loops false false acc false x = iterate ls loops x := by
  obtain ⟨k, rfl⟩ : ∃ k, loops = k + 1 := ⟨loops - 1, by omega⟩
  simp only [blockSpec, iterate, Nat.add_sub_cancel]
  cases applySeq ls x with
  | error e => rfl
  | ok y1 =>
    simp only []
    rw [← laterReps_noskip ls acc x k y1]
    cases laterReps ls acc false x k y1 with
    | error e => rfl
    | ok ys => simp

/-- one loop: the block is its layer sequence, whatever the flags (nothing to combine with) -/
theorem one_loop_block (ls : List (InnerLayer α)) (i o : Bool) (acc : Accumulation) (x : Tensor α) :
    blockSpec ls 1 i o acc false x = applySeq ls x := by
  simp only [blockSpec]
  cases applySeq ls x with
  | error e => rfl
  | ok y1 => simp [laterReps]

/-! ### flattening: set exactly when a dense layer follows a spatial block -/

theorem addDense_after_spatial_block (n : Network α) (front : List (Layer α)) (l : Feedback α) (c h w : Nat)
    (hn : n.layers = front ++ [.feedback l]) (ho : l.outputs = .triple c h w)
    (outputs : Nat) (act : Act) (bias : Bool) (dropout : Option α) (wt : Tensor α) (bt : Option (Tensor α)) :
    (n.addDense outputs act bias dropout wt bt).map (·.layers) =
      .ok (front ++ [.feedback { l with flatten := true },
        .dense { inputs := .single (c * h * w), outputs := .single outputs, loops := 1, scale := fun x => 1 / x,
                 weights := wt, bias := if bias then bt else none, act := act, dropout := dropout, training := false }]) := by
  have hlast : n.layers.getLast? = some (.feedback l) := by rw [hn]; simp
  have hdrop : n.layers.dropLast = front := by rw [hn]; simp
  simp only [addDense, hlast, ho, Except.map, hdrop]

theorem addDense_after_flat_block (n : Network α) (front : List (Layer α)) (l : Feedback α) (k : Nat)
    (hn : n.layers = front ++ [.feedback l]) (ho : l.outputs = .single k)
    (outputs : Nat) (act : Act) (bias : Bool) (dropout : Option α) (wt : Tensor α) (bt : Option (Tensor α)) :
    (n.addDense outputs act bias dropout wt bt).map (·.layers) =
      .ok (front ++ [.feedback l,
        .dense { inputs := .single k, outputs := .single outputs, loops := 1, scale := fun x => 1 / x,
                 weights := wt, bias := if bias then bt else none, act := act, dropout := dropout, training := false }]) := by
  have hlast : n.layers.getLast? = some (.feedback l) := by rw [hn]; simp
  have hdrop : n.layers.dropLast = front := by rw [hn]; simp
  simp only [addDense, hlast, ho, Except.map, hdrop]

/-- what the network records as the block's output is `blockOutput` -/
theorem layerForward_block (f : Feedback α) (x : Tensor α) :
    (layerForward (.feedback f) x).map (·.2.1) = blockOutput f x := by
  simp only [layerForward, Feedback.forward, blockOutput]
  cases hf : f.forwardAll x with
  | error e => rfl
  | ok r =>
    obtain ⟨un, act, mx⟩ := r
    simp only []
    cases hh : un.head? with
    | none =>
      -- `forwardAll` never returns an empty list of pre-activations
      exfalso
      unfold Feedback.forwardAll at hf
      cases hfold : List.foldl f.forwardStep (Except.ok ([], [x], [])) ((List.range f.layers.length).zip f.layers) with
      | error e => rw [hfold] at hf; simp at hf
      | ok r =>
        obtain ⟨un', act', mx'⟩ := r
        rw [hfold] at hf
        simp only [] at hf
        cases hl : act'.getLast? with
        | none => rw [hl] at hf; simp at hf
        | some last0 =>
          cases hu : un'.head? with
          | none => rw [hl, hu] at hf; simp at hf
          | some u0 =>
            rw [hl, hu] at hf
            simp only [] at hf
            cases hsk : f.skipped act'.dropLast f.layers.length last0 with
            | error e => rw [hsk] at hf; simp at hf
            | ok last =>
              rw [hsk] at hf
              simp only [] at hf
              cases hout : (if f.flatten = true then last.flatten else Except.ok last) with
              | error e => rw [hout] at hf; simp at hf
              | ok out =>
                rw [hout] at hf
                simp only [Except.ok.injEq, Prod.mk.injEq] at hf
                rw [← hf.1, hu] at hh
                simp at hh
    | some u0 =>
      cases act.getLast? <;> rfl

end C11
