import Model.Train
import Proofs.Chunks
import Proofs.Real
import Proofs.Sums

/-!
# C12 — `validate` and `predict_batch` are faithful aggregations of `predict`

About `Network.predictBatch`, `Network.predict`, `Network.validate`, `Network.score`, `Tensor.argmax`
(`Model/Train.lean`, `Model/Network.lean`, `Model/Tensor.lean`).
-/

set_option linter.unusedSectionVars false

namespace C12
open Network Scalar

variable {α : Type} [Scalar α]

/-- **`predict_batch` = `predict` of each input, in input order, for any number of inputs** — the
    internal chunk size (64) plays no role: below, at, above it, multiples or not -/
theorem predictBatch_eq_map (n : Network α) (xs : List (Tensor α)) :
    n.predictBatch xs = L.mapM' n.predict xs := by
  unfold predictBatch
  have h := L.mapM'_groups n.predict (L.chunks 64 xs)
  rw [L.chunks_flatten 64 (by decide) xs] at h
  rw [← h]
  cases L.mapM' (fun g => L.mapM' n.predict g) (L.chunks 64 xs) <;> rfl

/-- in particular the result has one prediction per input -/
theorem mapM'_length {ε β γ : Type} (f : β → Except ε γ) : ∀ (l : List β) (r : List γ), L.mapM' f l = .ok r → r.length = l.length
  | [], r, h => by simp [L.mapM'] at h; subst h; rfl
  | x :: xs, r, h => by
    simp only [L.mapM'] at h
    cases hx : f x with
    | error e => simp [hx] at h
    | ok y =>
      simp only [hx] at h
      cases hr : L.mapM' f xs with
      | error e => simp [hr] at h
      | ok ys =>
        simp only [hr, Except.ok.injEq] at h
        subst h
        simp [mapM'_length f xs ys hr]

theorem predictBatch_length (n : Network α) (xs ys : List (Tensor α)) (h : n.predictBatch xs = .ok ys) :
    ys.length = xs.length := by
  rw [predictBatch_eq_map] at h
  exact mapM'_length _ _ _ h

/-- `predict` is the final activation of `forward` -/
theorem predict_eq_last_activation (n : Network α) (x : Tensor α) (t : Trace α) (y : Tensor α)
    (h : n.forward x = .ok t) (hy : t.act.getLast? = some y) : n.predict x = .ok y := by
  simp [predict, h, hy]

/-- **`validate` returns the arithmetic means** of the per-sample objective losses of the (dropout-free)
    network's predictions and of the per-sample scores, summed in input order -/
theorem validate_eq_means (n : Network α) (xs ts : List (Tensor α)) (tol : α) (n' : Network α) (l a : α)
    (h : n.validate xs ts tol = .ok (n', l, a)) :
    ∃ results : List (α × α),
      L.mapM' (fun it : Tensor α × Tensor α =>
        match (n.setAllTraining false).predict it.1 with
        | .error e => .error e
        | .ok p =>
          match (n.setAllTraining false).objective.loss (n.setAllTraining false).clamp p it.2,
                (n.setAllTraining false).score p it.2 tol with
          | .ok (l, _), .ok a => .ok (l, a)
          | .error e, _ => .error e
          | _, .error e => .error e) (xs.zip ts) = .ok results ∧
      results.length = (xs.zip ts).length ∧
      l = Tensor.sumL (results.map (·.1)) / ofNat' results.length ∧
      a = Tensor.sumL (results.map (·.2)) / ofNat' results.length := by
  unfold validate at h
  simp only [] at h
  split at h
  · simp at h
  · rename_i results hr
    simp only [Except.ok.injEq, Prod.mk.injEq] at h
    obtain ⟨_, h2, h3⟩ := h
    exact ⟨results, hr, mapM'_length _ _ _ hr, h2.symm, h3.symm⟩

/-- over the reals the two sums are `List.sum`, so the results are the usual means -/
theorem mean_real (l : List ℝ) : Tensor.sumL l / (Scalar.ofNat' l.length : ℝ) = l.sum / l.length := by
  rw [Sums.sumL_eq]; rfl

/-! ### the per-sample score -/

/-- a soft-max output layer scores arg-max agreement -/
theorem score_softmax (n : Network α) (d : DenseLayer α) (hd : n.layers.getLast? = some (.dense d)) (hs : d.act = .softmax)
    (p t : Tensor α) (tol : α) (i j : Nat) (ht : t.argmax = .ok i) (hp : p.argmax = .ok j) :
    n.score p t tol = .ok (if i = j then 1 else 0) := by
  simp [score, hd, hs, ht, hp]

/-- a single output scores `|p − t| < tol` -/
theorem score_single (n : Network α) (d : DenseLayer α) (hd : n.layers.getLast? = some (.dense d)) (hs : d.act ≠ .softmax)
    (p0 t0 tol : α) :
    n.score (Tensor.single [p0]) (Tensor.single [t0]) tol = .ok (if lt (Scalar.abs (p0 - t0)) tol then 1 else 0) := by
  cases ha : d.act <;> simp_all [score, Tensor.single, Tensor.getFlat]

/-- otherwise: the fraction of output components within `tol` of the target -/
theorem score_fraction (n : Network α) (d : DenseLayer α) (hd : n.layers.getLast? = some (.dense d)) (hs : d.act ≠ .softmax)
    (p t : List α) (tol : α) (hl : t.length ≠ 1) :
    n.score (Tensor.single p) (Tensor.single t) tol =
      .ok (Tensor.sumL (List.zipWith (fun t p => if lt (Scalar.abs (t - p)) tol then (1 : α) else 0) t p) / ofNat' t.length) := by
  cases ha : d.act <;> simp_all [score, Tensor.single, Tensor.getFlat]

/-! ### arg-max: the last maximal index -/

/-- the fold of `Tensor.argmax` (state: best index, current index, best value) -/
noncomputable def argStep (acc : Nat × Nat × ℝ) (v : ℝ) : Nat × Nat × ℝ :=
  if Scalar.lt v acc.2.2 then (acc.1, acc.2.1 + 1, acc.2.2) else (acc.2.1 + 1, acc.2.1 + 1, v)

theorem argmax_fold_spec : ∀ (xs : List ℝ) (best i : Nat) (bv : ℝ) (pre : List ℝ),
    pre.length = i + 1 → best ≤ i → pre.getD best 0 = bv → (∀ j, j < pre.length → pre.getD j 0 ≤ bv) →
    (∀ j, best < j → j < pre.length → pre.getD j 0 < bv) →
    let r := xs.foldl argStep (best, i, bv)
    r.1 < (pre ++ xs).length ∧ (∀ j, j < (pre ++ xs).length → (pre ++ xs).getD j 0 ≤ (pre ++ xs).getD r.1 0) ∧
    (∀ j, r.1 < j → j < (pre ++ xs).length → (pre ++ xs).getD j 0 < (pre ++ xs).getD r.1 0) := by
  intro xs
  induction xs with
  | nil =>
    intro best i bv pre hl hb hv hmax hlast
    simp only [List.foldl_nil, List.append_nil]
    refine ⟨by omega, ?_, ?_⟩
    · intro j hj; rw [hv]; exact hmax j hj
    · intro j h1 h2; rw [hv]; exact hlast j h1 h2
  | cons x xs ih =>
    intro best i bv pre hl hb hv hmax hlast
    simp only [List.foldl_cons]
    have hpre : pre ++ x :: xs = (pre ++ [x]) ++ xs := by simp
    rw [hpre]
    have getD_pre : ∀ j, j < pre.length → (pre ++ [x]).getD j 0 = pre.getD j 0 := by
      intro j hj
      simp [List.getD_eq_getElem?_getD, List.getElem?_append_left hj]
    have getD_new : (pre ++ [x]).getD (i + 1) 0 = x := by
      simp [List.getD_eq_getElem?_getD, ← hl]
    by_cases hlt : x < bv
    · have e : argStep (best, i, bv) x = (best, i + 1, bv) := by simp [argStep, Scalar.lt, hlt]
      rw [e]
      apply ih best (i + 1) bv (pre ++ [x]) (by simp [hl]) (by omega)
      · rw [getD_pre best (by omega)]; exact hv
      · intro j hj
        simp at hj
        by_cases hj' : j < pre.length
        · rw [getD_pre j hj']; exact hmax j hj'
        · have : j = i + 1 := by omega
          rw [this, getD_new]; exact hlt.le
      · intro j h1 hj
        simp at hj
        by_cases hj' : j < pre.length
        · rw [getD_pre j hj']; exact hlast j h1 hj'
        · have : j = i + 1 := by omega
          rw [this, getD_new]; exact hlt
    · have e : argStep (best, i, bv) x = (i + 1, i + 1, x) := by simp [argStep, Scalar.lt, hlt]
      rw [e]
      have hge : bv ≤ x := not_lt.mp hlt
      apply ih (i + 1) (i + 1) x (pre ++ [x]) (by simp [hl]) (Nat.le_refl _) getD_new
      · intro j hj
        simp at hj
        by_cases hj' : j < pre.length
        · rw [getD_pre j hj']; exact (hmax j hj').trans hge
        · have : j = i + 1 := by omega
          rw [this, getD_new]
      · intro j h1 hj
        simp at hj
        omega

/-- **ties resolve to the last maximal index** (as `Iterator::max_by` does): the returned index is in
    range, its value is ≥ every value and strictly greater than every later value -/
theorem argmax_last_max (x : ℝ) (xs : List ℝ) :
    ∃ i, (Tensor.single (x :: xs)).argmax = .ok i ∧ i < (x :: xs).length ∧
      (∀ j, j < (x :: xs).length → (x :: xs).getD j 0 ≤ (x :: xs).getD i 0) ∧
      (∀ j, i < j → j < (x :: xs).length → (x :: xs).getD j 0 < (x :: xs).getD i 0) := by
  have hfold := argmax_fold_spec xs 0 0 x [x] rfl (Nat.le_refl _) rfl
    (by intro j hj; simp at hj; subst hj; simp) (by intro j h1 h2; simp at h2; omega)
  simp only [List.singleton_append] at hfold
  refine ⟨(xs.foldl argStep (0, 0, x)).1, ?_, hfold.1, hfold.2.1, hfold.2.2⟩
  have hnan : (x :: xs).any (Scalar.isNaN : ℝ → Bool) = false := by simp
  simp only [Tensor.argmax, Tensor.single, hnan]
  rfl

/-! non-vacuity -/
example : ∃ i, (Tensor.single ([1, 3, 3, 2] : List ℝ)).argmax = .ok i := by
  obtain ⟨i, h, _⟩ := argmax_last_max 1 [3, 3, 2]; exact ⟨i, h⟩

end C12
