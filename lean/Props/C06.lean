import Model.Objective
import Proofs.Real
import Proofs.Sums
import Proofs.TensorWf
import Proofs.Zip

/-!
# C06 — objective functions return the documented loss and gradient

Statements about `Obj.loss`, `Obj.term`, `Obj.grad`, `Obj.reduce` (`Model/Objective.lean`) at `ℝ`.
`a` is the target ("actual"), `p` the prediction, `n` the number of targets.
-/

set_option linter.unusedSectionVars false

namespace C06
open Obj Scalar RealScalar

theorem eps_def : (Obj.eps : ℝ) = 1 / 1000000 := by
  unfold Obj.eps; rw [lit_eq]; norm_num

theorem clampP_def (p : ℝ) : Obj.clampP p = max (1 / 1000000) (min p (1 - 1 / 1000000)) := by
  unfold Obj.clampP
  rw [clampRaw_eq _ _ _ (by rw [eps_def]; norm_num), eps_def]

/-- inside `(eps, 1 - eps)` the clamp is the identity -/
theorem clampP_interior (p : ℝ) (h1 : 1 / 1000000 ≤ p) (h2 : p ≤ 1 - 1 / 1000000) : Obj.clampP p = p := by
  rw [clampP_def, min_eq_left h2, max_eq_right h1]

/-! ### definedness: every `ln` and every division is applied inside its domain, for **all** real
predictions and targets — in particular for targets and predictions that are exactly 0 or 1 -/

theorem clampP_pos (p : ℝ) : 0 < Obj.clampP p := by
  rw [clampP_def]; exact lt_of_lt_of_le (by norm_num) (le_max_left _ _)

theorem clampP_lt_one (p : ℝ) : Obj.clampP p < 1 := by
  rw [clampP_def]
  apply max_lt (by norm_num)
  exact lt_of_le_of_lt (min_le_right _ _) (by norm_num)

/-- cross-entropy, binary cross-entropy: the arguments of both logarithms are positive -/
theorem ce_ln_args_pos (p : ℝ) : 0 < Obj.clampP p ∧ 0 < 1 - Obj.clampP p :=
  ⟨clampP_pos p, by linarith [clampP_lt_one p]⟩

/-- binary cross-entropy gradient: the divisor `q (1 - q)` is positive -/
theorem bce_divisor_pos (p : ℝ) : 0 < Obj.clampP p * (1 - Obj.clampP p) :=
  mul_pos (clampP_pos p) (by linarith [clampP_lt_one p])

/-- KL-divergence: a zero target contributes exactly 0 without evaluating a logarithm; a positive
    target gives `ln` a positive argument -/
theorem kl_term_zero_target (n p : ℝ) : Obj.term .kl n 0 p = 0 := by
  simp [Obj.term]

theorem kl_ln_arg_pos (a p : ℝ) (ha : 0 < a) : 0 < a / Obj.clampP p := div_pos ha (clampP_pos p)

theorem kl_divisor_pos (p : ℝ) : Obj.clampP p ≠ 0 := (clampP_pos p).ne'

/-! ### the documented per-element formulas -/

theorem term_ae (n a p : ℝ) : Obj.term .ae n a p = |a - p| := rfl
theorem term_mae (n a p : ℝ) : Obj.term .mae n a p = |a - p| := rfl
theorem term_mse (n a p : ℝ) : Obj.term .mse n a p = (a - p) ^ 2 / n := by simp [Obj.term, sq_eq]
theorem term_rmse (n a p : ℝ) : Obj.term .rmse n a p = (a - p) ^ 2 := by simp [Obj.term, sq_eq]
theorem term_ce (n a p : ℝ) : Obj.term .ce n a p = a * Real.log (Obj.clampP p) := rfl
theorem term_bce (n a p : ℝ) :
    Obj.term .bce n a p = a * Real.log (Obj.clampP p) + (1 - a) * Real.log (1 - Obj.clampP p) := rfl
theorem term_kl (n a p : ℝ) (ha : a ≠ 0) : Obj.term .kl n a p = a * Real.log (a / Obj.clampP p) := by
  simp [Obj.term, ha]

theorem grad_sign (a p : ℝ) : Obj.signGrad a p = if a = p then 0 else if p < a then -1 else 1 := by
  unfold Obj.signGrad
  by_cases h : a = p <;> simp [h]

theorem grad_ae (n a p : ℝ) : Obj.grad .ae n a p = Obj.signGrad a p := rfl
theorem grad_mae (n a p : ℝ) : Obj.grad .mae n a p = Obj.signGrad a p := rfl
theorem grad_mse (n a p : ℝ) : Obj.grad .mse n a p = -2 * (a - p) / n := by simp [Obj.grad, two_eq]
theorem grad_rmse (n a p : ℝ) (h : a ≠ p) : Obj.grad .rmse n a p = -(a - p) / (|a - p| * n) := by
  simp [Obj.grad, h, sq_eq, Real.sqrt_sq_eq_abs]
theorem grad_ce (n a p : ℝ) : Obj.grad .ce n a p = p - a := rfl
theorem grad_bce (n a p : ℝ) :
    Obj.grad .bce n a p = (Obj.clampP p - a) / (Obj.clampP p * (1 - Obj.clampP p)) := rfl
theorem grad_kl (n a p : ℝ) : Obj.grad .kl n a p = -a / Obj.clampP p := rfl

/-! ### the reductions -/
theorem reduce_ae (n : ℝ) (ts : List ℝ) : Obj.reduce .ae n ts = ts.sum := Sums.sumL_eq ts
theorem reduce_mae (n : ℝ) (ts : List ℝ) : Obj.reduce .mae n ts = ts.sum / n := by simp [Obj.reduce, Sums.sumL_eq]
theorem reduce_mse (n : ℝ) (ts : List ℝ) : Obj.reduce .mse n ts = ts.sum := Sums.sumL_eq ts
theorem reduce_rmse (n : ℝ) (ts : List ℝ) : Obj.reduce .rmse n ts = Real.sqrt (ts.sum / n) := by
  simp [Obj.reduce, Sums.sumL_eq]
theorem reduce_ce (n : ℝ) (ts : List ℝ) : Obj.reduce .ce n ts = -ts.sum := by simp [Obj.reduce, Sums.sumL_eq]
theorem reduce_bce (n : ℝ) (ts : List ℝ) : Obj.reduce .bce n ts = -ts.sum := by simp [Obj.reduce, Sums.sumL_eq]
theorem reduce_kl (n : ℝ) (ts : List ℝ) : Obj.reduce .kl n ts = ts.sum := Sums.sumL_eq ts

/-! ### the tensor-level function: flat arm, 3-D arm, clamp -/

/-- flat predictions/targets: the loss is the reduction of the per-element terms over the pairs, the
    gradient is the per-element gradient with the prediction's shape -/
theorem loss_flat (o : Obj) (p t : V1 ℝ) (h : p.length = t.length) :
    Obj.loss o none (Tensor.single p) (Tensor.single t) =
      .ok (Obj.reduce o (t.length : ℝ) (List.zipWith (fun a q => Obj.term o (t.length : ℝ) a q) t p),
           ⟨.single p.length, .single (List.zipWith (fun a q => Obj.grad o (t.length : ℝ) a q) t p)⟩) := by
  simp [Obj.loss, Tensor.single, Tensor.getFlat, h]

/-- with a clamp configured (`lo ≤ hi`) the loss is unchanged and each gradient component is the
    unclamped value limited to the interval -/
theorem loss_flat_clamped (o : Obj) (lo hi : ℝ) (hl : lo ≤ hi) (p t : V1 ℝ) (h : p.length = t.length) :
    Obj.loss o (some (lo, hi)) (Tensor.single p) (Tensor.single t) =
      .ok (Obj.reduce o (t.length : ℝ) (List.zipWith (fun a q => Obj.term o (t.length : ℝ) a q) t p),
           ⟨.single p.length, .single ((List.zipWith (fun a q => Obj.grad o (t.length : ℝ) a q) t p).map
              (fun g => max lo (min g hi)))⟩) := by
  have hle : Scalar.le lo hi = true := by
    unfold Scalar.le
    rcases hl.lt_or_eq with h | h
    · simp [h]
    · simp [h]
  have hc : (fun x : ℝ => Scalar.clampRaw x lo hi) = (fun g => max lo (min g hi)) := by
    funext x; exact clampRaw_eq x lo hi hl
  simp [Obj.loss, Tensor.single, Tensor.getFlat, h, Tensor.clamp, hle, Tensor.mapData, hc]

/-- the 3-D arm computes the same loss and the same gradient values as the flat arm on the
    flattening, and the gradient has the prediction's (3-D) shape -/
theorem loss_triple_eq_flat (o : Obj) (c h w : Nat) (p t : V3 ℝ)
    (hp : L.Dims3 p c h w) (ht : L.Dims3 t c h w) (hc : 0 < c) (hh : 0 < h) :
    ∃ l g, Obj.loss o none (⟨.triple c h w, .triple p⟩ : Tensor ℝ) ⟨.triple c h w, .triple t⟩ = .ok (l, g) ∧
      g.shape = .triple c h w ∧ g.Wf ∧
      Obj.loss o none (Tensor.single (L.flatten3 p)) (Tensor.single (L.flatten3 t)) =
        .ok (l, ⟨.single (L.flatten3 p).length, .single g.flat⟩) := by
  have hz := L.zipWith3_eq_zip3 (fun a q => Obj.grad o ((L.flatten3 t).length : ℝ) a q) t p c h w ht hp
  have hd := L.zip3_dims (fun a q => Obj.grad o ((L.flatten3 t).length : ℝ) a q) t p c h w ht hp
  have hf := L.zip3_flat (fun a q => Obj.grad o ((L.flatten3 t).length : ℝ) a q) t p c h w ht hp
  have hlen : (L.flatten3 p).length = (L.flatten3 t).length := by
    rw [L.length_flatten3 p c h w hp, L.length_flatten3 t c h w ht]
  -- the constructor `Tensor::triple` reads the dimensions off the data
  have htri : Tensor.triple (L.zip3 (fun a q => Obj.grad o ((L.flatten3 t).length : ℝ) a q) t p) =
      .ok ⟨.triple c h w, .triple (L.zip3 (fun a q => Obj.grad o ((L.flatten3 t).length : ℝ) a q) t p)⟩ := by
    obtain ⟨h1, h2⟩ := hd
    match hq : L.zip3 (fun a q => Obj.grad o ((L.flatten3 t).length : ℝ) a q) t p, h1, h2 with
    | m :: ms, h1, h2 =>
      have hm0 := h2 m (List.mem_cons_self ..)
      match m, hm0 with
      | r0 :: rs, hm0 =>
        have hr0 := hm0.2 r0 (List.mem_cons_self ..)
        simp only [Tensor.triple, h1, hm0.1, hr0]
      | [], hm0 => simp at hm0; omega
    | [], h1, _ => simp at h1; omega
  refine ⟨Obj.reduce o ((L.flatten3 t).length : ℝ) (List.zipWith (fun a q => Obj.term o ((L.flatten3 t).length : ℝ) a q) (L.flatten3 t) (L.flatten3 p)),
    ⟨.triple c h w, .triple (L.zip3 (fun a q => Obj.grad o ((L.flatten3 t).length : ℝ) a q) t p)⟩, ?_, rfl, hd, ?_⟩
  · simp only [Obj.loss, Tensor.getFlat, ofNat_eq]
    rw [hz, htri]
  · rw [loss_flat o _ _ hlen]
    simp only [Tensor.flat, hf]

/-! ### the gradient is the derivative of the reported loss (AE, MSE, binary cross-entropy, KL)

The reported loss is a sum over the elements (with the sign of `reduce`), so its partial derivative with
respect to prediction `pᵢ` is the derivative of the `i`-th contribution, stated here per element. -/

/-- absolute error, away from the kink `p = a` -/
theorem ae_hasDerivAt (n a p : ℝ) (h : a ≠ p) :
    HasDerivAt (fun q => Obj.term .ae n a q) (Obj.grad .ae n a p) p := by
  rw [grad_ae, grad_sign]
  simp only [h, if_false]
  have hsub : HasDerivAt (fun q : ℝ => a - q) (-1) p := by
    simpa using (hasDerivAt_id p).const_sub a
  rcases lt_or_gt_of_ne h with hlt | hgt
  · -- a < p: |a - q| = q - a near p
    have : ¬ p < a := not_lt.mpr hlt.le
    simp only [this, if_false]
    have hd : HasDerivAt (fun q : ℝ => q - a) 1 p := by simpa using (hasDerivAt_id p).sub_const a
    refine hd.congr_of_eventuallyEq ?_
    filter_upwards [Ioi_mem_nhds hlt] with q hq
    have hq' : a < q := hq
    simp only [term_ae]
    rw [abs_of_neg (by linarith)]; ring
  · simp only [hgt, if_true]
    refine hsub.congr_of_eventuallyEq ?_
    filter_upwards [Iio_mem_nhds hgt] with q hq
    have hq' : q < a := hq
    simp only [term_ae]
    rw [abs_of_pos (by linarith)]

theorem mse_hasDerivAt (n a p : ℝ) :
    HasDerivAt (fun q => Obj.term .mse n a q) (Obj.grad .mse n a p) p := by
  rw [grad_mse]
  have hsub : HasDerivAt (fun q : ℝ => a - q) (-1) p := by
    simpa using (hasDerivAt_id p).const_sub a
  have h2 := (hsub.mul hsub).div_const n
  have e : (fun q => Obj.term .mse n a q) = (fun q : ℝ => (a - q) * (a - q) / n) := by
    funext q; rw [term_mse]; ring
  have e2 : (-2 * (a - p) / n : ℝ) = (-1 * (a - p) + (a - p) * -1) / n := by ring
  rw [e, e2]
  exact h2

/-- binary cross-entropy (contribution `-(a ln p + (1-a) ln (1-p))`), strictly inside the clamp -/
theorem bce_hasDerivAt (n a p : ℝ) (h1 : 1 / 1000000 < p) (h2 : p < 1 - 1 / 1000000) :
    HasDerivAt (fun q => -(Obj.term .bce n a q)) (Obj.grad .bce n a p) p := by
  have hp0 : p ≠ 0 := by linarith
  have hp1 : 1 - p ≠ 0 := by linarith
  have hlog : HasDerivAt (fun q : ℝ => Real.log q) (1 / p) p := by simpa using Real.hasDerivAt_log hp0
  have hsub : HasDerivAt (fun q : ℝ => 1 - q) (-1) p := by simpa using (hasDerivAt_id p).const_sub 1
  have hlog1 : HasDerivAt (fun q : ℝ => Real.log (1 - q)) (-1 / (1 - p)) p := hsub.log hp1
  have hd := ((hlog.const_mul a).add (hlog1.const_mul (1 - a))).neg
  have e : Obj.grad .bce n a p = -(a * (1 / p) + (1 - a) * (-1 / (1 - p))) := by
    rw [grad_bce, clampP_interior p h1.le h2.le]
    field_simp
    ring
  rw [e]
  refine hd.congr_of_eventuallyEq ?_
  have hopen : Set.Ioo (1 / 1000000 : ℝ) (1 - 1 / 1000000) ∈ nhds p := Ioo_mem_nhds h1 h2
  filter_upwards [hopen] with q hq
  rw [term_bce, clampP_interior q hq.1.le hq.2.le]
  rfl

/-- KL-divergence (contribution `a ln (a / p)`), target `a > 0`, strictly inside the clamp -/
theorem kl_hasDerivAt (n a p : ℝ) (ha : 0 < a) (h1 : 1 / 1000000 < p) (h2 : p < 1 - 1 / 1000000) :
    HasDerivAt (fun q => Obj.term .kl n a q) (Obj.grad .kl n a p) p := by
  have hp0 : p ≠ 0 := by linarith
  have hdiv : HasDerivAt (fun q : ℝ => a / q) (-a / p ^ 2) p := by
    have e : (-a / p ^ 2 : ℝ) = (0 * p - a * 1) / p ^ 2 := by ring
    rw [e]
    exact (hasDerivAt_const p a).div (hasDerivAt_id p) hp0
  have hpos : a / p ≠ 0 := (div_pos ha (by linarith)).ne'
  have hd := (hdiv.log hpos).const_mul a
  have e : Obj.grad .kl n a p = a * (-a / p ^ 2 / (a / p)) := by
    rw [grad_kl, clampP_interior p h1.le h2.le]
    field_simp
  rw [e]
  refine hd.congr_of_eventuallyEq ?_
  have hopen : Set.Ioo (1 / 1000000 : ℝ) (1 - 1 / 1000000) ∈ nhds p := Ioo_mem_nhds h1 h2
  filter_upwards [hopen] with q hq
  rw [term_kl n a q ha.ne', clampP_interior q hq.1.le hq.2.le]

/-- a zero target contributes a constant 0 and the gradient `-0 / p = 0` -/
theorem kl_zero_target (n p : ℝ) : Obj.term .kl n 0 p = 0 ∧ Obj.grad .kl n 0 p = 0 := by
  constructor
  · exact kl_term_zero_target n p
  · simp [grad_kl]

/-! non-vacuity -/
example : (1 / 1000000 : ℝ) < 0.5 ∧ (0.5 : ℝ) < 1 - 1 / 1000000 := by norm_num
example : L.Dims3 ([[[1, 2]]] : V3 ℝ) 1 1 2 := by
  refine ⟨rfl, ?_⟩; intro m hm; simp at hm; subst hm; refine ⟨rfl, ?_⟩; intro r hr; simp at hr; subst hr; rfl

end C06
