import Model.Layers
import Proofs.Reshape

/-!
# Re-chunking a row-major flat vector gives back the 3-D tensor (flat entry = spatial entry)
-/

namespace Rechunk
variable {β : Type}

theorem chunksAux_uniform (n : Nat) (hn : 0 < n) : ∀ (gs : List (List β)) (fuel : Nat),
    (∀ g ∈ gs, g.length = n) → gs.flatten.length ≤ fuel → L.chunksAux n fuel gs.flatten = gs
  | [], fuel, _, _ => by
    cases fuel <;> simp [L.chunksAux]
  | g :: gs, fuel, hg, hf => by
    have hgl : g.length = n := hg g (by simp)
    have hne : g ≠ [] := by intro e; rw [e] at hgl; simp at hgl; omega
    cases fuel with
    | zero =>
      simp only [List.flatten_cons, List.length_append] at hf
      omega
    | succ fuel =>
      simp only [List.flatten_cons]
      cases hq : g ++ gs.flatten with
      | nil => simp at hq; exact absurd hq.1 hne
      | cons a rest =>
        simp only [L.chunksAux]
        rw [← hq]
        have h1 : (g ++ gs.flatten).take n = g := by rw [← hgl]; simp
        have h2 : (g ++ gs.flatten).drop n = gs.flatten := by rw [← hgl]; simp
        rw [h1, h2, chunksAux_uniform n hn gs fuel (fun g' hg' => hg g' (by simp [hg']))]
        simp only [List.flatten_cons, List.length_append] at hf
        omega

/-- `chunks_exact(n)` of the concatenation of groups of length `n` gives the groups back -/
theorem chunksExact_flatten (n : Nat) (hn : 0 < n) (gs : List (List β)) (hg : ∀ g ∈ gs, g.length = n) :
    L.chunksExact n gs.flatten = gs := by
  unfold L.chunksExact L.chunks
  rw [chunksAux_uniform n hn gs _ hg (Nat.le_refl _)]
  rw [List.filter_eq_self]
  intro g hgm
  simp [hg g hgm]


/-- re-chunking the row-major flattening of a `c × h × w` tensor gives the tensor back -/
theorem rechunk_flatten3 {α : Type} [Scalar α] (t : V3 α) (c h w : Nat) (ht : L.Dims3 t c h w) (hh : 0 < h) (hw : 0 < w) :
    rechunk (L.flatten3 t) h w = t := by
  unfold rechunk L.flatten3
  have h1 : ∀ g ∈ t.map List.flatten, g.length = h * w := by
    intro g hgm
    simp only [List.mem_map] at hgm
    obtain ⟨m, hm, rfl⟩ := hgm
    rw [L.length_flatten_uniform m w (ht.2 m hm).2, (ht.2 m hm).1]
  rw [chunksExact_flatten (h * w) (Nat.mul_pos hh hw) _ h1, List.map_map]
  have : ∀ m ∈ t, ((fun ch => L.chunksExact w ch) ∘ List.flatten) m = m := by
    intro m hm
    simp only [Function.comp]
    exact chunksExact_flatten w hw m (ht.2 m hm).2
  rw [List.map_congr_left this, List.map_id']

/-- **flat entry = spatial entry**: a flat vector holding the row-major content of a `c × h × w` tensor
    enters a spatial layer (whose recorded input shape is `c × h × w`) as exactly that tensor -/
theorem entry_flat_eq_spatial {α : Type} [Scalar α] (t : V3 α) (c h w : Nat) (ht : L.Dims3 t c h w)
    (hc : 0 < c) (hh : 0 < h) (hw : 0 < w) (s1 s2 : Shape) :
    entry (⟨s1, .single (L.flatten3 t)⟩ : Tensor α) (.triple c h w) = entry (⟨s2, .triple t⟩ : Tensor α) (.triple c h w) := by
  unfold entry
  simp only []
  have hne : h * w ≠ 0 := Nat.pos_iff_ne_zero.mp (Nat.mul_pos hh hw)
  rw [if_neg hne, rechunk_flatten3 t c h w ht hh hw]
  match t, ht with
  | [], ht => exact absurd ht.1.symm (Nat.pos_iff_ne_zero.mp hc)
  | [] :: _, ht =>
    have := (ht.2 [] (by simp)).1
    simp at this; omega
  | (r :: m) :: rest, ht =>
    have e1 : (r :: m).length = h := (ht.2 (r :: m) (by simp)).1
    have e2 : r.length = w := (ht.2 (r :: m) (by simp)).2 r (by simp)
    simp only [e1, e2]

end Rechunk
