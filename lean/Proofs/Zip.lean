import Model.Tensor
import Proofs.Reshape

/-!
# The in-place zip (`zipKeep`) at every rank, and element-wise maps
Core Lean only.
-/

namespace L
variable {α β γ : Type}

theorem zipKeep_eq_zipWith (f : β → γ → β) : ∀ (a : List β) (b : List γ), a.length = b.length →
    zipKeep f a b = List.zipWith f a b
  | [], [], _ => rfl
  | x :: xs, y :: ys, h => by
    simp only [zipKeep, List.zipWith_cons_cons]
    rw [zipKeep_eq_zipWith f xs ys (by simpa using h)]
  | [], _ :: _, h => by simp at h
  | _ :: _, [], h => by simp at h

theorem length_zipKeep (f : β → γ → β) : ∀ (a : List β) (b : List γ), (zipKeep f a b).length = a.length
  | [], _ => rfl
  | _ :: _, [] => rfl
  | x :: xs, y :: ys => by simp [zipKeep, length_zipKeep f xs ys]

theorem mem_zipKeep_of (f : β → β → β) (P : β → Prop) (hf : ∀ x y, P x → P y → P (f x y)) :
    ∀ (a b : List β), (∀ x ∈ a, P x) → (∀ y ∈ b, P y) → ∀ z ∈ zipKeep f a b, P z
  | [], _, _, _, z, hz => by simp [zipKeep] at hz
  | x :: xs, [], ha, _, z, hz => ha z (by simpa [zipKeep] using hz)
  | x :: xs, y :: ys, ha, hb, z, hz => by
    simp only [zipKeep, List.mem_cons] at hz
    cases hz with
    | inl h => subst h; exact hf x y (ha x (List.mem_cons_self ..)) (hb y (List.mem_cons_self ..))
    | inr h =>
      exact mem_zipKeep_of f P hf xs ys (fun x hx => ha x (List.mem_cons_of_mem _ hx))
        (fun y hy => hb y (List.mem_cons_of_mem _ hy)) z h

/-- lifting an element-wise zip through one level of nesting: if on cells `g` acts as `zipWith f` on
    their flattenings `φ`, and all cells flatten to the same length, then `zipKeep g` acts as
    `zipWith f` on the concatenated flattenings -/
theorem flatten_zipKeep_gen (f : α → α → α) (g : β → β → β) (φ : β → List α) (n : Nat) (P : β → Prop)
    (hP : ∀ x, P x → (φ x).length = n)
    (hg : ∀ x y, P x → P y → φ (g x y) = List.zipWith f (φ x) (φ y)) :
    ∀ (a b : List β), a.length = b.length → (∀ x ∈ a, P x) → (∀ y ∈ b, P y) →
      ((zipKeep g a b).map φ).flatten = List.zipWith f (a.map φ).flatten (b.map φ).flatten
  | [], [], _, _, _ => by simp [zipKeep]
  | x :: xs, y :: ys, h, ha, hb => by
    have hx := ha x (List.mem_cons_self ..)
    have hy := hb y (List.mem_cons_self ..)
    simp only [zipKeep, List.map_cons, List.flatten_cons]
    rw [flatten_zipKeep_gen f g φ n P hP hg xs ys (by simpa using h)
      (fun x hx => ha x (List.mem_cons_of_mem _ hx)) (fun y hy => hb y (List.mem_cons_of_mem _ hy))]
    rw [hg x y hx hy, List.zipWith_append (by rw [hP x hx, hP y hy])]
  | [], _ :: _, h, _, _ => by simp at h
  | _ :: _, [], h, _, _ => by simp at h

/-- rows of width `w` -/
def Dims2 (m : List (List α)) (h w : Nat) : Prop := m.length = h ∧ ∀ r ∈ m, r.length = w

theorem dims3_iff (t : List (List (List α))) (c h w : Nat) :
    Dims3 t c h w ↔ t.length = c ∧ ∀ m ∈ t, Dims2 m h w := Iff.rfl

/-! ### rank 1 -/
theorem zip1_spec (f : α → α → α) (a b : List α) (h : a.length = b.length) :
    zip1 f a b = List.zipWith f a b ∧ (zip1 f a b).length = a.length :=
  ⟨zipKeep_eq_zipWith f a b h, length_zipKeep f a b⟩

/-! ### rank 2 -/
theorem zip2_dims (f : α → α → α) (a b : V2 α) (h w : Nat) (ha : Dims2 a h w) (hb : Dims2 b h w) :
    Dims2 (zip2 f a b) h w := by
  refine ⟨by rw [zip2, length_zipKeep]; exact ha.1, ?_⟩
  apply mem_zipKeep_of (zip1 f) (fun r => r.length = w) _ a b ha.2 hb.2
  intro x y hx _
  rw [zip1, length_zipKeep]; exact hx

theorem zip2_flat (f : α → α → α) (a b : V2 α) (h w : Nat) (ha : Dims2 a h w) (hb : Dims2 b h w) :
    (zip2 f a b).flatten = List.zipWith f a.flatten b.flatten := by
  have := flatten_zipKeep_gen f (zip1 f) id w (fun r => r.length = w) (fun _ h => h)
    (fun x y hx hy => by simp only [id]; exact zipKeep_eq_zipWith f x y (by rw [hx, hy]))
    a b (by rw [ha.1, hb.1]) ha.2 hb.2
  simpa [zip2] using this

/-! ### rank 3 -/
theorem zip3_dims (f : α → α → α) (a b : V3 α) (c h w : Nat) (ha : Dims3 a c h w) (hb : Dims3 b c h w) :
    Dims3 (zip3 f a b) c h w := by
  refine ⟨by rw [zip3, length_zipKeep]; exact ha.1, ?_⟩
  exact mem_zipKeep_of (zip2 f) (fun m => Dims2 m h w) (fun x y hx hy => zip2_dims f x y h w hx hy) a b ha.2 hb.2

theorem length_flatten_dims2 (m : V2 α) (h w : Nat) (d : Dims2 m h w) : m.flatten.length = h * w := by
  rw [length_flatten_uniform m w d.2, d.1]

theorem zip3_flat (f : α → α → α) (a b : V3 α) (c h w : Nat) (ha : Dims3 a c h w) (hb : Dims3 b c h w) :
    flatten3 (zip3 f a b) = List.zipWith f (flatten3 a) (flatten3 b) := by
  exact flatten_zipKeep_gen f (zip2 f) List.flatten (h * w) (fun m => Dims2 m h w)
    (fun x hx => length_flatten_dims2 x h w hx)
    (fun x y hx hy => zip2_flat f x y h w hx hy)
    a b (by rw [ha.1, hb.1]) ha.2 hb.2

/-! ### rank 4 -/
def Dims4 (q : V4 α) (k c h w : Nat) : Prop := q.length = k ∧ ∀ t ∈ q, Dims3 t c h w

def flatten4 (q : V4 α) : List α := (q.map flatten3).flatten

theorem zip4_dims (f : α → α → α) (a b : V4 α) (k c h w : Nat) (ha : Dims4 a k c h w) (hb : Dims4 b k c h w) :
    Dims4 (zip4 f a b) k c h w := by
  refine ⟨by rw [zip4, length_zipKeep]; exact ha.1, ?_⟩
  exact mem_zipKeep_of (zip3 f) (fun t => Dims3 t c h w) (fun x y hx hy => zip3_dims f x y c h w hx hy) a b ha.2 hb.2

theorem zip4_flat (f : α → α → α) (a b : V4 α) (k c h w : Nat) (ha : Dims4 a k c h w) (hb : Dims4 b k c h w) :
    flatten4 (zip4 f a b) = List.zipWith f (flatten4 a) (flatten4 b) := by
  exact flatten_zipKeep_gen f (zip3 f) flatten3 (c * h * w) (fun t => Dims3 t c h w)
    (fun x hx => length_flatten3 x c h w hx)
    (fun x y hx hy => zip3_flat f x y c h w hx hy)
    a b (by rw [ha.1, hb.1]) ha.2 hb.2

/-! ### the truncating `zipWith` (used where Rust collects a new vector) agrees with the in-place zip
on equal dimensions -/

theorem zipWith_eq_zipKeep_of (g g' : β → β → β) : ∀ (a b : List β), a.length = b.length →
    (∀ x ∈ a, ∀ y ∈ b, g x y = g' x y) → List.zipWith g a b = zipKeep g' a b
  | [], [], _, _ => rfl
  | x :: xs, y :: ys, h, hg => by
    simp only [List.zipWith_cons_cons, zipKeep]
    rw [hg x (List.mem_cons_self ..) y (List.mem_cons_self ..),
      zipWith_eq_zipKeep_of g g' xs ys (by simpa using h)
        (fun x hx y hy => hg x (List.mem_cons_of_mem _ hx) y (List.mem_cons_of_mem _ hy))]
  | [], _ :: _, h, _ => by simp at h
  | _ :: _, [], h, _ => by simp at h

theorem zipWith2_eq_zip2 (f : α → α → α) (a b : V2 α) (h w : Nat) (ha : Dims2 a h w) (hb : Dims2 b h w) :
    List.zipWith (List.zipWith f) a b = zip2 f a b :=
  zipWith_eq_zipKeep_of _ _ a b (by rw [ha.1, hb.1])
    (fun x hx y hy => (zipKeep_eq_zipWith f x y (by rw [ha.2 x hx, hb.2 y hy])).symm)

theorem zipWith3_eq_zip3 (f : α → α → α) (a b : V3 α) (c h w : Nat) (ha : Dims3 a c h w) (hb : Dims3 b c h w) :
    List.zipWith (List.zipWith (List.zipWith f)) a b = zip3 f a b :=
  zipWith_eq_zipKeep_of _ _ a b (by rw [ha.1, hb.1])
    (fun x hx y hy => zipWith2_eq_zip2 f x y h w (ha.2 x hx) (hb.2 y hy))

/-! ### maps -/
theorem map2_flat (f : α → α) (m : V2 α) : (map2 f m).flatten = m.flatten.map f := by
  induction m with
  | nil => rfl
  | cons r rs ih => simp [map2] at ih ⊢

theorem map3_flat (f : α → α) (t : V3 α) : flatten3 (map3 f t) = (flatten3 t).map f := by
  induction t with
  | nil => rfl
  | cons m ms ih =>
    simp only [flatten3, map3, List.map_cons, List.flatten_cons, List.map_append] at ih ⊢
    rw [ih]
    congr 1
    exact map2_flat f m

theorem map4_flat (f : α → α) (q : V4 α) : flatten4 (map4 f q) = (flatten4 q).map f := by
  induction q with
  | nil => rfl
  | cons t ts ih =>
    simp only [flatten4, map4, List.map_cons, List.flatten_cons, List.map_append] at ih ⊢
    rw [ih]
    congr 1
    exact map3_flat f t

theorem map2_dims (f : α → α) (m : V2 α) (h w : Nat) (d : Dims2 m h w) : Dims2 (map2 f m) h w := by
  refine ⟨by simp [map2, d.1], ?_⟩
  intro r hr
  simp [map2] at hr
  obtain ⟨r', h1, h2⟩ := hr
  rw [← h2]; simp [d.2 r' h1]

theorem map3_dims (f : α → α) (t : V3 α) (c h w : Nat) (d : Dims3 t c h w) : Dims3 (map3 f t) c h w := by
  refine ⟨by simp [map3, d.1], ?_⟩
  intro m hm
  simp only [map3, List.mem_map] at hm
  obtain ⟨m', h1, h2⟩ := hm
  rw [← h2]
  exact map2_dims f m' h w (d.2 m' h1)

theorem map4_dims (f : α → α) (q : V4 α) (k c h w : Nat) (d : Dims4 q k c h w) : Dims4 (map4 f q) k c h w := by
  refine ⟨by simp [map4, d.1], ?_⟩
  intro t ht
  simp only [map4, List.mem_map] at ht
  obtain ⟨t', h1, h2⟩ := ht
  rw [← h2]
  exact map3_dims f t' c h w (d.2 t' h1)


/-! ### positional access into a `zipWith` -/
theorem getD_zipWith {β γ δ : Type} (f : β → γ → δ) (a : List β) (b : List γ) (i : Nat) (da : β) (db : γ) (dd : δ)
    (ha : i < a.length) (hb : i < b.length) :
    (List.zipWith f a b).getD i dd = f (a.getD i da) (b.getD i db) := by
  simp [List.getD_eq_getElem?_getD, List.getElem?_zipWith, List.getElem?_eq_getElem ha, List.getElem?_eq_getElem hb]

theorem getD_mem' {β : Type} (l : List β) (i : Nat) (d : β) (h : i < l.length) : l.getD i d ∈ l := by
  simp [List.getD_eq_getElem?_getD, List.getElem?_eq_getElem h]

end L
