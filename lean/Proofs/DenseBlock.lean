import Proofs.DenseStack
import Proofs.BlockWalk
import Proofs.Feedback

/-!
# A feedback block of dense layers without skip connections: forward records the stack's
pre-activations/activations, backward returns the gradient of the stack (end-to-end, for C01 / C11)
-/

set_option linter.unusedSectionVars false
set_option linter.unusedVariables false

namespace DenseBlock
open Network Scalar FeedbackSpec Walk BlockWalk DenseStack VJP DenseBridge

/-- the stack as the unrolled layer list of a feedback block -/
noncomputable def inner : {n k : ℕ} → Stack n k → List (InnerLayer ℝ)
  | _, _, .nil _ => []
  | _, _, .cons a W b rest => .dense (denseLayer a W b) :: inner rest

theorem inner_length : ∀ {n k : ℕ} (s : Stack n k), (inner s).length = s.layers.length
  | _, _, .nil _ => rfl
  | _, _, .cons a W b rest => by simp [inner, Stack.layers, inner_length rest]

theorem inner_map : ∀ {n k : ℕ} (s : Stack n k), (inner s).map Layer.ofInner = s.layers
  | _, _, .nil _ => rfl
  | _, _, .cons a W b rest => by simp [inner, Stack.layers, inner_map rest, Layer.ofInner]

/-! ### the bridge between the block's reverse walk and the network's -/

theorem get_error {β : Type} (l : List β) (i : Nat) (e : Err) : L.get l i = .error e → e = .index := by
  unfold L.get
  cases L.get? l i <;> simp
  intro h; exact h.symm

/-- lift the block's results to the network's gradient records -/
def liftRes (r : Except Err (List (Tensor ℝ) × List (Tensor ℝ) × List (Option (Tensor ℝ)))) :
    Except Err (List (WGrad ℝ) × List (BGrad ℝ) × List (Tensor ℝ)) :=
  match r with
  | .error e => .error e
  | .ok (gs, ws, bs) => .ok (ws.map .one, bs.map .one, gs)

theorem layerBackward_ofInner (il : InnerLayer ℝ) (g i o : Tensor ℝ) (e : Err) :
    layerBackward (Layer.ofInner il) g i o (.error e) =
      match Feedback.innerBackward il g i o with
      | .error e => .error e
      | .ok (ig, wg, bg) => .ok (ig, .one wg, .one bg) := by
  cases il with
  | dense l => simp only [Layer.ofInner, layerBackward, Feedback.innerBackward]; cases l.backward g i o <;> rfl
  | conv l => simp only [Layer.ofInner, layerBackward, Feedback.innerBackward]; cases l.backward g i o <;> rfl
  | deconv l => simp only [Layer.ofInner, layerBackward, Feedback.innerBackward]; cases l.backward g i o <;> rfl
  | maxpool l => rfl

/-- **the block's reverse walk is the network's reverse walk over the same layers** (any inner layers) -/
theorem blockBackSpec_eq_backSpec (un act : List (Tensor ℝ)) :
    ∀ (ils : List (Nat × InnerLayer ℝ)) (g : Tensor ℝ),
    backSpec { pre := un, act := act, recs := [] } (ils.map fun il => (il.1, Layer.ofInner il.2)) g =
      liftRes (blockBackSpec un act ils g)
  | [], g => rfl
  | il :: rest, g => by
    simp only [List.map_cons, backSpec, blockBackSpec]
    cases hi : L.get act il.1 with
    | error e => cases get_error _ _ _ hi; cases L.get un il.1 <;> rfl
    | ok input =>
      cases ho : L.get un il.1 with
      | error e => cases get_error _ _ _ ho; rfl
      | ok output =>
        simp only []
        have hr : L.get ([] : List (Recorded ℝ)) il.1 = .error .index := rfl
        rw [hr, layerBackward_ofInner]
        cases Feedback.innerBackward il.2 g input output with
        | error e => rfl
        | ok r =>
          obtain ⟨ig, wg, bg⟩ := r
          simp only []
          rw [blockBackSpec_eq_backSpec un act rest ig]
          cases blockBackSpec un act rest ig with
          | error e => rfl
          | ok st => obtain ⟨gs, ws, bs⟩ := st; rfl

theorem zip_inner : ∀ {n k : ℕ} (s : Stack n k) (p : ℕ),
    (List.zip (List.range' p (inner s).length) (inner s)).map (fun il => (il.1, Layer.ofInner il.2)) =
      List.zip (List.range' p s.layers.length) s.layers
  | _, _, .nil _, p => rfl
  | _, _, .cons a W b rest, p => by
    have ih := zip_inner rest (p + 1)
    simp only [inner, Stack.layers, List.length_cons, List.range'_succ, List.zip_cons_cons, List.map_cons]
    rw [ih]; rfl

/-! ### forward -/

theorem vecT_shape {n : ℕ} (x : Vec n) : (vecT x).shape = .single n := by
  simp [vecT]

theorem seqTrace_stack : ∀ {n k : ℕ} (s : Stack n k) (x : Vec n), s.Valid →
    seqTrace (inner s) (vecT x) = .ok (s.pres x, s.acts x, (inner s).map fun _ => none)
  | _, _, .nil _, x, _ => rfl
  | _, _, .cons a W b rest, x, hv => by
    simp only [inner, seqTrace, InnerLayer.inputs, denseLayer, vecT_shape, ne_eq, not_true_eq_false, ↓reduceIte,
      InnerLayer.forward]
    have := forward_eq _ a W b (denseLayer_isDense a W b) hv.1 x
    simp only [denseLayer] at this
    rw [this]
    simp only [seqTrace_stack rest _ hv.2.2.2, Stack.pres, Stack.acts, List.map_cons]

/-- the block is the stack, unrolled, without skip connections -/
structure IsDenseBlock {n k : ℕ} (f : Feedback ℝ) (s : Stack n k) : Prop where
  layers : f.layers = inner s
  connect : f.connect = []

theorem vecT_flatten {n : ℕ} (x : Vec n) : (vecT x).flatten = .ok (vecT x) := by
  simp [vecT, Tensor.flatten]

theorem acts_last : ∀ {n k : ℕ} (s : Stack n k) (x : Vec n),
    (vecT x :: s.acts x).getLast? = some (vecT (s.net.fwd x))
  | _, _, .nil _, x => rfl
  | _, _, .cons a W b rest, x => by
    have := acts_last rest (denseFn (Act.f a) W b x)
    simp only [Stack.acts, Stack.net, Net.fwd]
    rw [List.getLast?_cons_cons]
    exact this

/-- **forward of the block**: it records the stack's pre-activations and activations (the block input
    first, `net.fwd x` last) -/
theorem block_forwardAll {n k : ℕ} (f : Feedback ℝ) (s : Stack n k) (h : IsDenseBlock f s) (hv : s.Valid)
    (hpos : 0 < s.layers.length) (x : Vec n) :
    f.forwardAll (vecT x) = .ok (s.pres x, vecT x :: s.acts x, (inner s).map fun _ => none) := by
  unfold Feedback.forwardAll
  rw [h.layers, List.range_eq_range',
    noskip_fold f (inner s) 0 [] [vecT x] [] (vecT x) rfl (fun q _ _ => by rw [h.connect]; rfl)]
  simp only [segTrace, seqTrace_stack s x hv, List.nil_append, List.singleton_append, acts_last s x]
  have hne : (s.pres x).head? ≠ none := by
    have := (Stack.layers_length s x).1
    cases hp : s.pres x with
    | nil => rw [hp] at this; simp at this; omega
    | cons a l => simp
  cases hp : (s.pres x).head? with
  | none => exact absurd hp hne
  | some u0 =>
    simp only [Feedback.skipped, h.connect, Assoc.find?]
    have hd : (vecT x :: s.acts x).dropLast ++ [vecT (s.net.fwd x)] = vecT x :: s.acts x :=
      List.dropLast_append_getLast? _ (acts_last s x)
    by_cases hfl : f.flatten = true
    · simp only [hfl, ↓reduceIte, vecT_flatten, hd]
    · simp only [hfl, Bool.false_eq_true, ↓reduceIte, hd]

/-- **backward of the block on what its forward recorded**: the reverse walk over the unrolled layers
    returns `net.bwd x g` — the vector-Jacobian product of the block's function -/
theorem block_backward {n k : ℕ} (f : Feedback ℝ) (s : Stack n k) (h : IsDenseBlock f s) (hv : s.Valid)
    (x : Vec n) (g : Vec k) :
    ∃ ws bs, f.backward (vecT g) (s.pres x) (vecT x :: s.acts x) = .ok (vecT (s.net.bwd x g), ws, bs) := by
  obtain ⟨ws, bs, gs, h1, h2, h3, _⟩ := back_walk s x g 0
    { pre := s.pres x, act := vecT x :: s.acts x, recs := [] } [] [] hv rfl rfl rfl rfl
  have hb := backward_eq_blockBackSpec f h.connect (vecT g) (s.pres x) (vecT x :: s.acts x)
  have hbr := blockBackSpec_eq_backSpec (s.pres x) (vecT x :: s.acts x)
    (List.zip (List.range f.layers.length) f.layers).reverse (vecT g)
  rw [h.layers, List.range_eq_range', List.map_reverse, zip_inner s 0, h1] at hbr
  rw [h.layers, List.range_eq_range'] at hb
  cases hs : blockBackSpec (s.pres x) (vecT x :: s.acts x)
      (List.zip (List.range' 0 (inner s).length) (inner s)).reverse (vecT g) with
  | error e => rw [hs] at hbr; simp [liftRes] at hbr
  | ok st =>
    obtain ⟨gs', ws', bs'⟩ := st
    rw [hs] at hbr hb
    simp only [liftRes, Except.ok.injEq, Prod.mk.injEq] at hbr
    obtain ⟨hw, _, hgs⟩ := hbr
    subst hgs
    refine ⟨ws', bs', ?_⟩
    rw [hb]
    simp only [lastGrad]
    congr 2
    rw [← h2]
    cases gs with
    | nil => rfl
    | cons a l => simp [List.getLast?_eq_some_getLast]

end DenseBlock
