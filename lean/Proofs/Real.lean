import Model.Scalar
import Mathlib.Analysis.SpecialFunctions.ExpDeriv
import Mathlib.Analysis.SpecialFunctions.Log.Deriv
import Mathlib.Analysis.SpecialFunctions.Trigonometric.DerivHyp
import Mathlib.Analysis.SpecialFunctions.Sqrt
import Mathlib.Analysis.SpecialFunctions.Pow.Real

/-!
# The model instantiated at `ℝ`

The theorems about numeric behaviour are statements about the *same* model definitions the driver
runs at `Float32`, instantiated at the real numbers.  `ℝ` has no NaN and no infinities:
`isNaN = false`, and `negInf`/`minVal` are an arbitrary real (the statements that involve them say so).
-/

noncomputable instance : Scalar ℝ where
  exp := Real.exp
  ln := Real.log
  sqrt := Real.sqrt
  tanh := Real.tanh
  cosh := Real.cosh
  powf := fun x y => x ^ y
  abs := fun x => |x|
  lt := fun a b => decide (a < b)
  beq := fun a b => decide (a = b)
  ofNat' := fun n => (n : ℝ)
  lit := fun m e => (m : ℝ) * (10 : ℝ) ^ e
  minVal := -(2 ^ 128 : ℝ)
  negInf := -(2 ^ 128 : ℝ)
  isNaN := fun _ => false
  toNat := fun x => ⌊x⌋₊

namespace RealScalar
open Scalar

@[simp] theorem lt_iff (a b : ℝ) : (Scalar.lt a b = true) ↔ a < b := by
  simp [Scalar.lt]
@[simp] theorem lt_false_iff (a b : ℝ) : (Scalar.lt a b = false) ↔ b ≤ a := by
  simp [Scalar.lt]
@[simp] theorem beq_iff (a b : ℝ) : (Scalar.beq a b = true) ↔ a = b := by
  simp [Scalar.beq]
@[simp] theorem isNaN_eq (a : ℝ) : Scalar.isNaN a = false := rfl
@[simp] theorem exp_eq (a : ℝ) : Scalar.exp a = Real.exp a := rfl
@[simp] theorem ln_eq (a : ℝ) : Scalar.ln a = Real.log a := rfl
@[simp] theorem sqrt_eq (a : ℝ) : Scalar.sqrt a = Real.sqrt a := rfl
@[simp] theorem tanh_eq (a : ℝ) : Scalar.tanh a = Real.tanh a := rfl
@[simp] theorem cosh_eq (a : ℝ) : Scalar.cosh a = Real.cosh a := rfl
@[simp] theorem abs_eq (a : ℝ) : Scalar.abs a = |a| := rfl
@[simp] theorem powf_eq (a b : ℝ) : Scalar.powf a b = a ^ b := rfl
@[simp] theorem ofNat_eq (n : ℕ) : (Scalar.ofNat' n : ℝ) = n := rfl
theorem lit_eq (m : ℕ) (e : ℤ) : (Scalar.lit m e : ℝ) = m * 10 ^ e := rfl

theorem lt_irrefl (a : ℝ) : Scalar.lt a a = false := by simp

theorem fmax_eq (a b : ℝ) : Scalar.fmax a b = max a b := by
  unfold Scalar.fmax
  by_cases h : a < b
  · simp [h, max_eq_right h.le]
  · simp [h, max_eq_left (not_lt.mp h)]

theorem clampRaw_eq (x lo hi : ℝ) (h : lo ≤ hi) : Scalar.clampRaw x lo hi = max lo (min x hi) := by
  unfold Scalar.clampRaw
  by_cases h1 : x < lo
  · have : ¬ hi < lo := not_lt.mpr h
    simp [h1, this, min_eq_left (h1.le.trans h), max_eq_left h1.le]
  · simp only [lt_iff, h1, if_false]
    by_cases h2 : hi < x
    · simp [h2, min_eq_right h2.le, max_eq_right h]
    · simp [h2, min_eq_left (not_lt.mp h2), max_eq_right (not_lt.mp h1)]

theorem sq_eq (x : ℝ) : Scalar.sq x = x ^ 2 := by unfold Scalar.sq; ring

theorem two_eq : (Scalar.two : ℝ) = 2 := by unfold Scalar.two; norm_num

end RealScalar
