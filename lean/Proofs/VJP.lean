import Mathlib.Analysis.Calculus.FDeriv.Prod
import Mathlib.Analysis.Calculus.FDeriv.Comp
import Mathlib.Analysis.Calculus.FDeriv.Linear
import Mathlib.Analysis.Calculus.Deriv.Basic
import Mathlib.Analysis.Calculus.Deriv.Comp
import Mathlib.Analysis.Calculus.Deriv.Pi
import Mathlib.Analysis.Calculus.FDeriv.Add
import Mathlib.Analysis.Calculus.FDeriv.Linear
import Mathlib.Topology.Algebra.Module.FiniteDimension

/-!
# Reverse-mode differentiation is correct: vector–Jacobian products compose (for C01)

`IsVJP f x bwd` says `f` is (Fréchet-)differentiable at `x` and `bwd g` is the transposed Jacobian
applied to `g`.  `IsGrad ℓ y g` says the scalar function `ℓ` is differentiable at `y` with gradient
vector `g`.  The chain rule gives: walking the layers in reverse and handing each layer's `bwd` the
gradient produced by the layer after it yields the gradient of the composed objective — for any depth
(`Net.vjp`), and every coordinate of that gradient is the partial derivative (`IsGrad.partial`).
-/

open BigOperators

namespace VJP

/-- real vectors indexed by a finite type (`Fin n` for activations, `Fin r × Fin c` for a weight
    matrix, …) -/
abbrev V (ι : Type) := ι → ℝ
abbrev Vec (n : ℕ) := V (Fin n)

variable {ι κ μ : Type} [Fintype ι] [Fintype κ] [Fintype μ]

def dot (a b : V ι) : ℝ := ∑ i, a i * b i

/-- `bwd` is the transposed Jacobian of `f` at `x` -/
def IsVJP (f : V ι → V κ) (x : V ι) (bwd : V κ → V ι) : Prop :=
  ∃ f' : V ι →L[ℝ] V κ, HasFDerivAt f f' x ∧ ∀ g v, dot (bwd g) v = dot g (f' v)

/-- `g` is the gradient of the scalar function `ℓ` at `y` -/
def IsGrad (ℓ : V κ → ℝ) (y : V κ) (g : V κ) : Prop :=
  ∃ ℓ' : V κ →L[ℝ] ℝ, HasFDerivAt ℓ ℓ' y ∧ ∀ v, ℓ' v = dot g v

theorem IsVJP.comp {f : V ι → V κ} {h : V κ → V μ} {x : V ι}
    {bf : V κ → V ι} {bh : V μ → V κ} (hf : IsVJP f x bf) (hh : IsVJP h (f x) bh) :
    IsVJP (h ∘ f) x (bf ∘ bh) := by
  obtain ⟨f', hf', af⟩ := hf
  obtain ⟨h', hh', ah⟩ := hh
  refine ⟨h'.comp f', hh'.comp x hf', ?_⟩
  intro g v
  simp only [Function.comp_apply, ContinuousLinearMap.comp_apply]
  rw [af, ah]

/-- the gradient handed to a layer, pushed through its `bwd`, is the gradient with respect to the
    layer's input -/
theorem IsGrad.comp_vjp {f : V ι → V κ} {ℓ : V κ → ℝ} {x : V ι}
    {bf : V κ → V ι} {g : V κ} (hf : IsVJP f x bf) (hl : IsGrad ℓ (f x) g) :
    IsGrad (ℓ ∘ f) x (bf g) := by
  obtain ⟨f', hf', af⟩ := hf
  obtain ⟨ℓ', hl', al⟩ := hl
  refine ⟨ℓ'.comp f', hl'.comp x hf', ?_⟩
  intro v
  simp only [ContinuousLinearMap.comp_apply]
  rw [al, af]

theorem dot_single [DecidableEq ι] (g : V ι) (j : ι) : dot g (Pi.single j 1) = g j := by
  unfold dot
  rw [Finset.sum_eq_single j]
  · simp
  · intro b _ hb; simp [hb]
  · intro h; exact absurd (Finset.mem_univ j) h

/-- every coordinate of the gradient is the partial derivative in that coordinate -/
theorem IsGrad.partial [DecidableEq ι] {ℓ : V ι → ℝ} {x : V ι} {g : V ι} (h : IsGrad ℓ x g) (j : ι) :
    HasDerivAt (fun t => ℓ (Function.update x j t)) (g j) (x j) := by
  obtain ⟨ℓ', hl', al⟩ := h
  have hu : HasDerivAt (Function.update x j) (Pi.single j (1 : ℝ)) (x j) := hasDerivAt_update x j (x j)
  have hx : Function.update x j (x j) = x := Function.update_eq_self j x
  rw [← hx] at hl'
  have := hl'.comp_hasDerivAt (x j) hu
  rw [al, dot_single] at this
  exact this

theorem isVJP_id' (x : V ι) : IsVJP (fun y : V ι => y) x (fun g => g) :=
  ⟨ContinuousLinearMap.id ℝ _, hasFDerivAt_id x, fun _ _ => rfl⟩

/-! ### combining two branches (skip connections) -/

theorem dot_add_left (a b c : V ι) : dot (a + b) c = dot a c + dot b c := by
  simp only [dot, Pi.add_apply, add_mul, Finset.sum_add_distrib]

theorem dot_add_right (a b c : V ι) : dot a (b + c) = dot a b + dot a c := by
  simp only [dot, Pi.add_apply, mul_add, Finset.sum_add_distrib]

/-- the sum of two branches: the gradients of the branches add -/
theorem IsVJP.add {f h : V ι → V κ} {x : V ι} {bf bh : V κ → V ι} (hf : IsVJP f x bf) (hh : IsVJP h x bh) :
    IsVJP (fun y => f y + h y) x (fun g => bf g + bh g) := by
  obtain ⟨f', hf', af⟩ := hf
  obtain ⟨h', hh', ah⟩ := hh
  refine ⟨f' + h', hf'.add hh', ?_⟩
  intro g v
  rw [dot_add_left, af, ah, FunLike.coe_add, Pi.add_apply, dot_add_right]

/-- **an additive skip connection around a block `f`**: the source receives the gradient that came
    back through the block *plus* the gradient with respect to the input the target processed -/
theorem IsVJP.add_skip {f : V ι → V ι} {x : V ι} {bf : V ι → V ι} (hf : IsVJP f x bf) :
    IsVJP (fun y => f y + y) x (fun g => bf g + g) :=
  IsVJP.add hf (isVJP_id' x)

/-! ### any depth -/

/-- a stack of layers with their backward functions (input dimension `n`, output dimension `k`) -/
inductive Net : ℕ → ℕ → Type
  | nil (n : ℕ) : Net n n
  | cons {n m k : ℕ} (f : Vec n → Vec m) (bwd : Vec n → Vec m → Vec n) (rest : Net m k) : Net n k

/-- the forward pass -/
def Net.fwd : {n k : ℕ} → Net n k → Vec n → Vec k
  | _, _, .nil _, x => x
  | _, _, .cons f _ rest, x => rest.fwd (f x)

/-- the reverse walk: the gradient handed to a layer is what the layers after it produced -/
def Net.bwd : {n k : ℕ} → Net n k → Vec n → Vec k → Vec n
  | _, _, .nil _, _, g => g
  | _, _, .cons f b rest, x, g => b x (rest.bwd (f x) g)

/-- every layer's `bwd` is its transposed Jacobian at the input it receives -/
def Net.Ok : {n k : ℕ} → Net n k → Vec n → Prop
  | _, _, .nil _, _ => True
  | _, _, .cons f b rest, x => IsVJP f x (b x) ∧ rest.Ok (f x)

theorem isVJP_id (x : V ι) : IsVJP (fun y : V ι => y) x (fun g => g) :=
  ⟨ContinuousLinearMap.id ℝ _, hasFDerivAt_id x, fun _ _ => rfl⟩

/-- **the reverse walk computes the transposed Jacobian of the whole stack** -/
theorem Net.vjp : ∀ {n k : ℕ} (net : Net n k) (x : Vec n), net.Ok x → IsVJP net.fwd x (net.bwd x)
  | _, _, .nil _, x, _ => isVJP_id x
  | _, _, .cons f b rest, x, h => by
    have h1 := h.1
    have h2 := Net.vjp rest (f x) h.2
    exact IsVJP.comp h1 h2

/-- … hence for a differentiable objective `ℓ` with gradient `g` at the output, `bwd x g` is the
    gradient of the objective as a function of the stack's input -/
theorem Net.grad {n k : ℕ} (net : Net n k) (x : Vec n) (h : net.Ok x) (ℓ : Vec k → ℝ) (g : Vec k)
    (hl : IsGrad ℓ (net.fwd x) g) : IsGrad (ℓ ∘ net.fwd) x (net.bwd x g) :=
  IsGrad.comp_vjp (Net.vjp net x h) hl


/-- re-indexing along a bijection (flatten / reshape keep the row-major sequence: they are re-indexings):
    the gradient is re-indexed back -/
theorem isVJP_reindex (e : κ ≃ ι) (x : V ι) : IsVJP (fun y : V ι => fun k => y (e k)) x (fun g => fun i => g (e.symm i)) := by
  refine ⟨LinearMap.toContinuousLinearMap (LinearMap.funLeft ℝ ℝ e), ?_, ?_⟩
  · exact (LinearMap.toContinuousLinearMap (LinearMap.funLeft ℝ ℝ e)).hasFDerivAt
  · intro g v
    simp only [LinearMap.coe_toContinuousLinearMap', dot]
    show ∑ i, g (e.symm i) * v i = ∑ k, g k * (LinearMap.funLeft ℝ ℝ e v) k
    simp only [LinearMap.funLeft_apply]
    exact (Equiv.sum_comp e (fun i => g (e.symm i) * v i)).symm.trans (by simp)

/-! ### any depth, any index types (spatial layers: `Fin c × Fin h × Fin w`, kernels, …) -/

/-- a finite index type -/
structure Idx where
  T : Type
  [ft : Fintype T]

instance (a : Idx) : Fintype a.T := a.ft

/-- a stack of layers between arbitrary finite index types -/
inductive GNet : Idx → Idx → Type 1
  | nil (a : Idx) : GNet a a
  | cons {a b c : Idx} (f : V a.T → V b.T) (bwd : V a.T → V b.T → V a.T) (rest : GNet b c) : GNet a c

def GNet.fwd : {a c : Idx} → GNet a c → V a.T → V c.T
  | _, _, .nil _, x => x
  | _, _, .cons f _ rest, x => rest.fwd (f x)

def GNet.bwd : {a c : Idx} → GNet a c → V a.T → V c.T → V a.T
  | _, _, .nil _, _, g => g
  | _, _, .cons f b rest, x, g => b x (rest.bwd (f x) g)

def GNet.Ok : {a c : Idx} → GNet a c → V a.T → Prop
  | _, _, .nil _, _ => True
  | _, _, .cons f b rest, x => IsVJP f x (b x) ∧ rest.Ok (f x)

/-- the reverse walk over a heterogeneous stack computes its transposed Jacobian -/
theorem GNet.vjp : ∀ {a c : Idx} (net : GNet a c) (x : V a.T), net.Ok x → IsVJP net.fwd x (net.bwd x)
  | _, _, .nil _, x, _ => isVJP_id x
  | _, _, .cons f b rest, x, h => IsVJP.comp h.1 (GNet.vjp rest (f x) h.2)

theorem GNet.grad {a c : Idx} (net : GNet a c) (x : V a.T) (h : net.Ok x) (ℓ : V c.T → ℝ) (g : V c.T)
    (hl : IsGrad ℓ (net.fwd x) g) : IsGrad (ℓ ∘ net.fwd) x (net.bwd x g) :=
  IsGrad.comp_vjp (GNet.vjp net x h) hl

/-- **a network with an additive skip connection around its middle part** (`head`, then `mid` with
    the skip `y ↦ mid y + y`, then `tail`; any depths): the reverse walk in which the skip's source
    adds the gradient of the input the target processed to the gradient coming back through `mid`
    computes the transposed Jacobian of the whole network -/
theorem Net.vjp_with_skip {n m k : ℕ} (head : Net n m) (mid : Net m m) (tail : Net m k) (x : Vec n)
    (h1 : head.Ok x) (h2 : mid.Ok (head.fwd x)) (h3 : tail.Ok (mid.fwd (head.fwd x) + head.fwd x)) :
    IsVJP (fun z => tail.fwd (mid.fwd (head.fwd z) + head.fwd z)) x
      (fun g =>
        let y := head.fwd x
        let δ := tail.bwd (mid.fwd y + y) g      -- gradient w.r.t. the input the skip's target processed
        head.bwd x (mid.bwd y δ + δ)) := by
  have hh := Net.vjp head x h1
  have hm := IsVJP.add_skip (Net.vjp mid (head.fwd x) h2)
  have ht := Net.vjp tail _ h3
  have h12 : IsVJP ((fun y => mid.fwd y + y) ∘ head.fwd) x (head.bwd x ∘ fun g => mid.bwd (head.fwd x) g + g) :=
    IsVJP.comp hh hm
  have h123 := IsVJP.comp h12 ht
  exact h123

end VJP
