import Model.Network
import Proofs.GetLemmas

/-!
# The unrolled feedback forward pass is the repeated layer sequence (helper lemmas for C11)

`seqTrace` is one pass through a layer list; `repsFrom` runs the remaining repetitions, each on the
previous output (combined with the block input when `inskips`).  `fold_eq_reps` shows that the
position-indexed fold of `Feedback.forwardAll` over the unrolled layer list computes exactly that,
provided the connection table has the shape `Feedback.create` gives it.
-/

set_option linter.unusedSectionVars false
set_option linter.unusedVariables false

namespace FeedbackSpec
open Network Scalar

variable {α : Type} [Scalar α]

abbrev St (α : Type) := List (Tensor α) × List (Tensor α) × List (Option MaxIdx)

/-- one pass through a layer sequence: pre-activations, outputs, max-pool records, in order -/
def seqTrace : List (InnerLayer α) → Tensor α → Except Err (St α)
  | [], _ => .ok ([], [], [])
  | l :: ls, x =>
    if l.inputs ≠ x.shape then .error .shape else
    match l.forward x with
    | .error e => .error e
    | .ok (pre, post, m) =>
      match seqTrace ls post with
      | .error e => .error e
      | .ok (us, as, ms) => .ok (pre :: us, post :: as, m :: ms)

/-- a pass appended to a recorded state -/
def segTrace (ls : List (InnerLayer α)) (xin : Tensor α) (st : St α) : Except Err (St α) :=
  match seqTrace ls xin with
  | .error e => .error e
  | .ok (us, as, ms) => .ok (st.1 ++ us, st.2.1 ++ as, st.2.2 ++ ms)

/-- what a repetition after the first receives: the previous output, combined with the block's input
    when input skips are on -/
def repInput (acc : Accumulation) (inskips : Bool) (x y : Tensor α) : Except Err (Tensor α) :=
  if inskips then accumulateMany acc y [x] else .ok y

/-- `k` further repetitions on a recorded state -/
def repsFrom (ls : List (InnerLayer α)) (acc : Accumulation) (inskips : Bool) (x : Tensor α) :
    Nat → St α → Except Err (St α)
  | 0, st => .ok st
  | k + 1, st =>
    match st.2.1.getLast? with
    | none => .error .index
    | some y =>
      match repInput acc inskips x y with
      | .error e => .error e
      | .ok inp =>
        match segTrace ls inp st with
        | .error e => .error e
        | .ok st' => repsFrom ls acc inskips x k st'

/-! ### the fold -/

theorem fold_error (f : Feedback α) (e : Err) (l : List (Nat × InnerLayer α)) :
    l.foldl (Feedback.forwardStep f) (.error e) = .error e := by
  induction l with
  | nil => rfl
  | cons a l ih => simp only [List.foldl_cons, Feedback.forwardStep]; exact ih

/-- a stretch of positions without skip entries is one pass of `seqTrace` -/
theorem noskip_fold (f : Feedback α) : ∀ (ls : List (InnerLayer α)) (p : Nat) (un act : List (Tensor α))
    (mx : List (Option MaxIdx)) (x0 : Tensor α),
    act.getLast? = some x0 →
    (∀ q, p ≤ q → q < p + ls.length → Assoc.find? f.connect q = none) →
    (List.zip (List.range' p ls.length) ls).foldl (Feedback.forwardStep f) (.ok (un, act, mx)) =
      segTrace ls x0 (un, act, mx)
  | [], p, un, act, mx, x0, _, _ => by simp [segTrace, seqTrace]
  | l :: ls, p, un, act, mx, x0, hlast, hfree => by
    have hp : Assoc.find? f.connect p = none := hfree p (Nat.le_refl _) (by simp)
    simp only [List.length_cons, List.range'_succ, List.zip_cons_cons, List.foldl_cons]
    simp only [Feedback.forwardStep, hlast, Feedback.skipped, hp]
    simp only [segTrace, seqTrace]
    by_cases hs : l.inputs = x0.shape
    case neg =>
      simp only [ne_eq, hs, not_false_eq_true, ↓reduceIte]
      exact fold_error f _ _
    case pos =>
      simp only [ne_eq, hs, not_true_eq_false, ↓reduceIte]
      cases hf : l.forward x0 with
      | error e => simp only []; exact fold_error f _ _
      | ok r =>
        obtain ⟨pre, post, m⟩ := r
        simp only []
        have hl : (act ++ [post]).getLast? = some post := by simp
        rw [noskip_fold f ls (p + 1) (un ++ [pre]) (act ++ [post]) (mx ++ [m]) post hl
          (fun q h1 h2 => hfree q (by omega) (by simp only [List.length_cons]; omega))]
        simp only [segTrace]
        cases seqTrace ls post with
        | error e => rfl
        | ok r2 =>
          obtain ⟨us, as, ms⟩ := r2
          simp [List.append_assoc]

/-- a stretch whose *first* position carries a skip entry: the pass starts from the combined input -/
theorem seg_fold (f : Feedback α) (l : InnerLayer α) (ls : List (InnerLayer α)) (p : Nat)
    (un act : List (Tensor α)) (mx : List (Option MaxIdx)) (x0 : Tensor α)
    (hlast : act.getLast? = some x0)
    (hfree : ∀ q, p < q → q < p + (ls.length + 1) → Assoc.find? f.connect q = none) :
    (List.zip (List.range' p (l :: ls).length) (l :: ls)).foldl (Feedback.forwardStep f) (.ok (un, act, mx)) =
      match Feedback.skipped f act p x0 with
      | .error e => .error e
      | .ok xin => segTrace (l :: ls) xin (un, act, mx) := by
  simp only [List.length_cons, List.range'_succ, List.zip_cons_cons, List.foldl_cons]
  simp only [Feedback.forwardStep, hlast]
  cases hsk : Feedback.skipped f act p x0 with
  | error e => simp only []; exact fold_error f _ _
  | ok xin =>
    simp only [segTrace, seqTrace]
    by_cases hs : l.inputs = xin.shape
    case neg =>
      simp only [ne_eq, hs, not_false_eq_true, ↓reduceIte]
      exact fold_error f _ _
    case pos =>
      simp only [ne_eq, hs, not_true_eq_false, ↓reduceIte]
      cases hf : l.forward xin with
      | error e => simp only []; exact fold_error f _ _
      | ok r =>
        obtain ⟨pre, post, m⟩ := r
        simp only []
        have hl : (act ++ [post]).getLast? = some post := by simp
        rw [noskip_fold f ls (p + 1) (un ++ [pre]) (act ++ [post]) (mx ++ [m]) post hl
          (fun q h1 h2 => hfree q (by omega) (by omega))]
        simp only [segTrace]
        cases seqTrace ls post with
        | error e => rfl
        | ok r2 =>
          obtain ⟨us, as, ms⟩ := r2
          simp [List.append_assoc]


theorem unroll_succ (k : Nat) (ls : List (InnerLayer α)) :
    (List.range (k + 1)).flatMap (fun _ => ls) = ls ++ (List.range k).flatMap (fun _ => ls) := by
  rw [List.range_succ_eq_map, List.flatMap_cons, List.flatMap_map]

theorem unroll_length (k : Nat) (ls : List (InnerLayer α)) :
    ((List.range k).flatMap (fun _ => ls)).length = k * ls.length := by
  induction k with
  | zero => simp
  | succ k ih => rw [unroll_succ, List.length_append, ih]; rw [Nat.succ_mul]; omega

/-- the skip a repetition after the first sees at its first position -/
theorem skipped_inskip (f : Feedback α) (inskips : Bool) (x y : Tensor α) (tl : List (Tensor α)) (p : Nat)
    (hC : Assoc.find? f.connect p = (if inskips then some [0] else none)) :
    Feedback.skipped f (x :: tl) p y = repInput f.accumulation inskips x y := by
  cases inskips with
  | false => simp [Feedback.skipped, hC, repInput]
  | true => simp [Feedback.skipped, hC, repInput, L.mapM', L.get, L.get?]

/-- `k` repetitions starting at position `p`, each first position carrying the input-skip entry (or
    none), all other positions free: the fold is `repsFrom` -/
theorem reps_fold (f : Feedback α) (l0 : InnerLayer α) (ls' : List (InnerLayer α)) (inskips : Bool) (x : Tensor α) :
    ∀ (k p : Nat) (un : List (Tensor α)) (tl : List (Tensor α)) (mx : List (Option MaxIdx)),
    (∀ i, i < k → Assoc.find? f.connect (p + i * (ls'.length + 1)) = (if inskips then some [0] else none)) →
    (∀ i q, i < k → p + i * (ls'.length + 1) < q → q < p + (i + 1) * (ls'.length + 1) →
        Assoc.find? f.connect q = none) →
    (List.zip (List.range' p (k * (ls'.length + 1))) ((List.range k).flatMap (fun _ => l0 :: ls'))).foldl
        (Feedback.forwardStep f) (.ok (un, x :: tl, mx)) =
      repsFrom (l0 :: ls') f.accumulation inskips x k (un, x :: tl, mx) := by
  intro k
  induction k with
  | zero => intro p un tl mx _ _; simp [repsFrom]
  | succ k ih =>
    intro p un tl mx hC hF
    have hlen : (l0 :: ls').length = ls'.length + 1 := rfl
    rw [unroll_succ]
    have hsplit : List.range' p ((k + 1) * (ls'.length + 1)) =
        List.range' p (l0 :: ls').length ++ List.range' (p + (ls'.length + 1)) (k * (ls'.length + 1)) := by
      rw [hlen, Nat.succ_mul, Nat.add_comm (k * _) _]
      exact (List.range'_append_1 ..).symm
    rw [hsplit, List.zip_append (by simp), List.foldl_append]
    obtain ⟨y, hy⟩ : ∃ y, (x :: tl).getLast? = some y := by
      cases h : (x :: tl).getLast? with
      | none => simp at h
      | some y => exact ⟨y, rfl⟩
    rw [seg_fold f l0 ls' p un (x :: tl) mx y hy
      (fun q h1 h2 => hF 0 q (by omega) (by simpa using h1) (by simpa using h2))]
    have h0 := hC 0 (by omega)
    simp only [Nat.zero_mul, Nat.add_zero] at h0
    rw [skipped_inskip f inskips x y tl p h0]
    simp only [repsFrom, hy]
    cases hr : repInput f.accumulation inskips x y with
    | error e => simp only []; exact fold_error f _ _
    | ok inp =>
      simp only []
      cases hseg : segTrace (l0 :: ls') inp (un, x :: tl, mx) with
      | error e => simp only []; exact fold_error f _ _
      | ok st' =>
        simp only []
        -- the new state still starts with the block input
        simp only [segTrace] at hseg
        cases hq : seqTrace (l0 :: ls') inp with
        | error e => rw [hq] at hseg; simp at hseg
        | ok r =>
          obtain ⟨us, as, ms⟩ := r
          rw [hq] at hseg
          simp only [Except.ok.injEq] at hseg
          subst hseg
          simp only [List.cons_append]
          apply ih (p + (ls'.length + 1)) (un ++ us) (tl ++ as) (mx ++ ms)
          · intro i hi
            have := hC (i + 1) (by omega)
            rw [Nat.succ_mul] at this
            rw [← this]; congr 1; omega
          · intro i q hi h1 h2
            apply hF (i + 1) q (by omega)
            · rw [Nat.succ_mul]; omega
            · rw [Nat.succ_mul (i + 1)]; omega


/-! ### the clean specification: outputs of the repetitions -/

/-- the composition of a layer sequence -/
def applySeq (ls : List (InnerLayer α)) (x : Tensor α) : Except Err (Tensor α) :=
  match seqTrace ls x with
  | .error e => .error e
  | .ok (_, as, _) => .ok (as.getLast?.getD x)

/-- outputs of `k` further repetitions after one that produced `y` -/
def laterReps (ls : List (InnerLayer α)) (acc : Accumulation) (inskips : Bool) (x : Tensor α) :
    Nat → Tensor α → Except Err (List (Tensor α))
  | 0, _ => .ok []
  | k + 1, y =>
    match repInput acc inskips x y with
    | .error e => .error e
    | .ok inp =>
      match applySeq ls inp with
      | .error e => .error e
      | .ok y' =>
        match laterReps ls acc inskips x k y' with
        | .error e => .error e
        | .ok ys => .ok (y' :: ys)

theorem seqTrace_length : ∀ (ls : List (InnerLayer α)) (x : Tensor α) (us as : List (Tensor α)) (ms : List (Option MaxIdx)),
    seqTrace ls x = .ok (us, as, ms) → us.length = ls.length ∧ as.length = ls.length
  | [], x, us, as, ms, h => by
    simp only [seqTrace, Except.ok.injEq, Prod.mk.injEq] at h
    obtain ⟨h1, h2, _⟩ := h
    subst h1; subst h2; simp
  | l :: ls, x, us, as, ms, h => by
    simp only [seqTrace] at h
    split at h
    · simp at h
    · split at h
      · simp at h
      · rename_i pre post m _
        split at h
        · simp at h
        · rename_i us' as' ms' hq
          simp only [Except.ok.injEq, Prod.mk.injEq] at h
          obtain ⟨h1, h2, _⟩ := h
          subst h1; subst h2
          have := seqTrace_length ls post us' as' ms' hq
          simp [this.1, this.2]

theorem mapM'_append {β γ : Type} (g : β → Except Err γ) : ∀ (l1 l2 : List β),
    L.mapM' g (l1 ++ l2) =
      match L.mapM' g l1 with
      | .error e => .error e
      | .ok r1 => match L.mapM' g l2 with
        | .error e => .error e
        | .ok r2 => .ok (r1 ++ r2)
  | [], l2 => by
    simp only [List.nil_append, L.mapM']
    cases L.mapM' g l2 <;> rfl
  | a :: l1, l2 => by
    simp only [List.cons_append, L.mapM', mapM'_append g l1 l2]
    cases g a with
    | error e => rfl
    | ok y =>
      simp only []
      cases L.mapM' g l1 with
      | error e => rfl
      | ok r1 =>
        simp only []
        cases L.mapM' g l2 <;> rfl

theorem mapM'_congr {β γ : Type} (g g' : β → Except Err γ) : ∀ (l : List β),
    (∀ a, a ∈ l → g a = g' a) → L.mapM' g l = L.mapM' g' l
  | [], _ => rfl
  | a :: l, h => by
    simp only [L.mapM']
    rw [h a (by simp), mapM'_congr g g' l (fun b hb => h b (by simp [hb]))]

theorem mapM'_length {β γ : Type} (g : β → Except Err γ) : ∀ (l : List β) (r : List γ),
    L.mapM' g l = .ok r → r.length = l.length
  | [], r, h => by simp only [L.mapM', Except.ok.injEq] at h; subst h; rfl
  | a :: l, r, h => by
    simp only [L.mapM'] at h
    split at h
    · simp at h
    · split at h
      · simp at h
      · rename_i ys hq
        simp only [Except.ok.injEq] at h; subst h
        simp [mapM'_length g l ys hq]

theorem get_append_left {β : Type} (l1 l2 : List β) (i : Nat) (h : i < l1.length) :
    L.get (l1 ++ l2) i = L.get l1 i := by
  simp only [L.get, L.get?_eq, List.getElem?_append_left h]

theorem get_last {β : Type} (l : List β) (y : β) (i : Nat) (h : i + 1 = l.length) (hy : l.getLast? = some y) :
    L.get l i = .ok y := by
  have : l[i]? = some y := by
    rw [List.getLast?_eq_getElem?] at hy
    rw [← hy]; congr 1; omega
  simp only [L.get, L.get?_eq, this]


/-- what the recorded state of `j ≥ 1` completed repetitions looks like: `ys` are their outputs, found
    at positions `len, 2·len, …, j·len` of the activations -/
structure Inv (len j : Nat) (st : St α) (ys : List (Tensor α)) : Prop where
  alen : st.2.1.length = j * len + 1
  srcs : L.mapM' (L.get st.2.1) ((List.range' 1 j).map (· * len)) = .ok ys
  last : st.2.1.getLast? = ys.getLast?
  un : st.1 ≠ []

theorem inv_step (len j : Nat) (hlen : 1 ≤ len) (st : St α) (ys : List (Tensor α)) (us as : List (Tensor α))
    (ms : List (Option MaxIdx)) (y' : Tensor α) (h : Inv len j st ys) (has : as.length = len)
    (hy' : as.getLast? = some y') :
    Inv len (j + 1) (st.1 ++ us, st.2.1 ++ as, st.2.2 ++ ms) (ys ++ [y']) := by
  have hne : as ≠ [] := by intro e; rw [e] at has; simp at has; omega
  refine ⟨?_, ?_, ?_, ?_⟩
  · simp only [List.length_append, h.alen, has, Nat.succ_mul]; omega
  · have hr : List.range' 1 (j + 1) = List.range' 1 j ++ [j + 1] := by
      rw [List.range'_concat]; simp [Nat.add_comm]
    simp only [hr, List.map_append, List.map_cons, List.map_nil]
    rw [mapM'_append]
    have hold : L.mapM' (L.get (st.2.1 ++ as)) ((List.range' 1 j).map (· * len)) = .ok ys := by
      rw [← h.srcs]
      apply mapM'_congr
      intro a ha
      simp only [List.mem_map, List.mem_range'_1] at ha
      obtain ⟨i, hi, rfl⟩ := ha
      apply get_append_left
      rw [h.alen]
      have : i * len ≤ j * len := Nat.mul_le_mul_right _ (by omega)
      omega
    rw [hold]
    have hnew : L.get (st.2.1 ++ as) ((j + 1) * len) = .ok y' := by
      apply get_last
      · simp only [List.length_append, h.alen, has, Nat.succ_mul]; omega
      · rw [List.getLast?_append, hy']; rfl
    simp [L.mapM', hnew]
  · simp only []
    rw [List.getLast?_append, hy']
    simp
  · simp only []
    intro e
    exact h.un (List.append_eq_nil_iff.mp e).1

/-- the recorded further repetitions and the clean list of their outputs agree -/
theorem reps_spec (ls : List (InnerLayer α)) (hlen : 1 ≤ ls.length) (acc : Accumulation) (inskips : Bool) (x : Tensor α) :
    ∀ (k j : Nat) (st : St α) (ys : List (Tensor α)) (y : Tensor α), Inv ls.length j st ys → ys.getLast? = some y →
    match repsFrom ls acc inskips x k st, laterReps ls acc inskips x k y with
    | .ok st', .ok ys' => Inv ls.length (j + k) st' (ys ++ ys')
    | .error e, .error e' => e = e'
    | _, _ => False := by
  intro k
  induction k with
  | zero => intro j st ys y h hy; simpa [repsFrom, laterReps] using h
  | succ k ih =>
    intro j st ys y h hy
    have hl : st.2.1.getLast? = some y := by rw [h.last, hy]
    simp only [repsFrom, laterReps, hl]
    cases hr : repInput acc inskips x y with
    | error e => simp
    | ok inp =>
      simp only [segTrace, applySeq]
      cases hq : seqTrace ls inp with
      | error e => simp
      | ok r =>
        obtain ⟨us, as, ms⟩ := r
        simp only []
        have hlens := seqTrace_length ls inp us as ms hq
        obtain ⟨y', hy'⟩ : ∃ y', as.getLast? = some y' := by
          cases hg : as.getLast? with
          | none =>
            rw [List.getLast?_eq_none_iff] at hg
            rw [hg] at hlens; simp at hlens; omega
          | some y' => exact ⟨y', rfl⟩
        rw [hy']
        simp only [Option.getD_some]
        have hinv := inv_step ls.length j hlen st ys us as ms y' h hlens.2 hy'
        have := ih (j + 1) _ (ys ++ [y']) y' hinv (by simp)
        cases hA : repsFrom ls acc inskips x k (st.1 ++ us, st.2.1 ++ as, st.2.2 ++ ms) with
        | error e =>
          cases hB : laterReps ls acc inskips x k y' with
          | error e' => rw [hA, hB] at this; simpa using this
          | ok ys' => rw [hA, hB] at this; simp at this
        | ok st' =>
          cases hB : laterReps ls acc inskips x k y' with
          | error e' => rw [hA, hB] at this; simp at this
          | ok ys' =>
            rw [hA, hB] at this
            simp only [] at this ⊢
            have e1 : j + (k + 1) = j + 1 + k := by omega
            rw [e1]
            simpa [List.append_assoc] using this


/-! ### the whole block -/

/-- what the block hands on: the last recorded activation -/
def blockOutput (f : Feedback α) (x : Tensor α) : Except Err (Tensor α) :=
  match f.forwardAll x with
  | .error e => .error e
  | .ok (_, act, _) => match act.getLast? with
    | some y => .ok y
    | none => .error .index

/-- the specification: `L` repetitions of `ls`; later repetitions see the previous output (combined
    with the block input if `inskips`); the last output is combined with all earlier outputs if
    `outskips` (and there are any); flattened if `flatten` -/
def blockSpec (ls : List (InnerLayer α)) (loops : Nat) (inskips outskips : Bool) (acc : Accumulation)
    (flatten : Bool) (x : Tensor α) : Except Err (Tensor α) :=
  match applySeq ls x with
  | .error e => .error e
  | .ok y1 =>
    match laterReps ls acc inskips x (loops - 1) y1 with
    | .error e => .error e
    | .ok ys =>
      let all := y1 :: ys
      let last := all.getLast?.getD y1
      let comb : Except Err (Tensor α) :=
        if outskips = true ∧ 2 ≤ loops then accumulateMany acc last all.dropLast else .ok last
      match comb with
      | .error e => .error e
      | .ok out => if flatten then out.flatten else .ok out

/-- the connection table of a block as `Feedback.create` wires it -/
structure Wired (f : Feedback α) (ls : List (InnerLayer α)) (loops : Nat) (inskips outskips : Bool) : Prop where
  layers : f.layers = (List.range loops).flatMap (fun _ => ls)
  c0 : Assoc.find? f.connect 0 = none
  cin : ∀ i, 1 ≤ i → i < loops → Assoc.find? f.connect (i * ls.length) = (if inskips then some [0] else none)
  cfree : ∀ i q, i < loops → i * ls.length < q → q < (i + 1) * ls.length → Assoc.find? f.connect q = none
  cout : Assoc.find? f.connect (loops * ls.length) =
    (if outskips = true ∧ 2 ≤ loops then some ((List.range' 1 (loops - 1)).map (· * ls.length)) else none)

theorem get_dropLast {β : Type} (l : List β) (i : Nat) (h : i + 1 < l.length) :
    L.get l.dropLast i = L.get l i := by
  simp only [L.get, L.get?_eq]
  rw [List.getElem?_dropLast]
  simp [show i < l.length - 1 by omega]

theorem wired_output (f : Feedback α) (l0 : InnerLayer α) (ls' : List (InnerLayer α)) (k : Nat)
    (inskips outskips : Bool) (x : Tensor α) (hw : Wired f (l0 :: ls') (k + 1) inskips outskips) :
    blockOutput f x = blockSpec (l0 :: ls') (k + 1) inskips outskips f.accumulation f.flatten x := by
  have hlen : (l0 :: ls').length = ls'.length + 1 := rfl
  unfold blockOutput Feedback.forwardAll blockSpec
  rw [hw.layers, unroll_length, List.range_eq_range', unroll_succ]
  have hsplit : List.range' 0 ((k + 1) * (l0 :: ls').length) =
      List.range' 0 (l0 :: ls').length ++ List.range' (0 + (ls'.length + 1)) (k * (ls'.length + 1)) := by
    rw [hlen, Nat.succ_mul, Nat.add_comm (k * _) _]
    exact (List.range'_append_1 ..).symm
  rw [hsplit, List.zip_append (by simp), List.foldl_append]
  rw [noskip_fold f (l0 :: ls') 0 [] [x] [] x (by simp) (by
    intro q h1 h2
    by_cases hq : q = 0
    · subst hq; exact hw.c0
    · exact hw.cfree 0 q (by omega) (by omega) (by simpa using h2))]
  simp only [segTrace, applySeq]
  cases hq : seqTrace (l0 :: ls') x with
  | error e => simp only []; rw [fold_error]
  | ok r =>
    obtain ⟨us, as, ms⟩ := r
    simp only [List.nil_append, List.cons_append, Nat.zero_add]
    rw [reps_fold f l0 ls' inskips x k (ls'.length + 1) us as ms
      (by
        intro i hi
        have := hw.cin (i + 1) (by omega) (by omega)
        rw [hlen, Nat.succ_mul] at this
        rw [← this]; congr 1; omega)
      (by
        intro i q hi h1 h2
        apply hw.cfree (i + 1) q (by omega)
        · rw [hlen, Nat.succ_mul]; omega
        · rw [hlen, Nat.succ_mul (i + 1)]; omega)]
    have hlens := seqTrace_length (l0 :: ls') x us as ms hq
    obtain ⟨y1, hy1⟩ : ∃ y', as.getLast? = some y' := by
      cases hg : as.getLast? with
      | none =>
        rw [List.getLast?_eq_none_iff] at hg
        rw [hg] at hlens; simp at hlens
      | some y' => exact ⟨y', rfl⟩
    rw [hy1]
    simp only [Option.getD_some, Nat.add_sub_cancel]
    have hinv : Inv (l0 :: ls').length 1 (us, x :: as, ms) [y1] := by
      refine ⟨?_, ?_, ?_, ?_⟩
      · simp [hlens.2]
      · have : L.get (x :: as) (ls'.length + 1) = .ok y1 := by
          apply get_last
          · simp [hlens.2]
          · rw [List.getLast?_cons]; simp [hy1]
        simp [L.mapM', this]
      · simp only [List.getLast?_cons, hy1]; simp
      · intro e
        have e' : us = [] := e
        rw [e'] at hlens; simp at hlens
    have hrel := reps_spec (l0 :: ls') (by simp) f.accumulation inskips x k 1 (us, x :: as, ms) [y1] y1 hinv (by simp)
    cases hA : repsFrom (l0 :: ls') f.accumulation inskips x k (us, x :: as, ms) with
    | error e =>
      cases hB : laterReps (l0 :: ls') f.accumulation inskips x k y1 with
      | ok ys => rw [hA, hB] at hrel; simp at hrel
      | error e' =>
        rw [hA, hB] at hrel
        simp only [] at hrel ⊢
        rw [hrel]
    | ok st' =>
      cases hB : laterReps (l0 :: ls') f.accumulation inskips x k y1 with
      | error e' => rw [hA, hB] at hrel; simp at hrel
      | ok ys =>
        rw [hA, hB] at hrel
        simp only [] at hrel
        obtain ⟨un, act, mx⟩ := st'
        simp only [List.singleton_append] at hrel
        simp only []
        -- the last activation is the last repetition's output
        have hlast : act.getLast? = (y1 :: ys).getLast? := hrel.last
        obtain ⟨last0, hl0⟩ : ∃ z, (y1 :: ys).getLast? = some z := by
          cases hg : (y1 :: ys).getLast? with
          | none => simp at hg
          | some z => exact ⟨z, rfl⟩
        rw [hlast, hl0]
        obtain ⟨u0, hu0⟩ : ∃ u, un.head? = some u := by
          cases hg : un.head? with
          | none => rw [List.head?_eq_none_iff] at hg; exact absurd hg hrel.un
          | some u => exact ⟨u, rfl⟩
        simp only [hu0, Option.getD_some]
        -- the output skip
        have hsk : Feedback.skipped f act.dropLast ((k + 1) * (l0 :: ls').length) last0 =
            (if outskips = true ∧ 2 ≤ k + 1 then accumulateMany f.accumulation last0 (y1 :: ys).dropLast else .ok last0) := by
          simp only [Feedback.skipped, hw.cout]
          by_cases hc : outskips = true ∧ 2 ≤ k + 1
          · rw [if_pos hc, if_pos hc]
            simp only [Nat.add_sub_cancel]
            -- the sources are the outputs of the earlier repetitions
            have hall := hrel.srcs
            have hr : List.range' 1 (1 + k) = List.range' 1 k ++ [k + 1] := by
              rw [Nat.add_comm 1 k, List.range'_concat]; simp [Nat.add_comm]
            simp only [hr, List.map_append, List.map_cons, List.map_nil] at hall
            rw [mapM'_append] at hall
            cases hpre : L.mapM' (L.get act) ((List.range' 1 k).map (· * (l0 :: ls').length)) with
            | error e => rw [hpre] at hall; simp at hall
            | ok r1 =>
              rw [hpre] at hall
              simp only [L.mapM'] at hall
              cases hlastget : L.get act ((k + 1) * (l0 :: ls').length) with
              | error e => rw [hlastget] at hall; simp at hall
              | ok z =>
                rw [hlastget] at hall
                simp only [Except.ok.injEq] at hall
                have hdl : (y1 :: ys).dropLast = r1 := by rw [← hall]; simp
                have hsame : L.mapM' (fun i => L.get act.dropLast i) ((List.range' 1 k).map (· * (l0 :: ls').length)) = .ok r1 := by
                  rw [← hpre]
                  apply mapM'_congr
                  intro a ha
                  simp only [List.mem_map, List.mem_range'_1] at ha
                  obtain ⟨i, hi, rfl⟩ := ha
                  apply get_dropLast
                  rw [hrel.alen]
                  have : i * (l0 :: ls').length < (1 + k) * (l0 :: ls').length :=
                    Nat.mul_lt_mul_of_pos_right (by omega) (by simp)
                  omega
                rw [hsame, hdl]
          · rw [if_neg hc, if_neg hc]
        rw [hsk]
        cases hcomb : (if outskips = true ∧ 2 ≤ k + 1 then accumulateMany f.accumulation last0 (y1 :: ys).dropLast else Except.ok last0) with
        | error e => rfl
        | ok out =>
          simp only []
          cases hfl : f.flatten with
          | false => simp
          | true =>
            simp only [if_true]
            cases out.flatten with
            | error e => rfl
            | ok o => simp

end FeedbackSpec
