import Model.Tensor
import Proofs.Reshape

/-! # Well-formed tensors: the recorded shape describes the nested lengths of the data -/

namespace Tensor
variable {α : Type}

def Wf (t : Tensor α) : Prop :=
  match t.shape, t.data with
  | .single n, .single v => v.length = n
  | .double r c, .double d => d.length = r ∧ ∀ x ∈ d, x.length = c
  | .triple c h w, .triple d => L.Dims3 d c h w
  | .quadruple f c h w, .quadruple d => d.length = f ∧ ∀ k ∈ d, L.Dims3 k c h w
  | _, _ => False

/-- the row-major element sequence of a tensor of any rank -/
def flat (t : Tensor α) : List α :=
  match t.data with
  | .single v => v
  | .double d => d.flatten
  | .triple d => L.flatten3 d
  | .quadruple d => (d.map L.flatten3).flatten

end Tensor
