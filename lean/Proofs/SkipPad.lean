import Proofs.SkipNet

/-!
# Layers of different shapes inside one skip table: one universal vector type (C16 / C01)

`SkipNet` works with vectors of ONE index type and a position-indexed encoding.  Layers between different
shapes fit in by padding: the universal index type is the disjoint union `Σ k, T k` of the shapes that occur
(`k` ranges over a finite set of "slots"), a vector of shape `k` is padded with zeros in every other slot, a layer
from slot `k₁` to slot `k₂` becomes `E k₂ ∘ f ∘ Π k₁`, and position `j` is encoded by `enc (slot j) ∘ Π (slot j)`.
Two positions can be connected when they have the same slot.
-/

set_option linter.unusedSectionVars false
set_option linter.unusedVariables false

namespace SkipPad
open Network Scalar VJP LayerChain SkipWalk SkipNet

variable {K : Type} [Fintype K] [DecidableEq K] (T : K → Type) [∀ k, Fintype (T k)]

/-- the universal index type -/
abbrev UIdx : Idx := ⟨Σ k, T k⟩

/-- read slot `k` -/
def proj (k : K) (u : V (Σ k, T k)) : V (T k) := fun a => u ⟨k, a⟩

/-- pad a vector of slot `k` with zeros -/
def emb (k : K) (v : V (T k)) : V (Σ k, T k) := fun p => if h : p.1 = k then v (h ▸ p.2) else 0

theorem proj_emb (k : K) (v : V (T k)) : proj T k (emb T k v) = v := by
  funext a
  simp [proj, emb]

theorem proj_add (k : K) (u v : V (Σ k, T k)) : proj T k (u + v) = proj T k u + proj T k v := rfl

theorem dot_proj_emb (k : K) (u : V (Σ k, T k)) (v : V (T k)) : dot (proj T k u) v = dot u (emb T k v) := by
  classical
  unfold dot
  rw [Fintype.sum_sigma]
  rw [Finset.sum_eq_single k]
  · apply Finset.sum_congr rfl
    intro a _
    simp [proj, emb]
  · intro k' _ hk'
    apply Finset.sum_eq_zero
    intro a _
    simp [emb, hk']
  · intro h; exact absurd (Finset.mem_univ k) h

theorem dot_comm' {ι : Type} [Fintype ι] (a b : V ι) : dot a b = dot b a := by
  unfold dot
  apply Finset.sum_congr rfl
  intro i _
  ring

theorem isVJP_proj (k : K) (u : V (Σ k, T k)) : IsVJP (proj T k) u (emb T k) := by
  let L : V (Σ k, T k) →ₗ[ℝ] V (T k) :=
    { toFun := proj T k, map_add' := fun _ _ => rfl, map_smul' := fun _ _ => rfl }
  refine ⟨LinearMap.toContinuousLinearMap L, (LinearMap.toContinuousLinearMap L).hasFDerivAt, ?_⟩
  intro g v
  show dot (emb T k g) v = dot g (proj T k v)
  rw [dot_comm' g, dot_proj_emb, dot_comm']

theorem emb_add (k : K) (u v : V (T k)) : emb T k (u + v) = emb T k u + emb T k v := by
  funext p
  simp only [emb, Pi.add_apply]
  split <;> simp

theorem emb_smul (k : K) (c : ℝ) (v : V (T k)) : emb T k (c • v) = c • emb T k v := by
  funext p
  simp only [emb, Pi.smul_apply, smul_eq_mul]
  split <;> simp

theorem isVJP_emb (k : K) (v : V (T k)) : IsVJP (emb T k) v (proj T k) := by
  let L : V (T k) →ₗ[ℝ] V (Σ k, T k) :=
    { toFun := emb T k, map_add' := emb_add T k, map_smul' := fun c v => by simpa using emb_smul T k c v }
  refine ⟨LinearMap.toContinuousLinearMap L, (LinearMap.toContinuousLinearMap L).hasFDerivAt, ?_⟩
  intro g w
  show dot (proj T k g) w = dot g (emb T k w)
  exact dot_proj_emb T k g w

/-- a layer between two slots, padded -/
theorem isVJP_lift (k₁ k₂ : K) (f : V (T k₁) → V (T k₂)) (b : V (T k₁) → V (T k₂) → V (T k₁)) (p : V (Σ k, T k))
    (hf : IsVJP f (proj T k₁ p) (b (proj T k₁ p))) :
    IsVJP (fun u => emb T k₂ (f (proj T k₁ u))) p (fun g => emb T k₁ (b (proj T k₁ p) (proj T k₂ g))) := by
  have h1 := isVJP_proj T k₁ p
  have h2 := IsVJP.comp h1 hf
  have h3 := IsVJP.comp h2 (isVJP_emb T k₂ (f (proj T k₁ p)))
  exact h3

/-! ### links -/

variable (enc : (k : K) → Enc ⟨T k⟩)

/-- the encoding of a position whose slot is `k` -/
def encAt (k : K) : Enc (UIdx T) := fun u => enc k (proj T k u)

/-- a typed layer between two slots as a link over the universal type -/
def liftLink (k₁ k₂ : K) (l : Layer ℝ) (f : V (T k₁) → V (T k₂)) (b : V (T k₁) → V (T k₂) → V (T k₁))
    (pre : V (T k₁) → Tensor ℝ) (rc : V (T k₁) → Recorded ℝ) (wg : V (T k₁) → V (T k₂) → WGrad ℝ × BGrad ℝ) : Link (UIdx T) where
  l := l
  f := fun u => emb T k₂ (f (proj T k₁ u))
  b := fun p g => emb T k₁ (b (proj T k₁ p) (proj T k₂ g))
  pre := fun p => pre (proj T k₁ p)
  rc := fun p => rc (proj T k₁ p)
  wg := fun p g => wg (proj T k₁ p) (proj T k₂ g)

theorem liftLink_real (k₁ k₂ : K) (l : Layer ℝ) (f : V (T k₁) → V (T k₂)) (b : V (T k₁) → V (T k₂) → V (T k₁))
    (pre : V (T k₁) → Tensor ℝ) (rc : V (T k₁) → Recorded ℝ) (wg : V (T k₁) → V (T k₂) → WGrad ℝ × BGrad ℝ) (p : V (Σ k, T k))
    (h1 : layerForward l (enc k₁ (proj T k₁ p)) = .ok (pre (proj T k₁ p), enc k₂ (f (proj T k₁ p)), rc (proj T k₁ p)))
    (h2 : ∀ g, layerBackward l (enc k₂ g) (enc k₁ (proj T k₁ p)) (pre (proj T k₁ p)) (.ok (rc (proj T k₁ p))) =
      .ok (enc k₁ (b (proj T k₁ p) g), (wg (proj T k₁ p) g).1, (wg (proj T k₁ p) g).2)) :
    (liftLink T k₁ k₂ l f b pre rc wg).Real (encAt T enc k₁) (encAt T enc k₂) p := by
  refine ⟨?_, fun g => ?_⟩
  · simp only [liftLink, encAt, proj_emb]
    exact h1
  · simp only [liftLink, encAt, proj_emb]
    exact h2 _

/-- positions of one slot can be connected (in both directions, and a position with itself) -/
theorem compat_same (k : K) (he : EncAdd (enc k)) : Compat (encAt T enc k) (encAt T enc k) where
  fwd u v := ⟨enc k (proj T k v), by
    simp only [encAt]
    exact if_neg (by rw [ne_eq, not_not]; exact he.shape _ _), by
    simp only [encAt, proj_add]; exact he.add _ _⟩
  bwd u v := ⟨enc k (proj T k v), he.reshape _ _, by simp only [encAt, proj_add]; exact he.add _ _⟩
  self _ u v := ⟨enc k (proj T k v), he.reshape _ _, by simp only [encAt, proj_add]; exact he.add _ _⟩

end SkipPad
