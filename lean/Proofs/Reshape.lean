import Model.Tensor

/-!
# Lemmas about the row-major readers (`takeRows`, `takeMats`, `toTriple`) and `flatten3`
Core Lean only.
-/

namespace L
variable {β : Type}

theorem takeRows_spec (w : Nat) : ∀ (k : Nat) (l : List β) (rows : List (List β)) (rest : List β),
    takeRows w k l = .ok (rows, rest) →
    rows.length = k ∧ (∀ r ∈ rows, r.length = w) ∧ rows.flatten ++ rest = l := by
  intro k
  induction k with
  | zero =>
    intro l rows rest h
    simp [takeRows] at h
    obtain ⟨h1, h2⟩ := h
    subst h1; subst h2; simp
  | succ k ih =>
    intro l rows rest h
    unfold takeRows at h
    by_cases hl : l.length < w
    · simp [hl] at h
    · simp only [hl, if_false] at h
      cases hr : takeRows w k (l.drop w) with
      | error e => simp [hr] at h
      | ok p =>
        obtain ⟨rows', rest'⟩ := p
        simp [hr] at h
        obtain ⟨h1, h2⟩ := h
        subst h1; subst h2
        obtain ⟨a, b, c⟩ := ih _ _ _ hr
        refine ⟨by simp [a], ?_, ?_⟩
        · intro r hr'
          simp at hr'
          cases hr' with
          | inl h => subst h; simp; omega
          | inr h => exact b r h
        · simp [List.append_assoc, c]

theorem takeRows_ok (w : Nat) : ∀ (k : Nat) (l : List β), k * w ≤ l.length →
    ∃ rows rest, takeRows w k l = .ok (rows, rest) := by
  intro k
  induction k with
  | zero => intro l _; exact ⟨[], l, rfl⟩
  | succ k ih =>
    intro l h
    have hw : ¬ l.length < w := by
      have : w ≤ (k + 1) * w := Nat.le_mul_of_pos_left w (Nat.succ_pos k)
      omega
    have h' : k * w ≤ (l.drop w).length := by
      simp [List.length_drop]
      have : (k + 1) * w = k * w + w := Nat.succ_mul k w
      omega
    obtain ⟨rows, rest, hr⟩ := ih (l.drop w) h'
    exact ⟨l.take w :: rows, rest, by unfold takeRows; simp [hw, hr]⟩

theorem takeRows_err (w : Nat) : ∀ (k : Nat) (l : List β), l.length < k * w →
    takeRows w k l = .error .index := by
  intro k
  induction k with
  | zero => intro l h; simp at h
  | succ k ih =>
    intro l h
    unfold takeRows
    by_cases hw : l.length < w
    · simp [hw]
    · simp only [hw, if_false]
      have h' : (l.drop w).length < k * w := by
        simp [List.length_drop]
        have : (k + 1) * w = k * w + w := Nat.succ_mul k w
        omega
      simp [ih _ h']

theorem takeMats_spec (h w : Nat) : ∀ (k : Nat) (l : List β) (ms : List (List (List β))) (rest : List β),
    takeMats h w k l = .ok (ms, rest) →
    ms.length = k ∧ (∀ m ∈ ms, m.length = h ∧ ∀ r ∈ m, r.length = w) ∧ flatten3 ms ++ rest = l := by
  intro k
  induction k with
  | zero =>
    intro l ms rest hh
    simp [takeMats] at hh
    obtain ⟨h1, h2⟩ := hh
    subst h1; subst h2; simp [flatten3]
  | succ k ih =>
    intro l ms rest hh
    unfold takeMats at hh
    cases hr : takeRows w h l with
    | error e => simp [hr] at hh
    | ok p =>
      obtain ⟨m, rest1⟩ := p
      simp only [hr] at hh
      cases hm : takeMats h w k rest1 with
      | error e => simp [hm] at hh
      | ok q =>
        obtain ⟨ms', rest'⟩ := q
        simp [hm] at hh
        obtain ⟨h1, h2⟩ := hh
        subst h1; subst h2
        obtain ⟨a, b, c⟩ := takeRows_spec w h l m rest1 hr
        obtain ⟨a', b', c'⟩ := ih _ _ _ hm
        refine ⟨by simp [a'], ?_, ?_⟩
        · intro m' hm'
          simp at hm'
          cases hm' with
          | inl e => subst e; exact ⟨a, b⟩
          | inr e => exact b' m' e
        · simp only [flatten3, List.map_cons, List.flatten_cons, List.append_assoc] at c' ⊢
          rw [c', c]

theorem takeMats_ok (h w : Nat) : ∀ (k : Nat) (l : List β), k * (h * w) ≤ l.length →
    ∃ ms rest, takeMats h w k l = .ok (ms, rest) := by
  intro k
  induction k with
  | zero => intro l _; exact ⟨[], l, rfl⟩
  | succ k ih =>
    intro l hl
    have e : (k + 1) * (h * w) = k * (h * w) + h * w := Nat.succ_mul k (h * w)
    obtain ⟨m, rest1, hr⟩ := takeRows_ok w h l (by omega)
    obtain ⟨_, _, c⟩ := takeRows_spec w h l m rest1 hr
    have hlen : m.flatten.length = h * w := by
      obtain ⟨a, b, _⟩ := takeRows_spec w h l m rest1 hr
      rw [List.length_flatten]
      have : m.map List.length = List.replicate m.length w := by
        apply List.eq_replicate_iff.mpr
        refine ⟨by simp, ?_⟩
        intro x hx
        simp at hx
        obtain ⟨r, hr1, hr2⟩ := hx
        rw [← hr2]; exact b r hr1
      rw [this]; simp [a]
    have hrest : k * (h * w) ≤ rest1.length := by
      have : l.length = m.flatten.length + rest1.length := by rw [← c]; simp
      omega
    obtain ⟨ms, rest, hm⟩ := ih rest1 hrest
    exact ⟨m :: ms, rest, by unfold takeMats; simp [hr, hm]⟩

theorem takeMats_err (h w : Nat) : ∀ (k : Nat) (l : List β), l.length < k * (h * w) →
    ∃ e, takeMats h w k l = .error e := by
  intro k
  induction k with
  | zero => intro l hl; simp at hl
  | succ k ih =>
    intro l hl
    have e : (k + 1) * (h * w) = k * (h * w) + h * w := Nat.succ_mul k (h * w)
    unfold takeMats
    cases hr : takeRows w h l with
    | error e => exact ⟨e, rfl⟩
    | ok p =>
      obtain ⟨m, rest1⟩ := p
      obtain ⟨a, b, c⟩ := takeRows_spec w h l m rest1 hr
      have hlen : m.flatten.length = h * w := by
        rw [List.length_flatten]
        have : m.map List.length = List.replicate m.length w := by
          apply List.eq_replicate_iff.mpr
          refine ⟨by simp, ?_⟩
          intro x hx
          simp at hx
          obtain ⟨r, hr1, hr2⟩ := hx
          rw [← hr2]; exact b r hr1
        rw [this]; simp [a]
      have hrest : rest1.length < k * (h * w) := by
        have : l.length = m.flatten.length + rest1.length := by rw [← c]; simp
        omega
      obtain ⟨e', he'⟩ := ih rest1 hrest
      exact ⟨e', by simp [he']⟩

/-- a 3-D nested list has exactly the lengths `c × h × w` -/
def Dims3 (t : List (List (List β))) (c h w : Nat) : Prop :=
  t.length = c ∧ ∀ m ∈ t, m.length = h ∧ ∀ r ∈ m, r.length = w

theorem length_flatten_uniform (m : List (List β)) (w : Nat) (hm : ∀ r ∈ m, r.length = w) :
    m.flatten.length = m.length * w := by
  induction m with
  | nil => simp
  | cons r rs ih =>
    simp only [List.flatten_cons, List.length_append, List.length_cons]
    rw [ih (fun x hx => hm x (List.mem_cons_of_mem _ hx)), hm r (List.mem_cons_self ..)]
    rw [Nat.succ_mul]; omega

theorem length_flatten3 (t : List (List (List β))) (c h w : Nat) (d : Dims3 t c h w) :
    (flatten3 t).length = c * h * w := by
  obtain ⟨hc, hm⟩ := d
  unfold flatten3
  rw [length_flatten_uniform (t.map List.flatten) (h * w)]
  · simp [hc, Nat.mul_assoc]
  · intro r hr
    simp at hr
    obtain ⟨m, hm1, hm2⟩ := hr
    rw [← hm2, length_flatten_uniform m w (hm m hm1).2, (hm m hm1).1]

/-- **the row-major reader**: succeeds exactly when there is enough data, produces the requested
    dimensions, and its flattening is the consumed prefix -/
theorem toTriple_spec (c h w : Nat) (l : List β) (t : List (List (List β)))
    (ht : toTriple c h w l = .ok t) :
    Dims3 t c h w ∧ flatten3 t = l.take (c * h * w) := by
  unfold toTriple at ht
  cases hm : takeMats h w c l with
  | error e => simp [hm] at ht
  | ok p =>
    obtain ⟨ms, rest⟩ := p
    simp [hm] at ht
    subst ht
    obtain ⟨a, b, cc⟩ := takeMats_spec h w c l ms rest hm
    have d : Dims3 ms c h w := ⟨a, b⟩
    refine ⟨d, ?_⟩
    have hl := length_flatten3 ms c h w d
    rw [← cc, ← hl]
    simp

theorem toTriple_exact (c h w : Nat) (l : List β) (hl : l.length = c * h * w) :
    ∃ t, toTriple c h w l = .ok t ∧ Dims3 t c h w ∧ flatten3 t = l := by
  obtain ⟨ms, rest, hm⟩ := takeMats_ok h w c l (by rw [hl, Nat.mul_assoc]; exact Nat.le_refl _)
  have ht : toTriple c h w l = .ok ms := by unfold toTriple; simp [hm]
  obtain ⟨d, f⟩ := toTriple_spec c h w l ms ht
  refine ⟨ms, ht, d, ?_⟩
  rw [f, ← hl]; simp

theorem toTriple_short (c h w : Nat) (l : List β) (hl : l.length < c * h * w) :
    ∃ e, toTriple c h w l = .error e := by
  obtain ⟨e, he⟩ := takeMats_err h w c l (by rw [← Nat.mul_assoc]; exact hl)
  exact ⟨e, by unfold toTriple; simp [he]⟩

/-- position `i * w + j` of the concatenation of rows of equal length `w` is element `j` of row `i` -/
theorem flatten_uniform_getElem? (m : List (List β)) (w : Nat) (hm : ∀ r ∈ m, r.length = w)
    (i j : Nat) (hj : j < w) : m.flatten[i * w + j]? = (m[i]?).bind (·[j]?) := by
  induction m generalizing i with
  | nil => simp
  | cons r rs ih =>
    have hr : r.length = w := hm r (List.mem_cons_self ..)
    cases i with
    | zero =>
      simp only [List.flatten_cons, Nat.zero_mul, Nat.zero_add, List.getElem?_cons_zero, Option.bind_some]
      exact List.getElem?_append_left (by omega)
    | succ n =>
      simp only [List.flatten_cons, List.getElem?_cons_succ]
      have e : (n + 1) * w + j = r.length + (n * w + j) := by rw [Nat.succ_mul, hr]; omega
      rw [e, List.getElem?_append_right (by omega), Nat.add_sub_cancel_left]
      exact ih (fun x hx => hm x (List.mem_cons_of_mem _ hx)) n

/-- **row-major order, position by position**: in the flat sequence of a `c × h × w` tensor the
    element with indices `(i, j, k)` sits at position `i·(h·w) + j·w + k` -/
theorem flatten3_getElem? (t : List (List (List β))) (c h w : Nat) (d : Dims3 t c h w)
    (i j k : Nat) (hj : j < h) (hk : k < w) :
    (flatten3 t)[i * (h * w) + (j * w + k)]? = ((t[i]?).bind (·[j]?)).bind (·[k]?) := by
  obtain ⟨_, hm⟩ := d
  have hlt : j * w + k < h * w := by
    calc j * w + k < j * w + w := by omega
      _ = (j + 1) * w := by rw [Nat.succ_mul]
      _ ≤ h * w := Nat.mul_le_mul_right w hj
  unfold flatten3
  rw [flatten_uniform_getElem? (t.map List.flatten) (h * w) _ i (j * w + k) hlt]
  · rw [List.getElem?_map]
    cases hi : t[i]? with
    | none => simp
    | some m =>
      have hmem : m ∈ t := List.mem_of_getElem? hi
      simp only [Option.map_some, Option.bind_some]
      exact flatten_uniform_getElem? m w (hm m hmem).2 j k hk
  · intro r hr
    simp at hr
    obtain ⟨m, hm1, hm2⟩ := hr
    rw [← hm2, length_flatten_uniform m w (hm m hm1).2, (hm m hm1).1]

end L
