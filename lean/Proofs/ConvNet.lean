import Proofs.Flat3
import Proofs.DenseStack
import Proofs.DenseBlock

/-!
# A convolution layer followed by a stack of dense layers, on the model's own `Network.forward` /
`Network.backward` folds (end-to-end instantiation for a network mixing spatial and dense layers, C01)
-/

set_option linter.unusedSectionVars false
set_option linter.unusedVariables false

namespace ConvNet
open Network Scalar VJP ConvVJP ConvBridge Flat3 DenseBridge DenseStack Walk LoopSpec

variable {kf kc kh kw ih iw oh ow k : ℕ}

/-- the convolution layer as a vector function of its input (kernels `K`) -/
noncomputable def convFn (l : Conv ℝ) (a : Act) (K : V (I4 kf kc kh kw)) (ih iw oh ow : ℕ) (x : V (I3 kc ih iw)) : V (I3 kf oh ow) :=
  fun i => Act.f a (pre l K ih iw oh ow x i)

/-- the whole network as a vector function: convolution, flatten, dense stack -/
noncomputable def netFn (l : Conv ℝ) (a : Act) (K : V (I4 kf kc kh kw)) (ih iw : ℕ) (s : Stack (kf * oh * ow) k)
    (x : V (I3 kc ih iw)) : Vec k :=
  s.net.fwd (flat (convFn l a K ih iw oh ow x))

theorem layerForward_conv (l : Conv ℝ) (a : Act) (K : V (I4 kf kc kh kw)) (hl : IsConv l a K ih iw oh ow) (ha : a ≠ .softmax)
    (hfl : l.flatten = true) (x : V (I3 kc ih iw)) :
    layerForward (.conv l) (T3 x) = .ok (T3 (pre l K ih iw oh ow x), vecT (flat (convFn l a K ih iw oh ow x)), .none) := by
  obtain ⟨hkf, hkc, hkh, hih, hoh⟩ := hl.pos
  simp only [layerForward, forward_gen l a K hl ha x, hfl, ↓reduceIte, flatten_T3 _ hkf hoh]
  rfl

theorem layerBackward_conv (l : Conv ℝ) (a : Act) (K : V (I4 kf kc kh kw)) (hl : IsConv l a K ih iw oh ow) (ha : a ≠ .softmax)
    (x : V (I3 kc ih iw)) (u : Vec (kf * oh * ow)) (r : Except Err (Recorded ℝ)) :
    ∃ xp, Tensor.pad3d (toList3 x) (ih + 2 * l.padding.1) (iw + 2 * l.padding.2) = .ok xp ∧
    layerBackward (.conv l) (vecT u) (T3 x) (T3 (pre l K ih iw oh ow x)) r =
      .ok (T3 (convBwd l (toList4 K) kf kc kh kw ih iw oh ow (ConvBridge.delta a (pre l K ih iw oh ow x) (unflat u))),
           .one ⟨.quadruple kf kc kh kw, .quadruple (Conv.kernelGrad l xp (toList3 (ConvBridge.delta a (pre l K ih iw oh ow x) (unflat u)))
              kf kc kh kw oh ow (ih + 2 * l.padding.1) (iw + 2 * l.padding.2))⟩,
           .one none) := by
  obtain ⟨xp, hp, hb⟩ := backward_eq l a K hl ha x (unflat u) (vecT u) (by rw [hl.outputs]; exact getTriple_vecT u)
  exact ⟨xp, hp, by simp only [layerBackward, hb]⟩

/-- the trace `Network.forward` records on such a network -/
noncomputable def trace (l : Conv ℝ) (a : Act) (K : V (I4 kf kc kh kw)) (ih iw : ℕ) (s : Stack (kf * oh * ow) k)
    (x : V (I3 kc ih iw)) : Trace ℝ :=
  { pre := T3 (pre l K ih iw oh ow x) :: s.pres (flat (convFn l a K ih iw oh ow x)),
    act := T3 x :: vecT (flat (convFn l a K ih iw oh ow x)) :: s.acts (flat (convFn l a K ih iw oh ow x)),
    recs := Recorded.none :: s.layers.map (fun _ => Recorded.none) }

/-- **forward**: the model's fold records the convolution's pre-activation, its flattened output, and the
    stack's values -/
theorem forward_trace (n : Network ℝ) (l : Conv ℝ) (a : Act) (K : V (I4 kf kc kh kw)) (hl : IsConv l a K ih iw oh ow)
    (ha : a ≠ .softmax) (hfl : l.flatten = true) (s : Stack (kf * oh * ow) k) (hn : n.layers = .conv l :: s.layers)
    (hc : n.connect = []) (hlb : n.loopbacks = []) (hv : s.Valid) (x : V (I3 kc ih iw)) :
    n.forward (T3 x) = .ok (trace l a K ih iw s x) := by
  rw [forward_eq_runRange n hc hlb (T3 x), hn]
  unfold Network.runRange
  simp only [List.foldl_cons, rangeStep, layerForward_conv l a K hl ha hfl x]
  rw [rangeFold_prefix, DenseStack.forward_fold s _ hv]
  simp [trace]

/-- **backward**: the reverse walk over that trace ends in the convolution's input gradient of what the
    stack handed back, and records the convolution's kernel gradient last -/
theorem backward_trace (n : Network ℝ) (l : Conv ℝ) (a : Act) (K : V (I4 kf kc kh kw)) (hl : IsConv l a K ih iw oh ow)
    (ha : a ≠ .softmax) (s : Stack (kf * oh * ow) k) (hn : n.layers = .conv l :: s.layers)
    (hc : n.connect = []) (hv : s.Valid) (x : V (I3 kc ih iw)) (g : Vec k) :
    ∃ xp ws bs gs, Tensor.pad3d (toList3 x) (ih + 2 * l.padding.1) (iw + 2 * l.padding.2) = .ok xp ∧
      n.backward (vecT g) (trace l a K ih iw s x) = .ok (ws, bs, gs) ∧
      gs.getLast? = some (T3 (convBwd l (toList4 K) kf kc kh kw ih iw oh ow
        (ConvBridge.delta a (pre l K ih iw oh ow x) (unflat (s.net.bwd (flat (convFn l a K ih iw oh ow x)) g))))) ∧
      ws.getLast? = some (.one ⟨.quadruple kf kc kh kw, .quadruple (Conv.kernelGrad l xp
        (toList3 (ConvBridge.delta a (pre l K ih iw oh ow x) (unflat (s.net.bwd (flat (convFn l a K ih iw oh ow x)) g))))
        kf kc kh kw oh ow (ih + 2 * l.padding.1) (iw + 2 * l.padding.2))⟩) := by
  set x' := flat (convFn l a K ih iw oh ow x) with hx'
  obtain ⟨ws1, bs1, gs1, h1, h2, h3, _⟩ := back_walk s x' g 1 (trace l a K ih iw s x) [T3 x] [T3 (pre l K ih iw oh ow x)]
    hv rfl rfl rfl rfl
  obtain ⟨xp, hp, hb⟩ := layerBackward_conv l a K hl ha x (s.net.bwd x' g) (L.get (trace l a K ih iw s x).recs 0)
  have hbk := backward_eq_backSpec n hc (vecT g) (trace l a K ih iw s x)
  have hsplit : (List.zip (List.range n.layers.length) n.layers).reverse =
      (List.zip (List.range' 1 s.layers.length) s.layers).reverse ++ [(0, .conv l)] := by
    rw [hn, List.range_eq_range']
    simp [List.range'_succ]
  rw [hsplit, backSpec_append, h1] at hbk
  simp only [h2] at hbk
  have hga : L.get (trace l a K ih iw s x).act 0 = .ok (T3 x) := rfl
  have hgp : L.get (trace l a K ih iw s x).pre 0 = .ok (T3 (pre l K ih iw oh ow x)) := rfl
  simp only [backSpec, hga, hgp, hb] at hbk
  refine ⟨xp, _, _, _, hp, hbk, ?_, ?_⟩
  · rw [List.getLast?_cons, List.getLast?_append]
    simp
  · rw [List.getLast?_append]
    simp

/-! ### the two gradients -/

theorem delta_eq (a : Act) (p g : V (I3 kf oh ow)) : ConvBridge.delta a p g = fun i => Act.df a (p i) * g i := by
  funext i; simp only [ConvBridge.delta]; ring

/-- the convolution layer's transposed Jacobian with respect to its input, in the form the model computes it -/
theorem conv_vjp_input (l : Conv ℝ) (a : Act) (K : V (I4 kf kc kh kw)) (hl : IsConv l a K ih iw oh ow)
    (x : V (I3 kc ih iw))
    (hk : ∀ i, HasDerivAt (Act.f a) (Act.df a (pre l K ih iw oh ow x i)) (pre l K ih iw oh ow x i)) :
    IsVJP (convFn l a K ih iw oh ow) x
      (fun g => convBwd l (toList4 K) kf kc kh kw ih iw oh ow (ConvBridge.delta a (pre l K ih iw oh ow x) g)) := by
  obtain ⟨hkf, hkc, hkh, hih, hoh⟩ := hl.pos
  simp only [delta_eq]
  exact conv_layer_isVJP l (toList4 K) kf kc kh kw ih iw oh ow (Act.f a) (Act.df a) hkc hih x hk

/-- … and with respect to its kernels -/
theorem conv_vjp_kernels (l : Conv ℝ) (a : Act) (K : V (I4 kf kc kh kw)) (hl : IsConv l a K ih iw oh ow)
    (x : V (I3 kc ih iw)) (xp : V3 ℝ)
    (hp : Tensor.pad3d (toList3 x) (ih + 2 * l.padding.1) (iw + 2 * l.padding.2) = .ok xp)
    (hk : ∀ i, HasDerivAt (Act.f a) (Act.df a (pre l K ih iw oh ow x i)) (pre l K ih iw oh ow x i)) :
    IsVJP (fun K' => convFn l a K' ih iw oh ow x) K
      (fun g => convBwdK l kf kc kh kw oh ow xp (ih + 2 * l.padding.1) (iw + 2 * l.padding.2)
        (ConvBridge.delta a (pre l K ih iw oh ow x) g)) := by
  obtain ⟨hkf, hkc, hkh, hih, hoh⟩ := hl.pos
  have hfun := pre_eq_convPreK (kf := kf) (kh := kh) (kw := kw) (oh := oh) (ow := ow) l x hkc hih xp hp
  have hpt : ∀ K' : V (I4 kf kc kh kw), pre l K' ih iw oh ow x =
      convPreK l kf kc kh kw oh ow xp (ih + 2 * l.padding.1) (iw + 2 * l.padding.2) K' := fun K' => congrFun hfun K'
  have hcf : (fun K' : V (I4 kf kc kh kw) => convFn l a K' ih iw oh ow x) =
      fun K' => fun i => Act.f a (convPreK l kf kc kh kw oh ow xp (ih + 2 * l.padding.1) (iw + 2 * l.padding.2) K' i) := by
    funext K' i; simp only [convFn, hpt]
  rw [hcf]
  simp only [delta_eq, hpt] at hk ⊢
  exact isVJP_elementwise _ K _ (Act.f a) (Act.df a)
    (conv_kernel_isVJP l kf kc kh kw oh ow xp (ih + 2 * l.padding.1) (iw + 2 * l.padding.2) K) hk

/-- the recorded kernel-gradient tensor is the tensor of that vector -/
theorem kernelGrad_T4 (l : Conv ℝ) (xp : V3 ℝ) (d : V (I3 kf oh ow)) (ph pw : ℕ) :
    (⟨.quadruple kf kc kh kw, .quadruple (Conv.kernelGrad l xp (toList3 d) kf kc kh kw oh ow ph pw)⟩ : Tensor ℝ) =
      T4 (convBwdK l kf kc kh kw oh ow xp ph pw d) := by
  have ht4 : toList4 (convBwdK l kf kc kh kw oh ow xp ph pw d) =
      Conv.kernelGrad l xp (toList3 d) kf kc kh kw oh ow ph pw :=
    toList4_of_get _ kf kc kh kw (DimsLemmas.conv_kernelGrad_dims l xp _ kf kc kh kw oh ow _ _)
  simp only [T4, ht4]

/-- **end to end, for a convolution followed by any stack of dense layers, on the model's own folds**:
    `Network.forward` ends in the value of the network function; the last gradient `Network.backward` hands
    on is the gradient of the objective with respect to the input image, and the weight gradient it
    records for the convolution is the gradient with respect to the kernels — every coordinate a partial
    derivative.  Every stride, dilation, padding, kernel size, channel and filter count; away from
    activation kinks. -/
theorem conv_mlp_gradients (n : Network ℝ) (l : Conv ℝ) (a : Act) (K : V (I4 kf kc kh kw)) (hl : IsConv l a K ih iw oh ow)
    (ha : a ≠ .softmax) (hfl : l.flatten = true) (s : Stack (kf * oh * ow) k) (hn : n.layers = .conv l :: s.layers)
    (hc : n.connect = []) (hlb : n.loopbacks = []) (hv : s.Valid) (x : V (I3 kc ih iw))
    (hk : ∀ i, NoKink a (pre l K ih iw oh ow x i)) (hks : s.NoKinks (flat (convFn l a K ih iw oh ow x)))
    (ℓ : Vec k → ℝ) (g : Vec k) (hg : IsGrad ℓ (netFn l a K ih iw s x) g) :
    ∃ t ws bs gs γ ω,
      n.forward (T3 x) = .ok t ∧ t.act.getLast? = some (vecT (netFn l a K ih iw s x)) ∧
      n.backward (vecT g) t = .ok (ws, bs, gs) ∧ gs.getLast? = some (T3 γ) ∧ ws.getLast? = some (.one (T4 ω)) ∧
      IsGrad (ℓ ∘ netFn l a K ih iw s) x γ ∧
      IsGrad (fun K' => ℓ (netFn l a K' ih iw s x)) K ω ∧
      (∀ q, HasDerivAt (fun r => ℓ (netFn l a K ih iw s (Function.update x q r))) (γ q) (x q)) ∧
      (∀ q, HasDerivAt (fun r => ℓ (netFn l a (Function.update K q r) ih iw s x)) (ω q) (K q)) := by
  have hd : ∀ i, HasDerivAt (Act.f a) (Act.df a (pre l K ih iw oh ow x i)) (pre l K ih iw oh ow x i) :=
    fun i => act_hasDerivAt a ha _ (hk i)
  obtain ⟨xp, ws, bs, gs, hp, hb, hgl, hwl⟩ := backward_trace n l a K hl ha s hn hc hv x g
  set x' := flat (convFn l a K ih iw oh ow x) with hx'
  have hstack := Net.vjp s.net x' (Stack.net_ok s x' hv hks)
  -- input
  have hin : IsVJP (netFn l a K ih iw s) x (fun g => convBwd l (toList4 K) kf kc kh kw ih iw oh ow
      (ConvBridge.delta a (pre l K ih iw oh ow x) (unflat (s.net.bwd x' g)))) := by
    have h1 := IsVJP.comp (conv_vjp_input l a K hl x hd) (flat_isVJP (convFn l a K ih iw oh ow x))
    have h2 := IsVJP.comp h1 hstack
    exact h2
  -- kernels
  have hker : IsVJP (fun K' => netFn l a K' ih iw s x) K (fun g =>
      convBwdK l kf kc kh kw oh ow xp (ih + 2 * l.padding.1) (iw + 2 * l.padding.2)
        (ConvBridge.delta a (pre l K ih iw oh ow x) (unflat (s.net.bwd x' g)))) := by
    have h1 := IsVJP.comp (conv_vjp_kernels l a K hl x xp hp hd) (flat_isVJP (convFn l a K ih iw oh ow x))
    have h2 := IsVJP.comp h1 hstack
    exact h2
  have hγ := IsGrad.comp_vjp hin hg
  have hω : IsGrad (fun K' => ℓ (netFn l a K' ih iw s x)) K _ := IsGrad.comp_vjp hker hg
  rw [kernelGrad_T4] at hwl
  refine ⟨_, ws, bs, gs, _, _, forward_trace n l a K hl ha hfl s hn hc hlb hv x, ?_, hb, hgl, hwl, hγ, hω,
    fun q => hγ.partial q, fun q => hω.partial q⟩
  simp only [trace]
  have := DenseBlock.acts_last s x'
  rw [List.getLast?_cons_cons]
  exact this

end ConvNet
