import Proofs.Scatter

/-!
# Max-pool: the assembled output holds, at `(c, i, j)`, the result of scanning the window that starts at
`(i·s₀, j·s₁)` (helper lemmas for C02)

The forward pass is a fold of *assignments* `y[c][h / s₀][w / s₁] = window(c, h, w)` over channels ×
row offsets × column offsets.  Because the row/column offsets are multiples of the strides, the value
written is a function of the target cell, so the order of the writes does not matter.
-/

set_option linter.unusedSectionVars false
set_option linter.unusedVariables false

namespace MaxpoolAssembly
open Scatter

/-- **assignment lemma**: after any list of in-bounds assignments whose value is a function `G` of the
    target cell, a cell holds `G` of itself if some assignment addressed it and its initial value otherwise -/
theorem assign_get {γ : Type} (pos : γ → Nat × Nat × Nat) (G : Nat × Nat × Nat → ℝ) :
    ∀ (us : List γ) (y : V3 ℝ) (c i j : Nat),
    (∀ u ∈ us, InBounds y (pos u).1 (pos u).2.1 (pos u).2.2) →
    L.get3D 0 (us.foldl (fun acc u => L.mod3 (fun _ => G (pos u)) acc (pos u).1 (pos u).2.1 (pos u).2.2) y) c i j =
      if ∃ u ∈ us, pos u = (c, i, j) then G (c, i, j) else L.get3D 0 y c i j
  | [], y, c, i, j, _ => by simp
  | u :: rest, y, c, i, j, hb => by
    simp only [List.foldl_cons]
    rw [assign_get pos G rest _ c i j (fun u' hu' => by
      rw [inBounds_mod3]; exact hb u' (List.mem_cons_of_mem _ hu'))]
    rw [get3D_mod3 _ y _ _ _ c i j (hb u (List.mem_cons_self ..))]
    by_cases hr : ∃ u' ∈ rest, pos u' = (c, i, j)
    · have : ∃ u' ∈ u :: rest, pos u' = (c, i, j) := by
        obtain ⟨u', h1, h2⟩ := hr; exact ⟨u', List.mem_cons_of_mem _ h1, h2⟩
      rw [if_pos hr, if_pos this]
    · rw [if_neg hr]
      by_cases hu : pos u = (c, i, j)
      · have : ∃ u' ∈ u :: rest, pos u' = (c, i, j) := ⟨u, List.mem_cons_self .., hu⟩
        rw [if_pos this, hu]
        simp
      · have : ¬ ∃ u' ∈ u :: rest, pos u' = (c, i, j) := by
          rintro ⟨u', h1, h2⟩
          rcases List.mem_cons.mp h1 with h | h
          · exact hu (h ▸ h2)
          · exact hr ⟨u', h, h2⟩
        rw [if_neg this, if_neg]
        intro h
        apply hu
        rcases hp : pos u with ⟨a, b, d⟩
        rw [hp] at h
        simp only at h
        rw [h.1, h.2.1, h.2.2]

theorem fst_foldl {σ τ γ : Type} (step : σ × τ → γ → σ × τ) (step1 : σ → γ → σ)
    (h : ∀ acc u, (step acc u).1 = step1 acc.1 u) : ∀ (us : List γ) (acc : σ × τ),
    (us.foldl step acc).1 = us.foldl step1 acc.1
  | [], acc => rfl
  | u :: us, acc => by simp only [List.foldl_cons]; rw [fst_foldl step step1 h us, h]

/-- the visited `(channel, row offset, column offset)` triples in loop order -/
def visits (oc : Nat) (hs ws : List Nat) : List (Nat × Nat × Nat) :=
  (List.range oc).flatMap (fun c => hs.flatMap (fun h => ws.map (fun w => (c, h, w))))

/-- the pool as one fold over the visited triples -/
theorem pool_as_fold (l : Maxpool ℝ) (x : V3 ℝ) (ih iw oc oh ow : Nat) (hs ws : List Nat) :
    (Maxpool.pool l x ih iw oc oh ow hs ws).1 =
      (visits oc hs ws).foldl (fun acc (p : Nat × Nat × Nat) =>
        L.mod3 (fun _ => (Maxpool.window l x p.1 p.2.1 p.2.2 ih iw).1) acc p.1 (p.2.1 / l.stride.1) (p.2.2 / l.stride.2))
        (L.replicate3 oc oh ow 0) := by
  unfold Maxpool.pool visits
  rw [fst_foldl (τ := MaxIdx) _ (fun acc c => hs.foldl (fun acc h => ws.foldl (fun acc w =>
      L.mod3 (fun _ => (Maxpool.window l x c h w ih iw).1) acc c (h / l.stride.1) (w / l.stride.2)) acc) acc)]
  · simp only [List.foldl_flatMap, List.foldl_map]
  · intro acc c
    rw [fst_foldl (τ := MaxIdx) _ (fun acc h => ws.foldl (fun acc w =>
      L.mod3 (fun _ => (Maxpool.window l x c h w ih iw).1) acc c (h / l.stride.1) (w / l.stride.2)) acc)]
    intro acc h
    rw [fst_foldl (τ := MaxIdx) _ (fun acc w =>
      L.mod3 (fun _ => (Maxpool.window l x c h w ih iw).1) acc c (h / l.stride.1) (w / l.stride.2))]
    intro acc w
    rfl

theorem mem_stepBy (n s h : Nat) : h ∈ L.stepBy n s ↔ h < n ∧ h % s = 0 := by
  simp [L.stepBy]

theorem inBounds_replicate3 (oc oh ow c i j : Nat) (hc : c < oc) (hi : i < oh) (hj : j < ow) :
    InBounds (L.replicate3 oc oh ow (0 : ℝ)) c i j := by
  unfold InBounds L.replicate3 L.replicate2
  simp [hc, hi, hj, List.getD_eq_getElem?_getD]

/-- **the assembled output**: with positive strides and every written index inside the announced extent
    (what `Maxpool::forward` checks before the loops), the cell `(c, i, j)` of the result holds the scan
    of the window that starts at `(i·s₀, j·s₁)`, for every window that fits (`i·s₀ ≤ ih − kh`, `j·s₁ ≤ iw − kw`) -/
theorem pool_get (l : Maxpool ℝ) (x : V3 ℝ) (ih iw oc oh ow a b : Nat)
    (hs0 : 0 < l.stride.1) (hs1 : 0 < l.stride.2)
    (hfh : ∀ h ∈ L.stepBy (a + 1) l.stride.1, h / l.stride.1 < oh)
    (hfw : ∀ w ∈ L.stepBy (b + 1) l.stride.2, w / l.stride.2 < ow)
    (c i j : Nat) (hc : c < oc) (hi : i * l.stride.1 ≤ a) (hj : j * l.stride.2 ≤ b) :
    L.get3D 0 (Maxpool.pool l x ih iw oc oh ow (L.stepBy (a + 1) l.stride.1) (L.stepBy (b + 1) l.stride.2)).1 c i j =
      (Maxpool.window l x c (i * l.stride.1) (j * l.stride.2) ih iw).1 := by
  rw [pool_as_fold]
  -- the value written is a function of the target cell
  let G : Nat × Nat × Nat → ℝ := fun q => (Maxpool.window l x q.1 (q.2.1 * l.stride.1) (q.2.2 * l.stride.2) ih iw).1
  let pos : Nat × Nat × Nat → Nat × Nat × Nat := fun p => (p.1, p.2.1 / l.stride.1, p.2.2 / l.stride.2)
  have hmem : ∀ p ∈ visits oc (L.stepBy (a + 1) l.stride.1) (L.stepBy (b + 1) l.stride.2),
      p.1 < oc ∧ p.2.1 ∈ L.stepBy (a + 1) l.stride.1 ∧ p.2.2 ∈ L.stepBy (b + 1) l.stride.2 := by
    intro p hp
    simp only [visits, List.mem_flatMap, List.mem_map, List.mem_range] at hp
    obtain ⟨c', hc', h', hh', w', hw', rfl⟩ := hp
    exact ⟨hc', hh', hw'⟩
  have hfold : (visits oc (L.stepBy (a + 1) l.stride.1) (L.stepBy (b + 1) l.stride.2)).foldl
      (fun acc (p : Nat × Nat × Nat) =>
        L.mod3 (fun _ => (Maxpool.window l x p.1 p.2.1 p.2.2 ih iw).1) acc p.1 (p.2.1 / l.stride.1) (p.2.2 / l.stride.2))
      (L.replicate3 oc oh ow 0) =
      (visits oc (L.stepBy (a + 1) l.stride.1) (L.stepBy (b + 1) l.stride.2)).foldl
      (fun acc u => L.mod3 (fun _ => G (pos u)) acc (pos u).1 (pos u).2.1 (pos u).2.2) (L.replicate3 oc oh ow 0) := by
    apply List.foldl_ext
    intro acc p hp
    obtain ⟨_, h1, h2⟩ := hmem p hp
    rw [mem_stepBy] at h1 h2
    have e1 : p.2.1 / l.stride.1 * l.stride.1 = p.2.1 := Nat.div_mul_cancel (Nat.dvd_of_mod_eq_zero h1.2)
    have e2 : p.2.2 / l.stride.2 * l.stride.2 = p.2.2 := Nat.div_mul_cancel (Nat.dvd_of_mod_eq_zero h2.2)
    simp only [G, pos, e1, e2]
  rw [hfold, assign_get pos G _ _ c i j]
  · have hex : ∃ u ∈ visits oc (L.stepBy (a + 1) l.stride.1) (L.stepBy (b + 1) l.stride.2), pos u = (c, i, j) := by
      refine ⟨(c, i * l.stride.1, j * l.stride.2), ?_, ?_⟩
      · simp only [visits, List.mem_flatMap, List.mem_map, List.mem_range]
        refine ⟨c, hc, i * l.stride.1, ?_, j * l.stride.2, ?_, rfl⟩
        · rw [mem_stepBy]; exact ⟨by omega, Nat.mul_mod_left _ _⟩
        · rw [mem_stepBy]; exact ⟨by omega, Nat.mul_mod_left _ _⟩
      · simp only [pos, Nat.mul_div_cancel _ hs0, Nat.mul_div_cancel _ hs1]
    rw [if_pos hex]
  · intro u hu
    obtain ⟨h0, h1, h2⟩ := hmem u hu
    exact inBounds_replicate3 oc oh ow _ _ _ h0 (hfh _ h1) (hfw _ h2)

end MaxpoolAssembly
