import Proofs.VJP
import Mathlib.Analysis.Calculus.FDeriv.Add
import Mathlib.Analysis.Calculus.FDeriv.Mul
import Mathlib.Analysis.SpecialFunctions.ExpDeriv
import Mathlib.Analysis.SpecialFunctions.Log.Deriv
import Mathlib.Algebra.BigOperators.Field

/-!
# The gradient of the cross-entropy of the soft-max outputs with respect to the logits is `p − t`
-/

open BigOperators

namespace VJP

variable {n : ℕ}

noncomputable def expSum (z : Vec n) : ℝ := ∑ k, Real.exp (z k)
noncomputable def softmaxV (z : Vec n) : Vec n := fun i => Real.exp (z i) / expSum z
/-- cross-entropy of the soft-max outputs against the target distribution `t` -/
noncomputable def ceSoftmax (t : Vec n) (z : Vec n) : ℝ := -∑ i, t i * Real.log (softmaxV z i)

theorem expSum_pos [NeZero n] (z : Vec n) : 0 < expSum z :=
  Finset.sum_pos (fun k _ => Real.exp_pos (z k)) Finset.univ_nonempty

theorem ceSoftmax_eq [NeZero n] (t z : Vec n) :
    ceSoftmax t z = -(∑ i, t i * z i) + (∑ i, t i) * Real.log (expSum z) := by
  unfold ceSoftmax softmaxV
  have hS := expSum_pos z
  have : ∀ i, t i * Real.log (Real.exp (z i) / expSum z) = t i * z i - t i * Real.log (expSum z) := by
    intro i
    rw [Real.log_div (Real.exp_pos _).ne' hS.ne', Real.log_exp]; ring
  simp only [this, Finset.sum_sub_distrib, Finset.sum_mul]
  ring

theorem expSum_hasFDerivAt (z : Vec n) :
    HasFDerivAt (expSum (n := n))
      (∑ k, (Real.exp (z k)) • (ContinuousLinearMap.proj (R := ℝ) (φ := fun _ : Fin n => ℝ) k)) z := by
  unfold expSum
  apply HasFDerivAt.fun_sum
  intro k _
  exact (Real.hasDerivAt_exp (z k)).comp_hasFDerivAt z
    ((ContinuousLinearMap.proj (R := ℝ) (φ := fun _ : Fin n => ℝ) k).hasFDerivAt)

/-- **soft-max output layer under cross-entropy**: the gradient with respect to the logits is
    `(Σ t)·p − t`, i.e. `p − t` for a target distribution -/
theorem ceSoftmax_grad [NeZero n] (t z : Vec n) :
    IsGrad (ceSoftmax t) z (fun j => (∑ i, t i) * softmaxV z j - t j) := by
  have hS := expSum_pos z
  have hlin : HasFDerivAt (fun z : Vec n => ∑ i, t i * z i)
      (∑ i, (t i) • (ContinuousLinearMap.proj (R := ℝ) (φ := fun _ : Fin n => ℝ) i)) z := by
    apply HasFDerivAt.fun_sum
    intro i _
    exact ((ContinuousLinearMap.proj (R := ℝ) (φ := fun _ : Fin n => ℝ) i).hasFDerivAt).const_mul (t i)
  have hlog := (Real.hasDerivAt_log hS.ne').comp_hasFDerivAt z (expSum_hasFDerivAt z)
  have hall := (hlin.neg).add (hlog.const_mul (∑ i, t i))
  refine ⟨_, hall.congr_of_eventuallyEq (Filter.Eventually.of_forall (fun y => ceSoftmax_eq t y)), ?_⟩
  intro v
  simp only [dot, softmaxV, FunLike.coe_add, FunLike.coe_neg, Pi.add_apply, Pi.neg_apply, FunLike.coe_smul,
    FunLike.coe_sum, Finset.sum_apply, Pi.smul_apply, ContinuousLinearMap.proj_apply, smul_eq_mul]
  have h1 : ∑ j, ((∑ i, t i) * (Real.exp (z j) / expSum z) - t j) * v j =
      (∑ i, t i) * ((expSum z)⁻¹ * ∑ k, Real.exp (z k) * v k) - ∑ j, t j * v j := by
    simp only [sub_mul, Finset.sum_sub_distrib, Finset.mul_sum]
    congr 1
    apply Finset.sum_congr rfl; intro j _
    rw [div_eq_mul_inv]; ring
  rw [h1]; ring

theorem softmaxV_sum [NeZero n] (z : Vec n) : ∑ i, softmaxV z i = 1 := by
  unfold softmaxV
  rw [← Finset.sum_div]
  exact div_self (expSum_pos z).ne'

end VJP
