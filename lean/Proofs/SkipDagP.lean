import Proofs.SkipDag

/-!
# Skip tables with an outer variable: parameter gradients (C16 / C01)

The setting of `SkipDag`, with the network input and every layer's output allowed to depend additively on an
outer variable `z` (`u₀ = inp z`, `u_{i+1} = φ i z + f i (p i)`).  The sweep additionally accumulates
`bφ i (g_{i+1})`.  With `z` = the parameters of one layer (its input held fixed) this gives: the weight gradient
recorded for a layer — its parameter-VJP applied to the gradient handed to it by the sweep — is the gradient of
the objective with respect to that layer's parameters, for any skip table.
-/

set_option linter.unusedSectionVars false

open BigOperators

namespace SkipDagP
open VJP SkipDag

variable {α ι : Type} [Fintype α] [Fintype ι]

structure PNet (α ι : Type) where
  N : SkipDag.Net ι
  φ : Nat → V α → V ι
  bφ : Nat → V ι → V α
  inp : V α → V ι
  binp : V ι → V α

def U (M : PNet α ι) : Nat → V α → V ι
  | 0, z => M.inp z
  | i + 1, z => M.φ i z + M.N.f i (U M i z + (match M.N.S i with
      | some s => if _ : s ≤ i then U M s z else 0
      | none => 0))

def skipv (M : PNet α ι) (i : Nat) (z : V α) : V ι :=
  match M.N.S i with
  | some s => if s ≤ i then U M s z else 0
  | none => 0

def P (M : PNet α ι) (i : Nat) (z : V α) : V ι := U M i z + skipv M i z

theorem U_succ (M : PNet α ι) (i : Nat) (z : V α) : U M (i + 1) z = M.φ i z + M.N.f i (P M i z) := by
  rw [U]
  simp only [P, skipv]
  congr 3

def B (M : PNet α ι) (z : V α) : Nat → V ι → V α
  | 0, g => M.binp g
  | i + 1, g =>
    M.bφ i g + (B M z i (M.N.b i (P M i z) g) + (match M.N.S i with
      | some s => if _ : s ≤ i then B M z s (M.N.b i (P M i z) g) else 0
      | none => 0))

def skipb (M : PNet α ι) (z : V α) (i : Nat) (δ : V ι) : V α :=
  match M.N.S i with
  | some s => if s ≤ i then B M z s δ else 0
  | none => 0

theorem B_succ (M : PNet α ι) (z : V α) (i : Nat) (g : V ι) :
    B M z (i + 1) g = M.bφ i g + (B M z i (M.N.b i (P M i z) g) + skipb M z i (M.N.b i (P M i z) g)) := by
  rw [B]
  simp only [skipb]
  congr 2

structure Ok (M : PNet α ι) (n : Nat) (z : V α) : Prop where
  layer : ∀ i, i < n → IsVJP (M.N.f i) (P M i z) (M.N.b i (P M i z))
  outer : ∀ i, i < n → IsVJP (M.φ i) z (M.bφ i)
  inp : IsVJP M.inp z M.binp

theorem tree_isVJP (M : PNet α ι) (n : Nat) (z : V α) (hok : Ok M n z) :
    ∀ j, j ≤ n → IsVJP (U M j) z (B M z j) := by
  intro j
  induction j using Nat.strong_induction_on with
  | _ j ih =>
    intro hj
    cases j with
    | zero =>
      have : U M 0 = M.inp := by funext y; rw [U]
      rw [this]
      have hb : B M z 0 = M.binp := by funext g; rw [B]
      rw [hb]
      exact hok.inp
    | succ i =>
      have hU : U M (i + 1) = fun y => M.φ i y + ((M.N.f i) ∘ (fun y => U M i y + skipv M i y)) y := by
        funext y; rw [U_succ]; rfl
      have hB : B M z (i + 1) = fun g => M.bφ i g + ((fun δ => B M z i δ + skipb M z i δ) ∘ (M.N.b i (P M i z))) g := by
        funext g; rw [B_succ]; rfl
      rw [hU, hB]
      have hi := ih i (Nat.lt_succ_self i) (by omega)
      have hs : IsVJP (fun y => skipv M i y) z (fun δ => skipb M z i δ) := by
        unfold skipv skipb
        cases hS : M.N.S i with
        | none => exact isVJP_zero z
        | some s =>
          simp only []
          by_cases hle : s ≤ i
          · simp only [hle, if_true]
            exact ih s (by omega) (by omega)
          · simp only [hle, if_false]
            exact isVJP_zero z
      exact IsVJP.add (hok.outer i (by omega)) (IsVJP.comp (IsVJP.add hi hs) (hok.layer i (by omega)))

/-- the sweep: gradient handed on, processed-input gradients, accumulated outer gradient -/
def sweep (M : PNet α ι) (tg : Nat → List Nat) (z : V α) (n : Nat) (g : V ι) : Nat → V ι × (Nat → V ι) × V α
  | 0 => (g, fun _ => 0, 0)
  | k + 1 =>
    let st := sweep M tg z n g k
    let i := n - (k + 1)
    let δ := M.N.b i (P M i z) st.1
    let D := fun t => if t = i then δ else st.2.1 t
    (δ + ((tg i).map D).sum, D, st.2.2 + M.bφ i st.1)

def cross (M : PNet α ι) (z : V α) (n : Nat) (D : Nat → V ι) (i : Nat) : V α :=
  ∑ t ∈ Finset.range n, if i ≤ t then (match M.N.S t with
      | some s => if s < i then B M z s (D t) else 0
      | none => 0) else 0

theorem targets_sum (M : PNet α ι) (n : Nat) (tg : Nat → List Nat) (htg : Targets M.N n tg) (s : Nat) (F : Nat → V ι) :
    ((tg s).map F).sum = ∑ t ∈ Finset.range n, if M.N.S t = some s then F t else 0 :=
  SkipDag.targets_sum M.N n tg htg s F

theorem alg (Bd sk X1 s φb SB X0 : V α) (_u : Unit) (h : SB + X0 = X1 + sk) :
    φb + (Bd + sk) + X1 + s = Bd + SB + X0 + (s + φb) := by
  rw [add_assoc Bd SB X0, h]
  abel

theorem sweep_invariant (M : PNet α ι) (tg : Nat → List Nat) (z : V α) (n : Nat) (g : V ι)
    (hok : Ok M n z) (hS : ∀ i s, M.N.S i = some s → s ≤ i) (htg : Targets M.N n tg) :
    ∀ k, k ≤ n →
      B M z n g = B M z (n - k) (sweep M tg z n g k).1 + cross M z n (sweep M tg z n g k).2.1 (n - k) +
        (sweep M tg z n g k).2.2 := by
  classical
  intro k
  induction k with
  | zero =>
    intro _
    have : cross M z n (fun _ => (0 : V ι)) n = 0 := by
      unfold cross
      apply Finset.sum_eq_zero
      intro t ht
      rw [Finset.mem_range] at ht
      rw [if_neg (by omega)]
    simp only [sweep, Nat.sub_zero, this, add_zero]
  | succ k ih =>
    intro hk
    have ih := ih (by omega)
    obtain ⟨j, hj⟩ : ∃ j, n - (k + 1) = j := ⟨_, rfl⟩
    have hj1 : n - k = j + 1 := by omega
    have hjn : j < n := by omega
    rw [hj1] at ih
    rw [ih]
    simp only [sweep, hj]
    set st := sweep M tg z n g k with hst
    set δ := M.N.b j (P M j z) st.1 with hδ
    set D := (fun t => if t = j then δ else st.2.1 t) with hD
    have hlin := tree_isVJP M n z hok j (by omega)
    rw [B_succ, SkipDag.IsVJP.map_add hlin, targets_sum M n tg htg j D, SkipDag.IsVJP.map_sum hlin]
    have hpt : ∀ t ∈ Finset.range n,
        (B M z j (if M.N.S t = some j then D t else 0) +
          (if j ≤ t then (match M.N.S t with
            | some s => if s < j then B M z s (D t) else 0
            | none => 0) else 0)) =
        (if j + 1 ≤ t then (match M.N.S t with
            | some s => if s < j + 1 then B M z s (st.2.1 t) else 0
            | none => 0) else 0) + (if t = j then skipb M z j δ else 0) := by
      intro t _
      by_cases htj : t = j
      · subst htj
        have hDt : D t = δ := by simp [hD]
        rw [if_neg (show ¬ (t + 1 ≤ t) by omega), if_pos (rfl : t = t), if_pos (Nat.le_refl t), zero_add, hDt]
        unfold skipb
        cases hSt : M.N.S t with
        | none => simp [SkipDag.IsVJP.map_zero hlin]
        | some s =>
          have hle := hS t s hSt
          simp only [hle, if_true]
          by_cases hst' : s = t
          · subst hst'
            simp
          · rw [if_neg (show ¬ (some s = some t) from fun h => hst' (Option.some.inj h)), SkipDag.IsVJP.map_zero hlin, zero_add,
              if_pos (show s < t by omega)]
      · have hDt : D t = st.2.1 t := by simp [hD, htj]
        rw [if_neg htj, add_zero, hDt]
        by_cases hlt : t < j
        · rw [if_neg (show ¬ (j ≤ t) by omega), if_neg (show ¬ (j + 1 ≤ t) by omega)]
          have : M.N.S t ≠ some j := by
            intro h
            have := hS t j h
            omega
          rw [if_neg this, SkipDag.IsVJP.map_zero hlin, add_zero]
        · rw [if_pos (show j ≤ t by omega), if_pos (show j + 1 ≤ t by omega)]
          cases hSt : M.N.S t with
          | none => simp [SkipDag.IsVJP.map_zero hlin]
          | some s =>
            simp only []
            by_cases hsj : s = j
            · subst hsj
              simp
            · rw [if_neg (show ¬ (some s = some j) from fun h => hsj (Option.some.inj h)), SkipDag.IsVJP.map_zero hlin, zero_add]
              by_cases hlt' : s < j
              · rw [if_pos hlt', if_pos (show s < j + 1 by omega)]
              · rw [if_neg hlt', if_neg (show ¬ (s < j + 1) by omega)]
    have hsum := Finset.sum_congr rfl hpt
    rw [Finset.sum_add_distrib, Finset.sum_add_distrib, Finset.sum_ite_eq' (Finset.range n) j, if_pos (Finset.mem_range.mpr hjn)] at hsum
    unfold cross
    exact alg _ _ _ _ _ _ _ () hsum

/-- **the sweep computes the transposed Jacobian in the outer variable** -/
theorem sweep_isVJP (M : PNet α ι) (tg : Nat → List Nat) (z : V α) (n : Nat)
    (hok : Ok M n z) (hS : ∀ i s, M.N.S i = some s → s ≤ i) (htg : Targets M.N n tg) :
    IsVJP (U M n) z (fun g => M.binp (sweep M tg z n g n).1 + (sweep M tg z n g n).2.2) := by
  have h := tree_isVJP M n z hok n (Nat.le_refl _)
  have heq : B M z n = fun g => M.binp (sweep M tg z n g n).1 + (sweep M tg z n g n).2.2 := by
    funext g
    rw [sweep_invariant M tg z n g hok hS htg n (Nat.le_refl _), Nat.sub_self]
    have : cross M z n (sweep M tg z n g n).2.1 0 = 0 := by
      unfold cross
      apply Finset.sum_eq_zero
      intro t _
      rw [if_pos (Nat.zero_le _)]
      cases M.N.S t with
      | none => rfl
      | some s => simp
    rw [this, add_zero, B]
  rw [← heq]
  exact h

/-! ### the parameters of one layer as the outer variable -/

theorem isVJP_const (z : V α) (c : V ι) : IsVJP (fun _ : V α => c) z (fun _ => 0) := by
  refine ⟨0, hasFDerivAt_const c z, ?_⟩
  intro g v
  simp [dot]

/-- the network `N` on the fixed input `x`, as a function of the parameters of layer `c`: that layer's output
    is `lay θ` (its processed input does not depend on its own parameters), everything else is unchanged -/
def paramNet (N : SkipDag.Net ι) (x : V ι) (c : Nat) (lay : V α → V ι) (bθ : V ι → V α) : PNet α ι where
  N := { f := fun i => if i = c then (fun _ => 0) else N.f i,
         b := fun i p g => if i = c then 0 else N.b i p g,
         S := N.S }
  φ := fun i => if i = c then lay else fun _ => 0
  bφ := fun i => if i = c then bθ else fun _ => 0
  inp := fun _ => x
  binp := fun _ => 0

section
variable (N : SkipDag.Net ι) (x : V ι) (c : Nat) (lay : V α → V ι) (bθ : V ι → V α) (θ₀ : V α)
  (hlay : lay θ₀ = N.f c (SkipDag.P N c x))

/-- the values of the parametrised network: layer `c` outputs `lay θ`, every other layer is unchanged -/
theorem param_U_spec (θ : V α) :
    U (paramNet N x c lay bθ) 0 θ = x ∧
    ∀ i, U (paramNet N x c lay bθ) (i + 1) θ =
      if i = c then lay θ else N.f i (P (paramNet N x c lay bθ) i θ) := by
  refine ⟨by rw [U]; rfl, fun i => ?_⟩
  rw [U_succ]
  by_cases hic : i = c
  · simp only [paramNet, hic, if_true, add_zero]
  · simp only [paramNet, if_neg hic, zero_add]

include hlay in
theorem param_values : ∀ j, U (paramNet N x c lay bθ) j θ₀ = SkipDag.U N j x := by
  intro j
  induction j using Nat.strong_induction_on with
  | _ j ih =>
    cases j with
    | zero => rw [U, SkipDag.U]; rfl
    | succ i =>
      have hP : P (paramNet N x c lay bθ) i θ₀ = SkipDag.P N i x := by
        simp only [P, SkipDag.P, skipv, SkipDag.skipv, ih i (Nat.lt_succ_self i)]
        congr 1
        show (match N.S i with | some s => if s ≤ i then U (paramNet N x c lay bθ) s θ₀ else 0 | none => 0) = _
        cases hS : N.S i with
        | none => rfl
        | some s =>
          simp only []
          by_cases hle : s ≤ i
          · simp only [hle, if_true]; exact ih s (by omega)
          · simp only [hle, if_false]
      rw [U_succ, SkipDag.U_succ, hP]
      by_cases hic : i = c
      · subst hic
        simp only [paramNet, if_true, hlay, add_zero]
      · simp only [paramNet, if_neg hic, zero_add]

include hlay in
theorem param_P (j : Nat) : P (paramNet N x c lay bθ) j θ₀ = SkipDag.P N j x := by
  simp only [P, SkipDag.P, skipv, SkipDag.skipv, param_values N x c lay bθ θ₀ hlay]
  rfl

include hlay in
theorem param_ok (n : Nat) (hok : SkipDag.Ok N n x) (hθ : IsVJP lay θ₀ bθ) : Ok (paramNet N x c lay bθ) n θ₀ where
  layer i hi := by
    rw [param_P N x c lay bθ θ₀ hlay]
    by_cases hic : i = c
    · simp only [paramNet, hic, if_true]
      exact SkipDag.isVJP_zero _
    · simp only [paramNet, if_neg hic]
      exact hok i hi
  outer i hi := by
    by_cases hic : i = c
    · simp only [paramNet, hic, if_true]; exact hθ
    · simp only [paramNet, if_neg hic]; exact SkipDag.isVJP_zero _
  inp := isVJP_const θ₀ x

include hlay in
/-- above the layer, the sweep is the sweep of `N`; nothing has been accumulated yet -/
theorem param_sweep_above (tg : Nat → List Nat) (n : Nat) (g : V ι) : ∀ k, k + c + 1 ≤ n →
    (sweep (paramNet N x c lay bθ) tg θ₀ n g k).1 = (SkipDag.sweep N tg x n g k).1 ∧
    (sweep (paramNet N x c lay bθ) tg θ₀ n g k).2.1 = (SkipDag.sweep N tg x n g k).2 ∧
    (sweep (paramNet N x c lay bθ) tg θ₀ n g k).2.2 = 0 := by
  intro k
  induction k with
  | zero => intro _; exact ⟨rfl, rfl, rfl⟩
  | succ k ih =>
    intro hk
    obtain ⟨h1, h2, h3⟩ := ih (by omega)
    have hic : n - (k + 1) ≠ c := by omega
    simp only [sweep, SkipDag.sweep, h1, h2, h3, param_P N x c lay bθ θ₀ hlay]
    simp only [paramNet, if_neg hic, add_zero, and_self]

include hlay in
/-- from the layer on, what has been accumulated is the layer's parameter-VJP of the gradient handed to it -/
theorem param_sweep_acc (tg : Nat → List Nat) (n : Nat) (g : V ι) (hc : c < n) : ∀ k, n - c ≤ k → k ≤ n →
    (sweep (paramNet N x c lay bθ) tg θ₀ n g k).2.2 = bθ (SkipDag.sweep N tg x n g (n - (c + 1))).1 := by
  intro k
  induction k with
  | zero => intro h; omega
  | succ k ih =>
    intro h1 h2
    rcases Nat.lt_or_ge k (n - c) with h3 | h3
    · have hk : k = n - (c + 1) := by omega
      obtain ⟨e1, _, e3⟩ := param_sweep_above N x c lay bθ θ₀ hlay tg n g k (by omega)
      have hic : n - (k + 1) = c := by omega
      simp only [sweep, e1, e3, hic, zero_add]
      simp only [paramNet, if_true, hk]
    · have := ih h3 (by omega)
      have hic : n - (k + 1) ≠ c := by omega
      simp only [sweep, this]
      simp only [paramNet, if_neg hic, add_zero]

include hlay in
/-- **the weight gradient of a layer inside any skip table**: the layer's parameter-VJP applied to the gradient
    the sweep hands to it is the transposed Jacobian of the network output as a function of that layer's
    parameters -/
theorem param_gradient (tg : Nat → List Nat) (n : Nat) (hc : c < n)
    (hok : SkipDag.Ok N n x) (hS : ∀ i s, N.S i = some s → s ≤ i) (htg : Targets N n tg) (hθ : IsVJP lay θ₀ bθ) :
    IsVJP (U (paramNet N x c lay bθ) n) θ₀ (fun g => bθ (SkipDag.sweep N tg x n g (n - (c + 1))).1) := by
  have h := sweep_isVJP (paramNet N x c lay bθ) tg θ₀ n (param_ok N x c lay bθ θ₀ hlay n hok hθ) hS htg
  have heq : (fun g => (paramNet N x c lay bθ).binp (sweep (paramNet N x c lay bθ) tg θ₀ n g n).1 +
      (sweep (paramNet N x c lay bθ) tg θ₀ n g n).2.2) = fun g => bθ (SkipDag.sweep N tg x n g (n - (c + 1))).1 := by
    funext g
    rw [param_sweep_acc N x c lay bθ θ₀ hlay tg n g hc n (by omega) (Nat.le_refl _)]
    simp [paramNet]
  rw [heq] at h
  exact h

end

end SkipDagP
