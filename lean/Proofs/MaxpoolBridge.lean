import Proofs.MaxpoolAssembly
import Proofs.MaxpoolVJP
import Proofs.MaxDims
import Proofs.Flat3

/-!
# `Maxpool.forward` / `Maxpool.backward` of the model on `I3`-indexed vectors (helper lemmas for C01)
-/

set_option linter.unusedSectionVars false
set_option linter.unusedVariables false

open Finset BigOperators

namespace MaxpoolBridge
open VJP ConvVJP ConvBridge MaxpoolVJP L Scalar RealScalar

/-! ### assignments into a nested list of any element type -/

section generic
variable {β : Type}

def InB (y : List (List (List β))) (c i j : Nat) : Prop :=
  c < y.length ∧ i < (y.getD c []).length ∧ j < ((y.getD c []).getD i []).length

theorem get3D_mod3' (d : β) (g : β → β) (y : List (List (List β))) (c i j c' i' j' : Nat) (hb : InB y c i j) :
    get3D d (mod3 g y c i j) c' i' j' =
      if c = c' ∧ i = i' ∧ j = j' then g (get3D d y c' i' j') else get3D d y c' i' j' := by
  obtain ⟨hc, hi, hj⟩ := hb
  rw [get3D_eq, get3D_eq]
  unfold mod3
  rw [Scatter.getD_modAt]
  by_cases h1 : c = c'
  · subst h1
    rw [if_pos ⟨rfl, hc⟩, Scatter.getD_modAt]
    by_cases h2 : i = i'
    · subst h2
      rw [if_pos ⟨rfl, hi⟩, Scatter.getD_modAt]
      by_cases h3 : j = j'
      · subst h3
        rw [if_pos ⟨rfl, hj⟩, if_pos ⟨rfl, rfl, rfl⟩]
      · rw [if_neg (fun h => h3 h.1), if_neg (fun h => h3 h.2.2)]
    · rw [if_neg (fun h => h2 h.1), if_neg (fun h => h2 h.2.1)]
  · rw [if_neg (fun h => h1 h.1), if_neg (fun h => h1 h.1)]

theorem inB_mod3 (g : β → β) (y : List (List (List β))) (c i j c' i' j' : Nat) :
    InB (mod3 g y c i j) c' i' j' ↔ InB y c' i' j' := by
  have hrow : ∀ r : List β, (modAt g r j).length = r.length := fun r => Scatter.length_modAt g r j
  have hmat : ∀ m : List (List β), (modAt (fun r => modAt g r j) m i).length = m.length :=
    fun m => Scatter.length_modAt _ m i
  have h2 : ((mod3 g y c i j).getD c' []).length = (y.getD c' []).length :=
    Scatter.getD_modAt_length _ hmat y c c'
  have h3 : (((mod3 g y c i j).getD c' []).getD i' []).length = ((y.getD c' []).getD i' []).length := by
    unfold mod3
    rw [Scatter.getD_modAt]
    split
    · exact Scatter.getD_modAt_length _ hrow _ i i'
    · rfl
  unfold InB
  rw [h2, h3]
  unfold mod3
  rw [Scatter.length_modAt]

/-- after any list of in-bounds assignments whose value is a function `G` of the target cell, a cell holds
    `G` of itself if some assignment addressed it and its initial value otherwise -/
theorem assign_get' {γ : Type} (d : β) (pos : γ → Nat × Nat × Nat) (G : Nat × Nat × Nat → β) :
    ∀ (us : List γ) (y : List (List (List β))) (c i j : Nat),
    (∀ u ∈ us, InB y (pos u).1 (pos u).2.1 (pos u).2.2) →
    get3D d (us.foldl (fun acc u => mod3 (fun _ => G (pos u)) acc (pos u).1 (pos u).2.1 (pos u).2.2) y) c i j =
      if ∃ u ∈ us, pos u = (c, i, j) then G (c, i, j) else get3D d y c i j
  | [], y, c, i, j, _ => by simp
  | u :: rest, y, c, i, j, hb => by
    simp only [List.foldl_cons]
    rw [assign_get' d pos G rest _ c i j (fun u' hu' => by
      rw [inB_mod3]; exact hb u' (List.mem_cons_of_mem _ hu'))]
    rw [get3D_mod3' d _ y _ _ _ c i j (hb u (List.mem_cons_self ..))]
    by_cases hr : ∃ u' ∈ rest, pos u' = (c, i, j)
    · have : ∃ u' ∈ u :: rest, pos u' = (c, i, j) := by
        obtain ⟨u', h1, h2⟩ := hr; exact ⟨u', List.mem_cons_of_mem _ h1, h2⟩
      rw [if_pos hr, if_pos this]
    · rw [if_neg hr]
      by_cases hu : pos u = (c, i, j)
      · have : ∃ u' ∈ u :: rest, pos u' = (c, i, j) := ⟨u, List.mem_cons_self .., hu⟩
        rw [if_pos this, hu]
        simp
      · have : ¬ ∃ u' ∈ u :: rest, pos u' = (c, i, j) := by
          rintro ⟨u', h1, h2⟩
          rcases List.mem_cons.mp h1 with h | h
          · exact hu (h ▸ h2)
          · exact hr ⟨u', h, h2⟩
        rw [if_neg this, if_neg]
        intro h
        apply hu
        rcases hp : pos u with ⟨a, b, e⟩
        rw [hp] at h
        simp only at h
        rw [h.1, h.2.1, h.2.2]

theorem snd_foldl {σ τ γ : Type} (step : σ × τ → γ → σ × τ) (step2 : τ → γ → τ)
    (h : ∀ acc u, (step acc u).2 = step2 acc.2 u) : ∀ (us : List γ) (acc : σ × τ),
    (us.foldl step acc).2 = us.foldl step2 acc.2
  | [], acc => rfl
  | u :: us, acc => by simp only [List.foldl_cons]; rw [snd_foldl step step2 h us, h]

end generic

/-! ### the recorded indices of the pool -/

open MaxpoolAssembly in
theorem pool_snd_as_fold (l : Maxpool ℝ) (x : V3 ℝ) (ih iw oc oh ow : Nat) (hs ws : List Nat) :
    (Maxpool.pool l x ih iw oc oh ow hs ws).2 =
      (visits oc hs ws).foldl (fun acc (p : Nat × Nat × Nat) =>
        L.mod3 (fun _ => [(Maxpool.window l x p.1 p.2.1 p.2.2 ih iw).2]) acc p.1 (p.2.1 / l.stride.1) (p.2.2 / l.stride.2))
        (List.replicate oc (List.replicate oh (List.replicate ow [(0, 0)]))) := by
  unfold Maxpool.pool visits
  rw [snd_foldl (σ := V3 ℝ) _ (fun acc c => hs.foldl (fun acc h => ws.foldl (fun acc w =>
      L.mod3 (fun _ => [(Maxpool.window l x c h w ih iw).2]) acc c (h / l.stride.1) (w / l.stride.2)) acc) acc)]
  · simp only [List.foldl_flatMap, List.foldl_map]
  · intro acc c
    rw [snd_foldl (σ := V3 ℝ) _ (fun acc h => ws.foldl (fun acc w =>
      L.mod3 (fun _ => [(Maxpool.window l x c h w ih iw).2]) acc c (h / l.stride.1) (w / l.stride.2)) acc)]
    intro acc h
    rw [snd_foldl (σ := V3 ℝ) _ (fun acc w =>
      L.mod3 (fun _ => [(Maxpool.window l x c h w ih iw).2]) acc c (h / l.stride.1) (w / l.stride.2))]
    intro acc w
    rfl

theorem inB_replicate {β : Type} (oc oh ow c i j : Nat) (v : β) (hc : c < oc) (hi : i < oh) (hj : j < ow) :
    InB (List.replicate oc (List.replicate oh (List.replicate ow v))) c i j := by
  unfold InB
  simp [hc, hi, hj, List.getD_eq_getElem?_getD]

open MaxpoolAssembly in
/-- the recorded index list at `(c, i, j)` is the one position the window scan reports -/
theorem pool_get_idx (l : Maxpool ℝ) (x : V3 ℝ) (ih iw oc oh ow a b : Nat)
    (hs0 : 0 < l.stride.1) (hs1 : 0 < l.stride.2)
    (hfh : ∀ h ∈ L.stepBy (a + 1) l.stride.1, h / l.stride.1 < oh)
    (hfw : ∀ w ∈ L.stepBy (b + 1) l.stride.2, w / l.stride.2 < ow)
    (c i j : Nat) (hc : c < oc) (hi : i * l.stride.1 ≤ a) (hj : j * l.stride.2 ≤ b) :
    L.get3D [] (Maxpool.pool l x ih iw oc oh ow (L.stepBy (a + 1) l.stride.1) (L.stepBy (b + 1) l.stride.2)).2 c i j =
      [(Maxpool.window l x c (i * l.stride.1) (j * l.stride.2) ih iw).2] := by
  rw [pool_snd_as_fold]
  let G : Nat × Nat × Nat → List (Nat × Nat) := fun q => [(Maxpool.window l x q.1 (q.2.1 * l.stride.1) (q.2.2 * l.stride.2) ih iw).2]
  let pos : Nat × Nat × Nat → Nat × Nat × Nat := fun p => (p.1, p.2.1 / l.stride.1, p.2.2 / l.stride.2)
  have hmem : ∀ p ∈ visits oc (L.stepBy (a + 1) l.stride.1) (L.stepBy (b + 1) l.stride.2),
      p.1 < oc ∧ p.2.1 ∈ L.stepBy (a + 1) l.stride.1 ∧ p.2.2 ∈ L.stepBy (b + 1) l.stride.2 := by
    intro p hp
    simp only [visits, List.mem_flatMap, List.mem_map, List.mem_range] at hp
    obtain ⟨c', hc', h', hh', w', hw', rfl⟩ := hp
    exact ⟨hc', hh', hw'⟩
  have hfold : (visits oc (L.stepBy (a + 1) l.stride.1) (L.stepBy (b + 1) l.stride.2)).foldl
      (fun acc (p : Nat × Nat × Nat) =>
        L.mod3 (fun _ => [(Maxpool.window l x p.1 p.2.1 p.2.2 ih iw).2]) acc p.1 (p.2.1 / l.stride.1) (p.2.2 / l.stride.2))
      (List.replicate oc (List.replicate oh (List.replicate ow [(0, 0)]))) =
      (visits oc (L.stepBy (a + 1) l.stride.1) (L.stepBy (b + 1) l.stride.2)).foldl
      (fun acc u => L.mod3 (fun _ => G (pos u)) acc (pos u).1 (pos u).2.1 (pos u).2.2)
      (List.replicate oc (List.replicate oh (List.replicate ow [(0, 0)]))) := by
    apply List.foldl_ext
    intro acc p hp
    obtain ⟨_, h1, h2⟩ := hmem p hp
    rw [mem_stepBy] at h1 h2
    have e1 : p.2.1 / l.stride.1 * l.stride.1 = p.2.1 := Nat.div_mul_cancel (Nat.dvd_of_mod_eq_zero h1.2)
    have e2 : p.2.2 / l.stride.2 * l.stride.2 = p.2.2 := Nat.div_mul_cancel (Nat.dvd_of_mod_eq_zero h2.2)
    simp only [G, pos, e1, e2]
  rw [hfold, assign_get' [] pos G _ _ c i j]
  · have hex : ∃ u ∈ visits oc (L.stepBy (a + 1) l.stride.1) (L.stepBy (b + 1) l.stride.2), pos u = (c, i, j) := by
      refine ⟨(c, i * l.stride.1, j * l.stride.2), ?_, ?_⟩
      · simp only [visits, List.mem_flatMap, List.mem_map, List.mem_range]
        refine ⟨c, hc, i * l.stride.1, ?_, j * l.stride.2, ?_, rfl⟩
        · rw [mem_stepBy]; exact ⟨by omega, Nat.mul_mod_left _ _⟩
        · rw [mem_stepBy]; exact ⟨by omega, Nat.mul_mod_left _ _⟩
      · simp only [pos, Nat.mul_div_cancel _ hs0, Nat.mul_div_cancel _ hs1]
    rw [if_pos hex]
  · intro u hu
    obtain ⟨h0, h1, h2⟩ := hmem u hu
    exact inB_replicate oc oh ow _ _ _ _ h0 (hfh _ h1) (hfw _ h2)

/-! ### the layer -/

variable {ic ih iw oh ow : ℕ}

/-- the model layer is a max-pool with announced shapes `ic × ih × iw → ic × oh × ow` following the size
    formula, outside loop connections -/
structure IsPool (l : Maxpool ℝ) (ic ih iw oh ow : ℕ) : Prop where
  inputs : l.inputs = .triple ic ih iw
  outputs : l.outputs = .triple ic oh ow
  s0 : 0 < l.stride.1
  s1 : 0 < l.stride.2
  kh : l.kernel.1 ≤ ih
  kw : l.kernel.2 ≤ iw
  oh_eq : oh = (ih - l.kernel.1) / l.stride.1 + 1
  ow_eq : ow = (iw - l.kernel.2) / l.stride.2 + 1
  loops : l.loops = 1
  pos : 0 < ic ∧ 0 < ih ∧ 0 < iw

/-- the pooled value at `(c, i, j)`: the scan of the window that starts at `(i·s₀, j·s₁)` -/
noncomputable def poolFn (l : Maxpool ℝ) (ih iw oh ow : ℕ) (x : V (I3 ic ih iw)) : V (I3 ic oh ow) := fun q =>
  (Maxpool.window l (toList3 x) q.1.val (q.2.1.val * l.stride.1) (q.2.2.val * l.stride.2) ih iw).1

/-- the recorded arg-max positions -/
noncomputable def idxOf (l : Maxpool ℝ) (ih iw oh ow : ℕ) (x : V (I3 ic ih iw)) : MaxIdx :=
  (Maxpool.pool l (toList3 x) ih iw ic oh ow (L.stepBy (ih - l.kernel.1 + 1) l.stride.1)
    (L.stepBy (iw - l.kernel.2 + 1) l.stride.2)).2

theorem fit (s a oh : ℕ) (hs : 0 < s) (hoh : oh = a / s + 1) : ∀ h ∈ L.stepBy (a + 1) s, h / s < oh := by
  intro h hh
  rw [MaxpoolAssembly.mem_stepBy] at hh
  rw [hoh]
  have : h / s ≤ a / s := Nat.div_le_div_right (by omega)
  omega

theorem fits_window (s a oh i : ℕ) (hs : 0 < s) (hoh : oh = a / s + 1) (hi : i < oh) : i * s ≤ a := by
  rw [hoh] at hi
  have : i ≤ a / s := by omega
  calc i * s ≤ a / s * s := Nat.mul_le_mul_right _ this
    _ ≤ a := Nat.div_mul_le_self a s

theorem pool_fst_eq (l : Maxpool ℝ) (hl : IsPool l ic ih iw oh ow) (x : V (I3 ic ih iw)) :
    (Maxpool.pool l (toList3 x) ih iw ic oh ow (L.stepBy (ih - l.kernel.1 + 1) l.stride.1)
      (L.stepBy (iw - l.kernel.2 + 1) l.stride.2)).1 = toList3 (poolFn l ih iw oh ow x) := by
  apply dims3_ext _ _ ic oh ow (DimsLemmas.maxpool_pool_dims l _ ih iw ic oh ow _ _) (toList3_dims _)
  intro c i j hc hi hj
  rw [MaxpoolAssembly.pool_get l (toList3 x) ih iw ic oh ow _ _ hl.s0 hl.s1
    (fit _ _ _ hl.s0 hl.oh_eq) (fit _ _ _ hl.s1 hl.ow_eq) c i j hc
    (fits_window _ _ _ _ hl.s0 hl.oh_eq hi) (fits_window _ _ _ _ hl.s1 hl.ow_eq hj)]
  rw [get3D_toList3, dif_pos ⟨hc, hi, hj⟩]
  rfl

theorem forward_gen (l : Maxpool ℝ) (hl : IsPool l ic ih iw oh ow) (x : V (I3 ic ih iw)) :
    l.forward (T3 x) = match (if l.flatten then (T3 (poolFn l ih iw oh ow x)).flatten else .ok (T3 (poolFn l ih iw oh ow x))) with
      | .error e => .error e
      | .ok post => .ok (T3 (poolFn l ih iw oh ow x), post, idxOf l ih iw oh ow x) := by
  obtain ⟨hic, hih, hiw⟩ := hl.pos
  have hoh : 0 < oh := by rw [hl.oh_eq]; exact Nat.succ_pos _
  unfold Maxpool.forward
  rw [entry_T3 x hic hih, hl.outputs]
  have hsub1 : checkedSub ih l.kernel.1 = .ok (ih - l.kernel.1) := by simp [checkedSub, hl.kh]
  have hsub2 : checkedSub iw l.kernel.2 = .ok (iw - l.kernel.2) := by simp [checkedSub, hl.kw]
  simp only [hsub1, hsub2]
  have hstr : ¬ (l.stride.1 = 0 ∨ l.stride.2 = 0) := by have := hl.s0; have := hl.s1; omega
  rw [if_neg hstr]
  have hguard : ¬ (ic > (toList3 x).length ∨ (ic > 0 ∧
      ((L.stepBy (ih - l.kernel.1 + 1) l.stride.1).any (fun h => h / l.stride.1 ≥ oh) ∨
       (L.stepBy (iw - l.kernel.2 + 1) l.stride.2).any (fun w => w / l.stride.2 ≥ ow)))) := by
    rw [(toList3_dims x).1]
    rintro (h | ⟨_, h | h⟩)
    · omega
    · rw [List.any_eq_true] at h
      obtain ⟨y, hy, hge⟩ := h
      have := fit _ _ _ hl.s0 hl.oh_eq y hy
      simp at hge; omega
    · rw [List.any_eq_true] at h
      obtain ⟨y, hy, hge⟩ := h
      have := fit _ _ _ hl.s1 hl.ow_eq y hy
      simp at hge; omega
  rw [if_neg hguard]
  simp only [pool_fst_eq l hl x, triple_toList3 _ hic hoh, idxOf]
  cases l.flatten
  · rfl
  · simp only [↓reduceIte]
    cases (T3 (poolFn l ih iw oh ow x)).flatten <;> rfl

/-! ### backward -/

theorem pool_snd_dims (l : Maxpool ℝ) (x : V3 ℝ) (ih iw oc oh ow : Nat) (hs ws : List Nat) :
    Dims3 (Maxpool.pool l x ih iw oc oh ow hs ws).2 oc oh ow := by
  unfold Maxpool.pool
  apply DimsLemmas.fold_inv (fun s : V3 ℝ × MaxIdx => Dims3 s.2 oc oh ow) _ _ _ _
    (DimsLemmas.dims3_replicate3 oc oh ow [((0 : Nat), (0 : Nat))])
  intro s c hs
  apply DimsLemmas.fold_inv (fun s : V3 ℝ × MaxIdx => Dims3 s.2 oc oh ow) _ _ _ _ hs
  intro s hh hs
  apply DimsLemmas.fold_inv (fun s : V3 ℝ × MaxIdx => Dims3 s.2 oc oh ow) _ _ _ _ hs
  intro s w hs
  exact DimsLemmas.dims3_mod3 _ s.2 oc oh ow _ _ _ hs

theorem get?_chain {β : Type} (d : β) (t : List (List (List β))) (c h w a i j : ℕ) (ht : Dims3 t c h w)
    (ha : a < c) (hi : i < h) (hj : j < w) :
    ∃ mc mh v, L.get? t a = some mc ∧ L.get? mc i = some mh ∧ L.get? mh j = some v ∧ L.get3D d t a i j = v := by
  have h1 : a < t.length := by rw [ht.1]; exact ha
  have hmc := ht.2 t[a] (List.getElem_mem _)
  have h2 : i < t[a].length := by rw [hmc.1]; exact hi
  have hmh := hmc.2 t[a][i] (List.getElem_mem _)
  have h3 : j < t[a][i].length := by rw [hmh]; exact hj
  refine ⟨t[a], t[a][i], t[a][i][j], ?_, ?_, ?_, ?_⟩
  · rw [L.get?_eq, List.getElem?_eq_getElem h1]
  · rw [L.get?_eq, List.getElem?_eq_getElem h2]
  · rw [L.get?_eq, List.getElem?_eq_getElem h3]
  · unfold L.get3D
    simp only [L.get?_eq, List.getElem?_eq_getElem h1, List.getElem?_eq_getElem h2, List.getElem?_eq_getElem h3,
      Option.getD_some]

/-- every recorded position lies inside the input -/
theorem idx_in_bounds (l : Maxpool ℝ) (hl : IsPool l ic ih iw oh ow) (x : V (I3 ic ih iw)) (c i j : ℕ)
    (hc : c < ic) (hi : i < oh) (hj : j < ow) :
    ∀ q ∈ L.get3D [] (idxOf l ih iw oh ow x) c i j, q.1 < ih ∧ q.2 < iw := by
  obtain ⟨hic, hih, hiw⟩ := hl.pos
  intro q hq
  unfold idxOf at hq
  rw [pool_get_idx l (toList3 x) ih iw ic oh ow _ _ hl.s0 hl.s1
    (fit _ _ _ hl.s0 hl.oh_eq) (fit _ _ _ hl.s1 hl.ow_eq) c i j hc
    (fits_window _ _ _ _ hl.s0 hl.oh_eq hi) (fits_window _ _ _ _ hl.s1 hl.ow_eq hj)] at hq
  simp only [List.mem_singleton] at hq
  subst hq
  rcases MaxpoolWindow.window_attained l (toList3 x) c (i * l.stride.1) (j * l.stride.2) ih iw with h | ⟨k, li, _, _, h1, h2, h3, _⟩
  · rw [h]; exact ⟨hih, hiw⟩
  · rw [h3]; exact ⟨h1, h2⟩

theorem backward_eq (l : Maxpool ℝ) (hl : IsPool l ic ih iw oh ow) (x : V (I3 ic ih iw)) (g : V (I3 ic oh ow))
    (G : Tensor ℝ) (hG : G.getTriple l.outputs = .ok (toList3 g)) :
    l.backward G (idxOf l ih iw oh ow x) = .ok (T3 (routeV l (idxOf l ih iw oh ow x) ic ih iw oh ow g)) := by
  obtain ⟨hic, hih, hiw⟩ := hl.pos
  have hoh : 0 < oh := by rw [hl.oh_eq]; exact Nat.succ_pos _
  unfold Maxpool.backward
  rw [hG, hl.inputs]
  simp only []
  obtain ⟨r, m, rest, he, h1, h2⟩ := dims3_cons _ ic oh ow (toList3_dims g) hic hoh
  have hroute : Tensor.triple (Maxpool.route l (idxOf l ih iw oh ow x) (toList3 g) (Maxpool.positions ic oh ow) ic ih iw) =
      .ok (T3 (routeV l (idxOf l ih iw oh ow x) ic ih iw oh ow g)) := by
    rw [triple_of_dims _ ic ih iw (DimsLemmas.maxpool_route_dims l _ _ _ ic ih iw) hic hih]
    have : toList3 (routeV l (idxOf l ih iw oh ow x) ic ih iw oh ow g) =
        Maxpool.route l (idxOf l ih iw oh ow x) (toList3 g) (Maxpool.positions ic oh ow) ic ih iw :=
      toList3_of_get _ ic ih iw (DimsLemmas.maxpool_route_dims l _ _ _ ic ih iw)
    simp only [T3, this]
  generalize hX : toList3 g = X at he hroute ⊢
  subst he
  simp only [h1, h2]
  rw [if_neg, hroute]
  rw [Bool.not_eq_true, List.any_eq_false]
  intro p hp
  unfold Maxpool.positions at hp
  simp only [List.mem_flatMap, List.mem_range, List.mem_map] at hp
  obtain ⟨c, hc, i, hi, j, hj, rfl⟩ := hp
  obtain ⟨mc, mh, v, e1, e2, e3, e4⟩ := get?_chain ([] : List (ℕ × ℕ)) (idxOf l ih iw oh ow x) ic oh ow c i j
    (pool_snd_dims l _ ih iw ic oh ow _ _) hc hi hj
  simp only [e1, e2, e3]
  have hin := idx_in_bounds l hl x c i j hc hi hj
  rw [e4] at hin
  have hg : (L.get? ((r :: m) :: rest) c).isNone = false := by
    rw [← hX, L.get?_eq, List.getElem?_eq_getElem (by rw [(toList3_dims g).1]; exact hc)]
    rfl
  simp only [hg, Bool.or_false, Bool.not_eq_true]
  rw [List.any_eq_false]
  intro q hq
  have := hin q hq
  simp only [ge_iff_le, decide_eq_true_eq, not_or, not_le]
  exact this

end MaxpoolBridge
