import Model.Layers
import Proofs.Reshape
import Proofs.Zip
import Proofs.Scatter

/-!
# Index updates keep the extents: scattered tensors have the announced shape
-/

namespace DimsLemmas
open L

variable {β : Type}

theorem length_modAt' (f : β → β) : ∀ (l : List β) (i : Nat), (modAt f l i).length = l.length
  | [], _ => rfl
  | _ :: _, 0 => rfl
  | _ :: ys, n+1 => by simp [modAt, length_modAt' f ys n]

theorem mem_modAt (f : β → β) (P : β → Prop) (hf : ∀ x, P x → P (f x)) : ∀ (l : List β) (i : Nat),
    (∀ x ∈ l, P x) → ∀ x ∈ modAt f l i, P x
  | [], _, h => by simp [modAt]
  | y :: ys, 0, h => by
    intro x hx
    simp only [modAt, List.mem_cons] at hx
    rcases hx with rfl | hx
    · exact hf y (h y (by simp))
    · exact h x (by simp [hx])
  | y :: ys, n+1, h => by
    intro x hx
    simp only [modAt, List.mem_cons] at hx
    rcases hx with rfl | hx
    · exact h x (by simp)
    · exact mem_modAt f P hf ys n (fun z hz => h z (by simp [hz])) x hx

theorem dims2_modAt (g : β → β) (m : List (List β)) (hh ww i j : Nat) (hm : Dims2 m hh ww) :
    Dims2 (modAt (fun r => modAt g r j) m i) hh ww := by
  refine ⟨by rw [length_modAt']; exact hm.1, ?_⟩
  exact mem_modAt _ (fun r => r.length = ww) (fun r hr => by rw [length_modAt']; exact hr) m i hm.2

/-- one index update keeps a `c × h × w` tensor `c × h × w` -/
theorem dims3_mod3 (g : β → β) (y : List (List (List β))) (c hh ww a i j : Nat) (hy : Dims3 y c hh ww) :
    Dims3 (mod3 g y a i j) c hh ww := by
  unfold mod3
  refine ⟨by rw [length_modAt']; exact hy.1, ?_⟩
  intro m hm
  have := mem_modAt (fun m => modAt (fun r => modAt g r j) m i) (fun m => Dims2 m hh ww)
    (fun m hm => dims2_modAt g m hh ww i j hm) y a (fun m hm => hy.2 m hm) m hm
  exact this

theorem dims3_replicate3 (c hh ww : Nat) (v : β) : Dims3 (replicate3 c hh ww v) c hh ww := by
  unfold replicate3 replicate2
  refine ⟨by simp, ?_⟩
  intro m hm
  rw [List.mem_replicate] at hm
  rw [hm.2]
  refine ⟨by simp, ?_⟩
  intro r hr
  rw [List.mem_replicate] at hr
  rw [hr.2]; simp

/-- any fold of index updates keeps the extents -/
theorem dims3_fold {γ : Type} (step : List (List (List β)) → γ → List (List (List β))) (c hh ww : Nat)
    (hstep : ∀ y t, Dims3 y c hh ww → Dims3 (step y t) c hh ww) :
    ∀ (ts : List γ) (y : List (List (List β))), Dims3 y c hh ww → Dims3 (ts.foldl step y) c hh ww
  | [], y, hy => hy
  | t :: ts, y, hy => dims3_fold step c hh ww hstep ts _ (hstep y t hy)

theorem dims4_mod4 (g : β → β) (y : List (List (List (List β)))) (k c hh ww f a i j : Nat) (hy : Dims4 y k c hh ww) :
    Dims4 (mod4 g y f a i j) k c hh ww := by
  unfold mod4
  refine ⟨by rw [length_modAt']; exact hy.1, ?_⟩
  intro t ht
  exact mem_modAt (fun t => mod3 g t a i j) (fun t => Dims3 t c hh ww)
    (fun t ht => dims3_mod3 g t c hh ww a i j ht) y f (fun t ht => hy.2 t ht) t ht

theorem dims4_replicate4 (k c hh ww : Nat) (v : β) : Dims4 (replicate4 k c hh ww v) k c hh ww := by
  unfold replicate4
  refine ⟨by simp, ?_⟩
  intro t ht
  rw [List.mem_replicate] at ht
  rw [ht.2]
  exact dims3_replicate3 c hh ww v

end DimsLemmas

namespace DimsLemmas
open L
variable {α : Type} [Scalar α]

/-- **the deconvolution produces exactly the extents it was given** (`kf × oh × ow`) -/
theorem deconv_scatter_dims (x : V3 α) (ks : List (V3 α)) (kf kc : Nat) (tp : List (Nat × Nat × Nat × Nat × Nat × Nat)) (oh ow : Nat) :
    Dims3 (Deconv.scatter x ks kf kc tp oh ow) kf oh ow := by
  unfold Deconv.scatter
  apply dims3_fold _ kf oh ow _ _ _ (dims3_replicate3 kf oh ow 0)
  intro y k hy
  apply dims3_fold _ kf oh ow _ _ _ hy
  intro y c hy
  apply dims3_fold _ kf oh ow _ _ _ hy
  intro y t hy
  exact dims3_mod3 _ y kf oh ow _ _ _ hy

/-- the convolution's padded input gradient has the padded input's extents -/
theorem conv_paddedInputGrad_dims (l : Conv α) (ks : List (V3 α)) (delta : V3 α) (kf kc kh kw oh ow ph pw : Nat) :
    Dims3 (Conv.paddedInputGrad l ks delta kf kc kh kw oh ow ph pw) kc ph pw := by
  unfold Conv.paddedInputGrad
  apply dims3_fold _ kc ph pw _ _ _ (dims3_replicate3 kc ph pw 0)
  intro y f hy
  apply dims3_fold _ kc ph pw _ _ _ hy
  intro y c hy
  apply dims3_fold _ kc ph pw _ _ _ hy
  intro y h hy
  apply dims3_fold _ kc ph pw _ _ _ hy
  intro y w hy
  apply dims3_fold _ kc ph pw _ _ _ hy
  intro y t hy
  exact dims3_mod3 _ y kc ph pw _ _ _ hy

/-- cropping the padding frame gives the input's extents: **the input gradient has the input's shape** -/
theorem conv_crop_dims (l : Conv α) (pg : V3 α) (kc ih iw : Nat)
    (hpg : Dims3 pg kc (ih + 2 * l.padding.1) (iw + 2 * l.padding.2)) : Dims3 (Conv.crop l pg ih iw) kc ih iw := by
  unfold Conv.crop
  refine ⟨by simp [hpg.1], ?_⟩
  intro m hm
  simp only [List.mem_map] at hm
  obtain ⟨ch, hch, rfl⟩ := hm
  have hd := hpg.2 ch hch
  refine ⟨by simp [hd.1]; omega, ?_⟩
  intro r hr
  simp only [List.mem_map] at hr
  obtain ⟨row, hrow, rfl⟩ := hr
  have hrow' : row ∈ ch := List.mem_of_mem_drop (List.mem_of_mem_take hrow)
  simp [hd.2 row hrow']; omega

/-- the kernel gradient has the kernels' extents `kf × kc × kh × kw` -/
theorem conv_kernelGrad_dims (l : Conv α) (xp delta : V3 α) (kf kc kh kw oh ow ph pw : Nat) :
    Dims4 (Conv.kernelGrad l xp delta kf kc kh kw oh ow ph pw) kf kc kh kw := by
  unfold Conv.kernelGrad
  refine ⟨by simp, ?_⟩
  intro t ht
  simp only [List.mem_map, List.mem_range] at ht
  obtain ⟨f, _, rfl⟩ := ht
  refine ⟨by simp, ?_⟩
  intro m hm
  simp only [List.mem_map, List.mem_range] at hm
  obtain ⟨c, _, rfl⟩ := hm
  refine ⟨by simp, ?_⟩
  intro r hr
  simp only [List.mem_map, List.mem_range] at hr
  obtain ⟨h, _, rfl⟩ := hr
  simp

/-- the deconvolution's gradients have the input's and the kernels' extents -/
theorem deconv_gradPass_dims (x : V3 α) (ks : List (V3 α)) (delta : V3 α) (kf kc kh kw ih iw : Nat)
    (tp : List (Nat × Nat × Nat × Nat × Nat × Nat)) :
    Dims3 (Deconv.gradPass x ks delta kf kc kh kw ih iw tp).1 kc ih iw ∧
    Dims4 (Deconv.gradPass x ks delta kf kc kh kw ih iw tp).2 kf kc kh kw := by
  unfold Deconv.gradPass
  have key : ∀ (P : V3 α × V4 α → Prop), P (replicate3 kc ih iw 0, replicate4 kf kc kh kw 0) →
      (∀ acc f c t, P acc → P (Deconv.gradStep x ks delta f c acc t)) →
      P ((List.range kf).foldl (fun acc f => (List.range kc).foldl (fun acc c => tp.foldl (Deconv.gradStep x ks delta f c) acc) acc)
        (replicate3 kc ih iw 0, replicate4 kf kc kh kw 0)) := by
    intro P h0 hs
    have inner : ∀ (f c : Nat) (ts : List _) (acc : V3 α × V4 α), P acc → P (ts.foldl (Deconv.gradStep x ks delta f c) acc) := by
      intro f c ts
      induction ts with
      | nil => intro acc h; exact h
      | cons t ts ih => intro acc h; exact ih _ (hs acc f c t h)
    have mid : ∀ (f : Nat) (cs : List Nat) (acc : V3 α × V4 α), P acc →
        P (cs.foldl (fun acc c => tp.foldl (Deconv.gradStep x ks delta f c) acc) acc) := by
      intro f cs
      induction cs with
      | nil => intro acc h; exact h
      | cons c cs ih => intro acc h; exact ih _ (inner f c tp acc h)
    have outer : ∀ (fs : List Nat) (acc : V3 α × V4 α), P acc →
        P (fs.foldl (fun acc f => (List.range kc).foldl (fun acc c => tp.foldl (Deconv.gradStep x ks delta f c) acc) acc) acc) := by
      intro fs
      induction fs with
      | nil => intro acc h; exact h
      | cons f fs ih => intro acc h; exact ih _ (mid f (List.range kc) acc h)
    exact outer _ _ h0
  apply key (fun acc => Dims3 acc.1 kc ih iw ∧ Dims4 acc.2 kf kc kh kw)
  · exact ⟨dims3_replicate3 kc ih iw 0, dims4_replicate4 kf kc kh kw 0⟩
  · intro acc f c t h
    exact ⟨dims3_mod3 _ acc.1 kc ih iw _ _ _ h.1, dims4_mod4 _ acc.2 kf kc kh kw _ _ _ _ h.2⟩

end DimsLemmas
