import Model.Layers
import Proofs.Real
import Proofs.GetLemmas
import Proofs.OptimizerLemmas
import Mathlib.Tactic

/-!
# The point-wise scatter lemma

Scatter loops (`y[c][i][j] += v` for a list of updates) in deconvolution forward, max-pool backward and
the convolution's input gradient are folds of the functional index update `L.mod3`.  Reading position
`(c, i, j)` of the result gives the initial value plus the sum of all updates addressed to it.
-/

namespace Scatter

/-- `modAt` read back at any index -/
theorem getD_modAt {β : Type} (f : β → β) (l : List β) (i j : Nat) (d : β) :
    (L.modAt f l i).getD j d = if i = j ∧ j < l.length then f (l.getD j d) else l.getD j d := by
  simp only [List.getD_eq_getElem?_getD, ← L.get?_eq]
  by_cases h : i = j
  · subst h
    rw [L.get?_modAt_same, L.get?_eq]
    by_cases hl : i < l.length
    · simp [hl, List.getElem?_eq_getElem hl]
    · simp [hl, List.getElem?_eq_none (Nat.le_of_not_lt hl)]
  · rw [L.get?_modAt_other _ _ _ _ h]; simp [h]

theorem length_modAt {β : Type} (f : β → β) : ∀ (l : List β) (i : Nat), (L.modAt f l i).length = l.length
  | [], _ => rfl
  | _ :: _, 0 => rfl
  | _ :: ys, n+1 => by simp [L.modAt, length_modAt f ys n]

/-- an index update with a length-preserving function keeps the length of every entry -/
theorem getD_modAt_length {β : Type} (f : List β → List β) (hf : ∀ x, (f x).length = x.length)
    (l : List (List β)) (i j : Nat) : ((L.modAt f l i).getD j []).length = (l.getD j []).length := by
  rw [getD_modAt]
  split
  · exact hf _
  · rfl

/-- a 3-D nested list in which `(c, i, j)` is a valid position -/
def InBounds (y : V3 ℝ) (c i j : Nat) : Prop :=
  c < y.length ∧ i < (y.getD c []).length ∧ j < ((y.getD c []).getD i []).length

/-- one in-bounds update read back at any position -/
theorem get3D_mod3 (g : ℝ → ℝ) (y : V3 ℝ) (c i j c' i' j' : Nat) (hb : InBounds y c i j) :
    L.get3D 0 (L.mod3 g y c i j) c' i' j' =
      if c = c' ∧ i = i' ∧ j = j' then g (L.get3D 0 y c' i' j') else L.get3D 0 y c' i' j' := by
  obtain ⟨hc, hi, hj⟩ := hb
  rw [L.get3D_eq, L.get3D_eq]
  unfold L.mod3
  rw [getD_modAt]
  by_cases h1 : c = c'
  · subst h1
    rw [if_pos ⟨rfl, hc⟩, getD_modAt]
    by_cases h2 : i = i'
    · subst h2
      rw [if_pos ⟨rfl, hi⟩, getD_modAt]
      by_cases h3 : j = j'
      · subst h3
        rw [if_pos ⟨rfl, hj⟩, if_pos ⟨rfl, rfl, rfl⟩]
      · rw [if_neg (fun h => h3 h.1), if_neg (fun h => h3 h.2.2)]
    · rw [if_neg (fun h => h2 h.1), if_neg (fun h => h2 h.2.1)]
  · rw [if_neg (fun h => h1 h.1), if_neg (fun h => h1 h.1)]

/-- updates do not change which positions are in bounds -/
theorem inBounds_mod3 (g : ℝ → ℝ) (y : V3 ℝ) (c i j c' i' j' : Nat) :
    InBounds (L.mod3 g y c i j) c' i' j' ↔ InBounds y c' i' j' := by
  have hrow : ∀ r : List ℝ, (L.modAt g r j).length = r.length := fun r => length_modAt g r j
  have hmat : ∀ m : List (List ℝ), (L.modAt (fun r => L.modAt g r j) m i).length = m.length :=
    fun m => length_modAt _ m i
  have h2 : ((L.mod3 g y c i j).getD c' []).length = (y.getD c' []).length :=
    getD_modAt_length _ hmat y c c'
  have h3 : (((L.mod3 g y c i j).getD c' []).getD i' []).length = ((y.getD c' []).getD i' []).length := by
    unfold L.mod3
    rw [getD_modAt]
    split
    · exact getD_modAt_length _ hrow _ i i'
    · rfl
  unfold InBounds
  rw [h2, h3]
  unfold L.mod3
  rw [length_modAt]

/-- an update: target position and value -/
structure Upd where
  c : Nat
  i : Nat
  j : Nat
  v : ℝ

/-- **the scatter lemma**: after any list of in-bounds additive updates, position `(c, i, j)` holds its
    initial value plus the sum of the values addressed to it -/
theorem scatter_get : ∀ (us : List Upd) (y : V3 ℝ) (c i j : Nat),
    (∀ u ∈ us, InBounds y u.c u.i u.j) →
    L.get3D 0 (us.foldl (fun acc u => L.mod3 (· + u.v) acc u.c u.i u.j) y) c i j =
      L.get3D 0 y c i j + (us.map (fun u => if u.c = c ∧ u.i = i ∧ u.j = j then u.v else 0)).sum := by
  intro us
  induction us with
  | nil => intro y c i j _; simp
  | cons u rest ih =>
    intro y c i j hb
    simp only [List.foldl_cons, List.map_cons, List.sum_cons]
    rw [ih]
    · rw [get3D_mod3 _ y u.c u.i u.j c i j (hb u (List.mem_cons_self ..))]
      split <;> ring
    · intro u' hu'
      rw [inBounds_mod3]
      exact hb u' (List.mem_cons_of_mem _ hu')

end Scatter
