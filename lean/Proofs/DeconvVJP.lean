import Proofs.ConvVJP
import Proofs.DeconvAdjoint

/-!
# The deconvolution's pre-activation map as a vector function, and its transposed Jacobians
-/

open Finset BigOperators

namespace DeconvVJP
open VJP Adjoint Adjoint4 Scatter ConvVJP

theorem ip3_comm (C H W : ℕ) (a b : V3 ℝ) : ip3 C H W a b = ip3 C H W b a := by
  unfold ip3
  apply Finset.sum_congr rfl; intro c _
  apply Finset.sum_congr rfl; intro i _
  apply Finset.sum_congr rfl; intro j _
  ring

theorem dot_eq_ip4 {f c h w : ℕ} (a b : V (I4 f c h w)) : dot a b = ip4 f c h w (toList4 a) (toList4 b) := by
  unfold dot ip4
  rw [Fintype.sum_prod_type]
  rw [← Fin.sum_univ_eq_sum_range (fun fi => ∑ ci ∈ range c, ∑ i ∈ range h, ∑ j ∈ range w,
    L.get4D 0 (toList4 a) fi ci i j * L.get4D 0 (toList4 b) fi ci i j) f]
  apply Finset.sum_congr rfl; intro fi _
  rw [Fintype.sum_prod_type]
  rw [← Fin.sum_univ_eq_sum_range (fun ci => ∑ i ∈ range h, ∑ j ∈ range w,
    L.get4D 0 (toList4 a) fi ci i j * L.get4D 0 (toList4 b) fi ci i j) c]
  apply Finset.sum_congr rfl; intro ci _
  rw [Fintype.sum_prod_type]
  rw [← Fin.sum_univ_eq_sum_range (fun i => ∑ j ∈ range w,
    L.get4D 0 (toList4 a) fi ci i j * L.get4D 0 (toList4 b) fi ci i j) h]
  apply Finset.sum_congr rfl; intro ii _
  rw [← Fin.sum_univ_eq_sum_range (fun j => L.get4D 0 (toList4 a) fi ci ii j * L.get4D 0 (toList4 b) fi ci ii j) w]
  apply Finset.sum_congr rfl; intro jj _
  simp [get4D_toList4]

theorem ip4_congr_right (F C H W : ℕ) (A b b' : V4 ℝ)
    (h : ∀ f c i j, f < F → c < C → i < H → j < W → L.get4D 0 b f c i j = L.get4D 0 b' f c i j) :
    ip4 F C H W A b = ip4 F C H W A b' := by
  unfold ip4
  apply Finset.sum_congr rfl; intro f hf
  apply Finset.sum_congr rfl; intro c hc
  apply Finset.sum_congr rfl; intro i hi
  apply Finset.sum_congr rfl; intro j hj
  rw [h f c i j (mem_range.mp hf) (mem_range.mp hc) (mem_range.mp hi) (mem_range.mp hj)]

variable (l : Deconv ℝ) (kf kc kh kw ih iw oh ow : ℕ)

/-- the deconvolution's pre-activation (bias-free transposed convolution) as a function of the input
    and of the kernels: literally the model's scatter loops read back at a position -/
noncomputable def deconvPre (ks : List (V3 ℝ)) (x : V (I3 kc ih iw)) : V (I3 kf oh ow) := fun koq =>
  L.get3D 0 (Deconv.scatter (toList3 x) ks kf kc (Deconv.taps l ih iw kh kw oh ow) oh ow) koq.1 koq.2.1 koq.2.2

/-- the value at a position as a sum over the scatter's updates, written so that linearity is visible -/
theorem deconvPre_formula (ks : List (V3 ℝ)) (xs : V3 ℝ) (k o q : ℕ) :
    L.get3D 0 (Deconv.scatter xs ks kf kc (Deconv.taps l ih iw kh kw oh ow) oh ow) k o q =
      ((List.range kf).map (fun k' => ((List.range kc).map (fun c =>
        ((Deconv.taps l ih iw kh kw oh ow).map (fun t =>
          if k' = k ∧ t.2.2.2.2.1 = o ∧ t.2.2.2.2.2 = q
          then L.get3D 0 xs c t.1 t.2.1 * L.get4D 0 ks k' c t.2.2.1 t.2.2.2.1 else 0)).sum)).sum)).sum := by
  rw [C02.deconv_gather]
  unfold C02.deconvUpdates
  rw [ConvAdjoint.sum_map_flatMap]
  congr 1
  apply List.map_congr_left; intro k' _
  rw [ConvAdjoint.sum_map_flatMap]
  congr 1
  apply List.map_congr_left; intro c _
  rw [List.map_map]
  rfl

theorem sum_map_add {β : Type} (l : List β) (f g : β → ℝ) :
    (l.map (fun a => f a + g a)).sum = (l.map f).sum + (l.map g).sum := by
  induction l with
  | nil => simp
  | cons a l ih => simp only [List.map_cons, List.sum_cons, ih]; ring

theorem sum_map_mul_left {β : Type} (l : List β) (r : ℝ) (f : β → ℝ) :
    (l.map (fun a => r * f a)).sum = r * (l.map f).sum := by
  induction l with
  | nil => simp
  | cons a l ih => simp only [List.map_cons, List.sum_cons, ih]; ring

noncomputable def deconvLin (ks : List (V3 ℝ)) : V (I3 kc ih iw) →ₗ[ℝ] V (I3 kf oh ow) where
  toFun := deconvPre l kf kc kh kw ih iw oh ow ks
  map_add' x y := by
    funext koq
    simp only [deconvPre, Pi.add_apply, deconvPre_formula]
    rw [← sum_map_add]
    congr 1; apply List.map_congr_left; intro k' _
    rw [← sum_map_add]
    congr 1; apply List.map_congr_left; intro c _
    rw [← sum_map_add]
    congr 1; apply List.map_congr_left; intro t _
    rw [get3D_toList3_add]
    split <;> ring
  map_smul' r x := by
    funext koq
    simp only [deconvPre, Pi.smul_apply, smul_eq_mul, RingHom.id_apply, deconvPre_formula]
    rw [← sum_map_mul_left]
    congr 1; apply List.map_congr_left; intro k' _
    rw [← sum_map_mul_left]
    congr 1; apply List.map_congr_left; intro c _
    rw [← sum_map_mul_left]
    congr 1; apply List.map_congr_left; intro t _
    rw [get3D_toList3_smul]
    split <;> ring

/-- the input gradient of the model's backward pass (the first component of `gradPass`; it does not
    depend on the recorded input `x0`) -/
noncomputable def deconvBwd (ks : List (V3 ℝ)) (x0 : V3 ℝ) (g : V (I3 kf oh ow)) : V (I3 kc ih iw) := fun cij =>
  L.get3D 0 (Deconv.gradPass x0 ks (toList3 g) kf kc kh kw ih iw (Deconv.taps l ih iw kh kw oh ow)).1 cij.1 cij.2.1 cij.2.2

/-- **the deconvolution's pre-activation map has the model's input gradient as its transposed
    Jacobian** — every stride, padding, kernel size, channel and filter count -/
theorem deconv_isVJP (ks : List (V3 ℝ)) (x0 : V3 ℝ) (x : V (I3 kc ih iw)) :
    IsVJP (deconvPre l kf kc kh kw ih iw oh ow ks) x (deconvBwd l kf kc kh kw ih iw oh ow ks x0) := by
  refine ⟨LinearMap.toContinuousLinearMap (deconvLin l kf kc kh kw ih iw oh ow ks), ?_, ?_⟩
  · exact (LinearMap.toContinuousLinearMap (deconvLin l kf kc kh kw ih iw oh ow ks)).hasFDerivAt
  · intro g v
    simp only [LinearMap.coe_toContinuousLinearMap']
    show dot (deconvBwd l kf kc kh kw ih iw oh ow ks x0 g) v = dot g (deconvPre l kf kc kh kw ih iw oh ow ks v)
    rw [dot_eq_ip3, dot_eq_ip3]
    rw [ip3_congr_left kc ih iw _ (Deconv.gradPass x0 ks (toList3 g) kf kc kh kw ih iw (Deconv.taps l ih iw kh kw oh ow)).1 _ (by
      intro a i j ha hi hj
      rw [get3D_toList3]; simp [ha, hi, hj, deconvBwd])]
    rw [← DeconvAdjoint.input_adjoint l x0 (toList3 v) ks (toList3 g) kf kc ih iw kh kw oh ow]
    rw [ip3_comm kf oh ow (toList3 g)]
    apply ip3_congr_left
    intro a i j ha hi hj
    rw [get3D_toList3]; simp [ha, hi, hj, deconvPre]

/-! ### the kernels -/

noncomputable def deconvPreK (xs : V3 ℝ) (K : V (I4 kf kc kh kw)) : V (I3 kf oh ow) := fun koq =>
  L.get3D 0 (Deconv.scatter xs (toList4 K) kf kc (Deconv.taps l ih iw kh kw oh ow) oh ow) koq.1 koq.2.1 koq.2.2

noncomputable def deconvLinK (xs : V3 ℝ) : V (I4 kf kc kh kw) →ₗ[ℝ] V (I3 kf oh ow) where
  toFun := deconvPreK l kf kc kh kw ih iw oh ow xs
  map_add' x y := by
    funext koq
    simp only [deconvPreK, Pi.add_apply, deconvPre_formula]
    rw [← sum_map_add]
    congr 1; apply List.map_congr_left; intro k' _
    rw [← sum_map_add]
    congr 1; apply List.map_congr_left; intro c _
    rw [← sum_map_add]
    congr 1; apply List.map_congr_left; intro t _
    simp only [get4D_toList4, Pi.add_apply]
    split
    · split <;> ring
    · ring
  map_smul' r x := by
    funext koq
    simp only [deconvPreK, Pi.smul_apply, smul_eq_mul, RingHom.id_apply, deconvPre_formula]
    rw [← sum_map_mul_left]
    congr 1; apply List.map_congr_left; intro k' _
    rw [← sum_map_mul_left]
    congr 1; apply List.map_congr_left; intro c _
    rw [← sum_map_mul_left]
    congr 1; apply List.map_congr_left; intro t _
    simp only [get4D_toList4, Pi.smul_apply, smul_eq_mul]
    split
    · split <;> ring
    · ring

noncomputable def deconvBwdK (xs : V3 ℝ) (ks : List (V3 ℝ)) (g : V (I3 kf oh ow)) : V (I4 kf kc kh kw) := fun fchw =>
  L.get4D 0 (Deconv.gradPass xs ks (toList3 g) kf kc kh kw ih iw (Deconv.taps l ih iw kh kw oh ow)).2
    fchw.1 fchw.2.1 fchw.2.2.1 fchw.2.2.2

/-- **… and the model's kernel gradient as its transposed Jacobian with respect to the kernels** -/
theorem deconv_kernel_isVJP (xs : V3 ℝ) (ks : List (V3 ℝ)) (K : V (I4 kf kc kh kw)) :
    IsVJP (deconvPreK l kf kc kh kw ih iw oh ow xs) K (deconvBwdK l kf kc kh kw ih iw oh ow xs ks) := by
  refine ⟨LinearMap.toContinuousLinearMap (deconvLinK l kf kc kh kw ih iw oh ow xs), ?_, ?_⟩
  · exact (LinearMap.toContinuousLinearMap (deconvLinK l kf kc kh kw ih iw oh ow xs)).hasFDerivAt
  · intro g v
    simp only [LinearMap.coe_toContinuousLinearMap']
    show dot (deconvBwdK l kf kc kh kw ih iw oh ow xs ks g) v = dot g (deconvPreK l kf kc kh kw ih iw oh ow xs v)
    rw [dot_eq_ip4, dot_eq_ip3]
    have hadj := DeconvAdjoint.kernel_adjoint l xs ks (toList4 v) (toList3 g) kf kc ih iw kh kw oh ow
    -- left: `toList4 (deconvBwdK g)` agrees with the model's kernel gradient inside the box
    have hL : ip4 kf kc kh kw (toList4 (deconvBwdK l kf kc kh kw ih iw oh ow xs ks g)) (toList4 v) =
        ip4 kf kc kh kw (Deconv.gradPass xs ks (toList3 g) kf kc kh kw ih iw (Deconv.taps l ih iw kh kw oh ow)).2 (toList4 v) := by
      unfold ip4
      apply Finset.sum_congr rfl; intro f hf
      apply Finset.sum_congr rfl; intro c hc
      apply Finset.sum_congr rfl; intro i hi
      apply Finset.sum_congr rfl; intro j hj
      congr 1
      rw [get4D_toList4]
      simp [mem_range.mp hf, mem_range.mp hc, mem_range.mp hi, mem_range.mp hj, deconvBwdK]
    rw [hL, ← hadj, ip3_comm kf oh ow (toList3 g)]
    apply ip3_congr_left
    intro a i j ha hi hj
    rw [get3D_toList3]; simp [ha, hi, hj, deconvPreK]

end DeconvVJP
