import Proofs.VJP
import Mathlib.Algebra.BigOperators.Group.Finset.Basic
import Mathlib.Algebra.BigOperators.Group.List.Basic

/-!
# Any number of additive skip connections: the reverse sweep is the transposed Jacobian (C16 / C01)

A stack of layers `f 0, f 1, …` between vectors of one index type, with a skip table `S`: when
`S i = some s` (with `s ≤ i`) layer `i` processes its ordinary input *plus* the ordinary input of layer `s`.
Chains of connections, several connections out of one source, nested and overlapping connections and a
connection from a layer to itself are all instances.

The reverse sweep of `Network::backward` walks the layers from the last to the first, computes for layer `i`
the gradient `δ i` with respect to the input it *processed*, and hands on
`δ i + Σ { δ t | t a target of source i }`.  `sweep_isVJP`: what the sweep ends with is the transposed
Jacobian of the whole network function, for every depth and every table.
-/

set_option linter.unusedSectionVars false

open BigOperators

namespace SkipDag
open VJP

variable {ι : Type} [Fintype ι]

/-! ### what `IsVJP` says about the backward function: it is additive -/

theorem ext_dot [DecidableEq ι] {a b : V ι} (h : ∀ v, dot a v = dot b v) : a = b := by
  funext i
  have := h (Pi.single i 1)
  rwa [dot_single, dot_single] at this

theorem IsVJP.map_add {κ : Type} [Fintype κ] {f : V ι → V κ} {x : V ι} {b : V κ → V ι} (h : IsVJP f x b) (g₁ g₂ : V κ) :
    b (g₁ + g₂) = b g₁ + b g₂ := by
  classical
  obtain ⟨f', _, af⟩ := h
  apply ext_dot
  intro v
  rw [dot_add_left, af, af, af, dot_add_left]

theorem IsVJP.map_zero {κ : Type} [Fintype κ] {f : V ι → V κ} {x : V ι} {b : V κ → V ι} (h : IsVJP f x b) :
    b 0 = 0 := by
  classical
  obtain ⟨f', _, af⟩ := h
  apply ext_dot
  intro v
  rw [af]
  simp [dot]

theorem IsVJP.map_sum {κ : Type} [Fintype κ] {f : V ι → V κ} {x : V ι} {b : V κ → V ι} (h : IsVJP f x b)
    {α : Type} (s : Finset α) (F : α → V κ) : b (∑ t ∈ s, F t) = ∑ t ∈ s, b (F t) := by
  classical
  induction s using Finset.induction_on with
  | empty => simpa using IsVJP.map_zero h
  | insert a s ha ih => rw [Finset.sum_insert ha, Finset.sum_insert ha, IsVJP.map_add h, ih]

theorem isVJP_zero {κ : Type} [Fintype κ] (x : V ι) : IsVJP (fun _ : V ι => (0 : V κ)) x (fun _ => 0) := by
  refine ⟨0, hasFDerivAt_const (0 : V κ) x, ?_⟩
  intro g v
  simp [dot]

/-! ### the network and its function -/

/-- layers, their backward functions (`b i p g`: at processed input `p`, handed `g`), the skip table -/
structure Net (ι : Type) where
  f : Nat → V ι → V ι
  b : Nat → V ι → V ι → V ι
  S : Nat → Option Nat

/-- `U i x`: the ordinary input of layer `i` (the output of layer `i - 1`) on network input `x` -/
def U (N : Net ι) : Nat → V ι → V ι
  | 0, x => x
  | i + 1, x => N.f i (U N i x + (match N.S i with
      | some s => if _ : s ≤ i then U N s x else 0
      | none => 0))

/-- what the skip connection into layer `i` contributes -/
def skipv (N : Net ι) (i : Nat) (x : V ι) : V ι :=
  match N.S i with
  | some s => if s ≤ i then U N s x else 0
  | none => 0

/-- the input layer `i` processes -/
def P (N : Net ι) (i : Nat) (x : V ι) : V ι := U N i x + skipv N i x

theorem U_succ (N : Net ι) (i : Nat) (x : V ι) : U N (i + 1) x = N.f i (P N i x) := by
  rw [U]
  simp only [P, skipv]
  congr 2

/-- the tree-shaped backward function: through the layer, then to both places its input came from -/
def B (N : Net ι) (x : V ι) : Nat → V ι → V ι
  | 0, g => g
  | i + 1, g =>
    B N x i (N.b i (P N i x) g) + (match N.S i with
      | some s => if _ : s ≤ i then B N x s (N.b i (P N i x) g) else 0
      | none => 0)

/-- what the skip connection into layer `i` sends back to its source -/
def skipb (N : Net ι) (x : V ι) (i : Nat) (δ : V ι) : V ι :=
  match N.S i with
  | some s => if s ≤ i then B N x s δ else 0
  | none => 0

theorem B_succ (N : Net ι) (x : V ι) (i : Nat) (g : V ι) :
    B N x (i + 1) g = B N x i (N.b i (P N i x) g) + skipb N x i (N.b i (P N i x) g) := by
  rw [B]
  simp only [skipb]
  congr 1

/-- every layer's backward is its transposed Jacobian at the input it processed -/
def Ok (N : Net ι) (n : Nat) (x : V ι) : Prop := ∀ i, i < n → IsVJP (N.f i) (P N i x) (N.b i (P N i x))

theorem tree_isVJP (N : Net ι) (n : Nat) (x : V ι) (hok : Ok N n x) :
    ∀ j, j ≤ n → IsVJP (U N j) x (B N x j) := by
  intro j
  induction j using Nat.strong_induction_on with
  | _ j ih =>
    intro hj
    cases j with
    | zero =>
      have : U N 0 = fun y => y := by funext y; rw [U]
      rw [this]
      have hb : B N x 0 = fun g => g := by funext g; rw [B]
      rw [hb]
      exact isVJP_id x
    | succ i =>
      have hU : U N (i + 1) = (N.f i) ∘ (fun y => U N i y + skipv N i y) := by
        funext y; rw [U_succ]; rfl
      have hB : B N x (i + 1) = (fun δ => B N x i δ + skipb N x i δ) ∘ (N.b i (P N i x)) := by
        funext g; rw [B_succ]; rfl
      rw [hU, hB]
      have hi := ih i (Nat.lt_succ_self i) (by omega)
      have hs : IsVJP (fun y => skipv N i y) x (fun δ => skipb N x i δ) := by
        unfold skipv skipb
        cases hS : N.S i with
        | none => exact isVJP_zero x
        | some s =>
          simp only []
          by_cases hle : s ≤ i
          · simp only [hle, if_true]
            exact ih s (by omega) (by omega)
          · simp only [hle, if_false]
            exact isVJP_zero x
      exact IsVJP.comp (IsVJP.add hi hs) (hok i (by omega))

/-! ### the reverse sweep -/

/-- the sweep after `k` layers (from layer `n - 1` down to `n - k`): the gradient handed on, and the
    gradients with respect to the inputs the layers visited so far processed.  `tg s` lists the targets
    of source `s`. -/
def sweep (N : Net ι) (tg : Nat → List Nat) (x : V ι) (n : Nat) (g : V ι) : Nat → V ι × (Nat → V ι)
  | 0 => (g, fun _ => 0)
  | k + 1 =>
    let st := sweep N tg x n g k
    let i := n - (k + 1)
    let δ := N.b i (P N i x) st.1
    let D := fun t => if t = i then δ else st.2 t
    (δ + ((tg i).map D).sum, D)

/-- gradients still owed to sources below `i` by targets at or above `i` -/
def cross (N : Net ι) (x : V ι) (n : Nat) (D : Nat → V ι) (i : Nat) : V ι :=
  ∑ t ∈ Finset.range n, if i ≤ t then (match N.S t with
      | some s => if s < i then B N x s (D t) else 0
      | none => 0) else 0

/-- the targets lists are exact -/
def Targets (N : Net ι) (n : Nat) (tg : Nat → List Nat) : Prop :=
  ∀ s, (tg s).Nodup ∧ ∀ t, t ∈ tg s ↔ (t < n ∧ N.S t = some s)

theorem targets_sum (N : Net ι) (n : Nat) (tg : Nat → List Nat) (htg : Targets N n tg) (s : Nat) (F : Nat → V ι) :
    ((tg s).map F).sum = ∑ t ∈ Finset.range n, if N.S t = some s then F t else 0 := by
  classical
  rw [← Finset.sum_filter, ← List.sum_toFinset F (htg s).1]
  apply Finset.sum_congr _ (fun _ _ => rfl)
  ext t
  simp [(htg s).2 t]

theorem sweep_invariant (N : Net ι) (tg : Nat → List Nat) (x : V ι) (n : Nat) (g : V ι)
    (hok : Ok N n x) (hS : ∀ i s, N.S i = some s → s ≤ i) (htg : Targets N n tg) :
    ∀ k, k ≤ n →
      B N x n g = B N x (n - k) (sweep N tg x n g k).1 + cross N x n (sweep N tg x n g k).2 (n - k) := by
  classical
  intro k
  induction k with
  | zero =>
    intro _
    have : cross N x n (fun _ => (0 : V ι)) n = 0 := by
      unfold cross
      apply Finset.sum_eq_zero
      intro t ht
      rw [Finset.mem_range] at ht
      rw [if_neg (by omega)]
    simp only [sweep, Nat.sub_zero, this, add_zero]
  | succ k ih =>
    intro hk
    have ih := ih (by omega)
    obtain ⟨j, hj⟩ : ∃ j, n - (k + 1) = j := ⟨_, rfl⟩
    have hj1 : n - k = j + 1 := by omega
    have hjn : j < n := by omega
    rw [hj1] at ih
    rw [ih]
    simp only [sweep, hj]
    set st := sweep N tg x n g k with hst
    set δ := N.b j (P N j x) st.1 with hδ
    set D := (fun t => if t = j then δ else st.2 t) with hD
    have hlin := tree_isVJP N n x hok j (by omega)
    rw [B_succ, IsVJP.map_add hlin, targets_sum N n tg htg j D, IsVJP.map_sum hlin]
    -- the pointwise identity
    have hpt : ∀ t ∈ Finset.range n,
        (B N x j (if N.S t = some j then D t else 0) +
          (if j ≤ t then (match N.S t with
            | some s => if s < j then B N x s (D t) else 0
            | none => 0) else 0)) =
        (if j + 1 ≤ t then (match N.S t with
            | some s => if s < j + 1 then B N x s (st.2 t) else 0
            | none => 0) else 0) + (if t = j then skipb N x j δ else 0) := by
      intro t _
      by_cases htj : t = j
      · subst htj
        have hDt : D t = δ := by simp [hD]
        rw [if_neg (show ¬ (t + 1 ≤ t) by omega), if_pos (rfl : t = t), if_pos (Nat.le_refl t), zero_add, hDt]
        unfold skipb
        cases hSt : N.S t with
        | none => simp [IsVJP.map_zero hlin]
        | some s =>
          have hle := hS t s hSt
          simp only [hle, if_true]
          by_cases hst' : s = t
          · subst hst'
            simp
          · rw [if_neg (show ¬ (some s = some t) from fun h => hst' (Option.some.inj h)), IsVJP.map_zero hlin, zero_add,
              if_pos (show s < t by omega)]
      · have hDt : D t = st.2 t := by simp [hD, htj]
        rw [if_neg htj, add_zero, hDt]
        by_cases hlt : t < j
        · rw [if_neg (show ¬ (j ≤ t) by omega), if_neg (show ¬ (j + 1 ≤ t) by omega)]
          have : N.S t ≠ some j := by
            intro h
            have := hS t j h
            omega
          rw [if_neg this, IsVJP.map_zero hlin, add_zero]
        · rw [if_pos (show j ≤ t by omega), if_pos (show j + 1 ≤ t by omega)]
          cases hSt : N.S t with
          | none => simp [IsVJP.map_zero hlin]
          | some s =>
            simp only []
            by_cases hsj : s = j
            · subst hsj
              simp
            · rw [if_neg (show ¬ (some s = some j) from fun h => hsj (Option.some.inj h)), IsVJP.map_zero hlin, zero_add]
              by_cases hlt' : s < j
              · rw [if_pos hlt', if_pos (show s < j + 1 by omega)]
              · rw [if_neg hlt', if_neg (show ¬ (s < j + 1) by omega)]
    have hsum := Finset.sum_congr rfl hpt
    rw [Finset.sum_add_distrib, Finset.sum_add_distrib, Finset.sum_ite_eq' (Finset.range n) j, if_pos (Finset.mem_range.mpr hjn)] at hsum
    unfold cross
    simp only [add_assoc]
    rw [hsum]
    congr 1
    exact add_comm _ _

/-- **the reverse sweep computes the transposed Jacobian of the network with any skip table** -/
theorem sweep_isVJP (N : Net ι) (tg : Nat → List Nat) (x : V ι) (n : Nat)
    (hok : Ok N n x) (hS : ∀ i s, N.S i = some s → s ≤ i) (htg : Targets N n tg) :
    IsVJP (U N n) x (fun g => (sweep N tg x n g n).1) := by
  have h := tree_isVJP N n x hok n (Nat.le_refl _)
  have heq : B N x n = fun g => (sweep N tg x n g n).1 := by
    funext g
    rw [sweep_invariant N tg x n g hok hS htg n (Nat.le_refl _), Nat.sub_self]
    have : cross N x n (sweep N tg x n g n).2 0 = 0 := by
      unfold cross
      apply Finset.sum_eq_zero
      intro t _
      rw [if_pos (Nat.zero_le _)]
      cases N.S t with
      | none => rfl
      | some s => simp
    rw [this, add_zero, B]
  rw [← heq]
  exact h

/-! ### reading the sweep -/

theorem sweep_succ_fst (N : Net ι) (tg : Nat → List Nat) (x : V ι) (n : Nat) (g : V ι) (k : Nat) :
    (sweep N tg x n g (k + 1)).1 =
      N.b (n - (k + 1)) (P N (n - (k + 1)) x) (sweep N tg x n g k).1 +
        ((tg (n - (k + 1))).map (sweep N tg x n g (k + 1)).2).sum := rfl

theorem sweep_D_self (N : Net ι) (tg : Nat → List Nat) (x : V ι) (n : Nat) (g : V ι) (k : Nat) :
    (sweep N tg x n g (k + 1)).2 (n - (k + 1)) = N.b (n - (k + 1)) (P N (n - (k + 1)) x) (sweep N tg x n g k).1 := by
  simp [sweep]

theorem sweep_D_other (N : Net ι) (tg : Nat → List Nat) (x : V ι) (n : Nat) (g : V ι) (k t : Nat) (h : t ≠ n - (k + 1)) :
    (sweep N tg x n g (k + 1)).2 t = (sweep N tg x n g k).2 t := by
  simp [sweep, h]

/-- once written, the gradient with respect to a processed input is not touched again -/
theorem sweep_stable (N : Net ι) (tg : Nat → List Nat) (x : V ι) (n : Nat) (g : V ι) (r : Nat) :
    ∀ k, r + 1 ≤ k → k ≤ n → (sweep N tg x n g k).2 (n - (r + 1)) = (sweep N tg x n g (r + 1)).2 (n - (r + 1)) := by
  intro k
  induction k with
  | zero => intro h; omega
  | succ k ih =>
    intro h1 h2
    rcases Nat.lt_or_ge r k with h3 | h3
    · rw [sweep_D_other _ _ _ _ _ _ _ (by omega)]
      exact ih (by omega) (by omega)
    · have : k = r := by omega
      subst this
      rfl

end SkipDag
