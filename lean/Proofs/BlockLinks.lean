import Proofs.ChainBlock
import Proofs.ChainLinks

/-!
# Inner layers of feedback blocks as links: dense, convolution, deconvolution (C01)
-/

set_option linter.unusedSectionVars false
set_option linter.unusedVariables false

namespace BlockLinks
open Network Scalar VJP ConvVJP ConvBridge DeconvBridge Flat3 DenseBridge DenseStack LayerChain ConvNet ChainLinks ChainBlock

variable {k : Idx} {ek : Enc k}

/-- a dense inner layer in front of inner layers realising `rest` -/
theorem innerReal_dense {r c : ℕ} (l : DenseLayer ℝ) (a : Act) (W : V (Fin r × Fin c)) (b : Vec r) (hl : IsDense l a W b)
    (hin : l.inputs = .single c)
    (ha : a ≠ .softmax) (hr : 0 < r) (hc : 0 < c) (rest : Chain (iVec r) (eVec r) k ek) (ilr : List (InnerLayer ℝ)) (x : Vec c)
    (hrest : InnerReal rest ilr (denseFn (Act.f a) W b x)) :
    InnerReal (consDense l a W b rest) (.dense l :: ilr) x := by
  obtain ⟨h1, h2⟩ := real_dense l a W b hl ha hr hc x
  exact ⟨.dense l, ilr, rfl, rfl, by simp [InnerLayer.inputs, hin, eVec, vecT], h1, fun g r => h2 g, hrest⟩

/-- a convolution inner layer -/
theorem innerReal_conv {kf kc kh kw ih iw oh ow : ℕ} (l : Conv ℝ) (a : Act) (K : V (I4 kf kc kh kw))
    (hl : IsConv l a K ih iw oh ow) (ha : a ≠ .softmax) (hfl : l.flatten = false)
    (rest : Chain (iVol kf oh ow) (eVol kf oh ow) k ek) (ilr : List (InnerLayer ℝ)) (x : V (I3 kc ih iw))
    (hrest : InnerReal rest ilr (convFn l a K ih iw oh ow x)) :
    InnerReal (consConv l a K ih iw rest) (.conv l :: ilr) x := by
  obtain ⟨h1, h2⟩ := real_conv l a K hl ha hfl x
  exact ⟨.conv l, ilr, rfl, rfl, by simp [InnerLayer.inputs, hl.inputs, eVol, T3], h1, fun g r => h2 g, hrest⟩

/-- a deconvolution inner layer -/
theorem innerReal_deconv {kf kc kh kw ih iw oh ow : ℕ} (l : Deconv ℝ) (a : Act) (K : V (I4 kf kc kh kw))
    (hl : IsDeconv l a K ih iw oh ow) (ha : a ≠ .softmax) (hfl : l.flatten = false)
    (rest : Chain (iVol kf oh ow) (eVol kf oh ow) k ek) (ilr : List (InnerLayer ℝ)) (x : V (I3 kc ih iw))
    (hrest : InnerReal rest ilr (deconvFn l a K ih iw oh ow x)) :
    InnerReal (consDeconv l a K ih iw rest) (.deconv l :: ilr) x := by
  obtain ⟨h1, h2⟩ := real_deconv l a K hl ha hfl x
  exact ⟨.deconv l, ilr, rfl, rfl, by simp [InnerLayer.inputs, hl.inputs, eVol, T3], h1, fun g r => h2 g, hrest⟩

end BlockLinks
