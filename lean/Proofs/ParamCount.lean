import Model.Train

/-!
# Counting the scalars a layer holds (helpers for C10's parameter-count clause)

`v3count` counts the entries of a 3-D nest; for a `c × h × w` box it is `c·h·w`; the kernel list of a spatial layer
whose kernels all have one extent holds `filters · c·h·w` scalars.
-/

set_option linter.unusedSectionVars false

namespace ParamCount
open Scalar

variable {α : Type} [Scalar α]

/-- the number of scalars a 3-D nest holds -/
def v3count (v : V3 α) : Nat := (v.map (fun m => (m.map List.length).sum)).sum

/-- a `c × h × w` nest -/
def IsBox (c h w : Nat) (v : V3 α) : Prop :=
  v.length = c ∧ ∀ m ∈ v, m.length = h ∧ ∀ r ∈ m, r.length = w

theorem sum_map_const {β : Type} (l : List β) (f : β → Nat) (k : Nat) (h : ∀ x ∈ l, f x = k) :
    (l.map f).sum = l.length * k := by
  induction l with
  | nil => simp
  | cons a t ih =>
    have ha := h a (by simp)
    have ht := ih (fun x hx => h x (by simp [hx]))
    simp [ha, ht, Nat.succ_mul, Nat.add_comm]

theorem v3count_box (c h w : Nat) (v : V3 α) (hb : IsBox c h w v) : v3count v = c * (h * w) := by
  obtain ⟨hc, hm⟩ := hb
  unfold v3count
  rw [sum_map_const v _ (h * w), hc]
  intro m hmem
  obtain ⟨hh, hr⟩ := hm m hmem
  rw [sum_map_const m _ w hr, hh]

/-- what the kernel list of a spatial layer holds -/
def kernelScalars (ks : List (Tensor α)) : Nat :=
  (ks.map (fun k => match k.data with | .triple v => v3count v | _ => 0)).sum

theorem kernelScalars_box (c h w : Nat) (ks : List (Tensor α))
    (hk : ∀ k ∈ ks, ∃ v, k.data = .triple v ∧ IsBox c h w v) : kernelScalars ks = ks.length * (c * (h * w)) := by
  unfold kernelScalars
  apply sum_map_const
  intro k hmem
  obtain ⟨v, hv, hb⟩ := hk k hmem
  simp [hv, v3count_box c h w v hb]

theorem box_nonempty (c h w : Nat) (hc : 0 < c) (hh : 0 < h) (v : V3 α) (hb : IsBox c h w v) :
    ∃ r m cs, v = (r :: m) :: cs ∧ ((r :: m) :: cs).length = c ∧ (r :: m).length = h ∧ r.length = w := by
  obtain ⟨hcl, hm⟩ := hb
  match v, hcl, hm with
  | [], hcl, _ => simp at hcl; omega
  | [] :: cs, _, hm => have := (hm [] (by simp)).1; simp at this; omega
  | (r :: m) :: cs, hcl, hm =>
    exact ⟨r, m, cs, rfl, hcl, (hm (r :: m) (by simp)).1, (hm (r :: m) (by simp)).2 r (by simp)⟩

end ParamCount
