import Proofs.Adjoint
import Proofs.Adjoint4
import Props.C02

/-!
# Deconvolution: the backward input gradient is the transpose of the forward map

Forward (`Deconv.scatter`) and backward (`Deconv.gradPass`) iterate the *same* tap list; the forward
pass scatters `x[c][i][j]·K[k][c][ki][kj]` into `y[k][oi][oj]`, the backward pass scatters
`δ[k][oi][oj]·K[k][c][ki][kj]` into `gx[c][i][j]`.  By scatter/gather duality both inner products
are the same sum over `(k, c, tap)`.
-/

open Finset

namespace DeconvAdjoint
open Scatter Adjoint Adjoint4

/-- the first component of a fold that updates two independent accumulators -/
theorem fold_pair_fst {A B T : Type} (F : A → T → A) (G : B → T → B) : ∀ (l : List T) (a : A) (b : B),
    (l.foldl (fun (acc : A × B) t => (F acc.1 t, G acc.2 t)) (a, b)).1 = l.foldl F a
  | [], _, _ => rfl
  | t :: l, a, b => by simp only [List.foldl_cons]; exact fold_pair_fst F G l _ _

/-- the input-gradient updates of the backward pass -/
noncomputable def igUpdates (ks : List (V3 ℝ)) (delta : V3 ℝ) (kf kc : ℕ) (tp : List (ℕ × ℕ × ℕ × ℕ × ℕ × ℕ)) : List Upd :=
  (List.range kf).flatMap (fun f => (List.range kc).flatMap (fun c => tp.map (fun t =>
    ⟨c, t.1, t.2.1, L.get3D 0 delta f t.2.2.2.2.1 t.2.2.2.2.2 * L.get4D 0 ks f c t.2.2.1 t.2.2.2.1⟩)))

/-- the input gradient of `Deconv.gradPass` is the scatter of `igUpdates` into zeros -/
theorem gradPass_fst (x : V3 ℝ) (ks : List (V3 ℝ)) (delta : V3 ℝ) (kf kc kh kw ih iw : ℕ)
    (tp : List (ℕ × ℕ × ℕ × ℕ × ℕ × ℕ)) :
    (Deconv.gradPass x ks delta kf kc kh kw ih iw tp).1 =
      (igUpdates ks delta kf kc tp).foldl (fun acc u => L.mod3 (· + u.v) acc u.c u.i u.j) (L.replicate3 kc ih iw 0) := by
  unfold Deconv.gradPass igUpdates
  -- peel the three loop levels, keeping only the first accumulator
  have inner : ∀ (f c : ℕ) (acc : V3 ℝ × V4 ℝ),
      (tp.foldl (Deconv.gradStep x ks delta f c) acc).1 =
        tp.foldl (fun a t => L.mod3 (· + L.get3D 0 delta f t.2.2.2.2.1 t.2.2.2.2.2 * L.get4D 0 ks f c t.2.2.1 t.2.2.2.1) a c t.1 t.2.1) acc.1 := by
    intro f c acc
    obtain ⟨a, b⟩ := acc
    exact fold_pair_fst
      (fun a t => L.mod3 (· + L.get3D 0 delta f t.2.2.2.2.1 t.2.2.2.2.2 * L.get4D 0 ks f c t.2.2.1 t.2.2.2.1) a c t.1 t.2.1)
      (fun b t => L.mod4 (· + L.get3D 0 delta f t.2.2.2.2.1 t.2.2.2.2.2 * L.get3D 0 x c t.1 t.2.1) b f c t.2.2.1 t.2.2.2.1)
      tp a b
  have mid : ∀ (f : ℕ) (cs : List ℕ) (acc : V3 ℝ × V4 ℝ),
      (cs.foldl (fun acc c => tp.foldl (Deconv.gradStep x ks delta f c) acc) acc).1 =
        cs.foldl (fun a c => tp.foldl (fun a t => L.mod3 (· + L.get3D 0 delta f t.2.2.2.2.1 t.2.2.2.2.2 * L.get4D 0 ks f c t.2.2.1 t.2.2.2.1) a c t.1 t.2.1) a) acc.1 := by
    intro f cs
    induction cs with
    | nil => intro acc; rfl
    | cons c cs ih => intro acc; simp only [List.foldl_cons]; rw [ih, inner]
  have outer : ∀ (fs : List ℕ) (acc : V3 ℝ × V4 ℝ),
      (fs.foldl (fun acc f => (List.range kc).foldl (fun acc c => tp.foldl (Deconv.gradStep x ks delta f c) acc) acc) acc).1 =
        fs.foldl (fun a f => (List.range kc).foldl (fun a c => tp.foldl (fun a t =>
          L.mod3 (· + L.get3D 0 delta f t.2.2.2.2.1 t.2.2.2.2.2 * L.get4D 0 ks f c t.2.2.1 t.2.2.2.1) a c t.1 t.2.1) a) a) acc.1 := by
    intro fs
    induction fs with
    | nil => intro acc; rfl
    | cons f fs ih => intro acc; simp only [List.foldl_cons]; rw [ih, mid]
  rw [outer]
  simp only [List.foldl_flatMap, List.foldl_map]

/-- **adjoint identity for the deconvolution's input**: for every upstream `δ` and every direction `v`
    (a tensor in the input's box), `⟨δ, forward-linear-part(v)⟩ = ⟨input gradient(δ), v⟩` — for every
    stride, padding, kernel and size -/
theorem input_adjoint (l : Deconv ℝ) (x v : V3 ℝ) (ks : List (V3 ℝ)) (delta : V3 ℝ) (kf kc ih iw kh kw oh ow : ℕ) :
    ip3 kf oh ow (Deconv.scatter v ks kf kc (Deconv.taps l ih iw kh kw oh ow) oh ow) delta =
      ip3 kc ih iw (Deconv.gradPass x ks delta kf kc kh kw ih iw (Deconv.taps l ih iw kh kw oh ow)).1 v := by
  rw [C02.scatter_as_updates, gradPass_fst]
  rw [ip3_scatter_zeros, ip3_scatter_zeros]
  · unfold C02.deconvUpdates igUpdates
    simp only [List.map_flatMap, List.map_map]
    congr 1
    apply List.flatMap_congr; intro f _
    apply List.flatMap_congr; intro c _
    apply List.map_congr_left; intro t _
    simp only [Function.comp]
    ring
  · intro u hu
    unfold igUpdates at hu
    simp only [List.mem_flatMap, List.mem_range, List.mem_map] at hu
    obtain ⟨f, _, c, hc, t, ht, rfl⟩ := hu
    have := (C02.mem_taps l ih iw kh kw oh ow t).mp ht
    exact ⟨hc, this.1, this.2.1⟩
  · intro u hu
    unfold C02.deconvUpdates at hu
    simp only [List.mem_flatMap, List.mem_range, List.mem_map] at hu
    obtain ⟨k, hk, c, _, t, ht, rfl⟩ := hu
    have := (C02.mem_taps l ih iw kh kw oh ow t).mp ht
    exact ⟨hk, this.2.2.2.2.2.2.2.2.1, this.2.2.2.2.2.2.2.2.2⟩


/-! ### the kernels -/

theorem fold_pair_snd {A B T : Type} (F : A → T → A) (G : B → T → B) : ∀ (l : List T) (a : A) (b : B),
    (l.foldl (fun (acc : A × B) t => (F acc.1 t, G acc.2 t)) (a, b)).2 = l.foldl G b
  | [], _, _ => rfl
  | t :: l, a, b => by simp only [List.foldl_cons]; exact fold_pair_snd F G l _ _

/-- the kernel-gradient updates of the backward pass -/
noncomputable def kgUpdates (x delta : V3 ℝ) (kf kc : ℕ) (tp : List (ℕ × ℕ × ℕ × ℕ × ℕ × ℕ)) : List Upd4 :=
  (List.range kf).flatMap (fun f => (List.range kc).flatMap (fun c => tp.map (fun t =>
    ⟨f, c, t.2.2.1, t.2.2.2.1, L.get3D 0 delta f t.2.2.2.2.1 t.2.2.2.2.2 * L.get3D 0 x c t.1 t.2.1⟩)))

theorem gradPass_snd (x : V3 ℝ) (ks : List (V3 ℝ)) (delta : V3 ℝ) (kf kc kh kw ih iw : ℕ)
    (tp : List (ℕ × ℕ × ℕ × ℕ × ℕ × ℕ)) :
    (Deconv.gradPass x ks delta kf kc kh kw ih iw tp).2 =
      (kgUpdates x delta kf kc tp).foldl (fun acc u => L.mod4 (· + u.v) acc u.f u.c u.i u.j) (L.replicate4 kf kc kh kw 0) := by
  unfold Deconv.gradPass kgUpdates
  have inner : ∀ (f c : ℕ) (acc : V3 ℝ × V4 ℝ),
      (tp.foldl (Deconv.gradStep x ks delta f c) acc).2 =
        tp.foldl (fun b t => L.mod4 (· + L.get3D 0 delta f t.2.2.2.2.1 t.2.2.2.2.2 * L.get3D 0 x c t.1 t.2.1) b f c t.2.2.1 t.2.2.2.1) acc.2 := by
    intro f c acc
    obtain ⟨a, b⟩ := acc
    exact fold_pair_snd
      (fun a t => L.mod3 (· + L.get3D 0 delta f t.2.2.2.2.1 t.2.2.2.2.2 * L.get4D 0 ks f c t.2.2.1 t.2.2.2.1) a c t.1 t.2.1)
      (fun b t => L.mod4 (· + L.get3D 0 delta f t.2.2.2.2.1 t.2.2.2.2.2 * L.get3D 0 x c t.1 t.2.1) b f c t.2.2.1 t.2.2.2.1)
      tp a b
  have mid : ∀ (f : ℕ) (cs : List ℕ) (acc : V3 ℝ × V4 ℝ),
      (cs.foldl (fun acc c => tp.foldl (Deconv.gradStep x ks delta f c) acc) acc).2 =
        cs.foldl (fun b c => tp.foldl (fun b t => L.mod4 (· + L.get3D 0 delta f t.2.2.2.2.1 t.2.2.2.2.2 * L.get3D 0 x c t.1 t.2.1) b f c t.2.2.1 t.2.2.2.1) b) acc.2 := by
    intro f cs
    induction cs with
    | nil => intro acc; rfl
    | cons c cs ih => intro acc; simp only [List.foldl_cons]; rw [ih, inner]
  have outer : ∀ (fs : List ℕ) (acc : V3 ℝ × V4 ℝ),
      (fs.foldl (fun acc f => (List.range kc).foldl (fun acc c => tp.foldl (Deconv.gradStep x ks delta f c) acc) acc) acc).2 =
        fs.foldl (fun b f => (List.range kc).foldl (fun b c => tp.foldl (fun b t =>
          L.mod4 (· + L.get3D 0 delta f t.2.2.2.2.1 t.2.2.2.2.2 * L.get3D 0 x c t.1 t.2.1) b f c t.2.2.1 t.2.2.2.1) b) b) acc.2 := by
    intro fs
    induction fs with
    | nil => intro acc; rfl
    | cons f fs ih => intro acc; simp only [List.foldl_cons]; rw [ih, mid]
  rw [outer]
  simp only [List.foldl_flatMap, List.foldl_map]

/-- **adjoint identity for the deconvolution's kernels**: for every upstream `δ` and every kernel
    direction `dK`, `⟨δ, forward with kernels dK⟩ = ⟨kernel gradient(δ), dK⟩` -/
theorem kernel_adjoint (l : Deconv ℝ) (x : V3 ℝ) (ks dK : List (V3 ℝ)) (delta : V3 ℝ) (kf kc ih iw kh kw oh ow : ℕ) :
    ip3 kf oh ow (Deconv.scatter x dK kf kc (Deconv.taps l ih iw kh kw oh ow) oh ow) delta =
      ip4 kf kc kh kw (Deconv.gradPass x ks delta kf kc kh kw ih iw (Deconv.taps l ih iw kh kw oh ow)).2 dK := by
  rw [C02.scatter_as_updates, gradPass_snd]
  rw [ip3_scatter_zeros, ip4_scatter_zeros]
  · unfold C02.deconvUpdates kgUpdates
    simp only [List.map_flatMap, List.map_map]
    congr 1
    apply List.flatMap_congr; intro f _
    apply List.flatMap_congr; intro c _
    apply List.map_congr_left; intro t _
    simp only [Function.comp]
    ring
  · intro u hu
    unfold kgUpdates at hu
    simp only [List.mem_flatMap, List.mem_range, List.mem_map] at hu
    obtain ⟨f, hf, c, hc, t, ht, rfl⟩ := hu
    have := (C02.mem_taps l ih iw kh kw oh ow t).mp ht
    exact ⟨hf, hc, this.2.2.1, this.2.2.2.1⟩
  · intro u hu
    unfold C02.deconvUpdates at hu
    simp only [List.mem_flatMap, List.mem_range, List.mem_map] at hu
    obtain ⟨k, hk, c, _, t, ht, rfl⟩ := hu
    have := (C02.mem_taps l ih iw kh kw oh ow t).mp ht
    exact ⟨hk, this.2.2.2.2.2.2.2.2.1, this.2.2.2.2.2.2.2.2.2⟩

end DeconvAdjoint
