import Proofs.Chain
import Proofs.ConvNet

/-!
# The model's layer kinds as links of a `Chain` (C01): dense, convolution, convolution followed by a
dense layer (flattened output)
-/

set_option linter.unusedSectionVars false
set_option linter.unusedVariables false

namespace ChainLinks
open Network Scalar VJP ConvVJP ConvBridge Flat3 DenseBridge DenseStack LayerChain ConvNet

/-- flat vectors of length `n` -/
abbrev iVec (n : ℕ) : Idx := ⟨Fin n⟩
/-- `c × h × w` tensors -/
abbrev iVol (c h w : ℕ) : Idx := ⟨I3 c h w⟩

noncomputable def eVec (n : ℕ) : Enc (iVec n) := fun v => vecT v
noncomputable def eVol (c h w : ℕ) : Enc (iVol c h w) := fun v => T3 v

/-! ### dense -/

section dense
variable {r c : ℕ}

noncomputable def denseBwd (a : Act) (W : V (Fin r × Fin c)) (b : Vec r) (x : Vec c) (g : Vec r) : Vec c :=
  inputGrad W (VJP.delta (Act.df a) (densePre W b x) g)

noncomputable def denseWG (a : Act) (W : V (Fin r × Fin c)) (b : Vec r) (x : Vec c) (g : Vec r) : WGrad ℝ × BGrad ℝ :=
  (.one (matT (weightGrad (VJP.delta (Act.df a) (densePre W b x) g) x)),
   .one (some (vecT (VJP.delta (Act.df a) (densePre W b x) g))))

/-- a dense layer in front of a chain -/
noncomputable def consDense {k : Idx} {ek : Enc k} (l : DenseLayer ℝ) (a : Act) (W : V (Fin r × Fin c)) (b : Vec r)
    (rest : Chain (iVec r) (eVec r) k ek) : Chain (iVec c) (eVec c) k ek :=
  .cons (.dense l) (denseFn (Act.f a) W b) (denseBwd a W b) (fun x => vecT (densePre W b x)) (fun _ => .none)
    (denseWG a W b) rest

theorem real_dense (l : DenseLayer ℝ) (a : Act) (W : V (Fin r × Fin c)) (b : Vec r) (hl : IsDense l a W b)
    (ha : a ≠ .softmax) (hr : 0 < r) (hc : 0 < c) (x : Vec c) :
    layerForward (.dense l) (vecT x) = .ok (vecT (densePre W b x), vecT (denseFn (Act.f a) W b x), .none) ∧
    ∀ g, layerBackward (.dense l) (vecT g) (vecT x) (vecT (densePre W b x)) (.ok .none) =
      .ok (vecT (denseBwd a W b x g), (denseWG a W b x g).1, (denseWG a W b x g).2) := by
  refine ⟨by simp only [layerForward, DenseBridge.forward_eq l a W b hl ha x], fun g => ?_⟩
  simp only [layerBackward, DenseBridge.backward_eq l a W b hl ha hr hc x g]
  rfl

theorem vjp_dense (a : Act) (ha : a ≠ .softmax) (W : V (Fin r × Fin c)) (b : Vec r) (x : Vec c)
    (hk : ∀ i, NoKink a (densePre W b x i)) :
    IsVJP (ι := (iVec c).T) (κ := (iVec r).T) (denseFn (Act.f a) W b) x (denseBwd a W b x) :=
  dense_vjp_input (Act.f a) (Act.df a) W b x (fun i => act_hasDerivAt a ha _ (hk i))

end dense

/-! ### convolution -/

section conv
variable {kf kc kh kw ih iw oh ow : ℕ}

/-- the zero-padded input the layer works on -/
noncomputable def padOf (l : Conv ℝ) (ih iw : ℕ) (x : V (I3 kc ih iw)) : V3 ℝ :=
  match Tensor.pad3d (toList3 x) (ih + 2 * l.padding.1) (iw + 2 * l.padding.2) with
  | .ok xp => xp
  | .error _ => []

theorem padOf_ok (l : Conv ℝ) (x : V (I3 kc ih iw)) (hkc : 0 < kc) (hih : 0 < ih) :
    Tensor.pad3d (toList3 x) (ih + 2 * l.padding.1) (iw + 2 * l.padding.2) = .ok (padOf l ih iw x) := by
  obtain ⟨xp, hp, _⟩ := C02.pad3d_get (toList3 x) kc ih iw l.padding.1 l.padding.2 (toList3_dims x) hkc hih
  simp only [padOf, hp]

noncomputable def convBwdX (l : Conv ℝ) (a : Act) (K : V (I4 kf kc kh kw)) (ih iw oh ow : ℕ) (x : V (I3 kc ih iw))
    (g : V (I3 kf oh ow)) : V (I3 kc ih iw) :=
  convBwd l (toList4 K) kf kc kh kw ih iw oh ow (ConvBridge.delta a (pre l K ih iw oh ow x) g)

noncomputable def convBwdKer (l : Conv ℝ) (a : Act) (K : V (I4 kf kc kh kw)) (ih iw oh ow : ℕ) (x : V (I3 kc ih iw))
    (g : V (I3 kf oh ow)) : V (I4 kf kc kh kw) :=
  convBwdK l kf kc kh kw oh ow (padOf l ih iw x) (ih + 2 * l.padding.1) (iw + 2 * l.padding.2)
    (ConvBridge.delta a (pre l K ih iw oh ow x) g)

/-- a convolution whose output stays `kf × oh × ow` (another spatial layer follows) -/
noncomputable def consConv {k : Idx} {ek : Enc k} (l : Conv ℝ) (a : Act) (K : V (I4 kf kc kh kw)) (ih iw : ℕ)
    (rest : Chain (iVol kf oh ow) (eVol kf oh ow) k ek) : Chain (iVol kc ih iw) (eVol kc ih iw) k ek :=
  .cons (.conv l) (convFn l a K ih iw oh ow) (convBwdX l a K ih iw oh ow) (fun x => T3 (pre l K ih iw oh ow x))
    (fun _ => .none) (fun x g => (.one (T4 (convBwdKer l a K ih iw oh ow x g)), .one none)) rest

/-- a convolution whose output is flattened (a dense layer follows) -/
noncomputable def consConvFlat {k : Idx} {ek : Enc k} (l : Conv ℝ) (a : Act) (K : V (I4 kf kc kh kw)) (ih iw : ℕ)
    (rest : Chain (iVec (kf * oh * ow)) (eVec (kf * oh * ow)) k ek) : Chain (iVol kc ih iw) (eVol kc ih iw) k ek :=
  .cons (.conv l) (fun x => flat (convFn l a K ih iw oh ow x)) (fun x g => convBwdX l a K ih iw oh ow x (unflat g))
    (fun x => T3 (pre l K ih iw oh ow x)) (fun _ => .none)
    (fun x g => (.one (T4 (convBwdKer l a K ih iw oh ow x (unflat g))), .one none)) rest

theorem real_conv (l : Conv ℝ) (a : Act) (K : V (I4 kf kc kh kw)) (hl : IsConv l a K ih iw oh ow) (ha : a ≠ .softmax)
    (hfl : l.flatten = false) (x : V (I3 kc ih iw)) :
    layerForward (.conv l) (T3 x) = .ok (T3 (pre l K ih iw oh ow x), T3 (convFn l a K ih iw oh ow x), .none) ∧
    ∀ g, layerBackward (.conv l) (T3 g) (T3 x) (T3 (pre l K ih iw oh ow x)) (.ok .none) =
      .ok (T3 (convBwdX l a K ih iw oh ow x g), .one (T4 (convBwdKer l a K ih iw oh ow x g)), .one none) := by
  obtain ⟨hkf, hkc, hkh, hih, hoh⟩ := hl.pos
  refine ⟨by simp only [layerForward, ConvBridge.forward_eq l a K hl ha hfl x]; rfl, fun g => ?_⟩
  obtain ⟨xp, hp, hb⟩ := ConvBridge.backward_eq l a K hl ha x g (T3 g) rfl
  rw [padOf_ok l x hkc hih] at hp
  cases hp
  simp only [layerBackward, hb, kernelGrad_T4]
  rfl

theorem real_conv_flat (l : Conv ℝ) (a : Act) (K : V (I4 kf kc kh kw)) (hl : IsConv l a K ih iw oh ow) (ha : a ≠ .softmax)
    (hfl : l.flatten = true) (x : V (I3 kc ih iw)) :
    layerForward (.conv l) (T3 x) = .ok (T3 (pre l K ih iw oh ow x), vecT (flat (convFn l a K ih iw oh ow x)), .none) ∧
    ∀ g : Vec (kf * oh * ow), layerBackward (.conv l) (vecT g) (T3 x) (T3 (pre l K ih iw oh ow x)) (.ok .none) =
      .ok (T3 (convBwdX l a K ih iw oh ow x (unflat g)), .one (T4 (convBwdKer l a K ih iw oh ow x (unflat g))), .one none) := by
  obtain ⟨hkf, hkc, hkh, hih, hoh⟩ := hl.pos
  refine ⟨layerForward_conv l a K hl ha hfl x, fun g => ?_⟩
  obtain ⟨xp, hp, hb⟩ := layerBackward_conv l a K hl ha x g (.ok .none)
  rw [padOf_ok l x hkc hih] at hp
  cases hp
  rw [hb, kernelGrad_T4]
  rfl

theorem vjp_conv (l : Conv ℝ) (a : Act) (K : V (I4 kf kc kh kw)) (hl : IsConv l a K ih iw oh ow) (ha : a ≠ .softmax)
    (x : V (I3 kc ih iw)) (hk : ∀ i, NoKink a (pre l K ih iw oh ow x i)) :
    IsVJP (ι := (iVol kc ih iw).T) (κ := (iVol kf oh ow).T) (convFn l a K ih iw oh ow) x (convBwdX l a K ih iw oh ow x) :=
  conv_vjp_input l a K hl x (fun i => act_hasDerivAt a ha _ (hk i))

theorem vjp_conv_flat (l : Conv ℝ) (a : Act) (K : V (I4 kf kc kh kw)) (hl : IsConv l a K ih iw oh ow) (ha : a ≠ .softmax)
    (x : V (I3 kc ih iw)) (hk : ∀ i, NoKink a (pre l K ih iw oh ow x i)) :
    IsVJP (ι := (iVol kc ih iw).T) (κ := (iVec (kf * oh * ow)).T) (fun x => flat (convFn l a K ih iw oh ow x)) x
      (fun g => convBwdX l a K ih iw oh ow x (unflat g)) :=
  IsVJP.comp (vjp_conv l a K hl ha x hk) (flat_isVJP (convFn l a K ih iw oh ow x))

/-- the kernels: the recorded kernel gradient is the transposed Jacobian in the kernels -/
theorem vjp_conv_kernels (l : Conv ℝ) (a : Act) (K : V (I4 kf kc kh kw)) (hl : IsConv l a K ih iw oh ow) (ha : a ≠ .softmax)
    (x : V (I3 kc ih iw)) (hk : ∀ i, NoKink a (pre l K ih iw oh ow x i)) :
    IsVJP (fun K' => convFn l a K' ih iw oh ow x) K (convBwdKer l a K ih iw oh ow x) := by
  obtain ⟨hkf, hkc, hkh, hih, hoh⟩ := hl.pos
  exact conv_vjp_kernels l a K hl x _ (padOf_ok l x hkc hih) (fun i => act_hasDerivAt a ha _ (hk i))

end conv

/-! ### a stack of dense layers as a chain -/

noncomputable def stackChain : {n k : ℕ} → Stack n k → Chain (iVec n) (eVec n) (iVec k) (eVec k)
  | _, _, .nil n => .nil (iVec n) (eVec n)
  | _, _, .cons a W b rest => consDense (denseLayer a W b) a W b (stackChain rest)

theorem stackChain_layers : ∀ {n k : ℕ} (s : Stack n k), LayerChain.layers (stackChain s) = s.layers
  | _, _, .nil _ => rfl
  | _, _, .cons a W b rest => by simp [stackChain, consDense, LayerChain.layers, Stack.layers, stackChain_layers rest]

theorem stackChain_real : ∀ {n k : ℕ} (s : Stack n k) (x : Vec n), s.Valid → Real (stackChain s) x
  | _, _, .nil _, _, _ => trivial
  | _, _, .cons a W b rest, x, hv => by
    obtain ⟨h1, h2⟩ := real_dense (denseLayer a W b) a W b (denseLayer_isDense a W b) hv.1 hv.2.2.1 hv.2.1 x
    exact ⟨h1, h2, stackChain_real rest _ hv.2.2.2⟩

theorem stackChain_ok : ∀ {n k : ℕ} (s : Stack n k) (x : Vec n), s.Valid → s.NoKinks x → (gnet (stackChain s)).Ok x
  | _, _, .nil _, _, _, _ => trivial
  | _, _, .cons a W b rest, x, hv, hk =>
    ⟨vjp_dense a hv.1 W b x hk.1, stackChain_ok rest _ hv.2.2.2 hk.2⟩

theorem stack_gnet_fwd : ∀ {n k : ℕ} (s : Stack n k) (z : Vec n), (gnet (stackChain s)).fwd z = s.net.fwd z
  | _, _, .nil _, _ => rfl
  | _, _, .cons a W b rest, z => by
    simp only [stackChain, consDense, gnet, GNet.fwd, Stack.net, Net.fwd]
    exact stack_gnet_fwd rest _

theorem stack_gnet_bwd : ∀ {n k : ℕ} (s : Stack n k) (z : Vec n) (g : Vec k), (gnet (stackChain s)).bwd z g = s.net.bwd z g
  | _, _, .nil _, _, _ => rfl
  | _, _, .cons a W b rest, z, g => by
    simp only [stackChain, consDense, gnet, GNet.bwd, Stack.net, Net.bwd, denseBwd]
    rw [stack_gnet_bwd rest]

end ChainLinks
