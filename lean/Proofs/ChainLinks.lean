import Proofs.Chain
import Proofs.ConvNet
import Proofs.DeconvBridge
import Proofs.DenseBlock
import Proofs.MaxpoolLocal

/-!
# The model's layer kinds as links of a `Chain` (C01): dense, convolution, convolution followed by a
dense layer (flattened output)
-/

set_option linter.unusedSectionVars false
set_option linter.unusedVariables false

namespace ChainLinks
open Network Scalar VJP ConvVJP ConvBridge Flat3 DenseBridge DenseStack LayerChain ConvNet

/-- flat vectors of length `n` -/
abbrev iVec (n : ℕ) : Idx := ⟨Fin n⟩
/-- `c × h × w` tensors -/
abbrev iVol (c h w : ℕ) : Idx := ⟨I3 c h w⟩

noncomputable def eVec (n : ℕ) : Enc (iVec n) := fun v => vecT v
noncomputable def eVol (c h w : ℕ) : Enc (iVol c h w) := fun v => T3 v

/-! ### dense -/

section dense
variable {r c : ℕ}

noncomputable def denseBwd (a : Act) (W : V (Fin r × Fin c)) (b : Vec r) (x : Vec c) (g : Vec r) : Vec c :=
  inputGrad W (VJP.delta (Act.df a) (densePre W b x) g)

noncomputable def denseWG (a : Act) (W : V (Fin r × Fin c)) (b : Vec r) (x : Vec c) (g : Vec r) : WGrad ℝ × BGrad ℝ :=
  (.one (matT (weightGrad (VJP.delta (Act.df a) (densePre W b x) g) x)),
   .one (some (vecT (VJP.delta (Act.df a) (densePre W b x) g))))

/-- a dense layer in front of a chain -/
noncomputable def consDense {k : Idx} {ek : Enc k} (l : DenseLayer ℝ) (a : Act) (W : V (Fin r × Fin c)) (b : Vec r)
    (rest : Chain (iVec r) (eVec r) k ek) : Chain (iVec c) (eVec c) k ek :=
  .cons (.dense l) (denseFn (Act.f a) W b) (denseBwd a W b) (fun x => vecT (densePre W b x)) (fun _ => .none)
    (denseWG a W b) rest

theorem real_dense (l : DenseLayer ℝ) (a : Act) (W : V (Fin r × Fin c)) (b : Vec r) (hl : IsDense l a W b)
    (ha : a ≠ .softmax) (hr : 0 < r) (hc : 0 < c) (x : Vec c) :
    layerForward (.dense l) (vecT x) = .ok (vecT (densePre W b x), vecT (denseFn (Act.f a) W b x), .none) ∧
    ∀ g, layerBackward (.dense l) (vecT g) (vecT x) (vecT (densePre W b x)) (.ok .none) =
      .ok (vecT (denseBwd a W b x g), (denseWG a W b x g).1, (denseWG a W b x g).2) := by
  refine ⟨by simp only [layerForward, DenseBridge.forward_eq l a W b hl ha x], fun g => ?_⟩
  simp only [layerBackward, DenseBridge.backward_eq l a W b hl ha hr hc x g]
  rfl

theorem vjp_dense (a : Act) (ha : a ≠ .softmax) (W : V (Fin r × Fin c)) (b : Vec r) (x : Vec c)
    (hk : ∀ i, NoKink a (densePre W b x i)) :
    IsVJP (ι := (iVec c).T) (κ := (iVec r).T) (denseFn (Act.f a) W b) x (denseBwd a W b x) :=
  dense_vjp_input (Act.f a) (Act.df a) W b x (fun i => act_hasDerivAt a ha _ (hk i))

end dense

/-! ### convolution -/

section conv
variable {kf kc kh kw ih iw oh ow : ℕ}

/-- the zero-padded input the layer works on -/
noncomputable def padOf (l : Conv ℝ) (ih iw : ℕ) (x : V (I3 kc ih iw)) : V3 ℝ :=
  match Tensor.pad3d (toList3 x) (ih + 2 * l.padding.1) (iw + 2 * l.padding.2) with
  | .ok xp => xp
  | .error _ => []

theorem padOf_ok (l : Conv ℝ) (x : V (I3 kc ih iw)) (hkc : 0 < kc) (hih : 0 < ih) :
    Tensor.pad3d (toList3 x) (ih + 2 * l.padding.1) (iw + 2 * l.padding.2) = .ok (padOf l ih iw x) := by
  obtain ⟨xp, hp, _⟩ := C02.pad3d_get (toList3 x) kc ih iw l.padding.1 l.padding.2 (toList3_dims x) hkc hih
  simp only [padOf, hp]

noncomputable def convBwdX (l : Conv ℝ) (a : Act) (K : V (I4 kf kc kh kw)) (ih iw oh ow : ℕ) (x : V (I3 kc ih iw))
    (g : V (I3 kf oh ow)) : V (I3 kc ih iw) :=
  convBwd l (toList4 K) kf kc kh kw ih iw oh ow (ConvBridge.delta a (pre l K ih iw oh ow x) g)

noncomputable def convBwdKer (l : Conv ℝ) (a : Act) (K : V (I4 kf kc kh kw)) (ih iw oh ow : ℕ) (x : V (I3 kc ih iw))
    (g : V (I3 kf oh ow)) : V (I4 kf kc kh kw) :=
  convBwdK l kf kc kh kw oh ow (padOf l ih iw x) (ih + 2 * l.padding.1) (iw + 2 * l.padding.2)
    (ConvBridge.delta a (pre l K ih iw oh ow x) g)

/-- a convolution whose output stays `kf × oh × ow` (another spatial layer follows) -/
noncomputable def consConv {k : Idx} {ek : Enc k} (l : Conv ℝ) (a : Act) (K : V (I4 kf kc kh kw)) (ih iw : ℕ)
    (rest : Chain (iVol kf oh ow) (eVol kf oh ow) k ek) : Chain (iVol kc ih iw) (eVol kc ih iw) k ek :=
  .cons (.conv l) (convFn l a K ih iw oh ow) (convBwdX l a K ih iw oh ow) (fun x => T3 (pre l K ih iw oh ow x))
    (fun _ => .none) (fun x g => (.one (T4 (convBwdKer l a K ih iw oh ow x g)), .one none)) rest

/-- a convolution whose output is flattened (a dense layer follows) -/
noncomputable def consConvFlat {k : Idx} {ek : Enc k} (l : Conv ℝ) (a : Act) (K : V (I4 kf kc kh kw)) (ih iw : ℕ)
    (rest : Chain (iVec (kf * oh * ow)) (eVec (kf * oh * ow)) k ek) : Chain (iVol kc ih iw) (eVol kc ih iw) k ek :=
  .cons (.conv l) (fun x => flat (convFn l a K ih iw oh ow x)) (fun x g => convBwdX l a K ih iw oh ow x (unflat g))
    (fun x => T3 (pre l K ih iw oh ow x)) (fun _ => .none)
    (fun x g => (.one (T4 (convBwdKer l a K ih iw oh ow x (unflat g))), .one none)) rest

theorem real_conv (l : Conv ℝ) (a : Act) (K : V (I4 kf kc kh kw)) (hl : IsConv l a K ih iw oh ow) (ha : a ≠ .softmax)
    (hfl : l.flatten = false) (x : V (I3 kc ih iw)) :
    layerForward (.conv l) (T3 x) = .ok (T3 (pre l K ih iw oh ow x), T3 (convFn l a K ih iw oh ow x), .none) ∧
    ∀ g, layerBackward (.conv l) (T3 g) (T3 x) (T3 (pre l K ih iw oh ow x)) (.ok .none) =
      .ok (T3 (convBwdX l a K ih iw oh ow x g), .one (T4 (convBwdKer l a K ih iw oh ow x g)), .one none) := by
  obtain ⟨hkf, hkc, hkh, hih, hoh⟩ := hl.pos
  refine ⟨by simp only [layerForward, ConvBridge.forward_eq l a K hl ha hfl x]; rfl, fun g => ?_⟩
  obtain ⟨xp, hp, hb⟩ := ConvBridge.backward_eq l a K hl ha x g (T3 g) rfl
  rw [padOf_ok l x hkc hih] at hp
  cases hp
  simp only [layerBackward, hb, kernelGrad_T4]
  rfl

theorem real_conv_flat (l : Conv ℝ) (a : Act) (K : V (I4 kf kc kh kw)) (hl : IsConv l a K ih iw oh ow) (ha : a ≠ .softmax)
    (hfl : l.flatten = true) (x : V (I3 kc ih iw)) :
    layerForward (.conv l) (T3 x) = .ok (T3 (pre l K ih iw oh ow x), vecT (flat (convFn l a K ih iw oh ow x)), .none) ∧
    ∀ g : Vec (kf * oh * ow), layerBackward (.conv l) (vecT g) (T3 x) (T3 (pre l K ih iw oh ow x)) (.ok .none) =
      .ok (T3 (convBwdX l a K ih iw oh ow x (unflat g)), .one (T4 (convBwdKer l a K ih iw oh ow x (unflat g))), .one none) := by
  obtain ⟨hkf, hkc, hkh, hih, hoh⟩ := hl.pos
  refine ⟨layerForward_conv l a K hl ha hfl x, fun g => ?_⟩
  obtain ⟨xp, hp, hb⟩ := layerBackward_conv l a K hl ha x g (.ok .none)
  rw [padOf_ok l x hkc hih] at hp
  cases hp
  rw [hb, kernelGrad_T4]
  rfl

theorem vjp_conv (l : Conv ℝ) (a : Act) (K : V (I4 kf kc kh kw)) (hl : IsConv l a K ih iw oh ow) (ha : a ≠ .softmax)
    (x : V (I3 kc ih iw)) (hk : ∀ i, NoKink a (pre l K ih iw oh ow x i)) :
    IsVJP (ι := (iVol kc ih iw).T) (κ := (iVol kf oh ow).T) (convFn l a K ih iw oh ow) x (convBwdX l a K ih iw oh ow x) :=
  conv_vjp_input l a K hl x (fun i => act_hasDerivAt a ha _ (hk i))

theorem vjp_conv_flat (l : Conv ℝ) (a : Act) (K : V (I4 kf kc kh kw)) (hl : IsConv l a K ih iw oh ow) (ha : a ≠ .softmax)
    (x : V (I3 kc ih iw)) (hk : ∀ i, NoKink a (pre l K ih iw oh ow x i)) :
    IsVJP (ι := (iVol kc ih iw).T) (κ := (iVec (kf * oh * ow)).T) (fun x => flat (convFn l a K ih iw oh ow x)) x
      (fun g => convBwdX l a K ih iw oh ow x (unflat g)) :=
  IsVJP.comp (vjp_conv l a K hl ha x hk) (flat_isVJP (convFn l a K ih iw oh ow x))

/-- the kernels: the recorded kernel gradient is the transposed Jacobian in the kernels -/
theorem vjp_conv_kernels (l : Conv ℝ) (a : Act) (K : V (I4 kf kc kh kw)) (hl : IsConv l a K ih iw oh ow) (ha : a ≠ .softmax)
    (x : V (I3 kc ih iw)) (hk : ∀ i, NoKink a (pre l K ih iw oh ow x i)) :
    IsVJP (fun K' => convFn l a K' ih iw oh ow x) K (convBwdKer l a K ih iw oh ow x) := by
  obtain ⟨hkf, hkc, hkh, hih, hoh⟩ := hl.pos
  exact conv_vjp_kernels l a K hl x _ (padOf_ok l x hkc hih) (fun i => act_hasDerivAt a ha _ (hk i))

end conv

/-! ### deconvolution -/

section deconv
open DeconvVJP DeconvBridge
variable {kf kc kh kw ih iw oh ow : ℕ}

noncomputable def deconvFn (l : Deconv ℝ) (a : Act) (K : V (I4 kf kc kh kw)) (ih iw oh ow : ℕ) (x : V (I3 kc ih iw)) :
    V (I3 kf oh ow) := fun i => Act.f a (DeconvBridge.pre l K ih iw oh ow x i)

/-- a deconvolution whose output stays `kf × oh × ow` -/
noncomputable def consDeconv {k : Idx} {ek : Enc k} (l : Deconv ℝ) (a : Act) (K : V (I4 kf kc kh kw)) (ih iw : ℕ)
    (rest : Chain (iVol kf oh ow) (eVol kf oh ow) k ek) : Chain (iVol kc ih iw) (eVol kc ih iw) k ek :=
  .cons (.deconv l) (deconvFn l a K ih iw oh ow) (bwdX l a K ih iw oh ow) (fun x => T3 (DeconvBridge.pre l K ih iw oh ow x))
    (fun _ => .none) (fun x g => (.one (T4 (bwdKer l a K ih iw oh ow x g)), .one none)) rest

/-- a deconvolution whose output is flattened (a dense layer follows) -/
noncomputable def consDeconvFlat {k : Idx} {ek : Enc k} (l : Deconv ℝ) (a : Act) (K : V (I4 kf kc kh kw)) (ih iw : ℕ)
    (rest : Chain (iVec (kf * oh * ow)) (eVec (kf * oh * ow)) k ek) : Chain (iVol kc ih iw) (eVol kc ih iw) k ek :=
  .cons (.deconv l) (fun x => flat (deconvFn l a K ih iw oh ow x)) (fun x g => bwdX l a K ih iw oh ow x (unflat g))
    (fun x => T3 (DeconvBridge.pre l K ih iw oh ow x)) (fun _ => .none)
    (fun x g => (.one (T4 (bwdKer l a K ih iw oh ow x (unflat g))), .one none)) rest

theorem real_deconv (l : Deconv ℝ) (a : Act) (K : V (I4 kf kc kh kw)) (hl : IsDeconv l a K ih iw oh ow) (ha : a ≠ .softmax)
    (hfl : l.flatten = false) (x : V (I3 kc ih iw)) :
    layerForward (.deconv l) (T3 x) = .ok (T3 (DeconvBridge.pre l K ih iw oh ow x), T3 (deconvFn l a K ih iw oh ow x), .none) ∧
    ∀ g, layerBackward (.deconv l) (T3 g) (T3 x) (T3 (DeconvBridge.pre l K ih iw oh ow x)) (.ok .none) =
      .ok (T3 (bwdX l a K ih iw oh ow x g), .one (T4 (bwdKer l a K ih iw oh ow x g)), .one none) := by
  refine ⟨?_, fun g => ?_⟩
  · simp only [layerForward, DeconvBridge.forward_gen l a K hl ha x, hfl]
    rfl
  · simp only [layerBackward, DeconvBridge.backward_eq l a K hl ha x g (T3 g) rfl]

theorem real_deconv_flat (l : Deconv ℝ) (a : Act) (K : V (I4 kf kc kh kw)) (hl : IsDeconv l a K ih iw oh ow) (ha : a ≠ .softmax)
    (hfl : l.flatten = true) (x : V (I3 kc ih iw)) :
    layerForward (.deconv l) (T3 x) =
      .ok (T3 (DeconvBridge.pre l K ih iw oh ow x), vecT (flat (deconvFn l a K ih iw oh ow x)), .none) ∧
    ∀ g : Vec (kf * oh * ow), layerBackward (.deconv l) (vecT g) (T3 x) (T3 (DeconvBridge.pre l K ih iw oh ow x)) (.ok .none) =
      .ok (T3 (bwdX l a K ih iw oh ow x (unflat g)), .one (T4 (bwdKer l a K ih iw oh ow x (unflat g))), .one none) := by
  obtain ⟨hkf, hkc, hkh, hih, hoh⟩ := hl.pos
  refine ⟨?_, fun g => ?_⟩
  · simp only [layerForward, DeconvBridge.forward_gen l a K hl ha x, hfl, ↓reduceIte, flatten_T3 _ hkf hoh]
    rfl
  · simp only [layerBackward, DeconvBridge.backward_eq l a K hl ha x (unflat g) (vecT g)
      (by rw [hl.outputs]; exact getTriple_vecT g)]

theorem deconv_delta_eq (a : Act) (p g : V (I3 kf oh ow)) : DeconvBridge.delta a p g = fun i => Act.df a (p i) * g i := by
  funext i; simp only [DeconvBridge.delta]; ring

theorem vjp_deconv (l : Deconv ℝ) (a : Act) (K : V (I4 kf kc kh kw)) (ha : a ≠ .softmax)
    (x : V (I3 kc ih iw)) (hk : ∀ i, NoKink a (DeconvBridge.pre l K ih iw oh ow x i)) :
    IsVJP (ι := (iVol kc ih iw).T) (κ := (iVol kf oh ow).T) (deconvFn l a K ih iw oh ow) x (bwdX l a K ih iw oh ow x) := by
  have h := isVJP_elementwise _ x _ (Act.f a) (Act.df a)
    (deconv_isVJP l kf kc kh kw ih iw oh ow (toList4 K) (toList3 x) x) (fun i => act_hasDerivAt a ha _ (hk i))
  have hb : bwdX l a K ih iw oh ow x = fun g => deconvBwd l kf kc kh kw ih iw oh ow (toList4 K) (toList3 x) fun i =>
      a.df (deconvPre l kf kc kh kw ih iw oh ow (toList4 K) x i) * g i := by
    funext g; simp only [bwdX, deconv_delta_eq]
  rw [hb]
  exact h

theorem vjp_deconv_flat (l : Deconv ℝ) (a : Act) (K : V (I4 kf kc kh kw)) (ha : a ≠ .softmax)
    (x : V (I3 kc ih iw)) (hk : ∀ i, NoKink a (DeconvBridge.pre l K ih iw oh ow x i)) :
    IsVJP (ι := (iVol kc ih iw).T) (κ := (iVec (kf * oh * ow)).T) (fun x => flat (deconvFn l a K ih iw oh ow x)) x
      (fun g => bwdX l a K ih iw oh ow x (unflat g)) :=
  IsVJP.comp (vjp_deconv l a K ha x hk) (flat_isVJP (deconvFn l a K ih iw oh ow x))

theorem vjp_deconv_kernels (l : Deconv ℝ) (a : Act) (K : V (I4 kf kc kh kw)) (ha : a ≠ .softmax)
    (x : V (I3 kc ih iw)) (hk : ∀ i, NoKink a (DeconvBridge.pre l K ih iw oh ow x i)) :
    IsVJP (fun K' => deconvFn l a K' ih iw oh ow x) K (bwdKer l a K ih iw oh ow x) := by
  have h := isVJP_elementwise _ K _ (Act.f a) (Act.df a)
    (deconv_kernel_isVJP l kf kc kh kw ih iw oh ow (toList3 x) (toList4 K) K) (fun i => act_hasDerivAt a ha _ (hk i))
  have hb : bwdKer l a K ih iw oh ow x = fun g => deconvBwdK l kf kc kh kw ih iw oh ow (toList3 x) (toList4 K) fun i =>
      a.df (deconvPreK l kf kc kh kw ih iw oh ow (toList3 x) K i) * g i := by
    funext g; simp only [bwdKer, deconv_delta_eq]; rfl
  rw [hb]
  exact h

end deconv

/-! ### max-pool -/

section pool
open MaxpoolVJP MaxpoolBridge MaxpoolLocal
variable {ic ih iw oh ow : ℕ}

noncomputable def poolBwd (l : Maxpool ℝ) (ih iw oh ow : ℕ) (x : V (I3 ic ih iw)) (g : V (I3 ic oh ow)) : V (I3 ic ih iw) :=
  routeV l (idxOf l ih iw oh ow x) ic ih iw oh ow g

/-- a max-pool whose output stays `ic × oh × ow` -/
noncomputable def consPool {k : Idx} {ek : Enc k} (l : Maxpool ℝ) (ih iw : ℕ)
    (rest : Chain (iVol ic oh ow) (eVol ic oh ow) k ek) : Chain (iVol ic ih iw) (eVol ic ih iw) k ek :=
  .cons (.maxpool l) (poolFn l ih iw oh ow) (poolBwd l ih iw oh ow) (fun x => T3 (poolFn l ih iw oh ow x))
    (fun x => .max (idxOf l ih iw oh ow x)) (fun _ _ => (.one (Tensor.single []), .one none)) rest

/-- a max-pool whose output is flattened (a dense layer follows) -/
noncomputable def consPoolFlat {k : Idx} {ek : Enc k} (l : Maxpool ℝ) (ih iw : ℕ)
    (rest : Chain (iVec (ic * oh * ow)) (eVec (ic * oh * ow)) k ek) : Chain (iVol ic ih iw) (eVol ic ih iw) k ek :=
  .cons (.maxpool l) (fun x => flat (poolFn l ih iw oh ow x)) (fun x g => poolBwd l ih iw oh ow x (unflat g))
    (fun x => T3 (poolFn l ih iw oh ow x)) (fun x => .max (idxOf l ih iw oh ow x))
    (fun _ _ => (.one (Tensor.single []), .one none)) rest

theorem real_pool (l : Maxpool ℝ) (hl : IsPool l ic ih iw oh ow) (hfl : l.flatten = false) (x : V (I3 ic ih iw)) :
    layerForward (.maxpool l) (T3 x) = .ok (T3 (poolFn l ih iw oh ow x), T3 (poolFn l ih iw oh ow x), .max (idxOf l ih iw oh ow x)) ∧
    ∀ g pre, layerBackward (.maxpool l) (T3 g) (T3 x) pre (.ok (.max (idxOf l ih iw oh ow x))) =
      .ok (T3 (poolBwd l ih iw oh ow x g), .one (Tensor.single []), .one none) := by
  refine ⟨?_, fun g pre => ?_⟩
  · simp only [layerForward, MaxpoolBridge.forward_gen l hl x, hfl]
    rfl
  · simp only [layerBackward, MaxpoolBridge.backward_eq l hl x g (T3 g) rfl, poolBwd]

theorem real_pool_flat (l : Maxpool ℝ) (hl : IsPool l ic ih iw oh ow) (hfl : l.flatten = true) (x : V (I3 ic ih iw)) :
    layerForward (.maxpool l) (T3 x) =
      .ok (T3 (poolFn l ih iw oh ow x), vecT (flat (poolFn l ih iw oh ow x)), .max (idxOf l ih iw oh ow x)) ∧
    ∀ (g : Vec (ic * oh * ow)) pre, layerBackward (.maxpool l) (vecT g) (T3 x) pre (.ok (.max (idxOf l ih iw oh ow x))) =
      .ok (T3 (poolBwd l ih iw oh ow x (unflat g)), .one (Tensor.single []), .one none) := by
  obtain ⟨hic, hih, hiw⟩ := hl.pos
  have hoh : 0 < oh := by rw [hl.oh_eq]; exact Nat.succ_pos _
  refine ⟨?_, fun g pre => ?_⟩
  · simp only [layerForward, MaxpoolBridge.forward_gen l hl x, hfl, ↓reduceIte, flatten_T3 _ hic hoh]
  · simp only [layerBackward, MaxpoolBridge.backward_eq l hl x (unflat g) (vecT g)
      (by rw [hl.outputs]; exact getTriple_vecT g), poolBwd]

theorem vjp_pool (l : Maxpool ℝ) (hl : IsPool l ic ih iw oh ow) (x : V (I3 ic ih iw)) (hnt : NoTies l ih iw oh ow x) :
    IsVJP (ι := (iVol ic ih iw).T) (κ := (iVol ic oh ow).T) (poolFn l ih iw oh ow) x (poolBwd l ih iw oh ow x) :=
  pool_isVJP l hl x hnt

theorem vjp_pool_flat (l : Maxpool ℝ) (hl : IsPool l ic ih iw oh ow) (x : V (I3 ic ih iw)) (hnt : NoTies l ih iw oh ow x) :
    IsVJP (ι := (iVol ic ih iw).T) (κ := (iVec (ic * oh * ow)).T) (fun x => flat (poolFn l ih iw oh ow x)) x
      (fun g => poolBwd l ih iw oh ow x (unflat g)) :=
  IsVJP.comp (vjp_pool l hl x hnt) (flat_isVJP (poolFn l ih iw oh ow x))

end pool

/-! ### a stack of dense layers as a chain -/

noncomputable def stackChain : {n k : ℕ} → Stack n k → Chain (iVec n) (eVec n) (iVec k) (eVec k)
  | _, _, .nil n => .nil (iVec n) (eVec n)
  | _, _, .cons a W b rest => consDense (denseLayer a W b) a W b (stackChain rest)

theorem stackChain_layers : ∀ {n k : ℕ} (s : Stack n k), LayerChain.layers (stackChain s) = s.layers
  | _, _, .nil _ => rfl
  | _, _, .cons a W b rest => by simp [stackChain, consDense, LayerChain.layers, Stack.layers, stackChain_layers rest]

theorem stackChain_real : ∀ {n k : ℕ} (s : Stack n k) (x : Vec n), s.Valid → Real (stackChain s) x
  | _, _, .nil _, _, _ => trivial
  | _, _, .cons a W b rest, x, hv => by
    obtain ⟨h1, h2⟩ := real_dense (denseLayer a W b) a W b (denseLayer_isDense a W b) hv.1 hv.2.2.1 hv.2.1 x
    exact ⟨h1, h2, stackChain_real rest _ hv.2.2.2⟩

theorem stackChain_ok : ∀ {n k : ℕ} (s : Stack n k) (x : Vec n), s.Valid → s.NoKinks x → (gnet (stackChain s)).Ok x
  | _, _, .nil _, _, _, _ => trivial
  | _, _, .cons a W b rest, x, hv, hk =>
    ⟨vjp_dense a hv.1 W b x hk.1, stackChain_ok rest _ hv.2.2.2 hk.2⟩

/-! ### a feedback block that unrolls to a dense stack (no skip connections) -/

section block
open DenseBlock
variable {n k : ℕ}

noncomputable def blockRec (s : Stack n k) (x : Vec n) : Recorded ℝ :=
  .block (s.pres x) (vecT x :: s.acts x) ((inner s).map fun _ => none)

noncomputable def blockWG (f : Feedback ℝ) (s : Stack n k) (x : Vec n) (g : Vec k) : WGrad ℝ × BGrad ℝ :=
  match f.backward (vecT g) (s.pres x) (vecT x :: s.acts x) with
  | .ok (_, ws, bs) => (.block ws, .block bs)
  | .error _ => (.block [], .block [])

/-- such a block in front of a chain -/
noncomputable def consBlock {m : Idx} {em : Enc m} (f : Feedback ℝ) (s : Stack n k)
    (rest : Chain (iVec k) (eVec k) m em) : Chain (iVec n) (eVec n) m em :=
  .cons (.feedback f) s.net.fwd s.net.bwd (fun x => (s.pres x).head?.getD (vecT x)) (blockRec s) (blockWG f s) rest

theorem real_block (f : Feedback ℝ) (s : Stack n k) (hf : IsDenseBlock f s) (hv : s.Valid) (hpos : 0 < s.layers.length)
    (x : Vec n) :
    layerForward (.feedback f) (vecT x) = .ok ((s.pres x).head?.getD (vecT x), vecT (s.net.fwd x), blockRec s x) ∧
    ∀ g, layerBackward (.feedback f) (vecT g) (vecT x) ((s.pres x).head?.getD (vecT x)) (.ok (blockRec s x)) =
      .ok (vecT (s.net.bwd x g), (blockWG f s x g).1, (blockWG f s x g).2) := by
  refine ⟨?_, fun g => ?_⟩
  · simp only [layerForward, Feedback.forward, block_forwardAll f s hf hv hpos x, DenseBlock.acts_last s x]
    have hne : (s.pres x).head? ≠ none := by
      have := (Stack.layers_length s x).1
      cases hp : s.pres x with
      | nil => rw [hp] at this; simp at this; omega
      | cons a l => simp
    cases hp : (s.pres x).head? with
    | none => exact absurd hp hne
    | some u0 => rfl
  · obtain ⟨ws, bs, hb⟩ := block_backward f s hf hv x g
    simp only [layerBackward, blockRec, blockWG, hb]

theorem vjp_block (s : Stack n k) (hv : s.Valid) (x : Vec n) (hk : s.NoKinks x) :
    IsVJP (ι := (iVec n).T) (κ := (iVec k).T) s.net.fwd x (s.net.bwd x) :=
  Net.vjp s.net x (Stack.net_ok s x hv hk)

end block

theorem stack_gnet_fwd : ∀ {n k : ℕ} (s : Stack n k) (z : Vec n), (gnet (stackChain s)).fwd z = s.net.fwd z
  | _, _, .nil _, _ => rfl
  | _, _, .cons a W b rest, z => by
    simp only [stackChain, consDense, gnet, GNet.fwd, Stack.net, Net.fwd]
    exact stack_gnet_fwd rest _

theorem stack_gnet_bwd : ∀ {n k : ℕ} (s : Stack n k) (z : Vec n) (g : Vec k), (gnet (stackChain s)).bwd z g = s.net.bwd z g
  | _, _, .nil _, _, _ => rfl
  | _, _, .cons a W b rest, z, g => by
    simp only [stackChain, consDense, gnet, GNet.bwd, Stack.net, Net.bwd, denseBwd]
    rw [stack_gnet_bwd rest]

end ChainLinks
