import Proofs.ConvVJP
import Proofs.DenseBridge
import Proofs.Dims
import Props.C08

/-!
# `Conv.forward` / `Conv.backward` of the model on `I3`-indexed vectors (helper lemmas for C01 / C02)
-/

set_option linter.unusedSectionVars false
set_option linter.unusedVariables false

open Finset BigOperators

namespace ConvBridge
open VJP ConvVJP L Scalar RealScalar

/-! ### nested lists with known extents -/

theorem dims3_cons {β : Type} (t : List (List (List β))) (c h w : ℕ) (ht : Dims3 t c h w) (hc : 0 < c) (hh : 0 < h) :
    ∃ r m rest, t = (r :: m) :: rest ∧ (r :: m).length = h ∧ r.length = w := by
  obtain ⟨h1, h2⟩ := ht
  match t, h1, h2 with
  | [], h1, _ => simp at h1; omega
  | [] :: rest, _, h2 => have := (h2 [] (List.mem_cons_self ..)).1; simp at this; omega
  | (r :: m) :: rest, _, h2 =>
    exact ⟨r, m, rest, rfl, (h2 (r :: m) (List.mem_cons_self ..)).1, (h2 (r :: m) (List.mem_cons_self ..)).2 r (List.mem_cons_self ..)⟩

theorem dims3_ext (A B : V3 ℝ) (c h w : ℕ) (hA : Dims3 A c h w) (hB : Dims3 B c h w)
    (hget : ∀ a i j, a < c → i < h → j < w → get3D 0 A a i j = get3D 0 B a i j) : A = B := by
  apply List.ext_getElem (by rw [hA.1, hB.1])
  intro a ha _
  have hac : a < c := by rw [← hA.1]; exact ha
  have hAa := hA.2 A[a] (List.getElem_mem _)
  have hBa := hB.2 (B[a]'(by rw [hB.1]; exact hac)) (List.getElem_mem _)
  apply List.ext_getElem (by rw [hAa.1, hBa.1])
  intro i hi _
  have hih : i < h := by rw [← hAa.1]; exact hi
  have hAi := hAa.2 A[a][i] (List.getElem_mem _)
  have hBi := hBa.2 ((B[a]'(by rw [hB.1]; exact hac))[i]'(by rw [hBa.1]; exact hih)) (List.getElem_mem _)
  apply List.ext_getElem (by rw [hAi, hBi])
  intro j hj _
  have hjw : j < w := by rw [← hAi]; exact hj
  have := hget a i j hac hih hjw
  rw [get3D_eq, get3D_eq] at this
  have hb : a < B.length := by rw [hB.1]; exact hac
  have hbi : i < (B[a]).length := by rw [hBa.1]; exact hih
  have hbj : j < (B[a][i]).length := by rw [hBi]; exact hjw
  simp only [List.getD_eq_getElem?_getD, List.getElem?_eq_getElem ha, List.getElem?_eq_getElem hb, Option.getD_some,
    List.getElem?_eq_getElem hi, List.getElem?_eq_getElem hbi, List.getElem?_eq_getElem hj, List.getElem?_eq_getElem hbj] at this
  exact this

/-- reading a well-shaped nested list as a vector and writing it back is the identity -/
theorem toList3_of_get (A : V3 ℝ) (c h w : ℕ) (hA : Dims3 A c h w) :
    toList3 (fun cij : I3 c h w => get3D 0 A cij.1 cij.2.1 cij.2.2) = A := by
  apply dims3_ext _ _ c h w (toList3_dims _) hA
  intro a i j ha hi hj
  rw [get3D_toList3, dif_pos ⟨ha, hi, hj⟩]

/-- the tensor of an `I3`-indexed vector -/
noncomputable def T3 {c h w : ℕ} (v : V (I3 c h w)) : Tensor ℝ := ⟨.triple c h w, .triple (toList3 v)⟩

theorem triple_toList3 {c h w : ℕ} (v : V (I3 c h w)) (hc : 0 < c) (hh : 0 < h) :
    Tensor.triple (toList3 v) = .ok (T3 v) := by
  obtain ⟨r, m, rest, he, h1, h2⟩ := dims3_cons _ c h w (toList3_dims v) hc hh
  have hlen : (toList3 v).length = c := (toList3_dims v).1
  unfold Tensor.triple T3
  rw [he] at hlen ⊢
  simp only [hlen, h1, h2]

theorem triple_of_dims (A : V3 ℝ) (c h w : ℕ) (hA : Dims3 A c h w) (hc : 0 < c) (hh : 0 < h) :
    Tensor.triple A = .ok ⟨.triple c h w, .triple A⟩ := by
  obtain ⟨r, m, rest, he, h1, h2⟩ := dims3_cons _ c h w hA hc hh
  have hlen : A.length = c := hA.1
  unfold Tensor.triple
  rw [he] at hlen ⊢
  simp only [hlen, h1, h2]

theorem entry_T3 {c h w : ℕ} (v : V (I3 c h w)) (hc : 0 < c) (hh : 0 < h) (s : Shape) :
    entry (T3 v) s = .ok (toList3 v, h, w) := by
  obtain ⟨r, m, rest, he, h1, h2⟩ := dims3_cons _ c h w (toList3_dims v) hc hh
  unfold entry T3
  simp only [he, h1, h2]

theorem map3_toList3 {c h w : ℕ} (g : ℝ → ℝ) (v : V (I3 c h w)) :
    L.map3 g (toList3 v) = toList3 (fun i => g (v i)) := by
  simp [L.map3, toList3, List.map_ofFn, Function.comp_def]

theorem act_forward_T3 (a : Act) (ha : a ≠ .softmax) {c h w : ℕ} (v : V (I3 c h w)) (hc : 0 < c) (hh : 0 < h) :
    Act.forward a (T3 v) = .ok (T3 (fun i => Act.f a (v i))) := by
  obtain ⟨r, m, rest, he, h1, h2⟩ := dims3_cons _ c h w (toList3_dims v) hc hh
  have hlen : (toList3 v).length = c := (toList3_dims v).1
  cases a with
  | softmax => exact absurd rfl ha
  | linear => simp [Act.forward, Act.f]
  | _ =>
    simp only [Act.forward, Act.mapAct, T3]
    rw [he] at hlen
    simp only [he, hlen, h1, h2]
    rw [← he, map3_toList3]

/-! ### kernels -/

/-- the kernels of an `I4`-indexed vector as the layer stores them: one `c × h × w` tensor per filter -/
noncomputable def kernelT {f c h w : ℕ} (K : V (I4 f c h w)) : List (Tensor ℝ) :=
  (toList4 K).map (fun k => ⟨.triple c h w, .triple k⟩)

theorem mapM'_map_ok {β γ δ : Type} (f : γ → Except Err δ) (g : β → γ) (k : β → δ) (hf : ∀ b, f (g b) = .ok (k b)) :
    ∀ l : List β, L.mapM' f (l.map g) = .ok (l.map k)
  | [] => rfl
  | b :: l => by simp only [List.map_cons, L.mapM', hf, mapM'_map_ok f g k hf l]

theorem kernelsOf_kernelT {f c h w : ℕ} (K : V (I4 f c h w)) : kernelsOf (kernelT K) = .ok (toList4 K) := by
  unfold kernelsOf kernelT
  rw [mapM'_map_ok Tensor.asTriple _ id (fun _ => rfl)]
  simp

theorem toList4_length {f c h w : ℕ} (K : V (I4 f c h w)) : (toList4 K).length = f := by simp [toList4]

theorem kernelDims_toList4 {f c h w : ℕ} (K : V (I4 f c h w)) (hf : 0 < f) (hc : 0 < c) (hh : 0 < h) :
    kernelDims (toList4 K) = .ok (f, c, h, w) := by
  have hlen := toList4_length K
  match hK : toList4 K, hlen with
  | [], hlen => simp at hlen; omega
  | k :: rest, hlen =>
    have hk : k = toList3 (fun cij : I3 c h w => K (⟨0, hf⟩, cij)) := by
      have : (toList4 K)[0]? = some k := by rw [hK]; rfl
      simp only [toList4, List.getElem?_ofFn, hf, dite_true, Option.some.injEq] at this
      exact this.symm
    obtain ⟨r, m, rest', he, h1, h2⟩ := dims3_cons k c h w (hk ▸ toList3_dims _) hc hh
    have hkl : k.length = c := by rw [hk]; exact (toList3_dims _).1
    unfold kernelDims
    rw [he] at hkl ⊢
    simp only [hkl, h1, h2]
    simp only [List.length_cons] at hlen ⊢
    rw [hlen]

/-! ### the layer -/

variable {kf kc kh kw ih iw oh ow : ℕ}

/-- the model layer is the convolution with kernels `K`, element-wise activation `a`, no dropout in
    effect, announced shapes `kc × ih × iw → kf × oh × ow` -/
structure IsConv (l : Conv ℝ) (a : Act) (K : V (I4 kf kc kh kw)) (ih iw oh ow : ℕ) : Prop where
  kernels : l.kernels = kernelT K
  inputs : l.inputs = .triple kc ih iw
  outputs : l.outputs = .triple kf oh ow
  act : l.act = a
  training : l.training = false
  extent : Conv.extent l (ih + 2 * l.padding.1) (iw + 2 * l.padding.2) kh kw = .ok (oh, ow)
  scale : l.scale l.loops = 1
  pos : 0 < kf ∧ 0 < kc ∧ 0 < kh ∧ 0 < ih ∧ 0 < oh

/-- the layer's pre-activation as a vector function of its input -/
noncomputable abbrev pre (l : Conv ℝ) (K : V (I4 kf kc kh kw)) (ih iw oh ow : ℕ) : V (I3 kc ih iw) → V (I3 kf oh ow) :=
  convPre l (toList4 K) kf kc kh kw ih iw oh ow

/-- **`Conv.forward` on the model's tensors is the vector function**: pre-activation = the zero-padded,
    strided, dilated cross-correlation, output = the activation of it, element by element -/
theorem forward_gen (l : Conv ℝ) (a : Act) (K : V (I4 kf kc kh kw)) (hl : IsConv l a K ih iw oh ow) (ha : a ≠ .softmax)
    (x : V (I3 kc ih iw)) :
    l.forward (T3 x) = match (if l.flatten then (T3 (fun i => Act.f a (pre l K ih iw oh ow x i))).flatten
        else .ok (T3 (fun i => Act.f a (pre l K ih iw oh ow x i)))) with
      | .error e => .error e
      | .ok post => .ok (T3 (pre l K ih iw oh ow x), post) := by
  obtain ⟨hkf, hkc, hkh, hih, hoh⟩ := hl.pos
  unfold Conv.forward
  rw [entry_T3 x hkc hih, hl.kernels, kernelsOf_kernelT]
  simp only []
  obtain ⟨xp, hp, hget⟩ := C02.pad3d_get (toList3 x) kc ih iw l.padding.1 l.padding.2 (toList3_dims x) hkc hih
  rw [hp]
  simp only []
  -- the padded input has the padded extents
  have hxpd : Dims3 xp kc (ih + 2 * l.padding.1) (iw + 2 * l.padding.2) := by
    have := C08.pad3d_dims (toList3 x) _ _ xp hp
    rwa [(toList3_dims x).1] at this
  obtain ⟨r, m, rest, he, h1, h2⟩ := dims3_cons xp kc _ _ hxpd hkc (by omega)
  -- convolve
  have hconv : Conv.convolve l xp (toList4 K) = .ok ((toList4 K).map (fun k =>
      (List.range oh).map (fun height => (List.range ow).map (fun width =>
        Conv.convolveAt l xp k kc kh kw (ih + 2 * l.padding.1) (iw + 2 * l.padding.2) height width)))) := by
    unfold Conv.convolve
    rw [kernelDims_toList4 K hkf hkc hkh, he]
    simp only [h1, h2, hl.extent]
  rw [hconv]
  simp only []
  -- … is the vector function
  have hy : (toList4 K).map (fun k =>
      (List.range oh).map (fun height => (List.range ow).map (fun width =>
        Conv.convolveAt l xp k kc kh kw (ih + 2 * l.padding.1) (iw + 2 * l.padding.2) height width))) =
      toList3 (pre l K ih iw oh ow x) := by
    apply dims3_ext _ _ kf oh ow _ (toList3_dims _)
    · intro f i j hf hi hj
      rw [get3D_toList3, dif_pos ⟨hf, hi, hj⟩, L.get3D_eq]
      simp only [List.getD_eq_getElem?_getD, List.getElem?_map, List.getElem?_range hi, List.getElem?_range hj,
        Option.map_some, Option.getD_some]
      have hfl : f < (toList4 K).length := by rw [toList4_length]; exact hf
      rw [List.getElem?_eq_getElem hfl]
      simp only [Option.map_some, Option.getD_some, List.getElem?_map, List.getElem?_range hi, List.getElem?_range hj]
      obtain ⟨xp', hp', hcc⟩ := C02.conv_cross_correlation l (toList3 x) kc ih iw (toList3_dims x) hkc hih
        ((toList4 K)[f]) kc kh kw i j
      rw [hp] at hp'
      cases hp'
      rw [hcc]
      simp only [pre, convPre, List.getD_eq_getElem?_getD, List.getElem?_eq_getElem hfl, Option.getD_some]
    · refine ⟨by simp [toList4_length], ?_⟩
      intro mm hmm
      simp only [List.mem_map] at hmm
      obtain ⟨k, _, rfl⟩ := hmm
      refine ⟨by simp, ?_⟩
      intro rr hrr
      simp only [List.mem_map] at hrr
      obtain ⟨_, _, rfl⟩ := hrr
      simp
  rw [hy, triple_toList3 _ hkf hoh]
  simp only [hl.act, act_forward_T3 a ha _ hkf hoh, hl.training]
  unfold finish
  simp only [Bool.false_eq_true, ↓reduceIte]
  cases l.flatten
  · rfl
  · simp only [↓reduceIte]
    cases (T3 fun i => a.f (pre l K ih iw oh ow x i)).flatten <;> rfl

theorem forward_eq (l : Conv ℝ) (a : Act) (K : V (I4 kf kc kh kw)) (hl : IsConv l a K ih iw oh ow) (ha : a ≠ .softmax)
    (hfl : l.flatten = false) (x : V (I3 kc ih iw)) :
    l.forward (T3 x) = .ok (T3 (pre l K ih iw oh ow x), T3 (fun i => Act.f a (pre l K ih iw oh ow x i))) := by
  rw [forward_gen l a K hl ha x, hfl]
  rfl

/-! ### backward -/

theorem replicate3_toList3 (c h w : ℕ) (r : ℝ) : L.replicate3 c h w r = toList3 (fun _ : I3 c h w => r) := by
  simp [L.replicate3, L.replicate2, toList3, List.ofFn_const]

theorem act_backward_T3 (a : Act) (ha : a ≠ .softmax) {c h w : ℕ} (v : V (I3 c h w)) (hc : 0 < c) (hh : 0 < h) :
    Act.backward a (T3 v) = .ok (T3 (fun i => Act.df a (v i))) := by
  obtain ⟨r, m, rest, he, h1, h2⟩ := dims3_cons _ c h w (toList3_dims v) hc hh
  have hlen : (toList3 v).length = c := (toList3_dims v).1
  cases a with
  | softmax => exact absurd rfl ha
  | linear => simp [Act.backward, Act.df, T3, Tensor.ones, replicate3_toList3]
  | _ =>
    simp only [Act.backward, Act.mapAct, T3]
    rw [he] at hlen
    simp only [he, hlen, h1, h2]
    rw [← he, map3_toList3]

theorem hadamard3d_toList3 {c h w : ℕ} (a b : V (I3 c h w)) (s : ℝ) :
    Tensor.hadamard3d (toList3 a) (toList3 b) s = toList3 (fun i => a i * b i * s) := by
  simp only [Tensor.hadamard3d, toList3, OfFn.zipWith_ofFn]

/-- a 4-D nested list with known extents -/
theorem quadruple_of_dims (A : V4 ℝ) (k c h w : ℕ) (hA : Dims4 A k c h w) (hk : 0 < k) (hc : 0 < c) (hh : 0 < h) :
    Tensor.quadruple A = .ok ⟨.quadruple k c h w, .quadruple A⟩ := by
  obtain ⟨h1, h2⟩ := hA
  match A, h1, h2 with
  | [], h1, _ => simp at h1; omega
  | t :: rest, h1, h2 =>
    obtain ⟨r, m, rest', he, h3, h4⟩ := dims3_cons t c h w (h2 t (List.mem_cons_self ..)) hc hh
    have htl : t.length = c := (h2 t (List.mem_cons_self ..)).1
    unfold Tensor.quadruple
    rw [he] at htl ⊢
    simp only [htl, h3, h4]
    rw [← he, h1]

/-- the gradient the activation passes down: `g ⊙ a′(pre)` (times the layer's scale, which is 1) -/
noncomputable def delta (a : Act) (p g : V (I3 kf oh ow)) : V (I3 kf oh ow) := fun i => g i * Act.df a (p i) * 1

/-- **`Conv.backward` on the model's tensors**: the input gradient is `convBwd` (crop of the padded
    scatter) and the kernel gradient is `Conv.kernelGrad` on the padded input, both applied to
    `g ⊙ a′(pre)` -/
theorem backward_eq (l : Conv ℝ) (a : Act) (K : V (I4 kf kc kh kw)) (hl : IsConv l a K ih iw oh ow) (ha : a ≠ .softmax)
    (x : V (I3 kc ih iw)) (g : V (I3 kf oh ow)) (G : Tensor ℝ) (hG : G.getTriple l.outputs = .ok (toList3 g)) :
    ∃ xp, Tensor.pad3d (toList3 x) (ih + 2 * l.padding.1) (iw + 2 * l.padding.2) = .ok xp ∧
    l.backward G (T3 x) (T3 (pre l K ih iw oh ow x)) =
      .ok (T3 (convBwd l (toList4 K) kf kc kh kw ih iw oh ow (delta a (pre l K ih iw oh ow x) g)),
           ⟨.quadruple kf kc kh kw, .quadruple (Conv.kernelGrad l xp (toList3 (delta a (pre l K ih iw oh ow x) g))
              kf kc kh kw oh ow (ih + 2 * l.padding.1) (iw + 2 * l.padding.2))⟩,
           none) := by
  obtain ⟨hkf, hkc, hkh, hih, hoh⟩ := hl.pos
  obtain ⟨xp, hp, hget⟩ := C02.pad3d_get (toList3 x) kc ih iw l.padding.1 l.padding.2 (toList3_dims x) hkc hih
  refine ⟨xp, hp, ?_⟩
  unfold Conv.backward
  have hgt : ∀ {c h w : ℕ} (v : V (I3 c h w)) (s : Shape), (T3 v).getTriple s = .ok (toList3 v) := fun _ _ => rfl
  rw [hG, hl.act, act_backward_T3 a ha _ hkf hoh]
  simp only [hgt, hl.kernels, kernelsOf_kernelT, hadamard3d_toList3, hl.scale, kernelDims_toList4 K hkf hkc hkh]
  obtain ⟨r, m, rest, he, h1, h2⟩ := dims3_cons _ kc ih iw (toList3_dims x) hkc hih
  obtain ⟨dr, dm, drest, hde, hd1, hd2⟩ := dims3_cons _ kf oh ow
    (toList3_dims (fun i => g i * Act.df a (pre l K ih iw oh ow x i) * 1)) hkf hoh
  have hdelta : delta a (pre l K ih iw oh ow x) g = fun i => g i * Act.df a (pre l K ih iw oh ow x i) * 1 := rfl
  rw [hdelta]
  generalize hD : toList3 (fun i => g i * Act.df a (pre l K ih iw oh ow x i) * 1) = D at hde ⊢
  generalize hX : toList3 x = X at he hp ⊢
  subst he hde
  simp only [h1, h2, hd1, hd2, hp]
  have hig := DimsLemmas.conv_crop_dims l _ kc ih iw
    (DimsLemmas.conv_paddedInputGrad_dims l (toList4 K) ((dr :: dm) :: drest) kf kc kh kw oh ow
      (ih + 2 * l.padding.1) (iw + 2 * l.padding.2))
  rw [triple_of_dims _ kc ih iw hig hkc hih,
    quadruple_of_dims _ kf kc kh kw (DimsLemmas.conv_kernelGrad_dims l xp _ kf kc kh kw oh ow _ _) hkf hkc hkh]
  rw [← hD] at hig ⊢
  have hcb : toList3 (convBwd l (toList4 K) kf kc kh kw ih iw oh ow fun i => g i * a.df (pre l K ih iw oh ow x i) * 1) =
      l.crop (l.paddedInputGrad (toList4 K) (toList3 fun i => g i * a.df (pre l K ih iw oh ow x i) * 1) kf kc kh kw
        oh ow (ih + 2 * l.padding.1) (iw + 2 * l.padding.2)) ih iw := toList3_of_get _ kc ih iw hig
  simp only [T3, hcb]

/-! ### the layer's two transposed Jacobians -/

/-- the tensor of an `I4`-indexed vector (a kernel gradient) -/
noncomputable def T4 {f c h w : ℕ} (K : V (I4 f c h w)) : Tensor ℝ := ⟨.quadruple f c h w, .quadruple (toList4 K)⟩

theorem toList4_of_get (A : V4 ℝ) (f c h w : ℕ) (hA : Dims4 A f c h w) :
    toList4 (fun q : I4 f c h w => get4D 0 A q.1 q.2.1 q.2.2.1 q.2.2.2) = A := by
  apply List.ext_getElem (by rw [toList4_length, hA.1])
  intro a ha hb
  simp only [toList4, List.getElem_ofFn]
  have hd := hA.2 A[a] (List.getElem_mem _)
  have : (fun cij : I3 c h w => get4D 0 A a cij.1 cij.2.1 cij.2.2) =
      (fun cij : I3 c h w => get3D 0 A[a] cij.1 cij.2.1 cij.2.2) := by
    funext cij
    rw [ConvAdjoint.get4D_eq, List.getD_eq_getElem?_getD, List.getElem?_eq_getElem hb]
    rfl
  rw [this]
  exact toList3_of_get _ c h w hd

/-- for a fixed input, the pre-activation as a function of the kernels is the model's `convolveAt` on the
    padded input -/
theorem pre_eq_convPreK (l : Conv ℝ) (x : V (I3 kc ih iw)) (hkc : 0 < kc) (hih : 0 < ih) (xp : V3 ℝ)
    (hp : Tensor.pad3d (toList3 x) (ih + 2 * l.padding.1) (iw + 2 * l.padding.2) = .ok xp) :
    (fun K' : V (I4 kf kc kh kw) => pre l K' ih iw oh ow x) =
      convPreK l kf kc kh kw oh ow xp (ih + 2 * l.padding.1) (iw + 2 * l.padding.2) := by
  funext K' fmn
  obtain ⟨xp', hp', hcc⟩ := C02.conv_cross_correlation l (toList3 x) kc ih iw (toList3_dims x) hkc hih
    ((toList4 K').getD fmn.1 []) kc kh kw fmn.2.1 fmn.2.2
  rw [hp] at hp'
  cases hp'
  simp only [convPreK, hcc, pre, convPre]

/-- **the model's convolution layer, forward and backward, on its own `Conv.forward`/`Conv.backward`**:
    forward is `a ∘ conv_K`; backward returns the transposed Jacobian with respect to the input and the
    transposed Jacobian with respect to the kernels (away from activation kinks) -/
theorem layer_vjps (l : Conv ℝ) (a : Act) (K : V (I4 kf kc kh kw)) (hl : IsConv l a K ih iw oh ow) (ha : a ≠ .softmax)
    (hfl : l.flatten = false) (x : V (I3 kc ih iw))
    (hk : ∀ i, HasDerivAt (Act.f a) (Act.df a (pre l K ih iw oh ow x i)) (pre l K ih iw oh ow x i)) :
    l.forward (T3 x) = .ok (T3 (pre l K ih iw oh ow x), T3 (fun i => Act.f a (pre l K ih iw oh ow x i))) ∧
    ∃ (bx : V (I3 kf oh ow) → V (I3 kc ih iw)) (bK : V (I3 kf oh ow) → V (I4 kf kc kh kw)),
      (∀ g, l.backward (T3 g) (T3 x) (T3 (pre l K ih iw oh ow x)) = .ok (T3 (bx g), T4 (bK g), none)) ∧
      IsVJP (fun x' => fun i => Act.f a (pre l K ih iw oh ow x' i)) x bx ∧
      IsVJP (fun K' => fun i => Act.f a (pre l K' ih iw oh ow x i)) K bK := by
  obtain ⟨hkf, hkc, hkh, hih, hoh⟩ := hl.pos
  refine ⟨forward_eq l a K hl ha hfl x, ?_⟩
  obtain ⟨xp, hp, _⟩ := backward_eq l a K hl ha x (fun _ => 0) (T3 (fun _ => 0)) rfl
  have hdelta : ∀ g, delta a (pre l K ih iw oh ow x) g = fun i => Act.df a (pre l K ih iw oh ow x i) * g i := by
    intro g; funext i; simp only [delta]; ring
  refine ⟨fun g => convBwd l (toList4 K) kf kc kh kw ih iw oh ow (fun i => Act.df a (pre l K ih iw oh ow x i) * g i),
    fun g => convBwdK l kf kc kh kw oh ow xp (ih + 2 * l.padding.1) (iw + 2 * l.padding.2)
      (fun i => Act.df a (pre l K ih iw oh ow x i) * g i), ?_, ?_, ?_⟩
  · intro g
    obtain ⟨xp', hp', hb⟩ := backward_eq l a K hl ha x g (T3 g) rfl
    rw [hp] at hp'
    cases hp'
    rw [hb, hdelta]
    have ht4 : toList4 (convBwdK l kf kc kh kw oh ow xp (ih + 2 * l.padding.1) (iw + 2 * l.padding.2) fun i =>
        a.df (pre l K ih iw oh ow x i) * g i) =
        l.kernelGrad xp (toList3 fun i => a.df (pre l K ih iw oh ow x i) * g i) kf kc kh kw oh ow
          (ih + 2 * l.padding.1) (iw + 2 * l.padding.2) :=
      toList4_of_get _ kf kc kh kw (DimsLemmas.conv_kernelGrad_dims l xp _ kf kc kh kw oh ow _ _)
    simp only [T4, ht4]
  · exact conv_layer_isVJP l (toList4 K) kf kc kh kw ih iw oh ow (Act.f a) (Act.df a) hkc hih x hk
  · have hfun := pre_eq_convPreK (kf := kf) (kh := kh) (kw := kw) (oh := oh) (ow := ow) l x hkc hih xp hp
    have hpt : ∀ K' : V (I4 kf kc kh kw), pre l K' ih iw oh ow x =
        convPreK l kf kc kh kw oh ow xp (ih + 2 * l.padding.1) (iw + 2 * l.padding.2) K' := fun K' => congrFun hfun K'
    simp only [hpt] at hk ⊢
    exact isVJP_elementwise _ K _ (Act.f a) (Act.df a)
      (conv_kernel_isVJP l kf kc kh kw oh ow xp (ih + 2 * l.padding.1) (iw + 2 * l.padding.2) K) hk

end ConvBridge
