import Proofs.SkipWalk
import Proofs.SkipDag
import Proofs.SkipDagP
import Proofs.SkipTable

/-!
# Networks with any number of additive skip connections, on the model's own folds (C16 / C01)

`head`, then a stretch `body` of layers between vectors of one index type with an arbitrary table of skip
connections among them (chains, shared sources, nested and overlapping connections, a connection from a
layer to itself), then `tail`.  `Network.forward` records the values of `SkipDag.U`; `Network.backward` —
which reads the sorted targets of every source from the inverted table — performs `SkipDag.sweep`, hence
returns the gradient of the objective.
-/

set_option linter.unusedSectionVars false
set_option linter.unusedVariables false

namespace SkipNet
open Network Scalar VJP Walk LoopSpec DenseStack LayerChain SkipWalk SkipTable

variable {a m c : Idx} {ea : Enc a} {em : Nat → Enc m} {ec : Enc c}

/-- a model layer with the vector function it realises between vectors of one index type -/
structure Link (m : Idx) where
  l : Layer ℝ
  f : V m.T → V m.T
  b : V m.T → V m.T → V m.T
  pre : V m.T → Tensor ℝ
  rc : V m.T → Recorded ℝ
  wg : V m.T → V m.T → WGrad ℝ × BGrad ℝ

/-- at the processed input `p`, the layer computes its function (forward) and its backward function -/
def Link.Real (ein eout : Enc m) (k : Link m) (p : V m.T) : Prop :=
  layerForward k.l (ein p) = .ok (k.pre p, eout (k.f p), k.rc p) ∧
  ∀ g, layerBackward k.l (eout g) (ein p) (k.pre p) (.ok (k.rc p)) = .ok (ein (k.b p g), (k.wg p g).1, (k.wg p g).2)

/-- what a connection needs of the encodings at its two ends (`e1` at the target, `e2` at the source): encoded
    vectors have one shape, reshaping to it changes nothing, adding encoded vectors is adding the vectors — in
    both directions (forward adds the source to the target, backward the target's gradient to the source's) -/
structure Compat (e1 e2 : Enc m) : Prop where
  /-- forward: the source (brought to the target's shape when the shapes differ) added to the target -/
  fwd : ∀ u v, ∃ w, (if (e2 v).shape ≠ (e1 u).shape then (e2 v).reshape (e1 u).shape else .ok (e2 v)) = .ok w ∧
    (e1 u).add w = .ok (e1 (u + v))
  /-- backward: the target's processed-input gradient, brought to the source's shape, added to the source's -/
  bwd : ∀ u v, ∃ w, (e1 v).reshape (e2 u).shape = .ok w ∧ (e2 u).add w = .ok (e2 (u + v))
  /-- a layer connected to itself -/
  self : e1 = e2 → ∀ u v, ∃ w, (e2 v).reshape (e2 u).shape = .ok w ∧ (e2 u).add w = .ok (e2 (u + v))

theorem compat_of_encAdd {e : Enc m} (he : EncAdd e) : Compat e e where
  fwd u v := ⟨e v, by rw [if_neg (by rw [ne_eq, not_not]; exact he.shape _ _)], he.add _ _⟩
  bwd u v := ⟨e v, he.reshape _ _, he.add _ _⟩
  self _ u v := ⟨e v, he.reshape _ _, he.add _ _⟩

/-- the stretch as a `SkipDag.Net`; the table is relative to the stretch: `(target, source)` -/
def dagNet (body : List (Link m)) (tbl : List (Nat × Nat)) : SkipDag.Net m.T where
  f i := match body[i]? with
    | some k => k.f
    | none => fun p => p
  b i := match body[i]? with
    | some k => k.b
    | none => fun _ g => g
  S i := Assoc.find? tbl i

/-- map with the position -/
def mapOff {β : Type} (F : Nat → Link m → β) : Nat → List (Link m) → List β
  | _, [] => []
  | k, lk :: rest => F k lk :: mapOff F (k + 1) rest

theorem length_mapOff {β : Type} (F : Nat → Link m → β) : ∀ (k : Nat) (ls : List (Link m)),
    (mapOff F k ls).length = ls.length
  | _, [] => rfl
  | k, _ :: rest => by simp [mapOff, length_mapOff F (k + 1) rest]

theorem getElem?_mapOff {β : Type} (F : Nat → Link m → β) : ∀ (k : Nat) (ls : List (Link m)) (i : Nat),
    (mapOff F k ls)[i]? = ls[i]?.map (F (k + i))
  | _, [], _ => by simp [mapOff]
  | k, lk :: rest, 0 => by simp [mapOff]
  | k, lk :: rest, i + 1 => by
    simp only [mapOff, List.getElem?_cons_succ, getElem?_mapOff F (k + 1) rest i]
    congr 2
    omega

theorem get_iff {β : Type} (l : List β) (i : Nat) (v : β) : L.get l i = .ok v ↔ l[i]? = some v := by
  simp only [L.get, L.get?_eq]
  cases l[i]? with
  | none => simp
  | some w => simp

theorem drop_cons {β : Type} (l : List β) (k : Nat) (x : β) (rest : List β) (h : l.drop k = x :: rest) :
    l[k]? = some x ∧ l.drop (k + 1) = rest := by
  constructor
  · have := List.getElem?_drop (xs := l) (i := k) (j := 0)
    rw [h] at this
    simpa using this.symm
  · have : l.drop (k + 1) = (l.drop k).drop 1 := by rw [List.drop_drop]
    rw [this, h]
    rfl

section
variable (n : Network ℝ) (h : Nat) (body : List (Link m)) (tbl : List (Nat × Nat)) (y : V m.T)

theorem U_step (k : Nat) (lk : Link m) (hk : body[k]? = some lk) :
    SkipDag.U (dagNet body tbl) (k + 1) y = lk.f (SkipDag.P (dagNet body tbl) k y) := by
  rw [SkipDag.U_succ]
  simp only [dagNet, hk]

/-- the input the layer at position `k` of the stretch processes -/
theorem skipInput_body (hacc : n.skipaccumulation = .add) (hcomp : ∀ t s, Assoc.find? tbl t = some s → Compat (em t) (em s))
    (hsrc : ∀ t s, Assoc.find? tbl t = some s → s ≤ t)
    (k : Nat) (hconn : Assoc.find? n.connect (h + k) = (Assoc.find? tbl k).map (h + ·))
    (act : List (Tensor ℝ)) (hact : ∀ j, j ≤ k → L.get act (h + j) = .ok (em j (SkipDag.U (dagNet body tbl) j y))) :
    skipInput n act (h + k) = .ok (em k (SkipDag.P (dagNet body tbl) k y)) := by
  unfold skipInput
  rw [hact k (Nat.le_refl _), hconn]
  cases hs : Assoc.find? tbl k with
  | none =>
    simp only [Option.map_none]
    have : SkipDag.P (dagNet body tbl) k y = SkipDag.U (dagNet body tbl) k y := by
      simp [SkipDag.P, SkipDag.skipv, dagNet, hs]
    rw [this]
  | some s =>
    have hle := hsrc k s hs
    simp only [Option.map_some, hact s hle]
    obtain ⟨w, hw1, hw2⟩ := (hcomp k s hs).fwd (SkipDag.U (dagNet body tbl) k y) (SkipDag.U (dagNet body tbl) s y)
    simp only [hw1, hacc, accumulate1, hw2]
    have : SkipDag.P (dagNet body tbl) k y = SkipDag.U (dagNet body tbl) k y + SkipDag.U (dagNet body tbl) s y := by
      simp [SkipDag.P, SkipDag.skipv, dagNet, hs, hle]
    rw [this]

/-- **forward over the stretch** -/
theorem forward_body (hl : n.loopbacks = []) (hacc : n.skipaccumulation = .add) (hcomp : ∀ t s, Assoc.find? tbl t = some s → Compat (em t) (em s))
    (hsrc : ∀ t s, Assoc.find? tbl t = some s → s ≤ t)
    (hconn : ∀ k, k < body.length → Assoc.find? n.connect (h + k) = (Assoc.find? tbl k).map (h + ·)) :
    ∀ (ls : List (Link m)) (k : Nat) (t : Trace ℝ), body.drop k = ls →
      t.act.length = h + k + 1 →
      (∀ j, j ≤ k → L.get t.act (h + j) = .ok (em j (SkipDag.U (dagNet body tbl) j y))) →
      (∀ i (lk : Link m), ls[i]? = some lk → lk.Real (em (k + i)) (em (k + i + 1)) (SkipDag.P (dagNet body tbl) (k + i) y)) →
      (List.zip (List.range' (h + k) ls.length) (ls.map (·.l))).foldl (forwardLayer n) (.ok t) =
        .ok { pre := t.pre ++ mapOff (fun j lk => lk.pre (SkipDag.P (dagNet body tbl) j y)) k ls,
              act := t.act ++ mapOff (fun j _ => em (j + 1) (SkipDag.U (dagNet body tbl) (j + 1) y)) k ls,
              recs := t.recs ++ mapOff (fun j lk => lk.rc (SkipDag.P (dagNet body tbl) j y)) k ls }
  | [], k, t, _, _, _, _ => by simp [mapOff]
  | lk :: rest, k, t, hdrop, hlen, hact, hreal => by
    obtain ⟨hk, hdrop'⟩ := drop_cons body k lk rest hdrop
    have hkl : k < body.length := by
      rcases Nat.lt_or_ge k body.length with h1 | h1
      · exact h1
      · rw [List.getElem?_eq_none h1] at hk; cases hk
    simp only [List.length_cons, List.range'_succ, List.map_cons, List.zip_cons_cons, List.foldl_cons]
    have hin := skipInput_body n h body tbl y hacc hcomp hsrc k (hconn k hkl) t.act hact
    have hr := hreal 0 lk rfl
    simp only [Nat.add_zero] at hr
    simp only [forwardLayer, hin, hr.1, hl, Assoc.find?]
    rw [Nat.add_assoc h k 1, forward_body hl hacc hcomp hsrc hconn rest (k + 1) _ hdrop' (by simp [hlen]; omega)
      (fun j hj => by
        rcases Nat.lt_or_ge j (k + 1) with h1 | h1
        · have := hact j (by omega)
          rw [get_iff] at this ⊢
          rw [List.getElem?_append_left (by omega)]
          exact this
        · have hj' : j = k + 1 := by omega
          subst hj'
          rw [get_iff, List.getElem?_append_right (by omega)]
          have : h + (k + 1) - t.act.length = 0 := by omega
          rw [this, U_step body tbl y k lk hk]
          rfl)
      (fun i lk' hi => by
        have := hreal (i + 1) lk' (by simpa using hi)
        have e : k + (i + 1) = k + 1 + i := by omega
        rw [e] at this
        exact this)]
    simp only [mapOff, List.append_assoc, List.singleton_append]
    rw [U_step body tbl y k lk hk]

end

/-! ### backward over the stretch -/

/-- the targets of source `i` of the stretch, read from the inverted table -/
def tgs (inv : List (Nat × List Nat)) (h : Nat) (i : Nat) : List Nat :=
  ((Assoc.find? inv (h + i)).getD []).map (· - h)

/-- what a source adds up: its own processed-input gradient plus those of its targets -/
theorem fold_addSkip (len h i : Nat) (δ : V m.T) (processed : List (Tensor ℝ)) (D : Nat → V m.T)
    (hD : D i = δ) :
    ∀ (ts : List Nat) (cur : V m.T),
    (∀ t ∈ ts, ∃ t', t = h + t' ∧ Compat (em t') (em i) ∧
      (t' ≠ i → t ≤ len ∧ L.get processed (len - t) = .ok (em t' (D t')))) →
    ts.foldl (addSkipGradient len (h + i) (em i δ) processed) (.ok (em i cur)) =
      .ok (em i (cur + ((ts.map (· - h)).map D).sum))
  | [], cur, _ => by simp
  | t :: rest, cur, hts => by
    obtain ⟨t', ht, hc, hproc⟩ := hts t (List.mem_cons_self ..)
    subst ht
    simp only [List.foldl_cons, List.map_cons, List.sum_cons, Nat.add_sub_cancel_left]
    have hs : addSkipGradient len (h + i) (em i δ) processed (.ok (em i cur)) (h + t') = .ok (em i (cur + D t')) := by
      unfold addSkipGradient
      by_cases hti : t' = i
      · subst hti
        obtain ⟨w, hw1, hw2⟩ := hc.self rfl cur δ
        simp only [if_true, hw1, hw2, hD]
      · have := hproc hti
        rw [if_neg (by omega)]
        obtain ⟨w, hw1, hw2⟩ := hc.bwd cur (D t')
        simp only [checkedSub, if_pos this.1, this.2, hw1, hw2]
    rw [hs, fold_addSkip len h i δ processed D hD rest (cur + D t')
      (fun t ht => hts t (List.mem_cons_of_mem _ ht)), add_assoc]

theorem zip_range'_snoc {β : Type} (A : List β) (x : β) (k : Nat) :
    List.zip (List.range' k (A ++ [x]).length) (A ++ [x]) = List.zip (List.range' k A.length) A ++ [(k + A.length, x)] := by
  rw [zip_range'_append]
  rfl

section
variable (n : Network ℝ) (h lt : Nat) (body : List (Link m)) (tbl : List (Nat × Nat)) (y γ : V m.T)
  (T : Trace ℝ) (inv : List (Nat × List Nat)) (W0 : List (WGrad ℝ)) (B0 : List (BGrad ℝ)) (G0 : List (Tensor ℝ))

/-- the sweep of `SkipDag` over the stretch -/
abbrev sw (k : Nat) : V m.T × (Nat → V m.T) :=
  SkipDag.sweep (dagNet body tbl) (tgs inv h) y body.length γ k

/-- the state of the reverse walk after `k` layers of the stretch -/
def bst (em : Nat → Enc m) : Nat → BackState ℝ
  | 0 => (W0, B0, G0, G0)
  | k + 1 =>
    let s := bst em k
    let i := body.length - (k + 1)
    let Gk := (sw h body tbl y γ inv k).1
    let p := SkipDag.P (dagNet body tbl) i y
    match body[i]? with
    | some lk => (s.1 ++ [(lk.wg p Gk).1], s.2.1 ++ [(lk.wg p Gk).2],
        s.2.2.1 ++ [em i (sw h body tbl y γ inv (k + 1)).1], s.2.2.2 ++ [em i (lk.b p Gk)])
    | none => s

theorem bst_grads_last (hG0 : G0.getLast? = some (em body.length γ)) : ∀ k, k ≤ body.length →
    (bst h body tbl y γ inv W0 B0 G0 em k).2.2.1.getLast? = some (em (body.length - k) (sw h body tbl y γ inv k).1)
  | 0, _ => by simpa [bst, SkipDag.sweep] using hG0
  | k + 1, hk => by
    have hi : body.length - (k + 1) < body.length := by omega
    simp only [bst, List.getElem?_eq_getElem hi]
    simp

theorem bst_processed : ∀ k, k ≤ body.length →
    (bst h body tbl y γ inv W0 B0 G0 em k).2.2.2 =
      G0 ++ (List.range k).map (fun r => em (body.length - (r + 1)) ((sw h body tbl y γ inv (r + 1)).2 (body.length - (r + 1))))
  | 0, _ => by simp [bst]
  | k + 1, hk => by
    have hi : body.length - (k + 1) < body.length := by omega
    simp only [bst, List.getElem?_eq_getElem hi]
    rw [bst_processed k (by omega), List.range_succ, List.map_append, ← List.append_assoc]
    congr 1
    simp only [List.map_cons, List.map_nil]
    rw [SkipDag.sweep_D_self]
    simp only [dagNet, List.getElem?_eq_getElem hi]
    rfl

theorem bst_ws : ∀ k, k ≤ body.length →
    (bst h body tbl y γ inv W0 B0 G0 em k).1.length = W0.length + k ∧
    (bst h body tbl y γ inv W0 B0 G0 em k).2.1.length = B0.length + k ∧
    ∀ r, r < k → ∀ lk : Link m, body[body.length - (r + 1)]? = some lk →
      (bst h body tbl y γ inv W0 B0 G0 em k).1[W0.length + r]? =
        some (lk.wg (SkipDag.P (dagNet body tbl) (body.length - (r + 1)) y) (sw h body tbl y γ inv r).1).1 ∧
      (bst h body tbl y γ inv W0 B0 G0 em k).2.1[B0.length + r]? =
        some (lk.wg (SkipDag.P (dagNet body tbl) (body.length - (r + 1)) y) (sw h body tbl y γ inv r).1).2
  | 0, _ => ⟨by simp [bst], by simp [bst], fun r hr => by omega⟩
  | k + 1, hk => by
    have hi : body.length - (k + 1) < body.length := by omega
    obtain ⟨l1, l2, ih⟩ := bst_ws k (by omega)
    simp only [bst, List.getElem?_eq_getElem hi]
    refine ⟨by simp [l1]; omega, by simp [l2]; omega, fun r hr lk hlk => ?_⟩
    rcases Nat.lt_or_ge r k with h1 | h1
    · obtain ⟨e1, e2⟩ := ih r h1 lk hlk
      rw [List.getElem?_append_left (by omega), List.getElem?_append_left (by omega)]
      exact ⟨e1, e2⟩
    · have hrk : r = k := by omega
      subst hrk
      rw [List.getElem?_eq_getElem hi] at hlk
      simp only [Option.some.injEq] at hlk
      subst hlk
      rw [List.getElem?_append_right (by omega), List.getElem?_append_right (by omega)]
      simp [l1, l2]

theorem sw_D_self' (k : Nat) (lk : Link m) (hlk : body[body.length - (k + 1)]? = some lk) :
    (sw h body tbl y γ inv (k + 1)).2 (body.length - (k + 1)) =
      lk.b (SkipDag.P (dagNet body tbl) (body.length - (k + 1)) y) (sw h body tbl y γ inv k).1 := by
  rw [SkipDag.sweep_D_self]
  simp only [dagNet, hlk]
  rfl

theorem sw_fst' (k : Nat) (lk : Link m) (hlk : body[body.length - (k + 1)]? = some lk) :
    (sw h body tbl y γ inv (k + 1)).1 =
      lk.b (SkipDag.P (dagNet body tbl) (body.length - (k + 1)) y) (sw h body tbl y γ inv k).1 +
        ((((Assoc.find? inv (h + (body.length - (k + 1)))).getD []).map (· - h)).map (sw h body tbl y γ inv (k + 1)).2).sum := by
  rw [SkipDag.sweep_succ_fst]
  simp only [dagNet, hlk, tgs]
  rfl

/-- **one layer of the stretch in the reverse walk** -/
theorem back_step (hacc : n.skipaccumulation = .add) (hcomp : ∀ t s, Assoc.find? tbl t = some s → Compat (em t) (em s))
    (hsrc : ∀ t s, Assoc.find? tbl t = some s → s ≤ t)
    (hconn : ∀ k, k < body.length → Assoc.find? n.connect (h + k) = (Assoc.find? tbl k).map (h + ·))
    (hTact : ∀ j, j ≤ body.length → L.get T.act (h + j) = .ok (em j (SkipDag.U (dagNet body tbl) j y)))
    (hTpre : ∀ j (lk : Link m), body[j]? = some lk → L.get T.pre (h + j) = .ok (lk.pre (SkipDag.P (dagNet body tbl) j y)))
    (hTrec : ∀ j (lk : Link m), body[j]? = some lk → L.get T.recs (h + j) = .ok (lk.rc (SkipDag.P (dagNet body tbl) j y)))
    (hreal : ∀ j (lk : Link m), body[j]? = some lk → lk.Real (em j) (em (j + 1)) (SkipDag.P (dagNet body tbl) j y))
    (hlen : n.layers.length = h + body.length + lt) (hG0len : G0.length = lt + 1) (hG0 : G0.getLast? = some (em body.length γ))
    (hinv : ∀ i, i < body.length → ∀ t ∈ (Assoc.find? inv (h + i)).getD [], ∃ t', t = h + t' ∧ i ≤ t' ∧ t' < body.length ∧ Assoc.find? tbl t' = some i)
    (k : Nat) (hk : k < body.length) (lk : Link m) (hlk : body[body.length - (k + 1)]? = some lk) :
    backwardStep n T inv (.ok (bst h body tbl y γ inv W0 B0 G0 em k)) (h + (body.length - (k + 1)), lk.l) =
      .ok (bst h body tbl y γ inv W0 B0 G0 em (k + 1)) := by
  have hlast := bst_grads_last (em := em) h body tbl y γ inv W0 B0 G0 hG0 k (by omega)
  have hproc := bst_processed (em := em) h body tbl y γ inv W0 B0 G0 k (by omega)
  have hDs := sw_D_self' h body tbl y γ inv k lk hlk
  have hF := sw_fst' h body tbl y γ inv k lk hlk
  have hnext : bst h body tbl y γ inv W0 B0 G0 em (k + 1) =
      ((bst h body tbl y γ inv W0 B0 G0 em k).1 ++
          [(lk.wg (SkipDag.P (dagNet body tbl) (body.length - (k + 1)) y) (sw h body tbl y γ inv k).1).1],
       (bst h body tbl y γ inv W0 B0 G0 em k).2.1 ++
          [(lk.wg (SkipDag.P (dagNet body tbl) (body.length - (k + 1)) y) (sw h body tbl y γ inv k).1).2],
       (bst h body tbl y γ inv W0 B0 G0 em k).2.2.1 ++ [em (body.length - (k + 1)) (sw h body tbl y γ inv (k + 1)).1],
       (bst h body tbl y γ inv W0 B0 G0 em k).2.2.2 ++
          [em (body.length - (k + 1)) (lk.b (SkipDag.P (dagNet body tbl) (body.length - (k + 1)) y) (sw h body tbl y γ inv k).1)]) := by
    rw [bst]
    simp only [hlk]
  rw [hnext]
  obtain ⟨i, hi⟩ : ∃ i, body.length - (k + 1) = i := ⟨_, rfl⟩
  rw [hi] at hlk hDs hF ⊢
  rcases hst : bst h body tbl y γ inv W0 B0 G0 em k with ⟨wgs, bgs, grads, processed⟩
  rw [hst] at hlast hproc
  simp only [] at hlast hproc ⊢
  have hin := skipInput_body n h body tbl y hacc hcomp hsrc i (hconn i (by omega)) T.act (fun j hj => hTact j (by omega))
  have hbw := (hreal i lk hlk).2 (sw h body tbl y γ inv k).1
  have ek : body.length - k = i + 1 := by omega
  rw [ek] at hlast
  -- what the source adds up
  have hsum : ∀ ts, (Assoc.find? inv (h + i)).getD [] = ts →
      ts.foldl (addSkipGradient n.layers.length (h + i)
          (em i (lk.b (SkipDag.P (dagNet body tbl) i y) (sw h body tbl y γ inv k).1)) processed)
        (.ok (em i (lk.b (SkipDag.P (dagNet body tbl) i y) (sw h body tbl y γ inv k).1))) =
        .ok (em i (sw h body tbl y γ inv (k + 1)).1) := by
    intro ts hts
    rw [fold_addSkip n.layers.length h i _ processed (sw h body tbl y γ inv (k + 1)).2 hDs ts _]
    · rw [hF, hts]
    · intro t ht
      obtain ⟨t', ht', h1, h2, h3⟩ := hinv i (by omega) t (by rw [hts]; exact ht)
      refine ⟨t', ht', hcomp t' i h3, fun hne => ⟨by omega, ?_⟩⟩
      subst ht'
      rw [hproc, get_iff, List.getElem?_append_right (by omega)]
      have hidx : n.layers.length - (h + t') - G0.length = body.length - t' - 1 := by omega
      rw [hidx, List.getElem?_map, List.getElem?_range (by omega)]
      simp only [Option.map_some]
      have e1 : body.length - (body.length - t' - 1 + 1) = t' := by omega
      rw [e1]
      have := SkipDag.sweep_stable (dagNet body tbl) (tgs inv h) y body.length γ (body.length - t' - 1) (k + 1) (by omega) (by omega)
      rw [e1] at this
      rw [this]
  unfold backwardStep
  simp only [hin, hTpre i lk hlk, hlast, hTrec i lk hlk, hbw]
  cases hf : Assoc.find? inv (h + i) with
  | none =>
    have := hsum [] (by rw [hf]; rfl)
    simp only [List.foldl_nil, Except.ok.injEq] at this
    simp only []
    rw [← this]
  | some ts =>
    have := hsum ts (by rw [hf]; rfl)
    simp only []
    rw [this]

/-- **the reverse walk over the whole stretch** -/
theorem back_body (hacc : n.skipaccumulation = .add) (hcomp : ∀ t s, Assoc.find? tbl t = some s → Compat (em t) (em s))
    (hsrc : ∀ t s, Assoc.find? tbl t = some s → s ≤ t)
    (hconn : ∀ k, k < body.length → Assoc.find? n.connect (h + k) = (Assoc.find? tbl k).map (h + ·))
    (hTact : ∀ j, j ≤ body.length → L.get T.act (h + j) = .ok (em j (SkipDag.U (dagNet body tbl) j y)))
    (hTpre : ∀ j (lk : Link m), body[j]? = some lk → L.get T.pre (h + j) = .ok (lk.pre (SkipDag.P (dagNet body tbl) j y)))
    (hTrec : ∀ j (lk : Link m), body[j]? = some lk → L.get T.recs (h + j) = .ok (lk.rc (SkipDag.P (dagNet body tbl) j y)))
    (hreal : ∀ j (lk : Link m), body[j]? = some lk → lk.Real (em j) (em (j + 1)) (SkipDag.P (dagNet body tbl) j y))
    (hlen : n.layers.length = h + body.length + lt) (hG0len : G0.length = lt + 1) (hG0 : G0.getLast? = some (em body.length γ))
    (hinv : ∀ i, i < body.length → ∀ t ∈ (Assoc.find? inv (h + i)).getD [], ∃ t', t = h + t' ∧ i ≤ t' ∧ t' < body.length ∧ Assoc.find? tbl t' = some i) :
    ∀ j, j ≤ body.length →
      (List.zip (List.range' h ((body.take j).map (·.l)).length) ((body.take j).map (·.l))).reverse.foldl (backwardStep n T inv)
        (.ok (bst h body tbl y γ inv W0 B0 G0 em (body.length - j))) = .ok (bst h body tbl y γ inv W0 B0 G0 em body.length)
  | 0, _ => by simp
  | j + 1, hj => by
    have hjl : j < body.length := by omega
    have hlk : body[body.length - (body.length - (j + 1) + 1)]? = some body[j] := by
      have : body.length - (body.length - (j + 1) + 1) = j := by omega
      rw [this, List.getElem?_eq_getElem hjl]
    have hstep := back_step n h lt body tbl y γ T inv W0 B0 G0 hacc hcomp hsrc hconn hTact hTpre hTrec hreal hlen hG0len hG0 hinv
      (body.length - (j + 1)) (by omega) body[j] hlk
    have e1 : body.length - (body.length - (j + 1) + 1) = j := by omega
    have e2 : body.length - (j + 1) + 1 = body.length - j := by omega
    rw [e1, e2] at hstep
    have hlenj : ((body.take j).map (·.l)).length = j := by simp; omega
    rw [List.take_succ_eq_append_getElem hjl, List.map_append, List.map_cons, List.map_nil, zip_range'_snoc, List.reverse_append,
      List.reverse_cons, List.reverse_nil, List.nil_append, List.singleton_append, List.foldl_cons, hlenj, hstep]
    have := back_body hacc hcomp hsrc hconn hTact hTpre hTrec hreal hlen hG0len hG0 hinv j (by omega)
    rw [hlenj] at this
    exact this

end

/-! ### the whole network -/

/-- the table of the stretch, placed after `h` earlier layers -/
def shift (h : Nat) (e : Nat × Nat) : Nat × Nat := (h + e.1, h + e.2)

theorem find?_shift (h : Nat) : ∀ (tbl : List (Nat × Nat)) (k : Nat),
    Assoc.find? (tbl.map (shift h)) (h + k) = (Assoc.find? tbl k).map (h + ·)
  | [], k => rfl
  | e :: rest, k => by
    obtain ⟨t, s⟩ := e
    simp only [List.map_cons, shift, Assoc.find?]
    by_cases htk : t = k
    · subst htk; simp
    · rw [if_neg (by omega), if_neg htk]; exact find?_shift h rest k

theorem getLast?_mapOff (F : Nat → V m.T) : ∀ (ls : List (Link m)) (k : Nat) (A : List (Tensor ℝ)),
    A.getLast? = some (em k (F k)) →
    (A ++ mapOff (fun j _ => em (j + 1) (F (j + 1))) k ls).getLast? = some (em (k + ls.length) (F (k + ls.length)))
  | [], k, A, hA => by simpa [mapOff] using hA
  | lk :: rest, k, A, hA => by
    simp only [mapOff]
    have := getLast?_mapOff F rest (k + 1) (A ++ [em (k + 1) (F (k + 1))]) (by simp)
    simp only [List.append_assoc, List.singleton_append] at this
    rw [this]
    simp only [List.length_cons]
    have e : k + 1 + rest.length = k + (rest.length + 1) := by omega
    rw [e]

section
variable (head : Chain a ea m (em 0)) (body : List (Link m)) (tbl : List (Nat × Nat)) (tail : Chain m (em body.length) c ec)

/-- the network function -/
def dagFn (x : V a.T) : V c.T :=
  (gnet tail).fwd (SkipDag.U (dagNet body tbl) body.length ((gnet head).fwd x))

/-- the trace `Network.forward` records -/
def dagTrace (x : V a.T) : Trace ℝ :=
  let y := (gnet head).fwd x
  let z := SkipDag.U (dagNet body tbl) body.length y
  { pre := pres head x ++ mapOff (fun j lk => lk.pre (SkipDag.P (dagNet body tbl) j y)) 0 body ++ pres tail z,
    act := (ea x :: acts head x) ++ mapOff (fun j _ => em (j + 1) (SkipDag.U (dagNet body tbl) (j + 1) y)) 0 body ++ acts tail z,
    recs := recs head x ++ mapOff (fun j lk => lk.rc (SkipDag.P (dagNet body tbl) j y)) 0 body ++ recs tail z }

/-- the network: `head`, the stretch with its table of additive skip connections, `tail`; no loop
    connections.  Every connection goes from a layer of the stretch to the same or a later layer of the
    stretch, and no layer is the target of two connections. -/
structure IsDagNet (n : Network ℝ) : Prop where
  layers : n.layers = LayerChain.layers head ++ body.map (·.l) ++ LayerChain.layers tail
  connect : n.connect = tbl.map (shift (LayerChain.layers head).length)
  acc : n.skipaccumulation = .add
  loopbacks : n.loopbacks = []
  keys : (tbl.map Prod.fst).Nodup
  bounds : ∀ e ∈ tbl, e.2 ≤ e.1 ∧ e.1 < body.length

variable {head body tbl tail}

theorem IsDagNet.src {n : Network ℝ} (hn : IsDagNet head body tbl tail n) (t s : Nat) (h : Assoc.find? tbl t = some s) : s ≤ t :=
  (hn.bounds _ (find?_mem tbl t s h)).1

theorem IsDagNet.find_in {n : Network ℝ} (hn : IsDagNet head body tbl tail n) (k : Nat) :
    Assoc.find? n.connect ((LayerChain.layers head).length + k) = (Assoc.find? tbl k).map ((LayerChain.layers head).length + ·) := by
  rw [hn.connect]; exact find?_shift _ tbl k

theorem IsDagNet.find_out {n : Network ℝ} (hn : IsDagNet head body tbl tail n) (i : Nat)
    (hi : i < (LayerChain.layers head).length ∨ (LayerChain.layers head).length + body.length ≤ i) :
    Assoc.find? n.connect i = none := by
  rw [hn.connect]
  apply find?_none
  intro hmem
  simp only [List.map_map, List.mem_map, Function.comp_apply, shift] at hmem
  obtain ⟨e, he, hei⟩ := hmem
  have := (hn.bounds e he).2
  omega

variable (head body tbl tail)

/-- **forward**: every layer of the stretch processes its ordinary input plus the input of its source -/
theorem forward_dag (n : Network ℝ) (hn : IsDagNet head body tbl tail n) (hcomp : ∀ t s, Assoc.find? tbl t = some s → Compat (em t) (em s)) (x : V a.T)
    (hrh : Real head x)
    (hrb : ∀ j (lk : Link m), body[j]? = some lk → lk.Real (em j) (em (j + 1)) (SkipDag.P (dagNet body tbl) j ((gnet head).fwd x)))
    (hrt : Real tail (SkipDag.U (dagNet body tbl) body.length ((gnet head).fwd x))) :
    n.forward (ea x) = .ok (dagTrace head body tbl tail x) := by
  set y := (gnet head).fwd x with hy
  set z := SkipDag.U (dagNet body tbl) body.length y with hz
  have hlh := lengths head x
  set h := (LayerChain.layers head).length with hh
  unfold Network.forward
  rw [hn.layers, List.range_eq_range', zip_range'_append, List.foldl_append, zip_range'_append, List.foldl_append]
  -- the head
  rw [forward_free n hn.loopbacks (LayerChain.layers head) 0 _ (ea x) rfl rfl
    (fun i _ h2 => hn.find_out i (Or.inl (by simp only [Nat.zero_add] at h2; exact h2))), LayerChain.forward_fold head x hrh]
  simp only [List.nil_append, Nat.zero_add]
  -- the stretch
  have hU0 : SkipDag.U (dagNet body tbl) 0 y = y := by rw [SkipDag.U]
  have hb := forward_body n h body tbl y hn.loopbacks hn.acc hcomp hn.src (fun k _ => hn.find_in k) body 0
    { pre := pres head x, act := [ea x] ++ acts head x, recs := recs head x } rfl (by simp [hlh.2.1])
    (fun j hj => by
      have : j = 0 := by omega
      subst this
      rw [hU0]
      exact FeedbackSpec.get_last _ _ _ (by simp [hlh.2.1]) (by simpa using acts_last head x))
    (fun i lk hi => by simpa using hrb i lk hi)
  simp only [Nat.add_zero, List.length_map] at hb ⊢
  rw [hb]
  -- the tail
  have hlast : ([ea x] ++ acts head x ++ mapOff (fun j _ => em (j + 1) (SkipDag.U (dagNet body tbl) (j + 1) y)) 0 body).getLast? =
      some (em body.length z) := by
    have := getLast?_mapOff (fun j => SkipDag.U (dagNet body tbl) j y) body 0 ([ea x] ++ acts head x)
      (by rw [hU0]; simpa using acts_last head x)
    simpa using this
  have hlen2 : (LayerChain.layers head ++ List.map (fun x => x.l) body).length = h + body.length := by simp [hh]
  rw [hlen2, forward_free n hn.loopbacks (LayerChain.layers tail) (h + body.length) _ (em body.length z) hlast
    (by simp [hlh.2.1, length_mapOff]; try omega)
    (fun i h1 _ => hn.find_out i (Or.inr h1)), LayerChain.forward_fold tail z hrt]
  simp [dagTrace, List.append_assoc, hy, hz]

/-- the gradient the reverse walk hands to the layer at position `body.length - (r + 1)` of the stretch -/
def handedTo (x : V a.T) (g : V c.T) (r : Nat) : V m.T :=
  let y := (gnet head).fwd x
  let z := SkipDag.U (dagNet body tbl) body.length y
  (SkipDag.sweep (dagNet body tbl)
      (tgs (invertSkips (tbl.map (shift (LayerChain.layers head).length))) (LayerChain.layers head).length) y body.length
      ((gnet tail).bwd z g) r).1

/-- the reverse-mode function: the sweep of `SkipDag` over the stretch, between the reverse walks over
    `tail` and `head` -/
def dagBwd (x : V a.T) (g : V c.T) : V a.T :=
  let y := (gnet head).fwd x
  let z := SkipDag.U (dagNet body tbl) body.length y
  (gnet head).bwd x
    (SkipDag.sweep (dagNet body tbl)
      (tgs (invertSkips (tbl.map (shift (LayerChain.layers head).length))) (LayerChain.layers head).length) y body.length
      ((gnet tail).bwd z g) body.length).1

theorem getLast?_append_getD {β : Type} (A gs : List β) (g0 v : β) (hA : A.getLast? = some g0)
    (h : gs.getLast?.getD g0 = v) : (A ++ gs).getLast? = some v := by
  rw [List.getLast?_append]
  cases hq : gs.getLast? with
  | none => rw [hq] at h; simp at h; simp [h, hA]
  | some w => rw [hq] at h; simp at h; simp [h]

theorem getLast?_of_getD {β : Type} (gs : List β) (g0 v : β) (pre : List β) (h : gs.getLast?.getD g0 = v) :
    (pre ++ [g0] ++ gs).getLast? = some v := by
  rw [List.getLast?_append]
  cases hq : gs.getLast? with
  | none => rw [hq] at h; simp at h; simp [h]
  | some w => rw [hq] at h; simp at h; simp [h]

theorem allGrads_length : ∀ {a : Idx} {ea : Enc a} {c : Idx} {ec : Enc c} (ch : Chain a ea c ec) (x : V a.T) (g : V c.T),
    (allGrads ch x g).length = (LayerChain.layers ch).length
  | _, _, _, _, .nil _ _, _, _ => rfl
  | _, _, _, _, .cons _ f _ _ _ _ rest, x, g => by simp [allGrads, LayerChain.layers, allGrads_length rest (f x) g]

/-- **backward**: the reverse walk over the recorded trace performs the sweep and ends in `dagBwd` -/
theorem backward_dag (n : Network ℝ) (hn : IsDagNet head body tbl tail n) (hcomp : ∀ t s, Assoc.find? tbl t = some s → Compat (em t) (em s)) (x : V a.T) (g : V c.T)
    (hrh : Real head x)
    (hrb : ∀ j (lk : Link m), body[j]? = some lk → lk.Real (em j) (em (j + 1)) (SkipDag.P (dagNet body tbl) j ((gnet head).fwd x)))
    (hrt : Real tail (SkipDag.U (dagNet body tbl) body.length ((gnet head).fwd x))) :
    ∃ ws bs gs, n.backward (ec g) (dagTrace head body tbl tail x) = .ok (ws, bs, gs) ∧
      gs.getLast? = some (ea (dagBwd head body tbl tail x g)) ∧
      ∀ r (lk : Link m), r < body.length → body[body.length - (r + 1)]? = some lk →
        ws[(LayerChain.layers tail).length + r]? =
          some (lk.wg (SkipDag.P (dagNet body tbl) (body.length - (r + 1)) ((gnet head).fwd x))
            (handedTo head body tbl tail x g r)).1 ∧
        bs[(LayerChain.layers tail).length + r]? =
          some (lk.wg (SkipDag.P (dagNet body tbl) (body.length - (r + 1)) ((gnet head).fwd x))
            (handedTo head body tbl tail x g r)).2 := by
  set T := dagTrace head body tbl tail x with hT
  set y := (gnet head).fwd x with hy
  set z := SkipDag.U (dagNet body tbl) body.length y with hz
  have hlh := lengths head x
  have hlt := lengths tail z
  set h := (LayerChain.layers head).length with hh
  set lt := (LayerChain.layers tail).length with hlt'
  set inv := invertSkips n.connect with hinvdef
  have hU0 : SkipDag.U (dagNet body tbl) 0 y = y := by rw [SkipDag.U]
  -- the recorded trace
  have hTact : T.act = (ea x :: acts head x) ++ mapOff (fun j _ => em (j + 1) (SkipDag.U (dagNet body tbl) (j + 1) y)) 0 body ++ acts tail z := rfl
  have hTpre : T.pre = pres head x ++ mapOff (fun j lk => lk.pre (SkipDag.P (dagNet body tbl) j y)) 0 body ++ pres tail z := rfl
  have hTrec : T.recs = recs head x ++ mapOff (fun j lk => lk.rc (SkipDag.P (dagNet body tbl) j y)) 0 body ++ recs tail z := rfl
  have hact : ∀ j, j ≤ body.length → L.get T.act (h + j) = .ok (em j (SkipDag.U (dagNet body tbl) j y)) := by
    intro j hj
    rw [get_iff, hTact]
    rcases Nat.eq_zero_or_pos j with h0 | hpos
    · subst h0
      rw [List.append_assoc, List.getElem?_append_left (by simp [hlh.2.1])]
      have := FeedbackSpec.get_last (ea x :: acts head x) (em 0 y) h (by simp [hlh.2.1]) (acts_last head x)
      rw [get_iff] at this
      rw [hU0]
      exact this
    · rw [List.getElem?_append_left (by simp [hlh.2.1, length_mapOff]; omega),
        List.getElem?_append_right (by simp [hlh.2.1]; omega), getElem?_mapOff]
      have e1 : h + j - (ea x :: acts head x).length = j - 1 := by simp [hlh.2.1]; omega
      rw [e1, List.getElem?_eq_getElem (by omega : j - 1 < body.length)]
      simp only [Option.map_some, Nat.zero_add]
      have ej : j - 1 + 1 = j := by omega
      rw [ej]
  have hpre : ∀ j (lk : Link m), body[j]? = some lk → L.get T.pre (h + j) = .ok (lk.pre (SkipDag.P (dagNet body tbl) j y)) := by
    intro j lk hlk
    have hj : j < body.length := by
      rcases Nat.lt_or_ge j body.length with h1 | h1
      · exact h1
      · rw [List.getElem?_eq_none h1] at hlk; cases hlk
    rw [get_iff, hTpre, List.getElem?_append_left (by simp [hlh.1, length_mapOff]; omega),
      List.getElem?_append_right (by simp [hlh.1]), getElem?_mapOff]
    have e1 : h + j - (pres head x).length = j := by simp [hlh.1]
    rw [e1, hlk]
    simp
  have hrec : ∀ j (lk : Link m), body[j]? = some lk → L.get T.recs (h + j) = .ok (lk.rc (SkipDag.P (dagNet body tbl) j y)) := by
    intro j lk hlk
    have hj : j < body.length := by
      rcases Nat.lt_or_ge j body.length with h1 | h1
      · exact h1
      · rw [List.getElem?_eq_none h1] at hlk; cases hlk
    rw [get_iff, hTrec, List.getElem?_append_left (by simp [hlh.2.2, length_mapOff]; omega),
      List.getElem?_append_right (by simp [hlh.2.2]), getElem?_mapOff]
    have e1 : h + j - (recs head x).length = j := by simp [hlh.2.2]
    rw [e1, hlk]
    simp
  -- the tables
  have hconn_out : ∀ i, (i < h ∨ h + body.length ≤ i) → Assoc.find? n.connect i = none := fun i hi => hn.find_out i hi
  have hinv_out : ∀ i, (i < h ∨ h + body.length ≤ i) → Assoc.find? inv i = none := by
    intro i hi
    apply invert_none
    intro e he'
    rw [hn.connect] at he'
    simp only [List.mem_map, shift] at he'
    obtain ⟨e0, he0, rfl⟩ := he'
    have := hn.bounds e0 he0
    simp only
    omega
  have hinv_in : ∀ i, i < body.length → ∀ t ∈ (Assoc.find? inv (h + i)).getD [], ∃ t', t = h + t' ∧ i ≤ t' ∧ t' < body.length ∧
      Assoc.find? tbl t' = some i := by
    intro i hi t ht
    rw [hinvdef, invert_mem, hn.connect] at ht
    simp only [List.mem_map, shift, Prod.mk.injEq] at ht
    obtain ⟨e0, he0, h1, h2⟩ := ht
    have := hn.bounds e0 he0
    have h2' : e0.2 = i := by omega
    refine ⟨e0.1, h1.symm, by omega, this.2, ?_⟩
    rw [← h2']
    exact mem_find? tbl hn.keys e0.1 e0.2 he0
  have hNlen : n.layers.length = h + body.length + lt := by
    rw [hn.layers]; simp [hh, hlt']; omega
  -- the reversed position list in three stretches
  have hzip : (List.zip (List.range n.layers.length) n.layers).reverse =
      (List.zip (List.range' (h + body.length) lt) (LayerChain.layers tail)).reverse ++
      (List.zip (List.range' h ((body.take body.length).map (·.l)).length) ((body.take body.length).map (·.l))).reverse ++
      (List.zip (List.range' 0 h) (LayerChain.layers head)).reverse := by
    rw [hn.layers, List.range_eq_range', zip_range'_append, zip_range'_append]
    simp only [List.reverse_append, List.take_length, Nat.zero_add, List.length_append, List.length_map, List.append_assoc, hh, hlt']
  have hmemzip : ∀ (k len : Nat) (ls : List (Layer ℝ)) (il : Nat × Layer ℝ),
      il ∈ (List.zip (List.range' k len) ls).reverse → k ≤ il.1 ∧ il.1 < k + len := by
    intro k len ls il hil
    rw [List.mem_reverse] at hil
    have := (List.of_mem_zip hil).1
    rw [List.mem_range'_1] at this
    exact this
  -- 1. the tail
  set γ := (gnet tail).bwd z g with hγ
  have hl : ((ea x :: acts head x) ++ mapOff (fun j _ => em (j + 1) (SkipDag.U (dagNet body tbl) (j + 1) y)) 0 body).getLast? = some (em body.length z) := by
    have := getLast?_mapOff (fun j => SkipDag.U (dagNet body tbl) j y) body 0 (ea x :: acts head x)
      (by rw [hU0]; exact acts_last head x)
    simpa using this
  obtain ⟨A0, hA0⟩ := List.getLast?_eq_some_iff.mp hl
  have hA0len : A0.length = h + body.length := by
    have := congrArg List.length hA0
    simp [hlh.2.1, length_mapOff] at this
    omega
  obtain ⟨ws1, bs1, gs1, h11, h12, h13, _, h15, h16⟩ := back_walk tail z g (h + body.length) T A0
    (pres head x ++ mapOff (fun j lk => lk.pre (SkipDag.P (dagNet body tbl) j y)) 0 body)
    (recs head x ++ mapOff (fun j lk => lk.rc (SkipDag.P (dagNet body tbl) j y)) 0 body) [] [] [] hrt
    hA0len (by simp [hlh.1, length_mapOff]) (by simp [hlh.2.2, length_mapOff])
    (by rw [hTact, hA0]; simp) (by rw [hTpre]; simp) (by rw [hTrec]; simp)
  have hstep1 := back_free n T inv
    (List.zip (List.range' (h + body.length) lt) (LayerChain.layers tail)).reverse [] [] [ec g] [ec g] (ec g) rfl
    (fun il hil => by
      have := hmemzip _ _ _ il hil
      exact ⟨hconn_out il.1 (Or.inr this.1), hinv_out il.1 (Or.inr this.1)⟩)
  rw [h11] at hstep1
  simp only [onState, List.nil_append] at hstep1
  -- 2. the stretch
  have hG0len : ([ec g] ++ gs1).length = lt + 1 := by simp [h13]; omega
  have hG0 : ([ec g] ++ gs1).getLast? = some (em body.length γ) := by
    have := getLast?_of_getD gs1 (ec g) (em body.length γ) [] h12
    simpa using this
  have hbody := back_body n h lt body tbl y γ T inv ws1 bs1 ([ec g] ++ gs1) hn.acc hcomp hn.src (fun k _ => hn.find_in k)
    hact hpre hrec hrb hNlen hG0len hG0 hinv_in body.length (Nat.le_refl _)
  rw [Nat.sub_self] at hbody
  have hb0 : bst h body tbl y γ inv ws1 bs1 ([ec g] ++ gs1) em 0 = (ws1, bs1, [ec g] ++ gs1, [ec g] ++ gs1) := rfl
  rw [hb0] at hbody
  -- 3. the head
  have hlastN := bst_grads_last (em := em) h body tbl y γ inv ws1 bs1 ([ec g] ++ gs1) hG0 body.length (Nat.le_refl _)
  rcases hS : bst h body tbl y γ inv ws1 bs1 ([ec g] ++ gs1) em body.length with ⟨wsN, bsN, gradsN, procN⟩
  rw [hS] at hlastN hbody
  simp only [Nat.sub_self] at hlastN
  set σ := (sw h body tbl y γ inv body.length).1 with hσ
  obtain ⟨ws5, bs5, gs5, h51, h52, h53, _⟩ := back_walk head x σ 0 T [] [] []
    (mapOff (fun j _ => em (j + 1) (SkipDag.U (dagNet body tbl) (j + 1) y)) 0 body ++ acts tail z)
    (mapOff (fun j lk => lk.pre (SkipDag.P (dagNet body tbl) j y)) 0 body ++ pres tail z)
    (mapOff (fun j lk => lk.rc (SkipDag.P (dagNet body tbl) j y)) 0 body ++ recs tail z) hrh rfl rfl rfl
    (by rw [hTact]; simp) (by rw [hTpre]; simp) (by rw [hTrec]; simp)
  have hstep5 := back_free n T inv
    (List.zip (List.range' 0 h) (LayerChain.layers head)).reverse wsN bsN gradsN procN (em 0 σ) hlastN
    (fun il hil => by
      have := hmemzip _ _ _ il hil
      exact ⟨hconn_out il.1 (Or.inl (by omega)), hinv_out il.1 (Or.inl (by omega))⟩)
  rw [h51] at hstep5
  simp only [onState] at hstep5
  -- assemble
  have hws := bst_ws (em := em) h body tbl y γ inv ws1 bs1 ([ec g] ++ gs1) body.length (Nat.le_refl _)
  rw [hS] at hws
  simp only [] at hws
  have hl1 : ws1.length = lt := by rw [h15, List.length_map, allGrads_length]
  have hl2 : bs1.length = lt := by rw [h16, List.length_map, allGrads_length]
  refine ⟨wsN ++ ws5, bsN ++ bs5, gradsN ++ gs5, ?_, ?_, ?_⟩
  · unfold Network.backward
    rw [← hinvdef, hzip]
    simp only [List.foldl_append, hstep1, hbody, hstep5]
  · rw [getLast?_append_getD gradsN gs5 (em 0 σ) _ hlastN h52]
    simp only [dagBwd, hσ, hγ, hy, hz, hinvdef, hn.connect, hh]
  · intro r lk hr hlk
    obtain ⟨e1, e2⟩ := hws.2.2 r hr lk hlk
    rw [hl1] at e1
    rw [hl2] at e2
    rw [List.getElem?_append_left (by rw [hws.1]; omega), List.getElem?_append_left (by rw [hws.2.1]; omega)]
    have hinv' : inv = invertSkips (tbl.map (shift h)) := by rw [hinvdef, hn.connect]
    rw [hinv'] at e1 e2
    simp only [handedTo, ← hy, ← hz, ← hγ, ← hh]
    exact ⟨e1, e2⟩

/-- the targets read from the inverted table are exact -/
theorem dag_targets (n : Network ℝ) (hn : IsDagNet head body tbl tail n) :
    SkipDag.Targets (dagNet body tbl) body.length
      (tgs (invertSkips (tbl.map (shift (LayerChain.layers head).length))) (LayerChain.layers head).length) := by
  set h := (LayerChain.layers head).length with hh
  have hkeys : ((tbl.map (shift h)).map Prod.fst).Nodup := by
    rw [List.map_map]
    have : (Prod.fst ∘ shift h) = (fun t => h + t) ∘ Prod.fst := by funext e; rfl
    rw [this, ← List.map_map]
    exact hn.keys.map (fun a b hab => by simpa using hab)
  intro s
  have hmem : ∀ t0, t0 ∈ (Assoc.find? (invertSkips (tbl.map (shift h))) (h + s)).getD [] ↔ ∃ e ∈ tbl, t0 = h + e.1 ∧ e.2 = s := by
    intro t0
    rw [invert_mem]
    simp only [List.mem_map, shift, Prod.mk.injEq]
    constructor
    · rintro ⟨e, he, h1, h2⟩; exact ⟨e, he, h1.symm, by omega⟩
    · rintro ⟨e, he, h1, h2⟩; exact ⟨e, he, h1.symm, by omega⟩
  constructor
  · unfold tgs
    apply List.Nodup.map_on _ (invert_nodup _ hkeys (h + s))
    intro u hu v hv huv
    obtain ⟨e1, _, h1, _⟩ := (hmem u).mp hu
    obtain ⟨e2, _, h2, _⟩ := (hmem v).mp hv
    omega
  · intro t
    unfold tgs
    simp only [List.mem_map]
    constructor
    · rintro ⟨t0, ht0, rfl⟩
      obtain ⟨e, he, h1, h2⟩ := (hmem t0).mp ht0
      have hb := hn.bounds e he
      have : t0 - h = e.1 := by omega
      rw [this]
      refine ⟨hb.2, ?_⟩
      show Assoc.find? tbl e.1 = some s
      rw [← h2]
      exact mem_find? tbl hn.keys e.1 e.2 he
    · rintro ⟨ht, hS⟩
      have hS' : Assoc.find? tbl t = some s := hS
      have hmem' := find?_mem tbl t s hS'
      exact ⟨h + t, (hmem (h + t)).mpr ⟨(t, s), hmem', rfl, rfl⟩, by omega⟩

/-- the reverse-mode function is the transposed Jacobian of the network function -/
theorem dag_isVJP (n : Network ℝ) (hn : IsDagNet head body tbl tail n) (x : V a.T) (hh : (gnet head).Ok x)
    (hb : ∀ j (lk : Link m), body[j]? = some lk →
      IsVJP lk.f (SkipDag.P (dagNet body tbl) j ((gnet head).fwd x)) (lk.b (SkipDag.P (dagNet body tbl) j ((gnet head).fwd x))))
    (ht : (gnet tail).Ok (SkipDag.U (dagNet body tbl) body.length ((gnet head).fwd x))) :
    IsVJP (dagFn head body tbl tail) x (dagBwd head body tbl tail x) := by
  have h1 := GNet.vjp (gnet head) x hh
  have hok : SkipDag.Ok (dagNet body tbl) body.length ((gnet head).fwd x) := by
    intro i hi
    have := hb i body[i] (List.getElem?_eq_getElem hi)
    simp only [dagNet, List.getElem?_eq_getElem hi]
    exact this
  have h2 := SkipDag.sweep_isVJP (dagNet body tbl)
    (tgs (invertSkips (tbl.map (shift (LayerChain.layers head).length))) (LayerChain.layers head).length)
    ((gnet head).fwd x) body.length hok (fun i s hs => hn.src i s hs) (dag_targets head body tbl tail n hn)
  have h3 := GNet.vjp (gnet tail) _ ht
  have h12 := IsVJP.comp h1 h2
  have h123 := IsVJP.comp h12 h3
  exact h123

/-- **a network with any table of additive skip connections among layers of one shape, end to end on the
    model's own folds**: forward ends in the network function's value; the last gradient backward hands on is
    the gradient of the objective with respect to the network input -/
theorem dag_network_gradient (n : Network ℝ) (hn : IsDagNet head body tbl tail n) (hcomp : ∀ t s, Assoc.find? tbl t = some s → Compat (em t) (em s)) (x : V a.T)
    (hrh : Real head x)
    (hrb : ∀ j (lk : Link m), body[j]? = some lk → lk.Real (em j) (em (j + 1)) (SkipDag.P (dagNet body tbl) j ((gnet head).fwd x)))
    (hrt : Real tail (SkipDag.U (dagNet body tbl) body.length ((gnet head).fwd x)))
    (hh : (gnet head).Ok x)
    (hb : ∀ j (lk : Link m), body[j]? = some lk →
      IsVJP lk.f (SkipDag.P (dagNet body tbl) j ((gnet head).fwd x)) (lk.b (SkipDag.P (dagNet body tbl) j ((gnet head).fwd x))))
    (ht : (gnet tail).Ok (SkipDag.U (dagNet body tbl) body.length ((gnet head).fwd x)))
    (ℓ : V c.T → ℝ) (g : V c.T) (hg : IsGrad ℓ (dagFn head body tbl tail x) g) :
    ∃ t ws bs gs γ,
      n.forward (ea x) = .ok t ∧ t.act.getLast? = some (ec (dagFn head body tbl tail x)) ∧
      n.backward (ec g) t = .ok (ws, bs, gs) ∧ gs.getLast? = some (ea γ) ∧
      IsGrad (ℓ ∘ dagFn head body tbl tail) x γ ∧
      ∀ r (lk : Link m), r < body.length → body[body.length - (r + 1)]? = some lk →
        ws[(LayerChain.layers tail).length + r]? =
          some (lk.wg (SkipDag.P (dagNet body tbl) (body.length - (r + 1)) ((gnet head).fwd x))
            (handedTo head body tbl tail x g r)).1 ∧
        bs[(LayerChain.layers tail).length + r]? =
          some (lk.wg (SkipDag.P (dagNet body tbl) (body.length - (r + 1)) ((gnet head).fwd x))
            (handedTo head body tbl tail x g r)).2 := by
  obtain ⟨ws, bs, gs, hbk, hl, hw⟩ := backward_dag head body tbl tail n hn hcomp x g hrh hrb hrt
  refine ⟨_, ws, bs, gs, _, forward_dag head body tbl tail n hn hcomp x hrh hrb hrt, ?_, hbk, hl,
    IsGrad.comp_vjp (dag_isVJP head body tbl tail n hn x hh hb ht) hg, hw⟩
  have hU0 : SkipDag.U (dagNet body tbl) 0 ((gnet head).fwd x) = (gnet head).fwd x := by rw [SkipDag.U]
  have hl1 : ((ea x :: acts head x) ++ mapOff (fun j _ => em (j + 1) (SkipDag.U (dagNet body tbl) (j + 1) ((gnet head).fwd x))) 0 body).getLast? =
      some (em body.length (SkipDag.U (dagNet body tbl) body.length ((gnet head).fwd x))) := by
    have := getLast?_mapOff (fun j => SkipDag.U (dagNet body tbl) j ((gnet head).fwd x)) body 0 (ea x :: acts head x)
      (by rw [hU0]; exact acts_last head x)
    simpa using this
  obtain ⟨A0, hA0⟩ := List.getLast?_eq_some_iff.mp hl1
  have h3 := acts_last tail (SkipDag.U (dagNet body tbl) body.length ((gnet head).fwd x))
  simp only [dagTrace, dagFn]
  rw [hA0, List.append_assoc, List.getLast?_append, List.singleton_append, h3]
  rfl

/-- the network output as a function of the parameters `θ` of the layer at position `c` of the stretch
    (`lay θ` is that layer's output on the input it processes) -/
def dagParamFn {π : Type} (c' : Nat) (lay : V π → V m.T) (bθ : V m.T → V π) (x : V a.T) : V π → V c.T :=
  fun θ => (gnet tail).fwd
    (SkipDagP.U (SkipDagP.paramNet (dagNet body tbl) ((gnet head).fwd x) c' lay bθ) body.length θ)

/-- **the weight gradient of a layer of the stretch**: the layer's parameter-VJP applied to the gradient the
    reverse walk hands to it is the gradient of the objective with respect to that layer's parameters -/
theorem dag_parameter_gradient {π : Type} [Fintype π] (n : Network ℝ) (hn : IsDagNet head body tbl tail n) (x : V a.T)
    (hb : ∀ j (lk : Link m), body[j]? = some lk →
      IsVJP lk.f (SkipDag.P (dagNet body tbl) j ((gnet head).fwd x)) (lk.b (SkipDag.P (dagNet body tbl) j ((gnet head).fwd x))))
    (ht : (gnet tail).Ok (SkipDag.U (dagNet body tbl) body.length ((gnet head).fwd x)))
    (c' : Nat) (hc : c' < body.length) (lk : Link m) (hlk : body[c']? = some lk)
    (lay : V π → V m.T) (bθ : V m.T → V π) (θ₀ : V π)
    (hlay : lay θ₀ = lk.f (SkipDag.P (dagNet body tbl) c' ((gnet head).fwd x))) (hθ : IsVJP lay θ₀ bθ)
    (ℓ : V c.T → ℝ) (g : V c.T) (hg : IsGrad ℓ (dagFn head body tbl tail x) g) :
    dagParamFn head body tbl tail c' lay bθ x θ₀ = dagFn head body tbl tail x ∧
    IsGrad (ℓ ∘ dagParamFn head body tbl tail c' lay bθ x) θ₀
      (bθ (handedTo head body tbl tail x g (body.length - (c' + 1)))) := by
  set y := (gnet head).fwd x with hy
  have hlay' : lay θ₀ = (dagNet body tbl).f c' (SkipDag.P (dagNet body tbl) c' y) := by
    rw [hlay]; simp only [dagNet, hlk]
  have hok : SkipDag.Ok (dagNet body tbl) body.length y := by
    intro i hi
    have := hb i body[i] (List.getElem?_eq_getElem hi)
    simp only [dagNet, List.getElem?_eq_getElem hi]
    exact this
  have hval := SkipDagP.param_values (dagNet body tbl) y c' lay bθ θ₀ hlay' body.length
  have hpg := SkipDagP.param_gradient (dagNet body tbl) y c' lay bθ θ₀ hlay'
    (tgs (invertSkips (tbl.map (shift (LayerChain.layers head).length))) (LayerChain.layers head).length) body.length hc hok
    (fun i s hs => hn.src i s hs) (dag_targets head body tbl tail n hn) hθ
  have h3 := GNet.vjp (gnet tail) _ ht
  rw [← hval] at h3
  have h13 := IsVJP.comp hpg h3
  have hfn : dagParamFn head body tbl tail c' lay bθ x θ₀ = dagFn head body tbl tail x := by
    show (gnet tail).fwd (SkipDagP.U (SkipDagP.paramNet (dagNet body tbl) y c' lay bθ) body.length θ₀) = _
    rw [hval]
    rfl
  refine ⟨hfn, ?_⟩
  have hg' : IsGrad ℓ (((gnet tail).fwd ∘ SkipDagP.U (SkipDagP.paramNet (dagNet body tbl) y c' lay bθ) body.length) θ₀) g := by
    have : ((gnet tail).fwd ∘ SkipDagP.U (SkipDagP.paramNet (dagNet body tbl) y c' lay bθ) body.length) θ₀ =
        dagFn head body tbl tail x := hfn
    rw [this]; exact hg
  have := IsGrad.comp_vjp h13 hg'
  rw [hval] at this
  exact this

end

end SkipNet
