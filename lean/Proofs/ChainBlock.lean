import Proofs.Chain
import Proofs.BlockWalk
import Proofs.DenseBlock
import Proofs.Feedback

/-!
# A feedback block (no internal skip connections) whose unrolled inner layers realise a chain of vector
functions: as a layer of the network it computes the chain's composition and hands back its reverse-mode
gradient (C01: feedback blocks of dense, convolution and deconvolution layers)
-/

set_option linter.unusedSectionVars false
set_option linter.unusedVariables false

namespace ChainBlock
open Network Scalar VJP Walk FeedbackSpec BlockWalk LayerChain

/-- the unrolled inner layers `ils` realise the chain `ch` at `x`: each is the chain's layer, announces the
    shape of what it receives, computes the link's function forward and — whatever extra recording it is
    handed — the link's backward function -/
def InnerReal : {a : Idx} → {ea : Enc a} → {c : Idx} → {ec : Enc c} → Chain a ea c ec → List (InnerLayer ℝ) → V a.T → Prop
  | _, _, _, _, .nil _ _, ils, _ => ils = []
  | _, ea, _, _, @Chain.cons _ _ _ _ eb _ l f bwd pre rc wg rest, ils, x =>
    ∃ il ilr, ils = il :: ilr ∧ Layer.ofInner il = l ∧ il.inputs = (ea x).shape ∧
      layerForward l (ea x) = .ok (pre x, eb (f x), rc x) ∧
      (∀ g r, layerBackward l (eb g) (ea x) (pre x) r = .ok (ea (bwd x g), (wg x g).1, (wg x g).2)) ∧
      InnerReal rest ilr (f x)

theorem inner_forward_of (il : InnerLayer ℝ) (x p q : Tensor ℝ) (r : Recorded ℝ)
    (h : layerForward (Layer.ofInner il) x = .ok (p, q, r)) : ∃ m, il.forward x = .ok (p, q, m) := by
  cases il with
  | dense d =>
    simp only [Layer.ofInner, layerForward] at h
    simp only [InnerLayer.forward]
    cases hd : d.forward x with
    | error e => rw [hd] at h; cases h
    | ok ab => obtain ⟨a, b⟩ := ab; rw [hd] at h; cases h; exact ⟨none, rfl⟩
  | conv d =>
    simp only [Layer.ofInner, layerForward] at h
    simp only [InnerLayer.forward]
    cases hd : d.forward x with
    | error e => rw [hd] at h; cases h
    | ok ab => obtain ⟨a, b⟩ := ab; rw [hd] at h; cases h; exact ⟨none, rfl⟩
  | deconv d =>
    simp only [Layer.ofInner, layerForward] at h
    simp only [InnerLayer.forward]
    cases hd : d.forward x with
    | error e => rw [hd] at h; cases h
    | ok ab => obtain ⟨a, b⟩ := ab; rw [hd] at h; cases h; exact ⟨none, rfl⟩
  | maxpool d =>
    simp only [Layer.ofInner, layerForward] at h
    simp only [InnerLayer.forward]
    cases hd : d.forward x with
    | error e => rw [hd] at h; cases h
    | ok ab => obtain ⟨a, b, m⟩ := ab; rw [hd] at h; cases h; exact ⟨some m, rfl⟩

/-- one pass through the inner layers records the chain's pre-activations and activations -/
theorem seqTrace_chain : ∀ {a : Idx} {ea : Enc a} {c : Idx} {ec : Enc c} (ch : Chain a ea c ec) (ils : List (InnerLayer ℝ))
    (x : V a.T), InnerReal ch ils x → ∃ ms, seqTrace ils (ea x) = .ok (pres ch x, acts ch x, ms)
  | _, _, _, _, .nil _ _, ils, x, h => by
    simp only [InnerReal] at h; subst h; exact ⟨[], rfl⟩
  | _, ea, _, _, @Chain.cons _ _ _ _ eb _ l f bwd pre rc wg rest, ils, x, h => by
    obtain ⟨il, ilr, rfl, hl, hsh, hf, _, hr⟩ := h
    obtain ⟨ms, hms⟩ := seqTrace_chain rest ilr (f x) hr
    rw [← hl] at hf
    obtain ⟨m, hm⟩ := inner_forward_of il _ _ _ _ hf
    refine ⟨m :: ms, ?_⟩
    simp only [seqTrace, hsh, ne_eq, not_true_eq_false, ↓reduceIte, hm, hms, pres, acts]

theorem innerReal_length : ∀ {a : Idx} {ea : Enc a} {c : Idx} {ec : Enc c} (ch : Chain a ea c ec) (ils : List (InnerLayer ℝ))
    (x : V a.T), InnerReal ch ils x → ils.map Layer.ofInner = layers ch
  | _, _, _, _, .nil _ _, ils, x, h => by simp only [InnerReal] at h; subst h; rfl
  | _, _, _, _, .cons l f bwd pre rc wg rest, ils, x, h => by
    obtain ⟨il, ilr, rfl, hl, _, _, _, hr⟩ := h
    simp [LayerChain.layers, hl, innerReal_length rest ilr (f x) hr]

/-- the reverse walk over the inner layers, on a trace without extra recordings -/
theorem back_walk_inner : ∀ {a : Idx} {ea : Enc a} {c : Idx} {ec : Enc c} (ch : Chain a ea c ec) (ils : List (InnerLayer ℝ))
    (x : V a.T) (g : V c.T) (k : ℕ) (t : Trace ℝ) (pa pp : List (Tensor ℝ)), InnerReal ch ils x →
    pa.length = k → pp.length = k →
    t.act = pa ++ (ea x :: acts ch x) → t.pre = pp ++ pres ch x →
    ∃ ws bs gs, backSpec t (List.zip (List.range' k (layers ch).length) (layers ch)).reverse (ec g) = .ok (ws, bs, gs) ∧
      gs.getLast?.getD (ec g) = ea ((gnet ch).bwd x g)
  | _, _, _, _, .nil _ _, ils, x, g, k, t, pa, pp, _, _, _, _, _ => ⟨[], [], [], rfl, rfl⟩
  | _, ea, _, ec, @Chain.cons _ _ _ _ eb _ l f bwd pre rc wg rest, ils, x, g, k, t, pa, pp, h, hpa, hpp, hact, hpre => by
    obtain ⟨il, ilr, rfl, hl, hsh, hf, hb, hr⟩ := h
    obtain ⟨ws1, bs1, gs1, h1, h2⟩ := back_walk_inner rest ilr (f x) g (k + 1) t
      (pa ++ [ea x]) (pp ++ [pre x]) hr (by simp [hpa]) (by simp [hpp])
      (by rw [hact]; simp [acts]) (by rw [hpre]; simp [pres])
    have hsplit : (List.zip (List.range' k (layers (Chain.cons (ea := ea) (eb := eb) l f bwd pre rc wg rest)).length)
          (layers (Chain.cons (ea := ea) (eb := eb) l f bwd pre rc wg rest))).reverse =
        (List.zip (List.range' (k + 1) (layers rest).length) (layers rest)).reverse ++ [(k, l)] := by
      simp [LayerChain.layers, List.range'_succ]
    rw [hsplit, DenseStack.backSpec_append, h1]
    simp only [h2]
    have hga : L.get t.act k = .ok (ea x) := by
      rw [hact]
      simp only [L.get, L.get?_eq]
      rw [List.getElem?_append_right (by omega)]
      simp [hpa]
    have hgp : L.get t.pre k = .ok (pre x) := by
      rw [hpre]
      simp only [L.get, L.get?_eq]
      rw [List.getElem?_append_right (by omega)]
      simp [hpp, pres]
    simp only [backSpec, hga, hgp, hb]
    refine ⟨_, _, _, rfl, ?_⟩
    simp [gnet, GNet.bwd]

/-- the block: its unrolled layer list is `ils`, no skip connections, output not flattened -/
structure IsChainBlock (f : Feedback ℝ) (ils : List (InnerLayer ℝ)) : Prop where
  layers : f.layers = ils
  connect : f.connect = []
  flatten : f.flatten = false

/-- **forward of the block**: it records the chain's pre-activations and activations -/
theorem block_forwardAll {a : Idx} {ea : Enc a} {c : Idx} {ec : Enc c} (f : Feedback ℝ) (ch : Chain a ea c ec)
    (ils : List (InnerLayer ℝ)) (hf : IsChainBlock f ils) (x : V a.T) (hr : InnerReal ch ils x) (hpos : ils ≠ []) :
    ∃ ms, f.forwardAll (ea x) = .ok (pres ch x, ea x :: acts ch x, ms) := by
  obtain ⟨ms, hms⟩ := seqTrace_chain ch ils x hr
  refine ⟨ms, ?_⟩
  unfold Feedback.forwardAll
  rw [hf.layers, List.range_eq_range',
    noskip_fold f ils 0 [] [ea x] [] (ea x) rfl (fun q _ _ => by rw [hf.connect]; rfl)]
  simp only [segTrace, hms, List.nil_append, List.singleton_append, LayerChain.acts_last ch x]
  have hlen : (pres ch x).length = ils.length := by
    have h1 := (lengths ch x).1
    have h2 := innerReal_length ch ils x hr
    rw [h1, ← h2, List.length_map]
  have hne : (pres ch x).head? ≠ none := by
    cases hp : pres ch x with
    | nil => rw [hp] at hlen; simp at hlen; exact absurd hlen.symm (by simpa using hpos)
    | cons a l => simp
  cases hp : (pres ch x).head? with
  | none => exact absurd hp hne
  | some u0 =>
    simp only [Feedback.skipped, hf.connect, Assoc.find?, hf.flatten, Bool.false_eq_true, ↓reduceIte]
    have hd : (ea x :: acts ch x).dropLast ++ [ec ((gnet ch).fwd x)] = ea x :: acts ch x :=
      List.dropLast_append_getLast? _ (LayerChain.acts_last ch x)
    simp only [hd]

/-- **backward of the block on what its forward recorded**: the chain's reverse-mode gradient -/
theorem block_backward {a : Idx} {ea : Enc a} {c : Idx} {ec : Enc c} (f : Feedback ℝ) (ch : Chain a ea c ec)
    (ils : List (InnerLayer ℝ)) (hf : IsChainBlock f ils) (x : V a.T) (hr : InnerReal ch ils x) (g : V c.T) :
    ∃ ws bs, f.backward (ec g) (pres ch x) (ea x :: acts ch x) = .ok (ea ((gnet ch).bwd x g), ws, bs) := by
  obtain ⟨ws, bs, gs, h1, h2⟩ := back_walk_inner ch ils x g 0
    { pre := pres ch x, act := ea x :: acts ch x, recs := [] } [] [] hr rfl rfl rfl rfl
  have hb := backward_eq_blockBackSpec f hf.connect (ec g) (pres ch x) (ea x :: acts ch x)
  have hbr := DenseBlock.blockBackSpec_eq_backSpec (pres ch x) (ea x :: acts ch x)
    (List.zip (List.range f.layers.length) f.layers).reverse (ec g)
  have hmap : (List.zip (List.range' 0 ils.length) ils).map (fun il => (il.1, Layer.ofInner il.2)) =
      List.zip (List.range' 0 (layers ch).length) (layers ch) := by
    rw [← innerReal_length ch ils x hr, List.length_map]
    have hgen : ∀ (is : List (InnerLayer ℝ)) (k0 : ℕ),
        (List.zip (List.range' k0 is.length) is).map (fun il => (il.1, Layer.ofInner il.2)) =
          List.zip (List.range' k0 is.length) (is.map Layer.ofInner) := by
      intro is
      induction is with
      | nil => intro k0; rfl
      | cons i is ih => intro k0; simp only [List.length_cons, List.range'_succ, List.zip_cons_cons, List.map_cons, ih]
    exact hgen ils 0
  rw [hf.layers, List.range_eq_range', List.map_reverse, hmap, h1] at hbr
  rw [hf.layers, List.range_eq_range'] at hb
  cases hs : blockBackSpec (pres ch x) (ea x :: acts ch x)
      (List.zip (List.range' 0 ils.length) ils).reverse (ec g) with
  | error e => rw [hs] at hbr; simp [DenseBlock.liftRes] at hbr
  | ok st =>
    obtain ⟨gs', ws', bs'⟩ := st
    rw [hs] at hbr hb
    simp only [DenseBlock.liftRes, Except.ok.injEq, Prod.mk.injEq] at hbr
    obtain ⟨hw, _, hgs⟩ := hbr
    subst hgs
    refine ⟨ws', bs', ?_⟩
    rw [hb]
    simp only [lastGrad]
    congr 2
    rw [← h2]
    cases gs with
    | nil => rfl
    | cons a l => simp [List.getLast?_eq_some_getLast]

/-! ### the block as a link of an outer chain -/

noncomputable def blockPre {a : Idx} (ea : Enc a) (f : Feedback ℝ) (x : V a.T) : Tensor ℝ :=
  match f.forward (ea x) with
  | .ok (u0, _, _, _, _) => u0
  | .error _ => ea x

noncomputable def blockRecd {a : Idx} (ea : Enc a) (f : Feedback ℝ) (x : V a.T) : Recorded ℝ :=
  match f.forward (ea x) with
  | .ok (_, _, un, act, mx) => .block un act mx
  | .error _ => .none

noncomputable def blockWGs {a : Idx} {ea : Enc a} {c : Idx} {ec : Enc c} (f : Feedback ℝ) (ch : Chain a ea c ec)
    (x : V a.T) (g : V c.T) : WGrad ℝ × BGrad ℝ :=
  match f.backward (ec g) (pres ch x) (ea x :: acts ch x) with
  | .ok (_, ws, bs) => (.block ws, .block bs)
  | .error _ => (.block [], .block [])

/-- the block in front of a chain -/
noncomputable def consChainBlock {a : Idx} {ea : Enc a} {c : Idx} {ec : Enc c} {m : Idx} {em : Enc m}
    (f : Feedback ℝ) (ch : Chain a ea c ec) (rest : Chain c ec m em) : Chain a ea m em :=
  .cons (.feedback f) (gnet ch).fwd (gnet ch).bwd (blockPre ea f) (blockRecd ea f) (blockWGs f ch) rest

/-- **the block is a link**: as a layer of `Network.forward` / `Network.backward` it computes the chain's
    composition and hands back the chain's reverse-mode gradient -/
theorem real_chain_block {a : Idx} {ea : Enc a} {c : Idx} {ec : Enc c} (f : Feedback ℝ) (ch : Chain a ea c ec)
    (ils : List (InnerLayer ℝ)) (hf : IsChainBlock f ils) (x : V a.T) (hr : InnerReal ch ils x) (hpos : ils ≠ []) :
    layerForward (.feedback f) (ea x) = .ok (blockPre ea f x, ec ((gnet ch).fwd x), blockRecd ea f x) ∧
    ∀ g, layerBackward (.feedback f) (ec g) (ea x) (blockPre ea f x) (.ok (blockRecd ea f x)) =
      .ok (ea ((gnet ch).bwd x g), (blockWGs f ch x g).1, (blockWGs f ch x g).2) := by
  obtain ⟨ms, hms⟩ := block_forwardAll f ch ils hf x hr hpos
  have hlen : (pres ch x).length = ils.length := by
    have h1 := (lengths ch x).1
    have h2 := innerReal_length ch ils x hr
    rw [h1, ← h2, List.length_map]
  obtain ⟨u0, hu0⟩ : ∃ u0, (pres ch x).head? = some u0 := by
    cases hp : pres ch x with
    | nil => rw [hp] at hlen; simp at hlen; exact absurd hlen.symm (by simpa using hpos)
    | cons a l => exact ⟨a, rfl⟩
  have hfw : f.forward (ea x) = .ok (u0, ec ((gnet ch).fwd x), pres ch x, ea x :: acts ch x, ms) := by
    simp only [Feedback.forward, hms, hu0, LayerChain.acts_last ch x]
  refine ⟨?_, fun g => ?_⟩
  · simp only [layerForward, blockPre, blockRecd, hfw]
  · obtain ⟨ws, bs, hb⟩ := block_backward f ch ils hf x hr g
    simp only [layerBackward, blockRecd, blockWGs, hfw, hb]

end ChainBlock
