import Model.Tensor
import Proofs.Real
import Mathlib.Tactic

/-! # `sumL` (the Rust `.sum::<f32>()`) and left folds of `+` are `List.sum` over `ℝ` -/

namespace Sums

theorem foldl_add (l : List ℝ) (acc : ℝ) : l.foldl (· + ·) acc = acc + l.sum := by
  induction l generalizing acc with
  | nil => simp
  | cons x xs ih => simp [List.foldl, ih, add_assoc]

theorem sumL_eq (l : List ℝ) : Tensor.sumL l = l.sum := by
  unfold Tensor.sumL
  rw [foldl_add]; simp

end Sums
