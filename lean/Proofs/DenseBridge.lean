import Model.Network
import Proofs.Real
import Proofs.Sums
import Proofs.Zip
import Proofs.GetLemmas
import Proofs.OfFn
import Proofs.DenseVJP

/-!
# The model's dense layer on lists is the vector function `denseFn`, its backward the three
transposed Jacobians (bridge for C01)
-/

set_option linter.unusedSectionVars false

open BigOperators

namespace DenseBridge
open VJP Scalar RealScalar

variable {r c : ℕ}

/-- a vector / a matrix as the model's tensors -/
noncomputable def vecT {n : ℕ} (v : Vec n) : Tensor ℝ := ⟨.single n, .single (List.ofFn v)⟩
noncomputable def matT (W : V (Fin r × Fin c)) : Tensor ℝ :=
  ⟨.double r c, .double (List.ofFn fun i => List.ofFn fun j => W (i, j))⟩

/-- the layer holds the matrix `W`, the bias `b`, the activation `a`; it is in evaluation mode (no
    dropout mask) and not inside a loop connection (gradient scale `1`) -/
structure IsDense (l : DenseLayer ℝ) (a : Act) (W : V (Fin r × Fin c)) (b : Vec r) : Prop where
  weights : l.weights = matT W
  bias : l.bias = some (vecT b)
  act : l.act = a
  eval : l.training = false
  scale : l.scale l.loops = 1

theorem act_forward_vec (a : Act) (ha : a ≠ .softmax) {n : ℕ} (v : Vec n) :
    Act.forward a (vecT v) = .ok (vecT (fun i => Act.f a (v i))) := by
  cases a <;> simp_all [Act.forward, Act.mapAct, vecT, List.map_ofFn, Function.comp_def, Act.f]

theorem act_backward_vec (a : Act) (ha : a ≠ .softmax) {n : ℕ} (v : Vec n) :
    Act.backward a (vecT v) = .ok (vecT (fun i => Act.df a (v i))) := by
  cases a <;> simp_all [Act.backward, Act.mapAct, vecT, List.map_ofFn, Function.comp_def, Act.df, Tensor.ones]

theorem dotRow_ofFn (row x : Vec c) : Tensor.dotRow (List.ofFn row) (List.ofFn x) = ∑ j, row j * x j := by
  unfold Tensor.dotRow
  rw [Sums.sumL_eq, OfFn.zipWith_ofFn, OfFn.sum_ofFn]

theorem zip1_ofFn (f : ℝ → ℝ → ℝ) {n : ℕ} (a b : Vec n) :
    L.zip1 f (List.ofFn a) (List.ofFn b) = List.ofFn (fun i => f (a i) (b i)) := by
  rw [(L.zip1_spec f _ _ (by simp)).1, OfFn.zipWith_ofFn]

theorem dot_mat_vec (W : V (Fin r × Fin c)) (x : Vec c) :
    (matT W).dot (vecT x) = .ok (vecT (fun i => ∑ j, W (i, j) * x j)) := by
  simp only [Tensor.dot, matT, vecT, List.length_ofFn, List.map_ofFn, Function.comp_def, dotRow_ofFn]

theorem forward_eq (l : DenseLayer ℝ) (a : Act) (W : V (Fin r × Fin c)) (b : Vec r) (hl : IsDense l a W b)
    (ha : a ≠ .softmax) (x : Vec c) :
    l.forward (vecT x) = .ok (vecT (densePre W b x), vecT (denseFn (Act.f a) W b x)) := by
  unfold DenseLayer.forward
  rw [hl.weights, dot_mat_vec, hl.bias]
  have hadd : (vecT (fun i => ∑ j, W (i, j) * x j)).add (vecT b) = .ok (vecT (densePre W b x)) := by
    simp only [Tensor.add, Tensor.zipOp, vecT, ne_eq, not_true_eq_false, ↓reduceIte, zip1_ofFn]
    rfl
  simp only [hadd, hl.act, act_forward_vec a ha, finish, hl.eval]
  rfl

theorem hadamard_vec {n : ℕ} (a b : Vec n) (s : ℝ) :
    (vecT a).hadamard (vecT b) s = .ok (vecT (fun i => a i * b i * s)) := by
  simp only [Tensor.hadamard, Tensor.zipOp, vecT, ne_eq, not_true_eq_false, ↓reduceIte, zip1_ofFn]

theorem product_vec (d : Vec r) (x : Vec c) (hr : 0 < r) :
    (vecT d).product (vecT x) = .ok (matT (weightGrad d x)) := by
  obtain ⟨r', rfl⟩ : ∃ r', r = r' + 1 := ⟨r - 1, by omega⟩
  simp only [Tensor.product, vecT, matT, weightGrad]
  rw [List.ofFn_succ]
  simp only [List.length_cons, List.length_ofFn, List.map_cons, List.map_ofFn, Function.comp_def]
  congr 3
  rw [List.ofFn_succ]

theorem transpose_mat (W : V (Fin r × Fin c)) (hr : 0 < r) (hc : 0 < c) :
    (matT W).transpose = .ok (matT (fun ji : Fin c × Fin r => W (ji.2, ji.1))) := by
  obtain ⟨r', rfl⟩ : ∃ r', r = r' + 1 := ⟨r - 1, by omega⟩
  obtain ⟨c', rfl⟩ : ∃ c', c = c' + 1 := ⟨c - 1, by omega⟩
  simp only [Tensor.transpose, matT]
  rw [List.ofFn_succ (f := fun i : Fin (r' + 1) => List.ofFn fun j : Fin (c' + 1) => W (i, j))]
  simp only []
  have hany : (List.ofFn (fun j : Fin (c' + 1) => W (0, j)) :: List.ofFn fun i : Fin r' => List.ofFn fun j : Fin (c' + 1) => W (i.succ, j)).any
      (fun row => decide (row.length > (List.ofFn fun j : Fin (c' + 1) => W (0, j)).length)) = false := by
    rw [List.any_eq_false]
    intro row hrow
    simp only [List.mem_cons, List.mem_ofFn] at hrow
    rcases hrow with h | ⟨i, h⟩ <;> simp [h ▸ List.length_ofFn]
  rw [hany]
  simp only [Bool.false_eq_true, ↓reduceIte]
  rw [List.ofFn_succ (f := fun j : Fin (c' + 1) => W (0, j))]
  simp only [List.length_cons, List.length_ofFn]
  congr 2
  rw [← List.ofFn_succ (f := fun j : Fin (c' + 1) => W (0, j)),
    ← List.ofFn_succ (f := fun i : Fin (r' + 1) => List.ofFn fun j : Fin (c' + 1) => W (i, j))]
  rw [OfFn.map_range_eq_ofFn]
  refine congrArg Data.double (congrArg List.ofFn (funext fun j => ?_))
  rw [List.map_ofFn]
  refine congrArg List.ofFn (funext fun i => ?_)
  simp only [Function.comp_def, L.get?_eq, OfFn.getElem?_ofFn_fin, Option.getD_some]


theorem backward_eq (l : DenseLayer ℝ) (a : Act) (W : V (Fin r × Fin c)) (b : Vec r) (hl : IsDense l a W b)
    (ha : a ≠ .softmax) (hr : 0 < r) (hc : 0 < c) (x : Vec c) (g : Vec r) :
    l.backward (vecT g) (vecT x) (vecT (densePre W b x)) =
      .ok (vecT (inputGrad W (delta (Act.df a) (densePre W b x) g)),
           matT (weightGrad (delta (Act.df a) (densePre W b x) g) x),
           some (vecT (delta (Act.df a) (densePre W b x) g))) := by
  unfold DenseLayer.backward
  have hloc : l.localDerivative (vecT (densePre W b x)) = .ok (vecT (fun i => Act.df a (densePre W b x i))) := by
    unfold DenseLayer.localDerivative
    rw [hl.act]
    cases a <;> first | exact absurd rfl ha | exact act_backward_vec _ (by simp) _
  have hd : (fun i => Act.df a (densePre W b x i) * g i * 1) = delta (Act.df a) (densePre W b x) g := by
    funext i; simp [delta]
  have hshape : (vecT g).shape = Shape.single r := rfl
  simp only [hshape, hloc, hadamard_vec, hl.scale, hd, product_vec _ _ hr, hl.weights, transpose_mat W hr hc,
    dot_mat_vec, hl.bias, Option.map_some]
  rfl

end DenseBridge
