import Model.Tensor
import Proofs.Zip

/-!
# The n-ary in-place zip (`mean_inplace`, the optimizers' `nzip`) at every rank

`meanG_spec`: if the per-cell combination succeeds with value `S`, the n-ary zip of equally long
operands is the position-wise `S`.  Instantiated level by level this gives the element formula at
ranks 1–4: position `(i, j, …)` of the result is `f self[i][j]… [o[i][j]… | o ∈ others]`.
-/

set_option linter.unusedSectionVars false

namespace MeanG
open Tensor

theorem heads_spec {γ : Type} (d : γ) (os : List (List γ)) (h : ∀ o ∈ os, o ≠ []) :
    heads os = some (os.map (fun o => o.getD 0 d)) := by
  induction os with
  | nil => rfl
  | cons o os ih =>
    have ho := h o (List.mem_cons_self ..)
    cases o with
    | nil => exact absurd rfl ho
    | cons x xs =>
      simp only [heads, ih (fun o ho => h o (List.mem_cons_of_mem _ ho)), List.map_cons, List.getD_cons_zero]

/-- position-wise combination -/
def spec {γ : Type} (d : γ) (S : γ → List γ → γ) (self : List γ) (others : List (List γ)) : List γ :=
  (List.range self.length).map (fun i => S (self.getD i d) (others.map (fun o => o.getD i d)))

theorem meanG_spec {γ : Type} (d : γ) (cell : γ → List γ → Except Err γ) (S : γ → List γ → γ) :
    ∀ (self : List γ) (others : List (List γ)),
    (∀ o ∈ others, o.length = self.length) →
    (∀ i, i < self.length → cell (self.getD i d) (others.map (fun o => o.getD i d)) =
      .ok (S (self.getD i d) (others.map (fun o => o.getD i d)))) →
    meanG cell self others = .ok (spec d S self others) := by
  intro self
  induction self with
  | nil => intro others _ _; rfl
  | cons v vs ih =>
    intro others h hcell
    have hne : ∀ o ∈ others, o ≠ [] := by
      intro o ho e
      have := h o ho
      rw [e] at this; simp at this
    have htl : ∀ o ∈ others.map List.tail, o.length = vs.length := by
      intro o ho
      simp at ho
      obtain ⟨o', h1, h2⟩ := ho
      rw [← h2]; simp [h o' h1]
    have hshift : ∀ i, (others.map List.tail).map (fun o => o.getD i d) = others.map (fun o => o.getD (i + 1) d) := by
      intro i
      rw [List.map_map]
      apply List.map_congr_left
      intro o ho
      cases o with
      | nil => exact absurd rfl (hne _ ho)
      | cons x xs => simp
    have hrec := ih (others.map List.tail) htl (by
      intro i hi
      have := hcell (i + 1) (by simp; omega)
      simp only [List.getD_cons_succ] at this
      rw [hshift]; exact this)
    have h0 := hcell 0 (by simp)
    simp only [List.getD_cons_zero] at h0
    simp only [meanG, heads_spec d others hne, h0, hrec]
    congr 1
    simp only [spec, List.length_cons, List.range_succ_eq_map, List.map_cons, List.map_map, List.getD_cons_zero]
    congr 1
    apply List.map_congr_left
    intro i _
    simp only [Function.comp, List.getD_cons_succ]
    have := hshift i
    rw [List.map_map] at this
    exact congrArg (S (vs.getD i d)) this

theorem length_spec {γ : Type} (d : γ) (S : γ → List γ → γ) (self : List γ) (others : List (List γ)) :
    (spec d S self others).length = self.length := by simp [spec]

theorem getD_spec {γ : Type} (d : γ) (S : γ → List γ → γ) (self : List γ) (others : List (List γ)) (i : Nat) (hi : i < self.length) :
    (spec d S self others).getD i d = S (self.getD i d) (others.map (fun o => o.getD i d)) := by
  simp [spec, List.getD_eq_getElem?_getD, hi]

variable {α : Type} [Scalar α]

/-! ### rank 1 – 4 -/

def spec1 (f : α → List α → α) : V1 α → List (V1 α) → V1 α := spec 0 f
def spec2 (f : α → List α → α) : V2 α → List (V2 α) → V2 α := spec [] (spec1 f)
def spec3 (f : α → List α → α) : V3 α → List (V3 α) → V3 α := spec [] (spec2 f)
def spec4 (f : α → List α → α) : V4 α → List (V4 α) → V4 α := spec [] (spec3 f)

theorem nzip1_spec (f : α → List α → α) (self : V1 α) (others : List (V1 α))
    (h : ∀ o ∈ others, o.length = self.length) : nzip1 f self others = .ok (spec1 f self others) :=
  meanG_spec 0 _ f self others h (fun _ _ => rfl)

theorem nzip2_spec (f : α → List α → α) (self : V2 α) (others : List (V2 α)) (hh ww : Nat)
    (hs : L.Dims2 self hh ww) (ho : ∀ o ∈ others, L.Dims2 o hh ww) :
    nzip2 f self others = .ok (spec2 f self others) := by
  apply meanG_spec [] _ (spec1 f) self others (fun o hom => by rw [(ho o hom).1, hs.1])
  intro i hi
  apply nzip1_spec
  intro r hr
  simp only [List.mem_map] at hr
  obtain ⟨o, hom, rfl⟩ := hr
  have h1 : i < o.length := by rw [(ho o hom).1, ← hs.1]; exact hi
  have e1 : o.getD i [] = o[i] := by simp [List.getD_eq_getElem?_getD, h1]
  have e2 : self.getD i [] = self[i] := by simp [List.getD_eq_getElem?_getD, hi]
  rw [e1, e2, (ho o hom).2 _ (List.getElem_mem h1), hs.2 _ (List.getElem_mem hi)]


theorem dims2_getD (m : V2 α) (hh ww i : Nat) (hm : L.Dims2 m hh ww) (hi : i < hh) : (m.getD i []).length = ww := by
  have h1 : i < m.length := by rw [hm.1]; exact hi
  have e1 : m.getD i [] = m[i] := by simp [List.getD_eq_getElem?_getD, h1]
  rw [e1, hm.2 _ (List.getElem_mem h1)]

theorem dims3_getD (t : V3 α) (c hh ww i : Nat) (ht : L.Dims3 t c hh ww) (hi : i < c) : L.Dims2 (t.getD i []) hh ww := by
  have h1 : i < t.length := by rw [ht.1]; exact hi
  have e1 : t.getD i [] = t[i] := by simp [List.getD_eq_getElem?_getD, h1]
  rw [e1]; exact ht.2 _ (List.getElem_mem h1)

theorem dims4_getD (q : V4 α) (k c hh ww i : Nat) (hq : L.Dims4 q k c hh ww) (hi : i < k) : L.Dims3 (q.getD i []) c hh ww := by
  have h1 : i < q.length := by rw [hq.1]; exact hi
  have e1 : q.getD i [] = q[i] := by simp [List.getD_eq_getElem?_getD, h1]
  rw [e1]; exact hq.2 _ (List.getElem_mem h1)

theorem nzip3_spec (f : α → List α → α) (self : V3 α) (others : List (V3 α)) (c hh ww : Nat)
    (hs : L.Dims3 self c hh ww) (ho : ∀ o ∈ others, L.Dims3 o c hh ww) :
    nzip3 f self others = .ok (spec3 f self others) := by
  apply meanG_spec [] _ (spec2 f) self others (fun o hom => by rw [(ho o hom).1, hs.1])
  intro i hi
  rw [hs.1] at hi
  apply nzip2_spec f _ _ hh ww (dims3_getD self c hh ww i hs hi)
  intro m hm
  simp only [List.mem_map] at hm
  obtain ⟨o, hom, rfl⟩ := hm
  exact dims3_getD o c hh ww i (ho o hom) hi

theorem nzip4_spec (f : α → List α → α) (self : V4 α) (others : List (V4 α)) (k c hh ww : Nat)
    (hs : L.Dims4 self k c hh ww) (ho : ∀ o ∈ others, L.Dims4 o k c hh ww) :
    nzip4 f self others = .ok (spec4 f self others) := by
  apply meanG_spec [] _ (spec3 f) self others (fun o hom => by rw [(ho o hom).1, hs.1])
  intro i hi
  rw [hs.1] at hi
  apply nzip3_spec f _ _ c hh ww (dims4_getD self k c hh ww i hs hi)
  intro m hm
  simp only [List.mem_map] at hm
  obtain ⟨o, hom, rfl⟩ := hm
  exact dims4_getD o k c hh ww i (ho o hom) hi

/-! ### the element at every position -/

theorem spec1_get (f : α → List α → α) (self : V1 α) (others : List (V1 α)) (j : Nat) (hj : j < self.length) :
    (spec1 f self others).getD j 0 = f (self.getD j 0) (others.map (fun o => o.getD j 0)) :=
  getD_spec 0 f self others j hj

theorem spec2_get (f : α → List α → α) (self : V2 α) (others : List (V2 α)) (hh ww i j : Nat)
    (hs : L.Dims2 self hh ww) (hi : i < hh) (hj : j < ww) :
    ((spec2 f self others).getD i []).getD j 0 =
      f ((self.getD i []).getD j 0) (others.map (fun o => (o.getD i []).getD j 0)) := by
  unfold spec2
  rw [getD_spec [] (spec1 f) self others i (by rw [hs.1]; exact hi),
    spec1_get f _ _ j (by rw [dims2_getD self hh ww i hs hi]; exact hj), List.map_map]
  rfl

theorem spec3_get (f : α → List α → α) (self : V3 α) (others : List (V3 α)) (c hh ww a i j : Nat)
    (hs : L.Dims3 self c hh ww) (ha : a < c) (hi : i < hh) (hj : j < ww) :
    (((spec3 f self others).getD a []).getD i []).getD j 0 =
      f (((self.getD a []).getD i []).getD j 0) (others.map (fun o => ((o.getD a []).getD i []).getD j 0)) := by
  unfold spec3
  rw [getD_spec [] (spec2 f) self others a (by rw [hs.1]; exact ha),
    spec2_get f _ _ hh ww i j (dims3_getD self c hh ww a hs ha) hi hj, List.map_map]
  rfl

theorem spec4_get (f : α → List α → α) (self : V4 α) (others : List (V4 α)) (k c hh ww b a i j : Nat)
    (hs : L.Dims4 self k c hh ww) (hb : b < k) (ha : a < c) (hi : i < hh) (hj : j < ww) :
    ((((spec4 f self others).getD b []).getD a []).getD i []).getD j 0 =
      f ((((self.getD b []).getD a []).getD i []).getD j 0)
        (others.map (fun o => (((o.getD b []).getD a []).getD i []).getD j 0)) := by
  unfold spec4
  rw [getD_spec [] (spec3 f) self others b (by rw [hs.1]; exact hb),
    spec3_get f _ _ c hh ww a i j (dims4_getD self k c hh ww b hs hb) ha hi hj, List.map_map]
  rfl

end MeanG
