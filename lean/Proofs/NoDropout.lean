import Model.Train
import Proofs.GetLemmas

/-!
# A network whose dropout flags are all off computes exactly what the same network built without
dropout computes (helper lemmas for C09): through `Feedback.forwardAll`, `runRange`, the loop block and
the position-indexed fold of `Network.forward`.
-/

set_option linter.unusedSectionVars false
set_option linter.unusedVariables false

namespace NoDropout
open Network Scalar

variable {α : Type} [Scalar α]

/-! ### the same layer, configured without dropout -/

def inner : InnerLayer α → InnerLayer α
  | .dense l => .dense { l with dropout := none }
  | .conv l => .conv { l with dropout := none }
  | .deconv l => .deconv { l with dropout := none }
  | .maxpool l => .maxpool l

def block (f : Feedback α) : Feedback α := { f with layers := f.layers.map inner }

def layer : Layer α → Layer α
  | .dense l => .dense { l with dropout := none }
  | .conv l => .conv { l with dropout := none }
  | .deconv l => .deconv { l with dropout := none }
  | .maxpool l => .maxpool l
  | .feedback f => .feedback (block f)

/-- **the network built without dropout**: the same layers, connections and settings, no dropout
    configured anywhere (inside feedback blocks too) -/
def network (n : Network α) : Network α := { n with layers := n.layers.map layer }

/-! ### generic fold / get lemmas -/

theorem foldl_map_congr {σ β : Type} (step : σ → β → σ) (g : β → β) :
    ∀ (ls : List β) (s : σ), (∀ l ∈ ls, ∀ s, step s (g l) = step s l) → (ls.map g).foldl step s = ls.foldl step s
  | [], s, _ => rfl
  | l :: ls, s, h => by
    simp only [List.map_cons, List.foldl_cons]
    rw [h l (by simp) s]
    exact foldl_map_congr step g ls _ (fun l' hl' => h l' (by simp [hl']))

theorem foldl_zip_map_congr {σ β : Type} (step step' : σ → Nat × β → σ) (g : β → β) :
    ∀ (ls : List β) (is : List Nat) (s : σ), (∀ l ∈ ls, ∀ i s, step' s (i, g l) = step s (i, l)) →
      (List.zip is (ls.map g)).foldl step' s = (List.zip is ls).foldl step s
  | [], is, s, _ => by simp
  | l :: ls, [], s, _ => by simp
  | l :: ls, i :: is, s, h => by
    simp only [List.map_cons, List.zip_cons_cons, List.foldl_cons]
    rw [h l (by simp) i s]
    exact foldl_zip_map_congr step step' g ls is _ (fun l' hl' => h l' (by simp [hl']))

theorem get_map {β : Type} (g : β → β) (l : List β) (i : Nat) :
    L.get (l.map g) i = match L.get l i with | .ok v => .ok (g v) | .error e => .error e := by
  simp only [L.get, L.get?_eq, List.getElem?_map]
  cases l[i]? <;> rfl

/-! ### one layer -/

theorem inner_inputs (l : InnerLayer α) : (inner l).inputs = l.inputs := by cases l <;> rfl

theorem inner_forward (l : InnerLayer α) (h : ∀ f ∈ l.flag?, f = false) (x : Tensor α) :
    (inner l).forward x = l.forward x := by
  cases l with
  | dense d =>
    have : d.training = false := h _ (by simp [InnerLayer.flag?])
    obtain ⟨a, b, c, d1, e, f, g, dr, tr⟩ := d
    simp only at this; subst this; rfl
  | conv d =>
    have : d.training = false := h _ (by simp [InnerLayer.flag?])
    cases d; simp only at this; subst this; rfl
  | deconv d =>
    have : d.training = false := h _ (by simp [InnerLayer.flag?])
    cases d; simp only at this; subst this; rfl
  | maxpool d => rfl

theorem block_forwardStep (f : Feedback α) (l : InnerLayer α) (h : ∀ fl ∈ l.flag?, fl = false) (i : Nat)
    (st : Except Err (List (Tensor α) × List (Tensor α) × List (Option MaxIdx))) :
    Feedback.forwardStep (block f) st (i, inner l) = Feedback.forwardStep f st (i, l) := by
  unfold Feedback.forwardStep
  simp only [inner_inputs, inner_forward l h]
  rfl

theorem block_forwardAll (f : Feedback α) (h : ∀ fl ∈ f.layers.filterMap InnerLayer.flag?, fl = false)
    (x : Tensor α) : (block f).forwardAll x = f.forwardAll x := by
  unfold Feedback.forwardAll
  have hfold : ∀ s, (List.zip (List.range (block f).layers.length) (block f).layers).foldl (Feedback.forwardStep (block f)) s =
      (List.zip (List.range f.layers.length) f.layers).foldl (Feedback.forwardStep f) s := by
    intro s
    simp only [block, List.length_map]
    apply foldl_zip_map_congr
    intro l hl i s
    exact block_forwardStep f l (fun fl hfl => h fl (List.mem_filterMap.mpr ⟨l, hl, hfl⟩)) i s
  rw [hfold]
  simp only [block, List.length_map]
  rfl

theorem block_forward (f : Feedback α) (h : ∀ fl ∈ f.layers.filterMap InnerLayer.flag?, fl = false)
    (x : Tensor α) : (block f).forward x = f.forward x := by
  unfold Feedback.forward
  rw [block_forwardAll f h]

theorem layer_inputs (l : Layer α) : (layer l).inputs = l.inputs := by cases l <;> rfl

/-- **a layer whose flags are off computes what the same layer without dropout computes** -/
theorem layer_forward (l : Layer α) (h : ∀ f ∈ l.flags, f = false) (x : Tensor α) :
    layerForward (layer l) x = layerForward l x := by
  cases l with
  | dense d =>
    have : d.training = false := h _ (by simp [Layer.flags])
    cases d; simp only at this; subst this; rfl
  | conv d =>
    have : d.training = false := h _ (by simp [Layer.flags])
    cases d; simp only at this; subst this; rfl
  | deconv d =>
    have : d.training = false := h _ (by simp [Layer.flags])
    cases d; simp only at this; subst this; rfl
  | maxpool d => rfl
  | feedback f =>
    simp only [layer, layerForward]
    rw [block_forward f (by simpa [Layer.flags] using h)]

/-! ### ranges, loops, the whole forward pass -/

def FlagsOff (ls : List (Layer α)) : Prop := ∀ l ∈ ls, ∀ f ∈ l.flags, f = false

theorem runRange_map (ls : List (Layer α)) (h : FlagsOff ls) (x : Tensor α) :
    runRange (ls.map layer) x = runRange ls x := by
  unfold runRange
  rw [foldl_map_congr rangeStep layer ls _ (fun l hl s => by
    unfold rangeStep
    cases s with
    | error e => rfl
    | ok st => simp only [layer_forward l (h l hl)])]

theorem loopStep_map (ls : List (Layer α)) (h : FlagsOff ls) (sh : Shape) (b : Bool) (a c : Tensor α) :
    loopStep (ls.map layer) sh b a c = loopStep ls sh b a c := by
  unfold loopStep
  simp only [runRange_map ls h]

theorem FlagsOff.sub {ls : List (Layer α)} (h : FlagsOff ls) (a b : Nat) : FlagsOff ((ls.drop a).take b) :=
  fun l hl => h l (List.mem_of_mem_drop (List.mem_of_mem_take hl))

theorem applyLoopback_eq (n : Network α) (h : FlagsOff n.layers) (i into it : Nat) (b : Bool) (t : Trace α) :
    applyLoopback (network n) i into it b t = applyLoopback n i into it b t := by
  unfold applyLoopback
  simp only [network, get_map]
  cases L.get n.layers into with
  | error e => cases t.act.getLast? <;> rfl
  | ok lin =>
    cases L.get n.layers i with
    | error e => cases t.act.getLast? <;> rfl
    | ok li =>
      cases t.act.getLast? with
      | none => rfl
      | some last =>
        cases L.get t.act into with
        | error e => rfl
        | ok actInto =>
          simp only [layer_inputs, ← List.map_drop, ← List.map_take]
          have : loopStep (List.map layer (List.take (i + 1 - into) (List.drop into n.layers))) lin.inputs b actInto =
              loopStep (List.take (i + 1 - into) (List.drop into n.layers)) lin.inputs b actInto := by
            funext c; exact loopStep_map _ (h.sub into _) _ _ _ _
          rw [this]
          rfl

theorem forwardLayer_eq (n : Network α) (h : FlagsOff n.layers) (l : Layer α) (hl : ∀ f ∈ l.flags, f = false)
    (i : Nat) (st : Except Err (Trace α)) :
    forwardLayer (network n) st (i, layer l) = forwardLayer n st (i, l) := by
  unfold forwardLayer
  cases st with
  | error e => rfl
  | ok t =>
    have hs : skipInput (network n) t.act i = skipInput n t.act i := rfl
    simp only [hs, layer_forward l hl]
    cases skipInput n t.act i with
    | error e => rfl
    | ok x =>
      simp only []
      cases layerForward l x with
      | error e => rfl
      | ok r =>
        obtain ⟨pre, post, rc⟩ := r
        have hlb : (network n).loopbacks = n.loopbacks := rfl
        simp only [hlb]
        cases Assoc.find? n.loopbacks i with
        | none => rfl
        | some v =>
          obtain ⟨into, it, b⟩ := v
          simp only [applyLoopback_eq n h]

/-- **with every dropout flag off, `Network::forward` of the network and of the same network built
    without dropout record exactly the same trace** — for every layer list (feedback blocks included),
    skip and loop connections, and every input -/
theorem forward_eq (n : Network α) (h : FlagsOff n.layers) (x : Tensor α) :
    (network n).forward x = n.forward x := by
  unfold Network.forward
  have hl : (network n).layers = n.layers.map layer := rfl
  rw [hl, List.length_map]
  exact foldl_zip_map_congr (forwardLayer n) (forwardLayer (network n)) layer n.layers _ _
    (fun l hl i s => forwardLayer_eq n h l (h l hl) i s)

theorem predict_eq (n : Network α) (h : FlagsOff n.layers) (x : Tensor α) :
    (network n).predict x = n.predict x := by
  unfold Network.predict
  rw [forward_eq n h]

/-! ### flags, scores, validation -/

theorem flagsOff_of_flags (n : Network α) (h : ∀ f ∈ n.flags, f = false) : FlagsOff n.layers :=
  fun l hl f hf => h f (by simp only [Network.flags, List.mem_flatMap]; exact ⟨l, hl, hf⟩)

theorem inner_setTraining (t : Bool) (l : InnerLayer α) :
    InnerLayer.setTraining t (inner l) = inner (InnerLayer.setTraining t l) := by cases l <;> rfl

theorem layer_setTraining (t : Bool) (l : Layer α) :
    Layer.setTraining t (layer l) = layer (Layer.setTraining t l) := by
  cases l with
  | feedback f =>
    simp only [layer, Layer.setTraining, block, Feedback.setTraining, List.map_map]
    congr 2
    apply List.map_congr_left
    intro x _
    exact inner_setTraining t x
  | _ => rfl

/-- removing the dropout configuration commutes with switching the flags -/
theorem network_setAllTraining (n : Network α) (t : Bool) :
    (network n).setAllTraining t = network (n.setAllTraining t) := by
  simp only [network, Network.setAllTraining, List.map_map]
  congr 1
  apply List.map_congr_left
  intro l _
  exact layer_setTraining t l

theorem score_eq (n : Network α) (p t : Tensor α) (tol : α) : (network n).score p t tol = n.score p t tol := by
  unfold Network.score
  have : (network n).layers.getLast? = n.layers.getLast?.map layer := by
    simp [network, List.getLast?_map]
  rw [this]
  cases n.layers.getLast? with
  | none => rfl
  | some l => cases l <;> rfl

/-- forget the network `validate` hands back -/
def metrics (r : Except Err (Network α × α × α)) : Except Err (α × α) :=
  match r with
  | .error e => .error e
  | .ok (_, l, a) => .ok (l, a)

/-- **`validate` reports the metrics of the network built without dropout**, whatever the flags on entry -/
theorem validate_eq (n : Network α) (xs ts : List (Tensor α)) (tol : α) :
    metrics ((network n).validate xs ts tol) = metrics (n.validate xs ts tol) := by
  unfold Network.validate
  simp only [network_setAllTraining]
  have hq : FlagsOff (n.setAllTraining false).layers := by
    intro l hl f hf
    simp only [Network.setAllTraining, List.mem_map] at hl
    obtain ⟨l0, _, rfl⟩ := hl
    cases l0 with
    | dense d => simpa [Layer.setTraining, Layer.flags] using hf
    | conv d => simpa [Layer.setTraining, Layer.flags] using hf
    | deconv d => simpa [Layer.setTraining, Layer.flags] using hf
    | maxpool d => simp [Layer.setTraining, Layer.flags] at hf
    | feedback fb =>
      simp only [Layer.setTraining, Layer.flags, Feedback.setTraining, List.mem_filterMap, List.mem_map] at hf
      obtain ⟨l', ⟨l, _, hl⟩, hf⟩ := hf
      subst hl
      cases l <;> simp [InnerLayer.setTraining, InnerLayer.flag?] at hf <;> simp [hf]
  have hp : (network (n.setAllTraining false)).predict = (n.setAllTraining false).predict := by
    funext x; exact predict_eq _ hq x
  have hs : (network (n.setAllTraining false)).score = (n.setAllTraining false).score := by
    funext a b c; exact score_eq _ a b c
  have ho : (network (n.setAllTraining false)).objective = (n.setAllTraining false).objective := rfl
  have hc : (network (n.setAllTraining false)).clamp = (n.setAllTraining false).clamp := rfl
  rw [hp, hs, ho, hc]
  cases L.mapM' _ (xs.zip ts) with
  | error e => rfl
  | ok rs => rfl

end NoDropout
