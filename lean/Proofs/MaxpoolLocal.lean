import Proofs.MaxpoolBridge
import Mathlib.Topology.Order.OrderClosed
import Mathlib.Topology.Algebra.Order.Field
import Mathlib.Topology.Instances.Real.Lemmas

/-!
# Away from ties the max-pool is locally the selection of the recorded positions (helper lemmas for C01)
-/

set_option linter.unusedSectionVars false
set_option linter.unusedVariables false

open Finset BigOperators Topology Filter

namespace MaxpoolLocal
open VJP ConvVJP ConvBridge MaxpoolVJP MaxpoolBridge L Scalar RealScalar

variable {ic ih iw oh ow : ℕ}

/-- a window with a strict, unique maximum above the scan's start value: the scan returns it and its position -/
theorem window_unique (l : Maxpool ℝ) (X : V3 ℝ) (c h w ih iw k li : ℕ) (hk : k < l.kernel.1) (hli : li < l.kernel.2)
    (hin : h + k < ih ∧ w + li < iw) (hmin : (Scalar.minVal : ℝ) < L.get3D 0 X c (h + k) (w + li))
    (huniq : ∀ k' li', k' < l.kernel.1 → li' < l.kernel.2 → h + k' < ih ∧ w + li' < iw → (k', li') ≠ (k, li) →
      L.get3D 0 X c (h + k') (w + li') < L.get3D 0 X c (h + k) (w + li)) :
    Maxpool.window l X c h w ih iw = (L.get3D 0 X c (h + k) (w + li), (h + k, w + li)) := by
  have hdom := MaxpoolWindow.window_dominates l X c h w ih iw k li hk hli hin
  rcases MaxpoolWindow.window_attained l X c h w ih iw with h0 | ⟨k', li', hk', hli', h1, h2, h3, h4⟩
  · rw [h0] at hdom
    exact absurd hdom (not_le.mpr hmin)
  · by_cases hsame : (k', li') = (k, li)
    · obtain ⟨rfl, rfl⟩ := Prod.mk.inj hsame
      exact Prod.ext h4 h3
    · have := huniq k' li' hk' hli' ⟨h1, h2⟩ hsame
      rw [h4] at hdom
      exact absurd hdom (not_le.mpr this)

/-- no window of the input has a tie for its maximum, and every maximum exceeds the scan's start value -/
def NoTies (l : Maxpool ℝ) (ih iw oh ow : ℕ) (x : V (I3 ic ih iw)) : Prop :=
  ∀ q : I3 ic oh ow, ∃ k li, k < l.kernel.1 ∧ li < l.kernel.2 ∧
    (q.2.1.val * l.stride.1 + k < ih ∧ q.2.2.val * l.stride.2 + li < iw) ∧
    (Scalar.minVal : ℝ) < L.get3D 0 (toList3 x) q.1.val (q.2.1.val * l.stride.1 + k) (q.2.2.val * l.stride.2 + li) ∧
    ∀ k' li', k' < l.kernel.1 → li' < l.kernel.2 →
      q.2.1.val * l.stride.1 + k' < ih ∧ q.2.2.val * l.stride.2 + li' < iw → (k', li') ≠ (k, li) →
      L.get3D 0 (toList3 x) q.1.val (q.2.1.val * l.stride.1 + k') (q.2.2.val * l.stride.2 + li') <
        L.get3D 0 (toList3 x) q.1.val (q.2.1.val * l.stride.1 + k) (q.2.2.val * l.stride.2 + li)

/-- reading one position of the list of a vector is continuous in the vector -/
theorem co_continuous (c a b : ℕ) : Continuous (fun x' : V (I3 ic ih iw) => L.get3D 0 (toList3 x') c a b) := by
  by_cases h : c < ic ∧ a < ih ∧ b < iw
  · have : (fun x' : V (I3 ic ih iw) => L.get3D 0 (toList3 x') c a b) =
        fun x' => x' (⟨c, h.1⟩, ⟨a, h.2.1⟩, ⟨b, h.2.2⟩) := by
      funext x'; rw [get3D_toList3, dif_pos h]
    rw [this]
    exact continuous_apply _
  · have : (fun x' : V (I3 ic ih iw) => L.get3D 0 (toList3 x') c a b) = fun _ => 0 := by
      funext x'; rw [get3D_toList3, dif_neg h]
    rw [this]
    exact continuous_const

/-- **near an input without ties the pool is the selection of the positions recorded at that input** -/
theorem pool_eventually_select (l : Maxpool ℝ) (hl : IsPool l ic ih iw oh ow) (x : V (I3 ic ih iw))
    (hnt : NoTies l ih iw oh ow x) :
    poolFn l ih iw oh ow =ᶠ[𝓝 x] select (idxOf l ih iw oh ow x) ic ih iw oh ow := by
  have hall : ∀ q : I3 ic oh ow, ∀ᶠ x' in 𝓝 x,
      poolFn l ih iw oh ow x' q = select (idxOf l ih iw oh ow x) ic ih iw oh ow x' q := by
    intro q
    obtain ⟨k, li, hk, hli, hin, hmin, huniq⟩ := hnt q
    -- the recorded position at `x`
    have hwx := window_unique l (toList3 x) q.1.val (q.2.1.val * l.stride.1) (q.2.2.val * l.stride.2) ih iw k li hk hli hin hmin huniq
    have hidx : L.get3D [] (idxOf l ih iw oh ow x) q.1.val q.2.1.val q.2.2.val =
        [(q.2.1.val * l.stride.1 + k, q.2.2.val * l.stride.2 + li)] := by
      unfold idxOf
      rw [pool_get_idx l (toList3 x) ih iw ic oh ow _ _ hl.s0 hl.s1
        (fit _ _ _ hl.s0 hl.oh_eq) (fit _ _ _ hl.s1 hl.ow_eq) q.1.val q.2.1.val q.2.2.val q.1.isLt
        (fits_window _ _ _ _ hl.s0 hl.oh_eq q.2.1.isLt) (fits_window _ _ _ _ hl.s1 hl.ow_eq q.2.2.isLt), hwx]
    -- the strict inequalities persist near `x`
    have hev1 : ∀ᶠ x' in 𝓝 x, (Scalar.minVal : ℝ) <
        L.get3D 0 (toList3 x') q.1.val (q.2.1.val * l.stride.1 + k) (q.2.2.val * l.stride.2 + li) :=
      (continuous_const.continuousAt).eventually_lt (co_continuous _ _ _).continuousAt hmin
    have hev2 : ∀ᶠ x' in 𝓝 x, ∀ k' ∈ Finset.range l.kernel.1, ∀ li' ∈ Finset.range l.kernel.2,
        q.2.1.val * l.stride.1 + k' < ih ∧ q.2.2.val * l.stride.2 + li' < iw → (k', li') ≠ (k, li) →
        L.get3D 0 (toList3 x') q.1.val (q.2.1.val * l.stride.1 + k') (q.2.2.val * l.stride.2 + li') <
          L.get3D 0 (toList3 x') q.1.val (q.2.1.val * l.stride.1 + k) (q.2.2.val * l.stride.2 + li) := by
      rw [Filter.eventually_all_finset]
      intro k' hk'
      rw [Filter.eventually_all_finset]
      intro li' hli'
      by_cases hc : (q.2.1.val * l.stride.1 + k' < ih ∧ q.2.2.val * l.stride.2 + li' < iw) ∧ (k', li') ≠ (k, li)
      · have := huniq k' li' (Finset.mem_range.mp hk') (Finset.mem_range.mp hli') hc.1 hc.2
        have hev := (co_continuous (ic := ic) (ih := ih) (iw := iw) q.1.val (q.2.1.val * l.stride.1 + k') (q.2.2.val * l.stride.2 + li')).continuousAt.eventually_lt
          (co_continuous q.1.val (q.2.1.val * l.stride.1 + k) (q.2.2.val * l.stride.2 + li)).continuousAt this
        exact hev.mono (fun x' hx' _ _ => hx')
      · exact Filter.Eventually.of_forall (fun x' h1 h2 => absurd ⟨h1, h2⟩ hc)
    filter_upwards [hev1, hev2] with x' h1 h2
    have hwx' := window_unique l (toList3 x') q.1.val (q.2.1.val * l.stride.1) (q.2.2.val * l.stride.2) ih iw k li hk hli hin h1
      (fun k' li' hk' hli' hin' hne => h2 k' (Finset.mem_range.mpr hk') li' (Finset.mem_range.mpr hli') hin' hne)
    simp only [poolFn, select, hwx', hidx, List.map_cons, List.map_nil, List.sum_cons, List.sum_nil, add_zero]
  have := (Filter.eventually_all (l := 𝓝 x)).mpr hall
  exact this.mono (fun x' hx' => funext hx')

/-- **the max-pool's transposed Jacobian is the routing of the gradient to the recorded positions**
    (at any input without ties) -/
theorem pool_isVJP (l : Maxpool ℝ) (hl : IsPool l ic ih iw oh ow) (x : V (I3 ic ih iw)) (hnt : NoTies l ih iw oh ow x) :
    IsVJP (poolFn l ih iw oh ow) x (routeV l (idxOf l ih iw oh ow x) ic ih iw oh ow) := by
  obtain ⟨f', hf', adj⟩ := maxpool_isVJP l (idxOf l ih iw oh ow x) ic ih iw oh ow hl.loops
    (fun c h w hc hh hw => idx_in_bounds l hl x c h w hc hh hw) x
  exact ⟨f', hf'.congr_of_eventuallyEq (pool_eventually_select l hl x hnt), adj⟩

end MaxpoolLocal
