import Model.Network
import Proofs.GetLemmas
import Proofs.OptimizerLemmas
import Proofs.Feedback

/-!
# Loop connections: the runs, their outputs, and the merge into the trace (helper lemmas for C17)
-/

set_option linter.unusedSectionVars false
set_option linter.unusedVariables false

namespace LoopSpec
open Network Scalar FeedbackSpec

variable {α : Type} [Scalar α]

/-- the successive outputs of `k` runs, each on the output of the previous one -/
def loopOutputs {P Q R : Type} (step : Tensor α → Except Err (P × Q × R × Tensor α)) :
    Nat → Tensor α → Except Err (List (Tensor α))
  | 0, _ => .ok []
  | k + 1, cur =>
    match step cur with
    | .error e => .error e
    | .ok (_, _, _, out) =>
      match loopOutputs step k out with
      | .error e => .error e
      | .ok os => .ok (out :: os)

/-- the recorded runs and the clean list of outputs agree: same failures, and the selected entry of
    every run's recording is that run's output -/
theorem loopRuns_outputs {P Q R : Type} (step : Tensor α → Except Err (P × Q × R × Tensor α))
    (sel : Q → Except Err (Tensor α))
    (hsel : ∀ cur p q r out, step cur = .ok (p, q, r, out) → sel q = .ok out) :
    ∀ (k : Nat) (cur : Tensor α),
    match loopRuns step k cur, loopOutputs step k cur with
    | .ok (ps, qs, rs, fin), .ok os =>
        L.mapM' sel qs = .ok os ∧ ps.length = k ∧ qs.length = k ∧ rs.length = k ∧ os.length = k ∧
        fin = os.getLast?.getD cur
    | .error e, .error e' => e = e'
    | _, _ => False
  | 0, cur => by simp [loopRuns, loopOutputs, L.mapM']
  | k + 1, cur => by
    simp only [loopRuns, loopOutputs]
    cases hs : step cur with
    | error e => simp
    | ok r =>
      obtain ⟨p, q, r, out⟩ := r
      simp only []
      have ih := loopRuns_outputs step sel hsel k out
      cases hA : loopRuns step k out with
      | error e =>
        cases hB : loopOutputs step k out with
        | error e' => rw [hA, hB] at ih; simpa using ih
        | ok os => rw [hA, hB] at ih; simp at ih
      | ok st =>
        obtain ⟨ps, qs, rs, fin⟩ := st
        cases hB : loopOutputs step k out with
        | error e' => rw [hA, hB] at ih; simp at ih
        | ok os =>
          rw [hA, hB] at ih
          simp only [] at ih ⊢
          obtain ⟨h1, h2, h3, h4, h5, h6⟩ := ih
          refine ⟨?_, by simp [h2], by simp [h3], by simp [h4], by simp [h5], ?_⟩
          · simp [L.mapM', hsel cur p q r out hs, h1]
          · rw [h6, List.getLast?_cons]
            cases os.getLast? <;> rfl

/-! ### `runRange` -/

theorem rangeFold_error (e : Err) (ls : List (Layer α)) :
    ls.foldl rangeStep (.error e : Except Err (List (Tensor α) × List (Tensor α) × List (Recorded α) × Tensor α)) = .error e := by
  induction ls with
  | nil => rfl
  | cons a l ih => simp only [List.foldl_cons, rangeStep]; exact ih

/-- the recordings of a range have one entry per layer and the last activation is the output -/
theorem rangeFold_spec : ∀ (ls : List (Layer α)) (pres posts : List (Tensor α)) (recs : List (Recorded α)) (x : Tensor α)
    (pres' posts' : List (Tensor α)) (recs' : List (Recorded α)) (x' : Tensor α),
    ls.foldl rangeStep (.ok (pres, posts, recs, x)) = .ok (pres', posts', recs', x') →
    posts'.length = posts.length + ls.length ∧ (ls ≠ [] → posts'.getLast? = some x')
  | [], pres, posts, recs, x, pres', posts', recs', x', h => by
    simp only [List.foldl_nil, Except.ok.injEq, Prod.mk.injEq] at h
    obtain ⟨a, b, c, d⟩ := h
    subst a; subst b; subst c; subst d
    simp
  | l :: ls, pres, posts, recs, x, pres', posts', recs', x', h => by
    simp only [List.foldl_cons, rangeStep] at h
    cases hf : layerForward l x with
    | error e => rw [hf] at h; simp only [] at h; rw [rangeFold_error] at h; simp at h
    | ok r =>
      obtain ⟨pre, post, rc⟩ := r
      rw [hf] at h
      simp only [] at h
      have ih := rangeFold_spec ls _ _ _ _ _ _ _ _ h
      refine ⟨by rw [ih.1]; simp; omega, fun _ => ?_⟩
      cases ls with
      | nil =>
        simp only [List.foldl_nil, Except.ok.injEq, Prod.mk.injEq] at h
        obtain ⟨_, b, _, d⟩ := h
        subst b; subst d; simp
      | cons l2 ls2 => exact ih.2 (by simp)

theorem runRange_spec (ls : List (Layer α)) (hne : ls ≠ []) (x : Tensor α) (p q : List (Tensor α)) (r : List (Recorded α))
    (h : runRange ls x = .ok (p, q, r)) : q.length = ls.length ∧ ∃ out, q.getLast? = some out := by
  unfold runRange at h
  cases hf : ls.foldl rangeStep (.ok ([], [], [], x)) with
  | error e => rw [hf] at h; simp at h
  | ok st =>
    obtain ⟨a, b, c, d⟩ := st
    rw [hf] at h
    simp only [Except.ok.injEq, Prod.mk.injEq] at h
    obtain ⟨h1, h2, h3⟩ := h
    subst h1; subst h2; subst h3
    have := rangeFold_spec ls _ _ _ _ _ _ _ _ hf
    exact ⟨by simpa using this.1, d, this.2 hne⟩

/-- the selected (last-layer) activation of a run is its output -/
theorem loopStep_sel (range : List (Layer α)) (hne : range ≠ []) (s : Shape) (inskips : Bool) (actInto cur : Tensor α)
    (p q : List (Tensor α)) (r : List (Recorded α)) (out : Tensor α)
    (h : loopStep range s inskips actInto cur = .ok (p, q, r, out)) :
    L.get q (range.length - 1) = .ok out := by
  unfold loopStep at h
  simp only [] at h
  split at h
  · simp at h
  · split at h
    · simp at h
    · split at h
      · simp at h
      · rename_i p' q' r' hr
        split at h
        · rename_i out' hl
          simp only [Except.ok.injEq, Prod.mk.injEq] at h
          obtain ⟨h1, h2, h3, h4⟩ := h
          subst h1; subst h2; subst h3; subst h4
          have := runRange_spec range hne _ _ _ _ hr
          apply get_last _ _ _ _ hl
          have : 1 ≤ range.length := by
            cases range with
            | nil => exact absurd rfl hne
            | cons _ _ => simp
          omega
        · simp at h


/-! ### merging the runs into the trace -/

theorem mergeFold_error (n : Network α) (fp fq : List (List (Tensor α))) (fr : List (List (Recorded α))) (e : Err)
    (l : List (Nat × Nat)) : l.foldl (loopMerge n fp fq fr) (.error e) = .error e := by
  induction l with
  | nil => rfl
  | cons a l ih => simp only [List.foldl_cons, loopMerge]; exact ih

/-- what a successful merge step does to the activations -/
theorem loopMerge_ok (n : Network α) (fp fq : List (List (Tensor α))) (fr : List (List (Recorded α)))
    (t t1 : Trace α) (ij : Nat × Nat) (h : loopMerge n fp fq fr (.ok t) ij = .ok t1) :
    ∃ qs aj aj', L.mapM' (fun (x : List (Tensor α)) => L.get x ij.1) fq = .ok qs ∧
      L.get t.act (ij.2 + 1) = .ok aj ∧ loopCombine n.loopaccumulation aj qs = .ok aj' ∧
      t1.act = L.modAt (fun _ => aj') t.act (ij.2 + 1) := by
  unfold loopMerge at h
  simp only [] at h
  split at h
  · rename_i ps qs rs pj aj rj h1 h2 h3 h4 h5 h6
    split at h
    · rename_i pj' aj' rj' h7 h8 h9
      simp only [Except.ok.injEq] at h
      subst h
      exact ⟨qs, aj, aj', h2, h5, h8, rfl⟩
    · simp at h
    · simp at h
    · simp at h
  · simp at h

theorem length_modAt {β : Type} (g : β → β) : ∀ (l : List β) (i : Nat), (L.modAt g l i).length = l.length
  | [], _ => by simp [L.modAt]
  | _ :: _, 0 => by simp [L.modAt]
  | _ :: ys, i + 1 => by simp [L.modAt, length_modAt g ys i]

/-- merge steps at other positions leave position `p` of the activations alone -/
theorem mergeFold_frame (n : Network α) (fp fq : List (List (Tensor α))) (fr : List (List (Recorded α))) (p : Nat) :
    ∀ (l : List (Nat × Nat)) (t t' : Trace α), (∀ ij, ij ∈ l → ij.2 + 1 ≠ p) →
    l.foldl (loopMerge n fp fq fr) (.ok t) = .ok t' →
    L.get? t'.act p = L.get? t.act p ∧ t'.act.length = t.act.length
  | [], t, t', _, h => by
    simp only [List.foldl_nil, Except.ok.injEq] at h; subst h; simp
  | ij :: l, t, t', hne, h => by
    simp only [List.foldl_cons] at h
    cases h1 : loopMerge n fp fq fr (.ok t) ij with
    | error e => rw [h1, mergeFold_error] at h; simp at h
    | ok t1 =>
      rw [h1] at h
      obtain ⟨qs, aj, aj', _, _, _, hact⟩ := loopMerge_ok n fp fq fr t t1 ij h1
      have ih := mergeFold_frame n fp fq fr p l t1 t' (fun ij' hm => hne ij' (by simp [hm])) h
      rw [ih.1, ih.2, hact]
      exact ⟨L.get?_modAt_other _ _ _ _ (hne ij (by simp)), length_modAt _ _ _⟩

end LoopSpec
