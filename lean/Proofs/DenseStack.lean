import Proofs.Walk
import Proofs.DenseBridge
import Props.C07

/-!
# A stack of dense layers, three ways: as model layers, as a `VJP.Net`, and what the model's forward and
backward folds compute on it (end-to-end instantiation of the reverse-walk theorem, for C01)
-/

set_option linter.unusedSectionVars false
set_option linter.unusedVariables false

open BigOperators

namespace DenseStack
open VJP DenseBridge Network Walk Scalar RealScalar

/-- no pre-activation sits on a kink of the activation -/
def NoKink (a : Act) (z : ℝ) : Prop := (a = .relu ∨ a = .leaky) → z ≠ 0

theorem act_hasDerivAt (a : Act) (ha : a ≠ .softmax) (z : ℝ) (hz : NoKink a z) :
    HasDerivAt (Act.f a) (Act.df a z) z := by
  cases a with
  | relu => exact C07.relu_hasDerivAt z (hz (Or.inl rfl))
  | leaky => exact C07.leaky_hasDerivAt z (hz (Or.inr rfl))
  | sigmoid => exact C07.sigmoid_hasDerivAt z
  | tanh => exact C07.tanh_hasDerivAt z
  | linear => exact C07.linear_hasDerivAt z
  | softmax => exact absurd rfl ha

/-- a stack of dense layers from dimension `n` to dimension `k` -/
inductive Stack : ℕ → ℕ → Type
  | nil (n : ℕ) : Stack n n
  | cons {n m k : ℕ} (a : Act) (W : V (Fin m × Fin n)) (b : Vec m) (rest : Stack m k) : Stack n k

/-- the model layer holding `W`, `b`, `a` (evaluation mode, outside any loop connection) -/
noncomputable def denseLayer {n m : ℕ} (a : Act) (W : V (Fin m × Fin n)) (b : Vec m) : DenseLayer ℝ :=
  { inputs := .single n, outputs := .single m, loops := 1, scale := fun x => 1 / x, weights := matT W,
    bias := some (vecT b), act := a, dropout := none, training := false }

theorem denseLayer_isDense {n m : ℕ} (a : Act) (W : V (Fin m × Fin n)) (b : Vec m) :
    IsDense (denseLayer a W b) a W b := ⟨rfl, rfl, rfl, rfl, by simp [denseLayer]⟩

/-- as a list of model layers -/
noncomputable def Stack.layers : {n k : ℕ} → Stack n k → List (Layer ℝ)
  | _, _, .nil _ => []
  | _, _, .cons a W b rest => .dense (denseLayer a W b) :: rest.layers

/-- as a differentiable stack with its reverse-mode functions -/
noncomputable def Stack.net : {n k : ℕ} → Stack n k → Net n k
  | _, _, .nil n => .nil n
  | _, _, .cons a W b rest =>
    .cons (denseFn (Act.f a) W b) (fun x g => inputGrad W (delta (Act.df a) (densePre W b x) g)) rest.net

/-- element-wise activations, non-empty layers -/
def Stack.Valid : {n k : ℕ} → Stack n k → Prop
  | _, _, .nil _ => True
  | n, _, @Stack.cons _ m _ a _ _ rest => a ≠ .softmax ∧ 0 < n ∧ 0 < m ∧ rest.Valid

/-- no pre-activation of any layer sits on a ReLU kink for the input `x` -/
def Stack.NoKinks : {n k : ℕ} → Stack n k → Vec n → Prop
  | _, _, .nil _, _ => True
  | _, _, .cons a W b rest, x => (∀ i, NoKink a (densePre W b x i)) ∧ rest.NoKinks (denseFn (Act.f a) W b x)

/-- the recorded pre-activations and activations -/
noncomputable def Stack.pres : {n k : ℕ} → Stack n k → Vec n → List (Tensor ℝ)
  | _, _, .nil _, _ => []
  | _, _, .cons a W b rest, x => vecT (densePre W b x) :: rest.pres (denseFn (Act.f a) W b x)

noncomputable def Stack.acts : {n k : ℕ} → Stack n k → Vec n → List (Tensor ℝ)
  | _, _, .nil _, _ => []
  | _, _, .cons a W b rest, x => vecT (denseFn (Act.f a) W b x) :: rest.acts (denseFn (Act.f a) W b x)

theorem Stack.layers_length : ∀ {n k : ℕ} (s : Stack n k) (x : Vec n),
    (s.pres x).length = s.layers.length ∧ (s.acts x).length = s.layers.length
  | _, _, .nil _, _ => ⟨rfl, rfl⟩
  | _, _, .cons a W b rest, x => by
    simp [Stack.pres, Stack.acts, Stack.layers, (Stack.layers_length rest _).1, (Stack.layers_length rest _).2]

/-- every layer's backward is its transposed Jacobian (away from kinks) -/
theorem Stack.net_ok : ∀ {n k : ℕ} (s : Stack n k) (x : Vec n), s.Valid → s.NoKinks x → s.net.Ok x
  | _, _, .nil _, _, _, _ => trivial
  | _, _, .cons a W b rest, x, hv, hk => by
    refine ⟨?_, Stack.net_ok rest _ hv.2.2.2 hk.2⟩
    exact dense_vjp_input (Act.f a) (Act.df a) W b x (fun i => act_hasDerivAt a hv.1 _ (hk.1 i))

/-! ### forward -/

/-- **the model's forward fold on the stack records the pre-activations and activations of the vector
    functions and ends in `net.fwd x`** -/
theorem forward_fold : ∀ {n k : ℕ} (s : Stack n k) (x : Vec n), s.Valid →
    s.layers.foldl rangeStep (.ok ([], [], [], vecT x)) =
      .ok (s.pres x, s.acts x, s.layers.map (fun _ => Recorded.none), vecT (s.net.fwd x))
  | _, _, .nil _, x, _ => rfl
  | _, _, .cons a W b rest, x, hv => by
    simp only [Stack.layers, List.foldl_cons, rangeStep, layerForward]
    rw [forward_eq _ a W b (denseLayer_isDense a W b) hv.1 x]
    simp only []
    rw [rangeFold_prefix, forward_fold rest _ hv.2.2.2]
    simp [Stack.pres, Stack.acts, Stack.net, Net.fwd]

/-! ### backward -/

theorem backSpec_append (t : Trace ℝ) : ∀ (A B : List (Nat × Layer ℝ)) (g : Tensor ℝ),
    backSpec t (A ++ B) g =
      match backSpec t A g with
      | .error e => .error e
      | .ok (w1, b1, g1) =>
        match backSpec t B (g1.getLast?.getD g) with
        | .error e => .error e
        | .ok (w2, b2, g2) => .ok (w1 ++ w2, b1 ++ b2, g1 ++ g2)
  | [], B, g => by
    simp only [List.nil_append, backSpec, List.getLast?_nil, Option.getD_none]
    cases backSpec t B g with
    | error e => rfl
    | ok r => obtain ⟨a, b, c⟩ := r; simp
  | il :: A, B, g => by
    simp only [List.cons_append, backSpec]
    cases L.get t.act il.1 with
    | error e => rfl
    | ok input =>
      cases L.get t.pre il.1 with
      | error e => rfl
      | ok output =>
        simp only []
        cases layerBackward il.2 g input output (L.get t.recs il.1) with
        | error e => rfl
        | ok r =>
          obtain ⟨ig, wg, bg⟩ := r
          simp only []
          rw [backSpec_append t A B ig]
          cases backSpec t A ig with
          | error e => rfl
          | ok r1 =>
            obtain ⟨w1, b1, g1⟩ := r1
            simp only []
            have hl : (ig :: g1).getLast?.getD g = g1.getLast?.getD ig := by
              rw [List.getLast?_cons]
              cases g1.getLast? <;> rfl
            rw [hl]
            cases backSpec t B (g1.getLast?.getD ig) with
            | error e => rfl
            | ok r2 => obtain ⟨w2, b2, g2⟩ := r2; simp

/-- **the reverse walk on the stack**: whatever precedes the stack in the recorded trace (`k` earlier
    layers), walking the stack's layers in reverse from the gradient `g` ends in `net.bwd x g`, and the
    weight gradient recorded for the stack's first layer is `δ ⊗ x` with `δ` formed from the gradient
    the rest of the stack handed back -/
theorem back_walk : ∀ {n m : ℕ} (s : Stack n m) (x : Vec n) (g : Vec m) (k : ℕ) (t : Trace ℝ)
    (pa pp : List (Tensor ℝ)), s.Valid →
    pa.length = k → pp.length = k → t.act = pa ++ (vecT x :: s.acts x) → t.pre = pp ++ s.pres x →
    ∃ ws bs gs, backSpec t (List.zip (List.range' k s.layers.length) s.layers).reverse (vecT g) = .ok (ws, bs, gs) ∧
      gs.getLast?.getD (vecT g) = vecT (s.net.bwd x g) ∧ gs.length = s.layers.length ∧
      (match s with
       | .nil _ => True
       | .cons a W b rest =>
         ws.getLast? = some (.one (matT (weightGrad (delta (Act.df a) (densePre W b x)
           (rest.net.bwd (denseFn (Act.f a) W b x) g)) x))))
  | _, _, .nil _, x, g, k, t, pa, pp, _, _, _, _, _ => ⟨[], [], [], rfl, rfl, rfl, trivial⟩
  | _, _, @Stack.cons n m _ a W b rest, x, g, k, t, pa, pp, hv, hpa, hpp, hact, hpre => by
    have hlen := Stack.layers_length rest (denseFn (Act.f a) W b x)
    -- the layers after the first one, shifted by one position
    obtain ⟨ws1, bs1, gs1, h1, h2, h3, _⟩ := back_walk rest (denseFn (Act.f a) W b x) g (k + 1) t
      (pa ++ [vecT x]) (pp ++ [vecT (densePre W b x)]) hv.2.2.2 (by simp [hpa]) (by simp [hpp])
      (by rw [hact]; simp [Stack.acts]) (by rw [hpre]; simp [Stack.pres])
    have hsplit : (List.zip (List.range' k (Stack.cons a W b rest).layers.length) (Stack.cons a W b rest).layers).reverse =
        (List.zip (List.range' (k + 1) rest.layers.length) rest.layers).reverse ++ [(k, .dense (denseLayer a W b))] := by
      simp [Stack.layers, List.range'_succ]
    rw [hsplit, backSpec_append, h1]
    simp only [h2]
    -- the first layer
    have hga : L.get t.act k = .ok (vecT x) := by
      rw [hact]
      simp only [L.get, L.get?_eq]
      rw [List.getElem?_append_right (by omega)]
      simp [hpa]
    have hgp : L.get t.pre k = .ok (vecT (densePre W b x)) := by
      rw [hpre]
      simp only [L.get, L.get?_eq]
      rw [List.getElem?_append_right (by omega)]
      simp [hpp, Stack.pres]
    simp only [backSpec, hga, hgp, layerBackward]
    rw [backward_eq _ a W b (denseLayer_isDense a W b) hv.1 hv.2.2.1 hv.2.1 x]
    refine ⟨_, _, _, rfl, ?_, ?_, ?_⟩
    · simp [Stack.net, Net.bwd]
    · simp [Stack.layers, h3]
    · simp

end DenseStack
