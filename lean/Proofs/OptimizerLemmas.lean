import Model.Optimizer

/-! # State-table addressing: `getSlot` / `setSlot` frame lemmas (core Lean only) -/

namespace L
variable {β : Type}

theorem get?_modAt_same (f : β → β) : ∀ (l : List β) (i : Nat), get? (modAt f l i) i = (get? l i).map f
  | [], _ => rfl
  | _ :: _, 0 => rfl
  | _ :: ys, n+1 => by simp [modAt, get?, get?_modAt_same f ys n]

theorem get?_modAt_other (f : β → β) : ∀ (l : List β) (i j : Nat), i ≠ j → get? (modAt f l i) j = get? l j
  | [], _, _, _ => rfl
  | _ :: _, 0, 0, h => absurd rfl h
  | _ :: _, 0, _+1, _ => rfl
  | _ :: _, _+1, 0, _ => rfl
  | _ :: ys, n+1, m+1, h => by
    simp only [modAt, get?]
    exact get?_modAt_other f ys n m (fun e => h (by rw [e]))

end L

namespace Optimizer
variable {α : Type}

/-- writing a slot and reading it back (when the slot exists) -/
theorem getSlot_setSlot_same (t : Table α) (l f b : Nat) (v v0 : Tensor α) (h : getSlot t l f b = .ok v0) :
    getSlot (setSlot t l f b v) l f b = .ok v := by
  unfold getSlot at h ⊢
  unfold setSlot
  rw [L.get?_modAt_same]
  cases h1 : L.get? t l with
  | none => simp [h1] at h
  | some x =>
    simp only [h1, Option.map] at h ⊢
    rw [L.get?_modAt_same]
    cases h2 : L.get? x f with
    | none => simp [h2] at h
    | some y =>
      simp only [h2, Option.map] at h ⊢
      rw [L.get?_modAt_same]
      cases h3 : L.get? y b with
      | none => simp [h3] at h
      | some z => simp

/-- **frame property**: writing one slot leaves every other slot as it was -/
theorem getSlot_setSlot_other (t : Table α) (l f b l' f' b' : Nat) (v : Tensor α)
    (h : (l, f, b) ≠ (l', f', b')) :
    getSlot (setSlot t l f b v) l' f' b' = getSlot t l' f' b' := by
  unfold getSlot setSlot
  by_cases hl : l = l'
  · subst hl
    rw [L.get?_modAt_same]
    cases h1 : L.get? t l with
    | none => rfl
    | some x =>
      simp only [Option.map]
      by_cases hf : f = f'
      · subst hf
        rw [L.get?_modAt_same]
        cases h2 : L.get? x f with
        | none => rfl
        | some y =>
          simp only [Option.map]
          have hb : b ≠ b' := fun e => h (by rw [e])
          rw [L.get?_modAt_other _ _ _ _ hb]
      · rw [L.get?_modAt_other _ _ _ _ hf]
  · rw [L.get?_modAt_other _ _ _ _ hl]

end Optimizer
