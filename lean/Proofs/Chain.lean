import Proofs.VJP
import Proofs.Walk
import Proofs.DenseStack

/-!
# Any sequence of model layers that realise vector functions: the model's forward fold is the
composition and its reverse walk is the reverse-mode composition (general end-to-end lemma for C01)

A `Chain` is a list of model layers, each paired with the vector function it realises between two
tensor encodings (`vecT` for flat vectors, `T3` for `c × h × w` tensors, …), the backward function, the
pre-activation and the extra recording.  `Chain.Real x` says every layer really computes these at the
point it is evaluated at.  Then `Network.forward` / `Network.backward` of a network consisting of these
layers (no skip / loop connections) compute `GNet.fwd` / `GNet.bwd` of the corresponding heterogeneous
stack — whatever the layer kinds.
-/

set_option linter.unusedSectionVars false
set_option linter.unusedVariables false

namespace LayerChain
open Network Scalar VJP Walk LoopSpec DenseStack

/-- a tensor encoding of the vectors over an index type -/
abbrev Enc (a : Idx) := V a.T → Tensor ℝ

/-- model layers with the vector functions they realise -/
inductive Chain : (a : Idx) → Enc a → (c : Idx) → Enc c → Type 1
  | nil (a : Idx) (ea : Enc a) : Chain a ea a ea
  | cons {a b c : Idx} {ea : Enc a} {eb : Enc b} {ec : Enc c} (l : Layer ℝ)
      (f : V a.T → V b.T) (bwd : V a.T → V b.T → V a.T)
      (pre : V a.T → Tensor ℝ) (rc : V a.T → Recorded ℝ) (wg : V a.T → V b.T → WGrad ℝ × BGrad ℝ)
      (rest : Chain b eb c ec) : Chain a ea c ec

variable {a c : Idx} {ea : Enc a} {ec : Enc c}

def layers : {a : Idx} → {ea : Enc a} → {c : Idx} → {ec : Enc c} → Chain a ea c ec → List (Layer ℝ)
  | _, _, _, _, .nil _ _ => []
  | _, _, _, _, .cons l _ _ _ _ _ rest => l :: layers rest

/-- the heterogeneous stack of vector functions -/
def gnet : {a : Idx} → {ea : Enc a} → {c : Idx} → {ec : Enc c} → Chain a ea c ec → GNet a c
  | _, _, _, _, .nil a _ => .nil a
  | _, _, _, _, .cons _ f bwd _ _ _ rest => .cons f bwd (gnet rest)

/-- every layer, at the point it is evaluated at, computes its vector function (forward) and its backward
    function (backward) on the encodings -/
def Real : {a : Idx} → {ea : Enc a} → {c : Idx} → {ec : Enc c} → Chain a ea c ec → V a.T → Prop
  | _, _, _, _, .nil _ _, _ => True
  | _, ea, _, _, @Chain.cons _ _ _ _ eb _ l f bwd pre rc wg rest, x =>
    layerForward l (ea x) = .ok (pre x, eb (f x), rc x) ∧
    (∀ g, layerBackward l (eb g) (ea x) (pre x) (.ok (rc x)) = .ok (ea (bwd x g), (wg x g).1, (wg x g).2)) ∧
    Real rest (f x)

def pres : {a : Idx} → {ea : Enc a} → {c : Idx} → {ec : Enc c} → Chain a ea c ec → V a.T → List (Tensor ℝ)
  | _, _, _, _, .nil _ _, _ => []
  | _, _, _, _, .cons _ f _ pre _ _ rest, x => pre x :: pres rest (f x)

def acts : {a : Idx} → {ea : Enc a} → {c : Idx} → {ec : Enc c} → Chain a ea c ec → V a.T → List (Tensor ℝ)
  | _, _, _, _, .nil _ _, _ => []
  | _, _, _, _, @Chain.cons _ _ _ _ eb _ _ f _ _ _ _ rest, x => eb (f x) :: acts rest (f x)

def recs : {a : Idx} → {ea : Enc a} → {c : Idx} → {ec : Enc c} → Chain a ea c ec → V a.T → List (Recorded ℝ)
  | _, _, _, _, .nil _ _, _ => []
  | _, _, _, _, .cons _ f _ _ rc _ rest, x => rc x :: recs rest (f x)

theorem lengths : ∀ {a : Idx} {ea : Enc a} {c : Idx} {ec : Enc c} (ch : Chain a ea c ec) (x : V a.T),
    (pres ch x).length = (layers ch).length ∧ (acts ch x).length = (layers ch).length ∧
    (recs ch x).length = (layers ch).length
  | _, _, _, _, .nil _ _, _ => ⟨rfl, rfl, rfl⟩
  | _, _, _, _, .cons _ f _ _ _ _ rest, x => by
    obtain ⟨h1, h2, h3⟩ := lengths rest (f x)
    simp [pres, acts, recs, layers, h1, h2, h3]

/-! ### forward -/

/-- **the model's forward fold over the chain's layers is the composition of the vector functions** -/
theorem forward_fold : ∀ {a : Idx} {ea : Enc a} {c : Idx} {ec : Enc c} (ch : Chain a ea c ec) (x : V a.T), Real ch x →
    (layers ch).foldl rangeStep (.ok ([], [], [], ea x)) = .ok (pres ch x, acts ch x, recs ch x, ec ((gnet ch).fwd x))
  | _, _, _, _, .nil _ _, x, _ => rfl
  | _, _, _, _, .cons l f bwd pre rc wg rest, x, h => by
    simp only [layers, List.foldl_cons, rangeStep, h.1]
    rw [rangeFold_prefix, forward_fold rest (f x) h.2.2]
    simp [pres, acts, recs, gnet, GNet.fwd]

theorem acts_last : ∀ {a : Idx} {ea : Enc a} {c : Idx} {ec : Enc c} (ch : Chain a ea c ec) (x : V a.T),
    (ea x :: acts ch x).getLast? = some (ec ((gnet ch).fwd x))
  | _, _, _, _, .nil _ _, x => rfl
  | _, _, _, _, .cons l f bwd pre rc wg rest, x => by
    have := acts_last rest (f x)
    simp only [acts, gnet, GNet.fwd]
    rw [List.getLast?_cons_cons]
    exact this

/-! ### backward -/

/-- the gradient handed to layer number `i` of the chain (0 = first) -/
def handed : {a : Idx} → {ea : Enc a} → {c : Idx} → {ec : Enc c} → Chain a ea c ec → V a.T → V c.T → List (Tensor ℝ)
  | _, _, _, _, .nil _ _, _, _ => []
  | _, ea, _, _, .cons _ f bwd _ _ _ rest, x, g => handed rest (f x) g ++ [ea (bwd x ((gnet rest).bwd (f x) g))]

/-- what the walk records last: the weight / bias gradient of the chain's first layer, formed from the
    gradient the rest of the chain hands back -/
def FirstGrads : {a : Idx} → {ea : Enc a} → {c : Idx} → {ec : Enc c} → Chain a ea c ec → V a.T → V c.T →
    List (WGrad ℝ) → List (BGrad ℝ) → Prop
  | _, _, _, _, .nil _ _, _, _, _, _ => True
  | _, _, _, _, .cons _ f _ _ _ wg rest, x, g, ws, bs =>
    ws.getLast? = some (wg x ((gnet rest).bwd (f x) g)).1 ∧ bs.getLast? = some (wg x ((gnet rest).bwd (f x) g)).2

/-- every weight / bias gradient the walk records, in walk order (last layer first): each layer's gradient
    function applied to the gradient the layers after it hand back -/
def allGrads : {a : Idx} → {ea : Enc a} → {c : Idx} → {ec : Enc c} → Chain a ea c ec → V a.T → V c.T → List (WGrad ℝ × BGrad ℝ)
  | _, _, _, _, .nil _ _, _, _ => []
  | _, _, _, _, .cons _ f _ _ _ wg rest, x, g => allGrads rest (f x) g ++ [wg x ((gnet rest).bwd (f x) g)]

/-- **the reverse walk over the chain**: whatever precedes it in the recorded trace (`k` earlier layers),
    walking its layers in reverse from `ec g` succeeds, ends in `ea (gnet.bwd x g)`, and records for the
    chain's first layer the weight gradient of the gradient the rest handed back -/
theorem back_walk : ∀ {a : Idx} {ea : Enc a} {c : Idx} {ec : Enc c} (ch : Chain a ea c ec) (x : V a.T) (g : V c.T)
    (k : ℕ) (t : Trace ℝ) (pa pp : List (Tensor ℝ)) (pr : List (Recorded ℝ)) (qa qp : List (Tensor ℝ)) (qr : List (Recorded ℝ)),
    Real ch x → pa.length = k → pp.length = k → pr.length = k →
    t.act = pa ++ (ea x :: acts ch x) ++ qa → t.pre = pp ++ pres ch x ++ qp → t.recs = pr ++ recs ch x ++ qr →
    ∃ ws bs gs, backSpec t (List.zip (List.range' k (layers ch).length) (layers ch)).reverse (ec g) = .ok (ws, bs, gs) ∧
      gs.getLast?.getD (ec g) = ea ((gnet ch).bwd x g) ∧ gs.length = (layers ch).length ∧
      FirstGrads ch x g ws bs ∧ ws = (allGrads ch x g).map (·.1) ∧ bs = (allGrads ch x g).map (·.2)
  | _, _, _, _, .nil _ _, x, g, k, t, pa, pp, pr, _, _, _, _, _, _, _, _, _, _ => ⟨[], [], [], rfl, rfl, rfl, trivial, rfl, rfl⟩
  | _, ea, _, ec, @Chain.cons _ _ _ _ eb _ l f bwd pre rc wg rest, x, g, k, t, pa, pp, pr, qa, qp, qr, h, hpa, hpp, hpr, hact, hpre, hrec => by
    have hlen := lengths rest (f x)
    obtain ⟨ws1, bs1, gs1, h1, h2, h3, _, h5, h6⟩ := back_walk rest (f x) g (k + 1) t
      (pa ++ [ea x]) (pp ++ [pre x]) (pr ++ [rc x]) qa qp qr h.2.2 (by simp [hpa]) (by simp [hpp]) (by simp [hpr])
      (by rw [hact]; simp [acts]) (by rw [hpre]; simp [pres]) (by rw [hrec]; simp [recs])
    have hsplit : (List.zip (List.range' k (layers (Chain.cons (ea := ea) (eb := eb) l f bwd pre rc wg rest)).length)
          (layers (Chain.cons (ea := ea) (eb := eb) l f bwd pre rc wg rest))).reverse =
        (List.zip (List.range' (k + 1) (layers rest).length) (layers rest)).reverse ++ [(k, l)] := by
      simp [layers, List.range'_succ]
    rw [hsplit, backSpec_append, h1]
    simp only [h2]
    have hga : L.get t.act k = .ok (ea x) := by
      rw [hact]
      simp only [L.get, L.get?_eq]
      rw [List.getElem?_append_left (by simp; omega), List.getElem?_append_right (by omega)]
      simp [hpa]
    have hgp : L.get t.pre k = .ok (pre x) := by
      rw [hpre]
      simp only [L.get, L.get?_eq]
      rw [List.getElem?_append_left (by simp [pres]; omega), List.getElem?_append_right (by omega)]
      simp [hpp, pres]
    have hgr : L.get t.recs k = .ok (rc x) := by
      rw [hrec]
      simp only [L.get, L.get?_eq]
      rw [List.getElem?_append_left (by simp [recs]; omega), List.getElem?_append_right (by omega)]
      simp [hpr, recs]
    simp only [backSpec, hga, hgp, hgr, h.2.1]
    refine ⟨_, _, _, rfl, ?_, ?_, ?_, ?_, ?_⟩
    · simp [gnet, GNet.bwd]
    · simp [layers, h3]
    · simp [FirstGrads]
    · simp [allGrads, h5]
    · simp [allGrads, h6]

/-! ### the whole network -/

/-- **end to end for any sequence of layers that realise vector functions** (no skip / loop connections),
    on the model's own `Network.forward` / `Network.backward` folds: forward ends in the composition's
    value; backward succeeds and the last gradient it hands on is the reverse-mode composition; if every
    layer's backward function is its transposed Jacobian at the point it is evaluated at, that is the
    gradient of the objective with respect to the network input -/
theorem network_gradient {a : Idx} {ea : Enc a} {c : Idx} {ec : Enc c} (n : Network ℝ) (ch : Chain a ea c ec)
    (hn : n.layers = layers ch) (hc : n.connect = []) (hl : n.loopbacks = []) (x : V a.T) (hr : Real ch x)
    (hok : (gnet ch).Ok x) (ℓ : V c.T → ℝ) (g : V c.T) (hg : IsGrad ℓ ((gnet ch).fwd x) g) :
    ∃ t ws bs gs,
      n.forward (ea x) = .ok t ∧ t.act.getLast? = some (ec ((gnet ch).fwd x)) ∧
      n.backward (ec g) t = .ok (ws, bs, gs) ∧ gs.getLast? = some (ea ((gnet ch).bwd x g)) ∧
      IsGrad (ℓ ∘ (gnet ch).fwd) x ((gnet ch).bwd x g) ∧
      FirstGrads ch x g ws bs ∧ ws = (allGrads ch x g).map (·.1) ∧ bs = (allGrads ch x g).map (·.2) := by
  have hf := forward_eq_runRange n hc hl (ea x)
  unfold Network.runRange at hf
  rw [hn, forward_fold ch x hr] at hf
  simp only [] at hf
  obtain ⟨ws, bs, gs, h1, h2, h3, h4, h5, h6⟩ := back_walk ch x g 0
    { pre := pres ch x, act := ea x :: acts ch x, recs := recs ch x } [] [] [] [] [] [] hr rfl rfl rfl (by simp) (by simp) (by simp)
  have hb := backward_eq_backSpec n hc (ec g) { pre := pres ch x, act := ea x :: acts ch x, recs := recs ch x }
  rw [hn, List.range_eq_range', h1] at hb
  simp only [] at hb
  refine ⟨_, ws, bs, ec g :: gs, hf, acts_last ch x, hb, ?_, GNet.grad (gnet ch) x hok ℓ g hg, h4, h5, h6⟩
  rw [List.getLast?_cons, ← h2]

/-- the gradient of a layer's parameters `θ` in front of any heterogeneous stack: the layer's parameter-VJP
    applied to the gradient the rest of the network hands back to it -/
theorem parameter_gradient {ι : Type} [Fintype ι] [DecidableEq ι] {b c : Idx} (layer : V ι → V b.T) (θ : V ι)
    (bθ : V b.T → V ι) (hθ : IsVJP layer θ bθ)
    (rest : GNet b c) (hrest : rest.Ok (layer θ)) (ℓ : V c.T → ℝ) (g : V c.T)
    (hl : IsGrad ℓ (rest.fwd (layer θ)) g) :
    IsGrad (fun θ' => ℓ (rest.fwd (layer θ'))) θ (bθ (rest.bwd (layer θ) g)) ∧
    ∀ p, HasDerivAt (fun s => ℓ (rest.fwd (layer (Function.update θ p s)))) (bθ (rest.bwd (layer θ) g) p) (θ p) := by
  have h1 : IsGrad (ℓ ∘ rest.fwd) (layer θ) (rest.bwd (layer θ) g) := GNet.grad rest _ hrest ℓ g hl
  have h2 := IsGrad.comp_vjp hθ h1
  exact ⟨h2, fun p => h2.partial p⟩

end LayerChain
