import Proofs.ConvBridge
import Proofs.DeconvVJP
import Proofs.Flat3

/-!
# `Deconv.forward` / `Deconv.backward` of the model on `I3`-indexed vectors (helper lemmas for C01)
-/

set_option linter.unusedSectionVars false
set_option linter.unusedVariables false

open Finset BigOperators

namespace DeconvBridge
open VJP ConvVJP DeconvVJP ConvBridge L Scalar RealScalar

variable {kf kc kh kw ih iw oh ow : ℕ}

/-- the model layer is the transposed convolution with kernels `K`, element-wise activation `a`, no
    dropout in effect, announced shapes `kc × ih × iw → kf × oh × ow` -/
structure IsDeconv (l : Deconv ℝ) (a : Act) (K : V (I4 kf kc kh kw)) (ih iw oh ow : ℕ) : Prop where
  kernels : l.kernels = kernelT K
  inputs : l.inputs = .triple kc ih iw
  outputs : l.outputs = .triple kf oh ow
  act : l.act = a
  training : l.training = false
  size : Deconv.outputSize ih iw kf (kh, kw) l.stride l.padding = .ok (.triple kf oh ow)
  scale : l.scale l.loops = 1
  pos : 0 < kf ∧ 0 < kc ∧ 0 < kh ∧ 0 < ih ∧ 0 < oh

/-- the layer's pre-activation as a vector function of its input: the model's scatter loops -/
noncomputable abbrev pre (l : Deconv ℝ) (K : V (I4 kf kc kh kw)) (ih iw oh ow : ℕ) : V (I3 kc ih iw) → V (I3 kf oh ow) :=
  deconvPre l kf kc kh kw ih iw oh ow (toList4 K)

theorem scatter_eq (l : Deconv ℝ) (K : V (I4 kf kc kh kw)) (x : V (I3 kc ih iw)) :
    Deconv.scatter (toList3 x) (toList4 K) kf kc (Deconv.taps l ih iw kh kw oh ow) oh ow = toList3 (pre l K ih iw oh ow x) :=
  (toList3_of_get _ kf oh ow (DimsLemmas.deconv_scatter_dims _ _ kf kc _ oh ow)).symm

theorem forward_gen (l : Deconv ℝ) (a : Act) (K : V (I4 kf kc kh kw)) (hl : IsDeconv l a K ih iw oh ow) (ha : a ≠ .softmax)
    (x : V (I3 kc ih iw)) :
    l.forward (T3 x) = match (if l.flatten then (T3 (fun i => Act.f a (pre l K ih iw oh ow x i))).flatten
        else .ok (T3 (fun i => Act.f a (pre l K ih iw oh ow x i)))) with
      | .error e => .error e
      | .ok post => .ok (T3 (pre l K ih iw oh ow x), post) := by
  obtain ⟨hkf, hkc, hkh, hih, hoh⟩ := hl.pos
  unfold Deconv.forward
  rw [entry_T3 x hkc hih, hl.kernels, kernelsOf_kernelT]
  simp only [kernelDims_toList4 K hkf hkc hkh]
  obtain ⟨r, m, rest, he, h1, h2⟩ := dims3_cons _ kc ih iw (toList3_dims x) hkc hih
  have hsc := scatter_eq (oh := oh) (ow := ow) l K x
  generalize hX : toList3 x = X at he hsc ⊢
  subst he
  simp only [h1, h2, hl.size, hsc, triple_toList3 _ hkf hoh, hl.act, act_forward_T3 a ha _ hkf hoh, hl.training]
  unfold finish
  simp only [Bool.false_eq_true, ↓reduceIte]
  cases l.flatten
  · rfl
  · simp only [↓reduceIte]
    cases (T3 fun i => a.f (pre l K ih iw oh ow x i)).flatten <;> rfl

/-- the gradient the activation passes down -/
noncomputable def delta (a : Act) (p g : V (I3 kf oh ow)) : V (I3 kf oh ow) := fun i => g i * Act.df a (p i) * 1

noncomputable def bwdX (l : Deconv ℝ) (a : Act) (K : V (I4 kf kc kh kw)) (ih iw oh ow : ℕ) (x : V (I3 kc ih iw))
    (g : V (I3 kf oh ow)) : V (I3 kc ih iw) :=
  deconvBwd l kf kc kh kw ih iw oh ow (toList4 K) (toList3 x) (delta a (pre l K ih iw oh ow x) g)

noncomputable def bwdKer (l : Deconv ℝ) (a : Act) (K : V (I4 kf kc kh kw)) (ih iw oh ow : ℕ) (x : V (I3 kc ih iw))
    (g : V (I3 kf oh ow)) : V (I4 kf kc kh kw) :=
  deconvBwdK l kf kc kh kw ih iw oh ow (toList3 x) (toList4 K) (delta a (pre l K ih iw oh ow x) g)

theorem backward_eq (l : Deconv ℝ) (a : Act) (K : V (I4 kf kc kh kw)) (hl : IsDeconv l a K ih iw oh ow) (ha : a ≠ .softmax)
    (x : V (I3 kc ih iw)) (g : V (I3 kf oh ow)) (G : Tensor ℝ) (hG : G.getTriple l.outputs = .ok (toList3 g)) :
    l.backward G (T3 x) (T3 (pre l K ih iw oh ow x)) =
      .ok (T3 (bwdX l a K ih iw oh ow x g), T4 (bwdKer l a K ih iw oh ow x g), none) := by
  obtain ⟨hkf, hkc, hkh, hih, hoh⟩ := hl.pos
  unfold Deconv.backward
  have hgt : ∀ {c h w : ℕ} (v : V (I3 c h w)) (s : Shape), (T3 v).getTriple s = .ok (toList3 v) := fun _ _ => rfl
  rw [hG, hl.act, act_backward_T3 a ha _ hkf hoh]
  simp only [hgt, hl.kernels, kernelsOf_kernelT, hadamard3d_toList3, hl.scale, kernelDims_toList4 K hkf hkc hkh]
  obtain ⟨r, m, rest, he, h1, h2⟩ := dims3_cons _ kc ih iw (toList3_dims x) hkc hih
  obtain ⟨dr, dm, drest, hde, hd1, hd2⟩ := dims3_cons _ kf oh ow
    (toList3_dims (fun i => g i * Act.df a (pre l K ih iw oh ow x i) * 1)) hkf hoh
  have hdims := DimsLemmas.deconv_gradPass_dims (toList3 x) (toList4 K)
    (toList3 (fun i => g i * Act.df a (pre l K ih iw oh ow x i) * 1)) kf kc kh kw ih iw (Deconv.taps l ih iw kh kw oh ow)
  have h3 : toList3 (bwdX l a K ih iw oh ow x g) = (Deconv.gradPass (toList3 x) (toList4 K)
      (toList3 (fun i => g i * Act.df a (pre l K ih iw oh ow x i) * 1)) kf kc kh kw ih iw (Deconv.taps l ih iw kh kw oh ow)).1 :=
    toList3_of_get _ kc ih iw hdims.1
  have h4 : toList4 (bwdKer l a K ih iw oh ow x g) = (Deconv.gradPass (toList3 x) (toList4 K)
      (toList3 (fun i => g i * Act.df a (pre l K ih iw oh ow x i) * 1)) kf kc kh kw ih iw (Deconv.taps l ih iw kh kw oh ow)).2 :=
    toList4_of_get _ kf kc kh kw hdims.2
  have ht := triple_of_dims _ kc ih iw hdims.1 hkc hih
  have hq := quadruple_of_dims _ kf kc kh kw hdims.2 hkf hkc hkh
  simp only [T3, T4, h3, h4]
  generalize hD : toList3 (fun i => g i * Act.df a (pre l K ih iw oh ow x i) * 1) = D at hde ht hq ⊢
  generalize hX : toList3 x = X at he ht hq ⊢
  subst he hde
  simp only [h1, h2, hd1, hd2, ht, hq]

end DeconvBridge
