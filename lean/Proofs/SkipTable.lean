import Model.Network
import Mathlib.Data.List.Nodup
import Mathlib.Data.List.Perm.Basic

/-!
# The table `Network::backward` inverts (`target ↦ source` to `source ↦ sorted targets`)

Facts about `invertSkips` needed to read the reverse sweep off the model's fold (for C16 / C01):
a source without connections has no entry, the targets listed for a source are exactly the connections
into it, each once.
-/

namespace SkipTable
open Network

theorem find?_insert_same {β : Type} (m : List (Nat × β)) (k : Nat) (v : β) :
    Assoc.find? (Assoc.insert m k v) k = some v := by
  induction m with
  | nil => simp [Assoc.insert, Assoc.find?]
  | cons e rest ih =>
    obtain ⟨k', v'⟩ := e
    simp only [Assoc.insert]
    split
    · simp [Assoc.find?]
    · rename_i hne
      simp only [Assoc.find?, hne, if_false]
      exact ih

theorem find?_insert_other {β : Type} (m : List (Nat × β)) (k k2 : Nat) (v : β) (h : k ≠ k2) :
    Assoc.find? (Assoc.insert m k v) k2 = Assoc.find? m k2 := by
  induction m with
  | nil => simp [Assoc.insert, Assoc.find?, h]
  | cons e rest ih =>
    obtain ⟨k', v'⟩ := e
    simp only [Assoc.insert]
    split
    · rename_i heq
      subst heq
      simp [Assoc.find?, h]
    · simp only [Assoc.find?]
      split
      · rfl
      · exact ih

theorem perm_insertSorted (x : Nat) : ∀ (l : List Nat), (insertSorted x l).Perm (x :: l)
  | [] => by simp [insertSorted]
  | y :: ys => by
    simp only [insertSorted]
    split
    · exact List.Perm.refl _
    · exact ((perm_insertSorted x ys).cons y).trans (List.Perm.swap x y ys)

theorem mem_insertSorted (x y : Nat) (l : List Nat) : y ∈ insertSorted x l ↔ y = x ∨ y ∈ l := by
  rw [(perm_insertSorted x l).mem_iff]
  simp

theorem nodup_insertSorted (x : Nat) (l : List Nat) (hx : x ∉ l) (hl : l.Nodup) : (insertSorted x l).Nodup := by
  rw [(perm_insertSorted x l).nodup_iff]
  exact List.nodup_cons.mpr ⟨hx, hl⟩

/-- the lookup finds a pair of the table; with distinct keys, every pair of the table is found -/
theorem find?_mem (c : List (Nat × Nat)) (t s : Nat) (h : Assoc.find? c t = some s) : (t, s) ∈ c := by
  induction c with
  | nil => simp [Assoc.find?] at h
  | cons e rest ih =>
    obtain ⟨k, v⟩ := e
    simp only [Assoc.find?] at h
    split at h
    · rename_i hk
      simp only [Option.some.injEq] at h
      subst hk; subst h
      exact List.mem_cons_self ..
    · exact List.mem_cons_of_mem _ (ih h)

theorem find?_none (c : List (Nat × Nat)) (t : Nat) (h : t ∉ c.map Prod.fst) : Assoc.find? c t = none := by
  induction c with
  | nil => rfl
  | cons e rest ih =>
    obtain ⟨k, v⟩ := e
    simp only [List.map_cons, List.mem_cons, not_or] at h
    simp only [Assoc.find?]
    rw [if_neg (fun hk => h.1 hk.symm)]
    exact ih h.2

theorem mem_find? (c : List (Nat × Nat)) (hc : (c.map Prod.fst).Nodup) (t s : Nat) (h : (t, s) ∈ c) :
    Assoc.find? c t = some s := by
  induction c with
  | nil => simp at h
  | cons e rest ih =>
    obtain ⟨k, v⟩ := e
    simp only [List.map_cons, List.nodup_cons] at hc
    simp only [Assoc.find?]
    rcases List.mem_cons.mp h with h | h
    · simp only [Prod.mk.injEq] at h
      rw [if_pos h.1.symm, h.2]
    · have : k ≠ t := by
        intro hk
        subst hk
        exact hc.1 (List.mem_map.mpr ⟨(k, s), h, rfl⟩)
      rw [if_neg this]
      exact ih hc.2 h

/-- the targets recorded for source `a` are exactly the connections into it -/
theorem invert_fold_mem : ∀ (c : List (Nat × Nat)) (m : List (Nat × List Nat)) (a b : Nat),
    b ∈ ((Assoc.find? (c.foldl invertStep m) a).getD []) ↔ (b ∈ ((Assoc.find? m a).getD []) ∨ (b, a) ∈ c) := by
  intro c
  induction c with
  | nil => intro m a b; simp
  | cons e rest ih =>
    intro m a b
    obtain ⟨tgt, from_⟩ := e
    simp only [List.foldl_cons]
    rw [ih]
    simp only [List.mem_cons, Prod.mk.injEq]
    by_cases hfa : from_ = a
    · subst hfa
      cases hm : Assoc.find? m from_ with
      | none =>
        simp only [invertStep, hm, find?_insert_same, Option.getD_some, Option.getD_none, List.mem_singleton, List.not_mem_nil,
          false_or, and_true]
      | some ts =>
        simp only [invertStep, hm, find?_insert_same, Option.getD_some, mem_insertSorted, and_true]
        constructor
        · rintro ((h | h) | h)
          · exact Or.inr (Or.inl h)
          · exact Or.inl h
          · exact Or.inr (Or.inr h)
        · rintro (h | h | h)
          · exact Or.inl (Or.inr h)
          · exact Or.inl (Or.inl h)
          · exact Or.inr h
    · have hne : ¬ (b = tgt ∧ a = from_) := fun h => hfa h.2.symm
      cases hm : Assoc.find? m from_ with
      | none =>
        simp only [invertStep, hm]
        rw [find?_insert_other _ _ _ _ hfa]
        simp [hne]
      | some ts =>
        simp only [invertStep, hm]
        rw [find?_insert_other _ _ _ _ hfa]
        simp [hne]

theorem invert_mem (c : List (Nat × Nat)) (a b : Nat) :
    b ∈ ((Assoc.find? (invertSkips c) a).getD []) ↔ (b, a) ∈ c := by
  have := invert_fold_mem c [] a b
  simp only [Assoc.find?, Option.getD_none, List.not_mem_nil, false_or] at this
  exact this

/-- a layer that is the source of no connection has no entry -/
theorem invert_fold_none : ∀ (c : List (Nat × Nat)) (m : List (Nat × List Nat)) (a : Nat),
    (∀ e ∈ c, e.2 ≠ a) → Assoc.find? (c.foldl invertStep m) a = Assoc.find? m a := by
  intro c
  induction c with
  | nil => intro m a _; rfl
  | cons e rest ih =>
    intro m a h
    simp only [List.foldl_cons]
    rw [ih _ a (fun e' he' => h e' (List.mem_cons_of_mem _ he'))]
    have hne : e.2 ≠ a := h e (List.mem_cons_self ..)
    unfold invertStep
    cases Assoc.find? m e.2 with
    | none => exact find?_insert_other _ _ _ _ hne
    | some ts => exact find?_insert_other _ _ _ _ hne

theorem invert_none (c : List (Nat × Nat)) (a : Nat) (h : ∀ e ∈ c, e.2 ≠ a) :
    Assoc.find? (invertSkips c) a = none :=
  invert_fold_none c [] a h

/-- with distinct targets, no target is listed twice -/
theorem invert_fold_nodup : ∀ (c : List (Nat × Nat)) (m : List (Nat × List Nat)),
    (c.map Prod.fst).Nodup → (∀ a, ((Assoc.find? m a).getD []).Nodup) →
    (∀ a b, b ∈ ((Assoc.find? m a).getD []) → b ∉ c.map Prod.fst) →
    ∀ a, ((Assoc.find? (c.foldl invertStep m) a).getD []).Nodup := by
  intro c
  induction c with
  | nil => intro m _ h _ a; exact h a
  | cons e rest ih =>
    intro m hc hm hfresh a
    obtain ⟨tgt, from_⟩ := e
    simp only [List.map_cons, List.nodup_cons] at hc
    simp only [List.foldl_cons]
    apply ih _ hc.2
    · intro a'
      by_cases hfa : from_ = a'
      · subst hfa
        cases hf : Assoc.find? m from_ with
        | none => simp [invertStep, hf, find?_insert_same]
        | some ts =>
          simp only [invertStep, hf, find?_insert_same, Option.getD_some]
          apply nodup_insertSorted
          · intro hmem
            have := hfresh from_ tgt (by rw [hf]; exact hmem)
            exact this (by simp)
          · have := hm from_
            rw [hf] at this
            exact this
      · have : Assoc.find? (invertStep m (tgt, from_)) a' = Assoc.find? m a' := by
          unfold invertStep
          cases Assoc.find? m from_ with
          | none => exact find?_insert_other _ _ _ _ hfa
          | some ts => exact find?_insert_other _ _ _ _ hfa
        rw [this]
        exact hm a'
    · intro a' b hb
      by_cases hfa : from_ = a'
      · subst hfa
        cases hf : Assoc.find? m from_ with
        | none =>
          simp only [invertStep, hf, find?_insert_same, Option.getD_some, List.mem_singleton] at hb
          subst hb
          exact hc.1
        | some ts =>
          simp only [invertStep, hf, find?_insert_same, Option.getD_some, mem_insertSorted] at hb
          rcases hb with hb | hb
          · subst hb; exact hc.1
          · have := hfresh from_ b (by rw [hf]; exact hb)
            simp only [List.map_cons, List.mem_cons, not_or] at this
            exact this.2
      · have : Assoc.find? (invertStep m (tgt, from_)) a' = Assoc.find? m a' := by
          unfold invertStep
          cases Assoc.find? m from_ with
          | none => exact find?_insert_other _ _ _ _ hfa
          | some ts => exact find?_insert_other _ _ _ _ hfa
        rw [this] at hb
        have := hfresh a' b hb
        simp only [List.map_cons, List.mem_cons, not_or] at this
        exact this.2

theorem invert_nodup (c : List (Nat × Nat)) (hc : (c.map Prod.fst).Nodup) (a : Nat) :
    ((Assoc.find? (invertSkips c) a).getD []).Nodup :=
  invert_fold_nodup c [] hc (fun _ => by simp [Assoc.find?]) (fun _ _ h => by simp [Assoc.find?] at h) a

end SkipTable
