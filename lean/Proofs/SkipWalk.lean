import Proofs.Chain
import Proofs.ChainLinks

/-!
# A network with one additive skip connection, on the model's own folds (C16 / C01)

`head`, then `mid` whose first layer is the skip's source, then `tail` whose first layer is the skip's
target: the target processes `mid(y) + y` with `y = head(x)`.  `Network.forward` records that, and
`Network.backward` — which hands the source the gradient that came back through `mid` *plus* the gradient
with respect to the input the target processed — returns the gradient of the objective.
-/

set_option linter.unusedSectionVars false
set_option linter.unusedVariables false

namespace SkipWalk
open Network Scalar VJP Walk LoopSpec DenseStack LayerChain

/-! ### stretches of layers that no skip connection touches -/

/-- forward: positions without a skip target are plain `_forward` steps -/
theorem forward_free (n : Network ℝ) (hl : n.loopbacks = []) :
    ∀ (ls : List (Layer ℝ)) (k : Nat) (t : Trace ℝ) (x : Tensor ℝ),
    t.act.getLast? = some x → t.act.length = k + 1 →
    (∀ i, k ≤ i → i < k + ls.length → Assoc.find? n.connect i = none) →
    (List.zip (List.range' k ls.length) ls).foldl (forwardLayer n) (.ok t) =
      match ls.foldl rangeStep (.ok ([], [], [], x)) with
      | .error e => .error e
      | .ok (p, q, r, _) => .ok { pre := t.pre ++ p, act := t.act ++ q, recs := t.recs ++ r }
  | [], k, t, x, _, _, _ => by simp
  | l :: ls, k, t, x, hx, hlen, hfree => by
    simp only [List.length_cons, List.range'_succ, List.zip_cons_cons, List.foldl_cons]
    have hin : skipInput n t.act k = .ok x := by
      have hg : L.get t.act k = .ok x := FeedbackSpec.get_last _ _ _ (by omega) hx
      simp [skipInput, hg, hfree k (Nat.le_refl _) (by simp)]
    simp only [forwardLayer, hin, rangeStep]
    cases hf : layerForward l x with
    | error e => simp only []; rw [forwardFold_error, rangeFold_error]
    | ok r =>
      obtain ⟨pre, post, rc⟩ := r
      simp only [hl, Assoc.find?]
      rw [forward_free n hl ls (k + 1) _ post (by simp) (by simp [hlen])
        (fun i h1 h2 => hfree i (by omega) (by simp only [List.length_cons]; omega)),
        rangeFold_prefix ls ([] ++ [pre]) ([] ++ [post]) ([] ++ [rc]) post]
      cases ls.foldl rangeStep (.ok ([], [], [], post)) with
      | error e => rfl
      | ok st =>
        obtain ⟨p, q, r, y⟩ := st
        simp [List.append_assoc]

/-- lift a `backSpec` result onto a walk state -/
def onState (st : BackState ℝ) (r : Except Err (List (WGrad ℝ) × List (BGrad ℝ) × List (Tensor ℝ))) :
    Except Err (BackState ℝ) :=
  match r with
  | .error e => .error e
  | .ok (ws, bs, gs) => .ok (st.1 ++ ws, st.2.1 ++ bs, st.2.2.1 ++ gs, st.2.2.2 ++ gs)

/-- backward: positions that are neither a skip target nor a skip source are plain reverse-walk steps;
    the processed-input gradients recorded are the gradients handed on -/
theorem back_free (n : Network ℝ) (t : Trace ℝ) (inv : List (Nat × List Nat)) :
    ∀ (ils : List (Nat × Layer ℝ)) (wgs : List (WGrad ℝ)) (bgs : List (BGrad ℝ)) (grads processed : List (Tensor ℝ)) (g : Tensor ℝ),
    grads.getLast? = some g →
    (∀ il ∈ ils, Assoc.find? n.connect il.1 = none ∧ Assoc.find? inv il.1 = none) →
    ils.foldl (backwardStep n t inv) (.ok (wgs, bgs, grads, processed)) =
      onState (wgs, bgs, grads, processed) (backSpec t ils g)
  | [], wgs, bgs, grads, processed, g, _, _ => by simp [backSpec, onState]
  | il :: rest, wgs, bgs, grads, processed, g, hg, hfree => by
    obtain ⟨hc, hi⟩ := hfree il (List.mem_cons_self ..)
    simp only [List.foldl_cons, backSpec]
    have hsk : skipInput n t.act il.1 = L.get t.act il.1 := by
      simp only [skipInput, hc]
      cases L.get t.act il.1 <;> rfl
    simp only [backwardStep, hsk, hg]
    cases hin : L.get t.act il.1 with
    | error e => simp only [onState]; rw [backFold_error]
    | ok input =>
      cases ho : L.get t.pre il.1 with
      | error e => simp only [onState]; rw [backFold_error]
      | ok output =>
        simp only []
        cases hb : layerBackward il.2 g input output (L.get t.recs il.1) with
        | error e => simp only [onState]; rw [backFold_error]
        | ok r =>
          obtain ⟨ig, wg, bg⟩ := r
          simp only [hi]
          rw [back_free n t inv rest (wgs ++ [wg]) (bgs ++ [bg]) (grads ++ [ig]) (processed ++ [ig]) ig (by simp)
            (fun il' h' => hfree il' (List.mem_cons_of_mem _ h'))]
          cases backSpec t rest ig with
          | error e => rfl
          | ok st =>
            obtain ⟨ws, bs, gs⟩ := st
            simp [onState, List.append_assoc]

/-! ### the setting -/

/-- what the skip needs of the encoding at its two ends: adding encoded vectors is adding the vectors,
    all encoded vectors have one shape, reshaping to that shape changes nothing -/
structure EncAdd {m : Idx} (em : Enc m) : Prop where
  add : ∀ u v, (em u).add (em v) = .ok (em (u + v))
  shape : ∀ u v, (em u).shape = (em v).shape
  reshape : ∀ u v, (em u).reshape (em v).shape = .ok (em u)

theorem zip_range'_append {β : Type} (A B : List β) (k : Nat) :
    List.zip (List.range' k (A ++ B).length) (A ++ B) =
      List.zip (List.range' k A.length) A ++ List.zip (List.range' (k + A.length) B.length) B := by
  induction A generalizing k with
  | nil => simp
  | cons a A ih =>
    simp only [List.cons_append, List.length_cons, List.range'_succ, List.zip_cons_cons]
    rw [ih (k + 1)]
    simp [Nat.add_assoc, Nat.add_comm 1]

variable {a m b d c : Idx} {ea : Enc a} {em : Enc m} {eb : Enc b} {ed : Enc d} {ec : Enc c}

section
variable (em)
variable (head : Chain a ea m em)
  (lm : Layer ℝ) (fm : V m.T → V b.T) (bm : V m.T → V b.T → V m.T) (prem : V m.T → Tensor ℝ) (rcm : V m.T → Recorded ℝ)
  (wgm : V m.T → V b.T → WGrad ℝ × BGrad ℝ) (midr : Chain b eb m em)
  (lt : Layer ℝ) (ft : V m.T → V d.T) (bt : V m.T → V d.T → V m.T) (pret : V m.T → Tensor ℝ) (rct : V m.T → Recorded ℝ)
  (wgt : V m.T → V d.T → WGrad ℝ × BGrad ℝ) (tailr : Chain d ed c ec)

/-- the part the skip goes around (its first layer is the skip's source) -/
abbrev midC : Chain m em m em := .cons lm fm bm prem rcm wgm midr
/-- the part after it (its first layer is the skip's target) -/
abbrev tailC : Chain m em c ec := .cons lt ft bt pret rct wgt tailr

/-- the network function: `tail (mid (head x) + head x)` -/
def skipFn (x : V a.T) : V c.T :=
  (gnet (tailC em lt ft bt pret rct wgt tailr)).fwd
    ((gnet (midC em lm fm bm prem rcm wgm midr)).fwd ((gnet head).fwd x) + (gnet head).fwd x)

/-- the trace `Network.forward` records -/
def skipTrace (x : V a.T) : Trace ℝ :=
  let y := (gnet head).fwd x
  let p := (gnet (midC em lm fm bm prem rcm wgm midr)).fwd y + y
  { pre := pres head x ++ pres (midC em lm fm bm prem rcm wgm midr) y ++ pres (tailC em lt ft bt pret rct wgt tailr) p,
    act := ea x :: (acts head x ++ acts (midC em lm fm bm prem rcm wgm midr) y ++ acts (tailC em lt ft bt pret rct wgt tailr) p),
    recs := recs head x ++ recs (midC em lm fm bm prem rcm wgm midr) y ++ recs (tailC em lt ft bt pret rct wgt tailr) p }

/-- the network: the three parts in sequence, one additive skip from the first layer of `mid` to the
    first layer of `tail`, no loop connections -/
structure IsSkipNet (n : Network ℝ) : Prop where
  layers : n.layers = LayerChain.layers head ++ LayerChain.layers (midC em lm fm bm prem rcm wgm midr) ++
    LayerChain.layers (tailC em lt ft bt pret rct wgt tailr)
  connect : n.connect = [((LayerChain.layers head).length + (LayerChain.layers (midC em lm fm bm prem rcm wgm midr)).length,
    (LayerChain.layers head).length)]
  acc : n.skipaccumulation = .add
  loopbacks : n.loopbacks = []

/-- **forward**: the target processes the sum of its ordinary input and the source's input -/
theorem forward_skip (n : Network ℝ) (hn : IsSkipNet em head lm fm bm prem rcm wgm midr lt ft bt pret rct wgt tailr n)
    (he : EncAdd em) (x : V a.T)
    (hrh : Real head x) (hrm : Real (midC em lm fm bm prem rcm wgm midr) ((gnet head).fwd x))
    (hrt : Real (tailC em lt ft bt pret rct wgt tailr)
      ((gnet (midC em lm fm bm prem rcm wgm midr)).fwd ((gnet head).fwd x) + (gnet head).fwd x)) :
    n.forward (ea x) = .ok (skipTrace em head lm fm bm prem rcm wgm midr lt ft bt pret rct wgt tailr x) := by
  set y := (gnet head).fwd x with hy
  set z := (gnet (midC em lm fm bm prem rcm wgm midr)).fwd y with hz
  have hlh := lengths head x
  have hlm := lengths (midC em lm fm bm prem rcm wgm midr) y
  set sa := (LayerChain.layers head).length with hsa
  set sb := sa + (LayerChain.layers (midC em lm fm bm prem rcm wgm midr)).length with hsb
  have hfind : ∀ i, i ≠ sb → Assoc.find? n.connect i = none := by
    intro i hi
    rw [hn.connect]
    simp only [Assoc.find?]
    rw [if_neg (fun h => hi h.symm)]
  unfold Network.forward
  rw [hn.layers, List.range_eq_range', zip_range'_append, List.foldl_append, zip_range'_append, List.foldl_append]
  -- the head
  rw [forward_free n hn.loopbacks (LayerChain.layers head) 0 _ (ea x) rfl rfl
    (fun i _ h2 => hfind i (by simp only [Nat.zero_add] at h2; omega)), LayerChain.forward_fold head x hrh]
  simp only [List.nil_append, Nat.zero_add]
  -- the part the skip goes around
  rw [forward_free n hn.loopbacks (LayerChain.layers (midC em lm fm bm prem rcm wgm midr)) sa _ (em y)
    (by simpa using acts_last head x) (by simp [hlh.2.1])
    (fun i _ h2 => hfind i (by omega)), LayerChain.forward_fold _ y hrm]
  simp only []
  -- the target
  simp only [LayerChain.layers, List.length_cons, List.range'_succ, List.zip_cons_cons, List.foldl_cons]
  have hact_sb : L.get ([ea x] ++ acts head x ++ acts (midC em lm fm bm prem rcm wgm midr) y) sb = .ok (em z) := by
    apply FeedbackSpec.get_last
    · simp [hlh.2.1, hlm.2.1, hsb]
    · have := acts_last (midC em lm fm bm prem rcm wgm midr) y
      rw [List.getLast?_append]
      rw [List.getLast?_cons] at this
      cases hq : (acts (midC em lm fm bm prem rcm wgm midr) y).getLast? with
      | none => simp [acts] at hq
      | some v =>
        rw [hq] at this
        simp only [Option.getD_some, Option.some.injEq] at this
        simp [this, hz]
  have hact_sa : L.get ([ea x] ++ acts head x ++ acts (midC em lm fm bm prem rcm wgm midr) y) sa = .ok (em y) := by
    have h1 : L.get ([ea x] ++ acts head x) sa = .ok (em y) :=
      FeedbackSpec.get_last _ _ _ (by simp [hlh.2.1]) (by simpa using acts_last head x)
    simp only [L.get, L.get?_eq] at h1 ⊢
    rw [List.getElem?_append_left (by simp [hlh.2.1])]
    exact h1
  have hskip : skipInput n ([ea x] ++ acts head x ++ acts (midC em lm fm bm prem rcm wgm midr) y) sb = .ok (em (z + y)) := by
    have hf : Assoc.find? n.connect sb = some sa := by
      rw [hn.connect]; simp [Assoc.find?, hsb, hsa]
    simp only [skipInput, hact_sb, hf, hact_sa, he.shape y z, ne_eq, not_true_eq_false, ↓reduceIte, hn.acc, accumulate1,
      he.add]
  have hidx : (LayerChain.layers head ++ lm :: LayerChain.layers midr).length = sb := by
    simp [hsb, hsa, LayerChain.layers]
  simp only [hidx, Nat.zero_add]
  simp only [forwardLayer, hskip, hrt.1, hn.loopbacks, Assoc.find?]
  -- the rest of the tail
  have hlt := lengths tailr (ft (z + y))
  rw [forward_free n hn.loopbacks (LayerChain.layers tailr) (sb + 1) _ (ed (ft (z + y)))
    (by simp only [List.getLast?_append, List.getLast?_singleton]; rfl)
    (by simp [hlh.2.1, hlm.2.1, hsb]; omega)
    (fun i h1 _ => hfind i (by omega)), LayerChain.forward_fold tailr _ hrt.2.2]
  simp [skipTrace, pres, acts, recs, List.append_assoc, hy, hz]

/-- the reverse-mode function: the source receives what came back through `mid` plus the gradient with
    respect to the input the target processed -/
def skipBwd (x : V a.T) (g : V c.T) : V a.T :=
  let y := (gnet head).fwd x
  let p := (gnet (midC em lm fm bm prem rcm wgm midr)).fwd y + y
  let δ := (gnet (tailC em lt ft bt pret rct wgt tailr)).bwd p g
  (gnet head).bwd x ((gnet (midC em lm fm bm prem rcm wgm midr)).bwd y δ + δ)

theorem getElem?_three {β : Type} (A B C : List β) (v : β) : (A ++ (v :: B) ++ C)[A.length]? = some v := by
  rw [List.getElem?_append_left (by simp), List.getElem?_append_right (by omega)]
  simp

/-- **backward**: the reverse walk over the recorded trace ends in `skipBwd` -/
theorem backward_skip (n : Network ℝ) (hn : IsSkipNet em head lm fm bm prem rcm wgm midr lt ft bt pret rct wgt tailr n)
    (he : EncAdd em) (x : V a.T) (g : V c.T)
    (hrh : Real head x) (hrm : Real (midC em lm fm bm prem rcm wgm midr) ((gnet head).fwd x))
    (hrt : Real (tailC em lt ft bt pret rct wgt tailr)
      ((gnet (midC em lm fm bm prem rcm wgm midr)).fwd ((gnet head).fwd x) + (gnet head).fwd x)) :
    ∃ ws bs gs, n.backward (ec g) (skipTrace em head lm fm bm prem rcm wgm midr lt ft bt pret rct wgt tailr x) = .ok (ws, bs, gs) ∧
      gs.getLast? = some (ea (skipBwd em head lm fm bm prem rcm wgm midr lt ft bt pret rct wgt tailr x g)) := by
  set T := skipTrace em head lm fm bm prem rcm wgm midr lt ft bt pret rct wgt tailr x with hT
  set y := (gnet head).fwd x with hy
  set z := (gnet (midC em lm fm bm prem rcm wgm midr)).fwd y with hz
  have hlh := lengths head x
  have hlmr := lengths midr (fm y)
  have hltr := lengths tailr (ft (z + y))
  set sa := (LayerChain.layers head).length with hsa
  set nm := (LayerChain.layers midr).length with hnm
  set nt := (LayerChain.layers tailr).length with hnt
  -- the recorded trace, position by position
  have hTact : T.act = (ea x :: acts head x) ++ (eb (fm y) :: acts midr (fm y)) ++ (ed (ft (z + y)) :: acts tailr (ft (z + y))) := by
    simp [hT, skipTrace, acts, hy, hz, gnet, GNet.fwd]
  have hTpre : T.pre = pres head x ++ (prem y :: pres midr (fm y)) ++ (pret (z + y) :: pres tailr (ft (z + y))) := by
    simp [hT, skipTrace, pres, hy, hz, gnet, GNet.fwd]
  have hTrec : T.recs = recs head x ++ (rcm y :: recs midr (fm y)) ++ (rct (z + y) :: recs tailr (ft (z + y))) := by
    simp [hT, skipTrace, recs, hy, hz, gnet, GNet.fwd]
  -- the table of backward
  have hinv : invertSkips n.connect = [(sa, [sa + (nm + 1)])] := by
    rw [hn.connect]
    simp [invertSkips, invertStep, Assoc.find?, Assoc.insert, LayerChain.layers, hsa, hnm]
  have hconn : ∀ i, i ≠ sa + (nm + 1) → Assoc.find? n.connect i = none := by
    intro i hi
    rw [hn.connect]
    simp only [Assoc.find?]
    split
    · rename_i h
      simp only [LayerChain.layers, List.length_cons] at h
      omega
    · rfl
  have hinvn : ∀ i, i ≠ sa → Assoc.find? [(sa, [sa + (nm + 1)])] i = none := by
    intro i hi
    simp only [Assoc.find?]
    split
    · rename_i h; omega
    · rfl
  -- the reversed position list, in the five stretches of the walk
  have hzip : (List.zip (List.range n.layers.length) n.layers).reverse =
      (List.zip (List.range' (sa + (nm + 1) + 1) nt) (LayerChain.layers tailr)).reverse ++ [(sa + (nm + 1), lt)] ++
      (List.zip (List.range' (sa + 1) nm) (LayerChain.layers midr)).reverse ++ [(sa, lm)] ++
      (List.zip (List.range' 0 sa) (LayerChain.layers head)).reverse := by
    rw [hn.layers, List.range_eq_range', zip_range'_append, zip_range'_append]
    simp only [LayerChain.layers, List.length_cons, List.range'_succ, List.zip_cons_cons, List.reverse_append,
      List.reverse_cons, List.length_append, Nat.zero_add]
    simp [List.append_assoc, hsa, hnm, hnt, Nat.add_assoc]
  -- positions of a stretch
  have hmemzip : ∀ (k len : Nat) (ls : List (Layer ℝ)) (il : Nat × Layer ℝ),
      il ∈ (List.zip (List.range' k len) ls).reverse → k ≤ il.1 ∧ il.1 < k + len := by
    intro k len ls il hil
    rw [List.mem_reverse] at hil
    have := (List.of_mem_zip hil).1
    rw [List.mem_range'_1] at this
    exact this
  -- 1. the layers after the target
  have hlast : ∀ (gs : List (Tensor ℝ)) (g0 v : Tensor ℝ) (pre : List (Tensor ℝ)), gs.getLast?.getD g0 = v →
      (pre ++ [g0] ++ gs).getLast? = some v := by
    intro gs g0 v pre h
    rw [List.getLast?_append]
    cases hq : gs.getLast? with
    | none => rw [hq] at h; simp at h; simp [h]
    | some w => rw [hq] at h; simp at h; simp [h]
  obtain ⟨ws1, bs1, gs1, h11, h12, h13, _⟩ := back_walk tailr (ft (z + y)) g (sa + (nm + 1) + 1) T
    ((ea x :: acts head x) ++ (eb (fm y) :: acts midr (fm y)))
    (pres head x ++ (prem y :: pres midr (fm y)) ++ [pret (z + y)])
    (recs head x ++ (rcm y :: recs midr (fm y)) ++ [rct (z + y)]) [] [] [] hrt.2.2
    (by simp [hlh.2.1, hlmr.2.1]; try omega) (by simp [hlh.1, hlmr.1]; try omega) (by simp [hlh.2.2, hlmr.2.2]; try omega)
    (by rw [hTact]; simp) (by rw [hTpre]; simp) (by rw [hTrec]; simp)
  have hstep1 := back_free n T [(sa, [sa + (nm + 1)])]
    (List.zip (List.range' (sa + (nm + 1) + 1) nt) (LayerChain.layers tailr)).reverse [] [] [ec g] [ec g] (ec g) rfl
    (fun il hil => by
      have := hmemzip _ _ _ il hil
      exact ⟨hconn il.1 (by omega), hinvn il.1 (by omega)⟩)
  rw [h11] at hstep1
  simp only [onState, List.nil_append] at hstep1
  -- 2. the target
  set δt := (gnet tailr).bwd (ft (z + y)) g with hδt
  have hget_sb : L.get T.act (sa + (nm + 1)) = .ok (em z) := by
    rw [hTact]
    simp only [L.get, L.get?_eq]
    rw [List.getElem?_append_left (by simp [hlh.2.1, hlmr.2.1]; try omega)]
    have hz' : (eb (fm y) :: acts midr (fm y)).getLast? = some (em z) := by
      have := acts_last (midC em lm fm bm prem rcm wgm midr) y
      simp only [acts] at this
      rw [List.getLast?_cons_cons] at this
      exact this
    have := FeedbackSpec.get_last ((ea x :: acts head x) ++ (eb (fm y) :: acts midr (fm y))) (em z) (sa + (nm + 1))
      (by simp [hlh.2.1, hlmr.2.1]; try omega) (by rw [List.getLast?_append, hz']; rfl)
    simp only [L.get, L.get?_eq] at this
    cases hq : ((ea x :: acts head x) ++ (eb (fm y) :: acts midr (fm y)))[sa + (nm + 1)]? with
    | none => rw [hq] at this; cases this
    | some v => rw [hq] at this; simp only [Except.ok.injEq] at this; rw [this]
  have hget_sa : L.get T.act sa = .ok (em y) := by
    rw [hTact]
    simp only [L.get, L.get?_eq]
    rw [List.getElem?_append_left (by simp [hlh.2.1]; try omega), List.getElem?_append_left (by simp [hlh.2.1])]
    have := FeedbackSpec.get_last (ea x :: acts head x) (em y) sa (by simp [hlh.2.1]) (acts_last head x)
    simp only [L.get, L.get?_eq] at this
    cases hq : (ea x :: acts head x)[sa]? with
    | none => rw [hq] at this; cases this
    | some v => rw [hq] at this; simp only [Except.ok.injEq] at this; rw [this]
  have hskip2 : skipInput n T.act (sa + (nm + 1)) = .ok (em (z + y)) := by
    have hf : Assoc.find? n.connect (sa + (nm + 1)) = some sa := by
      rw [hn.connect]; simp [Assoc.find?, LayerChain.layers, hsa, hnm]
    simp only [skipInput, hget_sb, hf, hget_sa, he.shape y z, ne_eq, not_true_eq_false, ↓reduceIte, hn.acc, accumulate1,
      he.add]
  have hpre2 : L.get T.pre (sa + (nm + 1)) = .ok (pret (z + y)) := by
    rw [hTpre]
    simp only [L.get, L.get?_eq]
    have : sa + (nm + 1) = (pres head x ++ (prem y :: pres midr (fm y))).length := by simp [hlh.1, hlmr.1]
    rw [this, List.getElem?_append_right (Nat.le_refl _)]
    simp
  have hrec2 : L.get T.recs (sa + (nm + 1)) = .ok (rct (z + y)) := by
    rw [hTrec]
    simp only [L.get, L.get?_eq]
    have : sa + (nm + 1) = (recs head x ++ (rcm y :: recs midr (fm y))).length := by simp [hlh.2.2, hlmr.2.2]
    rw [this, List.getElem?_append_right (Nat.le_refl _)]
    simp
  set δ := bt (z + y) δt with hδ
  have hstep2 : backwardStep n T [(sa, [sa + (nm + 1)])] (.ok (ws1, bs1, [ec g] ++ gs1, [ec g] ++ gs1)) (sa + (nm + 1), lt) =
      .ok (ws1 ++ [(wgt (z + y) δt).1], bs1 ++ [(wgt (z + y) δt).2], [ec g] ++ gs1 ++ [em δ], [ec g] ++ gs1 ++ [em δ]) := by
    have hl := hlast gs1 (ec g) (ed δt) [] h12
    simp only [List.nil_append] at hl
    simp only [backwardStep, hskip2, hpre2, hl, hrec2, hrt.2.1 δt, hinvn _ (by omega : sa + (nm + 1) ≠ sa)]
    rfl
  -- 3. the rest of the part the skip goes around
  obtain ⟨ws3, bs3, gs3, h31, h32, h33, _⟩ := back_walk midr (fm y) δ (sa + 1) T
    (ea x :: acts head x) (pres head x ++ [prem y]) (recs head x ++ [rcm y])
    (ed (ft (z + y)) :: acts tailr (ft (z + y))) (pret (z + y) :: pres tailr (ft (z + y)))
    (rct (z + y) :: recs tailr (ft (z + y))) hrm.2.2
    (by simp [hlh.2.1]) (by simp [hlh.1]) (by simp [hlh.2.2])
    (by rw [hTact]) (by rw [hTpre]; simp) (by rw [hTrec]; simp)
  have hstep3 := back_free n T [(sa, [sa + (nm + 1)])]
    (List.zip (List.range' (sa + 1) nm) (LayerChain.layers midr)).reverse
    (ws1 ++ [(wgt (z + y) δt).1]) (bs1 ++ [(wgt (z + y) δt).2]) ([ec g] ++ gs1 ++ [em δ]) ([ec g] ++ gs1 ++ [em δ]) (em δ)
    (by rw [List.getLast?_append]; rfl)
    (fun il hil => by
      have := hmemzip _ _ _ il hil
      exact ⟨hconn il.1 (by omega), hinvn il.1 (by omega)⟩)
  rw [h31] at hstep3
  simp only [onState] at hstep3
  -- 4. the source
  set δm := (gnet midr).bwd (fm y) δ with hδm
  set ig := bm y δm with hig
  have hpre4 : L.get T.pre sa = .ok (prem y) := by
    rw [hTpre]
    simp only [L.get, L.get?_eq]
    rw [List.getElem?_append_left (by simp [hlh.1]), ← hlh.1, List.getElem?_append_right (Nat.le_refl _)]
    simp
  have hrec4 : L.get T.recs sa = .ok (rcm y) := by
    rw [hTrec]
    simp only [L.get, L.get?_eq]
    rw [List.getElem?_append_left (by simp [hlh.2.2]), ← hlh.2.2, List.getElem?_append_right (Nat.le_refl _)]
    simp
  have hNlen : n.layers.length = sa + (nm + 1) + (nt + 1) := by
    rw [hn.layers]; simp [LayerChain.layers, hsa, hnm, hnt]; omega
  have hstep4 : backwardStep n T [(sa, [sa + (nm + 1)])]
      (.ok (ws1 ++ [(wgt (z + y) δt).1] ++ ws3, bs1 ++ [(wgt (z + y) δt).2] ++ bs3, [ec g] ++ gs1 ++ [em δ] ++ gs3,
        [ec g] ++ gs1 ++ [em δ] ++ gs3)) (sa, lm) =
      .ok (ws1 ++ [(wgt (z + y) δt).1] ++ ws3 ++ [(wgm y δm).1], bs1 ++ [(wgt (z + y) δt).2] ++ bs3 ++ [(wgm y δm).2],
        [ec g] ++ gs1 ++ [em δ] ++ gs3 ++ [em (ig + δ)], [ec g] ++ gs1 ++ [em δ] ++ gs3 ++ [em ig]) := by
    have hl := hlast gs3 (em δ) (eb δm) ([ec g] ++ gs1) h32
    have hsk : skipInput n T.act sa = .ok (em y) := by
      simp only [skipInput, hget_sa, hconn sa (by omega)]
    have hproc : L.get ([ec g] ++ gs1 ++ [em δ] ++ gs3) (nt + 1) = .ok (em δ) := by
      simp only [L.get, L.get?_eq]
      have : nt + 1 = ([ec g] ++ gs1).length := by simp [h13]; omega
      rw [List.append_assoc ([ec g] ++ gs1), this, List.getElem?_append_right (Nat.le_refl _)]
      simp
    have hfind : Assoc.find? [(sa, [sa + (nm + 1)])] sa = some [sa + (nm + 1)] := by simp [Assoc.find?]
    have hsub : checkedSub n.layers.length (sa + (nm + 1)) = .ok (nt + 1) := by
      rw [hNlen]; simp [checkedSub]
    simp only [backwardStep, hsk, hpre4, hl, hrec4, hrm.2.1 δm, hfind, List.foldl_cons, List.foldl_nil, addSkipGradient,
      hsub, hproc]
    rw [if_neg (by omega)]
    simp only [he.reshape, he.add]
    rfl
  -- 5. the head
  obtain ⟨ws5, bs5, gs5, h51, h52, h53, _⟩ := back_walk head x (ig + δ) 0 T [] [] []
    ((eb (fm y) :: acts midr (fm y)) ++ (ed (ft (z + y)) :: acts tailr (ft (z + y))))
    ((prem y :: pres midr (fm y)) ++ (pret (z + y) :: pres tailr (ft (z + y))))
    ((rcm y :: recs midr (fm y)) ++ (rct (z + y) :: recs tailr (ft (z + y)))) hrh rfl rfl rfl
    (by rw [hTact]; simp) (by rw [hTpre]; simp) (by rw [hTrec]; simp)
  have hstep5 := back_free n T [(sa, [sa + (nm + 1)])]
    (List.zip (List.range' 0 sa) (LayerChain.layers head)).reverse
    (ws1 ++ [(wgt (z + y) δt).1] ++ ws3 ++ [(wgm y δm).1]) (bs1 ++ [(wgt (z + y) δt).2] ++ bs3 ++ [(wgm y δm).2])
    ([ec g] ++ gs1 ++ [em δ] ++ gs3 ++ [em (ig + δ)]) ([ec g] ++ gs1 ++ [em δ] ++ gs3 ++ [em ig]) (em (ig + δ))
    (by rw [List.getLast?_append]; rfl)
    (fun il hil => by
      have := hmemzip _ _ _ il hil
      exact ⟨hconn il.1 (by omega), hinvn il.1 (by omega)⟩)
  rw [h51] at hstep5
  simp only [onState] at hstep5
  -- assemble
  refine ⟨ws1 ++ [(wgt (z + y) δt).1] ++ ws3 ++ [(wgm y δm).1] ++ ws5,
    bs1 ++ [(wgt (z + y) δt).2] ++ bs3 ++ [(wgm y δm).2] ++ bs5,
    [ec g] ++ gs1 ++ [em δ] ++ gs3 ++ [em (ig + δ)] ++ gs5, ?_, ?_⟩
  · unfold Network.backward
    rw [hinv, hzip]
    simp only [List.foldl_append, List.foldl_cons, List.foldl_nil, hstep1, hstep2, hstep3, hstep4, hstep5]
  · have := hlast gs5 (em (ig + δ)) _ ([ec g] ++ gs1 ++ [em δ] ++ gs3) h52
    simp only [List.append_assoc] at this ⊢
    rw [this]
    simp only [skipBwd, hig, hδm, hδ, hδt, gnet, GNet.bwd, hy, hz]

/-- the reverse-mode function is the transposed Jacobian of the network function -/
theorem skip_isVJP (x : V a.T) (hh : (gnet head).Ok x)
    (hm : (gnet (midC em lm fm bm prem rcm wgm midr)).Ok ((gnet head).fwd x))
    (ht : (gnet (tailC em lt ft bt pret rct wgt tailr)).Ok
      ((gnet (midC em lm fm bm prem rcm wgm midr)).fwd ((gnet head).fwd x) + (gnet head).fwd x)) :
    IsVJP (skipFn em head lm fm bm prem rcm wgm midr lt ft bt pret rct wgt tailr) x
      (skipBwd em head lm fm bm prem rcm wgm midr lt ft bt pret rct wgt tailr x) := by
  have h1 := GNet.vjp (gnet head) x hh
  have h2 := IsVJP.add_skip (GNet.vjp (gnet (midC em lm fm bm prem rcm wgm midr)) _ hm)
  have h3 := GNet.vjp (gnet (tailC em lt ft bt pret rct wgt tailr)) _ ht
  have h12 := IsVJP.comp h1 h2
  have h123 := IsVJP.comp h12 h3
  exact h123

/-- **a network with one additive skip connection, end to end on the model's own folds**: forward ends in
    `tail (mid (head x) + head x)`; the last gradient backward hands on is the gradient of the objective with
    respect to the network input -/
theorem skip_network_gradient (n : Network ℝ) (hn : IsSkipNet em head lm fm bm prem rcm wgm midr lt ft bt pret rct wgt tailr n)
    (he : EncAdd em) (x : V a.T)
    (hrh : Real head x) (hrm : Real (midC em lm fm bm prem rcm wgm midr) ((gnet head).fwd x))
    (hrt : Real (tailC em lt ft bt pret rct wgt tailr)
      ((gnet (midC em lm fm bm prem rcm wgm midr)).fwd ((gnet head).fwd x) + (gnet head).fwd x))
    (hh : (gnet head).Ok x) (hm : (gnet (midC em lm fm bm prem rcm wgm midr)).Ok ((gnet head).fwd x))
    (ht : (gnet (tailC em lt ft bt pret rct wgt tailr)).Ok
      ((gnet (midC em lm fm bm prem rcm wgm midr)).fwd ((gnet head).fwd x) + (gnet head).fwd x))
    (ℓ : V c.T → ℝ) (g : V c.T)
    (hg : IsGrad ℓ (skipFn em head lm fm bm prem rcm wgm midr lt ft bt pret rct wgt tailr x) g) :
    ∃ t ws bs gs γ,
      n.forward (ea x) = .ok t ∧
      t.act.getLast? = some (ec (skipFn em head lm fm bm prem rcm wgm midr lt ft bt pret rct wgt tailr x)) ∧
      n.backward (ec g) t = .ok (ws, bs, gs) ∧ gs.getLast? = some (ea γ) ∧
      IsGrad (ℓ ∘ skipFn em head lm fm bm prem rcm wgm midr lt ft bt pret rct wgt tailr) x γ := by
  obtain ⟨ws, bs, gs, hb, hl⟩ := backward_skip em head lm fm bm prem rcm wgm midr lt ft bt pret rct wgt tailr n hn he x g hrh hrm hrt
  refine ⟨_, ws, bs, gs, _, forward_skip em head lm fm bm prem rcm wgm midr lt ft bt pret rct wgt tailr n hn he x hrh hrm hrt,
    ?_, hb, hl, IsGrad.comp_vjp (skip_isVJP em head lm fm bm prem rcm wgm midr lt ft bt pret rct wgt tailr x hh hm ht) hg⟩
  have h3 := acts_last (tailC em lt ft bt pret rct wgt tailr)
    ((gnet (midC em lm fm bm prem rcm wgm midr)).fwd ((gnet head).fwd x) + (gnet head).fwd x)
  simp only [skipTrace, skipFn]
  rw [List.getLast?_cons, List.getLast?_append]
  rw [List.getLast?_cons] at h3
  cases hq : (acts (tailC em lt ft bt pret rct wgt tailr)
      ((gnet (midC em lm fm bm prem rcm wgm midr)).fwd ((gnet head).fwd x) + (gnet head).fwd x)).getLast? with
  | none => simp [acts] at hq
  | some v => rw [hq] at h3; simp only [Option.getD_some, Option.some.injEq] at h3; simp [h3]

end

/-! ### flat vectors can be added -/

open ChainLinks DenseBridge in
theorem encAdd_vec (n : ℕ) : EncAdd (eVec n) where
  add u v := by
    simp only [eVec, Tensor.add, Tensor.zipOp, vecT, ne_eq, not_true_eq_false, ↓reduceIte, zip1_ofFn]
    rfl
  shape u v := rfl
  reshape u v := rfl

end SkipWalk

namespace SkipWalk
open ChainLinks ConvVJP ConvBridge LayerChain

/-- `c × h × w` tensors can be added: residual connections around spatial layers -/
theorem encAdd_vol (c h w : ℕ) (hc : 0 < c) (hh : 0 < h) : EncAdd (eVol c h w) where
  add u v := by
    have hz := L.zipWith3_eq_zip3 (· + ·) (toList3 u) (toList3 v) c h w (toList3_dims u) (toList3_dims v)
    simp only [eVol, T3, Tensor.add, Tensor.zipOp, ne_eq, not_true_eq_false, ↓reduceIte, ← hz]
    congr 3
    simp only [toList3, OfFn.zipWith_ofFn]
    rfl
  shape u v := rfl
  reshape u v := by
    obtain ⟨t, ht, hd, hf⟩ := L.toTriple_exact c h w (L.flatten3 (toList3 u))
      (L.length_flatten3 _ c h w (toList3_dims u))
    have : t = toList3 u := C14.dims3_flat_injective c h w _ _ hd (toList3_dims u) hf
    simp only [eVol, T3, Tensor.reshape, Tensor.getFlat, ne_eq, not_true_eq_false, ↓reduceIte, ht, this]

end SkipWalk
