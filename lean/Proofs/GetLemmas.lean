import Model.Layers

/-! # The model's checked indexing `L.get?` is core's `l[i]?` (so core's lemmas apply) -/

namespace L
variable {β : Type}

theorem get?_eq : ∀ (l : List β) (i : Nat), L.get? l i = l[i]?
  | [], _ => by simp [L.get?]
  | _ :: _, 0 => by simp [L.get?]
  | _ :: ys, n+1 => by simp [L.get?, get?_eq ys n]

theorem get3D_eq (d : β) (v : List (List (List β))) (c i j : Nat) :
    get3D d v c i j = (((v.getD c []).getD i []).getD j d) := by
  unfold get3D
  simp only [get?_eq, List.getD_eq_getElem?_getD]
  cases h1 : v[c]? with
  | none => simp
  | some m =>
    simp only [Option.getD_some]
    cases h2 : m[i]? with
    | none => simp
    | some r => simp

end L
