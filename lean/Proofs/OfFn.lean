import Mathlib.Algebra.BigOperators.Fin
import Mathlib.Data.List.OfFn
import Mathlib.Data.Real.Basic

/-! # Lists given by functions on `Fin n`: the bridge between the model's lists and vectors -/

namespace OfFn

theorem zipWith_ofFn {β γ δ : Type} {n : ℕ} (f : β → γ → δ) (a : Fin n → β) (b : Fin n → γ) :
    List.zipWith f (List.ofFn a) (List.ofFn b) = List.ofFn (fun i => f (a i) (b i)) := by
  apply List.ext_getElem
  · simp
  · intro i h1 h2
    simp

theorem sum_ofFn {n : ℕ} (f : Fin n → ℝ) : (List.ofFn f).sum = ∑ i, f i := List.sum_ofFn

theorem map_range_eq_ofFn {β : Type} (n : ℕ) (f : ℕ → β) : (List.range n).map f = List.ofFn (fun i : Fin n => f i) := by
  apply List.ext_getElem
  · simp
  · intro i h1 h2
    simp

theorem getElem?_ofFn_fin {β : Type} {n : ℕ} (f : Fin n → β) (j : Fin n) : (List.ofFn f)[(j : ℕ)]? = some (f j) := by
  rw [List.getElem?_ofFn]
  simp

theorem replicate_eq_ofFn {β : Type} (n : ℕ) (c : β) : List.replicate n c = List.ofFn (fun _ : Fin n => c) :=
  (List.ofFn_const n c).symm

end OfFn
