import Proofs.SkipLinks

/-!
# Skip connections between a flat and a spatial position of equal element count (C16)

Both positions are described over the flat index type `Fin (c*h*w)`: the flat one is encoded by `vecT`, the spatial
one by `T3 ∘ unflat` (the row-major re-indexing).  `Network::skip_input` reshapes the source to the target's shape,
`backward` reshapes the target's gradient to the source's shape; in both directions the reshape is the re-indexing,
so the connection is `Compat` with the identity on the vectors.
-/

set_option linter.unusedSectionVars false
set_option linter.unusedVariables false

namespace SkipReshape
open Network Scalar VJP LayerChain SkipWalk SkipNet ChainLinks DenseBridge DenseStack ConvVJP ConvBridge ConvNet Flat3

variable {c h w : ℕ}

/-- the encoding of a `c × h × w` position over the flat index type -/
noncomputable def eVolFlat (c h w : ℕ) : Enc (iVec (c * h * w)) := fun u => T3 (unflat (c := c) (h := h) (w := w) u)

theorem unflat_add (u v : Vec (c * h * w)) : unflat (c := c) (h := h) (w := w) (u + v) = unflat u + unflat v := rfl

/-- a flat vector reshaped to `c × h × w` is its row-major re-indexing -/
theorem reshape_vecT (u : Vec (c * h * w)) : (vecT u).reshape (.triple c h w) = .ok (T3 (unflat u)) := by
  have hg := getTriple_vecT (c := c) (h := h) (w := w) u
  obtain ⟨t, ht, hd, hf⟩ := L.toTriple_exact c h w (List.ofFn u) (by simp)
  have hfl : L.flatten3 (toList3 (unflat u)) = List.ofFn u := by
    rw [flatten3_toList3]
    congr 1
    funext k
    simp [unflat]
  have : t = toList3 (unflat u) := C14.dims3_flat_injective c h w _ _ hd (toList3_dims _) (by rw [hf, hfl])
  simp only [vecT, Tensor.reshape, Tensor.getFlat, ne_eq, not_true_eq_false, ↓reduceIte, ht, this]
  rfl

/-- a `c × h × w` tensor reshaped to a flat vector is its row-major sequence -/
theorem reshape_T3 (v : V (I3 c h w)) (hc : 0 < c) (hh : 0 < h) : (T3 v).reshape (.single (c * h * w)) = .ok (vecT (flat v)) := by
  have := flatten_T3 v hc hh
  simp only [T3, Tensor.reshape, ne_eq, not_true_eq_false, ↓reduceIte] at this ⊢
  exact this

/-- a spatial target fed by a flat source -/
theorem compat_vol_flat (hc : 0 < c) (hh : 0 < h) : Compat (eVolFlat c h w) (eVec (c * h * w)) where
  fwd u v := ⟨T3 (unflat v), by
    have hne : (eVec (c * h * w) v).shape ≠ (eVolFlat c h w u).shape := by simp [eVec, eVolFlat, vecT, T3]
    rw [if_pos hne]
    exact reshape_vecT v, by
    have := (encAdd_vol c h w hc hh).add (unflat u) (unflat v)
    simp only [eVol] at this
    simp only [eVolFlat, unflat_add]
    exact this⟩
  bwd u v := ⟨vecT v, by
    have := reshape_T3 (unflat (c := c) (h := h) (w := w) v) hc hh
    rw [flat_unflat] at this
    exact this, (encAdd_vec (c * h * w)).add u v⟩
  self heq u v := by
    exfalso
    have := congrFun heq 0
    simp [eVolFlat, eVec, T3, vecT] at this

/-- a flat target fed by a spatial source -/
theorem compat_flat_vol (hc : 0 < c) (hh : 0 < h) : Compat (eVec (c * h * w)) (eVolFlat c h w) where
  fwd u v := ⟨vecT v, by
    have hne : (eVolFlat c h w v).shape ≠ (eVec (c * h * w) u).shape := by simp [eVec, eVolFlat, vecT, T3]
    rw [if_pos hne]
    have := reshape_T3 (unflat (c := c) (h := h) (w := w) v) hc hh
    rw [flat_unflat] at this
    exact this, (encAdd_vec (c * h * w)).add u v⟩
  bwd u v := ⟨T3 (unflat v), reshape_vecT v, by
    have := (encAdd_vol c h w hc hh).add (unflat u) (unflat v)
    simp only [eVol] at this
    simp only [eVolFlat, unflat_add]
    exact this⟩
  self heq u v := by
    exfalso
    have := congrFun heq 0
    simp [eVolFlat, eVec, T3, vecT] at this

/-- a shape-preserving convolution whose output is flattened (a dense layer follows), over the flat index type:
    input encoded as `c × h × w`, output as a flat vector -/
noncomputable def convFlatLink {kh kw : ℕ} (q : Conv ℝ × Act × V (I4 c c kh kw)) : Link (iVec (c * h * w)) where
  l := .conv q.1
  f := fun u => flat (convFn q.1 q.2.1 q.2.2 h w h w (unflat u))
  b := fun u g => flat (convBwdX q.1 q.2.1 q.2.2 h w h w (unflat u) (unflat g))
  pre := fun u => T3 (ConvBridge.pre q.1 q.2.2 h w h w (unflat u))
  rc := fun _ => .none
  wg := fun u g => (.one (T4 (convBwdKer q.1 q.2.1 q.2.2 h w h w (unflat u) (unflat g))), .one none)

theorem convFlatLink_real {kh kw : ℕ} (q : Conv ℝ × Act × V (I4 c c kh kw)) (hl : IsConv q.1 q.2.1 q.2.2 h w h w)
    (ha : q.2.1 ≠ .softmax) (hf : q.1.flatten = true) (p : Vec (c * h * w)) :
    (convFlatLink (h := h) (w := w) q).Real (eVolFlat c h w) (eVec (c * h * w)) p := by
  have r := real_conv_flat q.1 q.2.1 q.2.2 hl ha hf (unflat p)
  refine ⟨r.1, fun g => ?_⟩
  have := r.2 g
  simp only [convFlatLink, eVolFlat, eVec, unflat_flat]
  exact this

theorem convFlatLink_vjp {kh kw : ℕ} (q : Conv ℝ × Act × V (I4 c c kh kw)) (hl : IsConv q.1 q.2.1 q.2.2 h w h w)
    (ha : q.2.1 ≠ .softmax) (p : Vec (c * h * w)) (hk : ∀ i, NoKink q.2.1 (ConvBridge.pre q.1 q.2.2 h w h w (unflat p) i)) :
    IsVJP (ι := (iVec (c * h * w)).T) (κ := (iVec (c * h * w)).T) (convFlatLink (h := h) (w := w) q).f p
      ((convFlatLink (h := h) (w := w) q).b p) := by
  have h1 := unflat_isVJP (c := c) (h := h) (w := w) p
  have h2 := vjp_conv_flat q.1 q.2.1 q.2.2 hl ha (unflat p) hk
  have h12 := IsVJP.comp h1 h2
  exact h12

/-- the position-indexed encoding of a stretch that starts with a flattened convolution: position 0 holds a
    `c × h × w` tensor, every later position a flat vector -/
noncomputable def emFS (c h w : ℕ) : Nat → Enc (iVec (c * h * w))
  | 0 => eVolFlat c h w
  | _ + 1 => eVec (c * h * w)

/-! ### reading `SkipDag.P` -/

theorem P_of_none {ι : Type} [Fintype ι] (N : SkipDag.Net ι) (i : Nat) (x : V ι) (h : N.S i = none) :
    SkipDag.P N i x = SkipDag.U N i x := by
  simp [SkipDag.P, SkipDag.skipv, h]

theorem P_of_some {ι : Type} [Fintype ι] (N : SkipDag.Net ι) (i s : Nat) (x : V ι) (h : N.S i = some s) (hs : s ≤ i) :
    SkipDag.P N i x = SkipDag.U N i x + SkipDag.U N s x := by
  simp [SkipDag.P, SkipDag.skipv, h, hs]

end SkipReshape
