import Proofs.SkipPad
import Proofs.SkipLinks

/-!
# Perceptrons of arbitrary widths with any table of additive skip connections (C16 / C01)

Slots are the widths `0 … W`; a dense layer from width `k₁` to width `k₂` is a link of the universal type
`Σ k : Fin (W+1), Fin k`; two positions can be connected when their widths agree.
-/

set_option linter.unusedSectionVars false
set_option linter.unusedVariables false

namespace SkipMLP
open Network Scalar VJP LayerChain SkipWalk SkipNet SkipPad ChainLinks DenseStack DenseBridge

variable (W : ℕ)

/-- the shapes: flat vectors of width `k ≤ W` -/
abbrev TW : Fin (W + 1) → Type := fun k => Fin k.val

/-- a dense layer between two widths -/
structure DLayer where
  k₁ : Fin (W + 1)
  k₂ : Fin (W + 1)
  a : Act
  Wt : V (Fin k₂.val × Fin k₁.val)
  b : Vec k₂.val

variable {W}

def DLayer.Valid (d : DLayer W) : Prop := d.a ≠ .softmax ∧ 0 < d.k₁.val ∧ 0 < d.k₂.val

/-- flat vectors are encoded by `vecT` -/
noncomputable def encW : (k : Fin (W + 1)) → Enc ⟨TW W k⟩ := fun k v => vecT v

/-- the layer as a link over the universal type -/
noncomputable def dlink (d : DLayer W) : Link (UIdx (TW W)) :=
  liftLink (TW W) d.k₁ d.k₂ (.dense (denseLayer d.a d.Wt d.b)) (denseFn (Act.f d.a) d.Wt d.b) (denseBwd d.a d.Wt d.b)
    (fun x => vecT (densePre d.Wt d.b x)) (fun _ => .none) (denseWG d.a d.Wt d.b)

/-- the width at position `j`: the input width of layer `j`, the output width of the last layer at the end -/
def slotAt (ds : List (DLayer W)) (j : Nat) : Fin (W + 1) :=
  match ds[j]? with
  | some d => d.k₁
  | none => match ds.getLast? with
    | some d => d.k₂
    | none => 0

/-- the position-indexed encoding -/
noncomputable def emW (ds : List (DLayer W)) (j : Nat) : Enc (UIdx (TW W)) := encAt (TW W) encW (slotAt ds j)

/-- consecutive layers fit -/
def Fits (ds : List (DLayer W)) : Prop := ∀ j d d', ds[j]? = some d → ds[j + 1]? = some d' → d'.k₁ = d.k₂

theorem slotAt_succ (ds : List (DLayer W)) (hf : Fits ds) (j : Nat) (d : DLayer W) (hd : ds[j]? = some d) :
    slotAt ds (j + 1) = d.k₂ := by
  unfold slotAt
  cases hn : ds[j + 1]? with
  | some d' => exact hf j d d' hd hn
  | none =>
    have hlen : ds.length = j + 1 := by
      have h1 : j < ds.length := by
        rcases Nat.lt_or_ge j ds.length with h | h
        · exact h
        · rw [List.getElem?_eq_none h] at hd; cases hd
      have h2 : ds.length ≤ j + 1 := by
        rcases Nat.lt_or_ge (j + 1) ds.length with h | h
        · rw [List.getElem?_eq_getElem h] at hn; cases hn
        · exact h
      omega
    have : ds.getLast? = some d := by
      rw [List.getLast?_eq_getElem?, hlen]
      simpa using hd
    simp only [this]

theorem dlink_real (ds : List (DLayer W)) (hf : Fits ds) (j : Nat) (d : DLayer W) (hd : ds[j]? = some d) (hv : d.Valid)
    (p : V (Σ k, TW W k)) : (dlink d).Real (emW ds j) (emW ds (j + 1)) p := by
  have h0 : slotAt ds j = d.k₁ := by simp only [slotAt, hd]
  have h1 : slotAt ds (j + 1) = d.k₂ := slotAt_succ ds hf j d hd
  unfold emW
  rw [h0, h1]
  obtain ⟨r1, r2⟩ := real_dense (denseLayer d.a d.Wt d.b) d.a d.Wt d.b (denseLayer_isDense d.a d.Wt d.b) hv.1 hv.2.2 hv.2.1
    (proj (TW W) d.k₁ p)
  exact liftLink_real (TW W) encW d.k₁ d.k₂ _ _ _ _ _ _ p r1 r2

theorem dlink_vjp (d : DLayer W) (hv : d.Valid) (p : V (Σ k, TW W k))
    (hk : ∀ i, NoKink d.a (densePre d.Wt d.b (proj (TW W) d.k₁ p) i)) :
    IsVJP (ι := (UIdx (TW W)).T) (κ := (UIdx (TW W)).T) (dlink d).f p ((dlink d).b p) :=
  isVJP_lift (TW W) d.k₁ d.k₂ _ _ p (vjp_dense d.a hv.1 d.Wt d.b _ hk)

theorem encAdd_W (k : Fin (W + 1)) : EncAdd (encW k) := encAdd_vec k.val

end SkipMLP
