import Model.Tensor

/-! # `L.chunks` (`par_chunks`): consecutive groups of `n`, the last may be shorter -/

namespace L
variable {β γ : Type}

theorem chunksAux_flatten (n : Nat) (hn : 0 < n) : ∀ (fuel : Nat) (l : List β), l.length ≤ fuel →
    (chunksAux n fuel l).flatten = l := by
  intro fuel
  induction fuel with
  | zero => intro l h; cases l <;> simp_all [chunksAux]
  | succ fuel ih =>
    intro l h
    cases l with
    | nil => simp [chunksAux]
    | cons x xs =>
      simp only [chunksAux, List.flatten_cons]
      have h' : xs.length ≤ fuel := by simpa using h
      rw [ih _ (by simp only [List.length_drop, List.length_cons]; omega)]
      exact List.take_append_drop n (x :: xs)

/-- every element appears exactly once, in order -/
theorem chunks_flatten (n : Nat) (hn : 0 < n) (l : List β) : (chunks n l).flatten = l :=
  chunksAux_flatten n hn l.length l (Nat.le_refl _)

theorem chunksAux_bounds (n : Nat) (hn : 0 < n) : ∀ (fuel : Nat) (l : List β),
    ∀ c ∈ chunksAux n fuel l, 0 < c.length ∧ c.length ≤ n := by
  intro fuel
  induction fuel with
  | zero => intro l c hc; simp [chunksAux] at hc
  | succ fuel ih =>
    intro l c hc
    cases l with
    | nil => simp [chunksAux] at hc
    | cons x xs =>
      simp only [chunksAux, List.mem_cons] at hc
      cases hc with
      | inl h =>
        subst h
        constructor
        · simp [List.length_take]; omega
        · simp [List.length_take]; omega
      | inr h => exact ih _ c h

/-- every group is non-empty and has at most `n` elements (so `B > N` gives one group of `N`) -/
theorem chunks_bounds (n : Nat) (hn : 0 < n) (l : List β) : ∀ c ∈ chunks n l, 0 < c.length ∧ c.length ≤ n :=
  chunksAux_bounds n hn l.length l

theorem chunksAux_count (n : Nat) (hn : 0 < n) : ∀ (fuel : Nat) (l : List β), l.length ≤ fuel →
    (chunksAux n fuel l).length = (l.length + n - 1) / n := by
  intro fuel
  induction fuel with
  | zero =>
    intro l h
    have : l = [] := by cases l <;> simp_all
    subst this
    simp [chunksAux]
    exact (Nat.div_eq_of_lt (by omega)).symm
  | succ fuel ih =>
    intro l h
    cases l with
    | nil =>
      simp [chunksAux]
      exact (Nat.div_eq_of_lt (by omega)).symm
    | cons x xs =>
      have h' : xs.length ≤ fuel := by simpa using h
      simp only [chunksAux, List.length_cons]
      rw [ih _ (by simp only [List.length_drop, List.length_cons]; omega)]
      simp only [List.length_drop, List.length_cons]
      by_cases hle : n ≤ xs.length + 1
      · have e : xs.length + 1 + n - 1 = (xs.length + 1 - n + n - 1) + n := by omega
        rw [e, Nat.add_div_right _ hn]
      · have h1 : xs.length + 1 - n = 0 := by omega
        rw [h1]
        have h2 : (0 + n - 1) / n = 0 := Nat.div_eq_of_lt (by omega)
        have h3 : (xs.length + 1 + n - 1) / n = 1 := by
          apply Nat.div_eq_of_lt_le <;> omega
        omega

/-- the number of groups is `⌈N / B⌉` -/
theorem chunks_count (n : Nat) (hn : 0 < n) (l : List β) : (chunks n l).length = (l.length + n - 1) / n :=
  chunksAux_count n hn l.length l (Nat.le_refl _)

theorem chunksAux_full (n : Nat) (hn : 0 < n) : ∀ (fuel : Nat) (l : List β), l.length ≤ fuel →
    ∀ c ∈ (chunksAux n fuel l).dropLast, c.length = n := by
  intro fuel
  induction fuel with
  | zero => intro l _ c hc; simp [chunksAux] at hc
  | succ fuel ih =>
    intro l h c hc
    cases l with
    | nil => simp [chunksAux] at hc
    | cons x xs =>
      simp only [chunksAux] at hc
      cases hrest : chunksAux n fuel (List.drop n (x :: xs)) with
      | nil => simp [hrest] at hc
      | cons d ds =>
        rw [hrest, List.dropLast_cons_cons] at hc
        simp only [List.mem_cons] at hc
        cases hc with
        | inl e =>
          subst e
          -- the rest is non-empty, so the list had more than n elements
          have hne : (List.drop n (x :: xs)) ≠ [] := by
            intro e2
            rw [e2] at hrest
            cases fuel <;> simp [chunksAux] at hrest
          have : n < (x :: xs).length :=
            if hh : n < (x :: xs).length then hh
            else absurd (List.drop_eq_nil_of_le (Nat.le_of_not_lt hh)) hne
          simp only [List.length_take]
          omega
        | inr e =>
          have h' : xs.length ≤ fuel := by simpa using h
          have := ih (List.drop n (x :: xs)) (by simp only [List.length_drop, List.length_cons]; omega) c
          rw [hrest] at this
          exact this e

/-- all groups but the last have exactly `n` elements -/
theorem chunks_full (n : Nat) (hn : 0 < n) (l : List β) : ∀ c ∈ (chunks n l).dropLast, c.length = n :=
  chunksAux_full n hn l.length l (Nat.le_refl _)

/-! ### mapping group by group is mapping element by element -/

theorem mapM'_append {ε : Type} (f : β → Except ε γ) : ∀ (a b : List β),
    mapM' f (a ++ b) = (match mapM' f a with
      | .error e => .error e
      | .ok ra => match mapM' f b with
        | .error e => .error e
        | .ok rb => .ok (ra ++ rb))
  | [], b => by cases h : mapM' f b <;> simp [mapM', h]
  | x :: xs, b => by
    simp only [List.cons_append, mapM']
    cases hx : f x with
    | error e => simp
    | ok y =>
      simp only []
      rw [mapM'_append f xs b]
      cases h1 : mapM' f xs with
      | error e => simp
      | ok ra => cases h2 : mapM' f b <;> simp

/-- `flat_map` over groups, each group mapped in order, equals mapping the whole list in order -/
theorem mapM'_groups {ε : Type} (f : β → Except ε γ) : ∀ (gs : List (List β)),
    (match mapM' (fun g => mapM' f g) gs with
      | .ok rs => Except.ok rs.flatten
      | .error e => .error e) = mapM' f gs.flatten
  | [] => rfl
  | g :: gs => by
    have ih := mapM'_groups f gs
    simp only [mapM', List.flatten_cons]
    rw [mapM'_append]
    cases hg : mapM' f g with
    | error e => simp
    | ok rg =>
      simp only []
      rw [← ih]
      cases h2 : mapM' (fun g => mapM' f g) gs <;> simp

/-- group `g` of `chunks n l` is the window `l[g·n .. g·n + n)` (shorter only at the end), and there
    is a group `g` exactly while `g·n` is inside the list -/
theorem chunksAux_getElem? (n : Nat) (hn : 0 < n) : ∀ (fuel : Nat) (l : List β), l.length ≤ fuel → ∀ g : Nat,
    (chunksAux n fuel l)[g]? = if g * n < l.length then some ((l.drop (g * n)).take n) else none := by
  intro fuel
  induction fuel with
  | zero =>
    intro l hl g
    have : l.length = 0 := by omega
    simp [chunksAux, this]
  | succ f ih =>
    intro l hl g
    cases l with
    | nil => simp [chunksAux]
    | cons x xs =>
      simp only [chunksAux]
      cases g with
      | zero => simp
      | succ k =>
        have hlen : ((x :: xs).drop n).length ≤ f := by
          simp only [List.length_drop, List.length_cons] at *; omega
        rw [List.getElem?_cons_succ, ih _ hlen k]
        have e : (k + 1) * n = n + k * n := by rw [Nat.succ_mul]; omega
        simp only [List.length_drop, List.drop_drop, e]
        by_cases h : k * n < (x :: xs).length - n
        · have h' : n + k * n < (x :: xs).length := by omega
          rw [if_pos h, if_pos h']
        · have h' : ¬ (n + k * n < (x :: xs).length) := by omega
          rw [if_neg h, if_neg h']

theorem chunks_getElem? (n : Nat) (hn : 0 < n) (l : List β) (g : Nat) :
    (chunks n l)[g]? = if g * n < l.length then some ((l.drop (g * n)).take n) else none :=
  chunksAux_getElem? n hn l.length l (Nat.le_refl _) g

end L
