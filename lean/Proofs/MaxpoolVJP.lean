import Proofs.ConvVJP
import Proofs.MaxpoolAdjoint

/-!
# Max-pool: the selection of the recorded arg-max positions and its transposed Jacobian

Away from ties the arg-max of every window is locally constant, so in a neighbourhood of the input the
max-pool *is* the linear map "output `(c,h,w)` = input at the recorded index of `(c,h,w)`"; its
transposed Jacobian is the routing of the gradient to those positions.
-/

open Finset BigOperators

namespace MaxpoolVJP
open VJP Adjoint Scatter ConvVJP

variable (l : Maxpool ℝ) (max : MaxIdx) (ic ih iw oh ow : ℕ)

/-- output `(c,h,w)` = sum of the input at the recorded positions of `(c,h,w)` (one position per window) -/
noncomputable def select (x : V (I3 ic ih iw)) : V (I3 ic oh ow) := fun chw =>
  ((L.get3D [] max chw.1 chw.2.1 chw.2.2).map (fun q => L.get3D 0 (toList3 x) chw.1 q.1 q.2)).sum

theorem sum_map_add' {β : Type} (l : List β) (f g : β → ℝ) :
    (l.map (fun a => f a + g a)).sum = (l.map f).sum + (l.map g).sum := by
  induction l with
  | nil => simp
  | cons a l ih => simp only [List.map_cons, List.sum_cons, ih]; ring

theorem sum_map_mul' {β : Type} (l : List β) (r : ℝ) (f : β → ℝ) :
    (l.map (fun a => r * f a)).sum = r * (l.map f).sum := by
  induction l with
  | nil => simp
  | cons a l ih => simp only [List.map_cons, List.sum_cons, ih]; ring

noncomputable def selectLin : V (I3 ic ih iw) →ₗ[ℝ] V (I3 ic oh ow) where
  toFun := select max ic ih iw oh ow
  map_add' x y := by
    funext chw
    simp only [select, Pi.add_apply, get3D_toList3_add, sum_map_add']
  map_smul' r x := by
    funext chw
    simp only [select, Pi.smul_apply, smul_eq_mul, RingHom.id_apply, get3D_toList3_smul, sum_map_mul']

/-- the routed gradient of the model's `Maxpool::backward`, as a vector -/
noncomputable def routeV (g : V (I3 ic oh ow)) : V (I3 ic ih iw) := fun cij =>
  L.get3D 0 (Maxpool.route l max (toList3 g) (Maxpool.positions ic oh ow) ic ih iw) cij.1 cij.2.1 cij.2.2

theorem positions_sum (ic oh ow : ℕ) (F : ℕ × ℕ × ℕ → ℝ) :
    ((Maxpool.positions ic oh ow).map F).sum = ∑ c ∈ range ic, ∑ h ∈ range oh, ∑ w ∈ range ow, F (c, h, w) := by
  unfold Maxpool.positions
  rw [ConvAdjoint.sum_map_flatMap, ConvAdjoint.sum_map_range]
  apply Finset.sum_congr rfl; intro c _
  rw [ConvAdjoint.sum_map_flatMap, ConvAdjoint.sum_map_range]
  apply Finset.sum_congr rfl; intro h _
  rw [List.map_map, ConvAdjoint.sum_map_range]
  rfl

/-- **routing the gradient to the recorded arg-max positions is the transposed Jacobian of selecting
    them** (layer outside loop connections; every recorded index inside the input) -/
theorem maxpool_isVJP (hl : l.loops = 1)
    (hidx : ∀ c h w, c < ic → h < oh → w < ow → ∀ q ∈ L.get3D [] max c h w, q.1 < ih ∧ q.2 < iw)
    (x : V (I3 ic ih iw)) :
    IsVJP (select max ic ih iw oh ow) x (routeV l max ic ih iw oh ow) := by
  refine ⟨LinearMap.toContinuousLinearMap (selectLin max ic ih iw oh ow), ?_, ?_⟩
  · exact (LinearMap.toContinuousLinearMap (selectLin max ic ih iw oh ow)).hasFDerivAt
  · intro g v
    simp only [LinearMap.coe_toContinuousLinearMap']
    show dot (routeV l max ic ih iw oh ow g) v = dot g (select max ic ih iw oh ow v)
    rw [dot_eq_ip3]
    rw [ip3_congr_left ic ih iw _ (Maxpool.route l max (toList3 g) (Maxpool.positions ic oh ow) ic ih iw) _ (by
      intro a i j ha hi hj
      rw [get3D_toList3]; simp [ha, hi, hj, routeV])]
    rw [MaxpoolAdjoint.route_adjoint l hl max (toList3 g) (toList3 v) (Maxpool.positions ic oh ow) ic ih iw (by
      intro p hp
      unfold Maxpool.positions at hp
      simp only [List.mem_flatMap, List.mem_range, List.mem_map] at hp
      obtain ⟨c, hc, h, hh, w, hw, rfl⟩ := hp
      exact ⟨hc, hidx c h w hc hh hw⟩)]
    rw [positions_sum]
    unfold dot
    rw [Fintype.sum_prod_type]
    rw [← Fin.sum_univ_eq_sum_range (fun c => ∑ h ∈ range oh, ∑ w ∈ range ow,
      L.get3D 0 (toList3 g) c h w * ((L.get3D [] max c h w).map (fun q => L.get3D 0 (toList3 v) c q.1 q.2)).sum) ic]
    apply Finset.sum_congr rfl; intro c _
    rw [Fintype.sum_prod_type]
    rw [← Fin.sum_univ_eq_sum_range (fun h => ∑ w ∈ range ow,
      L.get3D 0 (toList3 g) c h w * ((L.get3D [] max c h w).map (fun q => L.get3D 0 (toList3 v) c q.1 q.2)).sum) oh]
    apply Finset.sum_congr rfl; intro h _
    rw [← Fin.sum_univ_eq_sum_range (fun w =>
      L.get3D 0 (toList3 g) c h w * ((L.get3D [] max c h w).map (fun q => L.get3D 0 (toList3 v) c q.1 q.2)).sum) ow]
    apply Finset.sum_congr rfl; intro w _
    simp [select, get3D_toList3]

end MaxpoolVJP
