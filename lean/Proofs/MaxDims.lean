import Proofs.Dims

/-!
# Max-pool: what the forward pass and the gradient routing write into keeps its announced extents
(helper lemmas for C08)
-/

set_option linter.unusedSectionVars false
set_option linter.unusedVariables false

namespace DimsLemmas
open L
variable {α : Type} [Scalar α]

theorem fold_inv {σ γ : Type} (P : σ → Prop) (step : σ → γ → σ) (h : ∀ s t, P s → P (step s t)) :
    ∀ (ts : List γ) (s : σ), P s → P (ts.foldl step s)
  | [], s, hs => hs
  | t :: ts, s, hs => fold_inv P step h ts _ (h s t hs)

/-- the max-pool's routed gradient has the input's extents -/
theorem maxpool_route_dims (l : Maxpool α) (mx : MaxIdx) (og : V3 α) (pos : List (Nat × Nat × Nat)) (ic ih iw : Nat) :
    Dims3 (Maxpool.route l mx og pos ic ih iw) ic ih iw := by
  unfold Maxpool.route
  apply dims3_fold _ ic ih iw _ _ _ (dims3_replicate3 ic ih iw 0)
  intro y p hy
  apply dims3_fold _ ic ih iw _ _ _ hy
  intro y q hy
  exact dims3_mod3 _ y ic ih iw _ _ _ hy

theorem triple_shape (v : V3 α) (c h w : Nat) (hv : Dims3 v c h w) (t : Tensor α) (ht : Tensor.triple v = .ok t) :
    t.shape = .triple c h w := by
  unfold Tensor.triple at ht
  split at ht
  · cases ht
  · cases ht
  · rename_i r m rest
    cases ht
    obtain ⟨h1, h2⟩ := hv
    have := h2 (r :: m) (by simp)
    simp only [h1, this.1, this.2 r (by simp)]

theorem maxpool_pool_dims (l : Maxpool α) (x : V3 α) (ih iw oc oh ow : Nat) (hs ws : List Nat) :
    Dims3 (Maxpool.pool l x ih iw oc oh ow hs ws).1 oc oh ow := by
  unfold Maxpool.pool
  apply fold_inv (fun s : V3 α × MaxIdx => Dims3 s.1 oc oh ow) _ _ _ _ (dims3_replicate3 oc oh ow 0)
  intro s c hs
  apply fold_inv (fun s : V3 α × MaxIdx => Dims3 s.1 oc oh ow) _ _ _ _ hs
  intro s hh hs
  apply fold_inv (fun s : V3 α × MaxIdx => Dims3 s.1 oc oh ow) _ _ _ _ hs
  intro s w hs
  exact dims3_mod3 _ s.1 oc oh ow _ _ _ hs

/-- **the max-pool's forward output has exactly the announced extents** -/
theorem maxpool_forward_dims (l : Maxpool α) (x pre post : Tensor α) (mx : MaxIdx)
    (h : l.forward x = .ok (pre, post, mx)) : pre.shape = l.outputs := by
  unfold Maxpool.forward at h
  split at h
  · cases h
  · rename_i x' ih iw oc oh ow he ho
    split at h
    · rename_i a b ha hb
      by_cases h1 : l.stride.1 = 0 ∨ l.stride.2 = 0
      · rw [if_pos h1] at h; cases h
      · rw [if_neg h1] at h
        simp only [] at h
        split at h
        · cases h
        · cases hp : Tensor.triple (Maxpool.pool l x' ih iw oc oh ow (L.stepBy (a + 1) l.stride.1) (L.stepBy (b + 1) l.stride.2)).1 with
          | error e => rw [hp] at h; cases h
          | ok pre' =>
            rw [hp] at h
            have hs := triple_shape _ oc oh ow (maxpool_pool_dims l x' ih iw oc oh ow _ _) pre' hp
            simp only [] at h
            split at h
            · cases h
            · cases h
              rw [ho]; exact hs
    · cases h
  · cases h

/-- **the max-pool's input gradient has exactly the input's extents** -/
theorem maxpool_backward_dims (l : Maxpool α) (g t : Tensor α) (mx : MaxIdx)
    (h : l.backward g mx = .ok t) : t.shape = l.inputs := by
  unfold Maxpool.backward at h
  split at h
  · cases h
  · rename_i ic ih iw og hi hg
    split at h
    · simp only [] at h
      split at h
      · cases h
      · rw [hi]
        exact triple_shape _ ic ih iw (maxpool_route_dims l mx _ _ ic ih iw) t h
    · cases h
  · cases h

end DimsLemmas
