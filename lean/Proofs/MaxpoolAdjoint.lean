import Proofs.Adjoint
import Proofs.ConvAdjoint

/-!
# Max-pool: routing the gradient to the recorded arg-max positions is the transpose of selecting them
-/

open Finset

namespace MaxpoolAdjoint
open Scatter Adjoint

/-- the updates `Maxpool.route` performs -/
noncomputable def routeUpdates (max : MaxIdx) (og : V3 ℝ) (pos : List (ℕ × ℕ × ℕ)) : List Upd :=
  pos.flatMap (fun p => (L.get3D [] max p.1 p.2.1 p.2.2).map (fun q => ⟨p.1, q.1, q.2, L.get3D 0 og p.1 p.2.1 p.2.2⟩))

theorem route_as_updates (l : Maxpool ℝ) (hl : l.loops = 1) (max : MaxIdx) (og : V3 ℝ) (pos : List (ℕ × ℕ × ℕ)) (ic ih iw : ℕ) :
    Maxpool.route l max og pos ic ih iw =
      (routeUpdates max og pos).foldl (fun acc u => L.mod3 (· + u.v) acc u.c u.i u.j) (L.replicate3 ic ih iw 0) := by
  unfold Maxpool.route routeUpdates
  rw [List.foldl_flatMap]
  congr 1
  funext acc p
  rw [List.foldl_map]
  congr 1
  funext acc q
  congr 1
  funext v
  rw [hl]; ring

/-- **adjoint identity for max-pooling** (layer not inside a loop connection, recorded indices inside
    the input): `⟨routed gradient, v⟩ = Σ over output positions of og[c][h][w] · v[c][recorded index]` —
    the transpose of "the output at `(c,h,w)` is the input at its recorded arg-max" -/
theorem route_adjoint (l : Maxpool ℝ) (hl : l.loops = 1) (max : MaxIdx) (og v : V3 ℝ) (pos : List (ℕ × ℕ × ℕ)) (ic ih iw : ℕ)
    (hpos : ∀ p ∈ pos, p.1 < ic ∧ ∀ q ∈ L.get3D [] max p.1 p.2.1 p.2.2, q.1 < ih ∧ q.2 < iw) :
    ip3 ic ih iw (Maxpool.route l max og pos ic ih iw) v =
      (pos.map (fun p => L.get3D 0 og p.1 p.2.1 p.2.2 *
        ((L.get3D [] max p.1 p.2.1 p.2.2).map (fun q => L.get3D 0 v p.1 q.1 q.2)).sum)).sum := by
  rw [route_as_updates l hl, ip3_scatter_zeros]
  · unfold routeUpdates
    rw [ConvAdjoint.sum_map_flatMap]
    congr 1
    apply List.map_congr_left; intro p _
    rw [List.map_map]
    induction (L.get3D [] max p.1 p.2.1 p.2.2) with
    | nil => simp
    | cons q qs ih => simp only [List.map_cons, List.sum_cons, Function.comp, ih]; ring
  · intro u hu
    unfold routeUpdates at hu
    simp only [List.mem_flatMap, List.mem_map] at hu
    obtain ⟨p, hp, q, hq, rfl⟩ := hu
    exact ⟨(hpos p hp).1, ((hpos p hp).2 q hq).1, ((hpos p hp).2 q hq).2⟩

end MaxpoolAdjoint
