import Proofs.Scatter
import Proofs.Folds

/-!
# Scatter is the adjoint of gather: inner products of scattered tensors

`ip3 C H W a b` is the inner product of two 3-D nested lists over the index box `C × H × W`.
After any list of in-box additive updates, the inner product with `b` has grown by
`Σ_u u.v · b[u.pos]` (`ip3_scatter`).  This is what makes "backward scatters what forward gathered"
(and vice versa) an adjoint identity without any index arithmetic.
-/

open Finset

namespace Adjoint
open Scatter

noncomputable def ip3 (C H W : ℕ) (a b : V3 ℝ) : ℝ :=
  ∑ c ∈ range C, ∑ i ∈ range H, ∑ j ∈ range W, L.get3D 0 a c i j * L.get3D 0 b c i j

theorem indicator3 (C H W c i j : ℕ) (hc : c < C) (hi : i < H) (hj : j < W) (t : ℕ → ℕ → ℕ → ℝ) :
    (∑ c' ∈ range C, ∑ i' ∈ range H, ∑ j' ∈ range W, (if c = c' ∧ i = i' ∧ j = j' then t c' i' j' else 0)) = t c i j := by
  have h1 : ∀ c' i' j', (if c = c' ∧ i = i' ∧ j = j' then t c' i' j' else 0) =
      (if c = c' then (if i = i' then (if j = j' then t c' i' j' else 0) else 0) else 0) := by
    intro c' i' j'
    by_cases a : c = c' <;> by_cases b : i = i' <;> by_cases d : j = j' <;> simp [a, b, d]
  simp only [h1]
  have h2 : ∀ c', (∑ i' ∈ range H, ∑ j' ∈ range W,
      (if c = c' then (if i = i' then (if j = j' then t c' i' j' else 0) else 0) else 0)) =
      (if c = c' then ∑ i' ∈ range H, ∑ j' ∈ range W, (if i = i' then (if j = j' then t c' i' j' else 0) else 0) else 0) := by
    intro c'; by_cases a : c = c' <;> simp [a]
  simp only [h2]
  rw [sum_ite_eq (range C) c]
  simp only [mem_range, hc, if_true]
  have h3 : ∀ i', (∑ j' ∈ range W, (if i = i' then (if j = j' then t c i' j' else 0) else 0)) =
      (if i = i' then ∑ j' ∈ range W, (if j = j' then t c i' j' else 0) else 0) := by
    intro i'; by_cases a : i = i' <;> simp [a]
  simp only [h3]
  rw [sum_ite_eq (range H) i]
  simp only [mem_range, hi, if_true]
  rw [sum_ite_eq (range W) j]
  simp only [mem_range, hj, if_true]

/-- one in-box update changes the inner product by `v · b[c][i][j]` -/
theorem ip3_mod3 (C H W : ℕ) (y b : V3 ℝ) (c i j : ℕ) (v : ℝ) (hb : InBounds y c i j)
    (hc : c < C) (hi : i < H) (hj : j < W) :
    ip3 C H W (L.mod3 (· + v) y c i j) b = ip3 C H W y b + v * L.get3D 0 b c i j := by
  unfold ip3
  have hpt : ∀ c' i' j', L.get3D 0 (L.mod3 (· + v) y c i j) c' i' j' * L.get3D 0 b c' i' j' =
      L.get3D 0 y c' i' j' * L.get3D 0 b c' i' j' +
        (if c = c' ∧ i = i' ∧ j = j' then v * L.get3D 0 b c' i' j' else 0) := by
    intro c' i' j'
    rw [get3D_mod3 _ y c i j c' i' j' hb]
    split <;> ring
  simp only [hpt, sum_add_distrib]
  rw [indicator3 C H W c i j hc hi hj (fun c' i' j' => v * L.get3D 0 b c' i' j')]

/-- **scatter/gather duality** -/
theorem ip3_scatter (C H W : ℕ) (b : V3 ℝ) : ∀ (us : List Upd) (y : V3 ℝ),
    (∀ u ∈ us, InBounds y u.c u.i u.j ∧ u.c < C ∧ u.i < H ∧ u.j < W) →
    ip3 C H W (us.foldl (fun acc u => L.mod3 (· + u.v) acc u.c u.i u.j) y) b =
      ip3 C H W y b + (us.map (fun u => u.v * L.get3D 0 b u.c u.i u.j)).sum := by
  intro us
  induction us with
  | nil => intro y _; simp
  | cons u rest ih =>
    intro y hb
    simp only [List.foldl_cons, List.map_cons, List.sum_cons]
    rw [ih]
    · obtain ⟨h0, h1, h2, h3⟩ := hb u (List.mem_cons_self ..)
      rw [ip3_mod3 C H W y b u.c u.i u.j u.v h0 h1 h2 h3]
      ring
    · intro u' hu'
      obtain ⟨h0, h1, h2, h3⟩ := hb u' (List.mem_cons_of_mem _ hu')
      exact ⟨(inBounds_mod3 _ _ _ _ _ _ _ _).mpr h0, h1, h2, h3⟩

theorem get3D_replicate3 (C H W c i j : ℕ) : L.get3D 0 (L.replicate3 C H W (0 : ℝ)) c i j = 0 := by
  rw [L.get3D_eq]
  unfold L.replicate3 L.replicate2
  simp only [List.getD_eq_getElem?_getD]
  by_cases hc : c < C
  · by_cases hi : i < H
    · by_cases hj : j < W <;> simp [hc, hi, hj]
    · simp [hc, hi]
  · simp [hc]

theorem ip3_zero (C H W : ℕ) (b : V3 ℝ) : ip3 C H W (L.replicate3 C H W (0 : ℝ)) b = 0 := by
  unfold ip3
  simp [get3D_replicate3]

theorem inBounds_replicate3 (C H W c i j : ℕ) (hc : c < C) (hi : i < H) (hj : j < W) :
    InBounds (L.replicate3 C H W (0 : ℝ)) c i j := by
  unfold InBounds L.replicate3 L.replicate2
  simp only [List.getD_eq_getElem?_getD, List.length_replicate]
  refine ⟨hc, ?_, ?_⟩
  · simp [hc, hi]
  · simp [hc, hi, hj]

/-- scattering into zeros: the inner product is the sum over the updates -/
theorem ip3_scatter_zeros (C H W : ℕ) (b : V3 ℝ) (us : List Upd)
    (hb : ∀ u ∈ us, u.c < C ∧ u.i < H ∧ u.j < W) :
    ip3 C H W (us.foldl (fun acc u => L.mod3 (· + u.v) acc u.c u.i u.j) (L.replicate3 C H W 0)) b =
      (us.map (fun u => u.v * L.get3D 0 b u.c u.i u.j)).sum := by
  rw [ip3_scatter C H W b us _ (fun u hu => ⟨inBounds_replicate3 C H W _ _ _ (hb u hu).1 (hb u hu).2.1 (hb u hu).2.2, hb u hu⟩),
    ip3_zero, zero_add]

end Adjoint
