import Proofs.Adjoint

/-!
# The scatter lemma and scatter/gather duality for 4-D tables (kernel gradients)
-/

open Finset

namespace Adjoint4
open Scatter Adjoint

theorem get4D_eq (y : V4 ℝ) (f c i j : ℕ) : L.get4D 0 y f c i j = L.get3D 0 (y.getD f []) c i j := by
  unfold L.get4D
  rw [L.get?_eq, List.getD_eq_getElem?_getD]
  cases y[f]? with
  | none => simp [L.get3D, L.get?]
  | some t => simp

/-- position `(f, c, i, j)` exists in the table -/
def InBounds4 (y : V4 ℝ) (f c i j : ℕ) : Prop := f < y.length ∧ InBounds (y.getD f []) c i j

theorem get4D_mod4 (g : ℝ → ℝ) (y : V4 ℝ) (f c i j f' c' i' j' : ℕ) (hb : InBounds4 y f c i j) :
    L.get4D 0 (L.mod4 g y f c i j) f' c' i' j' =
      if f = f' ∧ c = c' ∧ i = i' ∧ j = j' then g (L.get4D 0 y f' c' i' j') else L.get4D 0 y f' c' i' j' := by
  rw [get4D_eq, get4D_eq]
  unfold L.mod4
  rw [getD_modAt]
  by_cases h : f = f'
  · subst h
    rw [if_pos ⟨rfl, hb.1⟩, get3D_mod3 _ _ _ _ _ _ _ _ hb.2]
    by_cases h2 : c = c' ∧ i = i' ∧ j = j'
    · rw [if_pos h2, if_pos ⟨rfl, h2⟩]
    · rw [if_neg h2, if_neg (fun h => h2 h.2)]
  · rw [if_neg (fun hh => h hh.1), if_neg (fun hh => h hh.1)]

theorem inBounds4_mod4 (g : ℝ → ℝ) (y : V4 ℝ) (f c i j f' c' i' j' : ℕ) :
    InBounds4 (L.mod4 g y f c i j) f' c' i' j' ↔ InBounds4 y f' c' i' j' := by
  unfold InBounds4 L.mod4
  rw [length_modAt, getD_modAt]
  by_cases h : f = f' ∧ f' < y.length
  · rw [if_pos h]
    constructor
    · rintro ⟨a, b⟩; exact ⟨a, (inBounds_mod3 _ _ _ _ _ _ _ _).mp b⟩
    · rintro ⟨a, b⟩; exact ⟨a, (inBounds_mod3 _ _ _ _ _ _ _ _).mpr b⟩
  · rw [if_neg h]

structure Upd4 where
  f : ℕ
  c : ℕ
  i : ℕ
  j : ℕ
  v : ℝ

noncomputable def ip4 (F C H W : ℕ) (a b : V4 ℝ) : ℝ :=
  ∑ f ∈ range F, ∑ c ∈ range C, ∑ i ∈ range H, ∑ j ∈ range W, L.get4D 0 a f c i j * L.get4D 0 b f c i j

theorem indicator4 (F C H W f c i j : ℕ) (hf : f < F) (hc : c < C) (hi : i < H) (hj : j < W) (t : ℕ → ℕ → ℕ → ℕ → ℝ) :
    (∑ f' ∈ range F, ∑ c' ∈ range C, ∑ i' ∈ range H, ∑ j' ∈ range W,
      (if f = f' ∧ c = c' ∧ i = i' ∧ j = j' then t f' c' i' j' else 0)) = t f c i j := by
  have h1 : ∀ f', (∑ c' ∈ range C, ∑ i' ∈ range H, ∑ j' ∈ range W,
      (if f = f' ∧ c = c' ∧ i = i' ∧ j = j' then t f' c' i' j' else 0)) =
      (if f = f' then ∑ c' ∈ range C, ∑ i' ∈ range H, ∑ j' ∈ range W,
        (if c = c' ∧ i = i' ∧ j = j' then t f' c' i' j' else 0) else 0) := by
    intro f'
    by_cases a : f = f' <;> simp [a]
  simp only [h1]
  rw [sum_ite_eq (range F) f]
  simp only [mem_range, hf, if_true]
  exact indicator3 C H W c i j hc hi hj (fun c' i' j' => t f c' i' j')

theorem ip4_mod4 (F C H W : ℕ) (y b : V4 ℝ) (f c i j : ℕ) (v : ℝ) (hb : InBounds4 y f c i j)
    (hf : f < F) (hc : c < C) (hi : i < H) (hj : j < W) :
    ip4 F C H W (L.mod4 (· + v) y f c i j) b = ip4 F C H W y b + v * L.get4D 0 b f c i j := by
  unfold ip4
  have hpt : ∀ f' c' i' j', L.get4D 0 (L.mod4 (· + v) y f c i j) f' c' i' j' * L.get4D 0 b f' c' i' j' =
      L.get4D 0 y f' c' i' j' * L.get4D 0 b f' c' i' j' +
        (if f = f' ∧ c = c' ∧ i = i' ∧ j = j' then v * L.get4D 0 b f' c' i' j' else 0) := by
    intro f' c' i' j'
    rw [get4D_mod4 _ y f c i j f' c' i' j' hb]
    split <;> ring
  simp only [hpt, sum_add_distrib]
  rw [indicator4 F C H W f c i j hf hc hi hj (fun f' c' i' j' => v * L.get4D 0 b f' c' i' j')]

theorem ip4_scatter (F C H W : ℕ) (b : V4 ℝ) : ∀ (us : List Upd4) (y : V4 ℝ),
    (∀ u ∈ us, InBounds4 y u.f u.c u.i u.j ∧ u.f < F ∧ u.c < C ∧ u.i < H ∧ u.j < W) →
    ip4 F C H W (us.foldl (fun acc u => L.mod4 (· + u.v) acc u.f u.c u.i u.j) y) b =
      ip4 F C H W y b + (us.map (fun u => u.v * L.get4D 0 b u.f u.c u.i u.j)).sum := by
  intro us
  induction us with
  | nil => intro y _; simp
  | cons u rest ih =>
    intro y hb
    simp only [List.foldl_cons, List.map_cons, List.sum_cons]
    rw [ih]
    · obtain ⟨h0, h1, h2, h3, h4⟩ := hb u (List.mem_cons_self ..)
      rw [ip4_mod4 F C H W y b u.f u.c u.i u.j u.v h0 h1 h2 h3 h4]
      ring
    · intro u' hu'
      obtain ⟨h0, h1⟩ := hb u' (List.mem_cons_of_mem _ hu')
      exact ⟨(inBounds4_mod4 _ _ _ _ _ _ _ _ _ _).mpr h0, h1⟩

theorem get4D_replicate4 (F C H W f c i j : ℕ) : L.get4D 0 (L.replicate4 F C H W (0 : ℝ)) f c i j = 0 := by
  rw [get4D_eq]
  unfold L.replicate4
  simp only [List.getD_eq_getElem?_getD]
  by_cases hf : f < F
  · simp only [List.getElem?_replicate, hf, if_true, Option.getD_some]
    exact get3D_replicate3 C H W c i j
  · simp only [List.getElem?_replicate, hf, if_false, Option.getD_none]
    simp [L.get3D, L.get?]

theorem inBounds4_replicate4 (F C H W f c i j : ℕ) (hf : f < F) (hc : c < C) (hi : i < H) (hj : j < W) :
    InBounds4 (L.replicate4 F C H W (0 : ℝ)) f c i j := by
  unfold InBounds4 L.replicate4
  refine ⟨by simp [hf], ?_⟩
  simp only [List.getD_eq_getElem?_getD, List.getElem?_replicate, hf, if_true, Option.getD_some]
  exact inBounds_replicate3 C H W c i j hc hi hj

theorem ip4_scatter_zeros (F C H W : ℕ) (b : V4 ℝ) (us : List Upd4)
    (hb : ∀ u ∈ us, u.f < F ∧ u.c < C ∧ u.i < H ∧ u.j < W) :
    ip4 F C H W (us.foldl (fun acc u => L.mod4 (· + u.v) acc u.f u.c u.i u.j) (L.replicate4 F C H W 0)) b =
      (us.map (fun u => u.v * L.get4D 0 b u.f u.c u.i u.j)).sum := by
  rw [ip4_scatter F C H W b us _ (fun u hu =>
    ⟨inBounds4_replicate4 F C H W _ _ _ _ (hb u hu).1 (hb u hu).2.1 (hb u hu).2.2.1 (hb u hu).2.2.2, hb u hu⟩)]
  unfold ip4
  simp [get4D_replicate4]

end Adjoint4
