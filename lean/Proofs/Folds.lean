import Model.Layers
import Proofs.Real
import Proofs.Sums
import Mathlib.Algebra.BigOperators.Group.Finset.Basic
import Mathlib.Tactic

/-!
# Loops as sums (over `ℝ`)

The Rust accumulation loops are left folds over `List.range`; over the reals they are finite sums.
-/

open Finset

namespace Folds

/-- `for i in 0..n { if p(i) { sum += t(i) } }` is `Σ_{i<n} [p i] t i` -/
theorem guarded_fold (p : ℕ → Prop) [DecidablePred p] (t : ℕ → ℝ) (n : ℕ) (s0 : ℝ) :
    (List.range n).foldl (fun s i => if p i then s + t i else s) s0 =
      s0 + ∑ i ∈ range n, (if p i then t i else 0) := by
  induction n with
  | zero => simp
  | succ n ih =>
    rw [List.range_succ, List.foldl_append, ih, sum_range_succ]
    simp only [List.foldl_cons, List.foldl_nil]
    split <;> ring

/-- an inner loop that threads the same accumulator: `for i in 0..n { s = inner(i, s) }` where each
    inner loop adds `u i` -/
theorem threaded_fold (inner : ℝ → ℕ → ℝ) (u : ℕ → ℝ) (h : ∀ s i, inner s i = s + u i) (n : ℕ) (s0 : ℝ) :
    (List.range n).foldl inner s0 = s0 + ∑ i ∈ range n, u i := by
  induction n with
  | zero => simp
  | succ n ih =>
    rw [List.range_succ, List.foldl_append, ih, sum_range_succ]
    simp only [List.foldl_cons, List.foldl_nil, h]
    ring

/-- unguarded accumulation over an arbitrary index list -/
theorem list_fold_sum {β : Type} (t : β → ℝ) (l : List β) (s0 : ℝ) :
    l.foldl (fun s x => s + t x) s0 = s0 + (l.map t).sum := by
  induction l generalizing s0 with
  | nil => simp
  | cons x xs ih => simp only [List.foldl_cons, ih, List.map_cons, List.sum_cons]; ring

end Folds
