import Proofs.SkipPad

/-!
# Any sequence of typed layers with any table of additive skip connections between positions of one shape (C16 / C01)

The layers are given with the shapes ("slots") they map between; everything is carried over the universal padded
vector type of `SkipPad`.  This is the general form of which perceptrons of arbitrary widths (`SkipMLP`) are an
instance: dense, convolution, deconvolution, max-pool layers and their flattened forms are all typed links.
-/

set_option linter.unusedSectionVars false
set_option linter.unusedVariables false

namespace SkipTyped
open Network Scalar VJP LayerChain SkipWalk SkipNet SkipPad

variable {K : Type} [Fintype K] [DecidableEq K] [Inhabited K] (T : K → Type) [∀ k, Fintype (T k)]
  (enc : (k : K) → Enc ⟨T k⟩)

/-- a model layer with the vector function it realises between two slots -/
structure TLink where
  k₁ : K
  k₂ : K
  l : Layer ℝ
  f : V (T k₁) → V (T k₂)
  b : V (T k₁) → V (T k₂) → V (T k₁)
  pre : V (T k₁) → Tensor ℝ
  rc : V (T k₁) → Recorded ℝ
  wg : V (T k₁) → V (T k₂) → WGrad ℝ × BGrad ℝ

variable {T}

/-- at the input `x` the layer computes its function and its backward function on the encodings -/
def TLink.Real (d : TLink T) (x : V (T d.k₁)) : Prop :=
  layerForward d.l (enc d.k₁ x) = .ok (d.pre x, enc d.k₂ (d.f x), d.rc x) ∧
  ∀ g, layerBackward d.l (enc d.k₂ g) (enc d.k₁ x) (d.pre x) (.ok (d.rc x)) = .ok (enc d.k₁ (d.b x g), (d.wg x g).1, (d.wg x g).2)

/-- the layer as a link over the universal type -/
def tlink (d : TLink T) : Link (UIdx T) := liftLink T d.k₁ d.k₂ d.l d.f d.b d.pre d.rc d.wg

/-- the slot at position `j`: the input slot of layer `j`, the output slot of the last layer at the end -/
def slotAt (ds : List (TLink T)) (j : Nat) : K :=
  match ds[j]? with
  | some d => d.k₁
  | none => match ds.getLast? with
    | some d => d.k₂
    | none => default

/-- the position-indexed encoding -/
def emT (ds : List (TLink T)) (j : Nat) : Enc (UIdx T) := encAt T enc (slotAt ds j)

/-- consecutive layers fit -/
def Fits (ds : List (TLink T)) : Prop := ∀ j d d', ds[j]? = some d → ds[j + 1]? = some d' → d'.k₁ = d.k₂

theorem slotAt_succ (ds : List (TLink T)) (hf : Fits ds) (j : Nat) (d : TLink T) (hd : ds[j]? = some d) :
    slotAt ds (j + 1) = d.k₂ := by
  unfold slotAt
  cases hn : ds[j + 1]? with
  | some d' => exact hf j d d' hd hn
  | none =>
    have hlen : ds.length = j + 1 := by
      have h1 : j < ds.length := by
        rcases Nat.lt_or_ge j ds.length with h | h
        · exact h
        · rw [List.getElem?_eq_none h] at hd; cases hd
      have h2 : ds.length ≤ j + 1 := by
        rcases Nat.lt_or_ge (j + 1) ds.length with h | h
        · rw [List.getElem?_eq_getElem h] at hn; cases hn
        · exact h
      omega
    have : ds.getLast? = some d := by
      rw [List.getLast?_eq_getElem?, hlen]
      simpa using hd
    simp only [this]

theorem tlink_real (ds : List (TLink T)) (hf : Fits ds) (j : Nat) (d : TLink T) (hd : ds[j]? = some d)
    (p : V (Σ k, T k)) (hr : d.Real enc (proj T d.k₁ p)) : (tlink d).Real (emT enc ds j) (emT enc ds (j + 1)) p := by
  have h0 : slotAt ds j = d.k₁ := by simp only [slotAt, hd]
  have h1 : slotAt ds (j + 1) = d.k₂ := slotAt_succ ds hf j d hd
  unfold emT
  rw [h0, h1]
  exact liftLink_real T enc d.k₁ d.k₂ _ _ _ _ _ _ p hr.1 hr.2

theorem tlink_vjp (d : TLink T) (p : V (Σ k, T k)) (h : IsVJP d.f (proj T d.k₁ p) (d.b (proj T d.k₁ p))) :
    IsVJP (ι := (UIdx T).T) (κ := (UIdx T).T) (tlink d).f p ((tlink d).b p) :=
  isVJP_lift T d.k₁ d.k₂ _ _ p h

/-- what layer `j` does to the padded vectors: read slot `k₁`, apply the layer's function, write slot `k₂` -/
theorem padded_layer_step (ds : List (TLink T)) (tbl : List (Nat × Nat)) (j : Nat) (d : TLink T)
    (hd : ds[j]? = some d) (x : V (Σ k, T k)) :
    SkipDag.U (dagNet (ds.map tlink) tbl) (j + 1) x =
      emb T d.k₂ (d.f (proj T d.k₁ (SkipDag.P (dagNet (ds.map tlink) tbl) j x))) := by
  rw [SkipDag.U_succ]
  simp only [dagNet, List.getElem?_map, hd, Option.map_some]
  rfl

theorem typed_skip_aux (n : Network ℝ) (ds : List (TLink T)) (tbl : List (Nat × Nat))
    (L : Nat) (hL : (ds.map tlink).length = L)
    (hl : n.layers = ds.map (·.l))
    (hc : n.connect = tbl) (hacc : n.skipaccumulation = .add) (hlb : n.loopbacks = [])
    (hkeys : (tbl.map Prod.fst).Nodup) (hbd : ∀ e ∈ tbl, e.2 ≤ e.1 ∧ e.1 < ds.length)
    (hw : ∀ e ∈ tbl, slotAt ds e.1 = slotAt ds e.2 ∧ EncAdd (enc (slotAt ds e.1)))
    (hfit : Fits ds)
    (x₀ : V (T (slotAt ds 0))) (ℓ : V (T (slotAt ds L)) → ℝ) (g₀ : V (T (slotAt ds L))) :
    let N := dagNet (ds.map tlink) tbl
    let F := fun z : V (T (slotAt ds 0)) => proj T (slotAt ds L) (SkipDag.U N L (emb T (slotAt ds 0) z))
    (∀ (j : Nat) d, ds[j]? = some d → d.Real enc (proj T d.k₁ (SkipDag.P N j (emb T (slotAt ds 0) x₀)))) →
    (∀ (j : Nat) d, ds[j]? = some d → IsVJP d.f (proj T d.k₁ (SkipDag.P N j (emb T (slotAt ds 0) x₀)))
      (d.b (proj T d.k₁ (SkipDag.P N j (emb T (slotAt ds 0) x₀))))) →
    IsGrad ℓ (F x₀) g₀ →
    ∃ t ws bs gs γ,
      n.forward (enc (slotAt ds 0) x₀) = .ok t ∧ t.act.getLast? = some (enc (slotAt ds L) (F x₀)) ∧
      n.backward (enc (slotAt ds L) g₀) t = .ok (ws, bs, gs) ∧ gs.getLast? = some (enc (slotAt ds 0) γ) ∧
      IsGrad (ℓ ∘ F) x₀ γ := by
  subst hL
  intro N F hr hk hg
  let head : Chain (UIdx T) (emT enc ds 0) (UIdx T) (emT enc ds 0) := Chain.nil _ _
  let tail : Chain (UIdx T) (emT enc ds (ds.map tlink).length) (UIdx T) (emT enc ds (ds.map tlink).length) := Chain.nil _ _
  have hnet : IsDagNet (em := emT enc ds) head (ds.map tlink) tbl tail n := by
    refine ⟨?_, ?_, hacc, hlb, hkeys, ?_⟩
    · rw [hl]; simp [LayerChain.layers, head, tail, tlink, liftLink]
    · rw [hc]
      simp only [LayerChain.layers, head, List.length_nil]
      have : shift 0 = id := by funext e; simp [shift]
      rw [this, List.map_id]
    · simpa using hbd
  have hget : ∀ (j : Nat) (lk : Link (UIdx T)), (ds.map tlink)[j]? = some lk → ∃ d, ds[j]? = some d ∧ lk = tlink d := by
    intro j lk hlk
    rw [List.getElem?_map] at hlk
    cases hq : ds[j]? with
    | none => rw [hq] at hlk; cases hlk
    | some d => rw [hq] at hlk; simp only [Option.map_some, Option.some.injEq] at hlk; exact ⟨d, rfl, hlk.symm⟩
  have hcomp : ∀ t s, Assoc.find? tbl t = some s → Compat (emT enc ds t) (emT enc ds s) := by
    intro t s hts
    have := hw (t, s) (SkipTable.find?_mem tbl t s hts)
    simp only at this
    unfold emT
    rw [← this.1]
    exact compat_same T enc _ this.2
  have hF' : ∀ z, proj T (slotAt ds (ds.map tlink).length)
      (dagFn (em := emT enc ds) head (ds.map tlink) tbl tail (emb T (slotAt ds 0) z)) = F z := by
    intro z
    simp only [dagFn, head, tail, gnet, GNet.fwd, F, N]
  have hgU : IsGrad (ℓ ∘ proj T (slotAt ds (ds.map tlink).length))
      (dagFn (em := emT enc ds) head (ds.map tlink) tbl tail (emb T (slotAt ds 0) x₀)) (emb T (slotAt ds (ds.map tlink).length) g₀) :=
    IsGrad.comp_vjp (isVJP_proj T (slotAt ds (ds.map tlink).length) _) (by rw [hF']; exact hg)
  obtain ⟨t, ws, bs, gs, γ, h1, h2, h3, h4, h5, _⟩ :=
    dag_network_gradient (em := emT enc ds) head (ds.map tlink) tbl tail n hnet hcomp (emb T (slotAt ds 0) x₀)
      trivial
      (fun j lk hlk => by
        obtain ⟨d, hd, rfl⟩ := hget j lk hlk
        exact tlink_real enc ds hfit j d hd _ (hr j d hd))
      trivial trivial
      (fun j lk hlk => by
        obtain ⟨d, hd, rfl⟩ := hget j lk hlk
        exact tlink_vjp d _ (hk j d hd))
      trivial (ℓ ∘ proj T (slotAt ds (ds.map tlink).length)) (emb T (slotAt ds (ds.map tlink).length) g₀) hgU
  refine ⟨t, ws, bs, gs, proj T (slotAt ds 0) γ, ?_, ?_, ?_, ?_, ?_⟩
  · have : emT enc ds 0 (emb T (slotAt ds 0) x₀) = enc (slotAt ds 0) x₀ := by
      simp only [emT, encAt, proj_emb]
    rw [← this]; exact h1
  · rw [h2]
    simp only [emT, encAt, ← hF']
  · have : emT enc ds (ds.map tlink).length (emb T (slotAt ds (ds.map tlink).length) g₀) = enc (slotAt ds (ds.map tlink).length) g₀ := by
      simp only [emT, encAt, proj_emb]
    rw [← this]; exact h3
  · rw [h4]
    simp only [emT, encAt]
  · have h6 := IsGrad.comp_vjp (isVJP_emb T (slotAt ds 0) x₀) h5
    have : (ℓ ∘ proj T (slotAt ds (ds.map tlink).length) ∘ dagFn (em := emT enc ds) head (ds.map tlink) tbl tail) ∘ emb T (slotAt ds 0) = ℓ ∘ F := by
      funext z
      simp only [Function.comp_apply, hF']
    rw [← this]
    exact h6

/-- **any sequence of typed layers with any table of additive skip connections between positions of one shape**,
    on the model's own `Network.forward` / `Network.backward` folds -/
theorem typed_skip_network_gradient (n : Network ℝ) (ds : List (TLink T)) (tbl : List (Nat × Nat))
    (hl : n.layers = ds.map (·.l))
    (hc : n.connect = tbl) (hacc : n.skipaccumulation = .add) (hlb : n.loopbacks = [])
    (hkeys : (tbl.map Prod.fst).Nodup) (hbd : ∀ e ∈ tbl, e.2 ≤ e.1 ∧ e.1 < ds.length)
    (hw : ∀ e ∈ tbl, slotAt ds e.1 = slotAt ds e.2 ∧ EncAdd (enc (slotAt ds e.1)))
    (hfit : Fits ds)
    (x₀ : V (T (slotAt ds 0))) (ℓ : V (T (slotAt ds ds.length)) → ℝ) (g₀ : V (T (slotAt ds ds.length))) :
    let N := dagNet (ds.map tlink) tbl
    let F := fun z : V (T (slotAt ds 0)) => proj T (slotAt ds ds.length) (SkipDag.U N ds.length (emb T (slotAt ds 0) z))
    (∀ (j : Nat) d, ds[j]? = some d → d.Real enc (proj T d.k₁ (SkipDag.P N j (emb T (slotAt ds 0) x₀)))) →
    (∀ (j : Nat) d, ds[j]? = some d → IsVJP d.f (proj T d.k₁ (SkipDag.P N j (emb T (slotAt ds 0) x₀)))
      (d.b (proj T d.k₁ (SkipDag.P N j (emb T (slotAt ds 0) x₀))))) →
    IsGrad ℓ (F x₀) g₀ →
    ∃ t ws bs gs γ,
      n.forward (enc (slotAt ds 0) x₀) = .ok t ∧ t.act.getLast? = some (enc (slotAt ds ds.length) (F x₀)) ∧
      n.backward (enc (slotAt ds ds.length) g₀) t = .ok (ws, bs, gs) ∧ gs.getLast? = some (enc (slotAt ds 0) γ) ∧
      IsGrad (ℓ ∘ F) x₀ γ :=
  typed_skip_aux enc n ds tbl ds.length (List.length_map _) hl hc hacc hlb hkeys hbd hw hfit x₀ ℓ g₀

end SkipTyped
