import Proofs.VJP
import Mathlib.Analysis.Calculus.FDeriv.Add
import Mathlib.Analysis.Calculus.FDeriv.Mul

/-!
# The dense layer as a vector function: its three transposed Jacobians (for C01)

`densePre W b x = W·x + b`, `denseFn a W b x = a ∘ (W·x + b)`.  With `δ = a'(pre) ⊙ g`:
the gradient with respect to the input is `Wᵀ δ`, with respect to the weights `δ ⊗ x`, with respect to
the bias `δ` — *provided the activation is differentiable at every pre-activation* (away from kinks).
-/

open BigOperators

namespace VJP

variable {r c : ℕ}

def densePre (W : V (Fin r × Fin c)) (b : Vec r) (x : Vec c) : Vec r := fun i => (∑ j, W (i, j) * x j) + b i

def denseFn (a : ℝ → ℝ) (W : V (Fin r × Fin c)) (b : Vec r) (x : Vec c) : Vec r := fun i => a (densePre W b x i)

/-- `δ = a'(pre) ⊙ g` -/
def delta (a' : ℝ → ℝ) (pre g : Vec r) : Vec r := fun i => a' (pre i) * g i

def inputGrad (W : V (Fin r × Fin c)) (d : Vec r) : Vec c := fun j => ∑ i, W (i, j) * d i
def weightGrad (d : Vec r) (x : Vec c) : V (Fin r × Fin c) := fun ij => d ij.1 * x ij.2

theorem densePre_hasFDerivAt_x (W : V (Fin r × Fin c)) (b : Vec r) (x : Vec c) (i : Fin r) :
    HasFDerivAt (fun x : Vec c => densePre W b x i)
      (∑ j, (W (i, j)) • (ContinuousLinearMap.proj (R := ℝ) (φ := fun _ : Fin c => ℝ) j)) x := by
  unfold densePre
  apply HasFDerivAt.add_const
  apply HasFDerivAt.fun_sum
  intro j _
  exact ((ContinuousLinearMap.proj (R := ℝ) (φ := fun _ : Fin c => ℝ) j).hasFDerivAt).const_mul (W (i, j))

/-- input gradient: `Wᵀ (a'(pre) ⊙ g)` -/
theorem dense_vjp_input (a a' : ℝ → ℝ) (W : V (Fin r × Fin c)) (b : Vec r) (x : Vec c)
    (ha : ∀ i, HasDerivAt a (a' (densePre W b x i)) (densePre W b x i)) :
    IsVJP (denseFn a W b) x (fun g => inputGrad W (delta a' (densePre W b x) g)) := by
  refine ⟨ContinuousLinearMap.pi (fun i => (a' (densePre W b x i)) •
      (∑ j, (W (i, j)) • (ContinuousLinearMap.proj (R := ℝ) (φ := fun _ : Fin c => ℝ) j))), ?_, ?_⟩
  · rw [hasFDerivAt_pi']
    intro i
    have := (ha i).comp_hasFDerivAt x (densePre_hasFDerivAt_x W b x i)
    simpa [denseFn, Function.comp_def] using this
  · intro g v
    simp only [dot, inputGrad, delta, ContinuousLinearMap.pi_apply, FunLike.coe_smul, Pi.smul_apply,
      FunLike.coe_sum, Finset.sum_apply, ContinuousLinearMap.proj_apply, smul_eq_mul]
    simp only [Finset.sum_mul, Finset.mul_sum]
    rw [Finset.sum_comm]
    apply Finset.sum_congr rfl; intro i _
    apply Finset.sum_congr rfl; intro j _
    ring

theorem densePre_hasFDerivAt_W (W : V (Fin r × Fin c)) (b : Vec r) (x : Vec c) (i : Fin r) :
    HasFDerivAt (fun W : V (Fin r × Fin c) => densePre W b x i)
      (∑ j, (x j) • (ContinuousLinearMap.proj (R := ℝ) (φ := fun _ : Fin r × Fin c => ℝ) (i, j))) W := by
  unfold densePre
  apply HasFDerivAt.add_const
  apply HasFDerivAt.fun_sum
  intro j _
  exact ((ContinuousLinearMap.proj (R := ℝ) (φ := fun _ : Fin r × Fin c => ℝ) (i, j)).hasFDerivAt).mul_const (x j) |>.congr_fderiv (by
    ext v; simp)

/-- weight gradient: `(a'(pre) ⊙ g) ⊗ x` -/
theorem dense_vjp_weights (a a' : ℝ → ℝ) (W : V (Fin r × Fin c)) (b : Vec r) (x : Vec c)
    (ha : ∀ i, HasDerivAt a (a' (densePre W b x i)) (densePre W b x i)) :
    IsVJP (fun W => denseFn a W b x) W (fun g => weightGrad (delta a' (densePre W b x) g) x) := by
  refine ⟨ContinuousLinearMap.pi (fun i => (a' (densePre W b x i)) •
      (∑ j, (x j) • (ContinuousLinearMap.proj (R := ℝ) (φ := fun _ : Fin r × Fin c => ℝ) (i, j)))), ?_, ?_⟩
  · rw [hasFDerivAt_pi']
    intro i
    have := (ha i).comp_hasFDerivAt W (densePre_hasFDerivAt_W W b x i)
    simpa [denseFn, Function.comp_def] using this
  · intro g v
    simp only [dot, weightGrad, delta, ContinuousLinearMap.pi_apply, FunLike.coe_smul, Pi.smul_apply,
      FunLike.coe_sum, Finset.sum_apply, ContinuousLinearMap.proj_apply, smul_eq_mul]
    rw [Fintype.sum_prod_type]
    apply Finset.sum_congr rfl; intro i _
    rw [Finset.mul_sum, Finset.mul_sum]
    apply Finset.sum_congr rfl; intro j _
    ring

theorem densePre_hasFDerivAt_b (W : V (Fin r × Fin c)) (b : Vec r) (x : Vec c) (i : Fin r) :
    HasFDerivAt (fun b : Vec r => densePre W b x i)
      (ContinuousLinearMap.proj (R := ℝ) (φ := fun _ : Fin r => ℝ) i) b := by
  unfold densePre
  exact ((ContinuousLinearMap.proj (R := ℝ) (φ := fun _ : Fin r => ℝ) i).hasFDerivAt).const_add _

/-- bias gradient: `a'(pre) ⊙ g` -/
theorem dense_vjp_bias (a a' : ℝ → ℝ) (W : V (Fin r × Fin c)) (b : Vec r) (x : Vec c)
    (ha : ∀ i, HasDerivAt a (a' (densePre W b x i)) (densePre W b x i)) :
    IsVJP (fun b => denseFn a W b x) b (fun g => delta a' (densePre W b x) g) := by
  refine ⟨ContinuousLinearMap.pi (fun i => (a' (densePre W b x i)) •
      (ContinuousLinearMap.proj (R := ℝ) (φ := fun _ : Fin r => ℝ) i)), ?_, ?_⟩
  · rw [hasFDerivAt_pi']
    intro i
    have := (ha i).comp_hasFDerivAt b (densePre_hasFDerivAt_b W b x i)
    simpa [denseFn, Function.comp_def] using this
  · intro g v
    simp only [dot, delta, ContinuousLinearMap.pi_apply, FunLike.coe_smul, Pi.smul_apply,
      ContinuousLinearMap.proj_apply, smul_eq_mul]
    apply Finset.sum_congr rfl; intro i _
    ring

end VJP
