import Proofs.SkipTyped

/-!
# Typed layers, any table of additive skip connections, position-indexed encodings (C16 / C01)

`SkipTyped` with the tensor encoding of a slot chosen per POSITION: the same vectors may be held as a flat tensor at
one position and as a `c × h × w` tensor at another.  Two positions of one slot can be connected as soon as their
encodings are `Compat` (the library's reshape-then-add is adding the vectors): equal encodings that add
(`compat_of_encAdd`), or a flat and a spatial encoding of equal count (`SkipReshape.compat_flat_vol / compat_vol_flat`).
-/

set_option linter.unusedSectionVars false
set_option linter.unusedVariables false

namespace SkipTypedE
open Network Scalar VJP LayerChain SkipWalk SkipNet SkipPad

variable {K : Type} [Fintype K] [DecidableEq K] [Inhabited K] (T : K → Type) [∀ k, Fintype (T k)]
  (enc : Nat → (k : K) → Enc ⟨T k⟩)

open SkipTyped (TLink tlink slotAt Fits slotAt_succ tlink_vjp padded_layer_step)

variable {T}

/-- at the input `x` the layer, sitting at position `j`, computes its function and its backward function on the
    encodings of positions `j` and `j + 1` -/
def RealAt (j : Nat) (d : TLink T) (x : V (T d.k₁)) : Prop :=
  layerForward d.l (enc j d.k₁ x) = .ok (d.pre x, enc (j + 1) d.k₂ (d.f x), d.rc x) ∧
  ∀ g, layerBackward d.l (enc (j + 1) d.k₂ g) (enc j d.k₁ x) (d.pre x) (.ok (d.rc x)) =
    .ok (enc j d.k₁ (d.b x g), (d.wg x g).1, (d.wg x g).2)

/-- the position-indexed encoding over the universal type -/
def emE (ds : List (TLink T)) (j : Nat) : Enc (UIdx T) := encAt T (enc j) (slotAt ds j)

theorem tlink_realAt (ds : List (TLink T)) (hf : Fits ds) (j : Nat) (d : TLink T) (hd : ds[j]? = some d)
    (p : V (Σ k, T k)) (hr : RealAt enc j d (proj T d.k₁ p)) : (tlink d).Real (emE enc ds j) (emE enc ds (j + 1)) p := by
  have h0 : slotAt ds j = d.k₁ := by simp only [slotAt, hd]
  have h1 : slotAt ds (j + 1) = d.k₂ := slotAt_succ ds hf j d hd
  unfold emE
  rw [h0, h1]
  refine ⟨?_, fun g => ?_⟩
  · simp only [tlink, liftLink, encAt, proj_emb]
    exact hr.1
  · simp only [tlink, liftLink, encAt, proj_emb]
    exact hr.2 _

/-- two encodings of one slot that are compatible stay so over the universal type -/
theorem compat_lift (k : K) (e1 e2 : Enc ⟨T k⟩) (h : Compat e1 e2) :
    Compat (m := UIdx T) (fun u => e1 (proj T k u)) (fun u => e2 (proj T k u)) where
  fwd u v := by
    obtain ⟨w, h1, h2⟩ := h.fwd (proj T k u) (proj T k v)
    exact ⟨w, h1, by rw [h2]; rfl⟩
  bwd u v := by
    obtain ⟨w, h1, h2⟩ := h.bwd (proj T k u) (proj T k v)
    exact ⟨w, h1, by rw [h2]; rfl⟩
  self heq u v := by
    have he : e1 = e2 := by
      funext x
      have := congrFun heq (emb T k x)
      simpa only [proj_emb] using this
    obtain ⟨w, h1, h2⟩ := h.self he (proj T k u) (proj T k v)
    exact ⟨w, h1, by rw [h2]; rfl⟩

theorem typed_skip_enc_aux (n : Network ℝ) (ds : List (TLink T)) (tbl : List (Nat × Nat))
    (L : Nat) (hL : (ds.map tlink).length = L)
    (hl : n.layers = ds.map (·.l))
    (hc : n.connect = tbl) (hacc : n.skipaccumulation = .add) (hlb : n.loopbacks = [])
    (hkeys : (tbl.map Prod.fst).Nodup) (hbd : ∀ e ∈ tbl, e.2 ≤ e.1 ∧ e.1 < ds.length)
    (hw : ∀ e ∈ tbl, ∃ hs : slotAt ds e.2 = slotAt ds e.1, Compat (enc e.1 (slotAt ds e.1)) (hs ▸ enc e.2 (slotAt ds e.2)))
    (hfit : Fits ds)
    (x₀ : V (T (slotAt ds 0))) (ℓ : V (T (slotAt ds L)) → ℝ) (g₀ : V (T (slotAt ds L))) :
    let N := dagNet (ds.map tlink) tbl
    let F := fun z : V (T (slotAt ds 0)) => proj T (slotAt ds L) (SkipDag.U N L (emb T (slotAt ds 0) z))
    (∀ (j : Nat) d, ds[j]? = some d → RealAt enc j d (proj T d.k₁ (SkipDag.P N j (emb T (slotAt ds 0) x₀)))) →
    (∀ (j : Nat) d, ds[j]? = some d → IsVJP d.f (proj T d.k₁ (SkipDag.P N j (emb T (slotAt ds 0) x₀)))
      (d.b (proj T d.k₁ (SkipDag.P N j (emb T (slotAt ds 0) x₀))))) →
    IsGrad ℓ (F x₀) g₀ →
    ∃ t ws bs gs γ,
      n.forward (enc 0 (slotAt ds 0) x₀) = .ok t ∧ t.act.getLast? = some (enc L (slotAt ds L) (F x₀)) ∧
      n.backward (enc L (slotAt ds L) g₀) t = .ok (ws, bs, gs) ∧ gs.getLast? = some (enc 0 (slotAt ds 0) γ) ∧
      IsGrad (ℓ ∘ F) x₀ γ := by
  subst hL
  intro N F hr hk hg
  let head : Chain (UIdx T) (emE enc ds 0) (UIdx T) (emE enc ds 0) := Chain.nil _ _
  let tail : Chain (UIdx T) (emE enc ds (ds.map tlink).length) (UIdx T) (emE enc ds (ds.map tlink).length) := Chain.nil _ _
  have hnet : IsDagNet (em := emE enc ds) head (ds.map tlink) tbl tail n := by
    refine ⟨?_, ?_, hacc, hlb, hkeys, ?_⟩
    · rw [hl]; simp [LayerChain.layers, head, tail, tlink, liftLink]
    · rw [hc]
      simp only [LayerChain.layers, head, List.length_nil]
      have : shift 0 = id := by funext e; simp [shift]
      rw [this, List.map_id]
    · simpa using hbd
  have hget : ∀ (j : Nat) (lk : Link (UIdx T)), (ds.map tlink)[j]? = some lk → ∃ d, ds[j]? = some d ∧ lk = tlink d := by
    intro j lk hlk
    rw [List.getElem?_map] at hlk
    cases hq : ds[j]? with
    | none => rw [hq] at hlk; cases hlk
    | some d => rw [hq] at hlk; simp only [Option.map_some, Option.some.injEq] at hlk; exact ⟨d, rfl, hlk.symm⟩
  have hcomp : ∀ t s, Assoc.find? tbl t = some s → Compat (emE enc ds t) (emE enc ds s) := by
    intro t s hts
    obtain ⟨hs, hcmp⟩ := hw (t, s) (SkipTable.find?_mem tbl t s hts)
    simp only at hs hcmp
    have key : ∀ (k : K) (hs : k = slotAt ds t) (e2 : Enc ⟨T k⟩), Compat (enc t (slotAt ds t)) (hs ▸ e2) →
        Compat (m := UIdx T) (fun u => enc t (slotAt ds t) (proj T (slotAt ds t) u)) (fun u => e2 (proj T k u)) := by
      intro k hs e2 h
      subst hs
      exact compat_lift _ _ _ h
    exact key _ hs _ hcmp
  have hF' : ∀ z, proj T (slotAt ds (ds.map tlink).length)
      (dagFn (em := emE enc ds) head (ds.map tlink) tbl tail (emb T (slotAt ds 0) z)) = F z := by
    intro z
    simp only [dagFn, head, tail, gnet, GNet.fwd, F, N]
  have hgU : IsGrad (ℓ ∘ proj T (slotAt ds (ds.map tlink).length))
      (dagFn (em := emE enc ds) head (ds.map tlink) tbl tail (emb T (slotAt ds 0) x₀)) (emb T (slotAt ds (ds.map tlink).length) g₀) :=
    IsGrad.comp_vjp (isVJP_proj T (slotAt ds (ds.map tlink).length) _) (by rw [hF']; exact hg)
  obtain ⟨t, ws, bs, gs, γ, h1, h2, h3, h4, h5, _⟩ :=
    dag_network_gradient (em := emE enc ds) head (ds.map tlink) tbl tail n hnet hcomp (emb T (slotAt ds 0) x₀)
      trivial
      (fun j lk hlk => by
        obtain ⟨d, hd, rfl⟩ := hget j lk hlk
        exact tlink_realAt enc ds hfit j d hd _ (hr j d hd))
      trivial trivial
      (fun j lk hlk => by
        obtain ⟨d, hd, rfl⟩ := hget j lk hlk
        exact tlink_vjp d _ (hk j d hd))
      trivial (ℓ ∘ proj T (slotAt ds (ds.map tlink).length)) (emb T (slotAt ds (ds.map tlink).length) g₀) hgU
  refine ⟨t, ws, bs, gs, proj T (slotAt ds 0) γ, ?_, ?_, ?_, ?_, ?_⟩
  · have : emE enc ds 0 (emb T (slotAt ds 0) x₀) = enc 0 (slotAt ds 0) x₀ := by
      simp only [emE, encAt, proj_emb]
    rw [← this]; exact h1
  · rw [h2]
    simp only [emE, encAt, ← hF']
  · have : emE enc ds (ds.map tlink).length (emb T (slotAt ds (ds.map tlink).length) g₀) = enc (ds.map tlink).length (slotAt ds (ds.map tlink).length) g₀ := by
      simp only [emE, encAt, proj_emb]
    rw [← this]; exact h3
  · rw [h4]
    simp only [emE, encAt]
  · have h6 := IsGrad.comp_vjp (isVJP_emb T (slotAt ds 0) x₀) h5
    have : (ℓ ∘ proj T (slotAt ds (ds.map tlink).length) ∘ dagFn (em := emE enc ds) head (ds.map tlink) tbl tail) ∘ emb T (slotAt ds 0) = ℓ ∘ F := by
      funext z
      simp only [Function.comp_apply, hF']
    rw [← this]
    exact h6

/-- **any sequence of typed layers with any table of additive skip connections between positions of one slot whose
    encodings are compatible** (equal, or a flat and a spatial form of the same vectors),
    on the model's own `Network.forward` / `Network.backward` folds -/
theorem typed_skip_enc_network_gradient (n : Network ℝ) (ds : List (TLink T)) (tbl : List (Nat × Nat))
    (hl : n.layers = ds.map (·.l))
    (hc : n.connect = tbl) (hacc : n.skipaccumulation = .add) (hlb : n.loopbacks = [])
    (hkeys : (tbl.map Prod.fst).Nodup) (hbd : ∀ e ∈ tbl, e.2 ≤ e.1 ∧ e.1 < ds.length)
    (hw : ∀ e ∈ tbl, ∃ hs : slotAt ds e.2 = slotAt ds e.1, Compat (enc e.1 (slotAt ds e.1)) (hs ▸ enc e.2 (slotAt ds e.2)))
    (hfit : Fits ds)
    (x₀ : V (T (slotAt ds 0))) (ℓ : V (T (slotAt ds ds.length)) → ℝ) (g₀ : V (T (slotAt ds ds.length))) :
    let N := dagNet (ds.map tlink) tbl
    let F := fun z : V (T (slotAt ds 0)) => proj T (slotAt ds ds.length) (SkipDag.U N ds.length (emb T (slotAt ds 0) z))
    (∀ (j : Nat) d, ds[j]? = some d → RealAt enc j d (proj T d.k₁ (SkipDag.P N j (emb T (slotAt ds 0) x₀)))) →
    (∀ (j : Nat) d, ds[j]? = some d → IsVJP d.f (proj T d.k₁ (SkipDag.P N j (emb T (slotAt ds 0) x₀)))
      (d.b (proj T d.k₁ (SkipDag.P N j (emb T (slotAt ds 0) x₀))))) →
    IsGrad ℓ (F x₀) g₀ →
    ∃ t ws bs gs γ,
      n.forward (enc 0 (slotAt ds 0) x₀) = .ok t ∧ t.act.getLast? = some (enc ds.length (slotAt ds ds.length) (F x₀)) ∧
      n.backward (enc ds.length (slotAt ds ds.length) g₀) t = .ok (ws, bs, gs) ∧ gs.getLast? = some (enc 0 (slotAt ds 0) γ) ∧
      IsGrad (ℓ ∘ F) x₀ γ :=
  typed_skip_enc_aux enc n ds tbl ds.length (List.length_map _) hl hc hacc hlb hkeys hbd hw hfit x₀ ℓ g₀

end SkipTypedE
