import Proofs.SkipNet

/-!
# Links for networks with skip tables: dense layers and shape-preserving convolutions (C16 / C01)
-/

set_option linter.unusedSectionVars false
set_option linter.unusedVariables false

namespace SkipNet
open Network Scalar VJP Walk LoopSpec DenseStack LayerChain SkipWalk ChainLinks DenseBridge

/-- a square dense layer as a link -/
noncomputable def denseLink {m : ℕ} (q : Act × V (Fin m × Fin m) × Vec m) : Link (iVec m) where
  l := .dense (denseLayer q.1 q.2.1 q.2.2)
  f := denseFn (Act.f q.1) q.2.1 q.2.2
  b := denseBwd q.1 q.2.1 q.2.2
  pre := fun x => vecT (densePre q.2.1 q.2.2 x)
  rc := fun _ => .none
  wg := denseWG q.1 q.2.1 q.2.2

theorem denseLink_real {m : ℕ} (q : Act × V (Fin m × Fin m) × Vec m) (ha : q.1 ≠ .softmax) (hm : 0 < m) (p : Vec m) :
    (denseLink q).Real (eVec m) (eVec m) p := by
  obtain ⟨h1, h2⟩ := real_dense (denseLayer q.1 q.2.1 q.2.2) q.1 q.2.1 q.2.2 (denseLayer_isDense q.1 q.2.1 q.2.2) ha hm hm p
  exact ⟨h1, h2⟩

theorem denseLink_vjp {m : ℕ} (q : Act × V (Fin m × Fin m) × Vec m) (ha : q.1 ≠ .softmax) (p : Vec m)
    (hk : ∀ i, NoKink q.1 (densePre q.2.1 q.2.2 p i)) :
    IsVJP (ι := (iVec m).T) (κ := (iVec m).T) (denseLink q).f p ((denseLink q).b p) :=
  vjp_dense q.1 ha q.2.1 q.2.2 p hk

open ConvVJP ConvBridge ConvNet in
/-- a shape-preserving convolution as a link -/
noncomputable def convLink {f kh kw h w : ℕ} (q : Conv ℝ × Act × V (I4 f f kh kw)) : Link (iVol f h w) where
  l := .conv q.1
  f := convFn q.1 q.2.1 q.2.2 h w h w
  b := convBwdX q.1 q.2.1 q.2.2 h w h w
  pre := fun x => T3 (ConvBridge.pre q.1 q.2.2 h w h w x)
  rc := fun _ => .none
  wg := fun x g => (.one (T4 (convBwdKer q.1 q.2.1 q.2.2 h w h w x g)), .one none)

open ConvVJP ConvBridge ConvNet in
theorem convLink_real {f kh kw h w : ℕ} (q : Conv ℝ × Act × V (I4 f f kh kw)) (hl : IsConv q.1 q.2.1 q.2.2 h w h w)
    (ha : q.2.1 ≠ .softmax) (hf : q.1.flatten = false) (p : V (I3 f h w)) :
    (convLink (h := h) (w := w) q).Real (eVol f h w) (eVol f h w) p := by
  have r := real_conv q.1 q.2.1 q.2.2 hl ha hf p
  exact ⟨r.1, r.2⟩

open ConvVJP ConvBridge ConvNet in
theorem convLink_vjp {f kh kw h w : ℕ} (q : Conv ℝ × Act × V (I4 f f kh kw)) (hl : IsConv q.1 q.2.1 q.2.2 h w h w)
    (ha : q.2.1 ≠ .softmax) (p : V (I3 f h w)) (hk : ∀ i, NoKink q.2.1 (ConvBridge.pre q.1 q.2.2 h w h w p i)) :
    IsVJP (ι := (iVol f h w).T) (κ := (iVol f h w).T) (convLink (h := h) (w := w) q).f p ((convLink (h := h) (w := w) q).b p) :=
  vjp_conv q.1 q.2.1 q.2.2 hl ha p hk

end SkipNet
