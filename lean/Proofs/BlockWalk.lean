import Model.Network
import Proofs.GetLemmas

/-!
# A feedback block without skip connections: its backward pass is the plain reverse walk over the
unrolled layer sequence (helper lemmas for C01 / C11)
-/

set_option linter.unusedSectionVars false
set_option linter.unusedVariables false

namespace BlockWalk
open Scalar Feedback

variable {α : Type} [Scalar α]

/-- the plain reverse walk over the unrolled `(index, layer)` pairs (last first): each layer's backward
    gets the gradient produced by the layer after it, the activation it received and its own
    pre-activation; results are `(input gradients, weight gradients, bias gradients)` in walk order -/
def blockBackSpec (unactivated activated : List (Tensor α)) : List (Nat × InnerLayer α) → Tensor α →
    Except Err (List (Tensor α) × List (Tensor α) × List (Option (Tensor α)))
  | [], _ => .ok ([], [], [])
  | il :: rest, g =>
    match L.get activated il.1, L.get unactivated il.1 with
    | .ok input, .ok output =>
      match innerBackward il.2 g input output with
      | .error e => .error e
      | .ok (ig, wg, bg) =>
        match blockBackSpec unactivated activated rest ig with
        | .error e => .error e
        | .ok (gs, ws, bs) => .ok (ig :: gs, wg :: ws, bg :: bs)
    | .error e, _ => .error e
    | _, .error e => .error e

theorem backFold_error (n : Nat) (inv : List (Nat × List Nat)) (un act : List (Tensor α)) (e : Err)
    (l : List (Nat × InnerLayer α)) :
    l.foldl (backwardStep n inv un act) (.error e) = .error e := by
  induction l with
  | nil => rfl
  | cons a l ih => simp only [List.foldl_cons, backwardStep]; exact ih

theorem back_fold (n : Nat) (un act : List (Tensor α)) :
    ∀ (ils : List (Nat × InnerLayer α)) (grads wgs : List (Tensor α)) (bgs : List (Option (Tensor α))) (g : Tensor α),
    grads.getLast? = some g →
    ils.foldl (backwardStep n [] un act) (.ok (grads, wgs, bgs)) =
      match blockBackSpec un act ils g with
      | .error e => .error e
      | .ok (gs, ws, bs) => .ok (grads ++ gs, wgs ++ ws, bgs ++ bs)
  | [], grads, wgs, bgs, g, _ => by simp [blockBackSpec]
  | il :: rest, grads, wgs, bgs, g, hg => by
    simp only [List.foldl_cons, blockBackSpec, backwardStep]
    cases hi : L.get act il.1 with
    | error e => simp only []; rw [backFold_error]
    | ok input =>
      cases ho : L.get un il.1 with
      | error e => simp only []; rw [backFold_error]
      | ok output =>
        simp only [withSkips, Assoc.find?, hg]
        cases hb : innerBackward il.2 g input output with
        | error e => simp only []; rw [backFold_error]
        | ok r =>
          obtain ⟨ig, wg, bg⟩ := r
          simp only []
          rw [back_fold n un act rest (grads ++ [ig]) (wgs ++ [wg]) (bgs ++ [bg]) ig (by simp)]
          cases blockBackSpec un act rest ig with
          | error e => rfl
          | ok st =>
            obtain ⟨gs, ws, bs⟩ := st
            simp [List.append_assoc]

/-- the gradient handed out of the block: the last input gradient of the walk (the incoming gradient
    itself for an empty block) -/
def lastGrad (g : Tensor α) (gs : List (Tensor α)) : Tensor α := (g :: gs).getLast (by simp)

/-- **`Feedback::backward` of a block without skip connections is the plain reverse walk** -/
theorem backward_eq_blockBackSpec (f : Feedback α) (hc : f.connect = []) (g : Tensor α)
    (un act : List (Tensor α)) :
    f.backward g un act =
      match blockBackSpec un act (List.zip (List.range f.layers.length) f.layers).reverse g with
      | .error e => .error e
      | .ok (gs, ws, bs) => .ok (lastGrad g gs, ws, bs) := by
  have hinv : invertConnect f.connect = [] := by rw [hc]; rfl
  unfold Feedback.backward
  rw [hinv, back_fold f.layers.length un act _ [g] [] [] g (by simp)]
  cases blockBackSpec un act (List.zip (List.range f.layers.length) f.layers).reverse g with
  | error e => rfl
  | ok st =>
    obtain ⟨gs, ws, bs⟩ := st
    simp only [List.nil_append, lastGrad]
    have : ([g] ++ gs).getLast? = some ((g :: gs).getLast (by simp)) := by
      simp [List.getLast?_eq_some_getLast]
    rw [this]

end BlockWalk
