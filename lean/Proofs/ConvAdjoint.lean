import Proofs.Adjoint
import Props.C02

/-!
# Convolution: the backward pass is the transpose of the forward map (both arguments)

Forward: `pre[f][m][n] = Σ_{c,h,w} [guard] K[f][c][h][w] · X̃[c][m·s₀+h·d₀][n·s₁+w·d₁]` on the padded input
(`C02.convolveAt_spec`).  Backward (`Conv.paddedInputGrad`, `Conv.kernelGrad`) walks `f, c, h, w` and the
guarded taps `(m, n)`.  Both adjoint identities reduce to re-ordering one six-fold finite sum.
-/

open Finset

namespace ConvAdjoint
open Scatter Adjoint

/-! ### list sums as finite sums -/

theorem sum_map_range (n : ℕ) (f : ℕ → ℝ) : ((List.range n).map f).sum = ∑ i ∈ range n, f i := by
  induction n with
  | zero => simp
  | succ n ih => rw [List.range_succ, List.map_append, List.sum_append, ih, sum_range_succ]; simp

theorem sum_map_flatMap {β γ : Type} (l : List β) (f : β → List γ) (g : γ → ℝ) :
    ((l.flatMap f).map g).sum = (l.map (fun a => ((f a).map g).sum)).sum := by
  induction l with
  | nil => simp
  | cons a l ih => simp only [List.flatMap_cons, List.map_append, List.sum_append, List.map_cons, List.sum_cons, ih]

theorem sum_map_filterMap {β γ : Type} (l : List β) (φ : β → Option γ) (g : γ → ℝ) :
    ((l.filterMap φ).map g).sum = (l.map (fun a => match φ a with | some t => g t | none => 0)).sum := by
  induction l with
  | nil => simp
  | cons a l ih =>
    simp only [List.filterMap_cons, List.map_cons, List.sum_cons]
    cases φ a with
    | none => simp [ih]
    | some t => simp [ih]

/-- the guarded tap list of one kernel position as a double finite sum -/
theorem taps_sum (l : Conv ℝ) (oh ow h w ph pw : ℕ) (g : ℕ × ℕ × ℕ × ℕ → ℝ) :
    ((Conv.taps l oh ow h w ph pw).map g).sum =
      ∑ m ∈ range oh, ∑ n ∈ range ow,
        (if m * l.stride.1 + h * l.dilation.1 < ph ∧ n * l.stride.2 + w * l.dilation.2 < pw
         then g (m, n, m * l.stride.1 + h * l.dilation.1, n * l.stride.2 + w * l.dilation.2) else 0) := by
  unfold Conv.taps
  rw [sum_map_flatMap, sum_map_range]
  apply sum_congr rfl; intro m _
  rw [sum_map_filterMap, sum_map_range]
  apply sum_congr rfl; intro n _
  simp only []
  by_cases hg : m * l.stride.1 + h * l.dilation.1 < ph ∧ n * l.stride.2 + w * l.dilation.2 < pw
  · simp only [hg, and_self, if_true]
  · simp only [hg, if_false]

/-- moving the two innermost of five nested sums to the outside -/
theorem sum_rotate (A B C D E : ℕ) (F : ℕ → ℕ → ℕ → ℕ → ℕ → ℝ) :
    (∑ a ∈ range A, ∑ b ∈ range B, ∑ c ∈ range C, ∑ d ∈ range D, ∑ e ∈ range E, F a b c d e) =
      ∑ c ∈ range C, ∑ d ∈ range D, ∑ e ∈ range E, ∑ a ∈ range A, ∑ b ∈ range B, F a b c d e := by
  -- b past c, d, e
  have h1 : ∀ a, (∑ b ∈ range B, ∑ c ∈ range C, ∑ d ∈ range D, ∑ e ∈ range E, F a b c d e) =
      ∑ c ∈ range C, ∑ d ∈ range D, ∑ e ∈ range E, ∑ b ∈ range B, F a b c d e := by
    intro a
    rw [sum_comm]
    apply sum_congr rfl; intro c _
    rw [sum_comm]
    apply sum_congr rfl; intro d _
    rw [sum_comm]
  simp only [h1]
  rw [sum_comm]
  apply sum_congr rfl; intro c _
  rw [sum_comm]
  apply sum_congr rfl; intro d _
  rw [sum_comm]

/-! ### kernels as a 4-D table -/

theorem get4D_eq (ks : List (V3 ℝ)) (f c h w : ℕ) :
    L.get4D 0 ks f c h w = L.get3D 0 (ks.getD f []) c h w := by
  unfold L.get4D
  rw [L.get?_eq, List.getD_eq_getElem?_getD]
  cases ks[f]? with
  | none => simp [L.get3D, L.get?]
  | some t => simp

/-! ### the input -/

/-- the updates of `Conv.paddedInputGrad`, in loop order -/
noncomputable def pgUpdates (l : Conv ℝ) (ks : List (V3 ℝ)) (delta : V3 ℝ) (kf kc kh kw oh ow ph pw : ℕ) : List Upd :=
  (List.range kf).flatMap (fun f => (List.range kc).flatMap (fun c =>
    (List.range kh).flatMap (fun h => (List.range kw).flatMap (fun w =>
      (Conv.taps l oh ow h w ph pw).map (fun t =>
        ⟨c, t.2.2.1, t.2.2.2, L.get4D 0 ks f c h w * L.get3D 0 delta f t.1 t.2.1⟩)))))

theorem paddedInputGrad_as_updates (l : Conv ℝ) (ks : List (V3 ℝ)) (delta : V3 ℝ) (kf kc kh kw oh ow ph pw : ℕ) :
    Conv.paddedInputGrad l ks delta kf kc kh kw oh ow ph pw =
      (pgUpdates l ks delta kf kc kh kw oh ow ph pw).foldl (fun acc u => L.mod3 (· + u.v) acc u.c u.i u.j)
        (L.replicate3 kc ph pw 0) := by
  unfold Conv.paddedInputGrad pgUpdates
  simp only [List.foldl_flatMap, List.foldl_map]

theorem mem_taps (l : Conv ℝ) (oh ow h w ph pw : ℕ) (t : ℕ × ℕ × ℕ × ℕ) (ht : t ∈ Conv.taps l oh ow h w ph pw) :
    t.1 < oh ∧ t.2.1 < ow ∧ t.2.2.1 < ph ∧ t.2.2.2 < pw := by
  unfold Conv.taps at ht
  simp only [List.mem_flatMap, List.mem_range, List.mem_filterMap] at ht
  obtain ⟨m, hm, n, hn, h⟩ := ht
  split at h
  · rename_i hg
    simp only [Option.some.injEq] at h
    subst h
    exact ⟨hm, hn, hg.1, hg.2⟩
  · simp at h

/-- **adjoint identity for the convolution's (padded) input**: for every upstream `δ` and every padded
    direction `vp`, `⟨δ, conv(vp)⟩ = ⟨padded input gradient(δ), vp⟩` — every stride, dilation, kernel -/
theorem padded_input_adjoint (l : Conv ℝ) (ks : List (V3 ℝ)) (delta vp : V3 ℝ) (kf kc kh kw oh ow ph pw : ℕ) :
    (∑ f ∈ range kf, ∑ m ∈ range oh, ∑ n ∈ range ow,
        L.get3D 0 delta f m n * Conv.convolveAt l vp (ks.getD f []) kc kh kw ph pw m n) =
      ip3 kc ph pw (Conv.paddedInputGrad l ks delta kf kc kh kw oh ow ph pw) vp := by
  rw [paddedInputGrad_as_updates, ip3_scatter_zeros]
  · -- right-hand side as nested finite sums
    unfold pgUpdates
    rw [sum_map_flatMap, sum_map_range]
    apply sum_congr rfl; intro f _
    rw [sum_map_flatMap, sum_map_range]
    -- left: push δ inside and rotate (m, n) past (c, h, w)
    simp only [C02.convolveAt_spec, mul_sum]
    rw [sum_rotate oh ow kc kh kw]
    apply sum_congr rfl; intro c _
    rw [sum_map_flatMap, sum_map_range]
    apply sum_congr rfl; intro h _
    rw [sum_map_flatMap, sum_map_range]
    apply sum_congr rfl; intro w _
    rw [List.map_map, taps_sum]
    apply sum_congr rfl; intro m _
    apply sum_congr rfl; intro n _
    simp only [Function.comp, get4D_eq]
    split <;> ring
  · intro u hu
    unfold pgUpdates at hu
    simp only [List.mem_flatMap, List.mem_range, List.mem_map] at hu
    obtain ⟨f, _, c, hc, h, _, w, _, t, ht, rfl⟩ := hu
    have := mem_taps l oh ow h w ph pw t ht
    exact ⟨hc, this.2.2.1, this.2.2.2⟩


/-! ### the kernels -/

theorem get?_map_range {β : Type} (n : ℕ) (g : ℕ → β) (i : ℕ) (hi : i < n) :
    L.get? ((List.range n).map g) i = some (g i) := by
  rw [L.get?_eq]
  simp [hi]

/-- entry `(f, c, h, w)` of the kernel gradient: the guarded sum over the taps -/
theorem kernelGrad_get (l : Conv ℝ) (xp delta : V3 ℝ) (kf kc kh kw oh ow ph pw f c h w : ℕ)
    (hf : f < kf) (hc : c < kc) (hh : h < kh) (hw : w < kw) :
    L.get4D 0 (Conv.kernelGrad l xp delta kf kc kh kw oh ow ph pw) f c h w =
      ((Conv.taps l oh ow h w ph pw).map
        (fun t => L.get3D 0 xp c t.2.2.1 t.2.2.2 * L.get3D 0 delta f t.1 t.2.1)).sum := by
  unfold Conv.kernelGrad L.get4D L.get3D
  rw [get?_map_range _ _ _ hf]
  simp only []
  rw [get?_map_range _ _ _ hc]
  simp only []
  rw [get?_map_range _ _ _ hh]
  simp only []
  rw [get?_map_range _ _ _ hw]
  simp only [Option.getD_some]
  rw [Folds.list_fold_sum, zero_add]

/-- **adjoint identity for the convolution's kernels**: for every upstream `δ` and every kernel
    direction `dK`, `⟨δ, conv_{dK}(xp)⟩ = ⟨kernel gradient(δ), dK⟩` — every stride, dilation, size -/
theorem kernel_adjoint (l : Conv ℝ) (dK : List (V3 ℝ)) (delta xp : V3 ℝ) (kf kc kh kw oh ow ph pw : ℕ) :
    (∑ f ∈ range kf, ∑ m ∈ range oh, ∑ n ∈ range ow,
        L.get3D 0 delta f m n * Conv.convolveAt l xp (dK.getD f []) kc kh kw ph pw m n) =
      ∑ f ∈ range kf, ∑ c ∈ range kc, ∑ h ∈ range kh, ∑ w ∈ range kw,
        L.get4D 0 (Conv.kernelGrad l xp delta kf kc kh kw oh ow ph pw) f c h w * L.get4D 0 dK f c h w := by
  apply sum_congr rfl; intro f hf
  simp only [C02.convolveAt_spec, mul_sum]
  rw [sum_rotate oh ow kc kh kw]
  apply sum_congr rfl; intro c hc
  apply sum_congr rfl; intro h hh
  apply sum_congr rfl; intro w hw
  rw [kernelGrad_get l xp delta kf kc kh kw oh ow ph pw f c h w (mem_range.mp hf) (mem_range.mp hc)
    (mem_range.mp hh) (mem_range.mp hw), taps_sum, sum_mul]
  apply sum_congr rfl; intro m _
  rw [sum_mul]
  apply sum_congr rfl; intro n _
  simp only [get4D_eq]
  split <;> ring


/-! ### padding and cropping are adjoint -/

/-- a guarded sum over a window is the sum over the window -/
theorem sum_window (N p n : ℕ) (hN : p + n ≤ N) (G : ℕ → ℝ) :
    (∑ y ∈ range N, (if p ≤ y ∧ y < p + n then G y else 0)) = ∑ i ∈ range n, G (p + i) := by
  rw [← sum_filter]
  have : (range N).filter (fun y => p ≤ y ∧ y < p + n) = Ico p (p + n) := by
    ext y
    simp only [mem_filter, mem_range, mem_Ico]
    constructor
    · rintro ⟨_, h⟩; exact h
    · rintro h; exact ⟨by omega, h⟩
  rw [this, sum_Ico_eq_sum_range]
  simp

theorem getD_take_drop {β : Type} (l : List β) (p n i : ℕ) (d : β) (hi : i < n) :
    ((l.drop p).take n).getD i d = l.getD (p + i) d := by
  simp only [List.getD_eq_getElem?_getD, List.getElem?_take, hi, if_true, List.getElem?_drop]

/-- inside the original extent the cropped gradient is the padded gradient shifted by the padding -/
theorem crop_get (l : Conv ℝ) (pg : V3 ℝ) (ih iw c i j : ℕ) (hi : i < ih) (hj : j < iw) :
    L.get3D 0 (Conv.crop l pg ih iw) c i j = L.get3D 0 pg c (l.padding.1 + i) (l.padding.2 + j) := by
  rw [L.get3D_eq, L.get3D_eq]
  unfold Conv.crop
  have h1 : (pg.map (fun ch => ((ch.drop l.padding.1).take ih).map (fun row => (row.drop l.padding.2).take iw))).getD c [] =
      (((pg.getD c []).drop l.padding.1).take ih).map (fun row => (row.drop l.padding.2).take iw) := by
    simp only [List.getD_eq_getElem?_getD, List.getElem?_map]
    cases pg[c]? <;> simp
  rw [h1]
  have h2 : ((((pg.getD c []).drop l.padding.1).take ih).map (fun row => (row.drop l.padding.2).take iw)).getD i [] =
      List.take iw (List.drop l.padding.2 ((((pg.getD c []).drop l.padding.1).take ih).getD i [])) := by
    simp only [List.getD_eq_getElem?_getD, List.getElem?_map]
    cases (List.take ih (List.drop l.padding.1 (pg[c]?.getD [])))[i]? <;> simp
  rw [h2, getD_take_drop _ _ _ _ _ hj, getD_take_drop _ _ _ _ _ hi]

/-- **`⟨padded gradient, pad(v)⟩ = ⟨crop(padded gradient), v⟩`** whenever the padded tensor holds `v`
    shifted by the padding and zero elsewhere (which `C02.pad3d_get` proves of `pad3d`) -/
theorem pad_crop_adjoint (l : Conv ℝ) (pg v vp : V3 ℝ) (kc ih iw : ℕ)
    (hvp : ∀ ch i j, L.get3D 0 vp ch i j =
      if l.padding.1 ≤ i ∧ i < l.padding.1 + ih ∧ l.padding.2 ≤ j ∧ j < l.padding.2 + iw
      then L.get3D 0 v ch (i - l.padding.1) (j - l.padding.2) else 0) :
    ip3 kc (ih + 2 * l.padding.1) (iw + 2 * l.padding.2) pg vp = ip3 kc ih iw (Conv.crop l pg ih iw) v := by
  unfold ip3
  apply sum_congr rfl; intro c _
  have hrow : ∀ y, (∑ x ∈ range (iw + 2 * l.padding.2), L.get3D 0 pg c y x * L.get3D 0 vp c y x) =
      if l.padding.1 ≤ y ∧ y < l.padding.1 + ih then
        ∑ j ∈ range iw, L.get3D 0 pg c y (l.padding.2 + j) * L.get3D 0 v c (y - l.padding.1) j
      else 0 := by
    intro y
    by_cases hy : l.padding.1 ≤ y ∧ y < l.padding.1 + ih
    · rw [if_pos hy]
      have hw := sum_window (iw + 2 * l.padding.2) l.padding.2 iw (by omega)
        (fun x => L.get3D 0 pg c y x * L.get3D 0 v c (y - l.padding.1) (x - l.padding.2))
      simp only [Nat.add_sub_cancel_left] at hw
      rw [← hw]
      apply sum_congr rfl; intro x _
      rw [hvp]
      by_cases hx : l.padding.2 ≤ x ∧ x < l.padding.2 + iw
      · rw [if_pos ⟨hy.1, hy.2, hx.1, hx.2⟩, if_pos hx]
      · rw [if_neg (fun h => hx ⟨h.2.2.1, h.2.2.2⟩), if_neg hx]; ring
    · rw [if_neg hy]
      apply sum_eq_zero; intro x _
      rw [hvp, if_neg (fun h => hy ⟨h.1, h.2.1⟩)]; ring
  simp only [hrow]
  rw [sum_window (ih + 2 * l.padding.1) l.padding.1 ih (by omega)
    (fun y => ∑ j ∈ range iw, L.get3D 0 pg c y (l.padding.2 + j) * L.get3D 0 v c (y - l.padding.1) j)]
  apply sum_congr rfl; intro i hi
  apply sum_congr rfl; intro j hj
  rw [crop_get l pg ih iw c i j (mem_range.mp hi) (mem_range.mp hj), Nat.add_sub_cancel_left]

end ConvAdjoint
