import Model.Network
import Proofs.GetLemmas
import Proofs.Loop

/-!
# Networks without skip or loop connections: forward is the layer sequence, backward is the plain
reverse walk (helper lemmas for C01 / C02)
-/

set_option linter.unusedSectionVars false
set_option linter.unusedVariables false

namespace Walk
open Network Scalar FeedbackSpec LoopSpec

variable {α : Type} [Scalar α]

/-! ### forward -/

theorem forwardFold_error (n : Network α) (e : Err) (l : List (Nat × Layer α)) :
    l.foldl (forwardLayer n) (.error e) = .error e := by
  induction l with
  | nil => rfl
  | cons a l ih => simp only [List.foldl_cons, forwardLayer]; exact ih

/-- the range fold only appends to what it was given -/
theorem rangeFold_prefix : ∀ (ls : List (Layer α)) (a b : List (Tensor α)) (c : List (Recorded α)) (x : Tensor α),
    ls.foldl rangeStep (.ok (a, b, c, x)) =
      match ls.foldl rangeStep (.ok ([], [], [], x)) with
      | .error e => .error e
      | .ok (p, q, r, y) => .ok (a ++ p, b ++ q, c ++ r, y)
  | [], a, b, c, x => by simp
  | l :: ls, a, b, c, x => by
    simp only [List.foldl_cons, rangeStep]
    cases layerForward l x with
    | error e => simp only [rangeFold_error]
    | ok r =>
      obtain ⟨pre, post, rc⟩ := r
      simp only []
      rw [rangeFold_prefix ls (a ++ [pre]) (b ++ [post]) (c ++ [rc]) post,
        rangeFold_prefix ls ([] ++ [pre]) ([] ++ [post]) ([] ++ [rc]) post]
      cases ls.foldl rangeStep (.ok ([], [], [], post)) with
      | error e => rfl
      | ok st =>
        obtain ⟨p, q, r, y⟩ := st
        simp [List.append_assoc]

/-- without skip and loop connections the position-indexed fold of `Network::forward` is the plain
    layer sequence -/
theorem forward_fold (n : Network α) (hc : n.connect = []) (hl : n.loopbacks = []) :
    ∀ (ls : List (Layer α)) (k : Nat) (t : Trace α) (x : Tensor α),
    t.act.getLast? = some x → t.act.length = k + 1 →
    (List.zip (List.range' k ls.length) ls).foldl (forwardLayer n) (.ok t) =
      match ls.foldl rangeStep (.ok ([], [], [], x)) with
      | .error e => .error e
      | .ok (p, q, r, _) => .ok { pre := t.pre ++ p, act := t.act ++ q, recs := t.recs ++ r }
  | [], k, t, x, _, _ => by simp
  | l :: ls, k, t, x, hx, hlen => by
    simp only [List.length_cons, List.range'_succ, List.zip_cons_cons, List.foldl_cons]
    have hin : skipInput n t.act k = .ok x := by
      have hg : L.get t.act k = .ok x := get_last _ _ _ (by omega) hx
      simp [skipInput, hg, hc, Assoc.find?]
    simp only [forwardLayer, hin, rangeStep]
    cases hf : layerForward l x with
    | error e => simp only []; rw [forwardFold_error, rangeFold_error]
    | ok r =>
      obtain ⟨pre, post, rc⟩ := r
      simp only [hl, Assoc.find?]
      rw [forward_fold n hc hl ls (k + 1) _ post (by simp) (by simp [hlen]),
        rangeFold_prefix ls ([] ++ [pre]) ([] ++ [post]) ([] ++ [rc]) post]
      cases ls.foldl rangeStep (.ok ([], [], [], post)) with
      | error e => rfl
      | ok st =>
        obtain ⟨p, q, r, y⟩ := st
        simp [List.append_assoc]

/-- **`Network::forward` of a network without skip and loop connections is `_forward` over all layers:
    each layer receives the previous layer's output** -/
theorem forward_eq_runRange (n : Network α) (hc : n.connect = []) (hl : n.loopbacks = []) (x : Tensor α) :
    n.forward x = match runRange n.layers x with
      | .error e => .error e
      | .ok (p, q, r) => .ok { pre := p, act := x :: q, recs := r } := by
  unfold Network.forward runRange
  rw [List.range_eq_range', forward_fold n hc hl n.layers 0 _ x (by simp) (by simp)]
  cases n.layers.foldl rangeStep (.ok ([], [], [], x)) with
  | error e => rfl
  | ok st =>
    obtain ⟨p, q, r, y⟩ := st
    simp

/-! ### backward -/

/-- the plain reverse walk over `(index, layer)` pairs (last layer first): each layer's backward gets
    the gradient produced by the layer after it, the input it received and its pre-activation -/
def backSpec (t : Trace α) : List (Nat × Layer α) → Tensor α →
    Except Err (List (WGrad α) × List (BGrad α) × List (Tensor α))
  | [], _ => .ok ([], [], [])
  | il :: rest, g =>
    match L.get t.act il.1, L.get t.pre il.1 with
    | .ok input, .ok output =>
      match layerBackward il.2 g input output (L.get t.recs il.1) with
      | .error e => .error e
      | .ok (ig, wg, bg) =>
        match backSpec t rest ig with
        | .error e => .error e
        | .ok (ws, bs, gs) => .ok (wg :: ws, bg :: bs, ig :: gs)
    | _, _ => .error .index

theorem backFold_error (n : Network α) (t : Trace α) (inv : List (Nat × List Nat)) (e : Err) (l : List (Nat × Layer α)) :
    l.foldl (backwardStep n t inv) (.error e) = .error e := by
  induction l with
  | nil => rfl
  | cons a l ih => simp only [List.foldl_cons, backwardStep]; exact ih

/-- forget the processed-input gradients -/
def dropProcessed (r : Except Err (BackState α)) : Except Err (List (WGrad α) × List (BGrad α) × List (Tensor α)) :=
  match r with
  | .error e => .error e
  | .ok (w, b, gs, _) => .ok (w, b, gs)

theorem back_fold (n : Network α) (hc : n.connect = []) (t : Trace α) :
    ∀ (ils : List (Nat × Layer α)) (wgs : List (WGrad α)) (bgs : List (BGrad α)) (grads processed : List (Tensor α)) (g : Tensor α),
    grads.getLast? = some g →
    dropProcessed (ils.foldl (backwardStep n t []) (.ok (wgs, bgs, grads, processed))) =
      match backSpec t ils g with
      | .error e => .error e
      | .ok (ws, bs, gs) => .ok (wgs ++ ws, bgs ++ bs, grads ++ gs)
  | [], wgs, bgs, grads, processed, g, _ => by simp [backSpec, dropProcessed]
  | il :: rest, wgs, bgs, grads, processed, g, hg => by
    simp only [List.foldl_cons, backSpec]
    have hsk : skipInput n t.act il.1 = L.get t.act il.1 := by
      simp only [skipInput, hc, Assoc.find?]
      cases L.get t.act il.1 <;> rfl
    simp only [backwardStep, hsk, hg]
    cases hi : L.get t.act il.1 with
    | error e => simp only []; rw [backFold_error]; rfl
    | ok input =>
      cases ho : L.get t.pre il.1 with
      | error e => simp only []; rw [backFold_error]; rfl
      | ok output =>
        simp only []
        cases hb : layerBackward il.2 g input output (L.get t.recs il.1) with
        | error e => simp only []; rw [backFold_error]; rfl
        | ok r =>
          obtain ⟨ig, wg, bg⟩ := r
          simp only [Assoc.find?]
          rw [back_fold n hc t rest (wgs ++ [wg]) (bgs ++ [bg]) (grads ++ [ig]) (processed ++ [ig]) ig (by simp)]
          cases backSpec t rest ig with
          | error e => rfl
          | ok st =>
            obtain ⟨ws, bs, gs⟩ := st
            simp [List.append_assoc]

/-- **`Network::backward` of a network without skip connections is the plain reverse walk** -/
theorem backward_eq_backSpec (n : Network α) (hc : n.connect = []) (g : Tensor α) (t : Trace α) :
    n.backward g t =
      match backSpec t (List.zip (List.range n.layers.length) n.layers).reverse g with
      | .error e => .error e
      | .ok (ws, bs, gs) => .ok (ws, bs, g :: gs) := by
  have hinv : invertSkips n.connect = [] := by rw [hc]; rfl
  show dropProcessed _ = _
  rw [hinv]
  have := back_fold n hc t (List.zip (List.range n.layers.length) n.layers).reverse [] [] [g] [g] g (by simp)
  simp only [List.nil_append, List.singleton_append] at this
  exact this

end Walk
