import Proofs.ConvBridge
import Mathlib.Logic.Equiv.Fin.Basic
import Mathlib.Data.List.OfFn
import Props.C14

/-!
# Flattening a `c × h × w` tensor and reading a flat vector back as one: re-indexings along the
row-major bijection (helper lemmas for C01)
-/

set_option linter.unusedSectionVars false
set_option linter.unusedVariables false

namespace Flat3
open VJP ConvVJP ConvBridge DenseBridge L

/-- row-major position ↔ (channel, row, column) -/
def e (c h w : ℕ) : Fin (c * h * w) ≃ I3 c h w :=
  finProdFinEquiv.symm.trans ((Equiv.prodCongr finProdFinEquiv.symm (Equiv.refl _)).trans (Equiv.prodAssoc _ _ _))

theorem e_symm_val {c h w : ℕ} (q : I3 c h w) : ((e c h w).symm q).val = (q.1.val * h + q.2.1.val) * w + q.2.2.val := by
  obtain ⟨a, i, j⟩ := q
  simp [e, finProdFinEquiv]
  ring

theorem e_apply {c h w : ℕ} (a : Fin c) (i : Fin h) (j : Fin w) (hlt : (a.val * h + i.val) * w + j.val < c * h * w) :
    e c h w ⟨(a.val * h + i.val) * w + j.val, hlt⟩ = (a, i, j) := by
  apply (e c h w).symm.injective
  rw [Equiv.symm_apply_apply]
  apply Fin.ext
  rw [e_symm_val]

/-- flattening is the re-indexing along `e` -/
theorem flatten3_toList3 {c h w : ℕ} (v : V (I3 c h w)) :
    flatten3 (toList3 v) = List.ofFn (fun k : Fin (c * h * w) => v (e c h w k)) := by
  rw [List.ofFn_mul, List.ofFn_mul (m := c) (n := h), List.flatten_flatten]
  unfold flatten3 toList3
  congr 1
  rw [List.map_ofFn, List.map_ofFn]
  congr 1
  funext a
  simp only [Function.comp]
  congr 1
  congr 1
  funext i
  congr 1
  funext j
  congr 1
  exact (e_apply a i j _).symm

variable {c h w : ℕ}

/-- the flat (row-major) vector of a `c × h × w` tensor … -/
noncomputable def flat (v : V (I3 c h w)) : Vec (c * h * w) := fun k => v (e c h w k)

/-- … and a flat vector read as a `c × h × w` tensor -/
noncomputable def unflat (u : Vec (c * h * w)) : V (I3 c h w) := fun q => u ((e c h w).symm q)

theorem flat_unflat (u : Vec (c * h * w)) : flat (unflat u) = u := by
  funext k; simp [flat, unflat]

theorem unflat_flat (v : V (I3 c h w)) : unflat (flat v) = v := by
  funext q; simp [flat, unflat]

/-- **`Tensor::flatten` of a 3-D tensor is the re-indexing `flat`** -/
theorem flatten_T3 (v : V (I3 c h w)) (hc : 0 < c) (hh : 0 < h) : (T3 v).flatten = .ok (vecT (flat v)) := by
  obtain ⟨r, m, rest, he, h1, h2⟩ := dims3_cons _ c h w (toList3_dims v) hc hh
  have hf := flatten3_toList3 v
  unfold Tensor.flatten T3
  simp only []
  rw [he] at hf ⊢
  simp only [hf, List.length_ofFn]
  rfl

/-- **reading a flat tensor as `c × h × w` (`get_triple`) is the re-indexing `unflat`** -/
theorem getTriple_vecT (u : Vec (c * h * w)) : (vecT u).getTriple (.triple c h w) = .ok (toList3 (unflat u)) := by
  obtain ⟨t, ht, hd, hf⟩ := L.toTriple_exact c h w (List.ofFn u) (by simp)
  have : t = toList3 (unflat u) := by
    apply C14.dims3_flat_injective c h w _ _ hd (toList3_dims _)
    rw [hf, flatten3_toList3]
    congr 1
    funext k
    simp [unflat]
  simp only [Tensor.getTriple, vecT, ht, this]

/-- both are re-indexings along a bijection: each is the other's transposed Jacobian -/
theorem flat_isVJP (x : V (I3 c h w)) : IsVJP (flat (c := c) (h := h) (w := w)) x unflat :=
  isVJP_reindex (e c h w) x

theorem unflat_isVJP (u : Vec (c * h * w)) : IsVJP (unflat (c := c) (h := h) (w := w)) u flat := by
  have := isVJP_reindex (e c h w).symm u
  simp only [Equiv.symm_symm] at this
  exact this

end Flat3
