import Model.Layers
import Proofs.Real
import Mathlib.Tactic

/-!
# The max-pool window scan: the value dominates the window and is attained at the recorded index
-/

namespace MaxpoolWindow
open Scalar RealScalar

variable (l : Maxpool ℝ) (x : V3 ℝ) (c h w ih iw : ℕ)

/-- one element of the scan -/
noncomputable def stepIn (k : ℕ) (acc : ℝ × (ℕ × ℕ)) (li : ℕ) : ℝ × (ℕ × ℕ) :=
  if h + k < ih ∧ w + li < iw then
    (if Scalar.lt acc.1 (L.get3D 0 x c (h + k) (w + li)) then (L.get3D 0 x c (h + k) (w + li), (h + k, w + li)) else acc)
  else acc

theorem window_eq :
    Maxpool.window l x c h w ih iw =
      (List.range l.kernel.1).foldl (fun acc k => (List.range l.kernel.2).foldl (stepIn x c h w ih iw k) acc)
        (Scalar.minVal, (0, 0)) := rfl

/-- a step never lowers the running maximum, and afterwards the visited element is dominated -/
theorem stepIn_mono (k li : ℕ) (acc : ℝ × (ℕ × ℕ)) :
    acc.1 ≤ (stepIn x c h w ih iw k acc li).1 ∧
    (h + k < ih ∧ w + li < iw → L.get3D 0 x c (h + k) (w + li) ≤ (stepIn x c h w ih iw k acc li).1) := by
  unfold stepIn
  by_cases hg : h + k < ih ∧ w + li < iw
  · rw [if_pos hg]
    by_cases hlt : acc.1 < L.get3D 0 x c (h + k) (w + li)
    · have : Scalar.lt acc.1 (L.get3D 0 x c (h + k) (w + li)) = true := (lt_iff _ _).mpr hlt
      rw [if_pos this]
      exact ⟨hlt.le, fun _ => le_refl _⟩
    · have : ¬ (Scalar.lt acc.1 (L.get3D 0 x c (h + k) (w + li)) = true) := fun e => hlt ((lt_iff _ _).mp e)
      rw [if_neg this]
      exact ⟨le_refl _, fun _ => not_lt.mp hlt⟩
  · rw [if_neg hg]
    exact ⟨le_refl _, fun e => absurd e hg⟩

theorem inner_mono (k : ℕ) : ∀ (n : ℕ) (acc : ℝ × (ℕ × ℕ)),
    acc.1 ≤ ((List.range n).foldl (stepIn x c h w ih iw k) acc).1 ∧
    ∀ li, li < n → h + k < ih ∧ w + li < iw →
      L.get3D 0 x c (h + k) (w + li) ≤ ((List.range n).foldl (stepIn x c h w ih iw k) acc).1
  | 0, acc => ⟨le_refl _, fun li hli => absurd hli (Nat.not_lt_zero _)⟩
  | n + 1, acc => by
    rw [List.range_succ, List.foldl_append]
    simp only [List.foldl_cons, List.foldl_nil]
    obtain ⟨h1, h2⟩ := inner_mono k n acc
    obtain ⟨s1, s2⟩ := stepIn_mono x c h w ih iw k n ((List.range n).foldl (stepIn x c h w ih iw k) acc)
    refine ⟨le_trans h1 s1, ?_⟩
    intro li hli hg
    by_cases e : li = n
    · subst e; exact s2 hg
    · exact le_trans (h2 li (by omega) hg) s1

theorem outer_mono (K2 : ℕ) : ∀ (n : ℕ) (acc : ℝ × (ℕ × ℕ)),
    acc.1 ≤ ((List.range n).foldl (fun acc k => (List.range K2).foldl (stepIn x c h w ih iw k) acc) acc).1 ∧
    ∀ k li, k < n → li < K2 → h + k < ih ∧ w + li < iw →
      L.get3D 0 x c (h + k) (w + li) ≤
        ((List.range n).foldl (fun acc k => (List.range K2).foldl (stepIn x c h w ih iw k) acc) acc).1
  | 0, acc => ⟨le_refl _, fun k li hk => absurd hk (Nat.not_lt_zero _)⟩
  | n + 1, acc => by
    rw [List.range_succ, List.foldl_append]
    simp only [List.foldl_cons, List.foldl_nil]
    obtain ⟨h1, h2⟩ := outer_mono K2 n acc
    obtain ⟨s1, s2⟩ := inner_mono x c h w ih iw n K2
      ((List.range n).foldl (fun acc k => (List.range K2).foldl (stepIn x c h w ih iw k) acc) acc)
    refine ⟨le_trans h1 s1, ?_⟩
    intro k li hk hli hg
    by_cases e : k = n
    · subst e; exact s2 li hli hg
    · exact le_trans (h2 k li (by omega) hli hg) s1

/-- **the window value dominates every element of the window** (inside the input) -/
theorem window_dominates (k li : ℕ) (hk : k < l.kernel.1) (hli : li < l.kernel.2) (hg : h + k < ih ∧ w + li < iw) :
    L.get3D 0 x c (h + k) (w + li) ≤ (Maxpool.window l x c h w ih iw).1 := by
  rw [window_eq]
  exact (outer_mono x c h w ih iw l.kernel.2 l.kernel.1 _).2 k li hk hli hg

/-- what the scan holds: the start value, or an element of the window together with its position -/
def Attained (acc : ℝ × (ℕ × ℕ)) : Prop :=
  acc = (Scalar.minVal, (0, 0)) ∨
  ∃ k li, k < l.kernel.1 ∧ li < l.kernel.2 ∧ h + k < ih ∧ w + li < iw ∧ acc.2 = (h + k, w + li) ∧
    acc.1 = L.get3D 0 x c (h + k) (w + li)

theorem stepIn_attained (k li : ℕ) (hk : k < l.kernel.1) (hli : li < l.kernel.2) (acc : ℝ × (ℕ × ℕ))
    (ha : Attained l x c h w ih iw acc) : Attained l x c h w ih iw (stepIn x c h w ih iw k acc li) := by
  unfold stepIn
  split
  · rename_i hg
    split
    · exact Or.inr ⟨k, li, hk, hli, hg.1, hg.2, rfl, rfl⟩
    · exact ha
  · exact ha

theorem fold_inv {β γ : Type} (P : β → Prop) (step : β → γ → β) : ∀ (xs : List γ) (b : β),
    P b → (∀ b a, a ∈ xs → P b → P (step b a)) → P (xs.foldl step b)
  | [], b, hb, _ => hb
  | a :: xs, b, hb, hs => by
    simp only [List.foldl_cons]
    exact fold_inv P step xs _ (hs b a (by simp) hb) (fun b' a' ha' => hs b' a' (by simp [ha']))

/-- **the window value is attained at the recorded index** (or nothing in the window exceeded the
    start value `f32::MIN`, and the scan reports it with index `(0, 0)`) -/
theorem window_attained : Attained l x c h w ih iw (Maxpool.window l x c h w ih iw) := by
  rw [window_eq]
  apply fold_inv (Attained l x c h w ih iw)
  · exact Or.inl rfl
  · intro b k hk hb
    apply fold_inv (Attained l x c h w ih iw)
    · exact hb
    · intro b' li hli hb'
      exact stepIn_attained l x c h w ih iw k li (List.mem_range.mp hk) (List.mem_range.mp hli) b' hb'

end MaxpoolWindow
