import Proofs.VJP
import Proofs.ConvAdjoint
import Proofs.OfFn
import Props.C02
import Mathlib.Analysis.Calculus.FDeriv.Linear
import Mathlib.Topology.Algebra.Module.FiniteDimension

/-!
# The convolution's pre-activation map as a vector function, and its transposed Jacobian
-/

open Finset BigOperators

namespace ConvVJP
open VJP Adjoint Scatter

/-- index type of a `c × h × w` tensor -/
abbrev I3 (c h w : ℕ) := Fin c × Fin h × Fin w

/-- a vector indexed by `I3` as the model's nested list -/
noncomputable def toList3 {c h w : ℕ} (v : V (I3 c h w)) : V3 ℝ :=
  List.ofFn fun a : Fin c => List.ofFn fun i : Fin h => List.ofFn fun j : Fin w => v (a, i, j)

theorem toList3_dims {c h w : ℕ} (v : V (I3 c h w)) : L.Dims3 (toList3 v) c h w := by
  refine ⟨by simp [toList3], ?_⟩
  intro m hm
  simp only [toList3, List.mem_ofFn] at hm
  obtain ⟨a, rfl⟩ := hm
  refine ⟨by simp, ?_⟩
  intro r hr
  simp only [List.mem_ofFn] at hr
  obtain ⟨i, rfl⟩ := hr
  simp

/-- reading the list back at natural-number indices: the vector's entry inside the box, `0` outside -/
theorem get3D_toList3 {c h w : ℕ} (v : V (I3 c h w)) (a i j : ℕ) :
    L.get3D 0 (toList3 v) a i j =
      if h' : a < c ∧ i < h ∧ j < w then v (⟨a, h'.1⟩, ⟨i, h'.2.1⟩, ⟨j, h'.2.2⟩) else 0 := by
  rw [L.get3D_eq]
  unfold toList3
  simp only [List.getD_eq_getElem?_getD, List.getElem?_ofFn]
  by_cases ha : a < c
  · by_cases hi : i < h
    · by_cases hj : j < w
      · simp [ha, hi, hj]
      · simp [ha, hi, hj]
    · simp [ha, hi]
  · simp [ha]

theorem get3D_toList3_add {c h w : ℕ} (x y : V (I3 c h w)) (a i j : ℕ) :
    L.get3D 0 (toList3 (x + y)) a i j = L.get3D 0 (toList3 x) a i j + L.get3D 0 (toList3 y) a i j := by
  simp only [get3D_toList3]
  split <;> simp

theorem get3D_toList3_smul {c h w : ℕ} (r : ℝ) (x : V (I3 c h w)) (a i j : ℕ) :
    L.get3D 0 (toList3 (r • x)) a i j = r * L.get3D 0 (toList3 x) a i j := by
  simp only [get3D_toList3]
  split <;> simp

/-- the inner product of two `I3`-indexed vectors is `ip3` of their lists -/
theorem dot_eq_ip3 {c h w : ℕ} (a b : V (I3 c h w)) : dot a b = ip3 c h w (toList3 a) (toList3 b) := by
  unfold dot ip3
  rw [Fintype.sum_prod_type]
  rw [← Fin.sum_univ_eq_sum_range (fun ci => ∑ i ∈ range h, ∑ j ∈ range w,
    L.get3D 0 (toList3 a) ci i j * L.get3D 0 (toList3 b) ci i j) c]
  apply Finset.sum_congr rfl; intro ci _
  rw [Fintype.sum_prod_type]
  rw [← Fin.sum_univ_eq_sum_range (fun i => ∑ j ∈ range w,
    L.get3D 0 (toList3 a) ci i j * L.get3D 0 (toList3 b) ci i j) h]
  apply Finset.sum_congr rfl; intro ii _
  rw [← Fin.sum_univ_eq_sum_range (fun j => L.get3D 0 (toList3 a) ci ii j * L.get3D 0 (toList3 b) ci ii j) w]
  apply Finset.sum_congr rfl; intro jj _
  simp [get3D_toList3]


theorem ip3_congr_left (C H W : ℕ) (A A' b : V3 ℝ)
    (h : ∀ a i j, a < C → i < H → j < W → L.get3D 0 A a i j = L.get3D 0 A' a i j) : ip3 C H W A b = ip3 C H W A' b := by
  unfold ip3
  apply Finset.sum_congr rfl; intro a ha
  apply Finset.sum_congr rfl; intro i hi
  apply Finset.sum_congr rfl; intro j hj
  rw [h a i j (mem_range.mp ha) (mem_range.mp hi) (mem_range.mp hj)]

variable (l : Conv ℝ) (ks : List (V3 ℝ)) (kf kc kh kw ih iw oh ow : ℕ)

/-- the convolution's pre-activation as a function of the (unpadded) input: the zero-padded, strided,
    dilated cross-correlation (`C02.conv_cross_correlation` shows this is what the model's `convolveAt`
    computes on the padded input) -/
noncomputable def convPre (x : V (I3 kc ih iw)) : V (I3 kf oh ow) := fun fmn =>
  ∑ cc ∈ range kc, ∑ h ∈ range kh, ∑ w ∈ range kw,
    L.get3D 0 (ks.getD fmn.1 []) cc h w *
      (if l.padding.1 ≤ fmn.2.1 * l.stride.1 + h * l.dilation.1 ∧ fmn.2.1 * l.stride.1 + h * l.dilation.1 < l.padding.1 + ih ∧
          l.padding.2 ≤ fmn.2.2 * l.stride.2 + w * l.dilation.2 ∧ fmn.2.2 * l.stride.2 + w * l.dilation.2 < l.padding.2 + iw
       then L.get3D 0 (toList3 x) cc (fmn.2.1 * l.stride.1 + h * l.dilation.1 - l.padding.1)
              (fmn.2.2 * l.stride.2 + w * l.dilation.2 - l.padding.2)
       else 0)

/-- it is linear in the input -/
noncomputable def convLin : V (I3 kc ih iw) →ₗ[ℝ] V (I3 kf oh ow) where
  toFun := convPre l ks kf kc kh kw ih iw oh ow
  map_add' x y := by
    funext fmn
    simp only [convPre, Pi.add_apply, get3D_toList3_add]
    simp only [← Finset.sum_add_distrib]
    apply Finset.sum_congr rfl; intro cc _
    apply Finset.sum_congr rfl; intro h _
    apply Finset.sum_congr rfl; intro w _
    split <;> ring
  map_smul' r x := by
    funext fmn
    simp only [convPre, Pi.smul_apply, smul_eq_mul, RingHom.id_apply, get3D_toList3_smul, Finset.mul_sum]
    apply Finset.sum_congr rfl; intro cc _
    apply Finset.sum_congr rfl; intro h _
    apply Finset.sum_congr rfl; intro w _
    split <;> ring

/-- the input gradient the model's backward pass computes, as a vector: crop of the padded scatter -/
noncomputable def convBwd (g : V (I3 kf oh ow)) : V (I3 kc ih iw) := fun cij =>
  L.get3D 0 (Conv.crop l (Conv.paddedInputGrad l ks (toList3 g) kf kc kh kw oh ow
    (ih + 2 * l.padding.1) (iw + 2 * l.padding.2)) ih iw) cij.1 cij.2.1 cij.2.2

/-- **the convolution's pre-activation map is differentiable with the model's backward pass as its
    transposed Jacobian** — for every stride, dilation, padding, kernel size, channel and filter count -/
theorem conv_isVJP (hkc : 0 < kc) (hih : 0 < ih) (x : V (I3 kc ih iw)) :
    IsVJP (convPre l ks kf kc kh kw ih iw oh ow) x (convBwd l ks kf kc kh kw ih iw oh ow) := by
  refine ⟨LinearMap.toContinuousLinearMap (convLin l ks kf kc kh kw ih iw oh ow), ?_, ?_⟩
  · exact (LinearMap.toContinuousLinearMap (convLin l ks kf kc kh kw ih iw oh ow)).hasFDerivAt
  · intro g v
    simp only [LinearMap.coe_toContinuousLinearMap']
    show dot (convBwd l ks kf kc kh kw ih iw oh ow g) v = dot g (convPre l ks kf kc kh kw ih iw oh ow v)
    -- left: the inner product over the input box
    rw [dot_eq_ip3]
    rw [ip3_congr_left kc ih iw _ (Conv.crop l (Conv.paddedInputGrad l ks (toList3 g) kf kc kh kw oh ow
        (ih + 2 * l.padding.1) (iw + 2 * l.padding.2)) ih iw) _ (by
      intro a i j ha hi hj
      rw [get3D_toList3]
      simp [ha, hi, hj, convBwd])]
    -- adjoint identity of the model's backward pass
    obtain ⟨vp, hp, hget⟩ := C02.pad3d_get (toList3 v) kc ih iw l.padding.1 l.padding.2 (toList3_dims v) hkc hih
    rw [← ConvAdjoint.pad_crop_adjoint l _ (toList3 v) vp kc ih iw hget, ← ConvAdjoint.padded_input_adjoint]
    -- right: the forward map on the padded direction is `convPre v`
    unfold dot
    rw [Fintype.sum_prod_type]
    rw [← Fin.sum_univ_eq_sum_range (fun f => ∑ m ∈ range oh, ∑ n ∈ range ow,
      L.get3D 0 (toList3 g) f m n * Conv.convolveAt l vp (ks.getD f []) kc kh kw (ih + 2 * l.padding.1) (iw + 2 * l.padding.2) m n) kf]
    apply Finset.sum_congr rfl; intro f _
    rw [Fintype.sum_prod_type]
    rw [← Fin.sum_univ_eq_sum_range (fun m => ∑ n ∈ range ow,
      L.get3D 0 (toList3 g) f m n * Conv.convolveAt l vp (ks.getD f []) kc kh kw (ih + 2 * l.padding.1) (iw + 2 * l.padding.2) m n) oh]
    apply Finset.sum_congr rfl; intro m _
    rw [← Fin.sum_univ_eq_sum_range (fun n =>
      L.get3D 0 (toList3 g) f m n * Conv.convolveAt l vp (ks.getD f []) kc kh kw (ih + 2 * l.padding.1) (iw + 2 * l.padding.2) m n) ow]
    apply Finset.sum_congr rfl; intro n _
    have hg : L.get3D 0 (toList3 g) f m n = g (f, m, n) := by
      rw [get3D_toList3]; simp
    rw [hg]
    congr 1
    -- `convolveAt` on the padded tensor is the explicit cross-correlation
    obtain ⟨xp, hp', hform⟩ := C02.conv_cross_correlation l (toList3 v) kc ih iw (toList3_dims v) hkc hih (ks.getD f []) kc kh kw m n
    rw [hp] at hp'
    simp only [Except.ok.injEq] at hp'
    subst hp'
    rw [hform]
    rfl


/-! ### the element-wise activation on top -/

/-- an element-wise differentiable map after a map with a transposed Jacobian: multiply the upstream
    gradient by the derivative at the pre-activation, then apply the inner transposed Jacobian -/
theorem isVJP_elementwise {ι κ : Type} [Fintype ι] [Fintype κ] (P : V ι → V κ) (x : V ι) (bP : V κ → V ι)
    (a a' : ℝ → ℝ) (hP : IsVJP P x bP) (ha : ∀ i, HasDerivAt a (a' (P x i)) (P x i)) :
    IsVJP (fun y => fun i => a (P y i)) x (fun g => bP (fun i => a' (P x i) * g i)) := by
  have hE : IsVJP (fun y : V κ => fun i => a (y i)) (P x) (fun g => fun i => a' (P x i) * g i) := by
    refine ⟨ContinuousLinearMap.pi (fun i => (a' (P x i)) • (ContinuousLinearMap.proj (R := ℝ) (φ := fun _ : κ => ℝ) i)), ?_, ?_⟩
    · rw [hasFDerivAt_pi']
      intro i
      have := (ha i).comp_hasFDerivAt (P x) ((ContinuousLinearMap.proj (R := ℝ) (φ := fun _ : κ => ℝ) i).hasFDerivAt)
      simpa [Function.comp_def] using this
    · intro g v
      simp only [dot, ContinuousLinearMap.pi_apply, FunLike.coe_smul, Pi.smul_apply, ContinuousLinearMap.proj_apply, smul_eq_mul]
      apply Finset.sum_congr rfl; intro i _
      ring
  exact IsVJP.comp hP hE

/-- **the convolution layer** (`act ∘ conv`, activation differentiable at every pre-activation): the
    gradient handed to the preceding layer is `crop(scatter(K, act′(pre) ⊙ g))`, exactly what
    `Convolution::backward` computes -/
theorem conv_layer_isVJP (a a' : ℝ → ℝ) (hkc : 0 < kc) (hih : 0 < ih) (x : V (I3 kc ih iw))
    (ha : ∀ i, HasDerivAt a (a' (convPre l ks kf kc kh kw ih iw oh ow x i)) (convPre l ks kf kc kh kw ih iw oh ow x i)) :
    IsVJP (fun y => fun i => a (convPre l ks kf kc kh kw ih iw oh ow y i)) x
      (fun g => convBwd l ks kf kc kh kw ih iw oh ow (fun i => a' (convPre l ks kf kc kh kw ih iw oh ow x i) * g i)) :=
  isVJP_elementwise _ x _ a a' (conv_isVJP l ks kf kc kh kw ih iw oh ow hkc hih x) ha


/-! ### the kernels -/

abbrev I4 (f c h w : ℕ) := Fin f × Fin c × Fin h × Fin w

noncomputable def toList4 {f c h w : ℕ} (K : V (I4 f c h w)) : List (V3 ℝ) :=
  List.ofFn fun a : Fin f => toList3 (fun cij : I3 c h w => K (a, cij))

theorem get4D_toList4 {f c h w : ℕ} (K : V (I4 f c h w)) (a b i j : ℕ) :
    L.get4D 0 (toList4 K) a b i j =
      if h' : a < f ∧ b < c ∧ i < h ∧ j < w then K (⟨a, h'.1⟩, ⟨b, h'.2.1⟩, ⟨i, h'.2.2.1⟩, ⟨j, h'.2.2.2⟩) else 0 := by
  rw [ConvAdjoint.get4D_eq]
  unfold toList4
  simp only [List.getD_eq_getElem?_getD, List.getElem?_ofFn]
  by_cases ha : a < f
  · simp only [ha, dite_true, Option.getD_some, get3D_toList3]
    by_cases hr : b < c ∧ i < h ∧ j < w
    · simp [hr]
    · simp [hr]
  · simp [ha, L.get3D, L.get?]

variable (xp : V3 ℝ) (ph pw : ℕ)

/-- the pre-activation as a function of the kernels (input fixed): literally the model's `convolveAt` -/
noncomputable def convPreK (K : V (I4 kf kc kh kw)) : V (I3 kf oh ow) := fun fmn =>
  Conv.convolveAt l xp ((toList4 K).getD fmn.1 []) kc kh kw ph pw fmn.2.1 fmn.2.2

theorem convPreK_formula (K : V (I4 kf kc kh kw)) (fmn : I3 kf oh ow) :
    convPreK l kf kc kh kw oh ow xp ph pw K fmn =
      ∑ c ∈ range kc, ∑ h ∈ range kh, ∑ w ∈ range kw,
        (if fmn.2.1 * l.stride.1 + h * l.dilation.1 < ph ∧ fmn.2.2 * l.stride.2 + w * l.dilation.2 < pw
         then L.get4D 0 (toList4 K) fmn.1 c h w *
           L.get3D 0 xp c (fmn.2.1 * l.stride.1 + h * l.dilation.1) (fmn.2.2 * l.stride.2 + w * l.dilation.2)
         else 0) := by
  unfold convPreK
  rw [C02.convolveAt_spec]
  simp only [ConvAdjoint.get4D_eq]

noncomputable def convLinK : V (I4 kf kc kh kw) →ₗ[ℝ] V (I3 kf oh ow) where
  toFun := convPreK l kf kc kh kw oh ow xp ph pw
  map_add' x y := by
    funext fmn
    simp only [Pi.add_apply, convPreK_formula, ← Finset.sum_add_distrib]
    apply Finset.sum_congr rfl; intro c _
    apply Finset.sum_congr rfl; intro h _
    apply Finset.sum_congr rfl; intro w _
    simp only [get4D_toList4, Pi.add_apply]
    split
    · split <;> ring
    · ring
  map_smul' r x := by
    funext fmn
    simp only [Pi.smul_apply, smul_eq_mul, RingHom.id_apply, convPreK_formula, Finset.mul_sum]
    apply Finset.sum_congr rfl; intro c _
    apply Finset.sum_congr rfl; intro h _
    apply Finset.sum_congr rfl; intro w _
    simp only [get4D_toList4, Pi.smul_apply, smul_eq_mul]
    split
    · split <;> ring
    · ring

/-- the kernel gradient the model's backward pass computes, as a vector -/
noncomputable def convBwdK (g : V (I3 kf oh ow)) : V (I4 kf kc kh kw) := fun fchw =>
  L.get4D 0 (Conv.kernelGrad l xp (toList3 g) kf kc kh kw oh ow ph pw) fchw.1 fchw.2.1 fchw.2.2.1 fchw.2.2.2

/-- **the pre-activation as a function of the kernels has the model's kernel gradient as its transposed
    Jacobian** -/
theorem conv_kernel_isVJP (K : V (I4 kf kc kh kw)) :
    IsVJP (convPreK l kf kc kh kw oh ow xp ph pw) K (convBwdK l kf kc kh kw oh ow xp ph pw) := by
  refine ⟨LinearMap.toContinuousLinearMap (convLinK l kf kc kh kw oh ow xp ph pw), ?_, ?_⟩
  · exact (LinearMap.toContinuousLinearMap (convLinK l kf kc kh kw oh ow xp ph pw)).hasFDerivAt
  · intro g v
    simp only [LinearMap.coe_toContinuousLinearMap']
    show dot (convBwdK l kf kc kh kw oh ow xp ph pw g) v = dot g (convPreK l kf kc kh kw oh ow xp ph pw v)
    have hadj := ConvAdjoint.kernel_adjoint l (toList4 v) (toList3 g) xp kf kc kh kw oh ow ph pw
    -- right-hand side of the adjoint identity is the inner product over the kernel box
    have hR : dot (convBwdK l kf kc kh kw oh ow xp ph pw g) v =
        ∑ f ∈ range kf, ∑ c ∈ range kc, ∑ h ∈ range kh, ∑ w ∈ range kw,
          L.get4D 0 (Conv.kernelGrad l xp (toList3 g) kf kc kh kw oh ow ph pw) f c h w * L.get4D 0 (toList4 v) f c h w := by
      unfold dot
      rw [Fintype.sum_prod_type]
      rw [← Fin.sum_univ_eq_sum_range (fun f => ∑ c ∈ range kc, ∑ h ∈ range kh, ∑ w ∈ range kw,
        L.get4D 0 (Conv.kernelGrad l xp (toList3 g) kf kc kh kw oh ow ph pw) f c h w * L.get4D 0 (toList4 v) f c h w) kf]
      apply Finset.sum_congr rfl; intro f _
      rw [Fintype.sum_prod_type]
      rw [← Fin.sum_univ_eq_sum_range (fun c => ∑ h ∈ range kh, ∑ w ∈ range kw,
        L.get4D 0 (Conv.kernelGrad l xp (toList3 g) kf kc kh kw oh ow ph pw) f c h w * L.get4D 0 (toList4 v) f c h w) kc]
      apply Finset.sum_congr rfl; intro c _
      rw [Fintype.sum_prod_type]
      rw [← Fin.sum_univ_eq_sum_range (fun h => ∑ w ∈ range kw,
        L.get4D 0 (Conv.kernelGrad l xp (toList3 g) kf kc kh kw oh ow ph pw) f c h w * L.get4D 0 (toList4 v) f c h w) kh]
      apply Finset.sum_congr rfl; intro h _
      rw [← Fin.sum_univ_eq_sum_range (fun w =>
        L.get4D 0 (Conv.kernelGrad l xp (toList3 g) kf kc kh kw oh ow ph pw) f c h w * L.get4D 0 (toList4 v) f c h w) kw]
      apply Finset.sum_congr rfl; intro w _
      simp [convBwdK, get4D_toList4]
    have hL : dot g (convPreK l kf kc kh kw oh ow xp ph pw v) =
        ∑ f ∈ range kf, ∑ m ∈ range oh, ∑ n ∈ range ow,
          L.get3D 0 (toList3 g) f m n * Conv.convolveAt l xp ((toList4 v).getD f []) kc kh kw ph pw m n := by
      unfold dot
      rw [Fintype.sum_prod_type]
      rw [← Fin.sum_univ_eq_sum_range (fun f => ∑ m ∈ range oh, ∑ n ∈ range ow,
        L.get3D 0 (toList3 g) f m n * Conv.convolveAt l xp ((toList4 v).getD f []) kc kh kw ph pw m n) kf]
      apply Finset.sum_congr rfl; intro f _
      rw [Fintype.sum_prod_type]
      rw [← Fin.sum_univ_eq_sum_range (fun m => ∑ n ∈ range ow,
        L.get3D 0 (toList3 g) f m n * Conv.convolveAt l xp ((toList4 v).getD f []) kc kh kw ph pw m n) oh]
      apply Finset.sum_congr rfl; intro m _
      rw [← Fin.sum_univ_eq_sum_range (fun n =>
        L.get3D 0 (toList3 g) f m n * Conv.convolveAt l xp ((toList4 v).getD f []) kc kh kw ph pw m n) ow]
      apply Finset.sum_congr rfl; intro n _
      simp [convPreK, get3D_toList3]
    rw [hR, hL, hadj]

end ConvVJP
