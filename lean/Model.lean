import Model.Scalar
import Model.Tensor
import Model.Random
import Model.Activation
import Model.Objective
import Model.Optimizer
