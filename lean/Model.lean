import Model.Scalar
import Model.Tensor
import Model.Random
