import Model

/-!
# Line-protocol driver

One request per line on stdin, one response per line on stdout.  Floats travel as 8 hex digits
(binary32 bit patterns) in requests and as `#xxxxxxxx` in responses; everything else is decimal or a
bare word.  The functions called here are the model definitions the theorems are about, at `Float32`.
-/

abbrev F := Float32
abbrev P := StateT (List String) (Except String)

namespace Drv

def hexDigit (c : Char) : Option Nat :=
  if '0' ≤ c ∧ c ≤ '9' then some (c.toNat - '0'.toNat)
  else if 'a' ≤ c ∧ c ≤ 'f' then some (c.toNat - 'a'.toNat + 10)
  else none

def parseHex (s : String) : Option Nat :=
  s.toList.foldl (fun acc c => match acc, hexDigit c with
    | some a, some d => some (a * 16 + d)
    | _, _ => none) (some 0)

def hexChar (n : Nat) : Char := if n < 10 then Char.ofNat (48 + n) else Char.ofNat (87 + n)

def hex8 (n : Nat) : String :=
  String.ofList ((List.range 8).reverse.map (fun i => hexChar ((n / 16 ^ i) % 16)))

def tok : P String := do
  match (← get) with
  | [] => throw "unexpected end of request"
  | t :: r => set r; pure t

def nat : P Nat := do
  let t ← tok
  match t.toNat? with
  | some n => pure n
  | none => throw s!"expected nat, got {t}"

def flt : P F := do
  let t ← tok
  match parseHex t with
  | some n => pure (Float32.ofBits n.toUInt32)
  | none => throw s!"expected hex float, got {t}"

def boolean : P Bool := do
  let n ← nat
  pure (n != 0)

/-- an optional trailing natural number (absent = 0) -/
def optTrailingNat : P Nat := do
  let ts ← get
  match ts with
  | [] => pure 0
  | _ => nat

def many {β : Type} (p : P β) : Nat → P (List β)
  | 0 => pure []
  | n+1 => do let x ← p; let xs ← many p n; pure (x :: xs)

def optF : P (Option F) := do
  let t ← tok
  if t == "none" then pure none else
  match parseHex t with
  | some n => pure (some (Float32.ofBits n.toUInt32))
  | none => throw s!"expected hex float or none, got {t}"

def shape : P Shape := do
  let t ← tok
  match t with
  | "S" => pure (.single (← nat))
  | "D" => do let r ← nat; let c ← nat; pure (.double r c)
  | "T" => do let c ← nat; let h ← nat; let w ← nat; pure (.triple c h w)
  | "Q" => do let a ← nat; let b ← nat; let c ← nat; let d ← nat; pure (.quadruple a b c d)
  | "N" => pure (.nested (← nat))
  | _ => throw s!"expected shape, got {t}"

def v1 (n : Nat) : P (V1 F) := many flt n
def v2 (r c : Nat) : P (V2 F) := many (v1 c) r
def v3 (a r c : Nat) : P (V3 F) := many (v2 r c) a
def v4 (f a r c : Nat) : P (V4 F) := many (v3 a r c) f

/-- a tensor: its shape followed by the row-major data -/
def tensor : P (Tensor F) := do
  let s ← shape
  match s with
  | .single n => pure ⟨s, .single (← v1 n)⟩
  | .double r c => pure ⟨s, .double (← v2 r c)⟩
  | .triple a r c => pure ⟨s, .triple (← v3 a r c)⟩
  | .quadruple f a r c => pure ⟨s, .quadruple (← v4 f a r c)⟩
  | .nested _ => throw "nested tensors are passed as lists"

def optTensor : P (Option (Tensor F)) := do
  match (← get) with
  | "none" :: r => set r; pure none
  | _ => pure (some (← tensor))

def act : P Act := do
  let t ← tok
  match t with
  | "relu" => pure .relu | "leaky" => pure .leaky | "sigmoid" => pure .sigmoid
  | "softmax" => pure .softmax | "tanh" => pure .tanh | "linear" => pure .linear
  | _ => throw s!"expected activation, got {t}"

def obj : P Obj := do
  let t ← tok
  match t with
  | "ae" => pure .ae | "mae" => pure .mae | "mse" => pure .mse | "rmse" => pure .rmse
  | "ce" => pure .ce | "bce" => pure .bce | "kl" => pure .kl
  | _ => throw s!"expected objective, got {t}"

def clampOpt : P (Option (F × F)) := do
  match (← get) with
  | "none" :: r => set r; pure none
  | _ => do let lo ← flt; let hi ← flt; pure (some (lo, hi))

def optimizer : P (OptKind F) := do
  let t ← tok
  match t with
  | "sgd" => do let lr ← flt; let d ← optF; pure (.sgd lr d)
  | "sgdm" => do let lr ← flt; let m ← flt; let da ← flt; let d ← optF; pure (.sgdm lr m da d)
  | "adam" => do let lr ← flt; let b1 ← flt; let b2 ← flt; let e ← flt; let d ← optF; pure (.adam lr b1 b2 e d)
  | "adamw" => do let lr ← flt; let b1 ← flt; let b2 ← flt; let e ← flt; let d ← flt; pure (.adamw lr b1 b2 e d)
  | "rmsprop" => do
    let lr ← flt; let a ← flt; let e ← flt; let d ← optF; let m ← optF; let c ← boolean
    pure (.rmsprop lr a e d m c)
  | _ => throw s!"expected optimizer, got {t}"

/-- the parameter table `[layer][filter][bias]` of an `opt.run` request -/
def table : P (List (List (List (Tensor F)))) := do
  let l ← nat
  many (do let f ← nat; many (do let b ← nat; many tensor b) f) l

def accum : P Accumulation := do
  let t ← tok
  match t with
  | "add" => pure .add | "sub" => pure .subtract | "mul" => pure .multiply
  | "overwrite" => pure .overwrite | "mean" => pure .mean
  | _ => throw s!"expected accumulation, got {t}"

def pair : P (Nat × Nat) := do let a ← nat; let b ← nat; pure (a, b)

def scaleFn : P (F → F) := do
  let t ← tok
  match t with
  | "inv" => pure (fun x => 1 / x)
  | "one" => pure (fun _ => 1)
  | "sqrt" => pure (fun x => 1 / Float32.sqrt x)
  | _ => throw s!"expected scale id, got {t}"

/-- an inner layer description with its parameters -/
def innerSpec : P (Network.InnerSpec F) := do
  let t ← tok
  match t with
  | "dense" => do
    let o ← nat; let a ← act; let b ← boolean; let d ← optF; let w ← tensor
    let bt ← if b then (do let x ← tensor; pure (some x)) else pure none
    pure (.dense o a b d w bt)
  | "conv" => do
    let f ← nat; let a ← act; let k ← pair; let st ← pair; let p ← pair; let dl ← pair; let d ← optF
    let ks ← many tensor f
    pure (.conv f a k st p dl d ks)
  | "deconv" => do
    let f ← nat; let a ← act; let k ← pair; let st ← pair; let p ← pair; let d ← optF
    let ks ← many tensor f
    pure (.deconv f a k st p d ks)
  | "maxpool" => do let k ← pair; let st ← pair; pure (.maxpool k st)
  | _ => throw s!"expected inner layer, got {t}"

/-- one builder call applied to a network under construction -/
def buildStep (n : Except Err (Network F)) : P (Except Err (Network F)) := do
  let t ← tok
  match t with
  | "dense" => do
    let o ← nat; let a ← act; let b ← boolean; let d ← optF; let w ← tensor
    let bt ← if b then (do let x ← tensor; pure (some x)) else pure none
    pure (n.bind (fun n => n.addDense o a b d w bt))
  | "conv" => do
    let f ← nat; let a ← act; let k ← pair; let st ← pair; let p ← pair; let dl ← pair; let d ← optF
    let ks ← many tensor f
    pure (n.bind (fun n => n.addConv f k st p dl a d ks))
  | "deconv" => do
    let f ← nat; let a ← act; let k ← pair; let st ← pair; let p ← pair; let d ← optF
    let ks ← many tensor f
    pure (n.bind (fun n => n.addDeconv f k st p a d ks))
  | "maxpool" => do let k ← pair; let st ← pair; pure (n.bind (fun n => n.addMaxpool k st))
  | "feedback" => do
    let k ← nat; let specs ← many innerSpec k; let loops ← nat; let i ← boolean; let o ← boolean; let a ← accum
    pure (n.bind (fun n => n.addFeedback specs loops i o a))
  | "connect" => do let a ← nat; let b ← nat; pure (n.bind (fun n => n.addConnect a b))
  | "loopback" => do
    let o ← nat; let i ← nat; let it ← nat; let sc ← scaleFn; let sk ← boolean
    pure (n.bind (fun n => n.addLoopback o i it sc sk))
  | _ => throw s!"expected builder call, got {t}"

def buildSteps : Nat → Except Err (Network F) → P (Except Err (Network F))
  | 0, n => pure n
  | k+1, n => do let n' ← buildStep n; buildSteps k n'

/-- a whole network: input shape, builder calls, accumulations, optimizer, objective -/
def network : P (Except Err (Network F)) := do
  let inp ← shape
  let k ← nat
  let n ← buildSteps k (.ok (Network.new inp))
  let sa ← accum; let la ← accum
  let hasOpt ← tok
  let optk ← if hasOpt == "opt" then (do let o ← optimizer; pure (some o)) else pure none
  let ob ← obj
  let cl ← clampOpt
  let finish (net : Network F) : Network F :=
    let net2 : Network F := { net with skipaccumulation := sa, loopaccumulation := la, objective := ob, clamp := cl }
    match optk with
    | some o => net2.setOptimizer o
    | none => net2
  pure (n.map finish)

def samples (k : Nat) : P (List (Tensor F) × List (Tensor F)) := do
  let ps ← many (do let x ← tensor; let t ← tensor; pure (x, t)) k
  pure (ps.map (·.1), ps.map (·.2))

/-! ### rendering -/

def canonBits (x : F) : Nat :=
  if x.isNaN then 0x7fc00000 else x.toBits.toNat

def rF (x : F) : String := "#" ++ hex8 (canonBits x)
def rV1 (v : V1 F) : String := " ".intercalate (v.map rF)
def rV2 (v : V2 F) : String := " ".intercalate (v.map rV1)
def rV3 (v : V3 F) : String := " ".intercalate (v.map rV2)
def rV4 (v : V4 F) : String := " ".intercalate (v.map rV3)

def rShape : Shape → String
  | .single n => s!"S {n}"
  | .double r c => s!"D {r} {c}"
  | .triple c h w => s!"T {c} {h} {w}"
  | .quadruple a b c d => s!"Q {a} {b} {c} {d}"
  | .nested n => s!"N {n}"

/-- shape, then the actual nested lengths (so a recorded shape that disagrees with the data shows),
    then the data -/
def rTensor (t : Tensor F) : String :=
  match t.data with
  | .single v => s!"{rShape t.shape} [1 {v.length}] {rV1 v}"
  | .double v => s!"{rShape t.shape} [2 {v.length} {(v.map List.length)}] {rV2 v}"
  | .triple v => s!"{rShape t.shape} [3 {v.length} {(v.map (·.map List.length))}] {rV3 v}"
  | .quadruple v => s!"{rShape t.shape} [4 {v.length} {(v.map (·.map (·.map List.length)))}] {rV4 v}"

def rOptTensor : Option (Tensor F) → String
  | none => "none"
  | some t => rTensor t

def rNats (l : List Nat) : String := " ".intercalate (l.map toString)

def rBool (b : Bool) : String := if b then "1" else "0"

def rInnerParams : InnerLayer F → String
  | .dense d => s!"dense {rTensor d.weights} {rOptTensor d.bias}"
  | .conv d => "conv " ++ " ".intercalate (d.kernels.map rTensor)
  | .deconv d => "deconv " ++ " ".intercalate (d.kernels.map rTensor)
  | .maxpool _ => "maxpool"

def rLayerParams : Layer F → String
  | .dense d => rInnerParams (.dense d)
  | .conv d => rInnerParams (.conv d)
  | .deconv d => rInnerParams (.deconv d)
  | .maxpool d => rInnerParams (.maxpool d)
  | .feedback f => "feedback " ++ " ".intercalate (f.layers.map rInnerParams)

def rNetParams (n : Network F) : String := " ".intercalate (n.layers.map rLayerParams)

def rLayerShapes : Layer F → String
  | .dense d => s!"dense {rShape d.inputs} {rShape d.outputs}"
  | .conv d => s!"conv {rShape d.inputs} {rShape d.outputs} {rBool d.flatten}"
  | .deconv d => s!"deconv {rShape d.inputs} {rShape d.outputs} {rBool d.flatten}"
  | .maxpool d => s!"maxpool {rShape d.inputs} {rShape d.outputs} {rBool d.flatten}"
  | .feedback f => s!"feedback {rShape f.inputs} {rShape f.outputs} {rBool f.flatten} {f.layers.length}"

def rW : Network.WGrad F → String
  | .one t => rTensor t
  | .block ts => "block " ++ " ".intercalate (ts.map rTensor)

def rB : Network.BGrad F → String
  | .one t => rOptTensor t
  | .block ts => "block " ++ " ".intercalate (ts.map rOptTensor)

def respond {β : Type} (r : Except Err β) (f : β → String) : String :=
  match r with
  | .ok v => "ok " ++ f v
  | .error e => "err " ++ e.toString

end Drv

open Drv

/-- dispatch one request -/
def handle (op : String) : P String := do
  match op with
  | "ping" => pure "ok pong"
  -- literals the model uses, for the self-test of `Scalar.lit`
  | "lit" => do
    let m ← nat; let neg ← boolean; let e ← nat
    let x : F := Scalar.lit m (if neg then -(e : Int) else (e : Int))
    pure ("ok " ++ rF x)
  /- tensor.rs -/
  | "t.flatten" => do let t ← tensor; pure (respond t.flatten rTensor)
  | "t.getflat" => do let t ← tensor; pure (respond t.getFlat rV1)
  | "t.gettriple" => do
    let t ← tensor; let s ← shape
    pure (respond (t.getTriple s) (fun v => s!"{v.length} {v.map (·.map List.length)} {rV3 v}"))
  | "t.reshape" => do let t ← tensor; let s ← shape; pure (respond (t.reshape s) rTensor)
  | "t.add" => do let a ← tensor; let b ← tensor; pure (respond (a.add b) rTensor)
  | "t.sub" => do let a ← tensor; let b ← tensor; pure (respond (a.sub b) rTensor)
  | "t.mul" => do let a ← tensor; let b ← tensor; pure (respond (a.mul b) rTensor)
  | "t.had" => do let a ← tensor; let b ← tensor; let s ← flt; pure (respond (a.hadamard b s) rTensor)
  | "t.divs" => do let a ← tensor; let s ← flt; pure ("ok " ++ rTensor (a.divScalar s))
  | "t.mean" => do
    let a ← tensor; let k ← nat; let os ← many tensor k
    pure (respond (a.mean os) rTensor)
  | "t.product" => do let a ← tensor; let b ← tensor; pure (respond (a.product b) rTensor)
  | "t.dot" => do let a ← tensor; let b ← tensor; pure (respond (a.dot b) rTensor)
  | "t.transpose" => do let a ← tensor; pure (respond a.transpose rTensor)
  | "t.clamp" => do let a ← tensor; let lo ← flt; let hi ← flt; pure (respond (a.clamp lo hi) rTensor)
  | "t.addnested" => do
    let k ← nat; let a ← many tensor k; let k2 ← nat; let b ← many tensor k2
    pure (respond (Tensor.addNested a b) (fun l => " ".intercalate (l.map rTensor)))
  | "t.subnested" => do
    let k ← nat; let a ← many tensor k; let k2 ← nat; let b ← many tensor k2
    pure (respond (Tensor.subNested a b) (fun l => " ".intercalate (l.map rTensor)))
  | "t.mulnested" => do
    let k ← nat; let a ← many tensor k; let k2 ← nat; let b ← many tensor k2
    pure (respond (Tensor.mulNested a b) (fun l => " ".intercalate (l.map rTensor)))
  | "t.addnestedopt" => do
    let k ← nat; let a ← many optTensor k; let k2 ← nat; let b ← many optTensor k2
    pure (respond (Tensor.addNestedOpt a b) (fun l => " ".intercalate (l.map rOptTensor)))
  | "t.divnested" => do
    let k ← nat; let a ← many tensor k; let s ← flt
    pure ("ok " ++ " ".intercalate ((Tensor.divScalarNested a s).map rTensor))
  | "t.pad3d" => do
    let t ← tensor; let ih ← nat; let iw ← nat
    match t.data with
    | .triple d => pure (respond (Tensor.pad3d d ih iw) (fun v => s!"{v.length} {v.map (·.map List.length)} {rV3 v}"))
    | _ => throw "pad3d needs a 3-D tensor"
  | "t.had3d" => do
    let a ← tensor; let b ← tensor; let s ← flt
    match a.data, b.data with
    | .triple x, .triple y => pure ("ok " ++ rV3 (Tensor.hadamard3d x y s))
    | _, _ => throw "had3d needs 3-D tensors"
  | "t.argmax" => do let a ← tensor; pure (respond a.argmax toString)
  | "t.zeros" => do let s ← shape; pure (respond (Tensor.zeros (α := F) s) rTensor)
  | "t.ones" => do let s ← shape; pure (respond (Tensor.ones (α := F) s) rTensor)
  /- activation.rs / objective.rs / optimizer.rs -/
  | "act.fwd" => do let a ← act; let t ← tensor; pure (respond (a.forward t) rTensor)
  | "act.bwd" => do let a ← act; let t ← tensor; pure (respond (a.backward t) rTensor)
  | "obj.loss" => do
    let o ← obj; let c ← clampOpt; let p ← tensor; let t ← tensor
    pure (respond (o.loss c p t) (fun r => s!"{rF r.1} {rTensor r.2}"))
  | "opt.run" => do
    let o ← optimizer
    let params ← table
    let zeros := params.map (·.map (·.map (Tensor.mapData (fun _ => (0 : F)))))
    let mut o := Optimizer.validated o zeros
    let mut params := params
    let n ← nat
    let mut out : List String := []
    let mut failed : Option Err := none
    for _ in [0:n] do
      let layer ← nat; let filter ← nat; let bias ← boolean; let stepnr ← nat; let g ← tensor
      if failed.isNone then
        let b := if bias then 1 else 0
        match Optimizer.getSlot params layer filter b with
        | .error e => failed := some e
        | .ok v =>
          match o.update layer filter bias stepnr v g with
          | .error e => failed := some e
          | .ok (o', v', g') =>
            o := o'
            params := Optimizer.setSlot params layer filter b v'
            out := out ++ [rTensor v', rTensor g']
    match failed with
    | some e => pure ("err " ++ e.toString)
    | none =>
      let all := params.flatMap (·.flatMap (·.map rTensor))
      pure ("ok " ++ " ".intercalate (out ++ all))
  /- network.rs / feedback.rs / layers -/
  | "net" => do
    let n ← network
    let cmd0 ← tok
    -- "warm": the implementation evaluates the network before and after configuring it; the model has no memory
    let cmd ← (if cmd0 = "warm" then tok else pure cmd0)
    match cmd with
    | "shapes" =>
      pure (respond n (fun n =>
        let ps := match n.parameters with | .ok p => toString p | .error _ => "err"
        " ".intercalate (n.layers.map rLayerShapes) ++ s!" params {ps} connect {n.connect.length} loops {n.loopbacks.length}"))
    | "connectmap" =>
      pure (respond n (fun n => toString ((n.connect.toArray.qsort (fun a b => a.1 < b.1)).toList)))
    | "predict" => do
      let x ← tensor
      pure (respond (n.bind (fun n => n.predict x)) rTensor)
    | "forward" => do
      let x ← tensor
      pure (respond (n.bind (fun n => n.forward x)) (fun t =>
        " ".intercalate (t.pre.map rTensor) ++ " | " ++ " ".intercalate (t.act.map rTensor)))
    | "backward" => do
      let x ← tensor; let t ← tensor
      pure (respond (n.bind (fun n => n.sampleGradients x t)) (fun r =>
        rF r.2.2.1 ++ " " ++ " ".intercalate (r.1.map rW) ++ " | " ++ " ".intercalate (r.2.1.map rB)))
    | "flags" => pure (respond n (fun n => " ".intercalate (n.flags.map rBool)))
    | "predict_batch" => do
      let k ← nat; let xs ← many tensor k
      pure (respond (n.bind (fun n => n.predictBatch xs)) (fun ys => " ".intercalate (ys.map rTensor)))
    | "validate" => do
      let k ← nat; let (xs, ts) ← samples k; let tol ← flt; let train ← boolean
      pure (respond (n.bind (fun n => (if train then n.setAllTraining true else n).validate xs ts tol))
        (fun r => s!"{rF r.2.1} {rF r.2.2} flags " ++ " ".intercalate (r.1.flags.map rBool)))
    | "relearn" => do
      -- `learn` called twice on one network: the second run starts from the parameters AND the optimizer state the
      -- first one left behind; the second run's histories are reported
      let k ← nat; let (xs, ts) ← samples k
      let hasVal ← boolean
      let val ← if hasVal then (do
          let kv ← nat; let (vx, vt) ← samples kv; let thr ← nat
          pure (some (vx, vt, thr))) else pure none
      let batch ← nat; let epochs ← nat
      let ns ← nat; let script ← many flt ns
      let _print ← optTrailingNat
      pure (respond (n.bind (fun n => (n.learn xs ts val batch epochs script).bind (fun r1 => r1.net.learn xs ts val batch epochs script))) (fun r =>
        s!"{r.trainLoss.length} {r.valLoss.length} {r.valAcc.length} " ++ rV1 r.trainLoss ++ " | " ++ rV1 r.valLoss ++ " | " ++
          rV1 r.valAcc ++ " | " ++ rNetParams r.net ++ " flags " ++ " ".intercalate (r.net.flags.map rBool)))
    | "learnon" => do
      -- every training flag is already set when `learn` is entered
      let k ← nat; let (xs, ts) ← samples k
      let hasVal ← boolean
      let val ← if hasVal then (do
          let kv ← nat; let (vx, vt) ← samples kv; let thr ← nat
          pure (some (vx, vt, thr))) else pure none
      let batch ← nat; let epochs ← nat
      let ns ← nat; let script ← many flt ns
      -- `print` (how often progress is printed): has no effect on what `learn` computes, so the model ignores it
      let _print ← optTrailingNat
      pure (respond (n.bind (fun n => (n.setAllTraining true).learn xs ts val batch epochs script)) (fun r =>
        s!"{r.trainLoss.length} {r.valLoss.length} {r.valAcc.length} " ++ rV1 r.trainLoss ++ " | " ++ rV1 r.valLoss ++ " | " ++
          rV1 r.valAcc ++ " | " ++ rNetParams r.net ++ " flags " ++ " ".intercalate (r.net.flags.map rBool)))
    | "learn" => do
      let k ← nat; let (xs, ts) ← samples k
      let hasVal ← boolean
      let val ← if hasVal then (do
          let kv ← nat; let (vx, vt) ← samples kv; let thr ← nat
          pure (some (vx, vt, thr))) else pure none
      let batch ← nat; let epochs ← nat
      let ns ← nat; let script ← many flt ns
      -- `print` (how often progress is printed): has no effect on what `learn` computes, so the model ignores it
      let _print ← optTrailingNat
      pure (respond (n.bind (fun n => n.learn xs ts val batch epochs script)) (fun r =>
        s!"{r.trainLoss.length} {r.valLoss.length} {r.valAcc.length} " ++ rV1 r.trainLoss ++ " | " ++ rV1 r.valLoss ++ " | " ++
          rV1 r.valAcc ++ " | " ++ rNetParams r.net ++ " flags " ++ " ".intercalate (r.net.flags.map rBool)))
    | _ => throw s!"unknown net command {cmd}"
  /- random.rs -/
  | "rnd.tof32" => do let n ← nat; pure s!"ok {Rng.toF32 n}"
  | "rnd.generate" => do
    let seed ← nat; let lo ← flt; let hi ← flt; let n ← nat
    pure (respond (Rng.generateN lo hi n (Rng.create seed)) (fun r => s!"{r.1.current} {rV1 r.2}"))
  | "rnd.tensor" => do
    -- `Tensor::random` is seeded from the clock: only the recorded shape, the nested extents and the
    -- range of the values can be compared; the model draws from an arbitrary state
    let sh ← shape; let lo ← flt; let hi ← flt
    pure (respond (Rng.randomTensor (Rng.create 1) sh lo hi) (fun t =>
      let skel := match t.data with
        | .single v => s!"{rShape t.shape} [1 {v.length}]"
        | .double v => s!"{rShape t.shape} [2 {v.length} {(v.map List.length)}]"
        | .triple v => s!"{rShape t.shape} [3 {v.length} {(v.map (fun (m : V2 F) => m.map List.length))}]"
        | .quadruple v => s!"{rShape t.shape} [4 {v.length} {(v.map (fun (k : V3 F) => k.map (fun (m : V2 F) => m.map List.length)))}]"
      let ok (x : F) : Bool := !(Scalar.lt x lo) && !(Scalar.lt hi x)
      let inRange := match t.data with
        | .single v => v.all ok
        | .double v => v.all (·.all ok)
        | .triple v => v.all (·.all (·.all ok))
        | .quadruple v => v.all (·.all (·.all (·.all ok)))
      s!"{skel} inrange {rBool inRange}"))
  | "rnd.mixed" => do
    -- a sequence of draws and shuffles on ONE generator: `g lo hi` (one draw) or `s n` (shuffle 0..n-1)
    let seed ← nat; let k ← nat
    let mut g := Rng.create seed
    let mut out : List String := []
    let mut failed : Option Err := none
    for _ in [0:k] do
      let kind ← tok
      if kind == "g" then
        let lo ← flt; let hi ← flt
        if failed.isNone then
          match Rng.generate g lo hi with
          | .ok (g', v) => g := g'; out := out ++ [rF v]
          | .error e => failed := some e
      else
        let n ← nat
        if failed.isNone then
          match Rng.shuffle F g (List.range n) with
          | .ok (g', l) => g := g'; out := out ++ ["[" ++ rNats l ++ "]"]
          | .error e => failed := some e
    match failed with
    | some e => pure s!"err {e.toString}"
    | none => pure s!"ok {g.current} {" ".intercalate out}"
  | "obj.reset" => do
    -- `set_objective` called twice on one network: the second call decides alone
    let _o1 ← obj; let _c1 ← clampOpt
    let o ← obj; let c ← clampOpt; let p ← tensor; let t ← tensor
    pure (respond (o.loss c p t) (fun r => s!"{rF r.1} {rTensor r.2}"))
  | "obj.seq" => do
    -- one objective value evaluated on several pairs in a row: the model's objective has no state
    let o ← obj; let c ← clampOpt; let k ← nat
    let pairs ← many (do let p ← tensor; let t ← tensor; pure (p, t)) k
    let outs := pairs.map (fun (p, t) => match o.loss c p t with
      | .ok r => s!"{rF r.1} {rTensor r.2}"
      | .error _ => "reject")
    pure ("ok " ++ " | ".intercalate outs)
  | "rnd.shuffle" => do
    let seed ← nat; let n ← nat; let vals ← many nat n
    pure (respond (Rng.shuffle F (Rng.create seed) vals) (fun r => s!"{r.1.current} {rNats r.2}"))
  | _ => throw s!"unknown op {op}"

def handleLine (line : String) : String :=
  let toks := (line.trimAscii.toString.splitOn " ").filter (· ≠ "")
  match toks with
  | [] => "bad empty"
  | op :: args =>
    match (handle op).run args with
    | .ok (out, []) => out
    | .ok (_, rest) => s!"bad trailing {rest.length}"
    | .error e => s!"bad {e}"

partial def loop (h : IO.FS.Stream) (out : IO.FS.Stream) : IO Unit := do
  let line ← h.getLine
  if line.isEmpty then return ()
  out.putStrLn (handleLine line)
  loop h out

def main : IO Unit := do
  let stdin ← IO.getStdin
  let stdout ← IO.getStdout
  loop stdin stdout
  stdout.flush
