import Model.Tensor

/-! # Activation functions (`src/activation.rs`) -/

inductive Act
  | relu | leaky | sigmoid | softmax | tanh | linear
  deriving Repr, DecidableEq, Inhabited

namespace Act
variable {α : Type} [Scalar α]
open Scalar

/-- leaky-ReLU slope, the literal `0.01` -/
def alpha : α := lit 1 (-2)

def sigmoidS (v : α) : α := 1 / (1 + exp (-v))

/-- element-wise forward of the five element-wise activations -/
def f : Act → α → α
  | .relu, v => fmax v 0                              -- `v.max(0.0)`
  | .leaky, v => if lt 0 v then v else alpha * v      -- `if v > 0.0 { v } else { alpha * v }`
  | .sigmoid, v => sigmoidS v
  | .tanh, v => Scalar.tanh v
  | .linear, v => v
  | .softmax, v => v                                  -- not element-wise; handled separately

/-- element-wise derivative as the code computes it -/
def df : Act → α → α
  | .relu, v => if lt 0 v then 1 else 0
  | .leaky, v => if lt 0 v then 1 else alpha
  | .sigmoid, v => let y := sigmoidS v; y * (1 - y)
  | .tanh, v => 1 / sq (cosh v)                       -- `1.0 / v.cosh().powi(2)`
  | .linear, _ => 1
  | .softmax, _ => 1

/-- one copy per rank; the result's shape is read off the data (`data[0].len()`, `data[0][0].len()`),
    so an empty 3-D tensor is an index panic -/
def mapAct (g : α → α) (t : Tensor α) : Except Err (Tensor α) :=
  match t.data with
  | .single d => .ok ⟨.single d.length, .single (d.map g)⟩
  | .triple d =>
    match d with
    | (r :: m) :: _ => .ok ⟨.triple d.length (r :: m).length r.length, .triple (L.map3 g d)⟩
    | _ => .error .index
  | _ => .error .reject

/-- soft-max on a flat list: subtract the maximum, exponentiate, normalise (same pass order as Rust) -/
def softmaxL (x : List α) : List α :=
  let mx := x.foldl fmax negInf
  let exps := x.map (fun v => exp (v - mx))
  let sum := exps.foldl (· + ·) 0
  exps.map (· / sum)

def softmaxFwd (t : Tensor α) : Except Err (Tensor α) :=
  match t.getFlat with
  | .error e => .error e
  | .ok x => (Tensor.single (softmaxL x)).reshape t.shape

/-- the accumulation loop of `Softmax::backward`, for one `i`: `j` runs over the whole vector -/
def softmaxBwdRow (p : List α) (scalar : α) (pi : α) (i : Nat) : α :=
  (List.range p.length).foldl (fun acc j =>
    if i = j then acc + (pi * (1 - pi) - scalar)
    else acc - (pi * ((L.get? p j).getD 0) - scalar)) 0

def softmaxBwdL (x : List α) : List α :=
  let p := softmaxL x
  let scalar := Tensor.sumL (List.zipWith (· * ·) p p)
  (List.zip (List.range p.length) p).map (fun ip => softmaxBwdRow p scalar ip.2 ip.1)

def softmaxBwd (t : Tensor α) : Except Err (Tensor α) :=
  match softmaxFwd t with
  | .error e => .error e
  | .ok y =>
    match y.getFlat, t.getFlat with
    | .ok _, .ok x => (Tensor.single (softmaxBwdL x)).reshape t.shape
    | .error e, _ => .error e
    | _, .error e => .error e

def forward (a : Act) (t : Tensor α) : Except Err (Tensor α) :=
  match a with
  | .softmax => softmaxFwd t
  | .linear => .ok t
  | a => mapAct (f a) t

def backward (a : Act) (t : Tensor α) : Except Err (Tensor α) :=
  match a with
  | .softmax => softmaxBwd t
  | .linear => Tensor.ones t.shape
  | a => mapAct (df a) t

end Act
