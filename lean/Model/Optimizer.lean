import Model.Tensor

/-! # Optimizers (`src/optimizer.rs`)

Per-element steps are scalar functions on a `Slot` (weight, gradient and up to three state scalars);
the tensor-level update applies them through the rank-specific n-ary zips of `Model/Tensor.lean`
(one copy per rank, as in Rust).  State tables are indexed `[layer][filter][bias]` exactly as in Rust.
-/

structure Slot (α : Type) where
  w : α
  g : α
  s1 : α
  s2 : α
  s3 : α

/-- optimizer kind and hyper-parameters -/
inductive OptKind (α : Type)
  | sgd (lr : α) (decay : Option α)
  | sgdm (lr momentum dampening : α) (decay : Option α)
  | adam (lr beta1 beta2 epsilon : α) (decay : Option α)
  | adamw (lr beta1 beta2 epsilon decay : α)
  | rmsprop (lr alpha epsilon : α) (decay momentum : Option α) (centered : Bool)

abbrev Table (α : Type) := List (List (List (Tensor α)))

/-- an optimizer: its kind and up to three state tables indexed `[layer][filter][bias]`
    (SGDM: `t1` = velocity; Adam/AdamW: `t1` = momentum, `t2` = velocity;
     RMSprop: `t1` = velocity, `t2` = gradient average, `t3` = momentum buffer) -/
structure Optimizer (α : Type) where
  kind : OptKind α
  t1 : Table α
  t2 : Table α
  t3 : Table α

namespace Optimizer
variable {α : Type} [Scalar α]
open Scalar

/-- `gradients[i] += decay * weights[i]` when a decay is configured -/
def decayed (decay : Option α) (w g : α) : α :=
  match decay with
  | some d => g + d * w
  | none => g

def sgdStep (lr : α) (decay : Option α) (s : Slot α) : Slot α :=
  let g := decayed decay s.w s.g
  { s with g := g, w := s.w - lr * g }

/-- `s1` = velocity -/
def sgdmStep (lr momentum dampening : α) (decay : Option α) (stepnr : Nat) (s : Slot α) : Slot α :=
  let g := decayed decay s.w s.g
  if stepnr > 1 && !(beq momentum 0) then
    let v := s.s1 * momentum + (1 - dampening) * g
    { s with s1 := v, g := v, w := s.w - lr * v }
  else
    { s with s1 := g, g := g, w := s.w - lr * g }

/-- `s1` = momentum (first moment), `s2` = velocity (second moment) -/
def adamStep (lr beta1 beta2 epsilon : α) (decay : Option α) (stepnr : Nat) (s : Slot α) : Slot α :=
  let g := decayed decay s.w s.g
  let m := s.s1 * beta1 + g * (1 - beta1)
  let v := s.s2 * beta2 + powf g two * (1 - beta2)
  let mh := m / (1 - powi beta1 stepnr)
  let vh := v / (1 - powi beta2 stepnr)
  { s with g := g, s1 := m, s2 := v, w := s.w - lr * mh / (sqrt vh + epsilon) }

def adamwStep (lr beta1 beta2 epsilon decay : α) (stepnr : Nat) (s : Slot α) : Slot α :=
  let w := s.w - lr * decay * s.w
  let m := s.s1 * beta1 + s.g * (1 - beta1)
  let v := s.s2 * beta2 + powf s.g two * (1 - beta2)
  let mh := m / (1 - powi beta1 stepnr)
  let vh := v / (1 - powi beta2 stepnr)
  { s with s1 := m, s2 := v, w := w - lr * mh / (sqrt vh + epsilon) }

/-- `s1` = velocity (square average), `s2` = gradient average (centred), `s3` = momentum buffer.
    The centred variance is clamped at zero before the square root (repair of D10). -/
def rmspropStep (lr alpha epsilon : α) (decay momentum : Option α) (centered : Bool) (s : Slot α) : Slot α :=
  let g := decayed decay s.w s.g
  let vel := alpha * s.s1 + (1 - alpha) * powf g two
  let (gavg, v) :=
    if centered then
      let ga := alpha * s.s2 + (1 - alpha) * g
      (ga, fmax (vel - powf ga two) 0)
    else (s.s2, vel)
  match momentum with
  | some mu =>
    let b := mu * s.s3 + g / (sqrt v + epsilon)
    { w := s.w - lr * b, g := g, s1 := vel, s2 := gavg, s3 := b }
  | none =>
    { w := s.w - lr * g / (sqrt v + epsilon), g := g, s1 := vel, s2 := gavg, s3 := s.s3 }

/-- apply a slot step through the rank-specific zips: five parallel tensors in, five out -/
def applyStep (step : Slot α → Slot α) (w g s1 s2 s3 : Tensor α) :
    Except Err (Tensor α × Tensor α × Tensor α × Tensor α × Tensor α) :=
  let mk (x : α) (os : List α) : Slot α :=
    match os with
    | [a, b, c, d] => ⟨x, a, b, c, d⟩
    | _ => ⟨x, 0, 0, 0, 0⟩
  -- each output is computed with `self` = the tensor it replaces, so that its shape field is kept
  let others (self : Nat) : List (Tensor α) := ([w, g, s1, s2, s3].zip (List.range 5)).filterMap (fun p => if p.2 = self then none else some p.1)
  let slotOf (self : Nat) (x : α) (os : List α) : Slot α :=
    match self, os with
    | 0, [a, b, c, d] => ⟨x, a, b, c, d⟩
    | 1, [a, b, c, d] => ⟨a, x, b, c, d⟩
    | 2, [a, b, c, d] => ⟨a, b, x, c, d⟩
    | 3, [a, b, c, d] => ⟨a, b, c, x, d⟩
    | 4, [a, b, c, d] => ⟨a, b, c, d, x⟩
    | _, _ => mk x os
  match Tensor.nzip (fun x os => (step (slotOf 0 x os)).w) w (others 0),
        Tensor.nzip (fun x os => (step (slotOf 1 x os)).g) g (others 1),
        Tensor.nzip (fun x os => (step (slotOf 2 x os)).s1) s1 (others 2),
        Tensor.nzip (fun x os => (step (slotOf 3 x os)).s2) s2 (others 3),
        Tensor.nzip (fun x os => (step (slotOf 4 x os)).s3) s3 (others 4) with
  | .ok a, .ok b, .ok c, .ok d, .ok e => .ok (a, b, c, d, e)
  | .error e, _, _, _, _ => .error e
  | _, .error e, _, _, _ => .error e
  | _, _, .error e, _, _ => .error e
  | _, _, _, .error e, _ => .error e
  | _, _, _, _, .error e => .error e

/-- state addressing `table[layer][filter][bias as usize]` -/
def getSlot (t : Table α) (layer filter bias : Nat) : Except Err (Tensor α) :=
  match L.get? t layer with
  | none => .error .index
  | some l => match L.get? l filter with
    | none => .error .index
    | some f => match L.get? f bias with
      | none => .error .index
      | some v => .ok v

def setSlot (t : Table α) (layer filter bias : Nat) (v : Tensor α) : Table α :=
  L.modAt (fun l => L.modAt (fun f => L.modAt (fun _ => v) f bias) l filter) t layer

end Optimizer

namespace OptKind
variable {α : Type} [Scalar α]
open Scalar Optimizer

/-- number of state tables the kind reads and writes -/
def uses : OptKind α → Nat
  | .sgd .. => 0 | .sgdm .. => 1 | .adam .. => 2 | .adamw .. => 2 | .rmsprop .. => 3

/-- the per-element update rule -/
def step (k : OptKind α) (stepnr : Nat) : Slot α → Slot α :=
  match k with
  | .sgd lr decay => sgdStep lr decay
  | .sgdm lr mo da decay => sgdmStep lr mo da decay stepnr
  | .adam lr b1 b2 ep decay => adamStep lr b1 b2 ep decay stepnr
  | .adamw lr b1 b2 ep decay => adamwStep lr b1 b2 ep decay stepnr
  | .rmsprop lr al ep decay mo c => rmspropStep lr al ep decay mo c

/-- `Optimizer::validate`: zero hyper-parameters are replaced by the documented defaults -/
def validate (k : OptKind α) : OptKind α :=
  let d (x dflt : α) : α := if beq x 0 then dflt else x
  match k with
  | .sgd lr decay => .sgd (d lr (lit 1 (-1))) decay
  | .sgdm lr mo da decay => .sgdm (d lr (lit 1 (-1))) (d mo (lit 9 (-1))) da decay
  | .adam lr b1 b2 ep decay => .adam (d lr (lit 1 (-3))) (d b1 (lit 9 (-1))) (d b2 (lit 999 (-3))) (d ep (lit 1 (-8))) decay
  | .adamw lr b1 b2 ep decay => .adamw (d lr (lit 1 (-3))) (d b1 (lit 9 (-1))) (d b2 (lit 999 (-3))) (d ep (lit 1 (-8))) decay
  | .rmsprop lr al ep decay mo c => .rmsprop (d lr (lit 1 (-2))) (d al (lit 99 (-2))) (d ep (lit 1 (-8))) decay mo c

end OptKind

namespace Optimizer
variable {α : Type} [Scalar α]
open Scalar

/-- `create` followed by `validate(vectors)`: defaults substituted, state tables allocated (zeros) -/
def validated (k : OptKind α) (vectors : Table α) : Optimizer α :=
  ⟨k.validate, vectors, vectors, vectors⟩

/-- a tensor that stands in for unused state in `applyStep` -/
def dummyLike (t : Tensor α) : Tensor α := Tensor.mapData (fun _ => 0) t

/-- read state table number `i` (1-based) if the kind uses it -/
def readState (o : Optimizer α) (i : Nat) (t : Table α) (layer filter b : Nat) (z : Tensor α) : Except Err (Tensor α) :=
  if i ≤ o.kind.uses then getSlot t layer filter b else .ok z

def writeState (o : Optimizer α) (i : Nat) (t : Table α) (layer filter b : Nat) (v : Tensor α) : Table α :=
  if i ≤ o.kind.uses then setSlot t layer filter b v else t

/-- `Optimizer::update`: returns the new optimizer (state), values and gradients -/
def update (o : Optimizer α) (layer filter : Nat) (bias : Bool) (stepnr : Nat) (values grads : Tensor α) :
    Except Err (Optimizer α × Tensor α × Tensor α) :=
  let b := if bias then 1 else 0
  let z := dummyLike values
  match readState o 1 o.t1 layer filter b z, readState o 2 o.t2 layer filter b z, readState o 3 o.t3 layer filter b z with
  | .error e, _, _ => .error e
  | _, .error e, _ => .error e
  | _, _, .error e => .error e
  | .ok s1, .ok s2, .ok s3 =>
    match applyStep (o.kind.step stepnr) values grads s1 s2 s3 with
    | .error e => .error e
    | .ok (w, g, s1', s2', s3') =>
      .ok (⟨o.kind, writeState o 1 o.t1 layer filter b s1', writeState o 2 o.t2 layer filter b s2',
            writeState o 3 o.t3 layer filter b s3'⟩, w, g)

/-- one entry of a history: which slot, which step number, which gradient -/
structure Step (α : Type) where
  layer : Nat
  filter : Nat
  bias : Bool
  stepnr : Nat
  grad : Tensor α

/-- run a history through `update`, keeping the parameter table -/
def run : Optimizer α → Table α → List (Step α) → Except Err (Optimizer α × Table α)
  | o, params, [] => .ok (o, params)
  | o, params, s :: rest =>
    let b := if s.bias then 1 else 0
    match getSlot params s.layer s.filter b with
    | .error e => .error e
    | .ok v =>
      match update o s.layer s.filter s.bias s.stepnr v s.grad with
      | .error e => .error e
      | .ok (o', v', _) => run o' (setSlot params s.layer s.filter b v') rest

end Optimizer
