import Model.Scalar

/-!
# Tensors (`src/tensor.rs`)

`Vec<Vec<Vec<f32>>>` is a nested `List`; the recorded `Shape` is a separate field exactly as in
Rust, so "the recorded shape matches the data" is a statement, not a definition.
Panics are `Except Err`.
-/

/-- Classes of panics of the Rust code. -/
inductive Err
  | shape          -- assert_eq_shape! / assert_eq! on element counts
  | index          -- index out of bounds / unwrap on None
  | arith          -- usize underflow / overflow (debug profile)
  | reject         -- explicit panic!/assert! rejecting a configuration
  | unimplemented  -- unimplemented! / unsupported data kind
  | nan            -- "Loss is NaN. Aborting."
  | ambiguous      -- behaviour of the Rust code depends on HashMap iteration order
  deriving Repr, DecidableEq, Inhabited

def Err.toString : Err → String
  | .shape => "shape" | .index => "index" | .arith => "arith" | .reject => "reject"
  | .unimplemented => "unimplemented" | .nan => "nan" | .ambiguous => "ambiguous"

/-- checked `usize` subtraction (debug profile) -/
def checkedSub (a b : Nat) : Except Err Nat := if b ≤ a then .ok (a - b) else .error .arith

inductive Shape
  | single (n : Nat)
  | double (r c : Nat)
  | triple (c h w : Nat)
  | quadruple (a b c d : Nat)
  | nested (n : Nat)
  deriving Repr, DecidableEq, Inhabited

def Shape.count : Shape → Nat
  | .single n => n | .double r c => r * c | .triple c h w => c * h * w
  | .quadruple a b c d => a * b * c * d | .nested n => n

abbrev V1 (α : Type) := List α
abbrev V2 (α : Type) := List (List α)
abbrev V3 (α : Type) := List (List (List α))
abbrev V4 (α : Type) := List (List (List (List α)))

inductive Data (α : Type)
  | single (v : V1 α)
  | double (v : V2 α)
  | triple (v : V3 α)
  | quadruple (v : V4 α)
  deriving Repr, Inhabited

structure Tensor (α : Type) where
  shape : Shape
  data : Data α
  deriving Repr, Inhabited

/-! ## list primitives (own structural recursion; specs are separate theorems) -/

namespace L
variable {β γ : Type}

/-- functional index update; out of range leaves the list unchanged -/
def modAt (f : β → β) : List β → Nat → List β
  | [], _ => []
  | y :: ys, 0 => f y :: ys
  | y :: ys, n+1 => y :: modAt f ys n

/-- checked indexing (`v[i]`, panics → `Err.index`) -/
def get? : List β → Nat → Option β
  | [], _ => none
  | y :: _, 0 => some y
  | _ :: ys, n+1 => get? ys n

def get (l : List β) (i : Nat) : Except Err β :=
  match get? l i with
  | some v => .ok v
  | none => .error .index

/-- `slice.chunks(n)` (`par_chunks`): consecutive groups of `n`, the last may be shorter. `n ≥ 1`. -/
def chunksAux (n : Nat) : Nat → List β → List (List β)
  | 0, _ => []
  | fuel+1, l => match l with
    | [] => []
    | _ :: _ => l.take n :: chunksAux n fuel (l.drop n)

def chunks (n : Nat) (l : List β) : List (List β) := chunksAux n l.length l

/-- `slice.chunks_exact(n)`: an incomplete last group is dropped. -/
def chunksExact (n : Nat) (l : List β) : List (List β) :=
  (chunks n l).filter (fun c => c.length == n)

/-- take `k` rows of width `w` off the front; `Err.index` when the data runs out (`iter.next().unwrap()`) -/
def takeRows (w : Nat) : Nat → List β → Except Err (List (List β) × List β)
  | 0, l => .ok ([], l)
  | k+1, l =>
    if l.length < w then .error .index else
    match takeRows w k (l.drop w) with
    | .ok (rows, rest) => .ok (l.take w :: rows, rest)
    | .error e => .error e

def takeMats (h w : Nat) : Nat → List β → Except Err (List (List (List β)) × List β)
  | 0, l => .ok ([], l)
  | k+1, l =>
    match takeRows w h l with
    | .error e => .error e
    | .ok (m, rest) =>
      match takeMats h w k rest with
      | .ok (ms, rest') => .ok (m :: ms, rest')
      | .error e => .error e

/-- read a flat vector as `c × h × w`, row-major; surplus elements are ignored as the Rust iterator does -/
def toTriple (c h w : Nat) (l : List β) : Except Err (List (List (List β))) :=
  match takeMats h w c l with
  | .ok (ms, _) => .ok ms
  | .error e => .error e

def flatten2 (m : List (List β)) : List β := m.flatten
def flatten3 (t : List (List (List β))) : List β := (t.map List.flatten).flatten

def map2 (f : β → β) (m : V2 β) : V2 β := m.map (·.map f)
def map3 (f : β → β) (m : V3 β) : V3 β := m.map (·.map (·.map f))
def map4 (f : β → β) (m : V4 β) : V4 β := m.map (·.map (·.map (·.map f)))

/-- in-place zip (`a.iter_mut().zip(b.iter()).for_each(..)`): elements of `a` beyond the length of
    `b` are left as they are -/
def zipKeep (f : β → γ → β) : List β → List γ → List β
  | [], _ => []
  | x :: xs, [] => x :: xs
  | x :: xs, y :: ys => f x y :: zipKeep f xs ys

def zip1 (f : β → β → β) (a b : V1 β) : V1 β := zipKeep f a b
def zip2 (f : β → β → β) (a b : V2 β) : V2 β := zipKeep (zip1 f) a b
def zip3 (f : β → β → β) (a b : V3 β) : V3 β := zipKeep (zip2 f) a b
def zip4 (f : β → β → β) (a b : V4 β) : V4 β := zipKeep (zip3 f) a b

def replicate2 (r c : Nat) (v : β) : V2 β := List.replicate r (List.replicate c v)
def replicate3 (a r c : Nat) (v : β) : V3 β := List.replicate a (replicate2 r c v)
def replicate4 (f a r c : Nat) (v : β) : V4 β := List.replicate f (replicate3 a r c v)

def mapM' {ε : Type} (f : β → Except ε γ) : List β → Except ε (List γ)
  | [] => .ok []
  | x :: xs => match f x with
    | .error e => .error e
    | .ok y => match mapM' f xs with
      | .error e => .error e
      | .ok ys => .ok (y :: ys)

end L

namespace Tensor
variable {α : Type} [Scalar α]
open Scalar

/-- `iter.sum::<f32>()`: a left fold starting from `-0.0` (Rust ≥ 1.83) -/
def sumL (l : List α) : α := l.foldl (· + ·) (-(0 : α))

def single (v : V1 α) : Tensor α := ⟨.single v.length, .single v⟩

/-- `Tensor::double`: reads `data[0].len()` → panics on an empty outer vector -/
def double (v : V2 α) : Except Err (Tensor α) :=
  match v with
  | [] => .error .index
  | r :: _ => .ok ⟨.double v.length r.length, .double v⟩

def triple (v : V3 α) : Except Err (Tensor α) :=
  match v with
  | [] => .error .index
  | [] :: _ => .error .index
  | (r :: m) :: _ => .ok ⟨.triple v.length (r :: m).length r.length, .triple v⟩

def quadruple (v : V4 α) : Except Err (Tensor α) :=
  match v with
  | ((r :: m) :: c) :: _ => .ok ⟨.quadruple v.length ((r :: m) :: c).length (r :: m).length r.length, .quadruple v⟩
  | _ => .error .index

def zeros : Shape → Except Err (Tensor α)
  | .single n => .ok ⟨.single n, .single (List.replicate n 0)⟩
  | .double r c => .ok ⟨.double r c, .double (L.replicate2 r c 0)⟩
  | .triple c h w => .ok ⟨.triple c h w, .triple (L.replicate3 c h w 0)⟩
  | .quadruple a b c d => .ok ⟨.quadruple a b c d, .quadruple (L.replicate4 a b c d 0)⟩
  | .nested _ => .error .reject

def ones : Shape → Except Err (Tensor α)
  | .single n => .ok ⟨.single n, .single (List.replicate n 1)⟩
  | .double r c => .ok ⟨.double r c, .double (L.replicate2 r c 1)⟩
  | .triple c h w => .ok ⟨.triple c h w, .triple (L.replicate3 c h w 1)⟩
  | .quadruple a b c d => .ok ⟨.quadruple a b c d, .quadruple (L.replicate4 a b c d 1)⟩
  | .nested _ => .error .reject

/-- `Tensor::get_flat` -/
def getFlat (t : Tensor α) : Except Err (V1 α) :=
  match t.data with
  | .triple d => .ok (L.flatten3 d)
  | .single d => .ok d
  | _ => .error .unimplemented

/-- `Tensor::flatten`: the 3-D arm indexes `data[0][0]` for the capacity, so it panics on empty data -/
def flatten (t : Tensor α) : Except Err (Tensor α) :=
  match t.data with
  | .triple d =>
    match d with
    | (_ :: _) :: _ => let f := L.flatten3 d; .ok ⟨.single f.length, .single f⟩
    | _ => .error .index
  | .single d => .ok ⟨.single d.length, .single d⟩
  | _ => .error .unimplemented

/-- `Tensor::get_triple` -/
def getTriple (t : Tensor α) (outputs : Shape) : Except Err (V3 α) :=
  match t.data with
  | .single v =>
    match outputs with
    | .triple c h w => L.toTriple c h w v
    | _ => .error .reject
  | .triple d => .ok d
  | _ => .error .unimplemented

/-- `Tensor::reshape` -/
def reshape (t : Tensor α) (shape : Shape) : Except Err (Tensor α) :=
  match t.shape, shape with
  | .single _, .single _ => .ok t
  | .triple c h w, .triple c' h' w' =>
    if c * h * w ≠ c' * h' * w' then .error .shape else
    match t.getFlat with
    | .error e => .error e
    | .ok f => match L.toTriple c' h' w' f with
      | .error e => .error e
      | .ok d => .ok ⟨shape, .triple d⟩
  | .single n, .triple c' h' w' =>
    if n ≠ c' * h' * w' then .error .shape else
    match t.getFlat with
    | .error e => .error e
    | .ok f => match L.toTriple c' h' w' f with
      | .error e => .error e
      | .ok d => .ok ⟨shape, .triple d⟩
  | .triple c h w, .single n =>
    if c * h * w ≠ n then .error .shape else t.flatten
  | _, _ => .error .reject

/-! ### element-wise arithmetic: one copy per rank, as in Rust -/

/-- shared skeleton of `add_inplace`/`sub_inplace`/`mul_inplace`/`hadamard` -/
def zipOp (f : α → α → α) (a b : Tensor α) : Except Err (Tensor α) :=
  if a.shape ≠ b.shape then .error .shape else
  match a.data, b.data with
  | .single x, .single y => .ok ⟨a.shape, .single (L.zip1 f x y)⟩
  | .double x, .double y => .ok ⟨a.shape, .double (L.zip2 f x y)⟩
  | .triple x, .triple y => .ok ⟨a.shape, .triple (L.zip3 f x y)⟩
  | .quadruple x, .quadruple y => .ok ⟨a.shape, .quadruple (L.zip4 f x y)⟩
  | _, _ => .error .reject

def add (a b : Tensor α) : Except Err (Tensor α) := zipOp (· + ·) a b
def sub (a b : Tensor α) : Except Err (Tensor α) := zipOp (· - ·) a b
def mul (a b : Tensor α) : Except Err (Tensor α) := zipOp (· * ·) a b
/-- `*a = *a * b * scalar` -/
def hadamard (a b : Tensor α) (s : α) : Except Err (Tensor α) := zipOp (fun x y => x * y * s) a b

def mapData (f : α → α) (t : Tensor α) : Tensor α :=
  match t.data with
  | .single x => ⟨t.shape, .single (x.map f)⟩
  | .double x => ⟨t.shape, .double (L.map2 f x)⟩
  | .triple x => ⟨t.shape, .triple (L.map3 f x)⟩
  | .quadruple x => ⟨t.shape, .quadruple (L.map4 f x)⟩

def divScalar (t : Tensor α) (s : α) : Tensor α := mapData (· / s) t

/-- `Tensor::clamp` (`f32::clamp` asserts `min <= max`; an empty tensor never reaches the assertion) -/
def clamp (t : Tensor α) (lo hi : α) : Except Err (Tensor α) :=
  if le lo hi then .ok (mapData (fun x => clampRaw x lo hi) t)
  else match t.data with
    | .single [] => .ok t
    | _ => .error .reject

/-- nested `add_inplace` (`Data::Nested` arm): shapes `Nested(n)` must agree, then pairwise -/
def addNested (a b : List (Tensor α)) : Except Err (List (Tensor α)) :=
  if a.length ≠ b.length then .error .shape else
  L.mapM' (fun p => add p.1 p.2) (a.zip b)

/-- the `Data::Nested` arms of `sub_inplace` / `mul_inplace` (added by the repair of D17) -/
def subNested (a b : List (Tensor α)) : Except Err (List (Tensor α)) :=
  if a.length ≠ b.length then .error .shape else
  L.mapM' (fun p => sub p.1 p.2) (a.zip b)

def mulNested (a b : List (Tensor α)) : Except Err (List (Tensor α)) :=
  if a.length ≠ b.length then .error .shape else
  L.mapM' (fun p => mul p.1 p.2) (a.zip b)

def addNestedOpt (a b : List (Option (Tensor α))) : Except Err (List (Option (Tensor α))) :=
  if a.length ≠ b.length then .error .shape else
  L.mapM' (fun p => match p.1, p.2 with
    | some x, some y => match add x y with
      | .ok z => .ok (some z)
      | .error e => .error e
    | x, _ => .ok x) (a.zip b)

def divScalarNested (a : List (Tensor α)) (s : α) : List (Tensor α) := a.map (divScalar · s)

/-- pick the element at one index path out of every `other` tensor and sum (`.sum::<f32>()`) -/
def meanElem (v : α) (others : List α) (n : α) : α := (v + sumL others) / n

/-- first elements of every list; `none` if one of them is empty (`d[i]` out of bounds) -/
def heads {β : Type} : List (List β) → Option (List β)
  | [] => some []
  | [] :: _ => none
  | (x :: _) :: os => match heads os with
    | none => none
    | some hs => some (x :: hs)

/-- the n-ary in-place zip of `mean_inplace`: position `i` of `self` is combined with position `i`
    of every other operand (`Err.index` when one of them is shorter) -/
def meanG {γ : Type} (cell : γ → List γ → Except Err γ) : List γ → List (List γ) → Except Err (List γ)
  | [], _ => .ok []
  | v :: vs, os =>
    match heads os with
    | none => .error .index
    | some hs =>
      match cell v hs with
      | .error e => .error e
      | .ok c =>
        match meanG cell vs (os.map List.tail) with
        | .error e => .error e
        | .ok r => .ok (c :: r)

/-- n-ary element-wise combination at each rank: position `i…` of `self` with the same position of
    every other operand — one copy per rank, as in the Rust code (`mean_inplace`, optimizer updates) -/
def nzip1 (f : α → List α → α) (self : V1 α) (others : List (V1 α)) : Except Err (V1 α) :=
  meanG (fun v hs => .ok (f v hs)) self others
def nzip2 (f : α → List α → α) (self : V2 α) (others : List (V2 α)) : Except Err (V2 α) :=
  meanG (fun r rs => nzip1 f r rs) self others
def nzip3 (f : α → List α → α) (self : V3 α) (others : List (V3 α)) : Except Err (V3 α) :=
  meanG (fun m ms => nzip2 f m ms) self others
def nzip4 (f : α → List α → α) (self : V4 α) (others : List (V4 α)) : Except Err (V4 α) :=
  meanG (fun t ts => nzip3 f t ts) self others

def mean1 (self : V1 α) (others : List (V1 α)) (n : α) : Except Err (V1 α) := nzip1 (fun v hs => meanElem v hs n) self others
def mean2 (self : V2 α) (others : List (V2 α)) (n : α) : Except Err (V2 α) := nzip2 (fun v hs => meanElem v hs n) self others
def mean3 (self : V3 α) (others : List (V3 α)) (n : α) : Except Err (V3 α) := nzip3 (fun v hs => meanElem v hs n) self others
def mean4 (self : V4 α) (others : List (V4 α)) (n : α) : Except Err (V4 α) := nzip4 (fun v hs => meanElem v hs n) self others

def asSingle (o : Tensor α) : Except Err (V1 α) := match o.data with | .single x => .ok x | _ => .error .reject
def asDouble (o : Tensor α) : Except Err (V2 α) := match o.data with | .double x => .ok x | _ => .error .reject
def asTriple (o : Tensor α) : Except Err (V3 α) := match o.data with | .triple x => .ok x | _ => .error .reject
def asQuadruple (o : Tensor α) : Except Err (V4 α) := match o.data with | .quadruple x => .ok x | _ => .error .reject

/-- per-rank dispatch of `mean_inplace` once the shapes have been validated -/
def meanCore (self : Tensor α) (others : List (Tensor α)) : Except Err (Tensor α) :=
  let n : α := ofNat' (others.length + 1)
  match self.data with
  | .single d =>
    match L.mapM' asSingle others with
    | .error e => .error e
    | .ok os => match mean1 d os n with
      | .ok r => .ok ⟨self.shape, .single r⟩
      | .error e => .error e
  | .double d =>
    match L.mapM' asDouble others with
    | .error e => .error e
    | .ok os => match mean2 d os n with
      | .ok r => .ok ⟨self.shape, .double r⟩
      | .error e => .error e
  | .triple d =>
    match L.mapM' asTriple others with
    | .error e => .error e
    | .ok os => match mean3 d os n with
      | .ok r => .ok ⟨self.shape, .triple r⟩
      | .error e => .error e
  | .quadruple d =>
    match L.mapM' asQuadruple others with
    | .error e => .error e
    | .ok os => match mean4 d os n with
      | .ok r => .ok ⟨self.shape, .quadruple r⟩
      | .error e => .error e

/-- `Tensor::mean_inplace`: at least one other operand, all recorded shapes equal -/
def mean (self : Tensor α) (others : List (Tensor α)) : Except Err (Tensor α) :=
  match others with
  | [] => .error .reject
  | o :: os =>
    if (o :: os).all (fun t => t.shape == self.shape) then meanCore self (o :: os) else .error .shape

/-- n-ary element-wise combination of tensors of the same data kind (no shape validation: the
    optimizer code matches on the data kinds only and indexes by position) -/
def nzip (f : α → List α → α) (self : Tensor α) (others : List (Tensor α)) : Except Err (Tensor α) :=
  match self.data with
  | .single d =>
    match L.mapM' asSingle others with
    | .error e => .error e
    | .ok os => match nzip1 f d os with
      | .ok r => .ok ⟨self.shape, .single r⟩
      | .error e => .error e
  | .double d =>
    match L.mapM' asDouble others with
    | .error e => .error e
    | .ok os => match nzip2 f d os with
      | .ok r => .ok ⟨self.shape, .double r⟩
      | .error e => .error e
  | .triple d =>
    match L.mapM' asTriple others with
    | .error e => .error e
    | .ok os => match nzip3 f d os with
      | .ok r => .ok ⟨self.shape, .triple r⟩
      | .error e => .error e
  | .quadruple _ => .error .reject

/-- `Tensor::product` (outer product); the recorded shape reads `data[0]` -/
def product (a b : Tensor α) : Except Err (Tensor α) :=
  match a.data, b.data with
  | .single x, .single y =>
    match x with
    | [] => .error .index
    | _ :: _ => .ok ⟨.double x.length y.length, .double (x.map (fun p => y.map (fun q => p * q)))⟩
  | _, _ => .error .unimplemented

def dotRow (row x : V1 α) : α := sumL (List.zipWith (· * ·) row x)

/-- `Tensor::dot` (matrix · vector; rows are zipped with the vector, i.e. truncated to the shorter) -/
def dot (a b : Tensor α) : Except Err (Tensor α) :=
  match a.data, b.data with
  | .double m, .single x => .ok ⟨.single m.length, .single (m.map (dotRow · x))⟩
  | _, _ => .error .reject

/-- column `j` of a matrix given as rows; `Err.index` if some row is too short -/
def column (m : V2 α) (j : Nat) : Except Err (V1 α) := L.mapM' (fun r => L.get r j) m

/-- `Tensor::transpose`: result has `data[0].len()` rows; a longer later row is an index panic,
    a shorter one leaves zeros -/
def transpose (a : Tensor α) : Except Err (Tensor α) :=
  match a.data with
  | .double m =>
    match m with
    | [] => .error .index
    | r0 :: _ =>
      if m.any (fun r => r.length > r0.length) then .error .index else
      match r0 with
      | [] => .error .index   -- `transposed[0]` of an empty result
      | _ :: _ =>
        let t := (List.range r0.length).map (fun j => m.map (fun r => (L.get? r j).getD 0))
        .ok ⟨.double r0.length m.length, .double t⟩
  | _ => .error .unimplemented

/-- `tensor::hadamard3d` (no shape validation; zips truncate) -/
def hadamard3d (a b : V3 α) (s : α) : V3 α :=
  List.zipWith (List.zipWith (List.zipWith (fun x y => x * y * s))) a b

/-- place `row` into a row of `n` zeros starting at offset `off`, cropping at `n` (`pad3d` inner loop) -/
def padRow (row : V1 α) (n off : Nat) : V1 α :=
  (List.range n).map (fun j => if off ≤ j then (L.get? (row.take n) (j - off)).getD 0 else 0)

/-- one padded channel: `ih` rows of `iw` values; source row `i - dh` (cropped to `ih` rows) shifted by `dw` -/
def padChannel (ch : V2 α) (ih iw dh dw : Nat) : V2 α :=
  (List.range ih).map (fun i =>
    if dh ≤ i then
      match L.get? (ch.take ih) (i - dh) with
      | some row => padRow row iw dw
      | none => List.replicate iw 0
    else List.replicate iw 0)

/-- would a write `padded[c][h + dh][w + dw]` leave the target? (only possible for ragged data) -/
def padOutOfRange (data : V3 α) (ih iw dh dw : Nat) : Bool :=
  data.any (fun ch => (ch.take ih).any (fun row => (row.take iw).length + dw > iw) || (ch.take ih).length + dh > ih)

/-- `tensor::pad3d`: centre `data` in a zero tensor of spatial size `into`, cropping from the end when
    smaller.  The offsets are `(into - len)/2` when `into > len` (read off channel 0), else 0. -/
def pad3d (data : V3 α) (ih iw : Nat) : Except Err (V3 α) :=
  match data with
  | (r :: m) :: _ =>
    let h0 := (r :: m).length
    let w0 := r.length
    let dh := if ih > h0 then (ih - h0) / 2 else 0
    let dw := if iw > w0 then (iw - w0) / 2 else 0
    if padOutOfRange data ih iw dh dw then .error .index
    else .ok (data.map (fun ch => padChannel ch ih iw dh dw))
  | _ => .error .index

/-- `Tensor::argmax` via `max_by(partial_cmp().unwrap())`: last maximal index; NaN or empty → panic -/
def argmax (t : Tensor α) : Except Err Nat :=
  match t.data with
  | .single [] => .error .index
  | .single (x :: xs) =>
    if (x :: xs).any isNaN then
      (if xs.isEmpty then .ok 0 else .error .index)
    else
      let r := xs.foldl (fun (acc : Nat × Nat × α) v =>
        let (best, i, bv) := acc
        if lt v bv then (best, i + 1, bv) else (i + 1, i + 1, v)) (0, 0, x)
      .ok r.1
  | _ => .error .reject

end Tensor
