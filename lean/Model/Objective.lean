import Model.Tensor

/-! # Objective functions (`src/objective.rs`) -/

inductive Obj
  | ae | mae | mse | rmse | ce | bce | kl
  deriving Repr, DecidableEq, Inhabited

namespace Obj
variable {α : Type} [Scalar α]
open Scalar

def eps : α := lit 1 (-6)
/-- `predicted.clamp(eps, 1.0 - eps)` -/
def clampP (p : α) : α := clampRaw p eps (1 - eps)

/-- sign gradient of the absolute error -/
def signGrad (a p : α) : α := if beq a p then 0 else if lt p a then -1 else 1

/-- per-element loss term (before the reduction) and per-element gradient, `len` = number of targets -/
def term : Obj → α → α → α → α
  | .ae, _, a, p => abs (a - p)
  | .mae, _, a, p => abs (a - p)
  | .mse, len, a, p => sq (a - p) / len
  | .rmse, _, a, p => sq (a - p)
  | .ce, _, a, p => a * ln (clampP p)
  | .bce, _, a, p => let q := clampP p; a * ln q + (1 - a) * ln (1 - q)
  | .kl, _, a, p => if beq a 0 then 0 else a * ln (a / clampP p)   -- `0 · ln 0 = 0` (repair of D2)

def grad : Obj → α → α → α → α
  | .ae, _, a, p => signGrad a p
  | .mae, _, a, p => signGrad a p
  | .mse, len, a, p => -(two) * (a - p) / len
  | .rmse, len, a, p => if beq a p then 0 else -(a - p) / (sqrt (sq (a - p)) * len)
  | .ce, _, a, p => p - a
  | .bce, _, a, p => let q := clampP p; (q - a) / (q * (1 - q))
  | .kl, _, a, p => -a / clampP p

/-- the reduction of the per-element terms to the reported loss -/
def reduce : Obj → α → List α → α
  | .ae, _, ts => Tensor.sumL ts
  | .mae, len, ts => Tensor.sumL ts / len
  | .mse, _, ts => Tensor.sumL ts
  | .rmse, len, ts => sqrt (Tensor.sumL ts / len)
  | .ce, _, ts => -(Tensor.sumL ts)
  | .bce, _, ts => -(Tensor.sumL ts)
  | .kl, _, ts => Tensor.sumL ts

/-- `Function::loss`: `(loss, gradient)`; gradient built per rank (3-D / flat arms), then clamped -/
def loss (o : Obj) (clamp : Option (α × α)) (prediction target : Tensor α) : Except Err (α × Tensor α) :=
  match target.getFlat, prediction.getFlat with
  | .error e, _ => .error e
  | _, .error e => .error e
  | .ok tf, .ok pf =>
    let len : α := ofNat' tf.length
    let l := reduce o len (List.zipWith (fun a p => term o len a p) tf pf)
    let g : Except Err (Tensor α) :=
      match target.data, prediction.data with
      | .triple t, .triple p =>
        Tensor.triple (List.zipWith (List.zipWith (List.zipWith (fun a p => grad o len a p))) t p)
      | .single t, .single p => .ok (Tensor.single (List.zipWith (fun a p => grad o len a p) t p))
      | _, _ => .error .reject
    match g with
    | .error e => .error e
    | .ok g =>
      match clamp with
      | none => .ok (l, g)
      | some (lo, hi) =>
        match g.clamp lo hi with
        | .error e => .error e
        | .ok gc => .ok (l, gc)

end Obj
